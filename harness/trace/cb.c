// Sanitizer-coverage callbacks for the C14 trace harness (DESIGN 4.5).
// Folds (a) the sequence of edge ids and (b) the sequence of (load|store, size, address) into two
// running 64-bit hashes and two counters between trace_start() and trace_stop().
#include <stdint.h>
#include <stddef.h>

static volatile int tracing = 0;
static uint64_t ehash, mhash, ecount, mcount;
static uint32_t next_id = 0;

static inline uint64_t mix(uint64_t h, uint64_t v) { h ^= v; h *= 0x100000001b3ULL; h ^= h >> 29; return h; }

void trace_start(void) { ehash = 0xcbf29ce484222325ULL; mhash = 0x84222325cbf29ce4ULL; ecount = 0; mcount = 0; tracing = 1; }
void trace_stop(uint64_t out[4]) { tracing = 0; out[0] = ecount; out[1] = ehash; out[2] = mcount; out[3] = mhash; }

void __sanitizer_cov_trace_pc_guard_init(uint32_t *start, uint32_t *stop) {
  if (start == stop || *start) return;
  for (uint32_t *x = start; x < stop; x++) *x = ++next_id;
}
void __sanitizer_cov_trace_pc_guard(uint32_t *guard) {
  if (!tracing) return;
  ecount++; ehash = mix(ehash, *guard);
}
#define MEM(kind, sz) do { if (tracing) { mcount++; mhash = mix(mhash, ((uint64_t)(uintptr_t)addr) * 32 + (kind) * 16 + (sz)); } } while (0)
void __sanitizer_cov_load1(uint8_t *addr) { MEM(0, 0); }
void __sanitizer_cov_load2(uint16_t *addr) { MEM(0, 1); }
void __sanitizer_cov_load4(uint32_t *addr) { MEM(0, 2); }
void __sanitizer_cov_load8(uint64_t *addr) { MEM(0, 3); }
void __sanitizer_cov_load16(void *addr) { MEM(0, 4); }
void __sanitizer_cov_store1(uint8_t *addr) { MEM(1, 0); }
void __sanitizer_cov_store2(uint16_t *addr) { MEM(1, 1); }
void __sanitizer_cov_store4(uint32_t *addr) { MEM(1, 2); }
void __sanitizer_cov_store8(uint64_t *addr) { MEM(1, 3); }
void __sanitizer_cov_store16(void *addr) { MEM(1, 4); }
