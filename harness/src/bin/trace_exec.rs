// trace_exec: runs one traced operation per input line *in one process* (so addresses are comparable) and
// prints edge/memory trace digests (C14, DESIGN 4.5/4.6).  Built with sanitizer-coverage instrumentation on every crate.
#![allow(deprecated, clippy::all)]
use fips204::traits::Signer;
use fips204::verif_hooks as vh;
use std::io::BufRead;

extern "C" {
    fn trace_start();
    fn trace_stop(out: *mut u64);
}

struct Fixed { bytes: Vec<u8>, pos: usize }
impl rand_core::RngCore for Fixed {
    fn next_u32(&mut self) -> u32 { unimplemented!() }
    fn next_u64(&mut self) -> u64 { unimplemented!() }
    fn fill_bytes(&mut self, _d: &mut [u8]) { unimplemented!() }
    fn try_fill_bytes(&mut self, d: &mut [u8]) -> Result<(), rand_core::Error> {
        for x in d.iter_mut() { *x = self.bytes[self.pos % self.bytes.len()]; self.pos += 1; }
        Ok(())
    }
}
impl rand_core::CryptoRng for Fixed {}

fn hex(s: &str) -> Vec<u8> {
    if s == "-" { return vec![]; }
    (0..s.len() / 2).map(|i| u8::from_str_radix(&s[2 * i..2 * i + 2], 16).unwrap()).collect()
}
type P = [i32; 256];
fn poly(s: &str) -> P { let mut p = [0i32; 256]; for (i, t) in s.split(',').enumerate() { p[i] = t.parse().unwrap(); } p }
fn polys<const N: usize>(s: &str) -> [P; N] { let v: Vec<P> = s.split('|').map(poly).collect(); core::array::from_fn(|i| v[i]) }

#[inline(never)]
fn traced<F: FnOnce() -> u64>(f: F) -> String {
    let mut out = [0u64; 4];
    unsafe { trace_start(); }
    let sink = f();
    unsafe { trace_stop(out.as_mut_ptr()); }
    format!("edges={} ehash={:016x} mem={} mhash={:016x} sink={:x}", out[0], out[1], out[2], out[3], sink & 0xff)
}

fn fold(b: &[u8]) -> u64 { b.iter().fold(0u64, |h, x| h.wrapping_mul(31).wrapping_add(*x as u64)) }
fn foldp(p: &[P]) -> u64 { p.iter().flat_map(|x| x.iter()).fold(0u64, |h, x| h.wrapping_mul(31).wrapping_add(*x as u64)) }

#[inline(never)]
fn run(line: &str) -> String {
    let t: Vec<&str> = line.split_whitespace().collect();
    let a = &t[1..];
    match t[0] {
        // the constant-time test pipeline: keygen + sign with CTEST = true; the secret is the RNG output
        // (an `Err` is traced like any other outcome: a path that bails out on some RNG outputs shows as a shorter trace)
        "t.dudect" => {
            let mut rng = Fixed { bytes: hex(a[2]), pos: 0 };
            let msg = hex(a[1]);
            match a[0] {
                "44" => traced(|| fips204::ml_dsa_44::dudect_keygen_sign_with_rng(&mut rng, &msg).map(|s| fold(&s)).unwrap_or(0xE44)),
                "65" => traced(|| fips204::ml_dsa_65::dudect_keygen_sign_with_rng(&mut rng, &msg).map(|s| fold(&s)).unwrap_or(0xE44)),
                _ => traced(|| fips204::ml_dsa_87::dudect_keygen_sign_with_rng(&mut rng, &msg).map(|s| fold(&s)).unwrap_or(0xE44)),
            }
        }
        // sensitivity control: the normal pipeline (rejection sampling on) must *differ* between seeds
        "t.normal" => {
            let mut rng = Fixed { bytes: hex(a[2]), pos: 0 };
            let msg = hex(a[1]);
            traced(|| {
                let (_pk, sk) = fips204::ml_dsa_44::try_keygen_with_rng(&mut rng).unwrap();
                fold(&sk.try_sign_with_rng(&mut rng, &msg, &[]).unwrap())
            })
        }
        // kernels on secret coefficient vectors (public parameters in the line, secrets in the polynomial)
        "t.center_mod" => { let p = poly(a[0]); traced(|| p.iter().fold(0u64, |h, &x| h.wrapping_add(vh::center_mod(x) as u64))) }
        "t.full_reduce32" => { let p = poly(a[0]); traced(|| p.iter().fold(0u64, |h, &x| h.wrapping_add(vh::full_reduce32(x) as u64))) }
        "t.partial_reduce32" => { let p = poly(a[0]); traced(|| p.iter().fold(0u64, |h, &x| h.wrapping_add(vh::partial_reduce32(x) as u64))) }
        "t.mont_reduce" => { let p = poly(a[0]); traced(|| p.iter().fold(0u64, |h, &x| h.wrapping_add(vh::mont_reduce((x as i64) * 8380416) as u64))) }
        "t.infinity_norm" => { let p = polys::<4>(a[0]); traced(|| vh::infinity_norm::<4>(&p) as u64) }
        "t.is_in_range" => { let p = poly(a[0]); let (lo, hi) = (a[1].parse().unwrap(), a[2].parse().unwrap()); traced(|| vh::is_in_range(&p, lo, hi) as u64) }
        "t.power2round" => { let p = polys::<1>(a[0]); traced(|| { let (x, y) = vh::power2round::<1>(&p); foldp(&x) ^ foldp(&y) }) }
        "t.decompose" => { let p = poly(a[1]); let g: i32 = a[0].parse().unwrap(); traced(|| p.iter().fold(0u64, |h, &x| { let (r1, r0) = vh::decompose(g, x); h.wrapping_add((r1 ^ r0) as u64) })) }
        "t.make_hint" => { let z = poly(a[1]); let r = poly(a[2]); let g: i32 = a[0].parse().unwrap(); traced(|| (0..256).fold(0u64, |h, i| h.wrapping_add(vh::make_hint(g, z[i], r[i]) as u64))) }
        "t.bit_pack" => { let p = poly(a[2]); let (x, y): (i32, i32) = (a[0].parse().unwrap(), a[1].parse().unwrap()); let mut buf = [0u8; 640]; let n = 32 * vh::bit_length(x + y); traced(|| { vh::bit_pack(&p, x, y, &mut buf[..n]); fold(&buf[..n]) }) }
        "t.ntt" => { let p = polys::<1>(a[0]); traced(|| foldp(&vh::ntt::<1>(&p))) }
        "t.inv_ntt" => { let p = polys::<1>(a[0]); traced(|| foldp(&vh::inv_ntt::<1>(&p))) }
        "t.to_mont" => { let p = polys::<1>(a[0]); traced(|| foldp(&vh::to_mont::<1>(&p))) }
        "t.mat_vec_mul" => { let m = polys::<4>(a[0]); let u = polys::<4>(a[1]); traced(|| foldp(&vh::mat_vec_mul::<1, 4>(&[m], &u))) }
        // negative controls built into the crate: failing range check and hint packing without CTEST are input dependent
        "t.hint_pack" => { let p = polys::<4>(a[1]); let ct = a[0] == "1"; let mut out = [0u8; 84]; traced(|| { if ct { vh::hint_bit_pack::<true, 4>(80, &p, &mut out) } else { vh::hint_bit_pack::<false, 4>(80, &p, &mut out) }; fold(&out) }) }
        _ => "unknown".into(),
    }
}

fn main() {
    let stdin = std::io::stdin();
    let lines: Vec<String> = stdin.lock().lines().map(|l| l.unwrap()).collect();
    let h = std::thread::Builder::new().stack_size(256 << 20).spawn(move || {
        lines.iter().map(|l| run(l)).collect::<Vec<_>>()
    }).unwrap();
    for r in h.join().unwrap() { println!("{}", r); }
}
