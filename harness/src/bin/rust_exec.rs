// rust_exec: runs the real fips204 crate in-process on operation lines (DESIGN 4.2).
// One operation per stdin line, one result line per operation on stdout.
#![allow(deprecated, clippy::all)]

use fips204::traits::{KeyGen, SerDes, Signer, Verifier};
use fips204::verif_hooks as vh;
use fips204::Ph;
use std::cell::RefCell;
use std::fmt::Write as _;
use std::io::{BufRead, Write};
use std::panic::{catch_unwind, AssertUnwindSafe};

type P = [i32; 256];

// ---------------------------------------------------------------- parsing / printing
fn hex(s: &str) -> Vec<u8> {
    if s == "-" {
        return vec![];
    }
    let b = s.as_bytes();
    assert!(b.len() % 2 == 0, "odd hex");
    (0..b.len() / 2)
        .map(|i| {
            let h = |c: u8| match c {
                b'0'..=b'9' => c - b'0',
                b'a'..=b'f' => c - b'a' + 10,
                b'A'..=b'F' => c - b'A' + 10,
                _ => panic!("bad hex"),
            };
            h(b[2 * i]) * 16 + h(b[2 * i + 1])
        })
        .collect()
}
fn tohex(b: &[u8]) -> String {
    if b.is_empty() {
        return "-".into();
    }
    let mut s = String::with_capacity(b.len() * 2);
    for x in b {
        write!(s, "{:02x}", x).unwrap();
    }
    s
}
fn arr<const N: usize>(v: &[u8]) -> [u8; N] {
    let mut a = [0u8; N];
    assert!(v.len() == N, "badlen");
    a.copy_from_slice(v);
    a
}
fn poly(s: &str) -> P {
    let mut p = [0i32; 256];
    if let Some(v) = s.strip_prefix('c') {
        let v: i32 = v.parse().unwrap();
        p = [v; 256];
    } else if let Some(r) = s.strip_prefix('e') {
        let (i, v) = r.split_once(':').unwrap();
        p[i.parse::<usize>().unwrap()] = v.parse().unwrap();
    } else {
        let mut n = 0;
        for (i, t) in s.split(',').enumerate() {
            p[i] = t.parse().unwrap();
            n += 1;
        }
        assert!(n == 256, "poly len");
    }
    p
}
fn polys<const N: usize>(s: &str) -> [P; N] {
    let v: Vec<P> = s.split('|').map(poly).collect();
    assert!(v.len() == N, "vec len");
    core::array::from_fn(|i| v[i])
}
fn ppoly(p: &P) -> String {
    let mut s = String::with_capacity(256 * 8);
    for (i, x) in p.iter().enumerate() {
        if i > 0 {
            s.push(',');
        }
        write!(s, "{}", x).unwrap();
    }
    s
}
fn ppolys(v: &[P]) -> String { v.iter().map(ppoly).collect::<Vec<_>>().join("|") }

// ---------------------------------------------------------------- scripted RNG (DESIGN 3.5, C12)
#[derive(Clone)]
enum Resp {
    Ok(Vec<u8>),
    ErrBefore(u32),
    ErrAfter(Vec<u8>, u32),
}
// default error code of a scripted failure: a custom (non-OS) code; `errbefore@11` / `errafter@4:<hex>` give the raw code,
// so that codes that look like OS errors (EINTR, EAGAIN, ...) can be scripted too
const DEFAULT_CODE: u32 = rand_core::Error::CUSTOM_START + 7;
struct ScriptRng {
    script: Vec<Resp>,
    pos: usize,
    log: Vec<String>,
}
fn parse_script(s: &str) -> Vec<Resp> {
    if s == "-" {
        return vec![];
    }
    s.split('+')
        .map(|t| {
            if let Some(h) = t.strip_prefix("ok:") {
                Resp::Ok(hex(h))
            } else if t == "errbefore" {
                Resp::ErrBefore(DEFAULT_CODE)
            } else if let Some(c) = t.strip_prefix("errbefore@") {
                Resp::ErrBefore(c.parse().expect("bad error code"))
            } else if let Some(h) = t.strip_prefix("errafter:") {
                Resp::ErrAfter(hex(h), DEFAULT_CODE)
            } else if let Some(x) = t.strip_prefix("errafter@") {
                let (c, h) = x.split_once(':').expect("bad errafter@");
                Resp::ErrAfter(hex(h), c.parse().expect("bad error code"))
            } else {
                panic!("bad rng script")
            }
        })
        .collect()
}
impl ScriptRng {
    fn new(s: &str) -> Self { ScriptRng { script: parse_script(s), pos: 0, log: vec![] } }
    fn calls(&self) -> String {
        if self.log.is_empty() {
            "-".into()
        } else {
            self.log.join(",")
        }
    }
}
impl rand_core::RngCore for ScriptRng {
    fn next_u32(&mut self) -> u32 {
        self.log.push("nextu32".into());
        panic!("scriptrng: infallible next_u32 called")
    }
    fn next_u64(&mut self) -> u64 {
        self.log.push("nextu64".into());
        panic!("scriptrng: infallible next_u64 called")
    }
    fn fill_bytes(&mut self, dest: &mut [u8]) {
        self.log.push(format!("fill{}", dest.len()));
        panic!("scriptrng: infallible fill_bytes called")
    }
    fn try_fill_bytes(&mut self, dest: &mut [u8]) -> Result<(), rand_core::Error> {
        self.log.push(format!("tryfill{}", dest.len()));
        let r = self.script.get(self.pos).cloned();
        self.pos += 1;
        let fail_with = |c: u32| rand_core::Error::from(core::num::NonZeroU32::new(c).unwrap_or(core::num::NonZeroU32::new(DEFAULT_CODE).unwrap()));
        let fail = || fail_with(DEFAULT_CODE);
        match r {
            Some(Resp::Ok(b)) => {
                // a well-behaved generator fills the whole buffer; bytes repeat cyclically if short
                if b.is_empty() {
                    return Err(fail());
                }
                for (i, d) in dest.iter_mut().enumerate() {
                    *d = b[i % b.len()];
                }
                Ok(())
            }
            Some(Resp::ErrAfter(b, c)) => {
                for (i, d) in dest.iter_mut().enumerate() {
                    if i < b.len() {
                        *d = b[i];
                    }
                }
                Err(fail_with(c))
            }
            Some(Resp::ErrBefore(c)) => Err(fail_with(c)),
            None => Err(fail()),
        }
    }
}
impl rand_core::CryptoRng for ScriptRng {}

fn errclass(e: &str) -> &'static str {
    if e.contains("ctx too long") {
        "err:ctx"
    } else if e.to_lowercase().contains("random number generator failed") {
        "err:rng"
    } else {
        "err:other"
    }
}

// ---------------------------------------------------------------- FNV fold used by sweeps
struct Fnv(u64, u64);
impl Fnv {
    fn new() -> Self { Fnv(0xcbf29ce484222325, 0) }
    fn add(&mut self, v: i64) {
        self.0 = (self.0 ^ (v as u64)).wrapping_mul(0x100000001b3);
        self.1 += 1;
    }
}

thread_local! { static LAST: RefCell<i64> = RefCell::new(0); static LOC: RefCell<String> = RefCell::new(String::new()); }

const Q: i128 = 8380417;
fn modpm(a: i128, alpha: i128) -> i128 {
    let r = a.rem_euclid(alpha);
    if r > alpha / 2 {
        r - alpha
    } else {
        r
    }
}
fn spec_decompose(g2: i128, r: i128) -> (i128, i128) {
    let rp = r.rem_euclid(Q);
    let mut r0 = modpm(rp, 2 * g2);
    let r1;
    if rp - r0 == Q - 1 {
        r1 = 0;
        r0 -= 1;
    } else {
        r1 = (rp - r0) / (2 * g2);
    }
    (r1, r0)
}
fn spec_use_hint(g2: i128, h: i128, r: i128) -> i128 {
    let m = (Q - 1) / (2 * g2);
    let (r1, r0) = spec_decompose(g2, r);
    if h == 1 && r0 > 0 {
        (r1 + 1).rem_euclid(m)
    } else if h == 1 {
        (r1 - 1).rem_euclid(m)
    } else {
        r1
    }
}

// one kernel evaluation: returns the values to fold / print
fn kernel(name: &str, p1: i64, p2: i64, a: i64) -> Vec<i64> {
    match name {
        "partial_reduce32" => vec![vh::partial_reduce32(a as i32) as i64],
        "full_reduce32" => vec![vh::full_reduce32(a as i32) as i64],
        "center_mod" => vec![vh::center_mod(a as i32) as i64],
        "mont_reduce" => vec![vh::mont_reduce(a) as i64],
        "partial_reduce64" => vec![vh::partial_reduce64(a) as i64],
        // the caller's shape: x << 32
        "partial_reduce64s" => vec![vh::partial_reduce64(a << 32) as i64],
        // mont_reduce on (hi << 32) | lo with hi = p1 (signed), lo = a (unsigned 32)
        "mont_reduce_hl" => vec![vh::mont_reduce((p1 << 32) | (a & 0xffff_ffff)) as i64],
        "bit_length" => vec![vh::bit_length(a as i32) as i64],
        "decompose" => {
            let (r1, r0) = vh::decompose(p1 as i32, a as i32);
            vec![r1 as i64, r0 as i64]
        }
        "high_bits" => vec![vh::high_bits(p1 as i32, a as i32) as i64],
        "low_bits" => vec![vh::low_bits(p1 as i32, a as i32) as i64],
        "make_hint" => vec![vh::make_hint(p1 as i32, p2 as i32, a as i32) as i64],
        "use_hint" => vec![vh::use_hint(p1 as i32, p2 as i32, a as i32) as i64],
        "power2round" => {
            let mut p = [0i32; 256];
            p[0] = a as i32;
            let (r1, r0) = vh::power2round::<1>(&[p]);
            vec![r1[0][0] as i64, r0[0][0] as i64]
        }
        "coeff3" => {
            let b = [(a & 0xff) as u8, ((a >> 8) & 0xff) as u8, ((a >> 16) & 0xff) as u8];
            let r = if p1 != 0 { vh::coeff_from_three_bytes::<true>(b) } else { vh::coeff_from_three_bytes::<false>(b) };
            vec![r.map(|v| v as i64).unwrap_or(-1)]
        }
        "coeffhalf" => {
            let r = if p1 != 0 { vh::coeff_from_half_byte::<true>(p2 as i32, a as u8) } else { vh::coeff_from_half_byte::<false>(p2 as i32, a as u8) };
            vec![r.map(|v| v as i64).unwrap_or(-99)]
        }
        _ => panic!("unknown kernel"),
    }
}

// implementation-vs-oracle: big-integer definition of each kernel (DESIGN 4.3); Ok(()) or Err(description)
fn oracle(name: &str, p1: i64, p2: i64, a: i64) -> Result<(), String> {
    let got = kernel(name, p1, p2, a);
    let ai = a as i128;
    let bad = |want: String| Err(format!("a={} p1={} p2={} got={:?} want={}", a, p1, p2, got, want));
    match name {
        "partial_reduce32" => {
            let r = got[0] as i128;
            if (r - ai).rem_euclid(Q) != 0 || r.abs() >= Q { return bad("congruent, |r|<q".into()); }
        }
        "full_reduce32" => {
            if got[0] as i128 != ai.rem_euclid(Q) { return bad(format!("{}", ai.rem_euclid(Q))); }
        }
        "center_mod" => {
            if got[0] as i128 != modpm(ai, Q) { return bad(format!("{}", modpm(ai, Q))); }
        }
        "mont_reduce" | "mont_reduce_hl" => {
            let x = if name == "mont_reduce" { ai } else { (((p1 << 32) | (a & 0xffff_ffff)) as i64) as i128 };
            let r = got[0] as i128;
            if (r * (1i128 << 32) - x).rem_euclid(Q) != 0 || r.abs() >= Q { return bad("r*2^32=a mod q, |r|<q".into()); }
        }
        "partial_reduce64s" => {
            let x = ai << 32;
            let r = got[0] as i128;
            if (r - x).rem_euclid(Q) != 0 || r.abs() >= 2 * Q { return bad("congruent, |r|<2q".into()); }
        }
        "decompose" | "high_bits" | "low_bits" => {
            let (r1, r0) = spec_decompose(p1 as i128, ai);
            let want: Vec<i64> = match name { "decompose" => vec![r1 as i64, r0 as i64], "high_bits" => vec![r1 as i64], _ => vec![r0 as i64] };
            if got != want { return bad(format!("{:?}", want)); }
        }
        "make_hint" => {
            // caller's shape: z, r and r+z as i32 values; Spec on residues
            let r1 = spec_decompose(p1 as i128, ai).0;
            let v1 = spec_decompose(p1 as i128, ai + p2 as i128).0;
            if got[0] != (r1 != v1) as i64 { return bad(format!("{}", (r1 != v1) as i64)); }
        }
        "use_hint" => {
            let w = spec_use_hint(p1 as i128, p2 as i128, ai);
            if got[0] as i128 != w { return bad(format!("{}", w)); }
        }
        "power2round" => {
            let rp = ai.rem_euclid(Q);
            let r0 = modpm(rp, 1 << 13);
            let want = vec![((rp - r0) >> 13) as i64, r0 as i64];
            if got != want { return bad(format!("{:?}", want)); }
        }
        "coeff3" => {
            let b2 = (a >> 16) & 0x7f;
            let b2 = if p1 != 0 { b2 & 0x3f } else { b2 };
            let z = (b2 << 16) + (a & 0xffff);
            let want = if (z as i128) < Q { z } else { -1 };
            if got[0] != want { return bad(format!("{}", want)); }
            if p1 != 0 && got[0] < 0 { return bad("CTEST never rejects".into()); }
        }
        "coeffhalf" => {
            let b = if p1 != 0 { a & 7 } else { a };
            let want = if p2 == 2 && b < 15 { 2 - (b % 5) } else if p2 == 4 && b < 9 { 4 - b } else { -99 };
            if got[0] != want { return bad(format!("{}", want)); }
        }
        _ => return Err("no oracle".into()),
    }
    Ok(())
}

// ---------------------------------------------------------------- per-parameter-set operations
macro_rules! set_ops {
    ($fname:ident, $m:ident, $K:expr, $L:expr, $ETA:expr, $GAMMA1:expr, $GAMMA2:expr, $OMEGA:expr, $TAU:expr, $LD4:expr, $W1:expr) => {
        mod $fname {
            use super::*;
            use fips204::$m as ps;
            pub const K: usize = $K;
            pub const L: usize = $L;
            type Pk = ps::PublicKey;
            type Sk = ps::PrivateKey;

            pub fn sk_src(s: &str) -> Result<Sk, &'static str> {
                if let Some(x) = s.strip_prefix("gen:") {
                    Ok(ps::KG::keygen_from_seed(&arr::<32>(&hex(x))).1)
                } else if let Some(x) = s.strip_prefix("rt:") {
                    let sk = ps::KG::keygen_from_seed(&arr::<32>(&hex(x))).1;
                    Sk::try_from_bytes(sk.into_bytes())
                } else if let Some(x) = s.strip_prefix("bytes:") {
                    Sk::try_from_bytes(arr::<{ ps::SK_LEN }>(&hex(x)))
                } else {
                    panic!("bad sk source")
                }
            }
            pub fn pk_src(s: &str) -> Result<Pk, &'static str> {
                if let Some(x) = s.strip_prefix("gen:") {
                    Ok(ps::KG::keygen_from_seed(&arr::<32>(&hex(x))).0)
                } else if let Some(x) = s.strip_prefix("rt:") {
                    let pk = ps::KG::keygen_from_seed(&arr::<32>(&hex(x))).0;
                    Pk::try_from_bytes(pk.into_bytes())
                } else if let Some(x) = s.strip_prefix("bytes:") {
                    Pk::try_from_bytes(arr::<{ ps::PK_LEN }>(&hex(x)))
                } else if let Some(x) = s.strip_prefix("der:") {
                    Ok(sk_src(x)?.get_public_key())
                } else {
                    panic!("bad pk source")
                }
            }
            fn pk_dump(pk: &Pk) -> String {
                let (rho, tr, t1) = vh::pk_fields::<K, L>(pk);
                format!("{} {} {}", tohex(&rho), tohex(&tr), ppolys(&t1))
            }
            fn sk_dump(sk: &Sk) -> String {
                let (rho, k, tr, s1, s2, t0) = vh::sk_fields::<K, L>(sk);
                format!("{} {} {} {} {} {}", tohex(&rho), tohex(&k), tohex(&tr), ppolys(&s1), ppolys(&s2), ppolys(&t0))
            }
            fn ph(mode: &str) -> Ph {
                match mode {
                    "sha256" => Ph::SHA256,
                    "sha512" => Ph::SHA512,
                    "shake128" => Ph::SHAKE128,
                    _ => panic!("bad mode"),
                }
            }

            pub fn run(op: &str, a: &[&str]) -> String {
                match op {
                    "keygen" => {
                        let (pk, sk) = ps::KG::keygen_from_seed(&arr::<32>(&hex(a[0])));
                        format!("{} {}", tohex(&pk.into_bytes()), tohex(&sk.into_bytes()))
                    }
                    "keygen_s" => {
                        let (pk, sk) = ps::KG::keygen_from_seed(&arr::<32>(&hex(a[0])));
                        format!("{} {}", pk_dump(&pk), sk_dump(&sk))
                    }
                    "keygen_rng" => {
                        let mut rng = ScriptRng::new(a[0]);
                        let r = ps::try_keygen_with_rng(&mut rng);
                        match r {
                            Ok((pk, sk)) => format!("ok {} {} calls={}", tohex(&pk.into_bytes()), tohex(&sk.into_bytes()), rng.calls()),
                            Err(e) => format!("{} calls={}", errclass(e), rng.calls()),
                        }
                    }
                    "sign" => {
                        // sign <mode> <sksrc> <msg> <ctx> <rngscript>
                        let sk = match sk_src(a[1]) { Ok(s) => s, Err(_) => return "err:sk".into() };
                        let (msg, ctx) = (hex(a[2]), hex(a[3]));
                        let mut rng = ScriptRng::new(a[4]);
                        let r = match a[0] {
                            "pure" => sk.try_sign_with_rng(&mut rng, &msg, &ctx),
                            "internal" => {
                                let rnd: [u8; 32] = match rng.script.get(0) { Some(Resp::Ok(b)) if !b.is_empty() => core::array::from_fn(|i| b[i % b.len()]), _ => [0u8; 32] };
                                ps::_internal_sign(&sk, &msg, &ctx, rnd)
                            }
                            m => sk.try_hash_sign_with_rng(&mut rng, &msg, &ctx, &ph(m)),
                        };
                        match r {
                            Ok(sig) => format!("ok {} calls={}", tohex(&sig), rng.calls()),
                            Err(e) => format!("{} calls={}", errclass(e), rng.calls()),
                        }
                    }
                    "verify" => {
                        // verify <mode> <pksrc> <msg> <ctx> <sig>
                        let pk = match pk_src(a[1]) { Ok(s) => s, Err(_) => return "err:pk".into() };
                        let (msg, ctx, sig) = (hex(a[2]), hex(a[3]), hex(a[4]));
                        if sig.len() != ps::SIG_LEN { return "badlen".into(); }
                        let sig = arr::<{ ps::SIG_LEN }>(&sig);
                        let r = match a[0] {
                            "pure" => pk.verify(&msg, &sig, &ctx),
                            "internal" => ps::_internal_verify(&pk, &msg, &sig, &ctx),
                            m => pk.hash_verify(&msg, &sig, &ctx, &ph(m)),
                        };
                        format!("{}", r)
                    }
                    "find_tq" => {
                        // search (not an oracle): honest seeds whose t = NTT^-1(A s1) + s2 has a coefficient >= q before the
                        // final reduction (about 1e-4 per key); seeds are xi = LE64(counter) || 0^24.  find_tq <start> <count> <max hits>
                        let (start, count, maxh): (u64, u64, usize) = (a[0].parse().unwrap(), a[1].parse().unwrap(), a[2].parse().unwrap());
                        let mut hits: Vec<String> = vec![];
                        for ctr in start..start + count {
                            let mut xi = [0u8; 32];
                            xi[0..8].copy_from_slice(&ctr.to_le_bytes());
                            let (_pk, sk) = ps::KG::keygen_from_seed(&xi);
                            let (rho, _k, _tr, s1hm, s2hm, _t0) = vh::sk_fields::<K, L>(&sk);
                            // undo the Montgomery/NTT precompute of s1 and s2 exactly as the serialiser does
                            let s1h: [P; L] = core::array::from_fn(|l| core::array::from_fn(|n| vh::mont_reduce(s1hm[l][n] as i64)));
                            let s2m: [P; K] = core::array::from_fn(|k| core::array::from_fn(|n| vh::mont_reduce(s2hm[k][n] as i64)));
                            let s2 = vh::inv_ntt::<K>(&s2m);
                            let a_hat = vh::expand_a::<false, K, L>(&rho);
                            let w = vh::mat_vec_mul_inv_ntt::<K, L>(&a_hat, &s1h);
                            let mut hit = false;
                            for k in 0..K { for n in 0..256 {
                                let c = if s2[k][n] > 4190208 { s2[k][n] - 8380417 } else { s2[k][n] };
                                if w[k][n] + c >= 8380417 { hit = true; }
                            } }
                            if hit { hits.push(tohex(&xi)); if hits.len() >= maxh { break; } }
                        }
                        if hits.is_empty() { "none".into() } else { hits.join(",") }
                    }
                    "os_keygen" => {
                        // OS-RNG convenience function: two calls must give different keys (freshness sanity, C12)
                        let (pk, _sk) = ps::try_keygen().unwrap();
                        tohex(&pk.into_bytes()[0..48])
                    }
                    "os_sign" => {
                        let sk = match sk_src(a[0]) { Ok(s) => s, Err(_) => return "err:sk".into() };
                        let sig = sk.try_sign(&hex(a[1]), &[]).unwrap();
                        let sig2 = sk.try_hash_sign(&hex(a[1]), &[], &Ph::SHA256).unwrap();
                        format!("{} {}", tohex(&sig[0..48]), tohex(&sig2[0..48]))
                    }
                    "dudect" => {
                        let mut rng = ScriptRng::new(a[1]);
                        match ps::dudect_keygen_sign_with_rng(&mut rng, &hex(a[0])) {
                            Ok(sig) => format!("ok {} calls={}", tohex(&sig), rng.calls()),
                            Err(e) => format!("{} calls={}", errclass(e), rng.calls()),
                        }
                    }
                    "sk_from" => match sk_src(a[0]) { Ok(sk) => format!("ok {}", sk_dump(&sk)), Err(_) => "err".into() },
                    "pk_from" => match pk_src(a[0]) { Ok(pk) => format!("ok {}", pk_dump(&pk)), Err(_) => "err".into() },
                    "sk_rt" => match sk_src(a[0]) { Ok(sk) => format!("ok {}", tohex(&sk.into_bytes())), Err(_) => "err".into() },
                    "pk_rt" => match pk_src(a[0]) { Ok(pk) => format!("ok {}", tohex(&pk.into_bytes())), Err(_) => "err".into() },
                    "derive" => match sk_src(a[0]) {
                        Ok(sk) => { let pk = sk.get_public_key(); format!("ok {} bytes={}", pk_dump(&pk), tohex(&pk.into_bytes())) }
                        Err(_) => "err".into(),
                    },
                    "sk_into_f" => {
                        let sk = vh::sk_from_fields::<K, L>(arr::<32>(&hex(a[0])), arr::<32>(&hex(a[1])), arr::<64>(&hex(a[2])), &polys::<L>(a[3]), &polys::<K>(a[4]), &polys::<K>(a[5]));
                        tohex(&sk.into_bytes())
                    }
                    "pk_into_f" => {
                        let pk = vh::pk_from_fields::<K, L>(arr::<32>(&hex(a[0])), arr::<64>(&hex(a[1])), &polys::<K>(a[2]));
                        tohex(&pk.into_bytes())
                    }
                    "verify_f" => {
                        // verify with a public key struct given by fields: verify_f <mode> rho tr t1 msg ctx sig
                        let pk = vh::pk_from_fields::<K, L>(arr::<32>(&hex(a[1])), arr::<64>(&hex(a[2])), &polys::<K>(a[3]));
                        let (msg, ctx, sig) = (hex(a[4]), hex(a[5]), arr::<{ ps::SIG_LEN }>(&hex(a[6])));
                        let r = match a[0] {
                            "pure" => pk.verify(&msg, &sig, &ctx),
                            "internal" => ps::_internal_verify(&pk, &msg, &sig, &ctx),
                            m => pk.hash_verify(&msg, &sig, &ctx, &ph(m)),
                        };
                        format!("{}", r)
                    }
                    "pk_encode" => tohex(&vh::pk_encode::<K, { ps::PK_LEN }>(&arr::<32>(&hex(a[0])), &polys::<K>(a[1]))),
                    "pk_decode" => match vh::pk_decode::<K, { ps::PK_LEN }>(&arr::<{ ps::PK_LEN }>(&hex(a[0]))) {
                        Ok((rho, t1)) => format!("ok {} {}", tohex(&rho), ppolys(&t1)),
                        Err(_) => "err".into(),
                    },
                    "sk_encode" => tohex(&vh::sk_encode::<K, L, { ps::SK_LEN }>($ETA, &arr::<32>(&hex(a[0])), &arr::<32>(&hex(a[1])), &arr::<64>(&hex(a[2])), &polys::<L>(a[3]), &polys::<K>(a[4]), &polys::<K>(a[5]))),
                    "sk_decode" => match vh::sk_decode::<K, L, { ps::SK_LEN }>($ETA, &arr::<{ ps::SK_LEN }>(&hex(a[0]))) {
                        Ok((rho, k, tr, s1, s2, t0)) => format!("ok {} {} {} {} {} {}", tohex(&rho), tohex(&k), tohex(&tr), ppolys(&s1), ppolys(&s2), ppolys(&t0)),
                        Err(_) => "err".into(),
                    },
                    "sig_encode" => {
                        // sig_encode <ctest> <ctilde> <z> <h>
                        let (c, z, h) = (arr::<$LD4>(&hex(a[1])), polys::<L>(a[2]), polys::<K>(a[3]));
                        let s: [u8; ps::SIG_LEN] = if a[0] == "1" { vh::sig_encode::<true, K, L, $LD4, { ps::SIG_LEN }>($GAMMA1, $OMEGA, &c, &z, &h) } else { vh::sig_encode::<false, K, L, $LD4, { ps::SIG_LEN }>($GAMMA1, $OMEGA, &c, &z, &h) };
                        tohex(&s)
                    }
                    "sig_decode" => match vh::sig_decode::<K, L, $LD4, { ps::SIG_LEN }>($GAMMA1, $OMEGA, &arr::<{ ps::SIG_LEN }>(&hex(a[0]))) {
                        Ok((c, z, Some(h))) => format!("ok {} {} {}", tohex(&c), ppolys(&z), ppolys(&h)),
                        Ok((_, _, None)) => "err".into(),
                        Err(_) => "err".into(),
                    },
                    "w1_encode" => { let mut out = [0u8; $W1]; vh::w1_encode::<K>($GAMMA2, &polys::<K>(a[0]), &mut out); tohex(&out) }
                    "expand_a" => {
                        let m = if a[0] == "1" { vh::expand_a::<true, K, L>(&arr::<32>(&hex(a[1]))) } else { vh::expand_a::<false, K, L>(&arr::<32>(&hex(a[1]))) };
                        m.iter().map(|r| ppolys(r)).collect::<Vec<_>>().join("|")
                    }
                    "expand_s" => {
                        let (s1, s2) = if a[0] == "1" { vh::expand_s::<true, K, L>($ETA, &arr::<64>(&hex(a[1]))) } else { vh::expand_s::<false, K, L>($ETA, &arr::<64>(&hex(a[1]))) };
                        format!("{} {}", ppolys(&s1), ppolys(&s2))
                    }
                    "expand_mask" => ppolys(&vh::expand_mask::<L>($GAMMA1, &arr::<64>(&hex(a[0])), a[1].parse().unwrap())),
                    "mat_vec_mul" => {
                        let m: Vec<[P; L]> = a[0].split('/').map(|r| polys::<L>(r)).collect();
                        let m: [[P; L]; K] = core::array::from_fn(|i| m[i]);
                        ppolys(&vh::mat_vec_mul::<K, L>(&m, &polys::<L>(a[1])))
                    }
                    "drop_check" => {
                        // drop_check pk|sk <src> : bytes of the object's storage after drop in place (C16), with the object placed at every
                        // admissible offset 0, 8, .., 56 from a 64-byte boundary (a wipe that works in wider words than the type's alignment
                        // leaves a head or tail behind only at some placements; a `Box` is always 16-aligned)
                        use core::mem::{align_of, size_of, ManuallyDrop};
                        fn scan<T, E>(mk: &dyn Fn() -> Result<T, E>) -> Option<(usize, usize, usize, usize)> {
                            let n = size_of::<T>();
                            let al = align_of::<T>().max(1);
                            let mut buf = vec![0u8; n + 192];
                            let base = { let p = buf.as_mut_ptr() as usize; (p + 63) / 64 * 64 - p };
                            let (mut before0, mut worst, mut worst_off) = (0usize, 0usize, 0usize);
                            let mut off = 0usize;
                            while off < 64 {
                                let v = match mk() { Ok(v) => v, Err(_) => return None };
                                for b in buf.iter_mut() { unsafe { core::ptr::write_volatile(b, 0) } }
                                let p = unsafe { buf.as_mut_ptr().add(base + off) };
                                let slot = p as *mut ManuallyDrop<T>;
                                unsafe { core::ptr::write(slot, ManuallyDrop::new(v)) };
                                let before = (0..n).filter(|&i| unsafe { core::ptr::read_volatile(p.add(i)) } != 0).count();
                                unsafe { ManuallyDrop::drop(&mut *slot) };
                                let after = (0..n).filter(|&i| unsafe { core::ptr::read_volatile(p.add(i)) } != 0).count();
                                if off == 0 { before0 = before; }
                                if after > worst { worst = after; worst_off = off; }
                                off += al.max(8);
                            }
                            Some((n, before0, worst, worst_off))
                        }
                        let r = if a[0] == "pk" { scan(&|| pk_src(a[1])) } else { scan(&|| sk_src(a[1])) };
                        match r {
                            None => return "err".into(),
                            Some((n, b, af, wo)) => if af == 0 { format!("size={} nonzero_before={} nonzero_after={}", n, b, af) }
                                                    else { format!("size={} nonzero_before={} nonzero_after={} at_offset={}", n, b, af, wo) },
                        }
                    }
                    _ => panic!("unknown set op {}", op),
                }
            }
        }
    };
}
set_ops!(s44, ml_dsa_44, 4, 4, 2, 1 << 17, 95232, 80, 39, 32, 768);
set_ops!(s65, ml_dsa_65, 6, 5, 4, 1 << 19, 261888, 55, 49, 48, 768);
set_ops!(s87, ml_dsa_87, 8, 7, 2, 1 << 19, 261888, 75, 60, 64, 1024);

macro_rules! by_n {
    ($n:expr, $f:ident, $s:expr) => {
        match $n {
            1 => ppolys(&vh::$f::<1>(&polys::<1>($s))),
            2 => ppolys(&vh::$f::<2>(&polys::<2>($s))),
            3 => ppolys(&vh::$f::<3>(&polys::<3>($s))),
            4 => ppolys(&vh::$f::<4>(&polys::<4>($s))),
            5 => ppolys(&vh::$f::<5>(&polys::<5>($s))),
            6 => ppolys(&vh::$f::<6>(&polys::<6>($s))),
            7 => ppolys(&vh::$f::<7>(&polys::<7>($s))),
            8 => ppolys(&vh::$f::<8>(&polys::<8>($s))),
            _ => panic!("bad n"),
        }
    };
}
fn matvec1<const L: usize>(m: &str, u: &str, inv: bool) -> String {
    let row = polys::<L>(m);
    if inv {
        ppolys(&vh::mat_vec_mul_inv_ntt::<1, L>(&[row], &polys::<L>(u)))
    } else {
        ppolys(&vh::mat_vec_mul::<1, L>(&[row], &polys::<L>(u)))
    }
}
fn hint_pack_k<const K: usize>(ctest: bool, omega: i32, h: &str) -> String {
    let mut out = vec![0u8; omega as usize + K];
    if ctest {
        vh::hint_bit_pack::<true, K>(omega, &polys::<K>(h), &mut out)
    } else {
        vh::hint_bit_pack::<false, K>(omega, &polys::<K>(h), &mut out)
    }
    tohex(&out)
}
fn hint_unpack_k<const K: usize>(omega: i32, y: &str) -> String {
    match vh::hint_bit_unpack::<K>(omega, &hex(y)) {
        Ok(h) => format!("ok {}", ppolys(&h)),
        Err(_) => "err".into(),
    }
}

fn run_line(line: &str) -> String {
    let t: Vec<&str> = line.split_whitespace().collect();
    if t.is_empty() {
        return "".into();
    }
    let op = t[0];
    let a = &t[1..];
    let i = |k: usize| -> i64 { a[k].parse().unwrap() };
    if let Some(k) = op.strip_prefix("k.") {
        // k.<kernel> p1 p2 a
        let v = kernel(k, i(0), i(1), i(2));
        return v.iter().map(|x| x.to_string()).collect::<Vec<_>>().join(" ");
    }
    match op {
        "sweep" | "oracle" => {
            // sweep <kernel> p1 p2 lo hi step   (a in lo..hi by step)
            let (k, p1, p2, lo, hi, step) = (a[0], i(1), i(2), i(3), i(4), i(5));
            let mut f = Fnv::new();
            let mut x = lo;
            while x < hi {
                LAST.with(|l| *l.borrow_mut() = x);
                if op == "sweep" {
                    for v in kernel(k, p1, p2, x) {
                        f.add(v);
                        f.1 -= 1;
                    }
                    f.1 += 1;
                } else {
                    if let Err(e) = oracle(k, p1, p2, x) {
                        return format!("bad {}", e);
                    }
                    f.1 += 1;
                }
                x += step;
            }
            if op == "sweep" { format!("{:016x} {}", f.0, f.1) } else { format!("ok {}", f.1) }
        }
        "zeta" => vh::zeta_table_mont().iter().map(|x| x.to_string()).collect::<Vec<_>>().join(","),
        "consts" => format!("{} {} {}", vh::Q, vh::ZETA, vh::D),
        "ntt" => by_n!(i(0), ntt, a[1]),
        "inv_ntt" => by_n!(i(0), inv_ntt, a[1]),
        "to_mont" => by_n!(i(0), to_mont, a[1]),
        "infinity_norm" => {
            let n = i(0);
            (match n { 1 => vh::infinity_norm::<1>(&polys::<1>(a[1])), 4 => vh::infinity_norm::<4>(&polys::<4>(a[1])), 5 => vh::infinity_norm::<5>(&polys::<5>(a[1])), 6 => vh::infinity_norm::<6>(&polys::<6>(a[1])), 7 => vh::infinity_norm::<7>(&polys::<7>(a[1])), 8 => vh::infinity_norm::<8>(&polys::<8>(a[1])), _ => panic!("bad n") }).to_string()
        }
        "is_in_range" => (vh::is_in_range(&poly(a[0]), i(1) as i32, i(2) as i32) as i32).to_string(),
        "add_vector_ntt" => ppolys(&vh::add_vector_ntt::<1>(&polys::<1>(a[0]), &polys::<1>(a[1]))),
        "matvec1" | "matvec1_invntt" => {
            // matvec1 L <row polys> <u polys>
            let inv = op == "matvec1_invntt";
            match i(0) { 1 => matvec1::<1>(a[1], a[2], inv), 4 => matvec1::<4>(a[1], a[2], inv), 5 => matvec1::<5>(a[1], a[2], inv), 7 => matvec1::<7>(a[1], a[2], inv), _ => panic!("bad L") }
        }
        "bit_pack" => {
            // bit_pack a b <poly>
            let (aa, b) = (i(0) as i32, i(1) as i32);
            let mut out = vec![0u8; 32 * vh::bit_length(aa + b)];
            vh::bit_pack(&poly(a[2]), aa, b, &mut out);
            tohex(&out)
        }
        "simple_bit_pack" => {
            let b = i(0) as i32;
            let mut out = vec![0u8; 32 * vh::bit_length(b)];
            vh::simple_bit_pack(&poly(a[1]), b, &mut out);
            tohex(&out)
        }
        "bit_unpack" => match vh::bit_unpack(&hex(a[2]), i(0) as i32, i(1) as i32) { Ok(p) => format!("ok {}", ppoly(&p)), Err(_) => "err".into() },
        "simple_bit_unpack" => match vh::simple_bit_unpack(&hex(a[1]), i(0) as i32) { Ok(p) => format!("ok {}", ppoly(&p)), Err(_) => "err".into() },
        "hint_pack" => {
            // hint_pack <ctest> K omega <polys>
            let (ct, k, om) = (a[0] == "1", i(1), i(2) as i32);
            match k { 1 => hint_pack_k::<1>(ct, om, a[3]), 2 => hint_pack_k::<2>(ct, om, a[3]), 3 => hint_pack_k::<3>(ct, om, a[3]), 4 => hint_pack_k::<4>(ct, om, a[3]), 6 => hint_pack_k::<6>(ct, om, a[3]), 8 => hint_pack_k::<8>(ct, om, a[3]), _ => panic!("bad K") }
        }
        "hint_unpack" => {
            let (k, om) = (i(0), i(1) as i32);
            match k { 1 => hint_unpack_k::<1>(om, a[2]), 2 => hint_unpack_k::<2>(om, a[2]), 3 => hint_unpack_k::<3>(om, a[2]), 4 => hint_unpack_k::<4>(om, a[2]), 6 => hint_unpack_k::<6>(om, a[2]), 8 => hint_unpack_k::<8>(om, a[2]), _ => panic!("bad K") }
        }
        "sample_in_ball" => ppoly(&if a[0] == "1" { vh::sample_in_ball::<true>(i(1) as i32, &hex(a[2])) } else { vh::sample_in_ball::<false>(i(1) as i32, &hex(a[2])) }),
        "rej_ntt_poly" => ppoly(&if a[0] == "1" { vh::rej_ntt_poly::<true>(&hex(a[1])) } else { vh::rej_ntt_poly::<false>(&hex(a[1])) }),
        "rej_bounded_poly" => ppoly(&if a[0] == "1" { vh::rej_bounded_poly::<true>(i(1) as i32, &hex(a[2])) } else { vh::rej_bounded_poly::<false>(i(1) as i32, &hex(a[2])) }),
        "hash_message" => {
            let ph = match a[0] { "sha256" => Ph::SHA256, "sha512" => Ph::SHA512, "shake128" => Ph::SHAKE128, _ => panic!("bad ph") };
            let mut phm = [0u8; 64];
            let (oid, n) = vh::hash_message(&hex(a[1]), &ph, &mut phm);
            format!("{} {}", tohex(&oid), tohex(&phm[0..n]))
        }
        _ => {
            // per-set operations: <op> <set> args...
            match a[0] {
                "44" => s44::run(op, &a[1..]),
                "65" => s65::run(op, &a[1..]),
                "87" => s87::run(op, &a[1..]),
                _ => panic!("unknown op {}", op),
            }
        }
    }
}

fn main() {
    std::panic::set_hook(Box::new(|info| {
        let loc = info.location().map(|l| format!("{}:{}", l.file(), l.line())).unwrap_or_else(|| "?".into());
        LOC.with(|l| *l.borrow_mut() = loc);
    }));
    let stdin = std::io::stdin();
    let stdout = std::io::stdout();
    let mut out = std::io::BufWriter::new(stdout.lock());
    // big operations recurse through large stack arrays; run on a roomy thread
    let lines: Vec<String> = stdin.lock().lines().map(|l| l.unwrap()).collect();
    let h = std::thread::Builder::new().stack_size(256 << 20).spawn(move || {
        let mut res = Vec::with_capacity(lines.len());
        for line in &lines {
            LOC.with(|l| l.borrow_mut().clear());
            let r = catch_unwind(AssertUnwindSafe(|| run_line(line)));
            res.push(match r {
                Ok(s) => s,
                Err(_) => {
                    let loc = LOC.with(|l| l.borrow().clone());
                    let loc = loc.trim_start_matches("/repo/").to_string();
                    let last = LAST.with(|l| *l.borrow());
                    if line.starts_with("sweep") || line.starts_with("oracle") { format!("panic:{} at={}", loc, last) } else { format!("panic:{}", loc) }
                }
            });
        }
        res
    }).unwrap();
    for r in h.join().unwrap() {
        writeln!(out, "{}", r).unwrap();
    }
}
