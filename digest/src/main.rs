// Known-answer digest of keygen / sign / verify outputs per enabled parameter set (C17, DESIGN 5 C17).
#![allow(deprecated, unused_macros, unused_imports)]
use fips204::traits::{KeyGen, SerDes, Signer, Verifier};
use fips204::Ph;

struct Fixed([u8; 32]);
impl rand_core::RngCore for Fixed {
    fn next_u32(&mut self) -> u32 { unimplemented!() }
    fn next_u64(&mut self) -> u64 { unimplemented!() }
    fn fill_bytes(&mut self, _d: &mut [u8]) { unimplemented!() }
    fn try_fill_bytes(&mut self, d: &mut [u8]) -> Result<(), rand_core::Error> {
        for (i, x) in d.iter_mut().enumerate() { *x = self.0[i % 32]; }
        Ok(())
    }
}
impl rand_core::CryptoRng for Fixed {}

fn fnv(h: &mut u64, b: &[u8]) { for x in b { *h = (*h ^ (*x as u64)).wrapping_mul(0x100000001b3); } }

macro_rules! digest {
    ($m:ident, $name:expr) => {{
        use fips204::$m as ps;
        let mut h = 0xcbf29ce484222325u64;
        let xi = [0x5au8; 32];
        let (pk, sk) = ps::KG::keygen_from_seed(&xi);
        let (pk2, _sk2) = ps::try_keygen_with_rng(&mut Fixed(xi)).unwrap();
        fnv(&mut h, &pk.clone().into_bytes());
        fnv(&mut h, &pk2.into_bytes());
        fnv(&mut h, &sk.clone().into_bytes());
        let msg = b"feature matrix";
        let ctx = b"c17";
        let sig = sk.try_sign_with_rng(&mut Fixed([7u8; 32]), msg, ctx).unwrap();
        fnv(&mut h, &sig);
        fnv(&mut h, &[pk.verify(msg, &sig, ctx) as u8]);
        let mut bad = sig; bad[10] ^= 1;
        fnv(&mut h, &[pk.verify(msg, &bad, ctx) as u8, pk.verify(msg, &sig, b"other") as u8]);
        for ph in [Ph::SHA256, Ph::SHA512, Ph::SHAKE128] {
            let s2 = sk.try_hash_sign_with_rng(&mut Fixed([9u8; 32]), msg, ctx, &ph).unwrap();
            fnv(&mut h, &s2);
            fnv(&mut h, &[pk.hash_verify(msg, &s2, ctx, &ph) as u8]);
        }
        fnv(&mut h, &sk.get_public_key().into_bytes());
        let sk3 = ps::PrivateKey::try_from_bytes(sk.into_bytes()).unwrap();
        fnv(&mut h, &sk3.try_sign_with_rng(&mut Fixed([7u8; 32]), msg, ctx).unwrap());
        // bulk: many messages under one key (a configuration-dependent difference confined to rare signing paths - a second
        // rejection test, an exactly-omega hint count - needs hundreds of signatures to show); every signature must verify
        let mut hb = 0xcbf29ce484222325u64;
        let mut bad_own = 0u32;
        for i in 0u32..700 {
            let m = i.to_le_bytes();
            let r = std::panic::catch_unwind(std::panic::AssertUnwindSafe(|| sk3.try_sign_with_rng(&mut Fixed([0u8; 32]), &m, b"").unwrap()));
            match r {
                Ok(s) => { fnv(&mut hb, &s); if !pk.verify(&m, &s, b"") { bad_own += 1; } }
                Err(_) => { fnv(&mut hb, b"panic"); bad_own += 1; }
            }
        }
        println!("{} {:016x} bulk {:016x} own-signatures-rejected-or-panicked {}", $name, h, hb, bad_own);
    }};
}

fn main() {
    std::panic::set_hook(Box::new(|_| {}));
    #[cfg(feature = "s44")]
    digest!(ml_dsa_44, "44");
    #[cfg(feature = "s65")]
    digest!(ml_dsa_65, "65");
    #[cfg(feature = "s87")]
    digest!(ml_dsa_87, "87");
    #[cfg(all(feature = "rng", feature = "s44"))]
    { let _ = fips204::ml_dsa_44::try_keygen().unwrap(); println!("osrng44 ok"); }
    #[cfg(all(feature = "dudect", feature = "s44"))]
    { let s = fips204::ml_dsa_44::dudect_keygen_sign_with_rng(&mut Fixed([3u8; 32]), b"m").unwrap(); let mut h = 0xcbf29ce484222325u64; fnv(&mut h, &s); println!("dudect44 {:016x}", h); }
}
