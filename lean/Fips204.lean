import Fips204.Basic
import Fips204.Gen.Consts
import Fips204.Gen.Kernels
import Fips204.Impl.Sample
