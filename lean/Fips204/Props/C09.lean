import Fips204.Impl.Api
import Fips204.Lemmas.Arith
import Fips204.Props.C10
import Fips204.Lemmas.KeyDecode
/-!
# C09 — key serialisation round-trips exactly and preserves behaviour

Proved for all byte strings and oracles: where the fields of a deserialised key come from - rho / K / tr are
the corresponding slices of the input, the public key's tr is H(input bytes) - and that an accepted private key
has coefficient sections inside the ranges the serialiser's own self-check demands (C10), so re-serialisation
cannot trip it.  Proved as well: **every** byte string of public-key length deserialises (no rejection, no fault).
Not proved: `into_bytes ∘ try_from_bytes = id` for every input, which is exact NTT inversion
(C18) composed with the codec bijections (C08); decided on every run on extremal and random keys, both profiles.
-/
namespace Fips204.Props.C09
open Fips204 Fips204.Gen Fips204.Impl

/-- a deserialised public key: rho is the first 32 bytes, tr the hash of the whole encoding -/
theorem expandPublic_fields (m : Mode) (O : Oracles) (p : ParamSet) (pkb : List Nat) (pk : PublicKey)
    (h : expandPublic m O p pkb = .ok (some pk)) :
    slice "encodings.rs:pk_decode:pk[0..32]" pkb 0 32 = .ok pk.rho ∧ pk.tr = O.h pkb 64 := by
  unfold expandPublic at h
  simp only [bind, Except.bind] at h
  split at h
  · simp at h
  · rename_i d hd
    split at h
    · simp [pure, Except.pure] at h
    · rename_i dd
      split at h
      · simp at h
      · simp only [pure, Except.pure, Except.ok.injEq, Option.some.injEq] at h
        subst h
        refine ⟨?_, rfl⟩
        unfold pkDecode at hd
        simp only [bind, Except.bind] at hd
        repeat (split at hd; · simp [pure, Except.pure] at hd)
        simp only [pure, Except.pure, Except.ok.injEq, Option.some.injEq] at hd
        subst hd
        assumption

/-- a deserialised private key: rho, K, tr are the three leading slices of the input, unchanged -/
theorem expandPrivate_fields (m : Mode) (p : ParamSet) (skb : List Nat) (sk : PrivateKey)
    (h : expandPrivate m p skb = .ok (some sk)) :
    ∃ s : SkParts, skDecode m p skb = .ok (some s) ∧ sk.rho = s.rho ∧ sk.key = s.key ∧ sk.tr = s.tr := by
  unfold expandPrivate at h
  simp only [bind, Except.bind] at h
  split at h
  · simp at h
  · rename_i d hd
    split at h
    · simp [pure, Except.pure] at h
    · rename_i s
      repeat (split at h; · simp at h)
      simp only [pure, Except.pure, Except.ok.injEq, Option.some.injEq] at h
      subst h
      exact ⟨s, hd, rfl, rfl, rfl⟩

/-- what deserialisation accepted is inside the ranges that `sk_encode` asserts (so `into_bytes` cannot trip them) -/
theorem accepted_sk_sections_in_range (m : Mode) (p : ParamSet) (skb : List Nat) (s : SkParts)
    (he : 0 ≤ p.eta ∧ p.eta ≤ 2147483647) (h : skDecode m p skb = .ok (some s)) :
    (∀ q ∈ s.s1, ∀ c ∈ q, -p.eta ≤ c ∧ c ≤ p.eta) ∧ (∀ q ∈ s.s2, ∀ c ∈ q, -p.eta ≤ c ∧ c ≤ p.eta) ∧
    (∀ q ∈ s.t0, ∀ c ∈ q, -(top - 1) ≤ c ∧ c ≤ top) :=
  C10.skDecode_accepts_only_in_range m p skb s he h

/-- **every byte string of public-key length deserialises successfully** (first clause of the property), in both build
    modes: no rejection (10-bit fields always fit [0, 1023]), no overflow in the verifier precompute; rho is the first
    32 bytes and tr the hash of the encoding -/
theorem every_pk_string_deserialises (m : Mode) (O : Oracles) (p : ParamSet) (hp : p ∈ [ml_dsa_44, ml_dsa_65, ml_dsa_87])
    (pkb : List Nat) (hb : ∀ x ∈ pkb, x < 256) (hlen : pkb.length = p.pkLen) :
    ∃ pk : PublicKey, expandPublic m O p pkb = .ok (some pk) ∧ pk.rho = pkb.take 32 ∧ pk.tr = O.h pkb 64 :=
  have hcfg := pk_config_ok p hp
  let ⟨pk, h1, h2, h3, _⟩ := expandPublic_total m O p pkb hb (by rw [hlen, hcfg]) hcfg
  ⟨pk, h1, h2, h3⟩

end Fips204.Props.C09
