import Fips204.Props.C02
import Fips204.Props.C13b
import Fips204.Lemmas.VerifySpec
/-!
# C02 (continued) — verification *is* Algorithm 8, for every input

`verifySpec` (`Lemmas/VerifySpec`) is ML-DSA.Verify_internal written with exact arithmetic modulo q:
`(c~, z, h) <- sigDecode(sigma)`; reject if that fails; `mu`; `c <- SampleInBall(c~)`; `A_hat <- ExpandA(rho)`;
`w'_Approx <- NTT^-1(A_hat ∘ NTT(z) - NTT(c) ∘ NTT(t1 * 2^d))` (`wApproxS`: `nttS`/`invS` butterflies on integers,
canonical representatives); `w1' <- UseHint(h, w'_Approx)` (`Spec.useHint`, C15); `c~' <- H(mu || w1Encode(w1'))`;
accept iff `‖z‖∞ < gamma1 - beta` (`normInfS`) and `c~ = c~'`.  The decoder, samplers and encoder it calls are the
model's own literal transcriptions (canonicity of the decoders: C08; they are compared with the crate on every run).
The table the butterflies read holds the FIPS 204 zetas (`zeta_table_holds_the_fips_zetas`: entry `k` is
`1753^bitrev8(k) * 2^32 mod q`, 255 entries by kernel evaluation).

* `verification_is_algorithm_8`: for each parameter set, **every** public-key byte string, message, context, pre-hash
  and **every** byte string of signature length, `verify_internal` on the struct `expand_public` built returns exactly
  what `verifySpec` returns on `(rho, tr, t1) = pkDecode(pk)` - in both build modes (so also: never a panic, C13).
* `verify_is_algorithm_3`, `hash_verify_is_algorithm_5`: the external entry points add the context-length rejection and the
  message formatting (C06, C07) around it.
-/
namespace Fips204.Props.C02
open Fips204 Fips204.Gen Fips204.Impl

theorem zeta_table_holds_the_fips_zetas : ∀ k, 1 ≤ k → k < 256 → (zv k * RINV - 1753 ^ bitrev8 k) % 8380417 = 0 := by
  intro k h1 h2
  have h := List.all_eq_true.mp zeta_table_is_fips k (List.mem_range.mpr h2)
  have hk : (k == 0) = false := by simp; omega
  rw [hk, Bool.false_or] at h
  unfold zetaFipsOk cf at h
  exact eq_of_beq h

theorem verification_is_algorithm_8 (m : Mode) (O : Oracles) (hO : OracleOk O) (p : ParamSet) (hp : p ∈ [ml_dsa_44, ml_dsa_65, ml_dsa_87])
    (pkb msg sig ctx oid phm : List Nat) (nist : Bool) (hpb : ∀ x ∈ pkb, x < 256) (hpl : pkb.length = p.pkLen)
    (hb : ∀ x ∈ sig, x < 256) (hlen : sig.length = p.sigLen) :
    ∃ pk d, expandPublic m O p pkb = .ok (some pk) ∧ pkDecode m p pkb = .ok (some d) ∧
      verifyInternal m O CTEST_default p pk msg sig ctx oid phm nist =
        verifySpec m O CTEST_default p d.rho (O.h pkb 64) d.t1 msg sig ctx oid phm nist := by
  obtain ⟨blz, cfg⟩ := C13.verCfg_of_mem p hp
  have hcfg := pk_config_ok p hp
  obtain ⟨d, hd, hrho, hk, ht⟩ := pkDecode_total m p pkb hpb (by rw [hpl, hcfg]) hcfg
  obtain ⟨r, hr, _⟩ := precomputeT1_ok m d.t1 (fun q hq => (ht q hq).2)
  refine ⟨⟨d.rho, O.h pkb 64, r⟩, d, by simp only [expandPublic, hd, ok_bind, hr, pure_eq], hd, ?_⟩
  exact verifyInternal_eq_spec m O hO CTEST_default p blz cfg d.rho (O.h pkb 64) d.t1 r
    (by rw [hrho, List.length_take, hpl, hcfg]; omega) ⟨⟨hk, fun q hq => (ht q hq).1⟩, fun q hq => (ht q hq).2⟩ hr
    msg sig ctx oid phm nist hb hlen

theorem verify_is_algorithm_3 (m : Mode) (O : Oracles) (p : ParamSet) (pk : PublicKey) (msg sig ctx : List Nat) :
    verify m O p pk msg sig ctx = if ctx.length > 255 then .ok false else verifyInternal m O CTEST_default p pk msg sig ctx [] [] false := by
  unfold verify verifyCtxGuard
  rw [pure_eq, ok_bind]
  by_cases h : ctx.length > 255
  · rw [if_pos h, if_pos (decide_eq_true (by omega)), pure_eq]
  · rw [if_neg h, if_neg (by rw [decide_eq_true_eq]; omega)]

theorem hash_verify_is_algorithm_5 (m : Mode) (O : Oracles) (p : ParamSet) (pk : PublicKey) (msg sig ctx : List Nat) (ph : Ph) :
    hashVerify m O p pk msg sig ctx ph = if ctx.length > 255 then .ok false else
      verifyInternal m O CTEST_default p pk msg sig ctx (hashMessage O msg ph).1 (hashMessage O msg ph).2 false := by
  unfold hashVerify hashVerifyCtxGuard
  rw [pure_eq, ok_bind]
  by_cases h : ctx.length > 255
  · rw [if_pos h, if_pos (decide_eq_true (by omega)), pure_eq]
  · rw [if_neg h, if_neg (by rw [decide_eq_true_eq]; omega)]

end Fips204.Props.C02
