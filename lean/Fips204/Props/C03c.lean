import Fips204.Lemmas.SpecSample
import Fips204.Lemmas.SpecEncode
/-!
# C03 (continued) — the samplers and decoders the signer runs are the algorithms of the standard **as written**

`signing_is_algorithm_7` (C03b) equates `sign_internal` with Algorithm 7 written with exact arithmetic, sharing with the model its
transcriptions of the byte-level functions and samplers.  For the following parts that sharing is now discharged against `Spec/*`
(a transcription of FIPS 204 that mentions nothing of the crate), each for all inputs and both build modes:

* `expand_mask_is_ExpandMask` — Algorithm 34, for every 64-byte seed and every counter value the 16-bit counter can hold without
  wrapping; uses one property of the XOF: asking SHAKE256 for fewer bytes gives a prefix (`OraclePrefix`; the crate squeezes 640 bytes and
  unpacks the first `32 c`, the standard asks for `32 c`);
* `sample_in_ball_is_SampleInBall`, `expand_a_is_ExpandA` (C02c), `sk_decode_is_skDecode_with_the_range_check` (C10c),
  `w1_encode_is_w1Encode` (C02c), `bit_pack_is_BitPack` (C08c).

Still shared with the model in `signSpec`: `HintBitPack` / `sigEncode` (their decoders are proved to be the standard's, and
encode-after-decode / decode-after-encode are identities: C08, C08b) and the loop structure; `c * s` is the negacyclic product (C18).
-/
namespace Fips204.Props.C03
open Fips204 Fips204.Gen Fips204.Impl

theorem expand_mask_is_ExpandMask (m : Mode) (O : Oracles) (hO : OracleOk O) (hP : OraclePrefix O) (p : ParamSet) (blz : Nat) (cfg : SigCfg p blz)
    (rho : List Nat) (mu : Nat) (hmu : mu + p.l ≤ 65536) (hl : p.l ≤ 65535) :
    expandMask m O p rho (mu : Int) = .ok (Spec.expandMask O.h blz p.gamma1 p.l rho mu) :=
  expandMask_is_algorithm_34 m O hO hP p blz cfg rho mu hmu hl

/-- the three parameter sets meet the hypotheses (18 / 20 bits per coefficient of the mask) -/
example : SigCfg ml_dsa_44 18 ∧ SigCfg ml_dsa_65 20 ∧ SigCfg ml_dsa_87 20 := ⟨sigCfg_44, sigCfg_65, sigCfg_87⟩

end Fips204.Props.C03
