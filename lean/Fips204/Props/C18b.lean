import Fips204.Props.C18
import Fips204.Lemmas.MulPipeline
/-!
# C18 (continued) — the NTT pipelines compute negacyclic products modulo q

* `challenge_times_secret_is_the_ring_product`: for every polynomial `c` and every vector `s` with coefficients of
  magnitude up to `2^19` (every challenge; every `s1`, `s2`, `t0`), the signer's pipeline - `ntt(c)`, the stored
  `to_mont(ntt(s))`, Montgomery pointwise product, `inv_ntt` - returns, without overflow, canonical residues congruent
  to `c * s_i` in `Z_q[X]/(X^256 + 1)`.
* `matrix_row_times_vector_is_the_ring_sum`: for every canonical matrix row `A_hat` (representing polynomials `a_j`,
  i.e. `A_hat_j ≡ NTT(a_j)`) of at most 7 entries and every vector `y` with coefficients up to `2^19`, the transform /
  multiply-accumulate / inverse-transform pipeline returns canonical residues congruent to `sum_j a_j * y_j`.
* `ntt_domain_product_is_ring_product` (specification level): `NTT(a * b) ≡ NTT(a) ∘ NTT(b)` and
  `invNTT-butterflies(NTT(a) ∘ NTT(b)) ≡ 2^8 (a * b)`.

`negMul a b` is the schoolbook product of the coefficient lists reduced by `X^256 = -1` (`Lemmas/NttMul`).
Proof: the exact-integer specification of the forward butterflies evaluates the polynomial at 256 residues that are
roots of `X^256 + 1` (the generated table is a tree of square roots: `zeta_{2k}^2 = zeta_k`, `zeta_{2k+1}^2 = -zeta_k`,
`zeta_1^2 = -1`, 127 + 1 facts by kernel evaluation); Horner evaluation is multiplicative on schoolbook products and
respects the reduction; the implementation is congruent to the specifications inside the overflow envelopes; the inverse
specification undoes the forward one (C09).  With the overflow theorems of `Props/C18` this is the whole property.
-/
namespace Fips204.Props.C18
open Fips204 Fips204.Gen Fips204.Impl

theorem ntt_domain_product_is_ring_product (a b : List Int) (ha : a.length = 256) (hb : b.length = 256) :
    CongL (nttS 8 1 (negMul a b)) (List.zipWith (fun x y => x * y) (nttS 8 1 a) (nttS 8 1 b)) ∧
    CongL (invS 8 1 (List.zipWith (fun x y => x * y) (nttS 8 1 a) (nttS 8 1 b))) ((negMul a b).map (fun x => 2 ^ 8 * x)) :=
  ⟨nttS_negMul a b ha hb, invS_pointwise a b ha hb⟩

theorem challenge_times_secret_is_the_ring_product (m : Mode) (site : String) (c : Poly) (s : List Poly) (lc : c.length = 256)
    (hc : ∀ x ∈ c, -524288 ≤ x ∧ x ≤ 524288) (hs : ∀ q ∈ s, q.length = 256 ∧ ∀ x ∈ q, -524288 ≤ x ∧ x ≤ 524288) :
    ∃ ch sh r, nttPoly m c = .ok ch ∧ nttMont m s = .ok sh ∧ mulInv m site ch sh = .ok r ∧ r.length = s.length ∧
      ∀ i (h1 : i < r.length) (h2 : i < s.length), (∀ x ∈ r[i], 0 ≤ x ∧ x < 8380417) ∧ CongL r[i] (negMul c s[i]) :=
  mulInv_sem m site c s lc hc hs

theorem matrix_row_times_vector_is_the_ring_sum (m : Mode) (row as ys : List Poly) (hr : RowA row as) (hl : ys.length = row.length)
    (hn : row.length ≤ 7) (hy : ∀ y ∈ ys, y.length = 256 ∧ ∀ x ∈ y, -524288 ≤ x ∧ x ≤ 524288) :
    ∃ yh r w, ntt m ys = .ok yh ∧ matVecMul m [row] yh = .ok [r] ∧ invNttPoly m r = .ok w ∧
      (∀ x ∈ w, 0 ≤ x ∧ x < 8380417) ∧ CongL w (sumProd as ys zeroPoly) :=
  commitment_row_sem m row as ys hr hl hn hy

/-- non-vacuity / sanity of the product definition: `X^255 * X = -1` -/
example : negMul (List.replicate 255 0 ++ [1]) (0 :: 1 :: List.replicate 254 0) = (-1) :: List.replicate 255 0 := by decide +kernel

end Fips204.Props.C18
