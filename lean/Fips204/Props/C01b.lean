import Fips204.Props.C01
import Fips204.Props.C15
import Fips204.Lemmas.HintDuality
import Fips204.Lemmas.SignerHint
import Fips204.Lemmas.SignVerify
/-!
# C01 (continued) — the two arithmetic facts signature correctness rests on

* `use_hint_recovers_high_bits`: `UseHint(MakeHint(z, r), r) = HighBits(r + z)` for every `r` and every `|z| ≤ gamma2`,
  both values of `gamma2` - as FIPS 204 functions (`Spec`), and for the crate's kernels on their whole domain
  (`kernels_use_hint_recovers_high_bits`).  This is why the verifier's `w1' = UseHint(h, w'_Approx)` equals the signer's
  `w1` once `‖c t0‖∞ < gamma2`.
* `high_bits_stable_under_small_shift`: if `|LowBits(r)| < gamma2 - b` and `|s| ≤ b` then
  `HighBits(r + s) = HighBits(r)` - why the signer's `‖r0‖∞ < gamma2 - beta` test makes `HighBits(w - c s2) = w1`.

* `signer_hint_coefficient`: the per-coefficient core of completeness - if `|c s2| ≤ beta` (centred), `|LowBits(w - c s2)| <
  gamma2 - beta` and `|c t0| < gamma2` (centred), then `UseHint(MakeHint(-c t0, w - c s2 + c t0), w - c s2 + c t0) = HighBits(w)`,
  with `c s2`, `c t0` given by *any* representatives modulo q (the crate's are canonical, the standard's centred).
* `challenge_times_small_vector_is_small`: `‖c * s‖∞ ≤ tau * eta` (centred) for the negacyclic product of a challenge with
  exactly `tau` coefficients `±1` and a polynomial with `‖s‖∞ ≤ eta` - so the first hypothesis always holds (`beta = tau * eta`);
  `challenge_has_weight_tau`: every polynomial `sample_in_ball` returns is such a challenge.

Together with C18 (the pipelines compute ring products), C08 (the encodings round-trip), C09/C11 (all key provenances
are the same structs) and C02 (verification is Algorithm 8) these are the ingredients of the completeness proof.

* `ntt_and_inverse_are_mutually_inverse`, `verifier_ring_identity`: with `t = A s1 + s2`, `(t1, t0) = Power2Round(t)`, `z = y + c s1`,
  the verifier's `NTT^-1(A_hat ∘ NTT(z) - NTT(c) ∘ NTT(t1 2^d))` is `A y - c s2 + c t0` modulo q, row by row.
* `accepted_attempt_verifies`: an accepted attempt of Algorithm 7 (lines 11-29) passes lines 5-13 of Algorithm 8: same `c`, same
  `w1` (all of the above, lifted to vectors), same commitment hash, norm test passed.
* the assembly (`signature_verifies_spec`, `sign_then_verify`, the API-level corollaries) is in `Props/C01c`.
-/
namespace Fips204.Props.C01
open Fips204 Fips204.Gen

theorem use_hint_recovers_high_bits (g r z : Int) (hg : g = 95232 ∨ g = 261888) (hz : -g ≤ z ∧ z ≤ g) :
    Spec.useHint g (if Spec.makeHint g z r then 1 else 0) r = Spec.highBits g (r + z) :=
  Spec.hint_duality g r z hg hz

theorem high_bits_stable_under_small_shift (g r s b : Int) (hg : g = 95232 ∨ g = 261888) (hb : 0 ≤ b ∧ b ≤ g) (hs : -b ≤ s ∧ s ≤ b)
    (hl : -(g - b) < Spec.lowBits g r ∧ Spec.lowBits g r < g - b) : Spec.highBits g (r + s) = Spec.highBits g r :=
  Spec.highBits_stable g r s b hg hb hs hl

/-- the same, for the crate's kernels (both build modes): feeding `make_hint`'s answer to `use_hint` gives `high_bits(r + z)` -/
theorem kernels_use_hint_recovers_high_bits (m : Mode) (g z r : Int) (hg : g = 95232 ∨ g = 261888) (hz : -g ≤ z ∧ z ≤ g)
    (h1 : -2143289344 < r) (h2 : r < 2143289344) (h3 : -2143289344 < r + z) (h4 : r + z < 2143289344) :
    ∃ hb, make_hint m g z r = .ok hb ∧ use_hint m g (if hb then 1 else 0) r = high_bits m g (r + z) := by
  refine ⟨Spec.makeHint g z r, C15.make_hint_spec m g z r hg h1 h2 h3 h4, ?_⟩
  rw [C15.use_hint_spec m g _ r hg (by split <;> simp) h1 h2, C15.high_bits_spec m g (r + z) hg h3 h4,
    Spec.hint_duality g r z hg hz]

theorem signer_hint_coefficient (g beta w cs2 ct0 : Int) (hg : g = 95232 ∨ g = 261888) (hb : 0 ≤ beta ∧ beta ≤ g)
    (h1 : -beta ≤ modpm Q cs2 ∧ modpm Q cs2 ≤ beta)
    (h2 : -(g - beta) < Spec.lowBits g (w - cs2) ∧ Spec.lowBits g (w - cs2) < g - beta)
    (h3 : -g < modpm Q ct0 ∧ modpm Q ct0 < g) :
    Spec.useHint g (if Spec.makeHint g (-ct0) (w - cs2 + ct0) then 1 else 0) (w - cs2 + ct0) = Spec.highBits g w :=
  Impl.coeff_hint g beta w cs2 ct0 hg hb h1 h2 h3

theorem challenge_times_small_vector_is_small (c s : Impl.Poly) (tau eta : Int) (hc : Impl.Tri c) (hn : (Impl.nz c : Int) = tau)
    (hs : s.length = 256) (hB : ∀ x ∈ s, -eta ≤ x ∧ x ≤ eta) (he : 0 ≤ eta) (hsmall : eta * tau ≤ 4190208) :
    ∀ x ∈ Impl.cmul c s, -(eta * tau) ≤ modpm Q x ∧ modpm Q x ≤ eta * tau :=
  Impl.cmul_centered_bound c s tau eta hc hn hs hB he hsmall

theorem challenge_has_weight_tau (m : Mode) (O : Impl.Oracles) (hO : Impl.OracleOk O) (ctest : Bool) (tau : Int) (rho : List Nat)
    (ht : 0 ≤ tau ∧ tau ≤ 64) : Impl.NoPanic (Impl.sampleInBall m O ctest tau rho) (fun c => Impl.Tri c ∧ Impl.nz c = tau.toNat) :=
  Impl.sampleInBall_np' m O hO ctest tau rho ht

/-- the two transforms are mutually inverse (exact specifications, modulo q): `NTT(NTT^-1(v)) = v` and `NTT^-1(NTT(w)) = w` -/
theorem ntt_and_inverse_are_mutually_inverse (v : List Int) (hv : v.length = 256) :
    Impl.CongL (Impl.nttS 8 1 (Impl.invC v)) v ∧ Impl.CongL (Impl.invC (Impl.nttS 8 1 v)) v :=
  ⟨Impl.nttS_invC v hv, Impl.invC_nttS v hv⟩

/-- **the verifier's ring identity**, one row, exact specifications: with `t = A s1 + s2`, `(t1, t0) = Power2Round(t)`, `z = y + c s1`:
    `NTT^-1(A_hat ∘ NTT(z) - NTT(c) ∘ NTT(t1 2^d)) = A y - c s2 + c t0` modulo q -/
theorem verifier_ring_identity (row s1 y : List Impl.Poly) (c s2r : Impl.Poly) (hrow : ∀ a ∈ row, a.length = 256) (hs1 : ∀ u ∈ s1, u.length = 256)
    (hy : ∀ u ∈ y, u.length = 256) (hl1 : y.length = s1.length) (lc : c.length = 256) (ls2 : s2r.length = 256) :
    Impl.CongL (Impl.wRowS row (List.zipWith (fun yp cp => List.zipWith (fun a b => modpm Q (a + b)) yp cp) y (s1.map (Impl.cmul c))) c
        ((Impl.tRowS row s1 s2r).map (fun v => (Spec.power2round v).1)))
      (Impl.zw3 (fun p q r => p - q + r) (Impl.invC (Impl.rowS row y Impl.zeroPoly)) (Impl.cmul c s2r)
        (Impl.cmul c ((Impl.tRowS row s1 s2r).map (fun v => (Spec.power2round v).2)))) :=
  Impl.verifier_row row s1 y c s2r hrow hs1 hy hl1 lc ls2

/-- the three parameter sets meet the numeric side conditions of the theorems below -/
theorem c01_params (p : ParamSet) (hp : p ∈ [ml_dsa_44, ml_dsa_65, ml_dsa_87]) :
    (p.gamma2 = 95232 ∨ p.gamma2 = 261888) ∧ p.beta = p.eta * p.tau ∧ p.beta ≤ p.gamma2 ∧ (0 ≤ p.tau ∧ p.tau ≤ 64) ∧ (0 ≤ p.eta ∧ p.eta ≤ 4) := by
  simp only [List.mem_cons, List.mem_nil_iff, or_false] at hp
  rcases hp with rfl | rfl | rfl <;> decide

/-- **an accepted signing attempt passes the verifier's test** (lines 5-13 of Algorithm 8 on the output of lines 11-29 of Algorithm 7) -/
theorem accepted_attempt_verifies (m : Mode) (O : Impl.Oracles) (hO : Impl.OracleOk O) (p : ParamSet)
    (hp : p ∈ [ml_dsa_44, ml_dsa_65, ml_dsa_87])
    (aHat : List (List Impl.Poly)) (s1 s2 : List Impl.Poly)
    (hA : ∀ row ∈ aHat, ∀ a ∈ row, a.length = 256) (hs1 : ∀ u ∈ s1, u.length = 256) (hs2 : ∀ u ∈ s2, u.length = 256)
    (hs2b : ∀ u ∈ s2, ∀ x ∈ u, -p.eta ≤ x ∧ x ≤ p.eta) (hk : aHat.length = s2.length)
    (mu rhoPP : List Nat) (kappa : Int)
    (hyS : ∀ y, Impl.expandMask m O p rhoPP kappa = .ok y → y.length = s1.length ∧ ∀ u ∈ y, u.length = 256)
    (cT : List Nat) (z h : List Impl.Poly)
    (hatt : Impl.attemptSpec m O p s1 s2 ((List.zipWith (fun row s2r => Impl.tRowS row s1 s2r) aHat s2).map (fun q => q.map (fun x => (Spec.power2round x).2)))
      aHat mu rhoPP kappa = .ok (some (cT, z, h))) :
    Impl.verifyCoreS m O p aHat ((List.zipWith (fun row s2r => Impl.tRowS row s1 s2r) aHat s2).map (fun q => q.map (fun x => (Spec.power2round x).1)))
      mu cT z h = .ok true := by
  obtain ⟨hg, hbeta, hbg, htau, heta⟩ := c01_params p hp
  exact Impl.attempt_verifies m O hO p hg hbeta hbg htau heta aHat s1 s2 hA hs1 hs2 hs2b hk mu rhoPP kappa hyS cT z h hatt

end Fips204.Props.C01
