import Fips204.Props.C01
import Fips204.Props.C15
import Fips204.Lemmas.HintDuality
import Fips204.Lemmas.SignerHint
/-!
# C01 (continued) — the two arithmetic facts signature correctness rests on

* `use_hint_recovers_high_bits`: `UseHint(MakeHint(z, r), r) = HighBits(r + z)` for every `r` and every `|z| ≤ gamma2`,
  both values of `gamma2` - as FIPS 204 functions (`Spec`), and for the crate's kernels on their whole domain
  (`kernels_use_hint_recovers_high_bits`).  This is why the verifier's `w1' = UseHint(h, w'_Approx)` equals the signer's
  `w1` once `‖c t0‖∞ < gamma2`.
* `high_bits_stable_under_small_shift`: if `|LowBits(r)| < gamma2 - b` and `|s| ≤ b` then
  `HighBits(r + s) = HighBits(r)` - why the signer's `‖r0‖∞ < gamma2 - beta` test makes `HighBits(w - c s2) = w1`.

* `signer_hint_coefficient`: the per-coefficient core of completeness - if `|c s2| ≤ beta` (centred), `|LowBits(w - c s2)| <
  gamma2 - beta` and `|c t0| < gamma2` (centred), then `UseHint(MakeHint(-c t0, w - c s2 + c t0), w - c s2 + c t0) = HighBits(w)`,
  with `c s2`, `c t0` given by *any* representatives modulo q (the crate's are canonical, the standard's centred).
* `challenge_times_small_vector_is_small`: `‖c * s‖∞ ≤ tau * eta` (centred) for the negacyclic product of a challenge with
  exactly `tau` coefficients `±1` and a polynomial with `‖s‖∞ ≤ eta` - so the first hypothesis always holds (`beta = tau * eta`);
  `challenge_has_weight_tau`: every polynomial `sample_in_ball` returns is such a challenge.

Together with C18 (the pipelines compute ring products), C08 (the encodings round-trip), C09/C11 (all key provenances
are the same structs) and C02 (verification is Algorithm 8) these are the ingredients of the completeness proof; the
composition through Algorithm 7's rejection loop is not assembled in Lean and stays decided by execution.
-/
namespace Fips204.Props.C01
open Fips204 Fips204.Gen

theorem use_hint_recovers_high_bits (g r z : Int) (hg : g = 95232 ∨ g = 261888) (hz : -g ≤ z ∧ z ≤ g) :
    Spec.useHint g (if Spec.makeHint g z r then 1 else 0) r = Spec.highBits g (r + z) :=
  Spec.hint_duality g r z hg hz

theorem high_bits_stable_under_small_shift (g r s b : Int) (hg : g = 95232 ∨ g = 261888) (hb : 0 ≤ b ∧ b ≤ g) (hs : -b ≤ s ∧ s ≤ b)
    (hl : -(g - b) < Spec.lowBits g r ∧ Spec.lowBits g r < g - b) : Spec.highBits g (r + s) = Spec.highBits g r :=
  Spec.highBits_stable g r s b hg hb hs hl

/-- the same, for the crate's kernels (both build modes): feeding `make_hint`'s answer to `use_hint` gives `high_bits(r + z)` -/
theorem kernels_use_hint_recovers_high_bits (m : Mode) (g z r : Int) (hg : g = 95232 ∨ g = 261888) (hz : -g ≤ z ∧ z ≤ g)
    (h1 : -2143289344 < r) (h2 : r < 2143289344) (h3 : -2143289344 < r + z) (h4 : r + z < 2143289344) :
    ∃ hb, make_hint m g z r = .ok hb ∧ use_hint m g (if hb then 1 else 0) r = high_bits m g (r + z) := by
  refine ⟨Spec.makeHint g z r, C15.make_hint_spec m g z r hg h1 h2 h3 h4, ?_⟩
  rw [C15.use_hint_spec m g _ r hg (by split <;> simp) h1 h2, C15.high_bits_spec m g (r + z) hg h3 h4,
    Spec.hint_duality g r z hg hz]

theorem signer_hint_coefficient (g beta w cs2 ct0 : Int) (hg : g = 95232 ∨ g = 261888) (hb : 0 ≤ beta ∧ beta ≤ g)
    (h1 : -beta ≤ modpm Q cs2 ∧ modpm Q cs2 ≤ beta)
    (h2 : -(g - beta) < Spec.lowBits g (w - cs2) ∧ Spec.lowBits g (w - cs2) < g - beta)
    (h3 : -g < modpm Q ct0 ∧ modpm Q ct0 < g) :
    Spec.useHint g (if Spec.makeHint g (-ct0) (w - cs2 + ct0) then 1 else 0) (w - cs2 + ct0) = Spec.highBits g w :=
  Impl.coeff_hint g beta w cs2 ct0 hg hb h1 h2 h3

theorem challenge_times_small_vector_is_small (c s : Impl.Poly) (tau eta : Int) (hc : Impl.Tri c) (hn : (Impl.nz c : Int) = tau)
    (hs : s.length = 256) (hB : ∀ x ∈ s, -eta ≤ x ∧ x ≤ eta) (he : 0 ≤ eta) (hsmall : eta * tau ≤ 4190208) :
    ∀ x ∈ Impl.cmul c s, -(eta * tau) ≤ modpm Q x ∧ modpm Q x ≤ eta * tau :=
  Impl.cmul_centered_bound c s tau eta hc hn hs hB he hsmall

theorem challenge_has_weight_tau (m : Mode) (O : Impl.Oracles) (hO : Impl.OracleOk O) (ctest : Bool) (tau : Int) (rho : List Nat)
    (ht : 0 ≤ tau ∧ tau ≤ 64) : Impl.NoPanic (Impl.sampleInBall m O ctest tau rho) (fun c => Impl.Tri c ∧ Impl.nz c = tau.toNat) :=
  Impl.sampleInBall_np' m O hO ctest tau rho ht

end Fips204.Props.C01
