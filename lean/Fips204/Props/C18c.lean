import Fips204.Lemmas.SpecSign
/-!
# C18 (continued) — the standard's NTT multiplication is multiplication in `Z_q[X]/(X^256 + 1)`

`C18` / `C18b` prove that the crate's NTT pipeline computes the negacyclic product.  The same fact about the transforms of the standard
themselves (`Spec.ntt`, `Spec.invNtt`: Algorithms 41 / 42 with the zetas `1753^BitRev8(m) mod q`, `Spec.mulQ`: coefficient-wise product mod q)
is a by-product of the literal-specification layer (`cmul_is_spec`, used for lines 18, 19, 25 of Algorithm 7):

* `standard_ntt_product_is_the_negacyclic_product` — for all polynomials `a`, `b` of 256 integer coefficients,
  `NTT^-1(NTT(a) ∘ NTT(b))` is the canonical representative (coefficients in `[0, q)`) of the schoolbook product of `a` and `b` reduced by
  `X^256 = -1` (`negMul a b = negc (mulP a b)`).
-/
namespace Fips204.Props.C18
open Fips204 Fips204.Gen Fips204.Impl

theorem standard_ntt_product_is_the_negacyclic_product (a b : Poly) (la : a.length = 256) (lb : b.length = 256) :
    Spec.invNtt (Spec.mulQ (Spec.ntt a) (Spec.ntt b)) = canon (negMul a b) :=
  (cmul_is_spec a b la lb).symm

/-- a concrete instance (a test, labelled as a test): `X^255 * X = -1`, i.e. the constant `q - 1` -/
example : (canon (negMul ((List.replicate 255 0) ++ [1]) ([0, 1] ++ List.replicate 254 0))).head? = some 8380416 := by decide +kernel

end Fips204.Props.C18
