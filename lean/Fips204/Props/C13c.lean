import Fips204.Props.C13b
import Fips204.Lemmas.SignOk
/-!
# C13 (continued) — the signing path never panics

For every private-key struct that `expand_private` returns (i.e. any key deserialisation accepted), every message,
context, pre-hash function and every behaviour of the caller's random generator, `try_sign_with_rng`,
`try_hash_sign_with_rng` and `_internal_sign` return a value (a signature or an error) in both build modes - within the
first `fuel` attempts of the rejection loop, where `fuel * l ≤ 65535`: the crate's attempt counter `kappa` is a `u16`
stepped by `l`, so more than `65535 / l` (9362 for ML-DSA-87) consecutive rejections would overflow it; the probability
of that is below 2^-256 and it is the one residual panic of the signing path, stated in the hypothesis rather than hidden.
As in `C13b`, the model's extra outcome `Fault.fuel` (finite XOF prefix / attempt budget exhausted) is allowed.

Composition (`Lemmas/SignOk`): `expand_mask` stays inside the encoder's range; the commitment pipeline cannot overflow
(C18); `high_bits` stays inside `w1_encode`'s asserted range; `sample_in_ball`'s assertions hold; `c s1`, `c s2`, `c t0`
fit `mont_reduce` and the inverse transform; `partial_reduce32`, `low_bits`, `make_hint` are called inside their
domains (C15); an accepted attempt satisfies every assertion of `sig_encode` and `hint_bit_pack` (norm bound implies the
response range, the hint count bound implies the per-polynomial bounds and the index discipline).
-/
namespace Fips204.Props.C13
open Fips204 Fips204.Gen Fips204.Impl

theorem draw_try_fill_ok (propagated : Bool) (script : List RngResp) (n : Nat) :
    ∃ r, draw "try_fill_bytes" propagated script n = .ok r := by
  unfold draw
  rw [if_pos (by decide)]
  cases script with
  | nil => exact ⟨_, rfl⟩
  | cons r rest =>
    cases r with
    | ok b => simp only []; split <;> exact ⟨_, rfl⟩
    | errBefore => exact ⟨_, rfl⟩
    | errAfter w => exact ⟨_, rfl⟩

theorem signCfg_of_mem (p : ParamSet) (hp : p ∈ [ml_dsa_44, ml_dsa_65, ml_dsa_87]) :
    ∃ blz, VerCfg p blz ∧ (1 ≤ p.k ∧ p.k ≤ 8) ∧ (0 ≤ p.eta ∧ p.eta ≤ 4) := by
  simp only [List.mem_cons, List.mem_nil_iff, or_false] at hp
  rcases hp with rfl | rfl | rfl
  · exact ⟨18, verCfg_44, by decide, by decide⟩
  · exact ⟨20, verCfg_65, by decide, by decide⟩
  · exact ⟨20, verCfg_87, by decide, by decide⟩

/-- the three signing entry points on any accepted private key -/
theorem signing_never_panics (m : Mode) (O : Oracles) (hO : OracleOk O) (p : ParamSet) (hp : p ∈ [ml_dsa_44, ml_dsa_65, ml_dsa_87])
    (fuel : Nat) (hfuel : fuel * p.l ≤ 65535) (skb : List Nat) (sk : PrivateKey) (hsk : expandPrivate m p skb = .ok (some sk))
    (msg ctx rnd : List Nat) (ph : Ph) (script : List RngResp) :
    NoPanic (sign m O p fuel sk msg ctx script) (fun _ => True) ∧ NoPanic (hashSign m O p fuel sk msg ctx ph script) (fun _ => True) ∧
    NoPanic (internalSign m O p fuel sk msg ctx rnd) (fun _ => True) := by
  obtain ⟨blz, cfg, hk, he⟩ := signCfg_of_mem p hp
  have hok := expandPrivate_skok m p he skb sk hsk
  have hs : ∀ oid phm rnd nist, NoPanic (signInternal m O CTEST_default p fuel sk msg ctx oid phm rnd nist) (fun _ => True) :=
    fun oid phm rnd nist => signInternal_np m O hO p blz cfg hk fuel hfuel sk hok msg ctx oid phm rnd nist
  refine ⟨?_, ?_, ?_⟩
  · unfold sign signCtxGuard
    rw [pure_eq, ok_bind]
    split
    · exact NoPanic.ok _ trivial
    · obtain ⟨r, hr⟩ := draw_try_fill_ok rngErrPropagated_sign script rngBytes_sign
      have hm : rngMethod_sign = "try_fill_bytes" := rfl
      rw [hm, hr, ok_bind]
      obtain ⟨o, rest, c⟩ := r
      cases o with
      | none => exact NoPanic.ok _ trivial
      | some rnd' => exact (hs [] [] rnd' false).bind (fun s _ => NoPanic.ok _ trivial)
  · unfold hashSign hashSignCtxGuard
    rw [pure_eq, ok_bind]
    split
    · exact NoPanic.ok _ trivial
    · obtain ⟨r, hr⟩ := draw_try_fill_ok rngErrPropagated_hashSign script rngBytes_hashSign
      have hm : rngMethod_hashSign = "try_fill_bytes" := rfl
      rw [hm, hr, ok_bind]
      obtain ⟨o, rest, c⟩ := r
      cases o with
      | none => exact NoPanic.ok _ trivial
      | some rnd' => exact (hs _ _ rnd' false).bind (fun s _ => NoPanic.ok _ trivial)
  · unfold internalSign internalSignCtxGuard
    rw [pure_eq, ok_bind]
    split
    · exact NoPanic.ok _ trivial
    · exact (hs [] [] rnd true).bind (fun s _ => NoPanic.ok _ trivial)

end Fips204.Props.C13
