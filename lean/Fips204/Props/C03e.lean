import Fips204.Lemmas.SpecApi
/-!
# C03 (continued) — the two signing entry points are FIPS 204 Algorithms 2 and 4 **as the standard writes them**

`Spec.sign` / `Spec.hashSign` (`Spec/MlDsa.lean`) transcribe Algorithms 2 and 4 (hedged variant): `⊥` on a context longer than 255 bytes, `⊥` when
the random bit generator fails, otherwise `ML-DSA.Sign_internal(sk, M', rnd)` on the formatted message, with Algorithm 7 starting from `skDecode(sk)`.

* `sign_is_ML_DSA_Sign_as_written`, `hash_sign_is_HashML_DSA_Sign_as_written` — for each parameter set, every private-key byte string
  deserialisation accepts, every message, **every context of any length**, each pre-hash function, every generator whose first answer is 32 bytes
  `rnd` (whatever it would answer afterwards), in both build modes and within the 16-bit attempt counter: the entry point returns exactly the
  standard's signature (`Ok`, with one `try_fill_bytes(32)` call logged), or an error exactly when the standard returns `⊥`.
  A failing generator is C12 (`sign_reports_rng_failure`: `Err`, matching line 6-8 of Algorithm 2).
-/
namespace Fips204.Props.C03
open Fips204 Fips204.Gen Fips204.Impl

theorem sign_is_ML_DSA_Sign_as_written (m : Mode) (O : Oracles) (hO : OracleOk O) (hP : OraclePrefix O)
    (p : ParamSet) (hp : p ∈ [ml_dsa_44, ml_dsa_65, ml_dsa_87]) (fuel : Nat) (hfuel : fuel * p.l ≤ 65535)
    (skb : List Nat) (hb : ∀ x ∈ skb, x < 256) (hlen : skb.length = p.skLen)
    (sk : PrivateKey) (hsk : expandPrivate m p skb = .ok (some sk)) (msg ctx rnd : List Nat) (rest : List RngResp) (hr : rnd.length = 32) :
    AgreesApiSig (sign m O p fuel sk msg ctx (RngResp.ok rnd :: rest))
      (Spec.sign (specParams p) O.h O.g (1680 * O.fuelScale) (8 + 1360 * O.fuelScale) fuel skb msg ctx (some rnd)) :=
  sign_is_algorithm_2_as_written m O hO hP p hp fuel hfuel skb hb hlen sk hsk msg ctx rnd rest hr

theorem hash_sign_is_HashML_DSA_Sign_as_written (m : Mode) (O : Oracles) (hO : OracleOk O) (hP : OraclePrefix O) (hW : Spec.WF O)
    (p : ParamSet) (hp : p ∈ [ml_dsa_44, ml_dsa_65, ml_dsa_87]) (fuel : Nat) (hfuel : fuel * p.l ≤ 65535)
    (skb : List Nat) (hb : ∀ x ∈ skb, x < 256) (hlen : skb.length = p.skLen)
    (sk : PrivateKey) (hsk : expandPrivate m p skb = .ok (some sk)) (msg ctx rnd : List Nat) (ph : Ph) (rest : List RngResp) (hr : rnd.length = 32) :
    AgreesApiSig (hashSign m O p fuel sk msg ctx ph (RngResp.ok rnd :: rest))
      (Spec.hashSign (specParams p) O.h O.g O.sha256 O.sha512 (1680 * O.fuelScale) (8 + 1360 * O.fuelScale) fuel skb msg ctx (specPh ph) (some rnd)) :=
  hashSign_is_algorithm_4_as_written m O hO hP hW p hp fuel hfuel skb hb hlen sk hsk msg ctx rnd ph rest hr

/-- a failing generator (error before or after writing, empty answer, exhausted script) is the `NULL` of Algorithm 2 lines 5-8: an error, as the
    standard returns `⊥` - for every context length -/
theorem sign_with_failing_generator_is_bottom (m : Mode) (O : Oracles) (p : ParamSet) (fuel : Nat) (sk : PrivateKey) (skb msg ctx : List Nat)
    (script : List RngResp) (h : C12.Fails script) :
    AgreesApiSig (sign m O p fuel sk msg ctx script)
      (Spec.sign (specParams p) O.h O.g (1680 * O.fuelScale) (8 + 1360 * O.fuelScale) fuel skb msg ctx none) :=
  sign_failing_generator_is_bottom m O p fuel sk skb msg ctx script h

theorem hash_sign_with_failing_generator_is_bottom (m : Mode) (O : Oracles) (p : ParamSet) (fuel : Nat) (sk : PrivateKey) (skb msg ctx : List Nat)
    (ph : Ph) (script : List RngResp) (h : C12.Fails script) :
    AgreesApiSig (hashSign m O p fuel sk msg ctx ph script)
      (Spec.hashSign (specParams p) O.h O.g O.sha256 O.sha512 (1680 * O.fuelScale) (8 + 1360 * O.fuelScale) fuel skb msg ctx (specPh ph) none) :=
  hashSign_failing_generator_is_bottom m O p fuel sk skb msg ctx ph script h

/-- the standard's `⊥` cases (tests of the transcription, labelled as tests) -/
example (P : Spec.Params) (H G : List Nat → Nat → List Nat) (sk M ctx : List Nat) (r : Option (List Nat)) (h : ctx.length > 255) :
    Spec.sign P H G 0 0 0 sk M ctx r = some none := by unfold Spec.sign; rw [if_pos h]
example (P : Spec.Params) (H G : List Nat → Nat → List Nat) (sk M : List Nat) :
    Spec.sign P H G 0 0 0 sk M [] none = some none := rfl

end Fips204.Props.C03
