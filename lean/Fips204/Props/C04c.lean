import Fips204.Lemmas.SpecKeygen
/-!
# C04 (continued) — key generation is FIPS 204 Algorithm 6 **as the standard writes it**

`key_generation_is_algorithm_6` (C04b) equates key generation + serialisation with a specification that still shared the model's
transcriptions of `ExpandS`, `ExpandA`, `pkEncode` and `skEncode`.  Here those are replaced by the transcription of the standard in
`Spec/*` (no crate vocabulary): Algorithm 33 / 31 (`ExpandS`, `RejBoundedPoly` over the SHAKE256 stream), 32 / 30, 22, 24 (on the
bit-string `SimpleBitPack` / `BitPack` of Algorithms 16 / 17), 41 / 42 with the standard's zetas, 35, and Algorithm 6 itself
(`Spec.keyGenInternal`).

* `key_generation_is_fips_204_algorithm_6_as_written` — for each parameter set, every oracle and **every seed**, in both build modes:
  generating a key pair from the seed and serialising both keys returns exactly the pair of byte strings `Spec.keyGenInternal` computes
  (`none` / `Fault.fuel` when the finite XOF prefix the model hands to the rejection samplers is too short).
* components, for all inputs: `expand_s_is_ExpandS`, `pk_encode_is_pkEncode`, `sk_encode_is_skEncode`.
-/
namespace Fips204.Props.C04
open Fips204 Fips204.Gen Fips204.Impl

theorem key_generation_is_fips_204_algorithm_6_as_written (m : Mode) (O : Oracles) (hO : OracleOk O) (p : ParamSet)
    (hp : p ∈ [ml_dsa_44, ml_dsa_65, ml_dsa_87]) (xi : List Nat) :
    Agrees (keygenFromSeed m O p xi >>= fun kp => pkIntoBytes m p kp.1 >>= fun pkb => skIntoBytes m p kp.2 >>= fun skb => pure (pkb, skb))
      (Spec.keyGenInternal (specParams p) O.h O.g (1680 * O.fuelScale) (1088 * O.fuelScale) xi) :=
  keygen_is_algorithm_6_as_written m O hO p hp xi

theorem expand_s_is_ExpandS (m : Mode) (O : Oracles) (hO : OracleOk O) (p : ParamSet) (he : p.eta = 2 ∨ p.eta = 4) (rho : List Nat) (hr : rho.length = 64) :
    expandS m O false p rho =
      ofSpec "hashing.rs:rej_bounded_poly:stream" (Spec.expandS (fun x => O.h x (1088 * O.fuelScale)) p.eta p.k p.l rho) :=
  expandS_is_algorithm_33 m O hO p he rho hr

theorem pk_encode_is_pkEncode (m : Mode) (p : ParamSet) (rho : List Nat) (t1 : List Poly) (hr : rho.length = 32)
    (hcfg : p.pkLen = 32 + 32 * p.k * blqd) (hs : Sh p.k t1) (ht : ∀ q ∈ t1, ∀ x ∈ q, 0 ≤ x ∧ x ≤ 1023) :
    pkEncode m p rho t1 = .ok (Spec.pkEncode rho t1) :=
  pkEncode_is_algorithm_22 m p rho t1 hr hcfg hs ht

theorem sk_encode_is_skEncode (m : Mode) (p : ParamSet) (he : p.eta = 2 ∨ p.eta = 4) (bl : Nat) (hbl : bitLen m (2 * p.eta) = .ok bl)
    (hcfg : p.skLen = 128 + 32 * ((p.k + p.l) * bl + D.toNat * p.k)) (s : SkParts)
    (hr : s.rho.length = 32) (hk : s.key.length = 32) (ht : s.tr.length = 64)
    (h1 : VecIn p.l (-p.eta) p.eta s.s1) (h2 : VecIn p.k (-p.eta) p.eta s.s2) (h0 : VecIn p.k (-(top - 1)) top s.t0) :
    skEncode m p s = .ok (Spec.skEncode bl p.eta s.rho s.key s.tr s.s1 s.s2 s.t0) :=
  skEncode_is_algorithm_24 m p he bl hbl hcfg s hr hk ht h1 h2 h0

/-- the standard's functions evaluated (tests, labelled as tests): the half-byte sampler of Algorithm 31 -/
example : Spec.rejBounded 2 4 [0x00, 0xF1, 0x45] [] = none := by decide +kernel
example : Spec.coeffFromHalfByte 2 14 = some (-2) ∧ Spec.coeffFromHalfByte 2 15 = none ∧ Spec.coeffFromHalfByte 4 8 = some (-4) ∧ Spec.coeffFromHalfByte 4 9 = none := by decide

end Fips204.Props.C04
