import Fips204.Impl.Api
import Fips204.Lemmas.Arith
/-!
# C11 — the public key derived from a private key equals the generated one

Proved for all keys and oracles: the derived key *copies* rho and tr from the private key, and the
derivation reads neither K nor t0 (so no value of the t0 section can influence it or make it fault -
the repaired F2).  Key generation stores the same rho and tr in both structs, with tr = H(pkEncode(rho, t1)).
Not proved: the recomputed `t1` precompute equals the generated one for every key (NTT pipeline, C18);
decided on every run by struct-level comparison on the crate and against the model.
-/
namespace Fips204.Props.C11
open Fips204 Fips204.Gen Fips204.Impl

/-- the derived key carries the private key's rho and tr (a zeroed or recomputed tr would break this) -/
theorem derive_copies_rho_tr (m : Mode) (O : Oracles) (p : ParamSet) (sk : PrivateKey) (pk : PublicKey)
    (h : privateToPublicKey m O p sk = .ok pk) : pk.rho = sk.rho ∧ pk.tr = sk.tr := by
  unfold privateToPublicKey at h
  simp only [bind, Except.bind] at h
  repeat (split at h; · simp [pure, Except.pure] at h)
  simp only [pure, Except.pure, Except.ok.injEq] at h
  subst h
  exact ⟨rfl, rfl⟩

/-- the derivation does not read K or t0 -/
theorem derive_ignores_key_and_t0 (m : Mode) (O : Oracles) (p : ParamSet) (sk : PrivateKey) (k' : List Nat) (t0' : List Poly) :
    privateToPublicKey m O p { sk with key := k', t0 := t0' } = privateToPublicKey m O p sk := rfl

/-- key generation puts the same rho and tr into both structs -/
theorem keygen_shares_rho_tr (m : Mode) (O : Oracles) (ctest : Bool) (p : ParamSet) (xi : List Nat) (pk : PublicKey) (sk : PrivateKey)
    (h : keyGenInternal m O ctest p xi = .ok (pk, sk)) : pk.rho = sk.rho ∧ pk.tr = sk.tr := by
  unfold keyGenInternal at h
  simp only [bind, Except.bind] at h
  repeat (split at h; · simp [pure, Except.pure] at h)
  simp only [pure, Except.pure, Except.ok.injEq, Prod.mk.injEq] at h
  obtain ⟨h1, h2⟩ := h
  subst h1 h2
  exact ⟨rfl, rfl⟩

/-- hence, whenever the derived `t1` precompute equals the generated one, the two public keys are the same struct -/
theorem derive_eq_of_same_t1 (m : Mode) (O : Oracles) (p : ParamSet) (xi : List Nat) (pk pk' : PublicKey) (sk : PrivateKey)
    (hk : keyGenInternal m O CTEST_default p xi = .ok (pk, sk)) (hd : privateToPublicKey m O p sk = .ok pk')
    (ht : pk'.t1d2 = pk.t1d2) : pk' = pk := by
  obtain ⟨h1, h2⟩ := keygen_shares_rho_tr m O _ p xi pk sk hk
  obtain ⟨h3, h4⟩ := derive_copies_rho_tr m O p sk pk' hd
  cases pk; cases pk'; simp_all

end Fips204.Props.C11
