import Fips204.Impl.Api
import Fips204.Lemmas.Arith
import Fips204.Props.C07
/-!
# C02 — verification accepts exactly what FIPS 204 Verify accepts

Proved for all inputs and all oracles (the *rejecting* half the property spells out):
acceptance implies that strict decoding of the signature succeeded (so no malformed hint encoding is ever
accepted), that the response norm is strictly below `gamma1 - beta`, and that the commitment hash recomputed
from the decoded signature equals `c~`; and no context longer than 255 bytes is accepted (C07).
Not proved: that the recomputed `w1'` equals FIPS 204's for every input (`C02_full`): needs the NTT pipeline
refinement (C18, proved for overflow-freedom only) and UseHint/w1Encode lemmas (C15 gives UseHint); decided on
every run by differential execution against the Python transcription of Algorithm 8 on constructed boundary cases.
-/
namespace Fips204.Props.C02
open Fips204 Fips204.Gen Fips204.Impl

/-- acceptance implies: decoding succeeded, norm strictly below gamma1 - beta, commitment hash equal -/
theorem accept_implies (m : Mode) (O : Oracles) (ctest : Bool) (p : ParamSet) (pk : PublicKey)
    (msg sig ctx oid phm : List Nat) (nist : Bool)
    (h : verifyInternal m O ctest p pk msg sig ctx oid phm nist = .ok true) :
    ∃ cTilde z hh zn g1b w1t, sigDecode m p sig = .ok (some (cTilde, z, hh)) ∧ infinityNorm m z = .ok zn ∧
      arith .i32 m "ml_dsa.rs:verify_internal:gamma1-beta" (p.gamma1 - p.beta) = .ok g1b ∧ zn < g1b ∧
      cTilde = O.h (muOf O domPure_verify domHash_verify pk.tr msg ctx oid phm nist ++ w1t) p.lambdaDiv4 := by
  unfold verifyInternal at h
  simp only [bind, Except.bind] at h
  split at h
  · contradiction
  · rename_i v hv
    split at h
    · simp [pure, Except.pure] at h
    · rename_i cTilde z hh
      repeat (split at h; · cases h)
      rename_i hzn _ _ hg
      simp only [pure, Except.pure, Except.ok.injEq, Bool.and_eq_true, decide_eq_true_eq] at h
      exact ⟨cTilde, z, hh, _, _, _, hv, hzn, hg, h.1, h.2⟩

/-- a signature whose encoding does not decode (any malformed hint section, see C08) is never accepted -/
theorem malformed_encoding_rejected (m : Mode) (O : Oracles) (ctest : Bool) (p : ParamSet) (pk : PublicKey)
    (msg sig ctx oid phm : List Nat) (nist : Bool) (h : sigDecode m p sig = .ok none) :
    verifyInternal m O ctest p pk msg sig ctx oid phm nist = .ok false := by
  unfold verifyInternal
  simp only [h, ok_bind, pure_eq]

/-- a response vector of infinity norm at least gamma1 - beta is never accepted -/
theorem large_norm_rejected (m : Mode) (O : Oracles) (ctest : Bool) (p : ParamSet) (pk : PublicKey)
    (msg sig ctx oid phm : List Nat) (nist : Bool) (cTilde : List Nat) (z hh : List Poly) (zn : Int)
    (hfit : -2147483648 ≤ p.gamma1 - p.beta ∧ p.gamma1 - p.beta ≤ 2147483647)
    (hd : sigDecode m p sig = .ok (some (cTilde, z, hh))) (hn : infinityNorm m z = .ok zn)
    (hb : p.gamma1 - p.beta ≤ zn) :
    verifyInternal m O ctest p pk msg sig ctx oid phm nist ≠ .ok true := by
  intro h
  obtain ⟨c', z', h', zn', g1b, w1t, h1, h2, h3, h4, _⟩ := accept_implies m O ctest p pk msg sig ctx oid phm nist h
  rw [hd] at h1
  simp only [Except.ok.injEq, Option.some.injEq, Prod.mk.injEq] at h1
  obtain ⟨_, hz, _⟩ := h1
  subst hz
  rw [hn] at h2
  simp only [Except.ok.injEq] at h2
  subst h2
  rw [arith_i32 _ _ _ hfit.1 hfit.2] at h3
  simp only [Except.ok.injEq] at h3
  omega

/-- the side condition holds for the three parameter sets of the crate -/
theorem params_fit : ∀ p ∈ [ml_dsa_44, ml_dsa_65, ml_dsa_87],
    -2147483648 ≤ p.gamma1 - p.beta ∧ p.gamma1 - p.beta ≤ 2147483647 := by decide

/-- contexts longer than 255 bytes are never accepted by the three external verifiers (from C07) -/
theorem long_context_rejected (m : Mode) (O : Oracles) (p : ParamSet) (pk : PublicKey) (msg sig ctx : List Nat)
    (ph : Ph) (h : ctx.length > 255) :
    verify m O p pk msg sig ctx = .ok false ∧ hashVerify m O p pk msg sig ctx ph = .ok false ∧
    internalVerify m O p pk msg sig ctx = .ok false :=
  ⟨C07.verify_rejects_long_ctx m O p pk msg sig ctx h, C07.hashVerify_rejects_long_ctx m O p pk msg sig ctx ph h,
   C07.internalVerify_rejects_long_ctx m O p pk msg sig ctx h⟩

/-- **the final test of `verify_internal`, as written in the source (regenerated on every run), is Algorithm 8 line 13**:
    strict `<` on the norm, equality of the two hashes, conjunction -/
theorem verify_acceptance_test_is_algorithm_8 (zn g1 beta : Int) (ct ctp : List Nat) :
    verifyAccept zn g1 beta ct ctp = (decide (zn < g1 - beta) && decide (ct = ctp)) := rfl

end Fips204.Props.C02
