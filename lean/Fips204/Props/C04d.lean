import Fips204.Lemmas.SpecApi
/-!
# C04 (continued) — `try_keygen_with_rng` is FIPS 204 Algorithm 1 **as the standard writes it**

`Spec.keyGen` transcribes Algorithm 1: `⊥` when the random bit generator fails, otherwise `ML-DSA.KeyGen_internal(xi)`.

* `keygen_is_ML_DSA_KeyGen_as_written` — for each parameter set and every generator whose first answer is 32 bytes `xi` (whatever it would
  answer afterwards), in both build modes: the entry point returns `Ok` with one `try_fill_bytes(32)` call logged, and the two structs serialise
  to exactly the standard's `(pk, sk)`.  (Last case of the `match`: the finite XOF prefix of the transcription ran out - then so did the model's.)
  A failing generator is `keygen_rng_failure` (C04): `Err` and no key, the standard's `⊥`.
-/
namespace Fips204.Props.C04
open Fips204 Fips204.Gen Fips204.Impl

theorem keygen_is_ML_DSA_KeyGen_as_written (m : Mode) (O : Oracles) (hO : OracleOk O) (p : ParamSet) (hp : p ∈ [ml_dsa_44, ml_dsa_65, ml_dsa_87])
    (xi : List Nat) (rest : List RngResp) (hx : xi.length = 32) :
    match Spec.keyGen (specParams p) O.h O.g (1680 * O.fuelScale) (1088 * O.fuelScale) (some xi) with
    | some (some (pk, sk)) => ∃ kp, keygenWithRng m O p (RngResp.ok xi :: rest) = .ok (.ok kp, [.tryFill 32]) ∧
        pkIntoBytes m p kp.1 = .ok pk ∧ skIntoBytes m p kp.2 = .ok sk
    | some none => False
    | none => ∃ s, keygenWithRng m O p (RngResp.ok xi :: rest) = .error (.fuel s) ∨
        ∃ kp, keygenWithRng m O p (RngResp.ok xi :: rest) = .ok (.ok kp, [.tryFill 32]) ∧
          ((∃ s', pkIntoBytes m p kp.1 = .error (.fuel s')) ∨ ∃ s', skIntoBytes m p kp.2 = .error (.fuel s')) :=
  keygen_is_algorithm_1_as_written m O hO p hp xi rest hx

example (P : Spec.Params) (H G : List Nat → Nat → List Nat) : Spec.keyGen P H G 0 0 none = some none := rfl

end Fips204.Props.C04
