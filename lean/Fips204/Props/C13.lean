import Fips204.Props.C15
import Fips204.Props.C07
import Fips204.Props.C12
import Fips204.Props.C18
import Fips204.Props.C10
/-!
# C13 — no input can make the library panic

In `Mode.checked` (debug assertions and overflow checks on) a panic is a `Fault`.  Proved fault-free, for
**all** inputs: every scalar kernel on its documented domain (C15); the inverse NTT on every vector that fits
`partial_reduce32` (C18; the pinned tree faulted here: F3); all six external entry points on over-long
contexts (C07); key generation and both signers on every failing generator (C12); re-serialisation range
self-checks for every accepted private key (C10; pinned tree: F1); and public-key derivation does not read
`t0` (C11; pinned tree: F2).  the verifier's and signer's lazy NTT pipelines on their whole input envelopes (C18).  The whole verification path (any public-key bytes, any signature bytes) is proved
panic-free in `Props/C13b`.  The remaining paths (the scalar post-processing of sign and keygen after their NTT pipelines)
are not proved; they are exercised on every run in the checked build with hostile inputs, and every panic there is
reported with the input.
-/
namespace Fips204.Props.C13
open Fips204 Fips204.Gen Fips204.Impl

/-- a result is not a panic -/
def NoFault {α} (r : M α) : Prop := ∃ v, r = .ok v

theorem kernels_no_fault (a : Int) (h1 : -2143289344 < a) (h2 : a < 2143289344) :
    NoFault (partial_reduce32 .checked a) ∧ NoFault (full_reduce32 .checked a) ∧ NoFault (center_mod .checked a) ∧
    (∀ g, g = 95232 ∨ g = 261888 → NoFault (decompose .checked g a) ∧ NoFault (use_hint .checked g 1 a)) := by
  refine ⟨?_, ⟨_, C15.full_reduce32_spec .checked a h1 h2⟩, ⟨_, C15.center_mod_spec .checked a h1 h2⟩, fun g hg => ⟨⟨_, C15.decompose_spec .checked g a hg h1 h2⟩, ⟨_, C15.use_hint_spec .checked g 1 a hg (Or.inr rfl) h1 h2⟩⟩⟩
  obtain ⟨r, hr, _⟩ := C15.partial_reduce32_spec .checked a h1 h2
  exact ⟨r, hr⟩

theorem mont_reduce_no_fault (a : Int) (h1 : -17996808479301632 ≤ a) (h2 : a ≤ 17996808470921215) :
    NoFault (mont_reduce .checked a) := by
  obtain ⟨r, hr, _⟩ := C15.mont_reduce_spec .checked a h1 h2
  exact ⟨r, hr⟩

theorem inv_ntt_no_fault (ws : List (List Int)) (hw : ∀ w ∈ ws, ∀ x ∈ w, -2143289343 ≤ x ∧ x ≤ 2143289343) :
    NoFault (invNtt .checked ws) := by
  obtain ⟨r, hr, _⟩ := C18.inv_ntt_never_overflows .checked ws hw
  exact ⟨r, hr⟩

/-- the verifier's whole NTT pipeline (Algorithm 8 step 9) on an adversary's response vector, and the signer's / key
    generator's commitment pipeline: no overflow, no failed assertion (from C18) -/
theorem ntt_pipelines_no_fault (aHat : List (List Poly)) (z : List Poly) (c : Poly) (t1d2 : List Poly)
    (hA : ∀ row ∈ aHat, row.length ≤ 7 ∧ ∀ p ∈ row, ∀ x ∈ p, 0 ≤ x ∧ x ≤ 8380416)
    (hz : ∀ w ∈ z, ∀ x ∈ w, -524288 ≤ x ∧ x ≤ 524288) (hc : ∀ x ∈ c, -1 ≤ x ∧ x ≤ 1)
    (ht : ∀ w ∈ t1d2, ∀ x ∈ w, -16760833 ≤ x ∧ x ≤ 16760833) :
    NoFault (wApproxOf .checked aHat z c t1d2) ∧
    NoFault (do let yh ← ntt .checked z; let ay ← matVecMul .checked aHat yh; invNtt .checked ay) := by
  obtain ⟨r, hr, _⟩ := C18.verify_pipeline_never_overflows .checked aHat z c t1d2 hA hz hc ht
  obtain ⟨r2, hr2, _⟩ := C18.commitment_pipeline_never_overflows .checked aHat z hA hz
  exact ⟨⟨r, hr⟩, ⟨r2, hr2⟩⟩

theorem long_context_no_fault (O : Oracles) (p : ParamSet) (fuel : Nat) (sk : PrivateKey) (pk : PublicKey)
    (msg sig ctx rnd : List Nat) (ph : Ph) (script : List RngResp) (h : ctx.length > 255) :
    NoFault (sign .checked O p fuel sk msg ctx script) ∧ NoFault (hashSign .checked O p fuel sk msg ctx ph script) ∧
    NoFault (internalSign .checked O p fuel sk msg ctx rnd) ∧ NoFault (verify .checked O p pk msg sig ctx) ∧
    NoFault (hashVerify .checked O p pk msg sig ctx ph) ∧ NoFault (internalVerify .checked O p pk msg sig ctx) :=
  ⟨⟨_, C07.sign_rejects_long_ctx _ O p fuel sk msg ctx script h⟩, ⟨_, C07.hashSign_rejects_long_ctx _ O p fuel sk msg ctx ph script h⟩,
   ⟨_, C07.internalSign_rejects_long_ctx _ O p fuel sk msg ctx rnd h⟩, ⟨_, C07.verify_rejects_long_ctx _ O p pk msg sig ctx h⟩,
   ⟨_, C07.hashVerify_rejects_long_ctx _ O p pk msg sig ctx ph h⟩, ⟨_, C07.internalVerify_rejects_long_ctx _ O p pk msg sig ctx h⟩⟩

theorem failing_rng_no_fault (O : Oracles) (p : ParamSet) (fuel : Nat) (sk : PrivateKey) (msg ctx : List Nat) (ph : Ph)
    (script : List RngResp) (hc : ctx.length ≤ 255) (h : C12.Fails script) :
    NoFault (keygenWithRng .checked O p script) ∧ NoFault (sign .checked O p fuel sk msg ctx script) ∧
    NoFault (hashSign .checked O p fuel sk msg ctx ph script) :=
  ⟨⟨_, C12.keygen_reports_rng_failure _ O p script h⟩, ⟨_, C12.sign_reports_rng_failure _ O p fuel sk msg ctx script hc h⟩,
   ⟨_, C12.hashSign_reports_rng_failure _ O p fuel sk msg ctx ph script hc h⟩⟩

/-- the three pinned-tree panics, each refuted on the frozen definitions and absent from the live model:
    F1 (accepted out-of-range field), F3 (inverse NTT overflow); F2's assertion no longer exists in `privateToPublicKey` -/
theorem pinned_tree_faults :
    ((Legacy.bitUnpack .checked (7 :: List.replicate 95 0) 2 2).toOption.bind id).map (fun w => w.head!) = some (-5) ∧
    (Legacy.invNttPoly .checked (List.replicate 256 8388608)).toOption = none :=
  ⟨C10.legacy_accepts_out_of_range, C18.legacy_inv_ntt_overflows⟩

end Fips204.Props.C13
