import Fips204.Impl.Encode
import Fips204.Lemmas.Arith
import Fips204.Props.C10
import Fips204.Lemmas.KeyDecode
/-!
# C08 — signature and polynomial encodings are canonical

Proved for all byte strings: a signature that decodes has its response coefficients in
`[-(gamma1-1), gamma1]` (whatever `bit_unpack` accepts is in range, C10), and decoding fails as soon as
the hint section does.  Checked by kernel evaluation over *complete* reduced parameter spaces (finite
tables, labelled as such): for (k, omega) = (1,2), (2,2) every hint section over the alphabet
{0,1,2,3,255} either is rejected or re-encodes to itself, and never faults.
Not proved for the full parameters: the characterisation `hintUnpack y = some h <-> y = hintPack h`
(`C08_full`), and the BitPack/BitUnpack bijection; decided on every run against a bit-level FIPS 204
reference (Algorithms 9-21) including exhaustive reduced-parameter enumeration.
-/
namespace Fips204.Props.C08
open Fips204 Fips204.Gen Fips204.Impl

/-- decoded response coefficients are always inside the encoder's domain `[-(gamma1-1), gamma1]` -/
theorem sigDecode_z_in_range (m : Mode) (p : ParamSet) (sig cT : List Nat) (z h : List Poly)
    (hp : 1 ≤ p.gamma1 ∧ p.gamma1 ≤ 2147483647)
    (hd : sigDecode m p sig = .ok (some (cT, z, h))) : ∀ q ∈ z, ∀ c ∈ q, -(p.gamma1 - 1) ≤ c ∧ c ≤ p.gamma1 := by
  unfold sigDecode at hd
  simp only [arith_i32 _ "encodings.rs:sig_decode:gamma1-1" (p.gamma1 - 1) (by omega) (by omega), ok_bind] at hd
  simp only [bind, Except.bind] at hd
  repeat (split at hd; · simp [pure, Except.pure, throw, throwThe, MonadExceptOf.throw] at hd)
  simp only [pure, Except.pure, Except.ok.injEq, Option.some.injEq, Prod.mk.injEq] at hd
  obtain ⟨_, hz', _⟩ := hd
  subst hz'
  exact C10.unpackMany_in_range m _ _ _ _ _ _ (by omega) (by omega) _ [] _ (by simp) (by assumption)

/-- the three parameter sets satisfy the side condition -/
theorem gamma1_fits : ∀ p ∈ [ml_dsa_44, ml_dsa_65, ml_dsa_87], 1 ≤ p.gamma1 ∧ p.gamma1 ≤ 2147483647 := by decide

/-- `BitUnpack` never faults and returns exactly 256 coefficients, each from one bitlen-bit field; and when
    `a + b + 1 = 2^bitlen` - every pair in use except (eta, eta) and (0, 43) - **every** byte string is accepted -/
theorem bitUnpack_total_on_exact_pairs (m : Mode) (v : List Nat) (a b : Int) (bl : Nat) (ha : 0 ≤ a ∧ a < 1048576)
    (hb : 1 ≤ b ∧ b < 1048576) (hbl : bitLen m (a + b) = .ok bl) (hbl2 : 1 ≤ bl ∧ bl ≤ 20) (hpow : a + b + 1 = 2 ^ bl)
    (hv : ∀ x ∈ v, x < 256) (hlen : v.length = 32 * bl) :
    ∃ w : List Int, bitUnpack m v a b = .ok (some w) ∧ w.length = 256 ∧ ∀ c ∈ w, -a ≤ c ∧ c ≤ b :=
  bitUnpack_total m v a b bl ha hb hbl hbl2 hpow hv hlen

/-- all hint sections of length omega + k over a byte alphabet -/
def allStrings (alpha : List Nat) : Nat → List (List Nat)
  | 0 => [[]]
  | n + 1 => (allStrings alpha n).flatMap (fun s => alpha.map (fun a => a :: s))

/-- one string is fine: rejected, or accepted and re-encoding to itself; never a fault -/
def canonicalOn (k : Nat) (omega : Int) (y : List Nat) : Bool :=
  match hintBitUnpack .checked k omega y with
  | .ok none => true
  | .ok (some h) => (hintBitPack .checked false omega h y.length).toOption == some y
  | .error _ => false

/-- finite table (complete for these reduced parameters): k = 1, omega = 2 -/
theorem hint_canonical_k1_w2 : (allStrings [0, 1, 2, 3, 255] 3).all (canonicalOn 1 2) = true := by decide +kernel
/-- finite table: k = 2, omega = 2 -/
theorem hint_canonical_k2_w2 : (allStrings [0, 1, 2, 3, 255] 4).all (canonicalOn 2 2) = true := by decide +kernel

end Fips204.Props.C08
