import Fips204.Gen.Cfg
/-!
# C17 — every supported feature combination builds and behaves the same

Finite model (level `other`): the cfg-gate inventory `Gen.cfgGates` (regenerated from `Cargo.toml` and
`src/*.rs`).  Inside the model, for all 28 configurations: at least one parameter-set module exists; every gate
sits on a parameter-set module, the `OsRng` import, an OS-RNG convenience function, the dudect entry point or a
test module; the `OsRng` import and each of its users carry the same predicate; no gate occurs inside the
algorithmic modules.  Hence the code of an enabled parameter set is the same term in every configuration.
*Not modelled*: rustc's lints and name resolution - enumerated completely instead (28 real builds with the
crate's own `deny(warnings, dead_code, ..)` in force, and known-answer digests per enabled set).
-/
namespace Fips204.Props.C17
open Fips204.Gen

structure Config where
  s44 : Bool
  s65 : Bool
  s87 : Bool
  rng : Bool
  dudect : Bool
  deriving DecidableEq, Repr

/-- the 28 configurations of the property: non-empty subsets of the three sets x default-rng x dudect -/
def configs : List Config :=
  ([true, false].flatMap fun a => [true, false].flatMap fun b => [true, false].flatMap fun c =>
    [true, false].flatMap fun r => [true, false].map fun d => Config.mk a b c r d).filter (fun c => c.s44 || c.s65 || c.s87)

theorem there_are_28 : configs.length = 28 := by decide

/-- evaluation of a gate predicate in a configuration (`none` = a predicate this model does not understand) -/
def evalPred (c : Config) : String → Option Bool
  | "test" => some false
  | "feature = 'default-rng'" => some c.rng
  | "feature = 'dudect'" => some c.dudect
  | "feature = 'ml-dsa-44'" => some c.s44
  | "feature = 'ml-dsa-65'" => some c.s65
  | "feature = 'ml-dsa-87'" => some c.s87
  | _ => none

/-- where a gate may sit -/
def allowedGate (g : CfgGate) : Bool :=
  (g.kind == "test-mod") ||
  (g.kind == "mod" && (g.item == "ml_dsa_44" || g.item == "ml_dsa_65" || g.item == "ml_dsa_87") && g.file == "lib.rs") ||
  (g.pred == "feature = 'default-rng'" && (g.item == "rand_core::OsRng" || g.item == "try_keygen" || g.item == "try_sign" || g.item == "try_hash_sign")) ||
  (g.pred == "feature = 'dudect'" && (g.item == "dudect_keygen_sign_with_rng" || g.file == "lib.rs"))

/-- the algorithmic modules contain no gate except their test modules -/
def algorithmic : List String := ["conversion.rs", "encodings.rs", "hashing.rs", "helpers.rs", "high_low.rs", "ml_dsa.rs", "ntt.rs", "types.rs"]

theorem gates_confined : cfgGates.all allowedGate = true := by decide

theorem no_gate_in_algorithmic_modules :
    cfgGates.all (fun g => !(algorithmic.contains g.file) || g.kind == "test-mod") = true := by decide

theorem every_predicate_understood : configs.all (fun c => cfgGates.all (fun g => (evalPred c g.pred).isSome)) = true := by decide

/-- the OsRng import and every user of it carry the same predicate, in every configuration: no dangling import, no missing import -/
theorem osrng_import_matches_users :
    configs.all (fun c =>
      let imp := cfgGates.filter (fun g => g.item == "rand_core::OsRng")
      let users := cfgGates.filter (fun g => g.file == "traits.rs" && g.kind == "fn")
      imp.length == 1 && users.all (fun u => imp.all (fun i => evalPred c u.pred == evalPred c i.pred))) = true := by decide

/-- each parameter-set module is gated by exactly its own feature, so every configuration enables at least one module -/
theorem some_module_enabled :
    configs.all (fun c => (cfgGates.filter (fun g => g.kind == "mod" && evalPred c g.pred == some true)).length ≥ 1) = true := by decide

/-- each OS-RNG convenience function is exactly one call of its `_with_rng` variant with `&mut OsRng` (C12, clause d) -/
theorem os_rng_wrappers_delegate : osRngWrappers.all (fun w => w.2.2) = true ∧ osRngWrappers.length = 4 := by decide

/-- the feature table of Cargo.toml is the one the property fixes -/
theorem feature_table :
    (features.map (·.1)) = ["default", "default-rng", "ml-dsa-44", "ml-dsa-65", "ml-dsa-87", "dudect", "verif-hooks"] ∧
    features.lookup "default" = some ["default-rng", "ml-dsa-44", "ml-dsa-65", "ml-dsa-87"] := by decide

end Fips204.Props.C17
