import Fips204.Props.C01b
import Fips204.Props.C07
import Fips204.Props.C09c
import Fips204.Props.C10b
import Fips204.Props.C11b
import Fips204.Props.C13c
import Fips204.Props.C13d
import Fips204.Lemmas.EndToEnd
/-!
# C01 — the property itself: a signature made with a generated private key verifies under the matching public key

* `signature_verifies_spec`: Algorithm 8 returns `true` on what Algorithm 7 emits (exact specifications; every key
  `(rho, K, tr, s1, s2)` with `t = A s1 + s2`, `(t1, t0) = Power2Round(t)`), through the rejection loop, `sigEncode` and `sigDecode`.
* `sign_then_verify`: the same for the model of the crate's own functions - `key_gen_internal`, `sign_internal`, `verify_internal` -
  for every seed, message, context, pre-hash, `rnd`, both build modes and the three parameter sets: whenever signing returns a
  signature, verification of it returns `true`.  Composition of C04 (`genOk_vectors`), C03 (`signInternal_eq_spec`), the
  specification-level theorem and C02 (`verifyInternal_eq_spec`).
* `sign_then_verify_any_provenance`: the private key may be the generated struct or the one deserialised from its bytes; the
  public key the generated struct, the one deserialised from its bytes, or the one derived from the private key (C09, C11).
* `api_sign_then_verify`, `api_hash_sign_then_verify`: the same at the level of `try_sign_with_rng` / `verify` and
  `try_hash_sign_with_rng` / `hash_verify`, for every RNG script.

What "returns a signature" leaves open: the model's rejection loop has a fuel bound (`fuel * l ≤ 65535`, the 16-bit counter);
the crate loops until acceptance.  The hash functions are an arbitrary oracle `O` returning bytes of the requested length.
-/
namespace Fips204.Props.C01
open Fips204 Fips204.Gen Fips204.Impl

theorem signature_verifies_spec (m : Mode) (O : Oracles) (hO : OracleOk O) (p : ParamSet)
    (hp : p ∈ [ml_dsa_44, ml_dsa_65, ml_dsa_87])
    (fuel : Nat) (rho key tr : List Nat) (s1 s2 : List Poly) (aHat : List (List Poly)) (hexp : expandA m O false p rho = .ok aHat)
    (hA : ∀ row ∈ aHat, ∀ a ∈ row, a.length = 256) (hk : aHat.length = p.k)
    (hs1 : s1.length = p.l ∧ ∀ u ∈ s1, u.length = 256) (hs2 : s2.length = p.k ∧ ∀ u ∈ s2, u.length = 256)
    (hs2b : ∀ u ∈ s2, ∀ x ∈ u, -p.eta ≤ x ∧ x ≤ p.eta)
    (msg ctx oid phm rnd : List Nat) (nist : Bool) (out : SignOut)
    (hsign : signSpec m O p fuel rho key tr s1 s2
      ((List.zipWith (fun row s2r => tRowS row s1 s2r) aHat s2).map (fun q => q.map (fun x => (Spec.power2round x).2)))
      msg ctx oid phm rnd nist = .ok out) :
    verifySpec m O false p rho tr
      ((List.zipWith (fun row s2r => tRowS row s1 s2r) aHat s2).map (fun q => q.map (fun x => (Spec.power2round x).1)))
      msg out.sig ctx oid phm nist = .ok true := by
  obtain ⟨hg, hbeta, hbg, htau, heta⟩ := c01_params p hp
  obtain ⟨blz, cfg, _, _⟩ := C13.signCfg_of_mem p hp
  exact sign_verify_spec m O hO p blz cfg.sig hg hbeta hbg htau heta fuel rho key tr s1 s2 aHat hexp hA hk hs1 hs2 hs2b
    msg ctx oid phm rnd nist out hsign

/-- **C01 on the model of the crate's functions** -/
theorem sign_then_verify (m : Mode) (O : Oracles) (hO : OracleOk O) (p : ParamSet) (hp : p ∈ [ml_dsa_44, ml_dsa_65, ml_dsa_87])
    (fuel : Nat) (hfuel : fuel * p.l ≤ 65535) (xi : List Nat) (kp : PublicKey × PrivateKey)
    (hkg : keygenFromSeed m O p xi = .ok kp) (msg ctx oid phm rnd : List Nat) (nist : Bool) (out : SignOut)
    (hs : signInternal m O CTEST_default p fuel kp.2 msg ctx oid phm rnd nist = .ok out) :
    verifyInternal m O CTEST_default p kp.1 msg out.sig ctx oid phm nist = .ok true := by
  obtain ⟨hg, hbeta, hbg, _, _⟩ := c01_params p hp
  obtain ⟨blz, cfg, hk8, _⟩ := C13.signCfg_of_mem p hp
  obtain ⟨_, he, _, _⟩ := C10.sk_config m p hp
  exact keygen_sign_verify m O hO p blz cfg hk8 he (pk_config_ok p hp) hg hbeta hbg fuel hfuel xi kp hkg msg ctx oid phm rnd nist out hs

/-- every provenance pair the property lists: generated or deserialised private key; generated, deserialised or derived public key -/
theorem sign_then_verify_any_provenance (m : Mode) (O : Oracles) (hO : OracleOk O) (p : ParamSet) (hp : p ∈ [ml_dsa_44, ml_dsa_65, ml_dsa_87])
    (fuel : Nat) (hfuel : fuel * p.l ≤ 65535) (xi : List Nat) (kp : PublicKey × PrivateKey)
    (hkg : keygenFromSeed m O p xi = .ok kp) (sk' : PrivateKey) (pk' : PublicKey)
    (hsk : sk' = kp.2 ∨ ∃ skb, skIntoBytes m p kp.2 = .ok skb ∧ expandPrivate m p skb = .ok (some sk'))
    (hpk : pk' = kp.1 ∨ (∃ pkb, pkIntoBytes m p kp.1 = .ok pkb ∧ expandPublic m O p pkb = .ok (some pk')) ∨
      privateToPublicKey m O p sk' = .ok pk')
    (msg ctx oid phm rnd : List Nat) (nist : Bool) (out : SignOut)
    (hs : signInternal m O CTEST_default p fuel sk' msg ctx oid phm rnd nist = .ok out) :
    verifyInternal m O CTEST_default p pk' msg out.sig ctx oid phm nist = .ok true := by
  obtain ⟨bl, he, hbl, hcfg⟩ := C10.sk_config m p hp
  obtain ⟨_, hl7, hpcfg⟩ := C13.keyCfg_of_mem p hp
  have hgen : GenOk m O p kp := by
    rcases (C13.keygen_never_panics m O hO p hp xi []).1 with ⟨v, hv, hpp⟩ | ⟨s, hs'⟩
    · rw [hkg] at hv; have := ok_inj hv; subst this; exact hpp
    · rw [hkg] at hs'; cases hs'
  obtain ⟨pkb, skb, h1, _, h3, h4, _, h6⟩ := gen_roundtrip_struct m O p he bl hbl hcfg hpcfg kp hgen
  have hd := derive_eq_generated m O p hl7 he kp hgen
  have esk : sk' = kp.2 := by
    rcases hsk with h | ⟨skb', g1, g2⟩
    · exact h
    · rw [h4] at g1; have := ok_inj g1; subst this
      rw [h6] at g2; have := ok_inj g2; simp only [Option.some.injEq] at this; exact this.symm
  subst esk
  have epk : pk' = kp.1 := by
    rcases hpk with h | ⟨pkb', g1, g2⟩ | g
    · exact h
    · rw [h1] at g1; have := ok_inj g1; subst this
      rw [h3] at g2; have := ok_inj g2; simp only [Option.some.injEq] at this; exact this.symm
    · rw [hd] at g; exact (ok_inj g).symm
  subst epk
  exact sign_then_verify m O hO p hp fuel hfuel xi kp hkg msg ctx oid phm rnd nist out hs

/-- `try_sign_with_rng` then `verify` (Algorithms 2 and 3), every RNG script -/
theorem api_sign_then_verify (m : Mode) (O : Oracles) (hO : OracleOk O) (p : ParamSet) (hp : p ∈ [ml_dsa_44, ml_dsa_65, ml_dsa_87])
    (fuel : Nat) (hfuel : fuel * p.l ≤ 65535) (xi : List Nat) (kp : PublicKey × PrivateKey)
    (hkg : keygenFromSeed m O p xi = .ok kp) (msg ctx : List Nat) (script : List RngResp) (s : SignOut) (log : List RngCall)
    (hs : sign m O p fuel kp.2 msg ctx script = .ok (.ok s, log)) :
    verify m O p kp.1 msg s.sig ctx = .ok true := by
  unfold sign at hs
  simp only [signCtxGuard, pure_eq, ok_bind] at hs
  by_cases hc : (ctx.length : Int) < 256
  · simp only [hc, decide_true, Bool.not_true, Bool.false_eq_true, if_false] at hs
    obtain ⟨r, _, hs⟩ := bind_ok_inv hs
    obtain ⟨o, rest, c⟩ := r
    cases o with
    | none => simp only [] at hs; have := ok_inj hs; simp at this
    | some rnd =>
      simp only [] at hs
      obtain ⟨s', hs', hs⟩ := bind_ok_inv hs
      have e := ok_inj hs
      simp only [Prod.mk.injEq, Except.ok.injEq] at e
      rw [← e.1]
      rw [C07.verify_accepts_short_ctx m O p kp.1 msg s'.sig ctx (by omega)]
      exact sign_then_verify m O hO p hp fuel hfuel xi kp hkg msg ctx [] [] rnd false s' hs'
  · simp only [hc, decide_false, Bool.not_false, if_true] at hs
    have := ok_inj hs; simp at this

/-- `try_hash_sign_with_rng` then `hash_verify` (Algorithms 4 and 5), every RNG script and pre-hash function -/
theorem api_hash_sign_then_verify (m : Mode) (O : Oracles) (hO : OracleOk O) (p : ParamSet) (hp : p ∈ [ml_dsa_44, ml_dsa_65, ml_dsa_87])
    (fuel : Nat) (hfuel : fuel * p.l ≤ 65535) (xi : List Nat) (kp : PublicKey × PrivateKey)
    (hkg : keygenFromSeed m O p xi = .ok kp) (msg ctx : List Nat) (ph : Ph) (script : List RngResp) (s : SignOut) (log : List RngCall)
    (hs : hashSign m O p fuel kp.2 msg ctx ph script = .ok (.ok s, log)) :
    hashVerify m O p kp.1 msg s.sig ctx ph = .ok true := by
  unfold hashSign at hs
  simp only [hashSignCtxGuard, pure_eq, ok_bind] at hs
  by_cases hc : (ctx.length : Int) < 256
  · simp only [hc, decide_true, Bool.not_true, Bool.false_eq_true, if_false] at hs
    obtain ⟨r, _, hs⟩ := bind_ok_inv hs
    obtain ⟨o, rest, c⟩ := r
    cases o with
    | none => simp only [] at hs; have := ok_inj hs; simp at this
    | some rnd =>
      simp only [] at hs
      obtain ⟨s', hs', hs⟩ := bind_ok_inv hs
      have e := ok_inj hs
      simp only [Prod.mk.injEq, Except.ok.injEq] at e
      rw [← e.1]
      rw [C07.hashVerify_accepts_short_ctx m O p kp.1 msg s'.sig ctx ph (by omega)]
      exact sign_then_verify m O hO p hp fuel hfuel xi kp hkg msg ctx _ _ rnd false s' hs'
  · simp only [hc, decide_false, Bool.not_false, if_true] at hs
    have := ok_inj hs; simp at this

end Fips204.Props.C01
