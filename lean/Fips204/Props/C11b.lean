import Fips204.Props.C11
import Fips204.Props.C09c
import Fips204.Lemmas.DeriveEq
/-!
# C11 (continued) — the derived public key *is* the generated one

`derived_public_key_is_the_generated_one`: for each parameter set and every seed, whenever key generation returns a
pair `(pk, sk)`: `private_to_public_key(sk) = pk` as structs (same `rho`, same `tr`, same verifier precompute,
coefficient by coefficient), and the same holds for the private key after a serialisation round trip (which is the same
struct, C09).  Equal structs serialise to the same bytes and make the same verification decision on every input, and
with C09 (deserialising the generated key's bytes gives the same struct again) public keys obtained by generation,
deserialisation and derivation are interchangeable.

Proof (`Lemmas/MatVec`, `DeriveEq`): the derivation recomputes `t = A s1 + s2` from the stored NTT-domain vectors;
`mont_reduce(to_mont(x)) ≡ x (mod q)`, so its `s1_hat` is congruent to the one key generation used; `mat_vec_mul` sends
congruent vectors to congruent vectors (it is a pure function inside its overflow envelope, and `montv` is
multiplication by `2^-32` mod q); the inverse transform returns canonical residues, so congruent inputs give *equal*
outputs; `s2` is recovered exactly (C09); the remaining steps are the same functions of the same values.
-/
namespace Fips204.Props.C11
open Fips204 Fips204.Gen Fips204.Impl

theorem derived_public_key_is_the_generated_one (m : Mode) (O : Oracles) (hO : OracleOk O) (p : ParamSet)
    (hp : p ∈ [ml_dsa_44, ml_dsa_65, ml_dsa_87]) (xi : List Nat) :
    NoPanic (keygenFromSeed m O p xi) (fun kp => privateToPublicKey m O p kp.2 = .ok kp.1 ∧
      ∃ skb, skIntoBytes m p kp.2 = .ok skb ∧ ∃ sk', expandPrivate m p skb = .ok (some sk') ∧ privateToPublicKey m O p sk' = .ok kp.1) := by
  obtain ⟨bl, he, hbl, hcfg⟩ := Fips204.Props.C10.sk_config m p hp
  obtain ⟨_, hl7, hpcfg⟩ := Fips204.Props.C13.keyCfg_of_mem p hp
  refine (Fips204.Props.C13.keygen_never_panics m O hO p hp xi []).1.mono (fun kp hg => ?_)
  have hd := derive_eq_generated m O p hl7 he kp hg
  obtain ⟨pkb, skb, _, _, _, h4, _, h6⟩ := gen_roundtrip_struct m O p he bl hbl hcfg hpcfg kp hg
  exact ⟨hd, skb, h4, kp.2, h6, hd⟩

end Fips204.Props.C11
