import Fips204.Props.C05
import Fips204.Props.C02b
import Fips204.Props.C13b
import Fips204.Lemmas.Binding
/-!
# C05 (continued) — what a second accepted tuple would be: an explicit hash collision

`C05_full` (every one-bit change is rejected) is false of every hash function that has collisions, so it is not a theorem.
What is proved here, for every oracle, every key byte string and every input, on the model of the crate's `verify_internal`
(through C02, `verify_internal` = Algorithm 8):

* `hint_section_change_needs_collision`: two different signature strings with the same `c~` and `z` that both decode (so they
  differ in the hint section: counts, indices or padding) and both verify under the same key and message exhibit two different
  inputs on which `H` (SHAKE256) agrees.  Ingredients: C08 (`sig_encode ∘ sig_decode = id`, so different strings decode to
  different hints), `UseHint(1, r) ≠ UseHint(0, r)`, injectivity of `w1Encode` (from `bit_unpack ∘ bit_pack = id`).
* `changed_interpretation_needs_collision`: the same signature accepted for two different (context, message, mode)
  interpretations, contexts of at most 255 bytes, is a pre-hash collision or a collision of `H`.
* `changed_public_key_needs_collision`: the same (message, context, signature) accepted under two different public-key strings
  is a collision of `H` (on the keys themselves, on `tr ‖ M'`, or on `mu ‖ w1`).

Changes inside `c~` or `z` are outside any such statement (acceptance there is the fixed-point equation `c~ = H(mu ‖ w1(c~, z))`,
not a collision); those positions are decided by exhaustive flipping on the crate in the check.
-/
namespace Fips204.Props.C05
open Fips204 Fips204.Gen Fips204.Impl

/-- a collision of the oracle `H` at some output length -/
def HCollision (O : Oracles) : Prop := ∃ n x x', x ≠ x' ∧ O.h x n = O.h x' n

/-- `verify_internal` on the struct built from a key byte string is Algorithm 8 on the decoded parts -/
theorem verify_bytes_is_spec (m : Mode) (O : Oracles) (hO : OracleOk O) (p : ParamSet) (hp : p ∈ [ml_dsa_44, ml_dsa_65, ml_dsa_87])
    (pkb : List Nat) (hpb : ∀ x ∈ pkb, x < 256) (hpl : pkb.length = p.pkLen) :
    ∃ pk rho t1, expandPublic m O p pkb = .ok (some pk) ∧ rho.length = 32 ∧ Sh p.k t1 ∧
      ∀ (msg sig ctx oid phm : List Nat) (nist : Bool), (∀ x ∈ sig, x < 256) → sig.length = p.sigLen →
        verifyInternal m O CTEST_default p pk msg sig ctx oid phm nist =
          verifySpec m O CTEST_default p rho (O.h pkb 64) t1 msg sig ctx oid phm nist := by
  obtain ⟨blz, cfg⟩ := C13.verCfg_of_mem p hp
  have hcfg := pk_config_ok p hp
  obtain ⟨d, hd, hrho, hk, ht⟩ := pkDecode_total m p pkb hpb (by rw [hpl, hcfg]) hcfg
  obtain ⟨r, hr, _⟩ := precomputeT1_ok m d.t1 (fun q hq => (ht q hq).2)
  refine ⟨⟨d.rho, O.h pkb 64, r⟩, d.rho, d.t1, by simp only [expandPublic, hd, ok_bind, hr, pure_eq],
    by rw [hrho, List.length_take, hpl, hcfg]; omega, ⟨hk, fun q hq => (ht q hq).1⟩, ?_⟩
  intro msg sig ctx oid phm nist hb hlen
  exact verifyInternal_eq_spec m O hO CTEST_default p blz cfg d.rho (O.h pkb 64) d.t1 r
    (by rw [hrho, List.length_take, hpl, hcfg]; omega) ⟨⟨hk, fun q hq => (ht q hq).1⟩, fun q hq => (ht q hq).2⟩ hr
    msg sig ctx oid phm nist hb hlen

theorem hint_section_change_needs_collision (m : Mode) (O : Oracles) (hO : OracleOk O) (p : ParamSet) (hp : p ∈ [ml_dsa_44, ml_dsa_65, ml_dsa_87])
    (pkb : List Nat) (hpb : ∀ x ∈ pkb, x < 256) (hpl : pkb.length = p.pkLen) (pk : PublicKey) (hpk : expandPublic m O p pkb = .ok (some pk))
    (msg sig sig' ctx oid phm : List Nat) (nist : Bool)
    (hb : ∀ x ∈ sig, x < 256) (hlen : sig.length = p.sigLen) (hb' : ∀ x ∈ sig', x < 256) (hlen' : sig'.length = p.sigLen) (hne : sig ≠ sig')
    (cT : List Nat) (z h h' : List Poly)
    (hd : sigDecode m p sig = .ok (some (cT, z, h))) (hd' : sigDecode m p sig' = .ok (some (cT, z, h')))
    (hv : verifyInternal m O CTEST_default p pk msg sig ctx oid phm nist = .ok true)
    (hv' : verifyInternal m O CTEST_default p pk msg sig' ctx oid phm nist = .ok true) : HCollision O := by
  obtain ⟨blz, cfg⟩ := C13.verCfg_of_mem p hp
  obtain ⟨pk0, rho, t1, hpk0, hrho, ht1, hspec⟩ := verify_bytes_is_spec m O hO p hp pkb hpb hpl
  rw [hpk] at hpk0
  have := ok_inj hpk0
  simp only [Option.some.injEq] at this
  subst this
  rw [hspec msg sig ctx oid phm nist hb hlen] at hv
  rw [hspec msg sig' ctx oid phm nist hb' hlen'] at hv'
  have hhne : h ≠ h' := by
    intro e
    subst e
    have e1 := sigEncode_sigDecode m p blz cfg.sig sig hb hlen cT z h hd
    have e2 := sigEncode_sigDecode m p blz cfg.sig sig' hb' hlen' cT z h hd'
    rw [e1] at e2
    exact hne (ok_inj e2)
  obtain ⟨x, x', hx, he⟩ := hint_change_needs_collision m O hO CTEST_default p blz cfg rho (O.h pkb 64) t1 hrho ht1 msg sig sig' ctx oid phm nist
    hb hlen hb' hlen' cT z h h' hd hd' hhne hv hv'
  exact ⟨_, x, x', hx, he⟩

/-- `verify` / `hash_verify` for an interpretation -/
def verifyAs (m : Mode) (O : Oracles) (p : ParamSet) (pk : PublicKey) (sig : List Nat) (i : C06.Interp) : M Bool :=
  match i.ph with
  | none => verify m O p pk i.msg sig i.ctx
  | some ph => hashVerify m O p pk i.msg sig i.ctx ph

theorem verifyAs_is_spec (m : Mode) (O : Oracles) (p : ParamSet) (pk : PublicKey) (sig : List Nat) (i : C06.Interp) (hc : i.ctx.length ≤ 255) :
    ∃ oid phm, verifyAs m O p pk sig i = verifyInternal m O CTEST_default p pk i.msg sig i.ctx oid phm false ∧
      ∀ tr, (match i.ph with
        | none => muOf O domPure_verify domHash_verify tr i.msg i.ctx [] [] false
        | some ph => muOf O domPure_verify domHash_verify tr i.msg i.ctx (hashMessage O i.msg ph).1 (hashMessage O i.msg ph).2 false) =
        muOf O domPure_verify domHash_verify tr i.msg i.ctx oid phm false := by
  unfold verifyAs
  cases hph : i.ph with
  | none => exact ⟨[], [], C07.verify_accepts_short_ctx m O p pk i.msg sig i.ctx hc, fun _ => rfl⟩
  | some ph => exact ⟨_, _, C07.hashVerify_accepts_short_ctx m O p pk i.msg sig i.ctx ph hc, fun _ => rfl⟩

theorem changed_interpretation_needs_collision (m : Mode) (O : Oracles) (hO : OracleOk O) (hW : Spec.WF O) (p : ParamSet)
    (hp : p ∈ [ml_dsa_44, ml_dsa_65, ml_dsa_87])
    (pkb : List Nat) (hpb : ∀ x ∈ pkb, x < 256) (hpl : pkb.length = p.pkLen) (pk : PublicKey) (hpk : expandPublic m O p pkb = .ok (some pk))
    (sig : List Nat) (hb : ∀ x ∈ sig, x < 256) (hlen : sig.length = p.sigLen)
    (i j : C06.Interp) (hne : i ≠ j) (hci : i.ctx.length ≤ 255) (hcj : j.ctx.length ≤ 255)
    (hv : verifyAs m O p pk sig i = .ok true) (hv' : verifyAs m O p pk sig j = .ok true) :
    C06.PrehashCollision O i j ∨ HCollision O := by
  obtain ⟨pk0, rho, t1, hpk0, hrho, ht1, hspec⟩ := verify_bytes_is_spec m O hO p hp pkb hpb hpl
  rw [hpk] at hpk0
  have := ok_inj hpk0
  simp only [Option.some.injEq] at this
  subst this
  obtain ⟨oid, phm, e1, m1⟩ := verifyAs_is_spec m O p pk sig i hci
  obtain ⟨oid', phm', e2, m2⟩ := verifyAs_is_spec m O p pk sig j hcj
  rw [e1, hspec _ sig _ _ _ _ hb hlen] at hv
  rw [e2, hspec _ sig _ _ _ _ hb hlen] at hv'
  have f1 := (m1 (O.h pkb 64)).symm.trans (C06.verifier_mu_is_fmt O hW (O.h pkb 64) i hci)
  have f2 := (m2 (O.h pkb 64)).symm.trans (C06.verifier_mu_is_fmt O hW (O.h pkb 64) j hcj)
  by_cases hf : i.fmt O = j.fmt O
  · exact Or.inl (C06.different_interpretations_format_differently O i j hne hf)
  · right
    by_cases hmu : muOf O domPure_verify domHash_verify (O.h pkb 64) i.msg i.ctx oid phm false =
        muOf O domPure_verify domHash_verify (O.h pkb 64) j.msg j.ctx oid' phm' false
    · rw [f1, f2] at hmu
      exact ⟨64, _, _, fun h => hf (List.append_cancel_left h), hmu⟩
    · obtain ⟨x, x', hx, he⟩ := mu_change_needs_collision m O hO CTEST_default p rho (O.h pkb 64) rho (O.h pkb 64) t1 t1
        i.msg j.msg sig i.ctx j.ctx oid oid' phm phm' false false hmu hv hv'
      exact ⟨_, x, x', hx, he⟩

theorem changed_public_key_needs_collision (m : Mode) (O : Oracles) (hO : OracleOk O) (hW : Spec.WF O) (p : ParamSet)
    (hp : p ∈ [ml_dsa_44, ml_dsa_65, ml_dsa_87])
    (pkb pkb' : List Nat) (hpb : ∀ x ∈ pkb, x < 256) (hpl : pkb.length = p.pkLen) (hpb' : ∀ x ∈ pkb', x < 256) (hpl' : pkb'.length = p.pkLen)
    (hne : pkb ≠ pkb') (pk pk' : PublicKey) (hpk : expandPublic m O p pkb = .ok (some pk)) (hpk' : expandPublic m O p pkb' = .ok (some pk'))
    (sig : List Nat) (hb : ∀ x ∈ sig, x < 256) (hlen : sig.length = p.sigLen) (i : C06.Interp) (hci : i.ctx.length ≤ 255)
    (hv : verifyAs m O p pk sig i = .ok true) (hv' : verifyAs m O p pk' sig i = .ok true) : HCollision O := by
  obtain ⟨pk0, rho, t1, hpk0, hrho, ht1, hspec⟩ := verify_bytes_is_spec m O hO p hp pkb hpb hpl
  rw [hpk] at hpk0
  have := ok_inj hpk0
  simp only [Option.some.injEq] at this
  subst this
  obtain ⟨pk1, rho', t1', hpk1, hrho', ht1', hspec'⟩ := verify_bytes_is_spec m O hO p hp pkb' hpb' hpl'
  rw [hpk'] at hpk1
  have := ok_inj hpk1
  simp only [Option.some.injEq] at this
  subst this
  obtain ⟨oid, phm, e1, m1⟩ := verifyAs_is_spec m O p pk sig i hci
  obtain ⟨oid', phm', e2, m2⟩ := verifyAs_is_spec m O p pk' sig i hci
  rw [e1, hspec _ sig _ _ _ _ hb hlen] at hv
  rw [e2, hspec' _ sig _ _ _ _ hb hlen] at hv'
  have f1 := (m1 (O.h pkb 64)).symm.trans (C06.verifier_mu_is_fmt O hW (O.h pkb 64) i hci)
  have f2 := (m2 (O.h pkb' 64)).symm.trans (C06.verifier_mu_is_fmt O hW (O.h pkb' 64) i hci)
  by_cases htr : O.h pkb 64 = O.h pkb' 64
  · exact ⟨64, pkb, pkb', hne, htr⟩
  · by_cases hmu : muOf O domPure_verify domHash_verify (O.h pkb 64) i.msg i.ctx oid phm false =
        muOf O domPure_verify domHash_verify (O.h pkb' 64) i.msg i.ctx oid' phm' false
    · rw [f1, f2] at hmu
      refine ⟨64, _, _, fun h => htr ?_, hmu⟩
      exact (List.append_inj h (by rw [hO.hlen, hO.hlen])).1
    · obtain ⟨x, x', hx, he⟩ := mu_change_needs_collision m O hO CTEST_default p rho (O.h pkb 64) rho' (O.h pkb' 64) t1 t1'
        i.msg i.msg sig i.ctx i.ctx oid oid' phm phm' false false hmu hv hv'
      exact ⟨_, x, x', hx, he⟩

end Fips204.Props.C05
