import Fips204.Lemmas.SpecApi
import Fips204.Lemmas.OracleReal
/-!
# C02 (continued) — the two verifying entry points are FIPS 204 Algorithms 3 and 5 **as the standard writes them**

`Spec.verify` / `Spec.hashVerify` (`Spec/MlDsa.lean`) transcribe Algorithms 3 and 5: the context-length rejection, the formatted message
`IntegerToBytes(0 or 1, 1) ‖ IntegerToBytes(|ctx|, 1) ‖ ctx ‖ (M or OID ‖ PH(M))`, the OID / digest table, then Algorithm 8.

* `verify_is_ML_DSA_Verify_as_written`, `hash_verify_is_HashML_DSA_Verify_as_written` — for each parameter set, every byte string of
  public-key length, every message, **every context of any length**, every byte string of signature length (and each of the three pre-hash
  functions), in both build modes: the entry point, on the struct deserialisation returns, gives exactly the Boolean of the standard's algorithm
  on the bytes.  For Algorithm 5 the digests must have their nominal lengths (`Spec.WF`: SHA-256 32 bytes, SHA-512 64 bytes).
-/
namespace Fips204.Props.C02
open Fips204 Fips204.Gen Fips204.Impl

theorem verify_is_ML_DSA_Verify_as_written (m : Mode) (O : Oracles) (hO : OracleOk O) (p : ParamSet)
    (hp : p ∈ [ml_dsa_44, ml_dsa_65, ml_dsa_87]) (pkb msg sig ctx : List Nat)
    (hpb : ∀ x ∈ pkb, x < 256) (hpl : pkb.length = p.pkLen) (hb : ∀ x ∈ sig, x < 256) (hlen : sig.length = p.sigLen) :
    ∃ pk, expandPublic m O p pkb = .ok (some pk) ∧
      AgreesWith (verify m O p pk msg sig ctx)
        (Spec.verify (specParams p) O.h O.g (1680 * O.fuelScale) (8 + 1360 * O.fuelScale) pkb msg sig ctx) :=
  verify_is_algorithm_3_as_written m O hO p hp pkb msg sig ctx hpb hpl hb hlen

theorem hash_verify_is_HashML_DSA_Verify_as_written (m : Mode) (O : Oracles) (hO : OracleOk O) (hW : Spec.WF O) (p : ParamSet)
    (hp : p ∈ [ml_dsa_44, ml_dsa_65, ml_dsa_87]) (pkb msg sig ctx : List Nat) (ph : Ph)
    (hpb : ∀ x ∈ pkb, x < 256) (hpl : pkb.length = p.pkLen) (hb : ∀ x ∈ sig, x < 256) (hlen : sig.length = p.sigLen) :
    ∃ pk, expandPublic m O p pkb = .ok (some pk) ∧
      AgreesWith (hashVerify m O p pk msg sig ctx ph)
        (Spec.hashVerify (specParams p) O.h O.g O.sha256 O.sha512 (1680 * O.fuelScale) (8 + 1360 * O.fuelScale) pkb msg sig ctx (specPh ph)) :=
  hashVerify_is_algorithm_5_as_written m O hO hW p hp pkb msg sig ctx ph hpb hpl hb hlen

/-- `hash_verify` is Algorithm 5 with no hypothesis on the hash functions: for SHAKE, SHA-256 and SHA-512 as the driver executes them
    (`OracleOk` and `Spec.WF` are proved of them in `Lemmas/OracleReal`) -/
theorem hash_verify_is_HashML_DSA_Verify_for_the_executed_hashes (m : Mode) (scale : Nat) (p : ParamSet)
    (hp : p ∈ [ml_dsa_44, ml_dsa_65, ml_dsa_87]) (pkb msg sig ctx : List Nat) (ph : Ph)
    (hpb : ∀ x ∈ pkb, x < 256) (hpl : pkb.length = p.pkLen) (hb : ∀ x ∈ sig, x < 256) (hlen : sig.length = p.sigLen) :
    ∃ pk, expandPublic m (Exec.realOracles scale) p pkb = .ok (some pk) ∧
      AgreesWith (hashVerify m (Exec.realOracles scale) p pk msg sig ctx ph)
        (Spec.hashVerify (specParams p) Exec.shake256 Exec.shake128 Exec.sha256 Exec.sha512 (1680 * scale) (8 + 1360 * scale) pkb msg sig ctx (specPh ph)) :=
  hash_verify_is_HashML_DSA_Verify_as_written m (Exec.realOracles scale) (driverOracles_ok scale) (driverOracles_wf scale) p hp pkb msg sig ctx ph hpb hpl hb hlen

/-- an over-long context is rejected by the standard's algorithm whatever the other inputs are (a test of the transcription, labelled as a test) -/
example (P : Spec.Params) (H G : List Nat → Nat → List Nat) (pk M sigma ctx : List Nat) (h : ctx.length > 255) :
    Spec.verify P H G 0 0 pk M sigma ctx = some false := by unfold Spec.verify; rw [if_pos h]

end Fips204.Props.C02
