import Fips204.Lemmas.Kernels2
import Fips204.Lemmas.Pr64Top
/-!
# C15 — Coefficient arithmetic is exact on its whole domain

Property theorems only (helper lemmas live in `Fips204/Lemmas`).  Every statement is about the
*generated* definitions of `Fips204.Gen.Kernels` (regenerated from `/repo/src` on every run), is
quantified over **all** inputs in the stated range, and holds for **both** build modes `m`
(checked: no `debug_assert!`/overflow fault; release: the same value).
-/
namespace Fips204.Props.C15
open Fips204 Fips204.Gen Fips204.K

/-- `partial_reduce32`: congruent to its input and strictly inside (-q, q) on the documented domain -/
theorem partial_reduce32_spec (m : Mode) (a : Int) (h1 : -2143289344 < a) (h2 : a < 2143289344) :
    ∃ r, partial_reduce32 m a = .ok r ∧ (r - a) % Q = 0 ∧ -Q < r ∧ r < Q :=
  ⟨pr32 a, partial_reduce32_eq m a h1 h2, (pr32_spec a h1 h2).1, (pr32_spec a h1 h2).2.1, (pr32_spec a h1 h2).2.2⟩

/-- `full_reduce32` is `a mod q` -/
theorem full_reduce32_spec (m : Mode) (a : Int) (h1 : -2143289344 < a) (h2 : a < 2143289344) :
    full_reduce32 m a = .ok (a % Q) := full_reduce32_eq m a h1 h2

/-- `center_mod` is FIPS 204 `mod±` -/
theorem center_mod_spec (m : Mode) (a : Int) (h1 : -2143289344 < a) (h2 : a < 2143289344) :
    center_mod m a = .ok (modpm Q a) := center_mod_eq m a h1 h2

/-- `mont_reduce` (Algorithm 49): `r·2^32 ≡ a (mod q)`, `-q < r < q`, on the asserted input range -/
theorem mont_reduce_spec (m : Mode) (a : Int) (h1 : -17996808479301632 ≤ a) (h2 : a ≤ 17996808470921215) :
    ∃ r, mont_reduce m a = .ok r ∧ (r * 4294967296 - a) % Q = 0 ∧ -Q < r ∧ r < Q :=
  ⟨montv a, mont_reduce_eq m a h1 h2, (montv_spec a h1 h2).1, (montv_spec a h1 h2).2.1, (montv_spec a h1 h2).2.2⟩

/-- the 64-bit Barrett-style reduction on its caller's shape `x << 32`, for **every** |x| below the documented bound
    67 058 539: congruent and inside (-2q, 2q).  The middle of the domain is linear arithmetic; on the two top slices
    (58 538 values each) the product `a * M` comes within 119 units of i64 overflow and the one fact needed there is
    evaluated by the kernel for every value (`Lemmas/Pr64Top.lean`, `decide +kernel`, no additional axiom). -/
theorem partial_reduce64_spec (m : Mode) (x : Int) (h1 : -67058539 < x) (h2 : x < 67058539) :
    ∃ r, to_mont_coeff m x = .ok r ∧ (r - x * 4294967296) % Q = 0 ∧ -(2 * Q) < r ∧ r < 2 * Q := by
  obtain ⟨he, hc, hl, hu⟩ := to_mont_coeff_full m x h1 h2
  exact ⟨pr64s x, he, hc, by simp only [Q]; omega, by simp only [Q]; omega⟩

/-- Power2Round (Algorithm 35) on Z_q, and the crate's reconstruction self-check holds -/
theorem power2round_spec (m : Mode) (r : Int) (h0 : 0 ≤ r) (h1 : r < Q) :
    (do let r1 ← power2round_r1 m r; let r0 ← power2round_r0 m r r1; pure (r1, r0)) = .ok (Spec.power2round r)
    ∧ power2round_check m r (Spec.power2round r).1 (Spec.power2round r).2 = .ok true :=
  ⟨power2round_eq m r h0 h1, power2round_check_eq m r h0 h1⟩

/-- Decompose (Algorithm 36), including the `r+ - r0 = q - 1` corner, for both gamma2 and every i32 in range -/
theorem decompose_spec (m : Mode) (g r : Int) (hg : g = 95232 ∨ g = 261888)
    (h1 : -2143289344 < r) (h2 : r < 2143289344) :
    decompose m g r = .ok (Spec.decompose g r) := decompose_eq m g r hg h1 h2

theorem high_bits_spec (m : Mode) (g r : Int) (hg : g = 95232 ∨ g = 261888)
    (h1 : -2143289344 < r) (h2 : r < 2143289344) :
    high_bits m g r = .ok (Spec.highBits g r) := high_bits_eq m g r hg h1 h2

theorem low_bits_spec (m : Mode) (g r : Int) (hg : g = 95232 ∨ g = 261888)
    (h1 : -2143289344 < r) (h2 : r < 2143289344) :
    low_bits m g r = .ok (Spec.lowBits g r) := low_bits_eq m g r hg h1 h2

/-- MakeHint (Algorithm 39) on the caller's shape (`r`, `r + z` inside the reduction domain) -/
theorem make_hint_spec (m : Mode) (g z r : Int) (hg : g = 95232 ∨ g = 261888)
    (h1 : -2143289344 < r) (h2 : r < 2143289344) (h3 : -2143289344 < r + z) (h4 : r + z < 2143289344) :
    make_hint m g z r = .ok (Spec.makeHint g z r) := make_hint_eq m g z r hg h1 h2 h3 h4

/-- UseHint (Algorithm 40), with the wrap at m = 44 resp. 16 -/
theorem use_hint_spec (m : Mode) (g h r : Int) (hg : g = 95232 ∨ g = 261888) (hh : h = 0 ∨ h = 1)
    (h1 : -2143289344 < r) (h2 : r < 2143289344) :
    use_hint m g h r = .ok (Spec.useHint g h r) := use_hint_eq m g h r hg hh h1 h2

/-- CoeffFromThreeBytes (Algorithm 14) for all 2^24 inputs -/
theorem coeff_from_three_bytes_spec (m : Mode) (b0 b1 b2 : Int) (h0 : 0 ≤ b0 ∧ b0 ≤ 255)
    (h1 : 0 ≤ b1 ∧ b1 ≤ 255) (h2 : 0 ≤ b2 ∧ b2 ≤ 255) :
    coeff_from_three_bytes m false b0 b1 b2 = .ok (Spec.coeffFromThreeBytes b0 b1 b2) :=
  coeff3_eq m b0 b1 b2 h0 h1 h2

/-- in constant-time test mode the sampler never rejects (no data-dependent loop exit) -/
theorem coeff_from_three_bytes_ctest (m : Mode) (b0 b1 b2 : Int) (h0 : 0 ≤ b0 ∧ b0 ≤ 255)
    (h1 : 0 ≤ b1 ∧ b1 ≤ 255) (h2 : 0 ≤ b2 ∧ b2 ≤ 255) :
    ∃ z, coeff_from_three_bytes m true b0 b1 b2 = .ok (some z) :=
  ⟨_, coeff3_ctest_some m b0 b1 b2 h0 h1 h2⟩

/-- CoeffFromHalfByte (Algorithm 15) for all 16 inputs and both eta, including the multiply-shift mod 5 -/
theorem coeff_from_half_byte_spec (m : Mode) (eta b : Int) (he : eta = 2 ∨ eta = 4) (hb : 0 ≤ b ∧ b ≤ 15) :
    coeff_from_half_byte m false eta b = .ok (Spec.coeffFromHalfByte eta b) := coeffhalf_eq m eta b he hb

/-! Non-vacuity: concrete points meeting the hypotheses, evaluated (these are tests, labelled as tests). -/
example : (center_mod .checked 4190209).toOption = some (-4190208) := by decide +kernel
example : (mont_reduce .checked 17996808470921215).toOption = some 114592 := by decide +kernel
example : (decompose .checked 95232 8285185).toOption = some (0, -95232) := by decide +kernel
example : (decompose .checked 261888 8118529).toOption = some (0, -261888) := by decide +kernel
example : (use_hint .checked 95232 1 8285185).toOption = some 43 := by decide +kernel
/-- the documented domain is tight: one past the asserted bound the checked build faults, the release build answers -/
example : (mont_reduce .checked 17996808470921216).toOption = none := by decide +kernel
example : (mont_reduce .release 17996808470921216).toOption = some 8380417 := by decide +kernel

end Fips204.Props.C15
