import Fips204.Props.C06
import Fips204.Spec.MlDsa
/-!
# C06 (continued) — the formatted messages of Algorithms 2-5 **as the standard writes them** never coincide across interpretations

`Spec.sign` / `Spec.verify` hand `IntegerToBytes(0,1) ‖ IntegerToBytes(|ctx|,1) ‖ ctx ‖ M` to the internal algorithms, `Spec.hashSign` /
`Spec.hashVerify` hand `IntegerToBytes(1,1) ‖ IntegerToBytes(|ctx|,1) ‖ ctx ‖ OID ‖ PH_M` (`Spec/MlDsa.lean`).  For contexts of at most 255 bytes
(the only ones for which the algorithms get that far):

* `pure_format_injective_as_written` — the pure format determines `(ctx, M)`;
* `pure_and_hash_formats_differ_as_written` — a pure format never equals a pre-hash format;
* `hash_format_injective_as_written` — the pre-hash format determines `(ctx, OID, PH_M)` for OIDs of equal length (the three OIDs have 11 bytes).

These are `fmtPure_injective`, `fmtPure_ne_fmtHash`, `fmtHash_injective` (C06) read on the literal transcription: with `|ctx| ≤ 255` the length
byte `|ctx| mod 256` is `|ctx|`.
-/
namespace Fips204.Props.C06
open Fips204 Fips204.Gen Fips204.Impl

theorem pure_format_injective_as_written (ctx ctx' M M' : List Nat) (hc : ctx.length ≤ 255) (hc' : ctx'.length ≤ 255)
    (h : [0] ++ [ctx.length % 256] ++ ctx ++ M = [0] ++ [ctx'.length % 256] ++ ctx' ++ M') : ctx = ctx' ∧ M = M' := by
  rw [Nat.mod_eq_of_lt (by omega), Nat.mod_eq_of_lt (by omega)] at h
  exact fmtPure_injective ctx ctx' M M' h

theorem pure_and_hash_formats_differ_as_written (ctx ctx' M oid phm : List Nat) :
    [0] ++ [ctx.length % 256] ++ ctx ++ M ≠ [1] ++ [ctx'.length % 256] ++ ctx' ++ oid ++ phm := by
  simp

theorem hash_format_injective_as_written (ctx ctx' oid oid' phm phm' : List Nat) (hc : ctx.length ≤ 255) (hc' : ctx'.length ≤ 255)
    (ho : oid.length = oid'.length)
    (h : [1] ++ [ctx.length % 256] ++ ctx ++ oid ++ phm = [1] ++ [ctx'.length % 256] ++ ctx' ++ oid' ++ phm') :
    ctx = ctx' ∧ oid = oid' ∧ phm = phm' := by
  rw [Nat.mod_eq_of_lt (by omega), Nat.mod_eq_of_lt (by omega)] at h
  exact fmtHash_injective ctx ctx' oid oid' phm phm' ho h

/-- the three OIDs of `Spec.oidAndDigest` have the same length and are pairwise different -/
theorem spec_oids_distinct_same_length (s256 s512 : List Nat → List Nat) (G : List Nat → Nat → List Nat) (M : List Nat) :
    (∀ ph, (Spec.oidAndDigest s256 s512 G M ph).1.length = 11) ∧
    (∀ ph ph', (Spec.oidAndDigest s256 s512 G M ph).1 = (Spec.oidAndDigest s256 s512 G M ph').1 → ph = ph') := by
  constructor
  · intro ph; cases ph <;> rfl
  · intro ph ph' h
    cases ph <;> cases ph' <;> first | rfl | (exfalso; revert h; simp [Spec.oidAndDigest])

end Fips204.Props.C06
