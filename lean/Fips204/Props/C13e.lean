import Fips204.Props.C09c
/-!
# C13 (continued) — serialisation never panics

`into_bytes` of a public key obtained from any byte string, of a private key obtained from any accepted byte string,
and of both keys of any generated pair returns bytes in both build modes: its range self-checks (`pk_encode`:
`t1 ∈ [0, 2^10)`; `sk_encode`: `s1, s2 ∈ [-eta, eta]`, `t0 ∈ (-2^12, 2^12]`) cannot fire, because the NTT-domain vectors
held in the structs are transforms of in-range vectors and the inverse transform recovers them exactly (C09).
With `C13b` (verification, deserialisation), `C13c` (signing) and `C13d` (key generation, derivation) this covers every
public entry point listed in the property.
-/
namespace Fips204.Props.C13
open Fips204 Fips204.Gen Fips204.Impl

theorem serialisation_never_panics (m : Mode) (O : Oracles) (hO : OracleOk O) (p : ParamSet) (hp : p ∈ [ml_dsa_44, ml_dsa_65, ml_dsa_87]) :
    (∀ pkb : List Nat, (∀ x ∈ pkb, x < 256) → pkb.length = p.pkLen →
      ∃ pk, expandPublic m O p pkb = .ok (some pk) ∧ ∃ out, pkIntoBytes m p pk = .ok out) ∧
    (∀ (skb : List Nat) (sk : PrivateKey), (∀ x ∈ skb, x < 256) → skb.length = p.skLen → expandPrivate m p skb = .ok (some sk) →
      ∃ out, skIntoBytes m p sk = .ok out) ∧
    (∀ xi : List Nat, NoPanic (keygenFromSeed m O p xi) (fun kp => (∃ out, pkIntoBytes m p kp.1 = .ok out) ∧ ∃ out, skIntoBytes m p kp.2 = .ok out)) := by
  refine ⟨fun pkb hb hl => ?_, fun skb sk hb hl h => ⟨skb, C09.private_key_bytes_round_trip m p hp skb hb hl sk h⟩, fun xi => ?_⟩
  · obtain ⟨pk, h1, h2⟩ := C09.public_key_bytes_round_trip m O p hp pkb hb hl
    exact ⟨pk, h1, pkb, h2⟩
  · exact (C09.generated_keys_round_trip_to_the_same_structs m O hO p hp xi).mono
      (fun kp ⟨pkb, skb, h1, _, _, h4, _, _⟩ => ⟨⟨pkb, h1⟩, ⟨skb, h4⟩⟩)

end Fips204.Props.C13
