import Fips204.Props.C05b
import Fips204.Props.C02d
import Fips204.Props.C09
import Fips204.Props.C08c
/-!
# C05 (continued) — binding, stated on FIPS 204 Algorithms 3 and 5 **as the standard writes them**

The collision theorems of `C05b` are about the model of the crate's `verify` / `hash_verify`.  With `verify_is_ML_DSA_Verify_as_written` and
`hash_verify_is_HashML_DSA_Verify_as_written` (C02d) they become statements about `Spec.verify` / `Spec.hashVerify`, the literal
transcription of the standard, with no reference to the crate:

* `changed_interpretation_needs_collision_as_written` — if the standard's verifier accepts the same signature bytes under the same public-key
  bytes for two different interpretations (context, message, pure / which pre-hash function), contexts of at most 255 bytes, then the two
  exhibit a pre-hash collision or two different inputs on which SHAKE256 agrees;
* `changed_public_key_needs_collision_as_written` — the same (message, context, mode, signature) accepted under two different public-key byte
  strings exhibits a SHAKE256 collision.

Both are for every oracle with outputs of the requested length (no property of SHAKE is assumed: the collision is exhibited).
-/
namespace Fips204.Props.C05
open Fips204 Fips204.Gen Fips204.Impl

/-- Algorithm 3 or Algorithm 5 of the standard, by interpretation -/
def specVerifyAs (O : Oracles) (p : ParamSet) (pkb sig : List Nat) (i : C06.Interp) : Option Bool :=
  match i.ph with
  | none => Spec.verify (specParams p) O.h O.g (1680 * O.fuelScale) (8 + 1360 * O.fuelScale) pkb i.msg sig i.ctx
  | some ph => Spec.hashVerify (specParams p) O.h O.g O.sha256 O.sha512 (1680 * O.fuelScale) (8 + 1360 * O.fuelScale) pkb i.msg sig i.ctx (specPh ph)

/-- what the standard accepts, the crate's entry points accept (on the struct deserialised from the same bytes) -/
theorem spec_accepts_gives_model_accepts (O : Oracles) (hO : OracleOk O) (hW : Spec.WF O) (p : ParamSet)
    (hp : p ∈ [ml_dsa_44, ml_dsa_65, ml_dsa_87]) (pkb sig : List Nat) (i : C06.Interp)
    (hpb : ∀ x ∈ pkb, x < 256) (hpl : pkb.length = p.pkLen) (hb : ∀ x ∈ sig, x < 256) (hlen : sig.length = p.sigLen)
    (pk : PublicKey) (hpk : expandPublic .release O p pkb = .ok (some pk))
    (h : specVerifyAs O p pkb sig i = some true) : verifyAs .release O p pk sig i = .ok true := by
  unfold specVerifyAs at h
  unfold verifyAs
  cases hph : i.ph with
  | none =>
    rw [hph] at h
    obtain ⟨pk', hpk', ha⟩ := C02.verify_is_ML_DSA_Verify_as_written .release O hO p hp pkb i.msg sig i.ctx hpb hpl hb hlen
    rw [hpk] at hpk'
    have := ok_inj hpk'
    simp only [Option.some.injEq] at this
    subst this
    simp only [] at h ⊢
    rw [h] at ha
    exact ha
  | some ph =>
    rw [hph] at h
    obtain ⟨pk', hpk', ha⟩ := C02.hash_verify_is_HashML_DSA_Verify_as_written .release O hO hW p hp pkb i.msg sig i.ctx ph hpb hpl hb hlen
    rw [hpk] at hpk'
    have := ok_inj hpk'
    simp only [Option.some.injEq] at this
    subst this
    simp only [] at h ⊢
    rw [h] at ha
    exact ha

theorem changed_interpretation_needs_collision_as_written (O : Oracles) (hO : OracleOk O) (hW : Spec.WF O) (p : ParamSet)
    (hp : p ∈ [ml_dsa_44, ml_dsa_65, ml_dsa_87])
    (pkb : List Nat) (hpb : ∀ x ∈ pkb, x < 256) (hpl : pkb.length = p.pkLen)
    (sig : List Nat) (hb : ∀ x ∈ sig, x < 256) (hlen : sig.length = p.sigLen)
    (i j : C06.Interp) (hne : i ≠ j) (hci : i.ctx.length ≤ 255) (hcj : j.ctx.length ≤ 255)
    (hv : specVerifyAs O p pkb sig i = some true) (hv' : specVerifyAs O p pkb sig j = some true) :
    C06.PrehashCollision O i j ∨ HCollision O := by
  obtain ⟨pk, hpk, _⟩ := C09.every_pk_string_deserialises .release O p hp pkb hpb hpl
  exact changed_interpretation_needs_collision .release O hO hW p hp pkb hpb hpl pk hpk sig hb hlen i j hne hci hcj
    (spec_accepts_gives_model_accepts O hO hW p hp pkb sig i hpb hpl hb hlen pk hpk hv)
    (spec_accepts_gives_model_accepts O hO hW p hp pkb sig j hpb hpl hb hlen pk hpk hv')

theorem changed_public_key_needs_collision_as_written (O : Oracles) (hO : OracleOk O) (hW : Spec.WF O) (p : ParamSet)
    (hp : p ∈ [ml_dsa_44, ml_dsa_65, ml_dsa_87])
    (pkb pkb' : List Nat) (hpb : ∀ x ∈ pkb, x < 256) (hpl : pkb.length = p.pkLen) (hpb' : ∀ x ∈ pkb', x < 256) (hpl' : pkb'.length = p.pkLen)
    (hne : pkb ≠ pkb') (sig : List Nat) (hb : ∀ x ∈ sig, x < 256) (hlen : sig.length = p.sigLen) (i : C06.Interp) (hci : i.ctx.length ≤ 255)
    (hv : specVerifyAs O p pkb sig i = some true) (hv' : specVerifyAs O p pkb' sig i = some true) : HCollision O := by
  obtain ⟨pk, hpk, _⟩ := C09.every_pk_string_deserialises .release O p hp pkb hpb hpl
  obtain ⟨pk', hpk', _⟩ := C09.every_pk_string_deserialises .release O p hp pkb' hpb' hpl'
  exact changed_public_key_needs_collision .release O hO hW p hp pkb pkb' hpb hpl hpb' hpl' hne pk pk' hpk hpk' sig hb hlen i hci
    (spec_accepts_gives_model_accepts O hO hW p hp pkb sig i hpb hpl hb hlen pk hpk hv)
    (spec_accepts_gives_model_accepts O hO hW p hp pkb' sig i hpb' hpl' hb hlen pk' hpk' hv')

end Fips204.Props.C05

namespace Fips204.Props.C05
open Fips204 Fips204.Gen Fips204.Impl

theorem take_drop_of_take_eq (s s' : List Nat) (n a b : Nat) (h : s.take n = s'.take n) (hab : a + b ≤ n) :
    (s.drop a).take b = (s'.drop a).take b := by
  have e1 : (s.drop a).take b = ((s.take n).drop a).take b := by
    rw [List.drop_take, List.take_take, Nat.min_eq_left (by omega)]
  have e2 : (s'.drop a).take b = ((s'.take n).drop a).take b := by
    rw [List.drop_take, List.take_take, Nat.min_eq_left (by omega)]
  rw [e1, e2, h]

/-- **a change confined to the hint section needs a collision, on Algorithm 8 as written**: two different signature strings that agree on the
    `c~` and `z` sections and are both accepted by `Spec.verifyInternal` under the same key and formatted message exhibit two different inputs on
    which SHAKE256 agrees -/
theorem hint_section_change_needs_collision_as_written (O : Oracles) (hO : OracleOk O) (p : ParamSet)
    (hp : p ∈ [ml_dsa_44, ml_dsa_65, ml_dsa_87]) (blz : Nat) (cfg : SigCfg p blz)
    (pkb Mp sig sig' : List Nat) (hpb : ∀ x ∈ pkb, x < 256) (hpl : pkb.length = p.pkLen)
    (hb : ∀ x ∈ sig, x < 256) (hlen : sig.length = p.sigLen) (hb' : ∀ x ∈ sig', x < 256) (hlen' : sig'.length = p.sigLen) (hne : sig ≠ sig')
    (hpre : sig.take (p.lambdaDiv4 + p.l * (32 * blz)) = sig'.take (p.lambdaDiv4 + p.l * (32 * blz)))
    (hv : Spec.verifyInternal (specParams p) O.h O.g (1680 * O.fuelScale) (8 + 1360 * O.fuelScale) pkb Mp sig = some true)
    (hv' : Spec.verifyInternal (specParams p) O.h O.g (1680 * O.fuelScale) (8 + 1360 * O.fuelScale) pkb Mp sig' = some true) :
    HCollision O := by
  have hblz : 1 + Spec.bitlen (p.gamma1 - 1) = blz := by
    rcases cfg.g1 with ⟨h, hb⟩ | ⟨h, hb⟩ <;> rw [h, hb] <;> decide
  obtain ⟨pk, hpk, ha⟩ := C02.verification_is_fips_204_algorithm_8_as_written .release O hO p hp pkb Mp sig [] [] [] true hpb hpl hb hlen
  obtain ⟨pk', hpk', ha'⟩ := C02.verification_is_fips_204_algorithm_8_as_written .release O hO p hp pkb Mp sig' [] [] [] true hpb hpl hb' hlen'
  rw [hpk] at hpk'
  have := ok_inj hpk'
  simp only [Option.some.injEq] at this
  subst this
  have hf : Spec.formatted true Mp [] [] [] = Mp := rfl
  rw [hf, hv] at ha
  rw [hf, hv'] at ha'
  -- both strings decode (a rejected hint section makes Algorithm 8 return false)
  have hdec : ∀ s, Spec.verifyInternal (specParams p) O.h O.g (1680 * O.fuelScale) (8 + 1360 * O.fuelScale) pkb Mp s = some true →
      ∃ h, (Spec.sigDecode p.lambdaDiv4 p.l p.k p.omega.toNat blz p.gamma1 s).2.2 = some h := by
    intro s hs
    unfold Spec.verifyInternal at hs
    simp only [specParams, hblz] at hs
    have e4 : p.lambda / 4 = p.lambdaDiv4 := by
      simp only [List.mem_cons, List.mem_nil_iff, or_false] at hp
      rcases hp with rfl | rfl | rfl <;> rfl
    rw [e4] at hs
    cases hh : (Spec.sigDecode p.lambdaDiv4 p.l p.k p.omega.toNat blz p.gamma1 s).2.2 with
    | none => simp only [hh] at hs; cases hs
    | some h => exact ⟨h, rfl⟩
  obtain ⟨h, hh⟩ := hdec sig hv
  obtain ⟨h', hh'⟩ := hdec sig' hv'
  have h27 := C08.sig_decode_is_algorithm_27 .release p blz cfg sig hb hlen
  have h27' := C08.sig_decode_is_algorithm_27 .release p blz cfg sig' hb' hlen'
  simp only [] at h27 h27'
  rw [hh] at h27
  rw [hh'] at h27'
  -- the c~ and z components agree
  have ec : (Spec.sigDecode p.lambdaDiv4 p.l p.k p.omega.toNat blz p.gamma1 sig).1 = (Spec.sigDecode p.lambdaDiv4 p.l p.k p.omega.toNat blz p.gamma1 sig').1 := by
    have := take_drop_of_take_eq sig sig' _ 0 p.lambdaDiv4 hpre (by omega)
    simpa [Spec.sigDecode] using this
  have ez : (Spec.sigDecode p.lambdaDiv4 p.l p.k p.omega.toNat blz p.gamma1 sig).2.1 = (Spec.sigDecode p.lambdaDiv4 p.l p.k p.omega.toNat blz p.gamma1 sig').2.1 := by
    simp only [Spec.sigDecode]
    apply List.map_congr_left
    intro i hi
    have hi' : i < p.l := List.mem_range.mp hi
    rw [take_drop_of_take_eq sig sig' _ (p.lambdaDiv4 + i * (32 * blz)) (32 * blz) hpre (by
      have : (i + 1) * (32 * blz) ≤ p.l * (32 * blz) := Nat.mul_le_mul_right _ (by omega)
      rw [Nat.add_mul, Nat.one_mul] at this
      omega)]
  rw [ec, ez] at h27
  exact hint_section_change_needs_collision .release O hO p hp pkb hpb hpl pk hpk Mp sig sig' [] [] [] true hb hlen hb' hlen' hne _ _ h h' h27 h27' ha ha'

end Fips204.Props.C05
