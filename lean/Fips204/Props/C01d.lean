import Fips204.Props.C01c
import Fips204.Props.C02c
import Fips204.Props.C03d
import Fips204.Props.C04c
import Fips204.Props.C09c
import Fips204.Lemmas.OracleReal
/-!
# C01 (continued) — correctness of ML-DSA **as the standard writes it**

`sign_then_verify` (C01c) is a statement about the model of the crate.  With the three literal-specification theorems
(`keygen_is_algorithm_6_as_written`, `sign_internal_is_Sign_internal_as_written`, `verification_is_fips_204_algorithm_8_as_written`) it
transfers to `Spec/*`, a transcription of FIPS 204 that mentions nothing of the crate:

* `fips_204_signatures_verify_as_written` — for each of the three parameter sets of Table 1, every hash oracle pair with byte outputs of the
  requested length (and SHAKE's prefix property), every seed `xi`, every formatted message `M'`, every `rnd` and every attempt budget inside the
  16-bit counter: if `Spec.keyGenInternal xi` returns `(pk, sk)` and `Spec.signInternal` on `Spec.skDecode sk` returns `sigma`, then
  `Spec.verifyInternal pk M' sigma` returns `true`.

So the crate's round trip is not an accident of the implementation: it is the standard's own correctness, carried through the crate.  (`none`
= the finite XOF prefix the transcription reads ran out; with `fuelScale` large this needs more than `1680 * fuelScale` rejected bytes.)
-/
namespace Fips204.Props.C01
open Fips204 Fips204.Gen Fips204.Impl

theorem spec_pack_bytes (c : Nat) (f : Int → Nat) (w : List Int) :
    ∀ x ∈ Spec.bitsToBytes (32 * c) ((w.map (fun wi => Spec.integerToBits (f wi) c)).flatten), x < 256 := by
  apply bitsToBytes_lt
  intro d hd
  obtain ⟨blk, hblk, hd'⟩ := List.mem_flatten.mp hd
  obtain ⟨wi, _, rfl⟩ := List.mem_map.mp hblk
  exact integerToBits_bits _ _ d hd'

theorem spec_section_bytes (g : List Int → List Nat) (hg : ∀ w, ∀ x ∈ g w, x < 256) (v : List (List Int)) :
    ∀ x ∈ (v.map g).flatten, x < 256 := by
  intro x hx
  obtain ⟨blk, hblk, hx'⟩ := List.mem_flatten.mp hx
  obtain ⟨w, _, rfl⟩ := List.mem_map.mp hblk
  exact hg w x hx'

/-- the key byte strings of Algorithm 6 consist of bytes -/
theorem spec_keygen_bytes (P : Spec.Params) (O : Oracles) (hO : OracleOk O) (nG nH : Nat) (xi pk sk : List Nat)
    (h : Spec.keyGenInternal P O.h O.g nG nH xi = some (pk, sk)) : (∀ x ∈ pk, x < 256) ∧ (∀ x ∈ sk, x < 256) := by
  unfold Spec.keyGenInternal at h
  simp only [] at h
  split at h
  · cases h
  · split at h
    · cases h
    · simp only [Option.some.injEq, Prod.mk.injEq] at h
      obtain ⟨h1, h2⟩ := h
      have hH : ∀ y n, ∀ x ∈ O.h y n, x < 256 := hO.hbyte
      have hrho : ∀ x ∈ (O.h (xi ++ [P.k % 256, P.l % 256]) 128).take 32, x < 256 := fun x hx => hH _ _ x (List.mem_of_mem_take hx)
      have hkey : ∀ x ∈ ((O.h (xi ++ [P.k % 256, P.l % 256]) 128).drop 96).take 32, x < 256 :=
        fun x hx => hH _ _ x (List.mem_of_mem_drop (List.mem_of_mem_take hx))
      constructor
      · subst h1
        intro x hx
        unfold Spec.pkEncode at hx
        rcases List.mem_append.mp hx with hx | hx
        · exact hrho x hx
        · exact spec_section_bytes _ (fun w => by unfold Spec.simpleBitPack; exact spec_pack_bytes 10 _ w) _ x hx
      · subst h2
        intro x hx
        unfold Spec.skEncode at hx
        simp only [List.mem_append] at hx
        rcases hx with ((((hx | hx) | hx) | hx) | hx) | hx
        · exact hrho x hx
        · exact hkey x hx
        · exact hH _ _ x hx
        · exact spec_section_bytes _ (fun w => by unfold Spec.bitPack; exact spec_pack_bytes _ _ w) _ x hx
        · exact spec_section_bytes _ (fun w => by unfold Spec.bitPack; exact spec_pack_bytes _ _ w) _ x hx
        · exact spec_section_bytes _ (fun w => by unfold Spec.bitPack; exact spec_pack_bytes _ _ w) _ x hx

/-- a signature `sign_internal` returns under a generated key has signature length and consists of bytes -/
theorem signature_wf (m : Mode) (O : Oracles) (hO : OracleOk O) (p : ParamSet) (hp : p ∈ [ml_dsa_44, ml_dsa_65, ml_dsa_87])
    (fuel : Nat) (hfuel : fuel * p.l ≤ 65535) (xi : List Nat) (kp : PublicKey × PrivateKey)
    (hkg : keygenFromSeed m O p xi = .ok kp) (msg ctx oid phm rnd : List Nat) (nist : Bool) (out : SignOut)
    (hs : signInternal m O CTEST_default p fuel kp.2 msg ctx oid phm rnd nist = .ok out) :
    out.sig.length = p.sigLen ∧ ∀ b ∈ out.sig, b < 256 := by
  obtain ⟨blz, cfg, hk8, _⟩ := C13.signCfg_of_mem p hp
  obtain ⟨_, he, _, _⟩ := C10.sk_config m p hp
  have hgen : GenOk m O p kp := by
    rcases keyGenInternal_np m O hO p he cfg.l7 (pk_config_ok p hp) xi with ⟨v, hv, hp'⟩ | ⟨s, hs'⟩
    · have hkg' : keyGenInternal m O false p xi = .ok kp := hkg
      rw [hkg'] at hv; have := ok_inj hv; subst this; exact hp'
    · have hkg' : keyGenInternal m O false p xi = .ok kp := hkg
      rw [hkg'] at hs'; cases hs'
  obtain ⟨s1, s2, aHat, hexp, hA, v1, v2, v0, vt, n1, n2, n0, pc⟩ := genOk_vectors m O p he cfg.l7 kp hgen
  have hs' : signInternal m O false p fuel kp.2 msg ctx oid phm rnd nist = .ok out := hs
  have hsig := signInternal_eq_spec m O hO p blz cfg hk8 he fuel hfuel kp.2 s1 s2 _ ⟨hgen.sk.rho, v1, v2, v0, n1, n2, n0⟩ hgen.sk
    msg ctx oid phm rnd nist
  rw [hs'] at hsig
  have hrho : kp.2.rho = kp.1.rho := hgen.lens.2.2.1
  rw [hrho] at hsig
  have hA' : ∀ row ∈ aHat, ∀ a ∈ row, a.length = 256 := fun row hrow a ha => ((hA.2 row hrow).2 a ha).1
  exact signSpec_sig_wf m O hO p blz cfg.sig cfg.beta.1 cfg.tau fuel kp.1.rho kp.2.key kp.2.tr s1 s2 _ aHat hexp hA' hA.1
    ⟨v1.1.1, v1.1.2⟩ ⟨v2.1.1, v2.1.2⟩ ⟨v0.1.1, v0.1.2⟩ msg ctx oid phm rnd nist out hsig.symm

theorem fips_204_signatures_verify_as_written (O : Oracles) (hO : OracleOk O) (hP : OraclePrefix O)
    (p : ParamSet) (hp : p ∈ [ml_dsa_44, ml_dsa_65, ml_dsa_87]) (attempts : Nat) (hatt : attempts * p.l ≤ 65535)
    (xi Mp rnd pk sk sigma : List Nat)
    (hkg : Spec.keyGenInternal (specParams p) O.h O.g (1680 * O.fuelScale) (1088 * O.fuelScale) xi = some (pk, sk))
    (hsg : (let d := Spec.skDecode (Spec.bitlen (2 * p.eta)) p.eta p.k p.l sk
            Spec.signInternal (specParams p) O.h O.g (1680 * O.fuelScale) (8 + 1360 * O.fuelScale) attempts
              d.1 d.2.1 d.2.2.1 d.2.2.2.1 d.2.2.2.2.1 d.2.2.2.2.2 Mp rnd) = some sigma) :
    Spec.verifyInternal (specParams p) O.h O.g (1680 * O.fuelScale) (8 + 1360 * O.fuelScale) pk Mp sigma = some true := by
  obtain ⟨hpkb, hskb⟩ := spec_keygen_bytes _ O hO _ _ xi pk sk hkg
  -- key generation: the model returns structs whose serialisations are (pk, sk)
  have h6 := keygen_is_algorithm_6_as_written .release O hO p hp xi
  rw [hkg] at h6
  have h6' : (keygenFromSeed .release O p xi >>= fun kp => pkIntoBytes .release p kp.1 >>= fun pkb =>
      skIntoBytes .release p kp.2 >>= fun skb => pure (pkb, skb)) = .ok (pk, sk) := h6
  obtain ⟨kp, hkp, h6'⟩ := bind_ok_inv h6'
  obtain ⟨pkb, hpkI, h6'⟩ := bind_ok_inv h6'
  obtain ⟨skb, hskI, h6'⟩ := bind_ok_inv h6'
  rw [pure_eq] at h6'
  have e := ok_inj h6'
  simp only [Prod.mk.injEq] at e
  obtain ⟨e1, e2⟩ := e
  subst e1 e2
  have hrt := C09.generated_keys_round_trip_to_the_same_structs .release O hO p hp xi
  rcases hrt with ⟨v, hv, pkb', skb', r1, r2, r3, r4, r5, r6⟩ | ⟨s, hs⟩
  · rw [hkp] at hv
    have := ok_inj hv; subst this
    rw [hpkI] at r1; have := ok_inj r1; subst this
    rw [hskI] at r4; have := ok_inj r4; subst this
    -- signing
    have h7 := C03.sign_internal_is_Sign_internal_as_written .release O hO hP p hp attempts hatt skb hskb r5 kp.2 r6 Mp [] [] [] rnd true
    simp only [] at h7 hsg
    have hf : Spec.formatted true Mp [] [] [] = Mp := rfl
    rw [hf, hsg] at h7
    obtain ⟨it, h7⟩ := h7
    -- the model's round trip
    have hv8 := sign_then_verify .release O hO p hp attempts hatt xi kp hkp Mp [] [] [] rnd true _ h7
    -- the signature is a byte string of signature length
    have hwf : sigma.length = p.sigLen ∧ ∀ b ∈ sigma, b < 256 :=
      signature_wf .release O hO p hp attempts hatt xi kp hkp Mp [] [] [] rnd true _ h7
    -- verification
    obtain ⟨pk', hpk', h8⟩ := C02.verification_is_fips_204_algorithm_8_as_written .release O hO p hp pkb Mp sigma [] [] [] true hpkb r2 hwf.2 hwf.1
    rw [r3] at hpk'
    have := ok_inj hpk'
    simp only [Option.some.injEq] at this
    subst this
    rw [hf, hv8] at h8
    cases hS : Spec.verifyInternal (specParams p) O.h O.g (1680 * O.fuelScale) (8 + 1360 * O.fuelScale) pkb Mp sigma with
    | none => rw [hS] at h8; obtain ⟨s, hs⟩ := h8; cases hs
    | some b => rw [hS] at h8; have := ok_inj h8; rw [← this]
  · rw [hkp] at hs; cases hs

/-- **Algorithms 1-3 as written**: what `ML-DSA.Sign` returns under a key pair of `ML-DSA.KeyGen_internal`, `ML-DSA.Verify` accepts - for every
    context (a context longer than 255 bytes makes `Sign` return `⊥`, so there is nothing to verify) -/
theorem ml_dsa_sign_then_verify_as_written (O : Oracles) (hO : OracleOk O) (hP : OraclePrefix O)
    (p : ParamSet) (hp : p ∈ [ml_dsa_44, ml_dsa_65, ml_dsa_87]) (attempts : Nat) (hatt : attempts * p.l ≤ 65535)
    (xi M ctx rnd pk sk sigma : List Nat)
    (hkg : Spec.keyGenInternal (specParams p) O.h O.g (1680 * O.fuelScale) (1088 * O.fuelScale) xi = some (pk, sk))
    (hsg : Spec.sign (specParams p) O.h O.g (1680 * O.fuelScale) (8 + 1360 * O.fuelScale) attempts sk M ctx (some rnd) = some (some sigma)) :
    Spec.verify (specParams p) O.h O.g (1680 * O.fuelScale) (8 + 1360 * O.fuelScale) pk M sigma ctx = some true := by
  unfold Spec.sign at hsg
  unfold Spec.verify
  by_cases hc : ctx.length > 255
  · rw [if_pos hc] at hsg; simp at hsg
  · rw [if_neg hc] at hsg
    rw [if_neg hc]
    simp only [Option.map_eq_some_iff, Option.some.injEq] at hsg
    obtain ⟨s', hs', rfl⟩ := hsg
    exact fips_204_signatures_verify_as_written O hO hP p hp attempts hatt xi _ rnd pk sk s' hkg hs'

/-- **Algorithms 4-5 as written**: the same for `HashML-DSA.Sign` / `HashML-DSA.Verify` with each of the three pre-hash functions -/
theorem hash_ml_dsa_sign_then_verify_as_written (O : Oracles) (hO : OracleOk O) (hP : OraclePrefix O)
    (p : ParamSet) (hp : p ∈ [ml_dsa_44, ml_dsa_65, ml_dsa_87]) (attempts : Nat) (hatt : attempts * p.l ≤ 65535)
    (xi M ctx rnd pk sk sigma : List Nat) (ph : Spec.PreHash)
    (hkg : Spec.keyGenInternal (specParams p) O.h O.g (1680 * O.fuelScale) (1088 * O.fuelScale) xi = some (pk, sk))
    (hsg : Spec.hashSign (specParams p) O.h O.g O.sha256 O.sha512 (1680 * O.fuelScale) (8 + 1360 * O.fuelScale) attempts sk M ctx ph (some rnd) = some (some sigma)) :
    Spec.hashVerify (specParams p) O.h O.g O.sha256 O.sha512 (1680 * O.fuelScale) (8 + 1360 * O.fuelScale) pk M sigma ctx ph = some true := by
  unfold Spec.hashSign at hsg
  unfold Spec.hashVerify
  by_cases hc : ctx.length > 255
  · rw [if_pos hc] at hsg; simp at hsg
  · rw [if_neg hc] at hsg
    rw [if_neg hc]
    simp only [Option.map_eq_some_iff, Option.some.injEq] at hsg
    obtain ⟨s', hs', rfl⟩ := hsg
    exact fips_204_signatures_verify_as_written O hO hP p hp attempts hatt xi _ rnd pk sk s' hkg hs'

/-- the same with **no hypothesis on the hash functions**: for the SHAKE the model driver executes (`Exec.realOracles`; `OracleOk` and
    `OraclePrefix` are proved of it in `Lemmas/OracleReal`).  In particular the oracle hypotheses of all the theorems are satisfiable. -/
theorem fips_204_signatures_verify_for_the_executed_shake (scale : Nat)
    (p : ParamSet) (hp : p ∈ [ml_dsa_44, ml_dsa_65, ml_dsa_87]) (attempts : Nat) (hatt : attempts * p.l ≤ 65535)
    (xi Mp rnd pk sk sigma : List Nat)
    (hkg : Spec.keyGenInternal (specParams p) Exec.shake256 Exec.shake128 (1680 * scale) (1088 * scale) xi = some (pk, sk))
    (hsg : (let d := Spec.skDecode (Spec.bitlen (2 * p.eta)) p.eta p.k p.l sk
            Spec.signInternal (specParams p) Exec.shake256 Exec.shake128 (1680 * scale) (8 + 1360 * scale) attempts
              d.1 d.2.1 d.2.2.1 d.2.2.2.1 d.2.2.2.2.1 d.2.2.2.2.2 Mp rnd) = some sigma) :
    Spec.verifyInternal (specParams p) Exec.shake256 Exec.shake128 (1680 * scale) (8 + 1360 * scale) pk Mp sigma = some true :=
  fips_204_signatures_verify_as_written (Exec.realOracles scale) (driverOracles_ok scale) (driverOracles_prefix scale) p hp attempts hatt
    xi Mp rnd pk sk sigma hkg hsg

/-- Algorithms 4-5 round trip with no hypothesis on the hash functions: SHAKE, SHA-256 and SHA-512 as the driver executes them -/
theorem hash_ml_dsa_sign_then_verify_for_the_executed_hashes (scale : Nat)
    (p : ParamSet) (hp : p ∈ [ml_dsa_44, ml_dsa_65, ml_dsa_87]) (attempts : Nat) (hatt : attempts * p.l ≤ 65535)
    (xi M ctx rnd pk sk sigma : List Nat) (ph : Spec.PreHash)
    (hkg : Spec.keyGenInternal (specParams p) Exec.shake256 Exec.shake128 (1680 * scale) (1088 * scale) xi = some (pk, sk))
    (hsg : Spec.hashSign (specParams p) Exec.shake256 Exec.shake128 Exec.sha256 Exec.sha512 (1680 * scale) (8 + 1360 * scale) attempts sk M ctx ph (some rnd) = some (some sigma)) :
    Spec.hashVerify (specParams p) Exec.shake256 Exec.shake128 Exec.sha256 Exec.sha512 (1680 * scale) (8 + 1360 * scale) pk M sigma ctx ph = some true :=
  hash_ml_dsa_sign_then_verify_as_written (Exec.realOracles scale) (driverOracles_ok scale) (driverOracles_prefix scale) p hp attempts hatt
    xi M ctx rnd pk sk sigma ph hkg hsg

end Fips204.Props.C01
