import Fips204.Props.C11b
import Fips204.Props.C04c
import Fips204.Props.C09c
/-!
# C11 (continued) — the public key derived from the standard's private-key bytes is the standard's public key

With `keygen_is_algorithm_6_as_written` (C04c) the struct-level theorem `derived_public_key_is_the_generated_one` (C11b) becomes a statement from
bytes to bytes about `Spec.keyGenInternal`, the literal transcription of Algorithm 6:

* `derived_public_key_bytes_are_the_standards` — for each parameter set, every oracle and every seed, in both build modes: if Algorithm 6 returns
  `(pk, sk)`, then deserialising `sk` succeeds, `private_to_public_key` of the resulting struct succeeds, and serialising the derived public key
  gives exactly `pk`.
-/
namespace Fips204.Props.C11
open Fips204 Fips204.Gen Fips204.Impl

theorem derived_public_key_bytes_are_the_standards (m : Mode) (O : Oracles) (hO : OracleOk O) (p : ParamSet)
    (hp : p ∈ [ml_dsa_44, ml_dsa_65, ml_dsa_87]) (xi pk sk : List Nat)
    (hkg : Spec.keyGenInternal (specParams p) O.h O.g (1680 * O.fuelScale) (1088 * O.fuelScale) xi = some (pk, sk)) :
    ∃ sk' pk', expandPrivate m p sk = .ok (some sk') ∧ privateToPublicKey m O p sk' = .ok pk' ∧ pkIntoBytes m p pk' = .ok pk := by
  have h6 := keygen_is_algorithm_6_as_written m O hO p hp xi
  rw [hkg] at h6
  have h6' : (keygenFromSeed m O p xi >>= fun kp => pkIntoBytes m p kp.1 >>= fun pkb =>
      skIntoBytes m p kp.2 >>= fun skb => pure (pkb, skb)) = .ok (pk, sk) := h6
  obtain ⟨kp, hkp, h6'⟩ := bind_ok_inv h6'
  obtain ⟨pkb, hpkI, h6'⟩ := bind_ok_inv h6'
  obtain ⟨skb, hskI, h6'⟩ := bind_ok_inv h6'
  rw [pure_eq] at h6'
  have e := ok_inj h6'
  simp only [Prod.mk.injEq] at e
  obtain ⟨e1, e2⟩ := e
  subst e1 e2
  rcases derived_public_key_is_the_generated_one m O hO p hp xi with ⟨v, hv, _, skb', hs1, sk', hs2, hs3⟩ | ⟨s, hs⟩
  · rw [hkp] at hv
    have := ok_inj hv; subst this
    rw [hskI] at hs1
    have := ok_inj hs1; subst this
    exact ⟨sk', kp.1, hs2, hs3, hpkI⟩
  · rw [hkp] at hs; cases hs

end Fips204.Props.C11
