import Fips204.Lemmas.SpecCodec
import Fips204.Lemmas.SpecEncode
import Fips204.Lemmas.KeyDecode
import Fips204.Lemmas.SigDecode
/-!
# C08 (continued) — the coefficient codecs are the algorithms of the standard, as the standard writes them

`Spec/Codec.lean` transcribes FIPS 204 Algorithms 9-13 and 16-19 on explicit bit strings (`IntegerToBits`, `BitsToInteger`,
`BitsToBytes`, `BytesToBits`, `SimpleBitPack`, `BitPack`, `SimpleBitUnpack`, `BitUnpack`) and mentions nothing of the crate.
The crate never materialises a bit string: `bit_pack` / `bit_unpack` stream through a 32-bit accumulator.  The theorems below say
the two coincide, for every polynomial in range / every byte string of the right length, every `(a, b)` with `a + b < 2^bitlen`
(all eight pairs the crate uses), in both build modes:

* `bit_pack_is_BitPack`, `simple_bit_pack_is_SimpleBitPack` — the bytes returned are those of Algorithms 17 / 16;
* `bit_unpack_is_BitUnpack_then_range_test`, `simple_bit_unpack_is_SimpleBitUnpack_then_range_test` — the coefficients are those of
  Algorithms 19 / 18, followed by the range test `[-a, b]` that the standard leaves to the caller (`skDecode`, `sigDecode`) and the
  crate performs inside `bit_unpack`.

Proof: both sides are determined by one number, the little-endian value of the bit string (`Lemmas/SpecCodec`: regrouping of
digit blocks, `numF_flatten`; values of the standard's four bit-level functions), and fixed-length representations are unique.
With these, the byte-level functions that `verification_is_algorithm_8`, `signing_is_algorithm_7` and
`key_generation_is_algorithm_6` share with their specifications are no longer only "the model's transcription" for the packing layer.
-/
namespace Fips204.Props.C08
open Fips204 Fips204.Gen Fips204.Impl

theorem bit_pack_is_BitPack (m : Mode) (w : Poly) (a b : Int) (bl : Nat) (ha : 0 < a ∧ a < 1048576) (hb : 1 ≤ b ∧ b < 1048576)
    (hbl : bitLen m (a + b) = .ok bl) (hbl2 : 1 ≤ bl ∧ bl ≤ 20) (hab : a + b < 2 ^ bl) (hw : ∀ c ∈ w, -a ≤ c ∧ c ≤ b)
    (hlen : w.length = 256) :
    bitPack m w a b (32 * bl) = .ok (Spec.bitPack bl b w) :=
  bitPack_is_algorithm_17 m w a b bl ha hb hbl hbl2 hab hw hlen

theorem simple_bit_pack_is_SimpleBitPack (m : Mode) (w : Poly) (b : Int) (bl : Nat) (hb : 1 ≤ b ∧ b < 1048576)
    (hbl : bitLen m (0 + b) = .ok bl) (hbl2 : 1 ≤ bl ∧ bl ≤ 20) (hab : 0 + b < 2 ^ bl) (hw : ∀ c ∈ w, -0 ≤ c ∧ c ≤ b)
    (hlen : w.length = 256) :
    bitPack m w 0 b (32 * bl) = .ok (Spec.simpleBitPack bl w) :=
  bitPack_is_algorithm_16 m w b bl hb hbl hbl2 hab hw hlen

theorem bit_unpack_is_BitUnpack_then_range_test (m : Mode) (v : List Nat) (a b : Int) (bl : Nat) (ha : 0 < a ∧ a < 1048576)
    (hb : 1 ≤ b ∧ b < 1048576) (hbl : bitLen m (a + b) = .ok bl) (hbl2 : 1 ≤ bl ∧ bl ≤ 20) (hv : ∀ x ∈ v, x < 256)
    (hlen : v.length = 32 * bl) :
    bitUnpack m v a b = (do
      let ok ← isInRange m (Spec.bitUnpack bl b v) a b
      if ok then pure (some (Spec.bitUnpack bl b v)) else pure none) :=
  bitUnpack_is_algorithm_19 m v a b bl ha hb hbl hbl2 hv hlen

theorem simple_bit_unpack_is_SimpleBitUnpack_then_range_test (m : Mode) (v : List Nat) (b : Int) (bl : Nat)
    (hb : 1 ≤ b ∧ b < 1048576) (hbl : bitLen m (0 + b) = .ok bl) (hbl2 : 1 ≤ bl ∧ bl ≤ 20) (hv : ∀ x ∈ v, x < 256)
    (hlen : v.length = 32 * bl) :
    bitUnpack m v 0 b = (do
      let ok ← isInRange m (Spec.simpleBitUnpack bl v) 0 b
      if ok then pure (some (Spec.simpleBitUnpack bl v)) else pure none) :=
  bitUnpack_is_algorithm_18 m v b bl hb hbl hbl2 hv hlen

/-- the hypotheses are met by the crate's parameter pairs: `t1` (`SimpleBitPack`, 10 bits) and `t0` (`BitPack`, 13 bits) -/
example (m : Mode) : bitLen m (0 + 1023) = .ok 10 ∧ (0 : Int) + 1023 < 2 ^ 10 := ⟨bitLen_1023 m, by decide⟩
example (m : Mode) : bitLen m (top - 1 + top) = .ok 13 := bitLen_t0 m

/-- the standard's functions on a concrete value: `BitPack` of the all-`b` polynomial is all zero bits, of the all-`-a` one all ones -/
example : Spec.bitPack 3 2 (List.replicate 256 2) = List.replicate 96 0 := by decide +kernel
example : Spec.bitPack 3 2 (List.replicate 256 (-2)) = (List.range 96).map (fun i => [36, 73, 146][i % 3]!) := by decide +kernel
example : Spec.bitUnpack 3 2 (List.replicate 96 0) = List.replicate 256 2 := by decide +kernel


/-! ### the hint codec and the signature codec are Algorithms 20, 21, 26, 27 as written -/

theorem hint_bit_pack_is_HintBitPack (m : Mode) (omega : Int) (h : List Poly) (k : Nat) (ho : 0 ≤ omega) (hk : h.length = k)
    (hok : 1 ≤ omega.toNat + k ∧ omega.toNat + k < 256) (hb : ∀ q ∈ h, Bin q) (hsum : onesAll h ≤ omega.toNat) :
    hintBitPack m false omega h (omega.toNat + k) = .ok (Spec.hintBitPack omega.toNat h) :=
  hintBitPack_is_algorithm_20 m omega h k ho hk hok hb hsum

theorem hint_bit_unpack_is_algorithm_21 (m : Mode) (k : Nat) (omega : Int) (y : List Nat) (hy : ∀ b ∈ y, b < 256)
    (ho : 0 ≤ omega) (hk : 1 ≤ omega.toNat + k ∧ omega.toNat + k < 256) (hlen : y.length = omega.toNat + k) :
    hintBitUnpack m k omega y = .ok (Spec.hintBitUnpack omega.toNat k y) :=
  hintBitUnpack_is_algorithm_21 m k omega y hy ho hk hlen

theorem sig_encode_is_sigEncode (m : Mode) (p : ParamSet) (blz : Nat) (cfg : SigCfg p blz) (ct : List Nat) (z h : List Poly)
    (hct : ct.length = p.lambdaDiv4) (hz : Sh p.l z) (hzr : ∀ q ∈ z, ∀ c ∈ q, -(p.gamma1 - 1) ≤ c ∧ c ≤ p.gamma1)
    (hh : Sh p.k h) (hb : ∀ q ∈ h, Bin q) (hsum : onesAll h ≤ p.omega.toNat) :
    sigEncode m false p ct z h = .ok (Spec.sigEncode blz p.gamma1 p.omega.toNat ct z h) :=
  sigEncode_is_algorithm_26 m p blz cfg ct z h hct hz hzr hh hb hsum

theorem sig_decode_is_algorithm_27 (m : Mode) (p : ParamSet) (blz : Nat) (cfg : SigCfg p blz) (sigma : List Nat) (hb : ∀ x ∈ sigma, x < 256)
    (hlen : sigma.length = p.sigLen) :
    sigDecode m p sigma = .ok (
      let d := Spec.sigDecode p.lambdaDiv4 p.l p.k p.omega.toNat blz p.gamma1 sigma
      match d.2.2 with
      | none => none
      | some h => some (d.1, d.2.1, h)) :=
  sigDecode_is_algorithm_27 m p blz cfg sigma hb hlen

/-- the standard's `HintBitPack` on a concrete hint (a test, labelled as a test): k = 2, omega = 3, ones at h[0]_5 and h[1]_{0, 255} -/
example : Spec.hintBitPack 3 [(List.replicate 256 0).set 5 1, ((List.replicate 256 0).set 0 1).set 255 1] = [5, 0, 255, 1, 3] := by decide +kernel
example : Spec.hintBitUnpack 3 2 [5, 0, 255, 1, 3] = some [(List.replicate 256 0).set 5 1, ((List.replicate 256 0).set 0 1).set 255 1] := by decide +kernel

end Fips204.Props.C08
