import Fips204.Impl.Api
import Fips204.Lemmas.Arith
/-!
# C07 — the 255-byte context limit is enforced without aliasing

The guards are `Gen.*CtxGuard`, translated from the `ensure!`/`if` expressions of `src/lib.rs` on
every run, so `< 256` → `<= 256` or `> 255` → `> 256` changes the term under these theorems.
-/
namespace Fips204.Props.C07
open Fips204 Fips204.Gen Fips204.Impl

/-- signing with a context longer than 255 bytes: `Err`, no RNG request, no signature (all lengths) -/
theorem sign_rejects_long_ctx (m : Mode) (O : Oracles) (p : ParamSet) (fuel : Nat) (sk : PrivateKey)
    (msg ctx : List Nat) (script : List RngResp) (h : ctx.length > 255) :
    sign m O p fuel sk msg ctx script = .ok (.error .ctx, []) := by
  have : ¬ ((ctx.length : Int) < 256) := by omega
  simp [sign, signCtxGuard, pure_eq, ok_bind, this]

theorem hashSign_rejects_long_ctx (m : Mode) (O : Oracles) (p : ParamSet) (fuel : Nat) (sk : PrivateKey)
    (msg ctx : List Nat) (ph : Ph) (script : List RngResp) (h : ctx.length > 255) :
    hashSign m O p fuel sk msg ctx ph script = .ok (.error .ctx, []) := by
  have : ¬ ((ctx.length : Int) < 256) := by omega
  simp [hashSign, hashSignCtxGuard, pure_eq, ok_bind, this]

theorem internalSign_rejects_long_ctx (m : Mode) (O : Oracles) (p : ParamSet) (fuel : Nat) (sk : PrivateKey)
    (msg ctx rnd : List Nat) (h : ctx.length > 255) :
    internalSign m O p fuel sk msg ctx rnd = .ok (.error .ctx) := by
  have : ¬ ((ctx.length : Int) < 256) := by omega
  simp [internalSign, internalSignCtxGuard, pure_eq, ok_bind, this]

/-- verification with a context longer than 255 bytes returns false (all lengths, any key, any signature) -/
theorem verify_rejects_long_ctx (m : Mode) (O : Oracles) (p : ParamSet) (pk : PublicKey)
    (msg sig ctx : List Nat) (h : ctx.length > 255) :
    verify m O p pk msg sig ctx = .ok false := by
  have : ((ctx.length : Int) > 255) := by omega
  simp [verify, verifyCtxGuard, pure_eq, ok_bind, this]

theorem hashVerify_rejects_long_ctx (m : Mode) (O : Oracles) (p : ParamSet) (pk : PublicKey)
    (msg sig ctx : List Nat) (ph : Ph) (h : ctx.length > 255) :
    hashVerify m O p pk msg sig ctx ph = .ok false := by
  have : ((ctx.length : Int) > 255) := by omega
  simp [hashVerify, hashVerifyCtxGuard, pure_eq, ok_bind, this]

theorem internalVerify_rejects_long_ctx (m : Mode) (O : Oracles) (p : ParamSet) (pk : PublicKey)
    (msg sig ctx : List Nat) (h : ctx.length > 255) :
    internalVerify m O p pk msg sig ctx = .ok false := by
  have : ((ctx.length : Int) > 255) := by omega
  simp [internalVerify, internalVerifyCtxGuard, pure_eq, ok_bind, this]

/-- every context of 0..255 bytes passes the guards: signing proceeds to the randomness request and to
    `signInternal`, verification to `verifyInternal` (so nothing at or below 255 is ever rejected as too long) -/
theorem sign_accepts_short_ctx (m : Mode) (O : Oracles) (p : ParamSet) (fuel : Nat) (sk : PrivateKey)
    (msg ctx : List Nat) (script : List RngResp) (h : ctx.length ≤ 255) (log : List RngCall) :
    sign m O p fuel sk msg ctx script ≠ .ok (.error .ctx, log) := by
  have : ((ctx.length : Int) < 256) := by omega
  unfold sign
  simp only [signCtxGuard, pure_eq, ok_bind, this, decide_true, Bool.not_true, Bool.false_eq_true, if_false]
  cases hd : draw rngMethod_sign rngErrPropagated_sign script rngBytes_sign with
  | error e => simp [error_bind]
  | ok r =>
    obtain ⟨o, rest, c⟩ := r
    cases o with
    | none => simp [ok_bind]
    | some rnd =>
      simp only [ok_bind]
      cases hs : signInternal m O CTEST_default p fuel sk msg ctx [] [] rnd false with
      | error e => simp [error_bind]
      | ok s => simp [ok_bind]

theorem verify_accepts_short_ctx (m : Mode) (O : Oracles) (p : ParamSet) (pk : PublicKey)
    (msg sig ctx : List Nat) (h : ctx.length ≤ 255) :
    verify m O p pk msg sig ctx = verifyInternal m O CTEST_default p pk msg sig ctx [] [] false := by
  have : ¬ ((ctx.length : Int) > 255) := by omega
  simp [verify, verifyCtxGuard, pure_eq, ok_bind, this]

theorem hashVerify_accepts_short_ctx (m : Mode) (O : Oracles) (p : ParamSet) (pk : PublicKey)
    (msg sig ctx : List Nat) (ph : Ph) (h : ctx.length ≤ 255) :
    hashVerify m O p pk msg sig ctx ph =
      verifyInternal m O CTEST_default p pk msg sig ctx (hashMessage O msg ph).1 (hashMessage O msg ph).2 false := by
  have : ¬ ((ctx.length : Int) > 255) := by omega
  simp [hashVerify, hashVerifyCtxGuard, pure_eq, ok_bind, this]

/-- the one-byte length field is injective exactly on the accepted range ... -/
theorem ctxLenByte_injective (a b : Nat) (ha : a ≤ 255) (hb : b ≤ 255) (h : ctxLenByte a = ctxLenByte b) : a = b := by
  unfold ctxLenByte at h; omega

/-- ... and wraps beyond it (256 aliases 0, 257 aliases 1): this is why the guards are load-bearing -/
theorem ctxLenByte_wraps : ctxLenByte 256 = ctxLenByte 0 ∧ ctxLenByte 257 = ctxLenByte 1 ∧ ctxLenByte 512 = ctxLenByte 0 := by
  decide

/-! non-vacuity: the hypotheses are met by concrete contexts on both sides of the limit -/
example : (List.replicate 256 (0 : Nat)).length > 255 := by rw [List.length_replicate]; omega
example : (List.replicate 255 (0 : Nat)).length ≤ 255 := by rw [List.length_replicate]; omega

end Fips204.Props.C07
