import Fips204.Props.C04
import Fips204.Props.C10b
import Fips204.Props.C13d
import Fips204.Lemmas.KeygenSpec
/-!
# C04 (continued) — key generation *is* Algorithm 6, for every seed

`keygenSpec` (`Lemmas/KeygenSpec`) is ML-DSA.KeyGen_internal written with exact arithmetic modulo q:
`(rho, rho', K) <- H(xi || k || l, 128)`; `(s1, s2) <- ExpandS(rho')`; `A_hat <- ExpandA(rho)`;
`t <- NTT^-1(A_hat ∘ NTT(s1)) + s2 mod q` (`tRowS`: exact butterflies on integers, canonical representatives);
`(t1, t0) <- Power2Round(t)` (`Spec.power2round`, C15); `pk <- pkEncode(rho, t1)`; `tr <- H(pk, 64)`;
`sk <- skEncode(rho, K, tr, s1, s2, t0)`.  Samplers and encoders are the model's literal transcriptions.

`key_generation_is_algorithm_6`: for each parameter set and **every** seed, generating the pair and serialising both keys
returns exactly the bytes `keygenSpec` returns - as values of the model's result type, so including the no-panic part.
With `keygen_rng_is_seeded` (the RNG-driven entry point is the seeded one applied to the 32 bytes drawn) this is
the whole property.
-/
namespace Fips204.Props.C04
open Fips204 Fips204.Gen Fips204.Impl

theorem key_generation_is_algorithm_6 (m : Mode) (O : Oracles) (hO : OracleOk O) (p : ParamSet) (hp : p ∈ [ml_dsa_44, ml_dsa_65, ml_dsa_87])
    (xi : List Nat) :
    (keygenFromSeed m O p xi >>= fun kp => pkIntoBytes m p kp.1 >>= fun pkb => skIntoBytes m p kp.2 >>= fun skb => pure (pkb, skb)) =
      keygenSpec m O p xi := by
  obtain ⟨bl, he, hbl, hcfg⟩ := Fips204.Props.C10.sk_config m p hp
  obtain ⟨_, hl7, hpcfg⟩ := Fips204.Props.C13.keyCfg_of_mem p hp
  exact keygen_bytes_eq_spec m O hO p he hl7 hpcfg bl hbl hcfg xi

end Fips204.Props.C04
