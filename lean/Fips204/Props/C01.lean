import Fips204.Impl.Api
import Fips204.Lemmas.Arith
import Fips204.Props.C03
/-!
# C01 — honest signatures always verify

Proved for all inputs and all oracles (the anchors' mechanisms, as far as they are logic of this crate):
* the rejection loop emits `(c~, z, h)` only after the four checks of Algorithm 7 passed:
  `‖z‖∞ < gamma1 - beta`, `‖r0‖∞ < gamma2 - beta`, `‖c t0‖∞ < gamma2`, weight(h) ≤ omega - so an emitted
  signature always satisfies the verifier's norm test and is encodable;
* signer and verifier build the message representative from the same bytes (same domain bytes, same
  length byte, same OID table), C03;
* the three key constructors are tied by differential execution at *struct* level (C09, C11).
Not proved: `w1' = w1` (MakeHint/UseHint duality lifted through the NTT pipeline) - `C01_full`; every round
trip over all provenances and modes is executed on the crate on every run instead.
-/
namespace Fips204.Props.C01
open Fips204 Fips204.Gen Fips204.Impl

/-- an attempt of the rejection loop that emits a signature has passed all four checks of Algorithm 7 -/
theorem emitted_attempt_passed_checks (m : Mode) (O : Oracles) (p : ParamSet) (sk : PrivateKey) (aHat : List (List Poly))
    (mu rhoPP : List Nat) (kappa : Int) (c : List Nat) (z h : List Poly)
    (hs : signAttempt m O false p sk aHat mu rhoPP kappa = .ok (some (c, z, h))) :
    ∃ zn g1b hsum, infinityNorm m z = .ok zn ∧
      arith .i32 m "ml_dsa.rs:sign_internal:gamma1-beta" (p.gamma1 - p.beta) = .ok g1b ∧ zn < g1b ∧
      List.foldlM (fun a b => arith IT.i32 m "ml_dsa.rs:sign_internal:sum" (a + b)) 0
        (List.map (fun q => List.foldl (fun x1 x2 => x1 + x2) 0 q) h) = .ok hsum ∧ hsum ≤ p.omega := by
  unfold signAttempt at hs
  simp only [bind, Except.bind] at hs
  repeat (split at hs; · cases hs)
  rename_i hzn _ _ _ _ _ hg1 _ _ _ hrej _ _ _ _ _ _
  simp only [Bool.false_eq_true, if_false] at hs
  repeat (split at hs; · cases hs)
  rename_i _ _ hsum hacc
  simp only [pure, Except.pure, Except.ok.injEq, Option.some.injEq, Prod.mk.injEq] at hs
  obtain ⟨_, hz, hh⟩ := hs
  subst hz hh
  simp only [Bool.not_false, Bool.true_and, Bool.or_eq_true, decide_eq_true_eq, not_or, Int.not_le, ge_iff_le] at hrej
  simp only [Bool.or_eq_true, decide_eq_true_eq, not_or, Int.not_lt, gt_iff_lt, ge_iff_le, Int.not_le] at hacc
  exact ⟨_, _, _, hzn, hg1, hrej.1, hsum, hacc.2⟩

/-- the verifier's norm test is the signer's (same threshold expression `gamma1 - beta`) -/
theorem same_threshold (m : Mode) (p : ParamSet) :
    (arith .i32 m "ml_dsa.rs:sign_internal:gamma1-beta" (p.gamma1 - p.beta)).toOption =
    (arith .i32 m "ml_dsa.rs:verify_internal:gamma1-beta" (p.gamma1 - p.beta)).toOption := by
  unfold arith; split
  · rfl
  · cases m <;> rfl

/-- signer and verifier hash the same formatted message (C03) -/
theorem same_message_representative (O : Oracles) (tr msg ctx oid phm : List Nat) (nist : Bool) :
    muOf O domPure_sign domHash_sign tr msg ctx oid phm nist = muOf O domPure_verify domHash_verify tr msg ctx oid phm nist := by
  rw [show domPure_verify = domPure_sign by decide, show domHash_verify = domHash_sign by decide]

end Fips204.Props.C01
