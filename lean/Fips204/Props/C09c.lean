import Fips204.Props.C09b
import Fips204.Props.C13d
import Fips204.Lemmas.GenKeys
/-!
# C09 (continued) — a generated key that is serialised and deserialised is the same struct

`generated_keys_round_trip_to_the_same_structs`: for each parameter set and every seed, whenever key generation returns
(it never panics; the model's only other outcome is `Fault.fuel`), both keys serialise (no panic, exactly `PK_LEN` /
`SK_LEN` bytes) and deserialising those bytes returns **the same structs** - every field, every coefficient.  Since the
signing and verification functions are functions of the struct, the round-tripped keys produce the same signatures for
the same randomness and make the same verification decision on every input: the third sentence of the property.

Proof (`Lemmas/GenKeys`): key generation's result is characterised by the vectors it sampled and rounded (`GenOk`);
`into_bytes` recovers those vectors exactly (`unMontCentered ∘ nttMont = id`, the verifier-precompute round trip) and
encodes them; `pk_decode ∘ pk_encode = id` and `sk_decode ∘ sk_encode = id` (bit codec bijection, C08); re-expanding
the decoded vectors recomputes the same NTT-domain fields, and `tr` is the hash of the same bytes.
-/
namespace Fips204.Props.C09
open Fips204 Fips204.Gen Fips204.Impl

theorem generated_keys_round_trip_to_the_same_structs (m : Mode) (O : Oracles) (hO : OracleOk O) (p : ParamSet)
    (hp : p ∈ [ml_dsa_44, ml_dsa_65, ml_dsa_87]) (xi : List Nat) :
    NoPanic (keygenFromSeed m O p xi) (fun kp => ∃ pkb skb,
      pkIntoBytes m p kp.1 = .ok pkb ∧ pkb.length = p.pkLen ∧ expandPublic m O p pkb = .ok (some kp.1) ∧
      skIntoBytes m p kp.2 = .ok skb ∧ skb.length = p.skLen ∧ expandPrivate m p skb = .ok (some kp.2)) := by
  obtain ⟨bl, he, hbl, hcfg⟩ := Fips204.Props.C10.sk_config m p hp
  have hpcfg := pk_config_ok p hp
  exact (Fips204.Props.C13.keygen_never_panics m O hO p hp xi []).1.mono
    (fun kp hg => gen_roundtrip_struct m O p he bl hbl hcfg hpcfg kp hg)

end Fips204.Props.C09
