import Fips204.Props.C08
import Fips204.Lemmas.SigRoundTrip
import Fips204.Lemmas.SigDecodeEncode
/-!
# C08 (continued) — encodings are canonical, at full parameters, for every byte string

* `signature_reencodes_to_the_same_bytes`: for each of the three parameter sets and **every** byte string of signature
  length that `sig_decode` accepts, `sig_encode` of the decoded (c~, z, h) is that byte string.  Hence
  `signature_encoding_is_unique`: two accepted byte strings with the same decoding are equal.
* `bit_pack_inverts_bit_unpack` / `bit_unpack_inverts_bit_pack`: coefficient packing is a bijection between the
  accepted byte strings and the in-range coefficient vectors, for every (a, b) with `a + b < 2^bitlen`.
* `hint_section_reencodes_to_the_same_bytes`, `accepted_hint_sections_are_well_formed`: the hint codec is canonical,
  and acceptance implies sorted / non-repeating indices, monotone counts at most omega, zero padding.

Proofs: value-tracking accumulator invariants on both sides of the bit codec plus uniqueness of fixed-length
little-endian representations (`Lemmas/{Digits,Unpack,BitRoundTrip}`), and a lock-step induction over the decoder's and
the encoder's loops for the hint section (`Lemmas/HintRoundTrip`), assembled in `Lemmas/SigRoundTrip`.
-/
namespace Fips204.Props.C08
open Fips204 Fips204.Gen Fips204.Impl

theorem sigCfg_of_mem (p : ParamSet) (hp : p ∈ [ml_dsa_44, ml_dsa_65, ml_dsa_87]) : ∃ blz, SigCfg p blz := by
  simp only [List.mem_cons, List.mem_nil_iff, or_false] at hp
  rcases hp with rfl | rfl | rfl
  · exact ⟨18, sigCfg_44⟩
  · exact ⟨20, sigCfg_65⟩
  · exact ⟨20, sigCfg_87⟩

theorem signature_reencodes_to_the_same_bytes (m : Mode) (p : ParamSet) (hp : p ∈ [ml_dsa_44, ml_dsa_65, ml_dsa_87])
    (sigma : List Nat) (hb : ∀ x ∈ sigma, x < 256) (hlen : sigma.length = p.sigLen) (ct : List Nat) (z h : List Poly)
    (hdec : sigDecode m p sigma = .ok (some (ct, z, h))) : sigEncode m false p ct z h = .ok sigma := by
  obtain ⟨blz, cfg⟩ := sigCfg_of_mem p hp
  exact sigEncode_sigDecode m p blz cfg sigma hb hlen ct z h hdec

/-- no two different byte strings are read as the same signature -/
theorem signature_encoding_is_unique (m : Mode) (p : ParamSet) (hp : p ∈ [ml_dsa_44, ml_dsa_65, ml_dsa_87])
    (s1 s2 : List Nat) (hb1 : ∀ x ∈ s1, x < 256) (hb2 : ∀ x ∈ s2, x < 256) (hl1 : s1.length = p.sigLen) (hl2 : s2.length = p.sigLen)
    (d : List Nat × List Poly × List Poly) (h1 : sigDecode m p s1 = .ok (some d)) (h2 : sigDecode m p s2 = .ok (some d)) : s1 = s2 := by
  obtain ⟨ct, z, h⟩ := d
  have e1 := signature_reencodes_to_the_same_bytes m p hp s1 hb1 hl1 ct z h h1
  have e2 := signature_reencodes_to_the_same_bytes m p hp s2 hb2 hl2 ct z h h2
  rw [e1] at e2
  exact ok_inj e2

theorem bit_pack_inverts_bit_unpack (m : Mode) (v : List Nat) (a b : Int) (bl : Nat) (ha : 0 ≤ a ∧ a < 1048576) (hb : 1 ≤ b ∧ b < 1048576)
    (hbl : bitLen m (a + b) = .ok bl) (hbl2 : 1 ≤ bl ∧ bl ≤ 20) (hab : a + b < 2 ^ bl) (hv : ∀ x ∈ v, x < 256)
    (hlen : v.length = 32 * bl) (w : Poly) (h : bitUnpack m v a b = .ok (some w)) : bitPack m w a b (32 * bl) = .ok v :=
  bitPack_bitUnpack m v a b bl ha hb hbl hbl2 hab hv hlen w h

theorem bit_unpack_inverts_bit_pack (m : Mode) (w : Poly) (a b : Int) (bl : Nat) (ha : 0 ≤ a ∧ a < 1048576) (hb : 1 ≤ b ∧ b < 1048576)
    (hbl : bitLen m (a + b) = .ok bl) (hbl2 : 1 ≤ bl ∧ bl ≤ 20) (hab : a + b < 2 ^ bl) (hw : ∀ c ∈ w, -a ≤ c ∧ c ≤ b)
    (hlen : w.length = 256) :
    ∃ v, bitPack m w a b (32 * bl) = .ok v ∧ v.length = 32 * bl ∧ (∀ x ∈ v, x < 256) ∧ bitUnpack m v a b = .ok (some w) :=
  bitUnpack_bitPack m w a b bl ha hb hbl hbl2 hab hw hlen

theorem hint_section_reencodes_to_the_same_bytes (m : Mode) (k : Nat) (omega : Int) (y : List Nat) (hy : ∀ b ∈ y, b < 256)
    (ho : 0 ≤ omega) (hk : 1 ≤ omega.toNat + k ∧ omega.toNat + k < 256) (hlen : y.length = omega.toNat + k)
    (h : List Poly) (hdec : hintBitUnpack m k omega y = .ok (some h)) : hintBitPack m false omega h (omega.toNat + k) = .ok y :=
  hintBitPack_hintBitUnpack m k omega y hy ho hk hlen h hdec

theorem accepted_hint_sections_are_well_formed (m : Mode) (k : Nat) (omega : Int) (y : List Nat) (hy : ∀ b ∈ y, b < 256)
    (ho : 0 ≤ omega) (hk : 1 ≤ k ∧ omega.toNat + k < 256) (hlen : y.length = omega.toNat + k)
    (h : List Poly) (hdec : hintBitUnpack m k omega y = .ok (some h)) :
    hintWF y omega.toNat omega.toNat k 0 0 ∧ ∀ p, y.getD (omega.toNat + k - 1) 0 ≤ p → p < omega.toNat → y.getD p 0 = 0 :=
  hintBitUnpack_accepts_only_wellformed m k omega y hy ho hk hlen h hdec

/-- non-vacuity: the all-zero ML-DSA-44 hint section (no hints) is accepted -/
example : ((hintBitUnpack .checked 4 80 (List.replicate 84 0)).toOption.bind id).isSome = true := by decide +kernel

/-- **`hint_bit_unpack ∘ hint_bit_pack = id`**: every 0/1 hint with at most omega ones is decoded back from its encoding
    (with `hint_section_reencodes_to_the_same_bytes`: the hint codec is a bijection between well-formed hints and accepted sections) -/
theorem hint_unpack_inverts_hint_pack (m : Mode) (k : Nat) (omega : Int) (h : List Poly) (ho : 0 ≤ omega)
    (hk : 1 ≤ omega.toNat + k ∧ omega.toNat + k < 256) (hl : h.length = k) (hb : ∀ q ∈ h, Bin q) (hsum : onesAll h ≤ omega.toNat)
    (y : List Nat) (hp : hintBitPack m false omega h (omega.toNat + k) = .ok y) : hintBitUnpack m k omega y = .ok (some h) :=
  hintBitUnpack_hintBitPack m k omega h ho hk hl hb hsum y hp

/-- **`sig_decode ∘ sig_encode = id`** for the three parameter sets: an in-range `(c~, z, h)` is encoded to a string of signature
    length, of bytes, which decodes back to `(c~, z, h)` (with `signature_reencodes_to_the_same_bytes`: a bijection) -/
theorem signature_decodes_to_what_was_encoded (m : Mode) (p : ParamSet) (hp : p ∈ [ml_dsa_44, ml_dsa_65, ml_dsa_87])
    (ct : List Nat) (z h : List Poly) (hct : ct.length = p.lambdaDiv4) (hz : Sh p.l z)
    (hzr : ∀ q ∈ z, ∀ c ∈ q, -(p.gamma1 - 1) ≤ c ∧ c ≤ p.gamma1) (hh : Sh p.k h) (hb : ∀ q ∈ h, Bin q)
    (hsum : onesAll h ≤ p.omega.toNat) (sig : List Nat) (henc : sigEncode m false p ct z h = .ok sig) :
    sig.length = p.sigLen ∧ ((∀ b ∈ ct, b < 256) → ∀ b ∈ sig, b < 256) ∧ sigDecode m p sig = .ok (some (ct, z, h)) := by
  obtain ⟨blz, cfg⟩ := sigCfg_of_mem p hp
  exact sigEncode_facts m p blz cfg ct z h hct hz hzr hh hb hsum sig henc

end Fips204.Props.C08
