import Fips204.Props.C12
/-!
# C04 — key generation is exactly the FIPS 204 function of the 32-byte seed

Proved (all seeds, all oracles, all scripts): the RNG-driven variant is the seeded variant applied to the
32 bytes it drew, or `Err`; key generation has no other source of variation; the seed expansion
`H(xi ‖ k ‖ l)` is split into rho / rho' / K as Algorithm 6 line 1 says, and both keys carry the same rho and tr.
Not proved: `t = A s1 + s2` through the NTT pipeline equals the exact product (see C18) - decided by
differential execution against the Python transcription of Algorithm 6.
-/
namespace Fips204.Props.C04
open Fips204 Fips204.Gen Fips204.Impl

/-- Algorithm 1 = Algorithm 6 on the drawn seed -/
theorem keygen_rng_is_seeded (m : Mode) (O : Oracles) (p : ParamSet) (xi : List Nat) (rest : List RngResp)
    (h : xi.length = 32) :
    keygenWithRng m O p (RngResp.ok xi :: rest) =
      (do let kp ← keygenFromSeed m O p xi; pure (.ok kp, [.tryFill 32])) :=
  C12.keygen_uses_all_drawn_bytes m O p xi rest h

/-- a failing generator yields `Err` and no key -/
theorem keygen_rng_failure (m : Mode) (O : Oracles) (p : ParamSet) (script : List RngResp) (h : C12.Fails script) :
    keygenWithRng m O p script = .ok (.error .rng, [.tryFill 32]) :=
  C12.keygen_reports_rng_failure m O p script h

/-- the unused tail of the script cannot influence the keys -/
theorem keygen_ignores_rest_of_script (m : Mode) (O : Oracles) (p : ParamSet) (xi : List Nat) (r1 r2 : List RngResp)
    (h : xi.length = 32) :
    keygenWithRng m O p (RngResp.ok xi :: r1) = keygenWithRng m O p (RngResp.ok xi :: r2) := by
  rw [keygen_rng_is_seeded m O p xi r1 h, keygen_rng_is_seeded m O p xi r2 h]

/-- Algorithm 6 line 1 and lines 8-10: how the seed expansion is split and what the two structs share -/
theorem keygen_seed_split (m : Mode) (O : Oracles) (p : ParamSet) (xi : List Nat) (pk : PublicKey) (sk : PrivateKey)
    (h : keygenFromSeed m O p xi = .ok (pk, sk)) :
    let hh := O.h (xi ++ [p.k % 256, p.l % 256]) 128
    pk.rho = hh.take 32 ∧ sk.rho = hh.take 32 ∧ sk.key = (hh.drop 96).take 32 ∧ pk.tr = sk.tr := by
  unfold keygenFromSeed keyGenInternal at h
  simp only [bind, Except.bind] at h
  repeat' (split at h <;> try contradiction)
  simp only [pure, Except.pure, Except.ok.injEq, Prod.mk.injEq] at h
  obtain ⟨h1, h2⟩ := h
  subst h1 h2
  exact ⟨rfl, rfl, rfl, rfl⟩

end Fips204.Props.C04
