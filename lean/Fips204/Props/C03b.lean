import Fips204.Props.C03
import Fips204.Props.C13c
import Fips204.Lemmas.SignSpec
import Fips204.Props.C10b
/-!
# C03 (continued) — signing *is* Algorithm 7

`signSpec` (`Lemmas/SignSpec`) is ML-DSA.Sign_internal written with exact arithmetic modulo q, on the vectors
`(s1, s2, t0)` a private key encodes: `A_hat <- ExpandA(rho)`; `mu`; `rho'' <- H(K || rnd || mu)`; loop over `kappa`:
`y <- ExpandMask(rho'', kappa)`; `w <- NTT^-1(A_hat ∘ NTT(y))` (`commitS`, exact butterflies, canonical representatives);
`w1 <- HighBits(w)`; `c~ <- H(mu || w1Encode(w1))`; `c <- SampleInBall(c~)`; `<<cs1>> = c * s1`, `<<cs2>> = c * s2` in
`Z_q[X]/(X^256+1)` (`cmul`: canonical negacyclic product); `z <- y + <<cs1>>` (centred); `r0 <- LowBits(w - <<cs2>>)`;
reject if `‖z‖∞ ≥ gamma1 - beta` or `‖r0‖∞ ≥ gamma2 - beta`; `<<ct0>> = c * t0`; `h <- MakeHint(-<<ct0>>, w - <<cs2>> + <<ct0>>)`;
reject if `‖<<ct0>>‖∞ ≥ gamma2` or more than omega ones; `sigma <- sigEncode(c~, z mod± q, h)`.

* `signing_is_algorithm_7`: for each parameter set, every private key deserialisation accepts, every message, context,
  pre-hash and randomness, `sign_internal` on the struct `expand_private` built returns exactly what `signSpec` returns on
  the decoded `(rho, K, tr, s1, s2, t0)` - in both build modes, within `fuel * l ≤ 65535` attempts (the crate's `u16`
  counter; see C13c).  `generated_key_signing_is_algorithm_7`: the same for the struct key generation returns, on the
  vectors key generation sampled.
* With `C03.sign_is_algorithm_2`-style wrapper theorems of `Props/C03` (context guard, one 32-byte draw, M' formatting, OID
  table) this is the whole property; determinism in (sk, M, ctx, mode, rnd) is immediate since `signSpec` is a function.
-/
namespace Fips204.Props.C03
open Fips204 Fips204.Gen Fips204.Impl

theorem signing_is_algorithm_7 (m : Mode) (O : Oracles) (hO : OracleOk O) (p : ParamSet) (hp : p ∈ [ml_dsa_44, ml_dsa_65, ml_dsa_87])
    (fuel : Nat) (hfuel : fuel * p.l ≤ 65535) (skb : List Nat) (sk : PrivateKey) (hsk : expandPrivate m p skb = .ok (some sk))
    (msg ctx oid phm rnd : List Nat) (nist : Bool) :
    ∃ d, skDecode m p skb = .ok (some d) ∧
      signInternal m O CTEST_default p fuel sk msg ctx oid phm rnd nist =
        signSpec m O p fuel d.rho d.key d.tr d.s1 d.s2 d.t0 msg ctx oid phm rnd nist := by
  obtain ⟨blz, cfg, hk, he4⟩ := C13.signCfg_of_mem p hp
  obtain ⟨_, he, _, _⟩ := Fips204.Props.C10.sk_config m p hp
  have hok := expandPrivate_skok m p he4 skb sk hsk
  unfold expandPrivate at hsk
  obtain ⟨r, hr, h⟩ := bind_ok_inv hsk
  cases r with
  | none => rw [pure_eq] at h; have := ok_inj h; simp at this
  | some d =>
    simp only [] at h
    obtain ⟨a1, h1, h⟩ := bind_ok_inv h
    obtain ⟨a2, h2, h⟩ := bind_ok_inv h
    obtain ⟨a0, h0, h⟩ := bind_ok_inv h
    rw [pure_eq] at h
    have e := ok_inj h
    simp only [Option.some.injEq] at e
    subst e
    obtain ⟨_, sh1, sh2, sh0⟩ := skDecode_sh m p skb d hr
    obtain ⟨r1, r2, r0⟩ := C10.skDecode_accepts_only_in_range m p skb d ⟨he4.1, by omega⟩ hr
    have ht : top = 4096 := by decide
    refine ⟨d, hr, ?_⟩
    exact signInternal_eq_spec m O hO p blz cfg hk he fuel hfuel _ d.s1 d.s2 d.t0
      ⟨hok.rho, ⟨sh1, r1⟩, ⟨sh2, r2⟩, ⟨sh0, fun q hq x hx => by have := r0 q hq x hx; rw [ht] at this; omega⟩, h1, h2, h0⟩
      hok msg ctx oid phm rnd nist

theorem generated_key_signing_is_algorithm_7 (m : Mode) (O : Oracles) (hO : OracleOk O) (p : ParamSet) (hp : p ∈ [ml_dsa_44, ml_dsa_65, ml_dsa_87])
    (fuel : Nat) (hfuel : fuel * p.l ≤ 65535) (kp : PublicKey × PrivateKey) (hg : GenOk m O p kp) (msg ctx oid phm rnd : List Nat) (nist : Bool) :
    ∃ s1 s2 t0, nttMont m s1 = .ok kp.2.s1 ∧ nttMont m s2 = .ok kp.2.s2 ∧ nttMont m t0 = .ok kp.2.t0 ∧
      signInternal m O CTEST_default p fuel kp.2 msg ctx oid phm rnd nist =
        signSpec m O p fuel kp.2.rho kp.2.key kp.2.tr s1 s2 t0 msg ctx oid phm rnd nist := by
  obtain ⟨blz, cfg, hk, he4⟩ := C13.signCfg_of_mem p hp
  obtain ⟨_, he, _, _⟩ := Fips204.Props.C10.sk_config m p hp
  obtain ⟨s1, s2, t0, t1, pkb, v1, v2, v0, vt, n1, n2, n0, _⟩ := hg.vecs
  exact ⟨s1, s2, t0, n1, n2, n0, signInternal_eq_spec m O hO p blz cfg hk he fuel hfuel kp.2 s1 s2 t0
    ⟨hg.sk.rho, v1, v2, v0, n1, n2, n0⟩ hg.sk msg ctx oid phm rnd nist⟩

end Fips204.Props.C03
