import Fips204.Props.C10
import Fips204.Lemmas.KeyDecode
/-!
# C10 (continued) — deserialisation of a private key never faults

Kept in a second file because it depends on the accumulator-invariant lemmas (`Lemmas/Unpack`, `Lemmas/KeyDecode`).
-/
namespace Fips204.Props.C10
open Fips204 Fips204.Gen Fips204.Impl

/-- for every byte string of private-key length `sk_decode` returns a value - the parts, or `none` (= `Err`) - and never
    panics, in both build modes: all faults of the accumulator loops, slices and self-checks are excluded -/
theorem sk_decode_never_faults (m : Mode) (p : ParamSet) (skb : List Nat) (hb : ∀ x ∈ skb, x < 256)
    (he : p.eta = 2 ∨ p.eta = 4) (bl : Nat) (hbl : bitLen m (2 * p.eta) = .ok bl)
    (hlen : skb.length = 128 + 32 * ((p.k + p.l) * bl + D.toNat * p.k)) (hcfg : p.skLen = skb.length) :
    ∃ r, skDecode m p skb = .ok r :=
  skDecode_no_fault m p skb hb he bl hbl hlen hcfg

end Fips204.Props.C10
