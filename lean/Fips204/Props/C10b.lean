import Fips204.Props.C10
import Fips204.Lemmas.KeyDecode
import Fips204.Lemmas.SkDecide
/-!
# C10 (continued) — private-key deserialisation: never faults, and accepts exactly the in-range keys

Kept in a second file because it depends on the accumulator-invariant lemmas (`Lemmas/Unpack`, `Lemmas/KeyDecode`,
`Lemmas/SkDecide`).
-/
namespace Fips204.Props.C10
open Fips204 Fips204.Gen Fips204.Impl

/-- for every byte string of private-key length `sk_decode` returns a value - the parts, or `none` (= `Err`) - and never
    panics, in both build modes: all faults of the accumulator loops, slices and self-checks are excluded -/
theorem sk_decode_never_faults (m : Mode) (p : ParamSet) (skb : List Nat) (hb : ∀ x ∈ skb, x < 256)
    (he : p.eta = 2 ∨ p.eta = 4) (bl : Nat) (hbl : bitLen m (2 * p.eta) = .ok bl)
    (hlen : skb.length = 128 + 32 * ((p.k + p.l) * bl + D.toNat * p.k)) (hcfg : p.skLen = skb.length) :
    ∃ r, skDecode m p skb = .ok r :=
  skDecode_no_fault m p skb hb he bl hbl hlen hcfg

theorem sk_config (m : Mode) : ∀ p ∈ [ml_dsa_44, ml_dsa_65, ml_dsa_87], ∃ bl, (p.eta = 2 ∨ p.eta = 4) ∧
    bitLen m (2 * p.eta) = .ok bl ∧ p.skLen = 128 + 32 * ((p.k + p.l) * bl + D.toNat * p.k) := by
  intro p hp
  simp only [List.mem_cons, List.mem_nil_iff, or_false] at hp
  rcases hp with rfl | rfl | rfl
  · exact ⟨3, Or.inl rfl, of_toOption _ _ (by cases m <;> decide +kernel), by decide⟩
  · exact ⟨4, Or.inr rfl, of_toOption _ _ (by cases m <;> decide +kernel), by decide⟩
  · exact ⟨3, Or.inl rfl, of_toOption _ _ (by cases m <;> decide +kernel), by decide⟩

/-- **the property, both directions, for every byte string**: for each parameter set and every byte string of
    private-key length, `sk_decode` returns `Ok` exactly when every field of the `s1` and `s2` sections is at most
    `2 eta` (i.e. encodes a coefficient in `[-eta, eta]`), and `Err` otherwise; it never panics -/
theorem sk_decode_accepts_exactly_the_in_range_keys (m : Mode) (p : ParamSet) (hp : p ∈ [ml_dsa_44, ml_dsa_65, ml_dsa_87])
    (skb : List Nat) (hb : ∀ x ∈ skb, x < 256) (hlen : skb.length = p.skLen) :
    ∃ bl parts, bitLen m (2 * p.eta) = .ok bl ∧ skDecode m p skb = .ok (if skFieldsOk p bl skb then some parts else none) := by
  obtain ⟨bl, he, hbl, hcfg⟩ := sk_config m p hp
  obtain ⟨parts, h⟩ := skDecode_decision m p skb hb he bl hbl (by rw [hlen, hcfg]) hlen.symm
  exact ⟨bl, parts, hbl, h⟩

/-- non-vacuity of the field test on a concrete string: the all-zero ML-DSA-44 key passes (every field 0 = coefficient eta),
    one byte 7 in the first field fails (field 7 > 4 = coefficient -5, the F1 witness) -/
example : skFieldsOk ml_dsa_44 3 (List.replicate 2560 0) = true ∧
    skFieldsOk ml_dsa_44 3 (List.replicate 128 0 ++ 7 :: List.replicate 2431 0) = false := by decide +kernel

end Fips204.Props.C10
