import Fips204.Props.C13
import Fips204.Lemmas.VerifyOk
import Fips204.Impl.Api
/-!
# C13 (continued) — the whole verification path never panics

`expand_public` + `verify` / `hash_verify` / `_internal_verify`, for **every** byte string of public-key length, **every**
byte string of signature length, every message, context and pre-hash function, every hash oracle that returns the
number of bytes asked for, in both build modes: the result is a Boolean.  The only other outcome the *model* has is
`Fault.fuel` (its samplers read a finite prefix of the XOF stream; the crate squeezes without bound), which is not a
crate behaviour.  Composition of: `sig_decode` never faults (accumulator invariant of `bit_unpack`, index discipline of
`hint_bit_unpack`), `sample_in_ball`'s two Hamming-weight assertions always hold, `rej_ntt_poly` yields canonical
coefficients, the lazy NTT pipeline cannot overflow (C18), `use_hint` stays inside `w1_encode`'s asserted range, and
`simple_bit_pack` fills exactly its output slice.
-/
namespace Fips204.Props.C13
open Fips204 Fips204.Gen Fips204.Impl

theorem verCfg_of_mem (p : ParamSet) (hp : p ∈ [ml_dsa_44, ml_dsa_65, ml_dsa_87]) : ∃ blz, VerCfg p blz := by
  simp only [List.mem_cons, List.mem_nil_iff, or_false] at hp
  rcases hp with rfl | rfl | rfl
  · exact ⟨18, verCfg_44⟩
  · exact ⟨20, verCfg_65⟩
  · exact ⟨20, verCfg_87⟩

/-- the three external verification entry points on a well-formed public-key struct and any signature bytes -/
theorem verify_entry_points_never_panic (m : Mode) (O : Oracles) (hO : OracleOk O) (p : ParamSet)
    (hp : p ∈ [ml_dsa_44, ml_dsa_65, ml_dsa_87]) (pk : PublicKey) (hpk : PkOk p pk) (msg sig ctx : List Nat) (ph : Ph)
    (hb : ∀ x ∈ sig, x < 256) (hlen : sig.length = p.sigLen) :
    NoPanic (verify m O p pk msg sig ctx) (fun _ => True) ∧ NoPanic (hashVerify m O p pk msg sig ctx ph) (fun _ => True) ∧
    NoPanic (internalVerify m O p pk msg sig ctx) (fun _ => True) := by
  obtain ⟨blz, cfg⟩ := verCfg_of_mem p hp
  refine ⟨?_, ?_, ?_⟩
  · unfold verify verifyCtxGuard
    rw [pure_eq, ok_bind]
    split
    · exact NoPanic.ok _ trivial
    · exact verifyInternal_np m O hO _ p blz cfg pk hpk msg sig ctx [] [] false hb hlen
  · unfold hashVerify hashVerifyCtxGuard
    rw [pure_eq, ok_bind]
    split
    · exact NoPanic.ok _ trivial
    · exact verifyInternal_np m O hO _ p blz cfg pk hpk msg sig ctx _ _ false hb hlen
  · unfold internalVerify internalVerifyCtxGuard
    rw [pure_eq, ok_bind]
    split
    · exact NoPanic.ok _ trivial
    · exact verifyInternal_np m O hO _ p blz cfg pk hpk msg sig ctx [] [] true hb hlen

/-- **hostile bytes end to end**: any public-key bytes deserialise to a struct on which any signature bytes verify to a
    Boolean without a panic -/
theorem verification_path_never_panics (m : Mode) (O : Oracles) (hO : OracleOk O) (p : ParamSet)
    (hp : p ∈ [ml_dsa_44, ml_dsa_65, ml_dsa_87]) (pkb msg sig ctx : List Nat) (ph : Ph)
    (hpb : ∀ x ∈ pkb, x < 256) (hpl : pkb.length = p.pkLen) (hb : ∀ x ∈ sig, x < 256) (hlen : sig.length = p.sigLen) :
    ∃ pk, expandPublic m O p pkb = .ok (some pk) ∧
      NoPanic (verify m O p pk msg sig ctx) (fun _ => True) ∧ NoPanic (hashVerify m O p pk msg sig ctx ph) (fun _ => True) ∧
      NoPanic (internalVerify m O p pk msg sig ctx) (fun _ => True) := by
  have hcfg := pk_config_ok p hp
  obtain ⟨pk, h1, h2⟩ := expandPublic_pkok m O p pkb hpb (by rw [hpl, hcfg]) hcfg
  exact ⟨pk, h1, verify_entry_points_never_panic m O hO p hp pk h2 msg sig ctx ph hb hlen⟩

/-- non-vacuity: the hypotheses are satisfiable - a constant oracle meets `OracleOk`, and the all-zero strings have the
    right lengths -/
example : OracleOk { h := fun _ n => List.replicate n 0, g := fun _ n => List.replicate n 0, sha256 := fun _ => [], sha512 := fun _ => [] } :=
  ⟨fun _ n => List.length_replicate .., fun _ n b hb => by rw [List.eq_of_mem_replicate hb]; decide,
   fun _ n => List.length_replicate .., fun _ n b hb => by rw [List.eq_of_mem_replicate hb]; decide⟩

end Fips204.Props.C13
