import Fips204.Gen.Leaks
import Fips204.Lemmas.Kernels2
import Fips204.Impl.Api
import Fips204.Lemmas.Shapes
/-!
# C14 — secret-independent execution in constant-time test mode

What a Lean model of the *source* can carry (partial, named as such): (1) over the inventory of control
constructs regenerated from every function in the constant-time scope (`Gen.leakSites`: every `if`, `while`,
`match`, early-exit iterator adaptor, `?`, `continue/break`, and - fourth session - every index expression `x[e]` and every division or
remainder whose `e` / divisor mentions an identifier that is not public in that function: a table lookup on secret data or a variable-time
division by it; each with the identifiers of its guard that are not public in that function), every construct whose guard mentions secret data is one of the fifteen listed exceptions, each
either neutralised by `CTEST` or argued constant on success; a new secret-dependent branch or early exit in any
scope function changes the inventory and falsifies the theorem.  (2) the `CTEST` neutralisations really make the
loop trip counts input-independent in the model: the three-byte and half-byte samplers never reject, and an attempt
of the signing loop never restarts.  What `rustc`/LLVM turn `.max()`, `bool as i32` or `if x > Q/2` into cannot be
exhibited by the model; that is observed: exact edge and load/store-address traces of the optimised build.
-/
namespace Fips204.Props.C14
open Fips204 Fips204.Gen Fips204.Impl Fips204.K

/-- the exceptions: (function, kind, guard as written) -/
def allowList : List (String × String × String) := [
  -- neutralised by CTEST (rejection on public, hash-derived data; see the three theorems below)
  ("coeff_from_three_bytes", "if", "z < Q"),
  ("coeff_from_half_byte", "if", "(eta == 2) && (b < 15)"),
  ("coeff_from_half_byte", "if", "(eta == 4) && (b < 9)"),
  ("hint_bit_pack", "if", "CTEST || (h[i].0[j] != 0)"),
  ("sample_in_ball", "while", "usize::from(j[0]) > i"),
  ("rej_ntt_poly", "if", "let Ok(res) = a_hat_j"),
  ("rej_ntt_poly", "while", "j < 256"),
  ("rej_bounded_poly", "if", "let Ok(z0) = z0"),
  ("rej_bounded_poly", "if", "let Ok(z1) = z1"),
  ("rej_bounded_poly", "if", "j < 256"),
  ("rej_bounded_poly", "while", "j < 256"),
  ("sign_internal", "if", "!CTEST && ((z_norm >= (gamma1 - beta)) || (r0_norm >= (gamma2 - beta)))"),
  ("sign_internal", "if", "!CTEST && ((infinity_norm(&c_t_0) >= gamma2) || (h.iter().map(|h_i| h_i.0.iter()"),
  -- early-exit adaptors: `.all()` is constant on success (and dead under CTEST), `.max()` scans every element
  ("is_in_range", "early-exit", ".all()"),
  ("infinity_norm", "early-exit", ".max()"),
  ("sign_internal", "loop-exit", "continue"),
  ("sign_internal", "loop-exit", "break"),
  ("hint_bit_pack", "loop-exit", "continue"),
  ("key_gen", "try", "?;"),
  -- the two `?` of the bounded rejection loop (fix 322a92d): they sit inside the `!CTEST && ..` rejection branches, dead under CTEST
  ("sign_internal", "try", "?;"),
  -- memory addresses computed from non-public identifiers (kind `index`) and divisions by them (kind `divmod`, none at present):
  -- the challenge positions come from the public commitment hash; `j` counts accepted candidates of public, hash-derived streams and
  -- advances on every candidate under CTEST (the two neutralisations above)
  ("sample_in_ball", "index", "usize::from(j[0])"),
  ("rej_ntt_poly", "index", "j"),
  ("rej_bounded_poly", "index", "j")]

def sensitive (s : LeakSite) : Bool := !s.secretVars.isEmpty || s.kind == "early-exit" || s.kind == "loop-exit" || s.kind == "try"

/-- every control construct in the constant-time scope that could depend on secret data is a listed exception -/
theorem secret_dependent_constructs_are_listed :
    leakSites.all (fun s => !sensitive s || allowList.contains (s.func, s.kind, s.guard)) = true := by decide

/-- and the list has no stale entry (each exception still exists in the source) -/
theorem allow_list_is_tight :
    allowList.all (fun a => leakSites.any (fun s => (s.func, s.kind, s.guard) == a)) = true := by decide

/-- CTEST neutralisation 1: the three-byte sampler never rejects (so `rej_ntt_poly` reads exactly 256 x 3 bytes) -/
theorem ctest_three_bytes_never_rejects (m : Mode) (b0 b1 b2 : Int) (h0 : 0 ≤ b0 ∧ b0 ≤ 255) (h1 : 0 ≤ b1 ∧ b1 ≤ 255)
    (h2 : 0 ≤ b2 ∧ b2 ≤ 255) : ∃ z, coeff_from_three_bytes m true b0 b1 b2 = .ok (some z) :=
  ⟨_, coeff3_ctest_some m b0 b1 b2 h0 h1 h2⟩

/-- CTEST neutralisation 2: the half-byte sampler never rejects, for both eta and every nibble -/
theorem ctest_half_byte_never_rejects (m : Mode) (eta b : Int) (he : eta = 2 ∨ eta = 4) (hb : 0 ≤ b ∧ b ≤ 15) :
    ∃ z, coeff_from_half_byte m true eta b = .ok (some z) := by
  unfold coeff_from_half_byte
  have hm := band8_7 b hb.1 (by omega)
  rcases he with rfl | rfl
  · have h15 : b % 8 < 15 := by omega
    refine ⟨2 - (b % 8 - b % 8 * 3355444 / 16777216 * 5), ?_⟩
    ksimp [hm]
    simp (disch := omega) [h15, arith_i32, dassertM_true, ok_bind, hm]
  · have h9 : b % 8 < 9 := by omega
    refine ⟨4 - b % 8, ?_⟩
    ksimp [hm]
    simp (disch := omega) [h9, arith_i32, dassertM_true, ok_bind, hm]

/-- CTEST neutralisation 3: in test mode an attempt of the signing loop never restarts (one pass, no `continue`) -/
theorem ctest_attempt_never_rejects (m : Mode) (O : Oracles) (p : ParamSet) (sk : PrivateKey) (aHat : List (List Poly))
    (mu rhoPP : List Nat) (kappa : Int) (r : Option (List Nat × List Poly × List Poly))
    (h : signAttempt m O true p sk aHat mu rhoPP kappa = .ok r) : r.isSome = true := by
  unfold signAttempt at h
  simp only [bind, Except.bind] at h
  repeat (split at h; · simp at h)
  simp only [Bool.not_true, Bool.false_and, Bool.false_eq_true, if_false] at h
  repeat (split at h; · simp at h)
  simp only [if_true, pure, Except.pure, Except.ok.injEq] at h
  subst h; rfl

/-- in constant-time test mode the signing loop always returns after exactly one pass, whatever the key, the message and the
    random value are: the number of iterations (the one secret-dependent quantity of Algorithm 7's control flow) is constant -/
theorem ctest_sign_is_single_pass (m : Mode) (O : Oracles) (p : ParamSet) (fuel : Nat) (sk : PrivateKey)
    (msg ctx oid phm rnd : List Nat) (nist : Bool) (out : SignOut)
    (h : signInternal m O true p fuel sk msg ctx oid phm rnd nist = .ok out) : out.iters = 1 := by
  unfold signInternal at h
  obtain ⟨aHat, _, h⟩ := bind_ok_inv h
  simp only [] at h
  obtain ⟨r, hl, h⟩ := bind_ok_inv h
  obtain ⟨cT, z, hh, it⟩ := r
  simp only [] at h
  obtain ⟨_, _, h⟩ := bind_ok_inv h
  obtain ⟨_, _, h⟩ := bind_ok_inv h
  have e := ok_inj h
  rw [← e]
  show it = 1
  cases fuel with
  | zero => unfold signLoop at hl; cases hl
  | succ fuel =>
    unfold signLoop at hl
    obtain ⟨a, ha, hl⟩ := bind_ok_inv hl
    have hs := ctest_attempt_never_rejects m O p sk aHat _ _ 0 a ha
    cases a with
    | none => simp at hs
    | some t =>
      obtain ⟨c', z', h'⟩ := t
      simp only [pure, Except.pure] at hl
      have e2 := ok_inj hl
      simp only [Prod.mk.injEq] at e2
      omega

end Fips204.Props.C14
