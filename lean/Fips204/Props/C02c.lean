import Fips204.Lemmas.SpecVerify
/-!
# C02 (continued) — `verify_internal` is FIPS 204 Algorithm 8 **as the standard writes it**

`verification_is_algorithm_8` (C02b) equates the crate's verifier with a specification that still shared the model's transcriptions of
the byte-level functions and samplers.  This file removes that sharing.  `Spec/*` now holds a transcription of the standard that
mentions nothing of the crate: Table 1 (`Spec.mlDsa44/65/87`), Algorithms 9-13 (bit/byte conversions), 16-19 (`SimpleBitPack`,
`BitPack`, `SimpleBitUnpack`, `BitUnpack` on explicit bit strings), 20-21 (`HintBitPack`, `HintBitUnpack`), 23 (`pkDecode`),
27 (`sigDecode`), 28 (`w1Encode`), 29 (`SampleInBall`), 30 (`RejNTTPoly`), 32 (`ExpandA`), 35-40 (rounding and hints), 41-42 (`NTT`,
`NTT⁻¹` with the zetas `ζ^{BitRev8(m)} mod q`, as recursion on halves), and Algorithm 8 itself (`Spec.verifyInternal`).

* `verification_is_fips_204_algorithm_8_as_written` — for each parameter set, every oracle, every byte string of public-key length,
  every message / context / pre-hash input and **every byte string of signature length**, in both build modes: `expand_public`
  accepts the key bytes and `verify_internal` on the struct it builds returns exactly the Boolean that `Spec.verifyInternal`
  computes from the bytes (if the finite XOF prefix the model hands to the two rejection samplers is too short, the specification
  says `none` and the model says `Fault.fuel`; the crate squeezes without bound).
* `parameter_sets_are_fips_204_table_1` — the crate's constants (regenerated from the source on every run) are the rows of Table 1.
* the components, each for all inputs: `sample_in_ball_is_SampleInBall`, `expand_a_is_ExpandA`, `sig_decode_is_sigDecode`,
  `pk_decode_is_pkDecode`, `hint_bit_unpack_is_HintBitUnpack`, `w1_encode_is_w1Encode`, `exact_w_approx_is_line_9`.

What remains trusted for C02 after this: that `Spec/*` (about 330 lines, no crate vocabulary) says what FIPS 204 says - compared on
every run with the independent Python transcription through the crate - the recursion-on-halves reading of the two NTT loop nests,
and the tie of the model to the source (translator + correspondence).
-/
namespace Fips204.Props.C02
open Fips204 Fips204.Gen Fips204.Impl

theorem parameter_sets_are_fips_204_table_1 :
    specParams ml_dsa_44 = Spec.mlDsa44 ∧ specParams ml_dsa_65 = Spec.mlDsa65 ∧ specParams ml_dsa_87 = Spec.mlDsa87 :=
  params_are_table_1

theorem verification_is_fips_204_algorithm_8_as_written (m : Mode) (O : Oracles) (hO : OracleOk O) (p : ParamSet)
    (hp : p ∈ [ml_dsa_44, ml_dsa_65, ml_dsa_87]) (pkb msg sig ctx oid phm : List Nat) (nist : Bool)
    (hpb : ∀ x ∈ pkb, x < 256) (hpl : pkb.length = p.pkLen) (hb : ∀ x ∈ sig, x < 256) (hlen : sig.length = p.sigLen) :
    ∃ pk, expandPublic m O p pkb = .ok (some pk) ∧
      AgreesWith (verifyInternal m O CTEST_default p pk msg sig ctx oid phm nist)
        (Spec.verifyInternal (specParams p) O.h O.g (1680 * O.fuelScale) (8 + 1360 * O.fuelScale) pkb (Spec.formatted nist msg ctx oid phm) sig) :=
  verifyInternal_is_algorithm_8_as_written m O hO p hp pkb msg sig ctx oid phm nist hpb hpl hb hlen

theorem sample_in_ball_is_SampleInBall (m : Mode) (O : Oracles) (hO : OracleOk O) (tau : Int) (rho : List Nat) (ht : 0 ≤ tau ∧ tau ≤ 64) :
    sampleInBall m O false tau rho =
      ofSpec "hashing.rs:sample_in_ball:stream" (Spec.sampleInBall tau.toNat (O.h rho (8 + 1360 * O.fuelScale))) :=
  sampleInBall_is_algorithm_29 m O hO tau rho ht

theorem expand_a_is_ExpandA (m : Mode) (O : Oracles) (hO : OracleOk O) (p : ParamSet) (rho : List Nat) (hr : rho.length = 32) :
    expandA m O false p rho = ofSpec "hashing.rs:rej_ntt_poly:stream" (Spec.expandA (fun x => O.g x (1680 * O.fuelScale)) p.k p.l rho) :=
  expandA_is_algorithm_32 m O hO p rho hr

theorem sig_decode_is_sigDecode (m : Mode) (p : ParamSet) (blz : Nat) (cfg : SigCfg p blz) (sigma : List Nat) (hb : ∀ x ∈ sigma, x < 256)
    (hlen : sigma.length = p.sigLen) :
    sigDecode m p sigma = .ok (
      let d := Spec.sigDecode p.lambdaDiv4 p.l p.k p.omega.toNat blz p.gamma1 sigma
      match d.2.2 with
      | none => none
      | some h => some (d.1, d.2.1, h)) :=
  sigDecode_is_algorithm_27 m p blz cfg sigma hb hlen

theorem pk_decode_is_pkDecode (m : Mode) (p : ParamSet) (pk : List Nat) (hb : ∀ x ∈ pk, x < 256)
    (hlen : pk.length = 32 + 32 * p.k * blqd) (hcfg : p.pkLen = 32 + 32 * p.k * blqd) :
    ∃ d : PkParts, pkDecode m p pk = .ok (some d) ∧ (d.rho, d.t1) = Spec.pkDecode p.k pk :=
  pkDecode_is_algorithm_23 m p pk hb hlen hcfg

theorem hint_bit_unpack_is_HintBitUnpack (m : Mode) (k : Nat) (omega : Int) (y : List Nat) (hy : ∀ b ∈ y, b < 256)
    (ho : 0 ≤ omega) (hk : 1 ≤ omega.toNat + k ∧ omega.toNat + k < 256) (hlen : y.length = omega.toNat + k) :
    hintBitUnpack m k omega y = .ok (Spec.hintBitUnpack omega.toNat k y) :=
  hintBitUnpack_is_algorithm_21 m k omega y hy ho hk hlen

theorem w1_encode_is_w1Encode (m : Mode) (p : ParamSet)
    (hg : (p.gamma2 = 95232 ∧ p.w1Bits = 6) ∨ (p.gamma2 = 261888 ∧ p.w1Bits = 4)) (w1 : List Poly) (hsh : Sh p.k w1)
    (hr : ∀ q ∈ w1, ∀ x ∈ q, 0 ≤ x ∧ x ≤ (Q - 1) / (2 * p.gamma2) - 1) :
    w1Encode m p w1 p.w1Len = .ok (Spec.w1Encode p.w1Bits w1) :=
  w1Encode_is_algorithm_28 m p hg w1 hsh hr

theorem exact_w_approx_is_line_9 (aHat : List (List Poly)) (z : List Poly) (c : Poly) (t1 : List Poly) :
    wApproxS aHat z c t1 = Spec.wApprox aHat z c t1 :=
  wApproxS_is_spec aHat z c t1

/-- the standard's functions evaluated on concrete values (tests, labelled as tests): an all-zero hint section decodes to the zero hint;
    a count above omega is rejected; the zetas of the first layers -/
example : Spec.hintBitUnpack 3 2 [0, 0, 0, 0, 0] = some [List.replicate 256 0, List.replicate 256 0] := by decide +kernel
example : Spec.hintBitUnpack 3 2 [0, 0, 0, 4, 4] = none := by decide +kernel
example : Spec.zeta 1 = 4808194 ∧ Spec.zeta 2 = 3765607 ∧ Spec.zeta 3 = 3761513 ∧ Spec.zeta 255 = 7648983 := by decide +kernel

end Fips204.Props.C02
