import Fips204.Props.C08b
import Fips204.Props.C08c
import Fips204.Lemmas.SpecHintWeight
/-!
# C08 (continued) — the signature codec of the standard, as transcribed, is a bijection

`C08b` proves the two round trips for the crate's `sig_encode` / `sig_decode`; `C08c` proves that these are Algorithms 26 / 27 as written.
Together they give, about `Spec.sigEncode` / `Spec.sigDecode` alone, for each row of Table 1:

* `sigDecode_after_sigEncode_as_written` — `sigDecode(sigEncode(c~, z, h)) = (c~, z, h)` for every commitment hash of `lambda/4` bytes, every
  response in `(-gamma1, gamma1]` and every hint vector of weight at most omega;
* `sigEncode_after_sigDecode_as_written` — every byte string of signature length that `sigDecode` does not reject (`h ≠ ⊥`) is reproduced byte
  for byte by `sigEncode` of what it decodes to: no two byte strings are read as the same signature (uses: a decoded hint vector has weight at
  most omega, `spec_hintBitUnpack_weight`).
-/
namespace Fips204.Props.C08
open Fips204 Fips204.Gen Fips204.Impl

theorem sigDecode_after_sigEncode_as_written (p : ParamSet) (hp : p ∈ [ml_dsa_44, ml_dsa_65, ml_dsa_87]) (blz : Nat) (cfg : SigCfg p blz)
    (ct : List Nat) (z h : List Poly) (hcb : ∀ b ∈ ct, b < 256) (hct : ct.length = p.lambdaDiv4) (hz : Sh p.l z)
    (hzr : ∀ q ∈ z, ∀ c ∈ q, -(p.gamma1 - 1) ≤ c ∧ c ≤ p.gamma1) (hh : Sh p.k h) (hb : ∀ q ∈ h, Bin q)
    (hsum : onesAll h ≤ p.omega.toNat) :
    Spec.sigDecode p.lambdaDiv4 p.l p.k p.omega.toNat blz p.gamma1 (Spec.sigEncode blz p.gamma1 p.omega.toNat ct z h) = (ct, z, some h) := by
  have henc := sig_encode_is_sigEncode .release p blz cfg ct z h hct hz hzr hh hb hsum
  obtain ⟨hl, hbytes, hdec⟩ := signature_decodes_to_what_was_encoded .release p hp ct z h hct hz hzr hh hb hsum _ henc
  have h27 := sig_decode_is_algorithm_27 .release p blz cfg _ (hbytes hcb) hl
  rw [hdec] at h27
  have e := ok_inj h27
  simp only [] at e
  generalize Spec.sigDecode p.lambdaDiv4 p.l p.k p.omega.toNat blz p.gamma1 (Spec.sigEncode blz p.gamma1 p.omega.toNat ct z h) = d at e ⊢
  obtain ⟨d1, d2, d3⟩ := d
  cases d3 with
  | none => simp at e
  | some hh' =>
    simp only [Option.some.injEq, Prod.mk.injEq] at e
    obtain ⟨e1, e2, e3⟩ := e
    subst e1 e2 e3
    rfl

theorem sigEncode_after_sigDecode_as_written (p : ParamSet) (hp : p ∈ [ml_dsa_44, ml_dsa_65, ml_dsa_87]) (blz : Nat) (cfg : SigCfg p blz)
    (sigma : List Nat) (hb : ∀ x ∈ sigma, x < 256) (hlen : sigma.length = p.sigLen) (h : List Poly)
    (hd : (Spec.sigDecode p.lambdaDiv4 p.l p.k p.omega.toNat blz p.gamma1 sigma).2.2 = some h) :
    Spec.sigEncode blz p.gamma1 p.omega.toNat (Spec.sigDecode p.lambdaDiv4 p.l p.k p.omega.toNat blz p.gamma1 sigma).1
      (Spec.sigDecode p.lambdaDiv4 p.l p.k p.omega.toNat blz p.gamma1 sigma).2.1 h = sigma := by
  have h27 := sig_decode_is_algorithm_27 .release p blz cfg sigma hb hlen
  simp only [] at h27
  rw [hd] at h27
  have hre := signature_reencodes_to_the_same_bytes .release p hp sigma hb hlen _ _ _ h27
  obtain ⟨r, hr, hprop⟩ := sigDecode_ok .release p blz cfg sigma hb hlen
  rw [h27] at hr
  have hr' := ok_inj hr
  obtain ⟨c1, c2, c3, c4, c5⟩ := hprop _ _ _ hr'.symm
  have hw : onesAll h ≤ p.omega.toNat := by
    have : Spec.hintBitUnpack p.omega.toNat p.k (sigma.drop (p.lambdaDiv4 + p.l * (32 * blz))) = some h := hd
    exact spec_hintBitUnpack_weight _ _ _ _ this
  have henc := sig_encode_is_sigEncode .release p blz cfg _ _ h c1 ⟨c2, fun q hq => (c3 q hq).1⟩ (fun q hq => (c3 q hq).2)
    ⟨c4, fun q hq => (c5 q hq).1⟩ c5 hw
  rw [henc] at hre
  exact ok_inj hre

end Fips204.Props.C08
