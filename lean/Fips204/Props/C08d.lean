import Fips204.Props.C08b
import Fips204.Props.C08c
import Fips204.Lemmas.SpecHintWeight
/-!
# C08 (continued) — the signature codec of the standard, as transcribed, is a bijection

`C08b` proves the two round trips for the crate's `sig_encode` / `sig_decode`; `C08c` proves that these are Algorithms 26 / 27 as written.
Together they give, about `Spec.sigEncode` / `Spec.sigDecode` alone, for each row of Table 1:

* `sigDecode_after_sigEncode_as_written` — `sigDecode(sigEncode(c~, z, h)) = (c~, z, h)` for every commitment hash of `lambda/4` bytes, every
  response in `(-gamma1, gamma1]` and every hint vector of weight at most omega;
* `sigEncode_after_sigDecode_as_written` — every byte string of signature length that `sigDecode` does not reject (`h ≠ ⊥`) is reproduced byte
  for byte by `sigEncode` of what it decodes to: no two byte strings are read as the same signature (uses: a decoded hint vector has weight at
  most omega, `spec_hintBitUnpack_weight`).
-/
namespace Fips204.Props.C08
open Fips204 Fips204.Gen Fips204.Impl

/-- **`HintBitUnpack(HintBitPack(h)) = h`** on `Spec/*` alone: for every vector of `k` 0/1 polynomials with at most `omega` ones (`omega + k < 256`,
    as in all three parameter sets) -/
theorem hintBitUnpack_after_hintBitPack_as_written (omega k : Nat) (h : List Poly) (hok : 1 ≤ omega + k ∧ omega + k < 256)
    (hl : h.length = k) (hb : ∀ q ∈ h, Bin q) (hsum : onesAll h ≤ omega) :
    Spec.hintBitUnpack omega k (Spec.hintBitPack omega h) = some h := by
  have ho : (0 : Int) ≤ (omega : Int) := Int.natCast_nonneg _
  have hto : ((omega : Int)).toNat = omega := Int.toNat_natCast omega
  have h20 := hint_bit_pack_is_HintBitPack .release (omega : Int) h k ho hl (by rw [hto]; exact hok) hb (by rw [hto]; exact hsum)
  rw [hto] at h20
  have ey : Spec.hintBitPack omega h = yOf omega h := by
    have := hintBitPack_eq_yOf .release k (omega : Int) h ho (by rw [hto]; exact hok) hl hb (by rw [hto]; exact hsum) _ (by rw [hto]; exact h20)
    rw [hto] at this
    exact this
  obtain ⟨hlen, hbytes, hdec⟩ := hintBitUnpack_yOf .release k (omega : Int) h ho (by rw [hto]; exact hok) hl hb (by rw [hto]; exact hsum)
  rw [hto] at hlen hbytes hdec
  have h21 := hint_bit_unpack_is_algorithm_21 .release k (omega : Int) (yOf omega h) hbytes ho (by rw [hto]; exact hok) (by rw [hto]; exact hlen)
  rw [hto] at h21
  rw [hdec] at h21
  rw [ey]
  exact (ok_inj h21).symm

/-- **`HintBitPack(HintBitUnpack(y)) = y`** on `Spec/*` alone: every hint section Algorithm 21 does not reject is the canonical encoding of what
    it decodes to -/
theorem hintBitPack_after_hintBitUnpack_as_written (omega k : Nat) (y : List Nat) (hok : 1 ≤ omega + k ∧ omega + k < 256)
    (hy : ∀ b ∈ y, b < 256) (hlen : y.length = omega + k) (h : List Poly) (hd : Spec.hintBitUnpack omega k y = some h) :
    Spec.hintBitPack omega h = y := by
  have ho : (0 : Int) ≤ (omega : Int) := Int.natCast_nonneg _
  have hto : ((omega : Int)).toNat = omega := Int.toNat_natCast omega
  have h21 := hint_bit_unpack_is_algorithm_21 .release k (omega : Int) y hy ho (by rw [hto]; exact hok) (by rw [hto]; exact hlen)
  rw [hto, hd] at h21
  have hre := hint_section_reencodes_to_the_same_bytes .release k (omega : Int) y hy ho (by rw [hto]; exact hok) (by rw [hto]; exact hlen) h h21
  -- the decoded vector is well-formed: k polynomials of 0/1 coefficients, at most omega ones
  obtain ⟨r, hr, hprop⟩ := hintBitUnpack_ok .release k (omega : Int) y hy ho (by rw [hto]; exact hok) (by rw [hto]; exact hlen)
  rw [h21] at hr
  have hr' := ok_inj hr
  obtain ⟨hl, hb⟩ := hprop h hr'.symm
  have hw := spec_hintBitUnpack_weight omega k y h hd
  have h20 := hint_bit_pack_is_HintBitPack .release (omega : Int) h k ho hl (by rw [hto]; exact hok) (fun q hq => (hb q hq).1) (by rw [hto]; exact hw)
  rw [hto] at h20 hre
  rw [h20] at hre
  exact ok_inj hre

theorem sigDecode_after_sigEncode_as_written (p : ParamSet) (hp : p ∈ [ml_dsa_44, ml_dsa_65, ml_dsa_87]) (blz : Nat) (cfg : SigCfg p blz)
    (ct : List Nat) (z h : List Poly) (hcb : ∀ b ∈ ct, b < 256) (hct : ct.length = p.lambdaDiv4) (hz : Sh p.l z)
    (hzr : ∀ q ∈ z, ∀ c ∈ q, -(p.gamma1 - 1) ≤ c ∧ c ≤ p.gamma1) (hh : Sh p.k h) (hb : ∀ q ∈ h, Bin q)
    (hsum : onesAll h ≤ p.omega.toNat) :
    Spec.sigDecode p.lambdaDiv4 p.l p.k p.omega.toNat blz p.gamma1 (Spec.sigEncode blz p.gamma1 p.omega.toNat ct z h) = (ct, z, some h) := by
  have henc := sig_encode_is_sigEncode .release p blz cfg ct z h hct hz hzr hh hb hsum
  obtain ⟨hl, hbytes, hdec⟩ := signature_decodes_to_what_was_encoded .release p hp ct z h hct hz hzr hh hb hsum _ henc
  have h27 := sig_decode_is_algorithm_27 .release p blz cfg _ (hbytes hcb) hl
  rw [hdec] at h27
  have e := ok_inj h27
  simp only [] at e
  generalize Spec.sigDecode p.lambdaDiv4 p.l p.k p.omega.toNat blz p.gamma1 (Spec.sigEncode blz p.gamma1 p.omega.toNat ct z h) = d at e ⊢
  obtain ⟨d1, d2, d3⟩ := d
  cases d3 with
  | none => simp at e
  | some hh' =>
    simp only [Option.some.injEq, Prod.mk.injEq] at e
    obtain ⟨e1, e2, e3⟩ := e
    subst e1 e2 e3
    rfl

theorem sigEncode_after_sigDecode_as_written (p : ParamSet) (hp : p ∈ [ml_dsa_44, ml_dsa_65, ml_dsa_87]) (blz : Nat) (cfg : SigCfg p blz)
    (sigma : List Nat) (hb : ∀ x ∈ sigma, x < 256) (hlen : sigma.length = p.sigLen) (h : List Poly)
    (hd : (Spec.sigDecode p.lambdaDiv4 p.l p.k p.omega.toNat blz p.gamma1 sigma).2.2 = some h) :
    Spec.sigEncode blz p.gamma1 p.omega.toNat (Spec.sigDecode p.lambdaDiv4 p.l p.k p.omega.toNat blz p.gamma1 sigma).1
      (Spec.sigDecode p.lambdaDiv4 p.l p.k p.omega.toNat blz p.gamma1 sigma).2.1 h = sigma := by
  have h27 := sig_decode_is_algorithm_27 .release p blz cfg sigma hb hlen
  simp only [] at h27
  rw [hd] at h27
  have hre := signature_reencodes_to_the_same_bytes .release p hp sigma hb hlen _ _ _ h27
  obtain ⟨r, hr, hprop⟩ := sigDecode_ok .release p blz cfg sigma hb hlen
  rw [h27] at hr
  have hr' := ok_inj hr
  obtain ⟨c1, c2, c3, c4, c5⟩ := hprop _ _ _ hr'.symm
  have hw : onesAll h ≤ p.omega.toNat := by
    have : Spec.hintBitUnpack p.omega.toNat p.k (sigma.drop (p.lambdaDiv4 + p.l * (32 * blz))) = some h := hd
    exact spec_hintBitUnpack_weight _ _ _ _ this
  have henc := sig_encode_is_sigEncode .release p blz cfg _ _ h c1 ⟨c2, fun q hq => (c3 q hq).1⟩ (fun q hq => (c3 q hq).2)
    ⟨c4, fun q hq => (c5 q hq).1⟩ c5 hw
  rw [henc] at hre
  exact ok_inj hre

/-- **no two signature strings are read as the same signature by Algorithm 27**: two byte strings of signature length that are both accepted and
    decode to the same `(c~, z, h)` are equal -/
theorem sigDecode_injective_as_written (p : ParamSet) (hp : p ∈ [ml_dsa_44, ml_dsa_65, ml_dsa_87]) (blz : Nat) (cfg : SigCfg p blz)
    (s1 s2 : List Nat) (hb1 : ∀ x ∈ s1, x < 256) (hl1 : s1.length = p.sigLen) (hb2 : ∀ x ∈ s2, x < 256) (hl2 : s2.length = p.sigLen)
    (h : List Poly) (hd1 : (Spec.sigDecode p.lambdaDiv4 p.l p.k p.omega.toNat blz p.gamma1 s1).2.2 = some h)
    (he : Spec.sigDecode p.lambdaDiv4 p.l p.k p.omega.toNat blz p.gamma1 s1 = Spec.sigDecode p.lambdaDiv4 p.l p.k p.omega.toNat blz p.gamma1 s2) :
    s1 = s2 := by
  have e1 := sigEncode_after_sigDecode_as_written p hp blz cfg s1 hb1 hl1 h hd1
  have e2 := sigEncode_after_sigDecode_as_written p hp blz cfg s2 hb2 hl2 h (by rw [← he]; exact hd1)
  rw [← e1, ← e2, he]

end Fips204.Props.C08
