import Fips204.Lemmas.SpecSign
import Fips204.Props.C03b
/-!
# C03 (continued) — `sign_internal` is FIPS 204 Algorithm 7 **as the standard writes it**, from the private-key bytes

`Spec.signInternal` (`Spec/MlDsa.lean`) transcribes Algorithm 7 line by line on top of `Spec/{Codec,Sample,Ntt}` and mentions nothing of
the crate: `ExpandA`; `mu`, `rho''`; the loop over `kappa` of `ExpandMask`, `w = NTT^-1(A_hat ∘ NTT(y))`, `HighBits`, the commitment hash,
`SampleInBall`, `NTT^-1(c_hat ∘ NTT(s))` for `s1`, `s2`, `t0`, `LowBits`, the four rejection conditions, `MakeHint`; `sigEncode` of
`(c~, z mod± q, h)`.  `Spec.skDecode` is Algorithm 25.  XOF streams are read through a finite prefix (`none` when it runs out; the model then
reports the model-only outcome `Fault.fuel`, see `AgreesSig`), and the loop takes an explicit attempt budget.

* `sign_internal_is_Sign_internal_as_written` — for each parameter set, every byte string of private-key length that deserialisation accepts,
  every formatted message (three entry paths), every `rnd`, in both build modes and within `fuel * l ≤ 65535` attempts (the crate's 16-bit
  counter; C13c): the crate's `sign_internal` on the struct `expand_private` built returns exactly the signature
  `Spec.signInternal` computes from `Spec.skDecode` of the bytes.  One property of SHAKE256 is used (`OraclePrefix`: asking for fewer bytes
  gives a prefix); everything else is arithmetic.
-/
namespace Fips204.Props.C03
open Fips204 Fips204.Gen Fips204.Impl

theorem sign_internal_is_Sign_internal_as_written (m : Mode) (O : Oracles) (hO : OracleOk O) (hP : OraclePrefix O)
    (p : ParamSet) (hp : p ∈ [ml_dsa_44, ml_dsa_65, ml_dsa_87]) (fuel : Nat) (hfuel : fuel * p.l ≤ 65535)
    (skb : List Nat) (hb : ∀ x ∈ skb, x < 256) (hlen : skb.length = p.skLen)
    (sk : PrivateKey) (hsk : expandPrivate m p skb = .ok (some sk)) (msg ctx oid phm rnd : List Nat) (nist : Bool) :
    let d := Spec.skDecode (Spec.bitlen (2 * p.eta)) p.eta p.k p.l skb
    AgreesSig (signInternal m O CTEST_default p fuel sk msg ctx oid phm rnd nist)
      (Spec.signInternal (specParams p) O.h O.g (1680 * O.fuelScale) (8 + 1360 * O.fuelScale) fuel
        d.1 d.2.1 d.2.2.1 d.2.2.2.1 d.2.2.2.2.1 d.2.2.2.2.2 (Spec.formatted nist msg ctx oid phm) rnd) := by
  obtain ⟨blz, cfg, hk, he4⟩ := C13.signCfg_of_mem p hp
  obtain ⟨bl, he, hbl, hcfg⟩ := Fips204.Props.C10.sk_config m p hp
  have hbs : Spec.bitlen (2 * p.eta) = bl := by
    have b3 : bitLen m (2 * 2) = .ok 3 := of_toOption _ _ (by cases m <;> decide +kernel)
    have b4 : bitLen m (2 * 4) = .ok 4 := of_toOption _ _ (by cases m <;> decide +kernel)
    rcases he with h | h <;> rw [h] at hbl ⊢
    · rw [b3] at hbl; have := ok_inj hbl; subst this; decide
    · rw [b4] at hbl; have := ok_inj hbl; subst this; decide
  rw [hbs]
  have hok := expandPrivate_skok m p he4 skb sk hsk
  have hdec := skDecode_is_algorithm_25 m p skb hb he bl hbl (by rw [hlen, hcfg]) hlen.symm
  unfold expandPrivate at hsk
  obtain ⟨r, hr, h⟩ := bind_ok_inv hsk
  cases r with
  | none => rw [pure_eq] at h; have := ok_inj h; simp at this
  | some d =>
    simp only [] at h
    obtain ⟨a1, h1, h⟩ := bind_ok_inv h
    obtain ⟨a2, h2, h⟩ := bind_ok_inv h
    obtain ⟨a0, h0, h⟩ := bind_ok_inv h
    rw [pure_eq] at h
    have e := ok_inj h
    simp only [Option.some.injEq] at e
    subst e
    obtain ⟨_, sh1, sh2, sh0⟩ := skDecode_sh m p skb d hr
    obtain ⟨r1, r2, r0⟩ := C10.skDecode_accepts_only_in_range m p skb d ⟨he4.1, by omega⟩ hr
    have ht : top = 4096 := by decide
    rw [hr] at hdec
    have hd := ok_inj hdec
    simp only [] at hd
    split at hd
    · simp only [Option.some.injEq] at hd
      subst hd
      intro d'
      have hspec := signSpec_is_algorithm_7 m O hO hP p blz cfg hk he fuel hfuel _ _ _ _
        ⟨hok.rho, ⟨sh1, r1⟩, ⟨sh2, r2⟩, ⟨sh0, fun q hq x hx => by have := r0 q hq x hx; rw [ht] at this; omega⟩, h1, h2, h0⟩
        hok msg ctx oid phm rnd nist
      have himpl := signInternal_eq_spec m O hO p blz cfg hk he fuel hfuel _ _ _ _
        ⟨hok.rho, ⟨sh1, r1⟩, ⟨sh2, r2⟩, ⟨sh0, fun q hq x hx => by have := r0 q hq x hx; rw [ht] at this; omega⟩, h1, h2, h0⟩
        hok msg ctx oid phm rnd nist
      have hc : CTEST_default = false := rfl
      rw [hc, himpl]
      exact hspec
    · simp at hd

/-- the statement is about signatures that exist (a test, labelled as a test): the hypotheses are those of `signing_is_algorithm_7`,
    whose non-vacuity is shown in `Props/C03b`; the three parameter sets meet the configuration facts used -/
example : VerCfg ml_dsa_44 18 ∧ VerCfg ml_dsa_65 20 ∧ VerCfg ml_dsa_87 20 := ⟨verCfg_44, verCfg_65, verCfg_87⟩

end Fips204.Props.C03
