import Fips204.Lemmas.Kernels2
import Fips204.Props.C06
/-!
# C05 — any single-bit change invalidates a signature (strong binding)

`C05_full` (every one-bit change of sig / M / ctx / pk is rejected) is not a theorem about any hash
function.  Proved parts, for all inputs and all oracles:
* a change of message, context or mode changes the hashed input `tr ‖ M'` (C06), so acceptance of both
  tuples is an explicit SHAKE256 (or pre-hash) collision;
* a changed hint bit always changes the reconstructed commitment coefficient: `UseHint(1, r) ≠ UseHint(0, r)`
  for every `r` and both parameter values - so a flip inside the hint section that still decodes changes `w1'`;
* strict hint decoding leaves no slack (see C08).
Flips inside `c~` and `z` are decided by exhaustive flip runs on the crate (exploration, labelled as such).
-/
namespace Fips204.Props.C05
open Fips204 Fips204.Gen Fips204.K

/-- a hint bit always matters: UseHint with h = 1 never equals UseHint with h = 0 -/
theorem useHint_flip (g r : Int) (hg : g = 95232 ∨ g = 261888) : Spec.useHint g 1 r ≠ Spec.useHint g 0 r := by
  rcases hg with rfl | rfl
  · have hr := spec_decompose_r1_44 r
    unfold Spec.useHint
    simp only [Q]
    generalize Spec.decompose 95232 r = d at *
    obtain ⟨r1, r0⟩ := d
    dsimp only at *
    have e : ((8380417:Int) - 1) / (2 * 95232) = 44 := by decide
    simp only [e, show ((1:Int) = 1) = True by simp, true_and, show ((0:Int) = 1) = False by simp, false_and, if_false]
    by_cases h0 : r0 > 0
    · simp only [h0, if_true]; omega
    · have : r0 ≤ 0 := by omega
      simp only [h0, if_false, this, if_true]; omega
  · have hr := spec_decompose_r1_65 r
    unfold Spec.useHint
    simp only [Q]
    generalize Spec.decompose 261888 r = d at *
    obtain ⟨r1, r0⟩ := d
    dsimp only at *
    have e : ((8380417:Int) - 1) / (2 * 261888) = 16 := by decide
    simp only [e, show ((1:Int) = 1) = True by simp, true_and, show ((0:Int) = 1) = False by simp, false_and, if_false]
    by_cases h0 : r0 > 0
    · simp only [h0, if_true]; omega
    · have : r0 ≤ 0 := by omega
      simp only [h0, if_false, this, if_true]; omega

/-- the reconstructed commitment coefficient is always a valid `w1` symbol (what `w1Encode` packs) -/
theorem useHint_range (g h r : Int) (hg : g = 95232 ∨ g = 261888) :
    0 ≤ Spec.useHint g h r ∧ Spec.useHint g h r < (Q - 1) / (2 * g) := by
  rcases hg with rfl | rfl
  · have hr := spec_decompose_r1_44 r
    unfold Spec.useHint
    simp only [Q]
    generalize Spec.decompose 95232 r = d at *
    obtain ⟨r1, r0⟩ := d
    dsimp only at *
    have e : ((8380417:Int) - 1) / (2 * 95232) = 44 := by decide
    simp only [e]
    repeat' split
    all_goals omega
  · have hr := spec_decompose_r1_65 r
    unfold Spec.useHint
    simp only [Q]
    generalize Spec.decompose 261888 r = d at *
    obtain ⟨r1, r0⟩ := d
    dsimp only at *
    have e : ((8380417:Int) - 1) / (2 * 261888) = 16 := by decide
    simp only [e]
    repeat' split
    all_goals omega

/-- message / context / mode changes reach the hash: restated from C06 for this property -/
theorem changed_interpretation_changes_hash_input (O : Impl.Oracles) (tr : List Nat) (i j : C06.Interp) (hne : i ≠ j)
    (hnc : ¬ C06.PrehashCollision O i j) : tr ++ i.fmt O ≠ tr ++ j.fmt O := by
  intro h
  exact hnc (C06.different_interpretations_format_differently O i j hne (List.append_cancel_left h))

end Fips204.Props.C05
