import Fips204.Gen.Types
import Fips204.Gen.Consts
/-!
# C16 — key material is erased when keys are dropped

Thin model (level `other`): the declaration inventory `Gen.typeDecls` (regenerated from `src/types.rs`)
plus layout arithmetic.  Inside the model: every struct reachable from the two key types derives `Zeroize`
and `ZeroizeOnDrop`, skips no field, has only `u8` / `i32` / struct-array leaves, and for all `K, L` the
declared fields tile the object exactly (size = sum of field sizes, a multiple of the alignment 8), so every
byte offset belongs to a field that the derived drop glue overwrites.  *Not modelled*: that the `zeroize`
derive and crate do what they document and that the compiler keeps the volatile writes - that part is observed
on every run (`drop_check`: all `size_of` bytes read back after an in-place drop).
-/
namespace Fips204.Props.C16
open Fips204.Gen

def lookup (n : String) : Option TypeDecl := typeDecls.find? (fun d => d.name == n)

/-- a field's element type is a primitive or a declared struct -/
def leafOk (f : FieldDecl) : Bool := f.ty == "u8" || f.ty == "i32" || (lookup f.ty).isSome

/-- a type erases all of itself on drop (as far as declarations can tell) -/
def erases (d : TypeDecl) : Bool :=
  d.derives.contains "Zeroize" && d.derives.contains "ZeroizeOnDrop" && d.fields.all (fun f => !f.skip && leafOk f)

/-- structs reachable from the two key types -/
def reachable : List String := ["PrivateKey", "PublicKey", "T", "R"]

theorem all_reachable_types_erase :
    reachable.all (fun n => match lookup n with | some d => erases d | none => false) = true := by decide

/-- every struct mentioned by a field of a reachable struct is itself in the reachable list (closure) -/
theorem reachable_closed :
    reachable.all (fun n => match lookup n with
      | some d => d.fields.all (fun f => f.ty == "u8" || f.ty == "i32" || reachable.contains f.ty)
      | none => false) = true := by decide

/-- size of an element type in bytes -/
def elemSize : String → Nat
  | "u8" => 1 | "i32" => 4 | "T" => 1024 | "R" => 1024 | _ => 0

def countOf (k l : Nat) (f : FieldDecl) : Nat :=
  if f.countVar == "K" then k else if f.countVar == "L" then l else f.countLit

/-- sum of the declared field sizes for concrete K, L -/
def fieldsSize (d : TypeDecl) (k l : Nat) : Nat := (d.fields.map (fun f => elemSize f.ty * countOf k l f)).foldl (· + ·) 0

/-- layout: for every K, L the fields of the key structs tile a multiple of the alignment: there is no padding byte
    anywhere (so "every field is zeroed" is "every byte is zeroed"), and the totals are the expected closed forms -/
theorem private_key_layout (k l : Nat) :
    (lookup "PrivateKey").map (fun d => fieldsSize d k l) = some (128 + 1024 * (l + 2 * k)) ∧ (128 + 1024 * (l + 2 * k)) % 8 = 0 := by
  refine ⟨?_, by omega⟩
  simp only [lookup, typeDecls, List.find?, fieldsSize, elemSize, countOf]
  simp
  omega

theorem public_key_layout (k l : Nat) :
    (lookup "PublicKey").map (fun d => fieldsSize d k l) = some (96 + 1024 * k) ∧ (96 + 1024 * k) % 8 = 0 := by
  refine ⟨?_, by omega⟩
  simp only [lookup, typeDecls, List.find?, fieldsSize, elemSize, countOf]
  simp
  try omega

theorem poly_layout : (lookup "T").map (fun d => fieldsSize d 0 0) = some 1024 ∧ (lookup "R").map (fun d => fieldsSize d 0 0) = some 1024 := by
  decide

/-- the expected object sizes for the three parameter sets (compared with `size_of` observed on the crate) -/
theorem expected_sizes :
    [ml_dsa_44, ml_dsa_65, ml_dsa_87].map (fun p => (128 + 1024 * (p.l + 2 * p.k), 96 + 1024 * p.k)) =
      [(12416, 4192), (17536, 6240), (23680, 8288)] := by decide

end Fips204.Props.C16
