import Fips204.Impl.MlDsa
import Fips204.Impl.Legacy
import Fips204.Lemmas.Arith
/-!
# C10 — malformed private keys are rejected at deserialisation

Proved for all byte strings (repaired tree): whatever `bit_unpack` *accepts* has every coefficient in
`[-a, b]`; hence every private key that `sk_decode` / `expand_private` accepts has all `s1`, `s2`
coefficients in `[-eta, eta]` and all `t0` coefficients in `[-2^12+1, 2^12]` - exactly the ranges the
serialiser's own self-check (`sk_encode`'s `debug_assert!`s) demands.  The pinned tree's definition is
refuted by a concrete accepted key field (F1).  The converse (every in-range string is accepted) is
decided by differential execution over every out-of-range field value and position class.
-/
namespace Fips204.Props.C10
open Fips204 Fips204.Gen Fips204.Impl

theorem isInRange_spec (m : Mode) (w : Poly) (lo hi : Int) (hlo : -2147483647 ≤ lo) (hlo2 : lo ≤ 2147483648)
    (h : isInRange m w lo hi = .ok true) : ∀ c ∈ w, -lo ≤ c ∧ c ≤ hi := by
  unfold isInRange at h
  rw [arith_i32 _ _ _ (by omega) (by omega)] at h
  simp only [ok_bind, pure_eq, Except.ok.injEq, List.all_eq_true, Bool.and_eq_true, decide_eq_true_eq, ge_iff_le] at h
  exact h

/-- whatever `bit_unpack` accepts lies in `[-a, b]` -/
theorem bitUnpack_accepts_only_in_range (m : Mode) (v : List Nat) (a b : Int) (w : Poly)
    (ha : 0 ≤ a) (ha2 : a ≤ 2147483647)
    (h : bitUnpack m v a b = .ok (some w)) : ∀ c ∈ w, -a ≤ c ∧ c ≤ b := by
  unfold bitUnpack at h
  simp only [bind, Except.bind] at h
  repeat (split at h; · simp [pure, Except.pure, throw, throwThe, MonadExceptOf.throw] at h)
  rename_i hin
  split at h
  · rename_i hok
    simp only [pure, Except.pure, Except.ok.injEq, Option.some.injEq] at h
    subst h
    rw [hok] at hin
    exact isInRange_spec m _ a b (by omega) (by omega) hin
  · simp [pure, Except.pure] at h

theorem unpackMany_in_range (m : Mode) (site : String) (bytes : List Nat) (start step : Nat) (a b : Int)
    (ha : 0 ≤ a) (ha2 : a ≤ 2147483647) :
    ∀ (is : List Nat) (acc res : List Poly), (∀ p ∈ acc, ∀ c ∈ p, -a ≤ c ∧ c ≤ b) →
      unpackMany m site bytes start step a b is acc = .ok (some res) → ∀ p ∈ res, ∀ c ∈ p, -a ≤ c ∧ c ≤ b := by
  intro is
  induction is with
  | nil =>
    intro acc res hacc h
    simp only [unpackMany, pure, Except.pure, Except.ok.injEq, Option.some.injEq] at h
    subst h
    intro p hp; exact hacc p (List.mem_reverse.mp hp)
  | cons i is ih =>
    intro acc res hacc h
    simp only [unpackMany, bind, Except.bind] at h
    repeat (split at h; · simp [pure, Except.pure, throw, throwThe, MonadExceptOf.throw] at h)
    rename_i _ _ t hu
    refine ih (t :: acc) res ?_ h
    intro p hp
    rcases List.mem_cons.mp hp with rfl | hp
    · exact bitUnpack_accepts_only_in_range m _ a b _ ha ha2 hu
    · exact hacc p hp

/-- every private key accepted by `sk_decode` has s1, s2 in [-eta, eta] and t0 in [-2^12+1, 2^12] -/
theorem skDecode_accepts_only_in_range (m : Mode) (p : ParamSet) (skb : List Nat) (s : SkParts)
    (he : 0 ≤ p.eta ∧ p.eta ≤ 2147483647) (h : skDecode m p skb = .ok (some s)) :
    (∀ q ∈ s.s1, ∀ c ∈ q, -p.eta ≤ c ∧ c ≤ p.eta) ∧ (∀ q ∈ s.s2, ∀ c ∈ q, -p.eta ≤ c ∧ c ≤ p.eta) ∧
    (∀ q ∈ s.t0, ∀ c ∈ q, -(top - 1) ≤ c ∧ c ≤ top) := by
  unfold skDecode at h
  simp only [bind, Except.bind] at h
  repeat (split at h; · simp [pure, Except.pure, throw, throwThe, MonadExceptOf.throw] at h)
  simp only [pure, Except.pure, Except.ok.injEq, Option.some.injEq] at h
  subst h
  have htop : (0:Int) ≤ top - 1 ∧ top - 1 ≤ 2147483647 := by decide
  exact ⟨unpackMany_in_range m _ _ _ _ _ _ he.1 he.2 _ [] _ (by simp) (by assumption),
         unpackMany_in_range m _ _ _ _ _ _ he.1 he.2 _ [] _ (by simp) (by assumption),
         unpackMany_in_range m _ _ _ _ _ _ htop.1 htop.2 _ [] _ (by simp) (by assumption)⟩

/-- **F1 (pinned tree), machine-checked**: the pinned `bit_unpack` accepts an `s1` field encoding 7, i.e. the
    coefficient -5 < -eta = -2 (first byte 0x07 of a 96-byte, 3-bits-per-coefficient block) -/
theorem legacy_accepts_out_of_range :
    ((Legacy.bitUnpack .checked (7 :: List.replicate 95 0) 2 2).toOption.bind id).map (fun w => w.head!) = some (-5) := by
  decide +kernel

/-- ... and the repaired definition rejects the same block -/
theorem repaired_rejects_it : (bitUnpack .checked (7 :: List.replicate 95 0) 2 2).toOption = some none := by
  decide +kernel


end Fips204.Props.C10
