import Fips204.Lemmas.SpecEncode
import Fips204.Props.C10b
/-!
# C10 (continued) — private-key deserialisation is FIPS 204 Algorithm 25 **as the standard writes it**, plus the range check

`Spec.skDecode` (`Spec/Codec.lean`) transcribes Algorithm 25 on the bit-string `BitUnpack` of Algorithm 19 and mentions nothing of the crate.
The standard remarks that for input that does not come from a trusted source `s1`, `s2` may fall outside `[-eta, eta]` and must be checked.

* `sk_decode_is_skDecode_with_the_range_check` — for every byte string of private-key length (eta in {2, 4}), in both build modes and never
  with a fault: `sk_decode` returns `Ok` **iff** every coefficient of the standard's `s1` and `s2` lies in `[-eta, eta]`, and then returns
  exactly the standard's `(rho, K, tr, s1, s2, t0)`.

This is the literal-specification counterpart of `sk_decode_accepts_exactly_the_in_range_keys` (C10b, stated on packed fields).
-/
namespace Fips204.Props.C10
open Fips204 Fips204.Gen Fips204.Impl

theorem sk_decode_is_skDecode_with_the_range_check (m : Mode) (p : ParamSet) (skb : List Nat) (hb : ∀ x ∈ skb, x < 256)
    (he : p.eta = 2 ∨ p.eta = 4) (bl : Nat) (hbl : bitLen m (2 * p.eta) = .ok bl)
    (hlen : skb.length = 128 + 32 * ((p.k + p.l) * bl + D.toNat * p.k)) (hcfg : p.skLen = skb.length) :
    skDecode m p skb = .ok (
      let d := Spec.skDecode bl p.eta p.k p.l skb
      if Spec.allInRange p.eta p.eta d.2.2.2.1 && Spec.allInRange p.eta p.eta d.2.2.2.2.1
      then some { rho := d.1, key := d.2.1, tr := d.2.2.1, s1 := d.2.2.2.1, s2 := d.2.2.2.2.1, t0 := d.2.2.2.2.2 } else none) :=
  skDecode_is_algorithm_25 m p skb hb he bl hbl hlen hcfg

/-- the hypotheses hold for the three parameter sets (configuration facts, by evaluation) -/
example (m : Mode) (p : ParamSet) (hp : p ∈ [ml_dsa_44, ml_dsa_65, ml_dsa_87]) :
    ∃ bl, (p.eta = 2 ∨ p.eta = 4) ∧ bitLen m (2 * p.eta) = .ok bl ∧ p.skLen = 128 + 32 * ((p.k + p.l) * bl + D.toNat * p.k) :=
  sk_config m p hp

/-- the standard's `BitUnpack` on a field above `2 eta` gives a coefficient below `-eta` (a test, labelled as a test): field 7, eta = 2 -/
example : (Spec.bitUnpack 3 2 ([7] ++ List.replicate 95 0)).head? = some (-5) := by decide +kernel

end Fips204.Props.C10
