import Fips204.Impl.Api
import Fips204.Spec.Format
import Fips204.Lemmas.Arith
import Fips204.Props.C12
/-!
# C03 — signatures are byte-identical to FIPS 204 Sign for the drawn rnd

Proved here (for all inputs and all oracles): the *external* layer - context guard, one 32-byte draw,
and the formatted message M' with its domain byte, one-byte context length, OID table and digest
lengths - is exactly Algorithms 2 and 4 around `signInternal`; and the signature is a function of
(private key, message, context, mode, rnd) only.  Not proved: `signInternal` = Algorithm 7 line by line
(`C03_full` below); that part is decided by differential execution against the Python transcription
of FIPS 204 and against the Lean model (see DESIGN 5 C03).
-/
namespace Fips204.Props.C03
open Fips204 Fips204.Gen Fips204.Impl

/-- the message representative of the pure path hashes `tr ‖ M'` with M' of Algorithm 2 line 10 -/
theorem mu_pure_is_fips (O : Oracles) (tr msg ctx : List Nat) (h : ctx.length ≤ 255) :
    muOf O domPure_sign domHash_sign tr msg ctx [] [] false = O.h (tr ++ Spec.fmtPure ctx msg) 64 := by
  simp only [muOf, Spec.fmtPure, ctxLenByte, show domPure_sign = 0 by decide, List.isEmpty_nil, if_true,
    Bool.false_eq_true, if_false, Nat.mod_eq_of_lt (show ctx.length < 256 by omega), List.append_assoc]

/-- the message representative of the pre-hash path hashes `tr ‖ M'` with M' of Algorithm 4 line 23 -/
theorem mu_hash_is_fips (O : Oracles) (tr msg ctx oid phm : List Nat) (h : ctx.length ≤ 255) (ho : oid ≠ []) :
    muOf O domPure_sign domHash_sign tr msg ctx oid phm false = O.h (tr ++ Spec.fmtHash ctx oid phm) 64 := by
  have : oid.isEmpty = false := by cases oid <;> simp_all
  simp only [muOf, Spec.fmtHash, ctxLenByte, show domHash_sign = 1 by decide, this,
    Bool.false_eq_true, if_false, Nat.mod_eq_of_lt (show ctx.length < 256 by omega), List.append_assoc]

/-- the verifier builds the same representative (same domain bytes and length byte on both sides) -/
theorem mu_same_on_both_sides : domPure_sign = domPure_verify ∧ domHash_sign = domHash_verify := by decide

theorem take_pad (l : List Nat) (n k : Nat) (h : l.length = n) : (l.take n ++ List.replicate k 0).take n = l := by
  have e : l.take n = l := List.take_of_length_le (by omega)
  rw [e]
  exact List.take_left' h

/-- `hash_message` is the OID / digest table of Algorithm 4 (right OID bytes, digest neither truncated nor padded) -/
theorem hashMessage_is_fips (O : Oracles) (hO : Spec.WF O) (msg : List Nat) (ph : Ph) :
    hashMessage O msg ph = Spec.prehash O msg ph := by
  cases ph
  · simp only [hashMessage, Spec.prehash, show oid_SHA256 = Spec.oidSha256 by decide,
      show phWritten_SHA256 = 32 by decide, show phLen_SHA256 = 32 by decide, take_pad _ 32 _ (hO.sha256_len msg)]
  · simp only [hashMessage, Spec.prehash, show oid_SHA512 = Spec.oidSha512 by decide,
      show phWritten_SHA512 = 64 by decide, show phLen_SHA512 = 64 by decide, take_pad _ 64 _ (hO.sha512_len msg)]
  · simp only [hashMessage, Spec.prehash, show oid_SHAKE128 = Spec.oidShake128 by decide,
      show phWritten_SHAKE128 = 32 by decide, show phLen_SHAKE128 = 32 by decide,
      List.take_left' (hO.g_len msg 32)]

/-- ML-DSA.Sign (Algorithm 2) around the internal function: for |ctx| ≤ 255 and a successful 32-byte draw -/
theorem sign_is_alg2_wrapper (m : Mode) (O : Oracles) (p : ParamSet) (fuel : Nat) (sk : PrivateKey)
    (msg ctx rnd : List Nat) (rest : List RngResp) (hc : ctx.length ≤ 255) (h : rnd.length = 32) :
    sign m O p fuel sk msg ctx (RngResp.ok rnd :: rest) =
      (do let s ← signInternal m O CTEST_default p fuel sk msg ctx [] [] rnd false; pure (.ok s, [.tryFill 32])) :=
  C12.sign_uses_all_drawn_bytes m O p fuel sk msg ctx rnd rest hc h

/-- HashML-DSA.Sign (Algorithm 4) around the internal function -/
theorem hashSign_is_alg4_wrapper (m : Mode) (O : Oracles) (p : ParamSet) (fuel : Nat) (sk : PrivateKey)
    (msg ctx rnd : List Nat) (ph : Ph) (rest : List RngResp) (hc : ctx.length ≤ 255) (h : rnd.length = 32) :
    hashSign m O p fuel sk msg ctx ph (RngResp.ok rnd :: rest) =
      (do let s ← signInternal m O CTEST_default p fuel sk msg ctx (hashMessage O msg ph).1 (hashMessage O msg ph).2 rnd false
          pure (.ok s, [.tryFill 32])) := by
  have : ((ctx.length : Int) < 256) := by omega
  unfold hashSign
  simp only [hashSignCtxGuard, pure_eq, ok_bind, this, decide_true, Bool.not_true, Bool.false_eq_true, if_false,
    show rngMethod_hashSign = "try_fill_bytes" by decide, show rngErrPropagated_hashSign = true by decide,
    show rngBytes_hashSign = 32 by decide, C12.draw_ok rnd rest h]

/-- the unused tail of the generator's script has no influence: the signature is a function of
    (sk, message, context, rnd) and of nothing else -/
theorem sign_ignores_rest_of_script (m : Mode) (O : Oracles) (p : ParamSet) (fuel : Nat) (sk : PrivateKey)
    (msg ctx rnd : List Nat) (r1 r2 : List RngResp) (hc : ctx.length ≤ 255) (h : rnd.length = 32) :
    sign m O p fuel sk msg ctx (RngResp.ok rnd :: r1) = sign m O p fuel sk msg ctx (RngResp.ok rnd :: r2) := by
  rw [sign_is_alg2_wrapper m O p fuel sk msg ctx rnd r1 hc h, sign_is_alg2_wrapper m O p fuel sk msg ctx rnd r2 hc h]

/-! Full statement (not proved here): for every accepted or generated private key, `signInternal` returns the bytes of
    FIPS 204 Algorithm 7 on `skEncode` of that key.  It needs a Lean transcription of Algorithm 7 and the refinement of
    the NTT / Montgomery pipeline (C18); in this development it is decided by differential execution against the
    Python transcription of FIPS 204 (`checks/ref/mldsa.py`), see DESIGN 5 C03. -/

/-- **the two rejection tests of the signing loop, as written in `sign_internal` (regenerated from the source on every
    run), are those of Algorithm 7 lines 23 and 28** - in particular a candidate with exactly `omega` hints is kept, one
    with `‖z‖∞ = gamma1 - beta` is rejected - and they are the tests the model's `signAttempt` applies -/
theorem sign_rejection_tests_are_algorithm_7 (zn r0n ct0n hsum g1 g2 beta omega : Int) :
    signReject1 zn r0n g1 g2 beta = (decide (zn ≥ g1 - beta) || decide (r0n ≥ g2 - beta)) ∧
    signReject2 ct0n hsum g2 omega = (decide (ct0n ≥ g2) || decide (hsum > omega)) := ⟨rfl, rfl⟩

end Fips204.Props.C03
