import Fips204.Props.C09
import Fips204.Lemmas.KeyRoundTrip
import Fips204.Props.C10b
/-!
# C09 (continued) — key bytes round-trip exactly, for every byte string

* `public_key_bytes_round_trip`: for each parameter set, **every** byte string of public-key length deserialises, and
  serialising the resulting struct returns the same bytes.
* `private_key_bytes_round_trip`: every byte string of private-key length that deserialisation accepts is returned,
  byte for byte, by serialising the resulting struct.

Both go through the NTT-domain representation the structs hold.  The proofs (`Lemmas/NttAlg`, `NttRound`,
`KeyRoundTrip`): the forward and inverse butterflies are congruent modulo q to exact-integer specifications (inside the
overflow envelopes of C18); the inverse specification undoes the forward one up to `2^d` because each forward
multiplier times the negated table entry the inverse walk pairs it with is 1 modulo q (255 pairs, kernel evaluation of
the generated table) and `F * 2^-32 * 2^8 ≡ 1`; Montgomery factors cancel; the final canonical representative is
*equal* to the original coefficient because that is small (`|s| ≤ eta`, `|t0| ≤ 2^12`, `t1 * 2^13 < q`); and the byte
codecs are mutually inverse (C08).
-/
namespace Fips204.Props.C09
open Fips204 Fips204.Gen Fips204.Impl

theorem public_key_bytes_round_trip (m : Mode) (O : Oracles) (p : ParamSet) (hp : p ∈ [ml_dsa_44, ml_dsa_65, ml_dsa_87])
    (pkb : List Nat) (hb : ∀ x ∈ pkb, x < 256) (hlen : pkb.length = p.pkLen) :
    ∃ pk, expandPublic m O p pkb = .ok (some pk) ∧ pkIntoBytes m p pk = .ok pkb := by
  have hcfg := pk_config_ok p hp
  exact pkIntoBytes_expandPublic m O p pkb hb (by rw [hlen, hcfg]) hcfg

theorem private_key_bytes_round_trip (m : Mode) (p : ParamSet) (hp : p ∈ [ml_dsa_44, ml_dsa_65, ml_dsa_87])
    (skb : List Nat) (hb : ∀ x ∈ skb, x < 256) (hlen : skb.length = p.skLen) (sk : PrivateKey)
    (h : expandPrivate m p skb = .ok (some sk)) : skIntoBytes m p sk = .ok skb := by
  obtain ⟨bl, he, hbl, hcfg⟩ := Fips204.Props.C10.sk_config m p hp
  exact skIntoBytes_expandPrivate m p skb hb he bl hbl (by rw [hlen, hcfg]) hlen.symm sk h

end Fips204.Props.C09
