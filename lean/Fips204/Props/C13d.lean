import Fips204.Props.C13c
import Fips204.Lemmas.KeygenOk
/-!
# C13 (continued) — key generation and public-key derivation never panic

* `keygen_never_panics`: seeded key generation for every seed, and RNG-driven key generation for every behaviour of the
  caller's generator, return a value in both build modes, and the keys returned are well formed (so the signing and
  verification theorems of `C13b` / `C13c` apply to them).
* `derivation_never_panics`: `private_to_public_key` on any private key deserialisation accepted; the derived public key
  is well formed.

Not covered: `into_bytes` of either key.  Its range self-checks hold only because the stored NTT-domain vectors are
transforms of in-range vectors, i.e. because the inverse transform inverts the forward one modulo q - an algebraic fact
about the NTT that is not proved here (decided by execution, C09).
-/
namespace Fips204.Props.C13
open Fips204 Fips204.Gen Fips204.Impl

theorem keyCfg_of_mem (p : ParamSet) (hp : p ∈ [ml_dsa_44, ml_dsa_65, ml_dsa_87]) :
    (p.eta = 2 ∨ p.eta = 4) ∧ p.l ≤ 7 ∧ p.pkLen = 32 + 32 * p.k * blqd := by
  simp only [List.mem_cons, List.mem_nil_iff, or_false] at hp
  rcases hp with rfl | rfl | rfl <;> exact ⟨by decide, by decide, by decide⟩

theorem keygen_never_panics (m : Mode) (O : Oracles) (hO : OracleOk O) (p : ParamSet) (hp : p ∈ [ml_dsa_44, ml_dsa_65, ml_dsa_87])
    (xi : List Nat) (script : List RngResp) :
    NoPanic (keygenFromSeed m O p xi) (GenOk m O p) ∧
    NoPanic (keygenWithRng m O p script) (fun _ => True) := by
  obtain ⟨he, hl7, hcfg⟩ := keyCfg_of_mem p hp
  refine ⟨keyGenInternal_np m O hO p he hl7 hcfg xi, ?_⟩
  unfold keygenWithRng
  obtain ⟨r, hr⟩ := draw_try_fill_ok rngErrPropagated_keygen script rngBytes_keygen
  have hm : rngMethod_keygen = "try_fill_bytes" := rfl
  rw [hm, hr, ok_bind]
  obtain ⟨o, rest, c⟩ := r
  cases o with
  | none => exact NoPanic.ok _ trivial
  | some xi' => exact (keyGenInternal_np m O hO p he hl7 hcfg xi').bind (fun s _ => NoPanic.ok _ trivial)

theorem derivation_never_panics (m : Mode) (O : Oracles) (hO : OracleOk O) (p : ParamSet) (hp : p ∈ [ml_dsa_44, ml_dsa_65, ml_dsa_87])
    (skb : List Nat) (sk : PrivateKey) (hsk : expandPrivate m p skb = .ok (some sk)) :
    NoPanic (privateToPublicKey m O p sk) (fun pk => PkOk p pk) := by
  obtain ⟨blz, cfg, hk, he⟩ := signCfg_of_mem p hp
  exact derive_np m O hO p cfg.l7 sk (expandPrivate_skok m p he skb sk hsk)

end Fips204.Props.C13
