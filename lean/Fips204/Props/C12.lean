import Fips204.Impl.Api
import Fips204.Lemmas.Arith
/-!
# C12 — RNG failure is reported, and all drawn randomness is used

The RNG protocol is the automaton of `Impl.Api.draw`; request size, method and error propagation are
`Gen.rng*` constants extracted from the three randomised entry points on every run.
-/
namespace Fips204.Props.C12
open Fips204 Fips204.Gen Fips204.Impl

/-- a script whose next response is a failure (before writing, after a partial write, or an empty script) -/
def Fails : List RngResp → Prop
  | [] => True
  | RngResp.errBefore :: _ => True
  | RngResp.errAfter _ :: _ => True
  | RngResp.ok b :: _ => b = []

/-- the source requests randomness through the fallible method, 32 bytes, and propagates the error
    (facts about the regenerated constants; a 16-byte draw, `fill_bytes`, or a dropped `?` falsify them) -/
theorem requests_are_fallible_32 :
    rngMethod_keygen = "try_fill_bytes" ∧ rngMethod_sign = "try_fill_bytes" ∧ rngMethod_hashSign = "try_fill_bytes" ∧
    rngErrPropagated_keygen = true ∧ rngErrPropagated_sign = true ∧ rngErrPropagated_hashSign = true ∧
    rngBytes_keygen = 32 ∧ rngBytes_sign = 32 ∧ rngBytes_hashSign = 32 := by decide

theorem draw_fails (script : List RngResp) (n : Nat) (h : Fails script) :
    ∃ rest, draw "try_fill_bytes" true script n = .ok (none, rest, .tryFill n) := by
  unfold draw
  match script, h with
  | [], _ => exact ⟨[], by simp [pure_eq]⟩
  | RngResp.errBefore :: r, _ => exact ⟨r, by simp [pure_eq]⟩
  | RngResp.errAfter w :: r, _ => exact ⟨r, by simp [pure_eq]⟩
  | RngResp.ok b :: r, hb => simp [Fails] at hb; subst hb; exact ⟨r, by simp [pure_eq]⟩

/-- (a) a failing generator makes key generation return `Err`, with exactly one fallible request and no key -/
theorem keygen_reports_rng_failure (m : Mode) (O : Oracles) (p : ParamSet) (script : List RngResp) (h : Fails script) :
    keygenWithRng m O p script = .ok (.error .rng, [.tryFill 32]) := by
  obtain ⟨rest, hd⟩ := draw_fails script 32 h
  unfold keygenWithRng
  simp only [show rngMethod_keygen = "try_fill_bytes" by decide, show rngErrPropagated_keygen = true by decide,
    show rngBytes_keygen = 32 by decide, hd, ok_bind, pure_eq]

theorem sign_reports_rng_failure (m : Mode) (O : Oracles) (p : ParamSet) (fuel : Nat) (sk : PrivateKey)
    (msg ctx : List Nat) (script : List RngResp) (hc : ctx.length ≤ 255) (h : Fails script) :
    sign m O p fuel sk msg ctx script = .ok (.error .rng, [.tryFill 32]) := by
  obtain ⟨rest, hd⟩ := draw_fails script 32 h
  have : ((ctx.length : Int) < 256) := by omega
  unfold sign
  simp only [signCtxGuard, pure_eq, ok_bind, this, decide_true, Bool.not_true, Bool.false_eq_true, if_false,
    show rngMethod_sign = "try_fill_bytes" by decide, show rngErrPropagated_sign = true by decide,
    show rngBytes_sign = 32 by decide, hd]

theorem hashSign_reports_rng_failure (m : Mode) (O : Oracles) (p : ParamSet) (fuel : Nat) (sk : PrivateKey)
    (msg ctx : List Nat) (ph : Ph) (script : List RngResp) (hc : ctx.length ≤ 255) (h : Fails script) :
    hashSign m O p fuel sk msg ctx ph script = .ok (.error .rng, [.tryFill 32]) := by
  obtain ⟨rest, hd⟩ := draw_fails script 32 h
  have : ((ctx.length : Int) < 256) := by omega
  unfold hashSign
  simp only [hashSignCtxGuard, pure_eq, ok_bind, this, decide_true, Bool.not_true, Bool.false_eq_true, if_false,
    show rngMethod_hashSign = "try_fill_bytes" by decide, show rngErrPropagated_hashSign = true by decide,
    show rngBytes_hashSign = 32 by decide, hd]

/-- the 32 bytes handed to the algorithm are exactly the generator's response -/
theorem draw_ok (bs : List Nat) (rest : List RngResp) (h : bs.length = 32) :
    draw "try_fill_bytes" true (RngResp.ok bs :: rest) 32 = .ok (some bs, rest, .tryFill 32) := by
  unfold draw
  have hne : bs.isEmpty = false := by cases bs <;> simp_all
  simp only [hne, pure_eq, beq_self_eq_true, if_true, Bool.false_eq_true, if_false]
  congr 3
  apply List.ext_getElem
  · simp [h]
  · intro i h1 h2
    simp only [List.getElem_map, List.getElem_range]
    have : i < bs.length := by simpa [h] using h1
    rw [Nat.mod_eq_of_lt this]; simp [this]

/-- (c) dataflow of key generation: the RNG variant is the seeded variant of the 32 bytes drawn (also C04) -/
theorem keygen_uses_all_drawn_bytes (m : Mode) (O : Oracles) (p : ParamSet) (xi : List Nat) (rest : List RngResp)
    (h : xi.length = 32) :
    keygenWithRng m O p (RngResp.ok xi :: rest) =
      (do let kp ← keygenFromSeed m O p xi; pure (.ok kp, [.tryFill 32])) := by
  unfold keygenWithRng keygenFromSeed
  simp only [show rngMethod_keygen = "try_fill_bytes" by decide, show rngErrPropagated_keygen = true by decide,
    show rngBytes_keygen = 32 by decide, draw_ok xi rest h, ok_bind]

/-- (c) dataflow of signing: the draw reaches `signInternal` unchanged as `rnd` ... -/
theorem sign_uses_all_drawn_bytes (m : Mode) (O : Oracles) (p : ParamSet) (fuel : Nat) (sk : PrivateKey)
    (msg ctx rnd : List Nat) (rest : List RngResp) (hc : ctx.length ≤ 255) (h : rnd.length = 32) :
    sign m O p fuel sk msg ctx (RngResp.ok rnd :: rest) =
      (do let s ← signInternal m O CTEST_default p fuel sk msg ctx [] [] rnd false; pure (.ok s, [.tryFill 32])) := by
  have : ((ctx.length : Int) < 256) := by omega
  unfold sign
  simp only [signCtxGuard, pure_eq, ok_bind, this, decide_true, Bool.not_true, Bool.false_eq_true, if_false,
    show rngMethod_sign = "try_fill_bytes" by decide, show rngErrPropagated_sign = true by decide,
    show rngBytes_sign = 32 by decide, draw_ok rnd rest h]

/-- ... and there it is absorbed whole into `rho'' = H(K || rnd || mu)`: two different draws give different
    hash *inputs* (that the outputs then differ is a property of SHAKE256, see `C12_full`) -/
theorem rnd_absorbed_injectively (key mu rnd rnd' : List Nat) (h : rnd.length = rnd'.length)
    (he : key ++ rnd ++ mu = key ++ rnd' ++ mu) : rnd = rnd' := by
  have h1 : rnd ++ mu = rnd' ++ mu := by
    have := he; simp only [List.append_assoc] at this; exact List.append_cancel_left this
  exact List.append_inj_left h1 h

/-- the full statement of the property's last clause, kept visible; it is a statement about the hash -/
def C12_full : Prop :=
  ∀ (m : Mode) (O : Oracles) (p : ParamSet) (fuel : Nat) (sk : PrivateKey) (msg ctx rnd rnd' : List Nat),
    rnd.length = 32 → rnd'.length = 32 → rnd ≠ rnd' → ctx.length ≤ 255 →
    sign m O p fuel sk msg ctx [RngResp.ok rnd] ≠ sign m O p fuel sk msg ctx [RngResp.ok rnd']

/-! non-vacuity -/
example : Fails [RngResp.errAfter [1, 2, 3]] := trivial
example : ¬ Fails [RngResp.ok [7]] := by simp [Fails]

end Fips204.Props.C12
