import Fips204.Props.C03
/-!
# C06 — signatures are bound to context, mode and pre-hash function

The formatted-message encoding M' (domain byte, one length byte, context, then M or OID ‖ PH(M)) is
injective on contexts of at most 255 bytes; the three OIDs are pairwise distinct and of equal length.
Hence two different interpretations (message, context, mode) of a byte string that both verify under
one key hash *different* inputs `tr ‖ M'` to the same 64-byte `mu`, or exhibit a pre-hash collision:
an explicit collision, for arbitrary oracles.
-/
namespace Fips204.Props.C06
open Fips204 Fips204.Gen Fips204.Impl

/-- the three generated OIDs are the standard's, pairwise distinct, each 11 bytes -/
theorem oids_distinct_same_length :
    oid_SHA256 = Spec.oidSha256 ∧ oid_SHA512 = Spec.oidSha512 ∧ oid_SHAKE128 = Spec.oidShake128 ∧
    oid_SHA256 ≠ oid_SHA512 ∧ oid_SHA256 ≠ oid_SHAKE128 ∧ oid_SHA512 ≠ oid_SHAKE128 ∧
    oid_SHA256.length = 11 ∧ oid_SHA512.length = 11 ∧ oid_SHAKE128.length = 11 := by decide

/-- pure-mode formatting is injective: every other split of the same bytes between context and message differs -/
theorem fmtPure_injective (ctx ctx' M M' : List Nat) (h : Spec.fmtPure ctx M = Spec.fmtPure ctx' M') :
    ctx = ctx' ∧ M = M' := by
  simp only [Spec.fmtPure, List.append_assoc, List.cons_append, List.nil_append, List.cons.injEq, true_and] at h
  obtain ⟨hl, hr⟩ := h
  have := List.append_inj hr hl
  exact this

/-- pure and pre-hash formatting never coincide (domain byte 0 versus 1), whatever the message mimics -/
theorem fmtPure_ne_fmtHash (ctx ctx' M oid phm : List Nat) : Spec.fmtPure ctx M ≠ Spec.fmtHash ctx' oid phm := by
  simp [Spec.fmtPure, Spec.fmtHash]

/-- pre-hash formatting is injective in (context, OID, digest) for OIDs of equal length -/
theorem fmtHash_injective (ctx ctx' oid oid' phm phm' : List Nat) (ho : oid.length = oid'.length)
    (h : Spec.fmtHash ctx oid phm = Spec.fmtHash ctx' oid' phm') : ctx = ctx' ∧ oid = oid' ∧ phm = phm' := by
  simp only [Spec.fmtHash, List.append_assoc, List.cons_append, List.nil_append, List.cons.injEq, true_and] at h
  obtain ⟨hl, hr⟩ := h
  obtain ⟨h1, h2⟩ := List.append_inj hr hl
  obtain ⟨h3, h4⟩ := List.append_inj h2 ho
  exact ⟨h1, h3, h4⟩

/-- an interpretation of a signed byte string -/
structure Interp where
  ctx : List Nat
  msg : List Nat
  ph : Option Ph          -- none = pure ML-DSA
  deriving DecidableEq

/-- the formatted message of an interpretation (Algorithms 2-5) -/
def Interp.fmt (O : Oracles) (i : Interp) : List Nat :=
  match i.ph with
  | none => Spec.fmtPure i.ctx i.msg
  | some ph => Spec.fmtHash i.ctx (Spec.prehash O i.msg ph).1 (Spec.prehash O i.msg ph).2

/-- a collision of the pre-hash function `ph`: two different messages with the same digest -/
def PrehashCollision (O : Oracles) (i j : Interp) : Prop :=
  ∃ ph, i.ph = some ph ∧ j.ph = some ph ∧ i.msg ≠ j.msg ∧ (Spec.prehash O i.msg ph).2 = (Spec.prehash O j.msg ph).2

theorem prehash_oid_len (O : Oracles) (M : List Nat) (ph : Ph) : (Spec.prehash O M ph).1.length = 11 := by
  cases ph <;> rfl

theorem prehash_oid_inj (O : Oracles) (M M' : List Nat) (ph ph' : Ph)
    (h : (Spec.prehash O M ph).1 = (Spec.prehash O M' ph').1) : ph = ph' := by
  cases ph <;> cases ph' <;> first | rfl | (exfalso; revert h; simp [Spec.prehash, Spec.oidSha256, Spec.oidSha512, Spec.oidShake128])

/-- **binding**: two different interpretations have different formatted messages, unless they exhibit a
    pre-hash collision.  (So if both verify against the same `mu`, `O.h` collides on `tr ‖ M'`.) -/
theorem different_interpretations_format_differently (O : Oracles) (i j : Interp) (hne : i ≠ j)
    (h : i.fmt O = j.fmt O) : PrehashCollision O i j := by
  obtain ⟨c1, m1, p1⟩ := i
  obtain ⟨c2, m2, p2⟩ := j
  cases p1 with
  | none =>
    cases p2 with
    | none =>
      simp only [Interp.fmt] at h
      obtain ⟨hc, hm⟩ := fmtPure_injective _ _ _ _ h
      subst hc hm; exact absurd rfl hne
    | some ph2 => simp only [Interp.fmt] at h; exact absurd h (fmtPure_ne_fmtHash _ _ _ _ _)
  | some ph1 =>
    cases p2 with
    | none => simp only [Interp.fmt] at h; exact absurd h.symm (fmtPure_ne_fmtHash _ _ _ _ _)
    | some ph2 =>
      simp only [Interp.fmt] at h
      obtain ⟨hc, ho, hd⟩ := fmtHash_injective _ _ _ _ _ _ (by rw [prehash_oid_len, prehash_oid_len]) h
      have hp := prehash_oid_inj O m1 m2 ph1 ph2 ho
      subst hc hp
      refine ⟨ph1, rfl, rfl, ?_, hd⟩
      intro hm; subst hm; exact hne rfl

/-- the verifier's message representative is `H(tr ‖ M')` of the interpretation it is asked about -/
theorem verifier_mu_is_fmt (O : Oracles) (hO : Spec.WF O) (tr : List Nat) (i : Interp) (h : i.ctx.length ≤ 255) :
    (match i.ph with
     | none => muOf O domPure_verify domHash_verify tr i.msg i.ctx [] [] false
     | some ph => muOf O domPure_verify domHash_verify tr i.msg i.ctx (hashMessage O i.msg ph).1 (hashMessage O i.msg ph).2 false)
    = O.h (tr ++ i.fmt O) 64 := by
  obtain ⟨c, mm, p⟩ := i
  cases p with
  | none =>
    have := C03.mu_pure_is_fips O tr mm c h
    simpa [Interp.fmt, show domPure_verify = domPure_sign by decide, show domHash_verify = domHash_sign by decide] using this
  | some ph =>
    have hne : (hashMessage O mm ph).1 ≠ [] := by
      rw [C03.hashMessage_is_fips O hO]; cases ph <;> simp [Spec.prehash, Spec.oidSha256, Spec.oidSha512, Spec.oidShake128]
    have := C03.mu_hash_is_fips O tr mm c (hashMessage O mm ph).1 (hashMessage O mm ph).2 h hne
    rw [C03.hashMessage_is_fips O hO] at this
    simp only [Interp.fmt, show domPure_verify = domPure_sign by decide, show domHash_verify = domHash_sign by decide,
      C03.hashMessage_is_fips O hO]
    exact this

/-! non-vacuity: two concrete, different interpretations of the same concatenated bytes -/
example : (⟨[1, 2], [3], none⟩ : Interp) ≠ ⟨[1], [2, 3], none⟩ := by decide
example : Spec.fmtPure [1, 2] [3] ≠ Spec.fmtPure [1] [2, 3] := by decide

end Fips204.Props.C06
