import Fips204.Lemmas.NttBounds
/-!
# C18 — NTT-based polynomial products equal the negacyclic product mod q; no 32-bit overflow

Proved (all inputs, both build modes):
* **the repaired inverse transform cannot overflow**: for every input vector in the domain of
  `partial_reduce32` (|w_i| ≤ 2 143 289 343 - every value its callers can supply, adversarial or not)
  `inv_ntt` returns without fault and every output coefficient is a canonical residue in [0, q);
* **F3 is real on the pinned tree**: the unrepaired definition (`Legacy`) faults in the checked build on a
  constant vector of magnitude 2^23 (inside the envelope `l (q/2 + 32705)` of `mat_vec_mul`), by evaluation;
* every entry of the generated Montgomery zeta table is a canonical residue.
Not proved here: congruence of the transform pipeline to the negacyclic product (decided on every run
against the schoolbook product in big integers on basis polynomials x scalars, extremal sign patterns
per call-site range and random inputs), and the forward-transform / mat_vec_mul envelope (`C18_full`).
-/
namespace Fips204.Props.C18
open Fips204 Fips204.Gen Fips204.Impl

/-- no input that fits `partial_reduce32`'s domain can make the (repaired) inverse NTT overflow or assert -/
theorem inv_ntt_never_overflows (m : Mode) (ws : List (List Int)) (hw : ∀ w ∈ ws, ∀ x ∈ w, -2143289343 ≤ x ∧ x ≤ 2143289343) :
    ∃ r, invNtt m ws = .ok r ∧ ∀ w' ∈ r, ∀ x ∈ w', 0 ≤ x ∧ x < Q :=
  invNtt_ok m ws hw

/-- in particular: the unreduced output of `mat_vec_mul` (at most l + 1 ≤ 8 Montgomery products of magnitude
    below q each, so |w_i| < 8 q) is always safe, for all three parameter sets -/
theorem inv_ntt_safe_after_mat_vec_mul (m : Mode) (ws : List (List Int)) (hw : ∀ w ∈ ws, ∀ x ∈ w, -(8 * Q) ≤ x ∧ x ≤ 8 * Q) :
    ∃ r, invNtt m ws = .ok r ∧ ∀ w' ∈ r, ∀ x ∈ w', 0 ≤ x ∧ x < Q :=
  invNtt_ok m ws (fun w h x hx => by have := hw w h x hx; simp only [Q] at this; omega)

/-- **F3, machine-checked**: the pinned-tree inverse transform overflows i32 in the checked build ... -/
theorem legacy_inv_ntt_overflows :
    (Legacy.invNttPoly .checked (List.replicate 256 8388608)).toOption = none := by decide +kernel

/-- ... while the repaired one answers (and the answer is the exact inverse transform of the constant vector) -/
theorem repaired_inv_ntt_answers :
    ((invNttPoly .checked (List.replicate 256 8388608)).toOption.map (fun w => w.take 2)) = some [8191, 0] := by
  decide +kernel

/-- the generated zeta table consists of canonical residues -/
theorem zeta_table_canonical (k : Nat) (hk : k < 256) : ∃ z, zetaArr[k]? = some z ∧ 0 ≤ z ∧ z < Q :=
  zeta_range k hk

end Fips204.Props.C18
