import Fips204.Lemmas.NttBounds
import Fips204.Lemmas.Pipeline
/-!
# C18 — NTT-based polynomial products equal the negacyclic product mod q; no 32-bit overflow

Proved (all inputs, both build modes):
* **the repaired inverse transform cannot overflow**: for every input vector in the domain of
  `partial_reduce32` (|w_i| ≤ 2 143 289 343 - every value its callers can supply, adversarial or not)
  `inv_ntt` returns without fault and every output coefficient is a canonical residue in [0, q);
* **F3 is real on the pinned tree**: the unrepaired definition (`Legacy`) faults in the checked build on a
  constant vector of magnitude 2^23 (inside the envelope `l (q/2 + 32705)` of `mat_vec_mul`), by evaluation;
* every entry of the generated Montgomery zeta table is a canonical residue.
* **the whole lazy pipeline is overflow-free on its call-site envelopes**: forward NTT on coefficients up to 2^19,
  `to_mont`, `mat_vec_mul` on canonical matrices, and their compositions - the verifier's
  `invNTT(A z - c t1 2^d)` for *any* decodable response vector, the signer's `invNTT(A y)`, key generation's `A s1`.
Not proved here: congruence of the transform pipeline to the negacyclic product (decided on every run
against the schoolbook product in big integers on basis polynomials x scalars, extremal sign patterns
per call-site range and random inputs); that the matrix entries are canonical is a hypothesis here (they come from
`CoeffFromThreeBytes`, C15) .
-/
namespace Fips204.Props.C18
open Fips204 Fips204.Gen Fips204.Impl

/-- no input that fits `partial_reduce32`'s domain can make the (repaired) inverse NTT overflow or assert -/
theorem inv_ntt_never_overflows (m : Mode) (ws : List (List Int)) (hw : ∀ w ∈ ws, ∀ x ∈ w, -2143289343 ≤ x ∧ x ≤ 2143289343) :
    ∃ r, invNtt m ws = .ok r ∧ ∀ w' ∈ r, ∀ x ∈ w', 0 ≤ x ∧ x < Q :=
  invNtt_ok m ws hw

/-- in particular: the unreduced output of `mat_vec_mul` (at most l + 1 ≤ 8 Montgomery products of magnitude
    below q each, so |w_i| < 8 q) is always safe, for all three parameter sets -/
theorem inv_ntt_safe_after_mat_vec_mul (m : Mode) (ws : List (List Int)) (hw : ∀ w ∈ ws, ∀ x ∈ w, -(8 * Q) ≤ x ∧ x ≤ 8 * Q) :
    ∃ r, invNtt m ws = .ok r ∧ ∀ w' ∈ r, ∀ x ∈ w', 0 ≤ x ∧ x < Q :=
  invNtt_ok m ws (fun w h x hx => by have := hw w h x hx; simp only [Q] at this; omega)

/-- the forward transform never overflows on coefficients up to 2^19 in magnitude (the mask y, the response z, and
    everything smaller: s1, s2, t0, t1, the challenge), and stays inside `to_mont`'s domain -/
theorem forward_ntt_never_overflows (m : Mode) (ws : List (List Int)) (hw : ∀ w ∈ ws, ∀ x ∈ w, -524288 ≤ x ∧ x ≤ 524288) :
    ∃ r, ntt m ws = .ok r ∧ ∀ w' ∈ r, ∀ x ∈ w', -34284028 ≤ x ∧ x ≤ 34284028 :=
  ntt_ok m ws hw

/-- `mat_vec_mul` (to_mont, Montgomery multiply, unreduced accumulation over a row of at most n <= 200 entries) never
    overflows for canonical matrix entries and any vector inside `to_mont`'s proved domain -/
theorem mat_vec_mul_never_overflows (m : Mode) (a : List (List Poly)) (u : List Poly) (n : Nat)
    (ha : ∀ row ∈ a, row.length ≤ n ∧ ∀ p ∈ row, ∀ x ∈ p, 0 ≤ x ∧ x ≤ 8380416)
    (hu : ∀ w ∈ u, ∀ x ∈ w, -67000000 ≤ x ∧ x ≤ 67000000) (hn : n ≤ 200) :
    ∃ r, matVecMul m a u = .ok r ∧ ∀ w ∈ r, ∀ x ∈ w, -((n : Int) * 8380416) ≤ x ∧ x ≤ (n : Int) * 8380416 :=
  matVecMul_ok m a u n ha hu hn

/-- **Algorithm 8 step 9 as the crate computes it never overflows, for an adversary's response vector**: any `z` that
    `sigDecode` can return (|z_i| <= 2^19), any challenge in {-1,0,1}^256, a canonical matrix with at most 7 columns and
    any key precompute inside (-2q, 2q): the result exists in both build modes and is a vector of canonical residues -/
theorem verify_pipeline_never_overflows (m : Mode) (aHat : List (List Poly)) (z : List Poly) (c : Poly) (t1d2 : List Poly)
    (hA : ∀ row ∈ aHat, row.length ≤ 7 ∧ ∀ p ∈ row, ∀ x ∈ p, 0 ≤ x ∧ x ≤ 8380416)
    (hz : ∀ w ∈ z, ∀ x ∈ w, -524288 ≤ x ∧ x ≤ 524288) (hc : ∀ x ∈ c, -1 ≤ x ∧ x ≤ 1)
    (ht : ∀ w ∈ t1d2, ∀ x ∈ w, -16760833 ≤ x ∧ x ≤ 16760833) :
    ∃ r, wApproxOf m aHat z c t1d2 = .ok r ∧ ∀ w ∈ r, ∀ x ∈ w, 0 ≤ x ∧ x < Q :=
  wApproxOf_ok m aHat z c t1d2 hA hz hc ht

/-- the signer's commitment (step 12) and key generation's `A s1` (step 5): same statement -/
theorem commitment_pipeline_never_overflows (m : Mode) (aHat : List (List Poly)) (y : List Poly)
    (hA : ∀ row ∈ aHat, row.length ≤ 7 ∧ ∀ p ∈ row, ∀ x ∈ p, 0 ≤ x ∧ x ≤ 8380416)
    (hy : ∀ w ∈ y, ∀ x ∈ w, -524288 ≤ x ∧ x ≤ 524288) :
    ∃ r, (do let yh ← ntt m y; let ay ← matVecMul m aHat yh; invNtt m ay) = .ok r ∧ ∀ w ∈ r, ∀ x ∈ w, 0 ≤ x ∧ x < Q :=
  commitment_ok m aHat y hA hy

/-- **F3, machine-checked**: the pinned-tree inverse transform overflows i32 in the checked build ... -/
theorem legacy_inv_ntt_overflows :
    (Legacy.invNttPoly .checked (List.replicate 256 8388608)).toOption = none := by decide +kernel

/-- ... while the repaired one answers (and the answer is the exact inverse transform of the constant vector) -/
theorem repaired_inv_ntt_answers :
    ((invNttPoly .checked (List.replicate 256 8388608)).toOption.map (fun w => w.take 2)) = some [8191, 0] := by
  decide +kernel

/-- the generated zeta table consists of canonical residues -/
theorem zeta_table_canonical (k : Nat) (hk : k < 256) : ∃ z, zetaArr[k]? = some z ∧ 0 ≤ z ∧ z < Q :=
  zeta_range k hk

end Fips204.Props.C18
