import Fips204.Props.C09c
import Fips204.Lemmas.SpecEncode
import Fips204.Lemmas.KeyRoundTrip
import Fips204.Props.C10c
import Fips204.Spec.MlDsa
/-!
# C09 (continued) — the public-key codec of the standard, as transcribed, round-trips

From the crate-level round trip (`pkEncode_pkDecode`, `Lemmas/KeyRoundTrip`) and the two literal equalities (`pkDecode_is_algorithm_23`,
`pkEncode_is_algorithm_22`):

* `pkEncode_after_pkDecode_as_written` — for each parameter set and every byte string of public-key length,
  `pkEncode(pkDecode(pk)) = pk` on `Spec/*` alone: every public-key string is the canonical encoding of what it decodes to (in particular no
  two strings decode to the same `(rho, t1)`);
* `skEncode_after_skDecode_as_written` — for each parameter set and every byte string of private-key length whose `s1`, `s2` sections decode into
  `[-eta, eta]` (the strings deserialisation accepts, C10c), `skEncode(skDecode(sk)) = sk` on `Spec/*` alone.
-/
namespace Fips204.Props.C09
open Fips204 Fips204.Gen Fips204.Impl

theorem pkEncode_after_pkDecode_as_written (p : ParamSet) (hp : p ∈ [ml_dsa_44, ml_dsa_65, ml_dsa_87])
    (pk : List Nat) (hb : ∀ x ∈ pk, x < 256) (hlen : pk.length = p.pkLen) :
    Spec.pkEncode (Spec.pkDecode p.k pk).1 (Spec.pkDecode p.k pk).2 = pk := by
  have hcfg := pk_config_ok p hp
  have hlen' : pk.length = 32 + 32 * p.k * blqd := by rw [hlen, hcfg]
  obtain ⟨d, hd, hspec⟩ := pkDecode_is_algorithm_23 .release p pk hb hlen' hcfg
  obtain ⟨d', hd', hrho, hk, ht⟩ := pkDecode_total .release p pk hb hlen' hcfg
  rw [hd] at hd'
  have e := ok_inj hd'
  simp only [Option.some.injEq] at e
  subst e
  have hre := pkEncode_pkDecode .release p pk hb hlen' hcfg d hd
  have h22 := pkEncode_is_algorithm_22 .release p d.rho d.t1 (by rw [hrho, List.length_take, hlen', ]; omega) hcfg
    ⟨hk, fun q hq => (ht q hq).1⟩ (fun q hq => (ht q hq).2)
  rw [h22] at hre
  have e2 := ok_inj hre
  rw [← hspec]
  exact e2

/-- distinct public-key strings decode to distinct `(rho, t1)` under Algorithm 23 -/
theorem pkDecode_injective_as_written (p : ParamSet) (hp : p ∈ [ml_dsa_44, ml_dsa_65, ml_dsa_87])
    (pk pk' : List Nat) (hb : ∀ x ∈ pk, x < 256) (hlen : pk.length = p.pkLen) (hb' : ∀ x ∈ pk', x < 256) (hlen' : pk'.length = p.pkLen)
    (h : Spec.pkDecode p.k pk = Spec.pkDecode p.k pk') : pk = pk' := by
  rw [← pkEncode_after_pkDecode_as_written p hp pk hb hlen, ← pkEncode_after_pkDecode_as_written p hp pk' hb' hlen', h]

theorem skEncode_after_skDecode_as_written (p : ParamSet) (hp : p ∈ [ml_dsa_44, ml_dsa_65, ml_dsa_87])
    (sk : List Nat) (hb : ∀ x ∈ sk, x < 256) (hlen : sk.length = p.skLen)
    (hr : (Spec.allInRange p.eta p.eta (Spec.skDecode (Spec.bitlen (2 * p.eta)) p.eta p.k p.l sk).2.2.2.1 &&
           Spec.allInRange p.eta p.eta (Spec.skDecode (Spec.bitlen (2 * p.eta)) p.eta p.k p.l sk).2.2.2.2.1) = true) :
    (let d := Spec.skDecode (Spec.bitlen (2 * p.eta)) p.eta p.k p.l sk
     Spec.skEncode (Spec.bitlen (2 * p.eta)) p.eta d.1 d.2.1 d.2.2.1 d.2.2.2.1 d.2.2.2.2.1 d.2.2.2.2.2) = sk := by
  obtain ⟨bl, he, hbl, hcfg⟩ := Fips204.Props.C10.sk_config .release p hp
  have hbs : Spec.bitlen (2 * p.eta) = bl := by
    have b3 : bitLen .release (2 * 2) = .ok 3 := of_toOption _ _ (by decide +kernel)
    have b4 : bitLen .release (2 * 4) = .ok 4 := of_toOption _ _ (by decide +kernel)
    rcases he with h | h <;> rw [h] at hbl ⊢
    · rw [b3] at hbl; have := ok_inj hbl; subst this; decide
    · rw [b4] at hbl; have := ok_inj hbl; subst this; decide
  rw [hbs] at hr ⊢
  have hlen' : sk.length = 128 + 32 * ((p.k + p.l) * bl + D.toNat * p.k) := by rw [hlen, hcfg]
  have h25 := skDecode_is_algorithm_25 .release p sk hb he bl hbl hlen' hlen.symm
  simp only [] at h25
  rw [if_pos hr] at h25
  have hre := skEncode_skDecode .release p sk hb he bl hbl hlen' hlen.symm _ h25
  obtain ⟨s0, s1, s2, s3⟩ := skDecode_sh .release p sk _ h25
  obtain ⟨r1, r2, r0⟩ := C10.skDecode_accepts_only_in_range .release p sk _ ⟨by rcases he with h | h <;> omega, by rcases he with h | h <;> omega⟩ h25
  have h24 := skEncode_is_algorithm_24 .release p he bl hbl hcfg _ s0
    (by simp only [Spec.skDecode, List.length_take, List.length_drop]; omega)
    (by simp only [Spec.skDecode, List.length_take, List.length_drop]; omega)
    ⟨s1, r1⟩ ⟨s2, r2⟩ ⟨s3, r0⟩
  rw [h24] at hre
  exact ok_inj hre

end Fips204.Props.C09
