import Fips204.Props.C09c
import Fips204.Lemmas.SpecEncode
import Fips204.Lemmas.KeyRoundTrip
import Fips204.Lemmas.GenKeys
import Fips204.Props.C10c
import Fips204.Spec.MlDsa
/-!
# C09 (continued) — the public-key codec of the standard, as transcribed, round-trips

From the crate-level round trip (`pkEncode_pkDecode`, `Lemmas/KeyRoundTrip`) and the two literal equalities (`pkDecode_is_algorithm_23`,
`pkEncode_is_algorithm_22`):

* `pkEncode_after_pkDecode_as_written` — for each parameter set and every byte string of public-key length,
  `pkEncode(pkDecode(pk)) = pk` on `Spec/*` alone: every public-key string is the canonical encoding of what it decodes to (in particular no
  two strings decode to the same `(rho, t1)`);
* `pkDecode_after_pkEncode_as_written` — `pkDecode(pkEncode(rho, t1)) = (rho, t1)` for every 32-byte `rho` (of bytes) and every `t1` with `k`
  polynomials of 256 coefficients in `[0, 1023]`: with the previous item, Algorithms 22 / 23 are mutually inverse bijections;
* `skDecode_after_skEncode_as_written` — `skDecode(skEncode(rho, K, tr, s1, s2, t0))` returns the six components for byte strings `rho`, `K`, `tr` of
  32, 32, 64 bytes and vectors in range: with the next item, Algorithms 24 / 25 are mutually inverse on in-range keys;
* `skEncode_after_skDecode_as_written` — for each parameter set and every byte string of private-key length whose `s1`, `s2` sections decode into
  `[-eta, eta]` (the strings deserialisation accepts, C10c), `skEncode(skDecode(sk)) = sk` on `Spec/*` alone.
-/
namespace Fips204.Props.C09
open Fips204 Fips204.Gen Fips204.Impl

theorem pkEncode_after_pkDecode_as_written (p : ParamSet) (hp : p ∈ [ml_dsa_44, ml_dsa_65, ml_dsa_87])
    (pk : List Nat) (hb : ∀ x ∈ pk, x < 256) (hlen : pk.length = p.pkLen) :
    Spec.pkEncode (Spec.pkDecode p.k pk).1 (Spec.pkDecode p.k pk).2 = pk := by
  have hcfg := pk_config_ok p hp
  have hlen' : pk.length = 32 + 32 * p.k * blqd := by rw [hlen, hcfg]
  obtain ⟨d, hd, hspec⟩ := pkDecode_is_algorithm_23 .release p pk hb hlen' hcfg
  obtain ⟨d', hd', hrho, hk, ht⟩ := pkDecode_total .release p pk hb hlen' hcfg
  rw [hd] at hd'
  have e := ok_inj hd'
  simp only [Option.some.injEq] at e
  subst e
  have hre := pkEncode_pkDecode .release p pk hb hlen' hcfg d hd
  have h22 := pkEncode_is_algorithm_22 .release p d.rho d.t1 (by rw [hrho, List.length_take, hlen', ]; omega) hcfg
    ⟨hk, fun q hq => (ht q hq).1⟩ (fun q hq => (ht q hq).2)
  rw [h22] at hre
  have e2 := ok_inj hre
  rw [← hspec]
  exact e2

/-- distinct public-key strings decode to distinct `(rho, t1)` under Algorithm 23 -/
theorem pkDecode_injective_as_written (p : ParamSet) (hp : p ∈ [ml_dsa_44, ml_dsa_65, ml_dsa_87])
    (pk pk' : List Nat) (hb : ∀ x ∈ pk, x < 256) (hlen : pk.length = p.pkLen) (hb' : ∀ x ∈ pk', x < 256) (hlen' : pk'.length = p.pkLen)
    (h : Spec.pkDecode p.k pk = Spec.pkDecode p.k pk') : pk = pk' := by
  rw [← pkEncode_after_pkDecode_as_written p hp pk hb hlen, ← pkEncode_after_pkDecode_as_written p hp pk' hb' hlen', h]

theorem skEncode_after_skDecode_as_written (p : ParamSet) (hp : p ∈ [ml_dsa_44, ml_dsa_65, ml_dsa_87])
    (sk : List Nat) (hb : ∀ x ∈ sk, x < 256) (hlen : sk.length = p.skLen)
    (hr : (Spec.allInRange p.eta p.eta (Spec.skDecode (Spec.bitlen (2 * p.eta)) p.eta p.k p.l sk).2.2.2.1 &&
           Spec.allInRange p.eta p.eta (Spec.skDecode (Spec.bitlen (2 * p.eta)) p.eta p.k p.l sk).2.2.2.2.1) = true) :
    (let d := Spec.skDecode (Spec.bitlen (2 * p.eta)) p.eta p.k p.l sk
     Spec.skEncode (Spec.bitlen (2 * p.eta)) p.eta d.1 d.2.1 d.2.2.1 d.2.2.2.1 d.2.2.2.2.1 d.2.2.2.2.2) = sk := by
  obtain ⟨bl, he, hbl, hcfg⟩ := Fips204.Props.C10.sk_config .release p hp
  have hbs : Spec.bitlen (2 * p.eta) = bl := by
    have b3 : bitLen .release (2 * 2) = .ok 3 := of_toOption _ _ (by decide +kernel)
    have b4 : bitLen .release (2 * 4) = .ok 4 := of_toOption _ _ (by decide +kernel)
    rcases he with h | h <;> rw [h] at hbl ⊢
    · rw [b3] at hbl; have := ok_inj hbl; subst this; decide
    · rw [b4] at hbl; have := ok_inj hbl; subst this; decide
  rw [hbs] at hr ⊢
  have hlen' : sk.length = 128 + 32 * ((p.k + p.l) * bl + D.toNat * p.k) := by rw [hlen, hcfg]
  have h25 := skDecode_is_algorithm_25 .release p sk hb he bl hbl hlen' hlen.symm
  simp only [] at h25
  rw [if_pos hr] at h25
  have hre := skEncode_skDecode .release p sk hb he bl hbl hlen' hlen.symm _ h25
  obtain ⟨s0, s1, s2, s3⟩ := skDecode_sh .release p sk _ h25
  obtain ⟨r1, r2, r0⟩ := C10.skDecode_accepts_only_in_range .release p sk _ ⟨by rcases he with h | h <;> omega, by rcases he with h | h <;> omega⟩ h25
  have h24 := skEncode_is_algorithm_24 .release p he bl hbl hcfg _ s0
    (by simp only [Spec.skDecode, List.length_take, List.length_drop]; omega)
    (by simp only [Spec.skDecode, List.length_take, List.length_drop]; omega)
    ⟨s1, r1⟩ ⟨s2, r2⟩ ⟨s3, r0⟩
  rw [h24] at hre
  exact ok_inj hre

theorem pkDecode_after_pkEncode_as_written (p : ParamSet) (hp : p ∈ [ml_dsa_44, ml_dsa_65, ml_dsa_87])
    (rho : List Nat) (t1 : List Poly) (hr : rho.length = 32) (hrb : ∀ x ∈ rho, x < 256) (ht : VecIn p.k 0 1023 t1) :
    Spec.pkDecode p.k (Spec.pkEncode rho t1) = (rho, t1) := by
  have hcfg := pk_config_ok p hp
  have h22 := pkEncode_is_algorithm_22 .release p rho t1 hr hcfg ht.1 ht.2
  obtain ⟨hl, hdec⟩ := pkDecode_pkEncode .release p hcfg rho t1 hr ht _ h22
  -- the encoding consists of bytes: rho by hypothesis, the rest by construction
  have hbytes : ∀ x ∈ Spec.pkEncode rho t1, x < 256 := by
    intro x hx
    unfold Spec.pkEncode at hx
    rcases List.mem_append.mp hx with hx | hx
    · exact hrb x hx
    · obtain ⟨blk, hblk, hx'⟩ := List.mem_flatten.mp hx
      obtain ⟨w, _, rfl⟩ := List.mem_map.mp hblk
      unfold Spec.simpleBitPack at hx'
      refine bitsToBytes_lt _ _ (fun d hd => ?_) x hx'
      obtain ⟨b, hb, hd'⟩ := List.mem_flatten.mp hd
      obtain ⟨wi, _, rfl⟩ := List.mem_map.mp hb
      exact integerToBits_bits _ _ d hd'
  obtain ⟨d, hd, hspec⟩ := pkDecode_is_algorithm_23 .release p _ hbytes (by rw [hl, hcfg]) hcfg
  rw [hdec] at hd
  have e := ok_inj hd
  simp only [Option.some.injEq] at e
  subst e
  exact hspec.symm

theorem spec_bitPack_bytes (c : Nat) (b : Int) (w : List Int) : ∀ x ∈ Spec.bitPack c b w, x < 256 := by
  unfold Spec.bitPack
  refine bitsToBytes_lt _ _ (fun d hd => ?_)
  obtain ⟨blk, hblk, hd'⟩ := List.mem_flatten.mp hd
  obtain ⟨wi, _, rfl⟩ := List.mem_map.mp hblk
  exact integerToBits_bits _ _ d hd'

theorem spec_packs_bytes (c : Nat) (b : Int) (v : List (List Int)) : ∀ x ∈ (v.map (fun w => Spec.bitPack c b w)).flatten, x < 256 := by
  intro x hx
  obtain ⟨blk, hblk, hx'⟩ := List.mem_flatten.mp hx
  obtain ⟨w, _, rfl⟩ := List.mem_map.mp hblk
  exact spec_bitPack_bytes c b w x hx'

theorem skDecode_after_skEncode_as_written (p : ParamSet) (hp : p ∈ [ml_dsa_44, ml_dsa_65, ml_dsa_87])
    (rho key tr : List Nat) (s1 s2 t0 : List Poly)
    (hr : rho.length = 32) (hk : key.length = 32) (ht : tr.length = 64)
    (hrb : ∀ x ∈ rho, x < 256) (hkb : ∀ x ∈ key, x < 256) (htb : ∀ x ∈ tr, x < 256)
    (h1 : VecIn p.l (-p.eta) p.eta s1) (h2 : VecIn p.k (-p.eta) p.eta s2) (h0 : VecIn p.k (-4095) 4096 t0) :
    Spec.skDecode (Spec.bitlen (2 * p.eta)) p.eta p.k p.l (Spec.skEncode (Spec.bitlen (2 * p.eta)) p.eta rho key tr s1 s2 t0) =
      (rho, key, tr, s1, s2, t0) := by
  obtain ⟨bl, he, hbl, hcfg⟩ := Fips204.Props.C10.sk_config .release p hp
  have hbs : Spec.bitlen (2 * p.eta) = bl := by
    have b3 : bitLen .release (2 * 2) = .ok 3 := of_toOption _ _ (by decide +kernel)
    have b4 : bitLen .release (2 * 4) = .ok 4 := of_toOption _ _ (by decide +kernel)
    rcases he with h | h <;> rw [h] at hbl ⊢
    · rw [b3] at hbl; have := ok_inj hbl; subst this; decide
    · rw [b4] at hbl; have := ok_inj hbl; subst this; decide
  rw [hbs]
  have htop : top = 4096 := by decide
  have h0' : VecIn p.k (-(top - 1)) top t0 := by rw [htop]; exact h0
  let s : SkParts := { rho := rho, key := key, tr := tr, s1 := s1, s2 := s2, t0 := t0 }
  have h24 := skEncode_is_algorithm_24 .release p he bl hbl hcfg s hr hk ht h1 h2 h0'
  obtain ⟨out, hout, holen⟩ := skEncode_ok .release p he bl hbl hcfg s hr hk ht h1 h2 h0'
  rw [h24] at hout
  have eo := ok_inj hout
  have hdec := skDecode_skEncode .release p he bl hbl hcfg s hr hk ht h1 h2 h0' _ h24
  have hbytes : ∀ x ∈ Spec.skEncode bl p.eta rho key tr s1 s2 t0, x < 256 := by
    intro x hx
    unfold Spec.skEncode at hx
    simp only [List.mem_append] at hx
    rcases hx with ((((hx | hx) | hx) | hx) | hx) | hx
    · exact hrb x hx
    · exact hkb x hx
    · exact htb x hx
    · exact spec_packs_bytes _ _ _ x hx
    · exact spec_packs_bytes _ _ _ x hx
    · exact spec_packs_bytes _ _ _ x hx
  have hlen : (Spec.skEncode bl p.eta rho key tr s1 s2 t0).length = 128 + 32 * ((p.k + p.l) * bl + D.toNat * p.k) := by
    have : (Spec.skEncode bl p.eta s.rho s.key s.tr s.s1 s.s2 s.t0).length = out.length := by rw [eo]
    rw [holen] at this
    rw [← hcfg]
    exact this
  have h25 := skDecode_is_algorithm_25 .release p _ hbytes he bl hbl hlen (by rw [hlen, hcfg])
  rw [hdec] at h25
  have e := ok_inj h25
  simp only [] at e
  generalize Spec.skDecode bl p.eta p.k p.l (Spec.skEncode bl p.eta rho key tr s1 s2 t0) = d at e ⊢
  obtain ⟨a, b, c, d1, d2, d3⟩ := d
  simp only [] at e
  split at e
  · simp only [Option.some.injEq] at e
    have f1 := congrArg SkParts.rho e
    have f2 := congrArg SkParts.key e
    have f3 := congrArg SkParts.tr e
    have f4 := congrArg SkParts.s1 e
    have f5 := congrArg SkParts.s2 e
    have f6 := congrArg SkParts.t0 e
    simp only [s] at f1 f2 f3 f4 f5 f6
    rw [f1, f2, f3, f4, f5, f6]
  · cases e

end Fips204.Props.C09
