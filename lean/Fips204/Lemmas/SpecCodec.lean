/-
  Lemmas.SpecCodec — the crate's streaming `bit_pack` / `bit_unpack` are FIPS 204 Algorithms 16-19 as the standard writes
  them (`Spec/Codec.lean`: IntegerToBits / BitsToBytes / BytesToBits / BitsToInteger on explicit bit strings).
  Both sides are characterised by the same number: the little-endian value of the bit string.
-/
import Fips204.Spec.Codec
import Fips204.Lemmas.BitRoundTrip
namespace Fips204.Impl
open Fips204 Fips204.Gen

/-! ### values of the standard's bit-level functions -/

theorem bitsToInteger_eq_numF (y : List Nat) : Spec.bitsToInteger y = numF 2 y := by
  induction y with
  | nil => rfl
  | cons b bs ih => simp only [Spec.bitsToInteger, numF, ih]

theorem integerToBits_len (x α : Nat) : (Spec.integerToBits x α).length = α := by
  induction α generalizing x with
  | zero => rfl
  | succ n ih => simp only [Spec.integerToBits, List.length_cons, ih]

theorem integerToBits_bits (x α : Nat) : ∀ d ∈ Spec.integerToBits x α, d < 2 := by
  induction α generalizing x with
  | zero => intro d hd; simp [Spec.integerToBits] at hd
  | succ n ih =>
    intro d hd
    simp only [Spec.integerToBits, List.mem_cons] at hd
    rcases hd with rfl | hd
    · omega
    · exact ih _ d hd

theorem integerToBits_val (x α : Nat) : numF 2 (Spec.integerToBits x α) = x % 2 ^ α := by
  induction α generalizing x with
  | zero => simp [Spec.integerToBits, numF, Nat.mod_one]
  | succ n ih =>
    simp only [Spec.integerToBits, numF, ih, Nat.pow_succ]
    have h := Nat.mod_mul_right_div_self x 2 (2 ^ n)
    have e : x % (2 ^ n * 2) = x % 2 + 2 * (x / 2 % 2 ^ n) := by
      rw [Nat.mul_comm (2 ^ n) 2, Nat.mod_mul]
    rw [e]

/-- regrouping: the value of a concatenation of equal-length digit blocks -/
theorem numF_flatten (P c : Nat) : ∀ blocks : List (List Nat), (∀ bl ∈ blocks, bl.length = c) →
    numF P blocks.flatten = numF (P ^ c) (blocks.map (numF P)) := by
  intro blocks
  induction blocks with
  | nil => intro _; rfl
  | cons bl rest ih =>
    intro h
    rw [List.flatten_cons, numF_append, List.map_cons]
    simp only [numF]
    rw [h bl (List.mem_cons_self), ih (fun x hx => h x (List.mem_cons_of_mem _ hx))]

theorem flatten_len_const (c : Nat) : ∀ blocks : List (List Nat), (∀ bl ∈ blocks, bl.length = c) → blocks.flatten.length = blocks.length * c := by
  intro blocks
  induction blocks with
  | nil => intro _; simp
  | cons bl rest ih =>
    intro h
    rw [List.flatten_cons, List.length_append, h bl List.mem_cons_self, ih (fun x hx => h x (List.mem_cons_of_mem _ hx)), List.length_cons, Nat.succ_mul]
    omega

theorem bitsToBytes_len (n : Nat) (y : List Nat) : (Spec.bitsToBytes n y).length = n := by
  induction n generalizing y with
  | zero => rfl
  | succ k ih => simp only [Spec.bitsToBytes, List.length_cons, ih]

theorem bitsToBytes_lt (n : Nat) (y : List Nat) (hy : ∀ d ∈ y, d < 2) : ∀ x ∈ Spec.bitsToBytes n y, x < 256 := by
  induction n generalizing y with
  | zero => intro x hx; simp [Spec.bitsToBytes] at hx
  | succ k ih =>
    intro x hx
    simp only [Spec.bitsToBytes, List.mem_cons] at hx
    rcases hx with rfl | hx
    · rw [bitsToInteger_eq_numF]
      have h1 := numF_lt 2 (by omega) (y.take 8) (fun d hd => hy d (List.mem_of_mem_take hd))
      have h2 : (y.take 8).length ≤ 8 := by simp only [List.length_take]; omega
      have h3 : 2 ^ (y.take 8).length ≤ 2 ^ 8 := Nat.pow_le_pow_right (by omega) h2
      omega
    · exact ih (y.drop 8) (fun d hd => hy d (List.mem_of_mem_drop hd)) x hx

theorem bitsToBytes_val (n : Nat) (y : List Nat) (hl : y.length = 8 * n) : numF 256 (Spec.bitsToBytes n y) = numF 2 y := by
  induction n generalizing y with
  | zero =>
    have : y = [] := List.eq_nil_of_length_eq_zero (by omega)
    subst this; rfl
  | succ k ih =>
    simp only [Spec.bitsToBytes, numF]
    have hd : (y.drop 8).length = 8 * k := by simp only [List.length_drop]; omega
    rw [ih (y.drop 8) hd, bitsToInteger_eq_numF]
    have e := numF_append 2 (y.take 8) (y.drop 8)
    rw [List.take_append_drop] at e
    have ht : (y.take 8).length = 8 := by simp only [List.length_take]; omega
    rw [e, ht]

theorem bytesToBits_len (z : List Nat) : (Spec.bytesToBits z).length = 8 * z.length := by
  induction z with
  | nil => rfl
  | cons x xs ih => simp only [Spec.bytesToBits, List.length_append, integerToBits_len, ih, List.length_cons]; omega

theorem bytesToBits_bits (z : List Nat) : ∀ d ∈ Spec.bytesToBits z, d < 2 := by
  induction z with
  | nil => intro d hd; simp [Spec.bytesToBits] at hd
  | cons x xs ih =>
    intro d hd
    simp only [Spec.bytesToBits, List.mem_append] at hd
    rcases hd with hd | hd
    · exact integerToBits_bits _ _ d hd
    · exact ih d hd

theorem bytesToBits_val (z : List Nat) (hz : ∀ x ∈ z, x < 256) : numF 2 (Spec.bytesToBits z) = numF 256 z := by
  induction z with
  | nil => rfl
  | cons x xs ih =>
    simp only [Spec.bytesToBits, numF]
    rw [numF_append, integerToBits_len, integerToBits_val, ih (fun y hy => hz y (List.mem_cons_of_mem _ hy))]
    have : x % 2 ^ 8 = x := Nat.mod_eq_of_lt (by have := hz x List.mem_cons_self; omega)
    rw [this]


/-! ### the standard's groups of `c` bits -/

theorem groups_len (c n : Nat) (z : List Nat) : (Spec.groups c n z).length = n := by
  induction n generalizing z with
  | zero => rfl
  | succ k ih => simp only [Spec.groups, List.length_cons, ih]

theorem groups_each (c n : Nat) (z : List Nat) (h : n * c ≤ z.length) : ∀ g ∈ Spec.groups c n z, g.length = c := by
  induction n generalizing z with
  | zero => intro g hg; simp [Spec.groups] at hg
  | succ k ih =>
    intro g hg
    simp only [Spec.groups, List.mem_cons] at hg
    have hc : c ≤ z.length := by rw [Nat.succ_mul] at h; omega
    rcases hg with rfl | hg
    · simp only [List.length_take]; omega
    · exact ih (z.drop c) (by simp only [List.length_drop]; rw [Nat.succ_mul] at h; omega) g hg

theorem groups_flatten (c n : Nat) (z : List Nat) (h : z.length = n * c) : (Spec.groups c n z).flatten = z := by
  induction n generalizing z with
  | zero =>
    have : z = [] := List.eq_nil_of_length_eq_zero (by omega)
    subst this; rfl
  | succ k ih =>
    simp only [Spec.groups, List.flatten_cons]
    rw [ih (z.drop c) (by simp only [List.length_drop]; rw [Nat.succ_mul] at h; omega), List.take_append_drop]

theorem groups_bits (c n : Nat) (z : List Nat) (hz : ∀ d ∈ z, d < 2) : ∀ g ∈ Spec.groups c n z, ∀ d ∈ g, d < 2 := by
  induction n generalizing z with
  | zero => intro g hg; simp [Spec.groups] at hg
  | succ k ih =>
    intro g hg d hd
    simp only [Spec.groups, List.mem_cons] at hg
    rcases hg with rfl | hg
    · exact hz d (List.mem_of_mem_take hd)
    · exact ih (z.drop c) (fun x hx => hz x (List.mem_of_mem_drop hx)) g hg d hd

/-! ### packing -/

/-- the bit string the standard builds from fields `f_i < 2^c`, turned into bytes, has the value of the fields in base `2^c` -/
theorem specPack_val (c : Nat) (fs : List Nat) (hl : fs.length = 256) (hf : ∀ f ∈ fs, f < 2 ^ c) :
    let out := Spec.bitsToBytes (32 * c) ((fs.map (fun f => Spec.integerToBits f c)).flatten)
    out.length = 32 * c ∧ (∀ x ∈ out, x < 256) ∧ numF 256 out = numF (2 ^ c) fs := by
  intro out
  have hblk : ∀ bl ∈ fs.map (fun f => Spec.integerToBits f c), bl.length = c := by
    intro bl hb; obtain ⟨f, _, rfl⟩ := List.mem_map.mp hb; exact integerToBits_len f c
  have hbits : ∀ d ∈ (fs.map (fun f => Spec.integerToBits f c)).flatten, d < 2 := by
    intro d hd
    obtain ⟨bl, hb, hdb⟩ := List.mem_flatten.mp hd
    obtain ⟨f, _, rfl⟩ := List.mem_map.mp hb
    exact integerToBits_bits f c d hdb
  have hlen : ((fs.map (fun f => Spec.integerToBits f c)).flatten).length = 8 * (32 * c) := by
    rw [flatten_len_const c _ hblk, List.length_map, hl]; omega
  refine ⟨bitsToBytes_len _ _, bitsToBytes_lt _ _ hbits, ?_⟩
  show numF 256 (Spec.bitsToBytes (32 * c) _) = _
  rw [bitsToBytes_val _ _ hlen, numF_flatten 2 c _ hblk, List.map_map]
  congr 1
  have : fs.map (numF 2 ∘ fun f => Spec.integerToBits f c) = fs.map id := by
    apply List.map_congr_left
    intro f hfm
    simp only [Function.comp, integerToBits_val, id]
    exact Nat.mod_eq_of_lt (hf f hfm)
  rw [this, List.map_id]

/-- **`bit_pack` with `a > 0` is FIPS 204 Algorithm 17 (`BitPack`) as written** on every in-range polynomial -/
theorem bitPack_is_algorithm_17 (m : Mode) (w : Poly) (a b : Int) (bl : Nat) (ha : 0 < a ∧ a < 1048576) (hb : 1 ≤ b ∧ b < 1048576)
    (hbl : bitLen m (a + b) = .ok bl) (hbl2 : 1 ≤ bl ∧ bl ≤ 20) (hab : a + b < 2 ^ bl) (hw : ∀ c ∈ w, -a ≤ c ∧ c ≤ b)
    (hlen : w.length = 256) :
    bitPack m w a b (32 * bl) = .ok (Spec.bitPack bl b w) := by
  obtain ⟨out, ho, hol, hob, hov⟩ := bitPack_val m w a b bl ⟨by omega, ha.2⟩ hb hbl hbl2 hab hw hlen
  rw [ho]; congr 1
  have hfl : ∀ f ∈ w.map (fld a b), f < 2 ^ bl := by
    intro f hf; obtain ⟨c, hc, rfl⟩ := List.mem_map.mp hf
    exact (fld_lt_of_range a b bl (by omega) hab c (hw c hc)).1
  obtain ⟨sl, sb, sv⟩ := specPack_val bl (w.map (fld a b)) (by simp [hlen]) hfl
  have hspec : Spec.bitPack bl b w = Spec.bitsToBytes (32 * bl) (((w.map (fld a b)).map (fun f => Spec.integerToBits f bl)).flatten) := by
    unfold Spec.bitPack; rw [List.map_map]; congr 2
    apply List.map_congr_left
    intro c _
    simp only [Function.comp, fld, if_neg (show ¬ a = 0 by omega)]
  rw [hspec]
  exact numF_inj 256 (by omega) _ _ (by rw [hol, sl]) hob sb (by rw [hov, sv])

/-- **`bit_pack` with `a = 0` (what `simple_bit_pack` calls) is FIPS 204 Algorithm 16 (`SimpleBitPack`) as written** -/
theorem bitPack_is_algorithm_16 (m : Mode) (w : Poly) (b : Int) (bl : Nat) (hb : 1 ≤ b ∧ b < 1048576)
    (hbl : bitLen m (0 + b) = .ok bl) (hbl2 : 1 ≤ bl ∧ bl ≤ 20) (hab : 0 + b < 2 ^ bl) (hw : ∀ c ∈ w, -0 ≤ c ∧ c ≤ b)
    (hlen : w.length = 256) :
    bitPack m w 0 b (32 * bl) = .ok (Spec.simpleBitPack bl w) := by
  obtain ⟨out, ho, hol, hob, hov⟩ := bitPack_val m w 0 b bl ⟨by omega, by omega⟩ hb hbl hbl2 hab hw hlen
  rw [ho]; congr 1
  have hfl : ∀ f ∈ w.map (fld 0 b), f < 2 ^ bl := by
    intro f hf; obtain ⟨c, hc, rfl⟩ := List.mem_map.mp hf
    exact (fld_lt_of_range 0 b bl (by omega) hab c (hw c hc)).1
  obtain ⟨sl, sb, sv⟩ := specPack_val bl (w.map (fld 0 b)) (by simp [hlen]) hfl
  have hspec : Spec.simpleBitPack bl w = Spec.bitsToBytes (32 * bl) (((w.map (fld 0 b)).map (fun f => Spec.integerToBits f bl)).flatten) := by
    unfold Spec.simpleBitPack; rw [List.map_map]; congr 2
  rw [hspec]
  exact numF_inj 256 (by omega) _ _ (by rw [hol, sl]) hob sb (by rw [hov, sv])

/-! ### unpacking -/

/-- the fields the standard reads out of a byte string have, in base `2^c`, the value of the byte string -/
theorem specFields_val (c : Nat) (v : List Nat) (hv : ∀ x ∈ v, x < 256) (hl : v.length = 32 * c) :
    let fs := (Spec.groups c 256 (Spec.bytesToBits v)).map Spec.bitsToInteger
    fs.length = 256 ∧ (∀ f ∈ fs, f < 2 ^ c) ∧ numF (2 ^ c) fs = numF 256 v := by
  intro fs
  have hzl : (Spec.bytesToBits v).length = 256 * c := by rw [bytesToBits_len, hl]; omega
  have hge := groups_each c 256 (Spec.bytesToBits v) (by omega)
  have hgb := groups_bits c 256 (Spec.bytesToBits v) (bytesToBits_bits v)
  refine ⟨by simp [fs, groups_len], ?_, ?_⟩
  · intro f hf
    obtain ⟨g, hg, rfl⟩ := List.mem_map.mp hf
    rw [bitsToInteger_eq_numF]
    have := numF_lt 2 (by omega) g (hgb g hg)
    rw [hge g hg] at this; exact this
  · have e : fs = (Spec.groups c 256 (Spec.bytesToBits v)).map (numF 2) := by
      apply List.map_congr_left; intro g _; exact bitsToInteger_eq_numF g
    rw [e, ← numF_flatten 2 c _ hge, groups_flatten c 256 _ hzl, bytesToBits_val v hv]

/-- **`bit_unpack` with `a > 0` is FIPS 204 Algorithm 19 (`BitUnpack`) as written, followed by the range test `[-a, b]`**
    (the standard leaves that test to the caller; the crate does it inside): for every byte string of the right length -/
theorem bitUnpack_is_algorithm_19 (m : Mode) (v : List Nat) (a b : Int) (bl : Nat) (ha : 0 < a ∧ a < 1048576) (hb : 1 ≤ b ∧ b < 1048576)
    (hbl : bitLen m (a + b) = .ok bl) (hbl2 : 1 ≤ bl ∧ bl ≤ 20) (hv : ∀ x ∈ v, x < 256) (hlen : v.length = 32 * bl) :
    bitUnpack m v a b = (do
      let ok ← isInRange m (Spec.bitUnpack bl b v) a b
      if ok then pure (some (Spec.bitUnpack bl b v)) else pure none) := by
  obtain ⟨w, hwl, hf, hval, he⟩ := bitUnpack_shape m v a b bl ⟨by omega, ha.2⟩ hb hbl hbl2 hv hlen
  obtain ⟨sl, sb, sv⟩ := specFields_val bl v hv hlen
  have hmaps : w.map (fld a b) = (Spec.groups bl 256 (Spec.bytesToBits v)).map Spec.bitsToInteger :=
    numF_inj (2 ^ bl) Nat.one_le_two_pow _ _ (by rw [sl]; simp [hwl])
      (fun d hd => by obtain ⟨c, hc, rfl⟩ := List.mem_map.mp hd; exact (fld_lt_of_fieldOk a b bl c (hf c hc)).1) sb (by rw [hval, sv])
  have hw : w = Spec.bitUnpack bl b v := by
    unfold Spec.bitUnpack
    apply List.ext_getElem
    · simp [hwl, groups_len]
    · intro i h1 h2
      have hi := congrArg (fun l => l[i]?) hmaps
      simp only [List.getElem?_map] at hi
      rw [List.getElem?_eq_getElem h1] at hi
      have h3 : i < (Spec.groups bl 256 (Spec.bytesToBits v)).length := by simpa [groups_len] using h2
      rw [List.getElem?_eq_getElem h3] at hi
      simp only [Option.map_some, Option.some.injEq] at hi
      simp only [List.getElem_map]
      have hfo := hf w[i] (List.getElem_mem h1)
      unfold fieldOk at hfo
      rw [if_neg (show ¬ a = 0 by omega)] at hfo
      unfold fld at hi
      rw [if_neg (show ¬ a = 0 by omega)] at hi
      have : ((b - w[i]).toNat : Int) = b - w[i] := Int.toNat_of_nonneg (by omega)
      rw [← hi, this]; omega
  rw [he, hw]

/-- **`bit_unpack` with `a = 0` (what `simple_bit_unpack` calls) is FIPS 204 Algorithm 18 (`SimpleBitUnpack`) as written,
    followed by the range test `[0, b]`** -/
theorem bitUnpack_is_algorithm_18 (m : Mode) (v : List Nat) (b : Int) (bl : Nat) (hb : 1 ≤ b ∧ b < 1048576)
    (hbl : bitLen m (0 + b) = .ok bl) (hbl2 : 1 ≤ bl ∧ bl ≤ 20) (hv : ∀ x ∈ v, x < 256) (hlen : v.length = 32 * bl) :
    bitUnpack m v 0 b = (do
      let ok ← isInRange m (Spec.simpleBitUnpack bl v) 0 b
      if ok then pure (some (Spec.simpleBitUnpack bl v)) else pure none) := by
  obtain ⟨w, hwl, hf, hval, he⟩ := bitUnpack_shape m v 0 b bl ⟨by omega, by omega⟩ hb hbl hbl2 hv hlen
  obtain ⟨sl, sb, sv⟩ := specFields_val bl v hv hlen
  have hmaps : w.map (fld 0 b) = (Spec.groups bl 256 (Spec.bytesToBits v)).map Spec.bitsToInteger :=
    numF_inj (2 ^ bl) Nat.one_le_two_pow _ _ (by rw [sl]; simp [hwl])
      (fun d hd => by obtain ⟨c, hc, rfl⟩ := List.mem_map.mp hd; exact (fld_lt_of_fieldOk 0 b bl c (hf c hc)).1) sb (by rw [hval, sv])
  have hw : w = Spec.simpleBitUnpack bl v := by
    unfold Spec.simpleBitUnpack
    apply List.ext_getElem
    · simp [hwl, groups_len]
    · intro i h1 h2
      have hi := congrArg (fun l => l[i]?) hmaps
      simp only [List.getElem?_map] at hi
      rw [List.getElem?_eq_getElem h1] at hi
      have h3 : i < (Spec.groups bl 256 (Spec.bytesToBits v)).length := by simpa [groups_len] using h2
      rw [List.getElem?_eq_getElem h3] at hi
      simp only [Option.map_some, Option.some.injEq] at hi
      simp only [List.getElem_map]
      have hfo := hf w[i] (List.getElem_mem h1)
      unfold fieldOk at hfo
      rw [if_pos rfl] at hfo
      unfold fld at hi
      rw [if_pos rfl] at hi
      have : ((w[i]).toNat : Int) = w[i] := Int.toNat_of_nonneg (by omega)
      rw [← hi, this]
  rw [he, hw]

end Fips204.Impl
