/-
  Lemmas.SpecSign — the arithmetic of one signing attempt in the standard's terms: the commitment `w = NTT⁻¹(Â ∘ NTT(y))` and the
  products `c s = NTT⁻¹(NTT(c) ∘ NTT(s))` of Algorithm 7 (lines 12, 18, 19, 25) are what the exact-arithmetic specification of the
  third session (`commitS`, `cmul`: the negacyclic product) computes.
-/
import Fips204.Lemmas.SpecKeygen
import Fips204.Lemmas.SignSpec
import Fips204.Lemmas.MulPipeline
namespace Fips204.Impl
open Fips204 Fips204.Gen Fips204.K

theorem commitRow_is_spec (row : List Poly) (y : List Poly) :
    canon ((invS 8 1 (rowS row y zeroPoly)).map (fun x => FS * x)) = Spec.invNtt (Spec.rowTimes row (y.map Spec.ntt)) := by
  apply canon_eq_of_cong
  · unfold Spec.invNtt
    refine CongL.map ?_ _ _ (fun a b hab => cg.trans (mul_cg FS_cg hab) (cg_mod' _))
    refine invS_is_spec 8 1 _ _ ?_ (by omega) (by decide)
    unfold Spec.rowTimes
    exact rowS_is_spec row y zeroPoly (List.replicate 256 0) (CongL.refl _)
  · intro x hx
    unfold Spec.invNtt at hx
    obtain ⟨z, _, rfl⟩ := List.mem_map.mp hx
    exact ⟨Int.emod_nonneg _ (by decide), Int.emod_lt_of_pos _ (by decide)⟩

/-- line 12 of Algorithm 7: `w ← NTT⁻¹(Â ∘ NTT(y))` -/
theorem commitS_is_spec (aHat : List (List Poly)) (y : List Poly) :
    commitS aHat y = aHat.map (fun row => Spec.invNtt (Spec.rowTimes row (y.map Spec.ntt))) := by
  unfold commitS
  apply List.map_congr_left
  intro row _
  exact commitRow_is_spec row y

/-- lines 18, 19, 25 of Algorithm 7: the negacyclic product `c s` is `NTT⁻¹(NTT(c) ∘ NTT(s))` with the standard's transforms -/
theorem cmul_is_spec (c s : Poly) (lc : c.length = 256) (ls : s.length = 256) :
    cmul c s = Spec.invNtt (Spec.mulQ (Spec.ntt c) (Spec.ntt s)) := by
  unfold cmul
  apply canon_eq_of_cong
  · -- negMul c s  ≅  FS * (2^8 * negMul c s)  ≅  FS * invS (nttS (negMul c s))  ≅  FS * invS (nttS c ∘ nttS s)  ≅  the standard's
    have hl := negMul_length c s lc ls
    have h1 : CongL (negMul c s) (((negMul c s).map (fun x => 2 ^ 8 * x)).map (fun x => FS * x)) := by
      refine ⟨by simp, fun i h1 h2 => ?_⟩
      rw [List.getElem_map, List.getElem_map]
      exact (fs_scale _).symm
    have h2 : CongL (((negMul c s).map (fun x => 2 ^ 8 * x)).map (fun x => FS * x))
        ((invS 8 1 (nttS 8 1 (negMul c s))).map (fun x => FS * x)) :=
      (invS_nttS 8 0 1 1 (negMul c s) (by rw [hl]) (by decide) (by decide) (by decide) (by decide)).symm.map _ _ (fun a b h => h.mul_left FS)
    have h3 : CongL ((invS 8 1 (nttS 8 1 (negMul c s))).map (fun x => FS * x))
        ((invS 8 1 (List.zipWith (fun x y => x * y) (nttS 8 1 c) (nttS 8 1 s))).map (fun x => FS * x)) :=
      (invS_cong 8 1 _ _ (nttS_negMul c s lc ls)).map _ _ (fun a b h => h.mul_left FS)
    have h4 : CongL ((invS 8 1 (List.zipWith (fun x y => x * y) (nttS 8 1 c) (nttS 8 1 s))).map (fun x => FS * x))
        (Spec.invNtt (Spec.mulQ (Spec.ntt c) (Spec.ntt s))) := by
      unfold Spec.invNtt Spec.mulQ
      refine CongL.map ?_ _ _ (fun a b hab => cg.trans (mul_cg FS_cg hab) (cg_mod' _))
      refine invS_is_spec 8 1 _ _ ?_ (by omega) (by decide)
      exact (nttS_is_spec 8 1 c c (CongL.refl c) (by omega) (by decide)).zipWith (nttS_is_spec 8 1 s s (CongL.refl s) (by omega) (by decide)) _ _
        (fun p q p' q' e1 e2 => cg.trans (mul_cg e1 e2) (cg_mod' _))
    exact h1.trans (h2.trans (h3.trans h4))
  · intro x hx
    unfold Spec.invNtt at hx
    obtain ⟨z, _, rfl⟩ := List.mem_map.mp hx
    exact ⟨Int.emod_nonneg _ (by decide), Int.emod_lt_of_pos _ (by decide)⟩


/-! ### one attempt of the loop -/

theorem agrees_ite {α} (c : Prop) [Decidable c] (x y : M α) (a b : Option α) (h1 : Agrees x a) (h2 : Agrees y b) :
    Agrees (if c then x else y) (if c then a else b) := by
  split <;> assumption

theorem spec_bitUnpack_length (c : Nat) (b : Int) (v : List Nat) : (Spec.bitUnpack c b v).length = 256 := by
  unfold Spec.bitUnpack; rw [List.length_map, groups_len]

theorem spec_expandMask_shape (H : List Nat → Nat → List Nat) (c : Nat) (g : Int) (l : Nat) (rho : List Nat) (mu : Nat) :
    (Spec.expandMask H c g l rho mu).length = l ∧ ∀ q ∈ Spec.expandMask H c g l rho mu, q.length = 256 := by
  unfold Spec.expandMask
  refine ⟨by simp, fun q hq => ?_⟩
  obtain ⟨r, _, rfl⟩ := List.mem_map.mp hq
  exact spec_bitUnpack_length _ _ _

theorem spec_commit_shape (aHat : List (List Poly)) (y : List Poly) (k : Nat)
    (hA : aHat.length = k ∧ ∀ row ∈ aHat, ∀ q ∈ row, q.length = 256) (hy : ∀ q ∈ y, q.length = 256) :
    Sh k (aHat.map (fun row => Spec.invNtt (Spec.rowTimes row (y.map Spec.ntt)))) := by
  refine ⟨by rw [List.length_map, hA.1], fun q hq => ?_⟩
  obtain ⟨row, hrow, rfl⟩ := List.mem_map.mp hq
  unfold Spec.invNtt
  rw [List.length_map]
  apply spec_invRec_length 8 1
  unfold Spec.rowTimes
  exact spec_rowTimes_length _ _ List.length_replicate (zipWith_mulQ_lengths _ _ (hA.2 row hrow) (fun q hq' => by
    obtain ⟨z, hz, rfl⟩ := List.mem_map.mp hq'
    exact spec_ntt_length z (hy z hz)))

theorem onesAll_is_spec (h : List Poly) : onesAll h = Spec.countOnes h := rfl

theorem zw3L_is_spec (g : Int → Int → Int → Int) (a b c : List Poly) : attemptSpec.zw3L g a b c = Spec.zipWith3V g a b c := rfl

/-- **one attempt of the signing loop is lines 11-29 of FIPS 204 Algorithm 7 as written** (on the vectors a private key represents) -/
theorem attemptSpec_is_algorithm_7 (m : Mode) (O : Oracles) (hO : OracleOk O) (hP : OraclePrefix O) (p : ParamSet) (blz : Nat) (cfg : VerCfg p blz)
    (s1 s2 t0 : List Poly) (h1 : ∀ q ∈ s1, q.length = 256) (h2 : ∀ q ∈ s2, q.length = 256) (h0 : ∀ q ∈ t0, q.length = 256)
    (aHat : List (List Poly)) (hA : aHat.length = p.k ∧ ∀ row ∈ aHat, row.length = p.l ∧ ∀ q ∈ row, q.length = 256 ∧ Res q)
    (mu rhoPP : List Nat) (kappa : Nat) (hkap : kappa + p.l ≤ 65536) :
    Agrees (attemptSpec m O p s1 s2 t0 aHat mu rhoPP (kappa : Int))
      (Spec.signAttempt (specParams p) O.h (8 + 1360 * O.fuelScale) s1 s2 t0 aHat mu rhoPP kappa) := by
  have hblz : 1 + Spec.bitlen (p.gamma1 - 1) = blz := by
    rcases cfg.sig.g1 with ⟨h, rfl⟩ | ⟨h, rfl⟩ <;> rw [h] <;> decide
  have hw1b : Spec.bitlen ((8380417 - 1) / (2 * p.gamma2) - 1) = p.w1Bits := by
    rcases cfg.g2 with ⟨h, h2⟩ | ⟨h, h2⟩ <;> rw [h, h2] <;> decide
  have hgg : G2 p.gamma2 := by
    rcases cfg.g2 with ⟨h, _⟩ | ⟨h, _⟩
    · exact Or.inl h
    · exact Or.inr h
  have hl7 := cfg.l7
  unfold attemptSpec Spec.signAttempt specParams
  simp only [hblz, hw1b]
  rw [expandMask_is_algorithm_34 m O hO hP p blz cfg.sig rhoPP kappa hkap (by omega), ok_bind, commitS_is_spec]
  obtain ⟨yl, yr⟩ := spec_expandMask_shape O.h blz p.gamma1 p.l rhoPP kappa
  have shw := spec_commit_shape aHat (Spec.expandMask O.h blz p.gamma1 p.l rhoPP kappa) p.k
    ⟨hA.1, fun row hrow q hq => ((hA.2 row hrow).2 q hq).1⟩ yr
  have hw1 := w1Encode_is_algorithm_28 m p cfg.g2
    ((aHat.map (fun row => Spec.invNtt (Spec.rowTimes row ((Spec.expandMask O.h blz p.gamma1 p.l rhoPP kappa).map Spec.ntt)))).map
      (fun q => q.map (Spec.highBits p.gamma2)))
    ⟨by rw [List.length_map]; exact shw.1, fun q hq => by
      obtain ⟨r, hr, rfl⟩ := List.mem_map.mp hq
      rw [List.length_map]; exact shw.2 r hr⟩
    (fun q hq x hx => by
      obtain ⟨r, _, rfl⟩ := List.mem_map.mp hq
      obtain ⟨v, _, rfl⟩ := List.mem_map.mp hx
      unfold Spec.highBits
      rcases hgg with h | h
      · rw [h]; have := spec_decompose_r1_44 v; have e : ((Q:Int) - 1) / (2 * 95232) - 1 = 43 := by decide
        rw [e]; exact this
      · rw [h]; have := spec_decompose_r1_65 v; have e : ((Q:Int) - 1) / (2 * 261888) - 1 = 15 := by decide
        rw [e]; exact this)
  rw [hw1, ok_bind]
  simp only [ParamSet.lambdaDiv4]
  have hcnp := sampleInBall_np m O hO false p.tau
    (O.h (mu ++ Spec.w1Encode p.w1Bits ((aHat.map (fun row => Spec.invNtt (Spec.rowTimes row ((Spec.expandMask O.h blz p.gamma1 p.l rhoPP kappa).map Spec.ntt)))).map
      (fun q => q.map (Spec.highBits p.gamma2)))) (p.lambda / 4)) cfg.tau
  rw [sampleInBall_is_algorithm_29 m O hO p.tau _ cfg.tau] at hcnp ⊢
  cases hsb : Spec.sampleInBall p.tau.toNat (O.h (O.h (mu ++ Spec.w1Encode p.w1Bits ((aHat.map (fun row => Spec.invNtt (Spec.rowTimes row ((Spec.expandMask O.h blz p.gamma1 p.l rhoPP kappa).map Spec.ntt)))).map
      (fun q => q.map (Spec.highBits p.gamma2)))) (p.lambda / 4)) (8 + 1360 * O.fuelScale)) with
  | none => exact ⟨_, rfl⟩
  | some c =>
    rw [hsb] at hcnp
    have hc := NoPanic.ok_elim hcnp
    simp only [ofSpec, ok_bind]
    have e1 : s1.map (cmul c) = s1.map (fun s => Spec.invNtt (Spec.mulQ (Spec.ntt c) (Spec.ntt s))) :=
      List.map_congr_left (fun s hs => cmul_is_spec c s hc.1 (h1 s hs))
    have e2 : s2.map (cmul c) = s2.map (fun s => Spec.invNtt (Spec.mulQ (Spec.ntt c) (Spec.ntt s))) :=
      List.map_congr_left (fun s hs => cmul_is_spec c s hc.1 (h2 s hs))
    have e0 : t0.map (cmul c) = t0.map (fun s => Spec.invNtt (Spec.mulQ (Spec.ntt c) (Spec.ntt s))) :=
      List.map_congr_left (fun s hs => cmul_is_spec c s hc.1 (h0 s hs))
    rw [e1, e2, e0]
    simp only [normInfS_is_spec, onesAll_is_spec, zw3L_is_spec]
    have hom : (p.omega.toNat : Int) = p.omega := Int.toNat_of_nonneg cfg.sig.om
    rw [hom]
    exact agrees_ite _ _ _ _ _ rfl (agrees_ite _ _ _ _ _ rfl rfl)


/-! ### the rejection loop and Algorithm 7 -/

theorem loopSpec_is_algorithm_7 (m : Mode) (O : Oracles) (hO : OracleOk O) (hP : OraclePrefix O) (p : ParamSet) (blz : Nat) (cfg : VerCfg p blz)
    (s1 s2 t0 : List Poly) (h1 : ∀ q ∈ s1, q.length = 256) (h2 : ∀ q ∈ s2, q.length = 256) (h0 : ∀ q ∈ t0, q.length = 256)
    (aHat : List (List Poly)) (hA : aHat.length = p.k ∧ ∀ row ∈ aHat, row.length = p.l ∧ ∀ q ∈ row, q.length = 256 ∧ Res q)
    (mu rhoPP : List Nat) :
    ∀ (fuel kappa it : Nat), kappa + fuel * p.l ≤ 65535 →
      match Spec.signLoop (specParams p) O.h (8 + 1360 * O.fuelScale) s1 s2 t0 aHat mu rhoPP fuel kappa with
      | some r => ∃ it', loopSpec m O p s1 s2 t0 aHat mu rhoPP fuel (kappa : Int) it = .ok (r.1, r.2.1, r.2.2, it')
      | none => ∃ s, loopSpec m O p s1 s2 t0 aHat mu rhoPP fuel (kappa : Int) it = .error (.fuel s) := by
  intro fuel
  induction fuel with
  | zero => intro kappa it _; exact ⟨_, rfl⟩
  | succ fuel ih =>
    intro kappa it hroom
    have hmul : (fuel + 1) * p.l = fuel * p.l + p.l := by rw [Nat.add_mul, Nat.one_mul]
    have hl7 := cfg.l7
    have hatt := attemptSpec_is_algorithm_7 m O hO hP p blz cfg s1 s2 t0 h1 h2 h0 aHat hA mu rhoPP kappa (by omega)
    unfold loopSpec Spec.signLoop
    have hl : (specParams p).l = p.l := rfl
    cases hsa : Spec.signAttempt (specParams p) O.h (8 + 1360 * O.fuelScale) s1 s2 t0 aHat mu rhoPP kappa with
    | none =>
      rw [hsa] at hatt
      obtain ⟨s, hs⟩ := hatt
      exact ⟨s, by rw [hs]; rfl⟩
    | some r =>
      rw [hsa] at hatt
      cases r with
      | some t =>
        obtain ⟨c, z, h⟩ := t
        have : attemptSpec m O p s1 s2 t0 aHat mu rhoPP (kappa : Int) = .ok (some (c, z, h)) := hatt
        exact ⟨it + 1, by rw [this]; rfl⟩
      | none =>
        have hn : attemptSpec m O p s1 s2 t0 aHat mu rhoPP (kappa : Int) = .ok none := hatt
        simp only [hl]
        have hk' : arith .u16 m "ml_dsa.rs:sign_internal:kappa_ctr+=L" ((kappa : Int) + Int.ofNat p.l) = .ok (((kappa + p.l : Nat) : Int)) := by
          have e : (kappa : Int) + Int.ofNat p.l = ((kappa + p.l : Nat) : Int) := by simp
          rw [e]
          exact arith_ok _ _ _ _ (by simp only [IT.lo]; omega) (by simp only [IT.hi]; omega)
        have hrec := ih (kappa + p.l) (it + 1) (by omega)
        have hstep : loopSpec m O p s1 s2 t0 aHat mu rhoPP (fuel + 1) (kappa : Int) it =
            loopSpec m O p s1 s2 t0 aHat mu rhoPP fuel (((kappa + p.l : Nat) : Int)) (it + 1) := by
          rw [loopSpec, hn, ok_bind]
          simp only []
          rw [if_neg (by omega), hk', ok_bind]
        rw [← loopSpec] at *
        rw [hstep]
        exact hrec


theorem muOf_formatted_sign (O : Oracles) (tr msg ctx oid phm : List Nat) (nist : Bool) :
    muOf O domPure_sign domHash_sign tr msg ctx oid phm nist = O.h (tr ++ Spec.formatted nist msg ctx oid phm) 64 := by
  unfold muOf Spec.formatted
  cases nist with
  | true => rfl
  | false =>
    simp only [Bool.false_eq_true, if_false]
    split
    · simp [domPure_sign, ctxLenByte, List.append_assoc]
    · simp [domHash_sign, ctxLenByte, List.append_assoc]

/-- the signature bytes of the specification against a model result that also counts attempts -/
def AgreesSig (r : M SignOut) : Option (List Nat) → Prop
  | some sig => ∃ it, r = .ok { sig := sig, iters := it }
  | none => ∃ s, r = .error (.fuel s)

/-- **`signSpec` is Algorithm 7 as the standard writes it**, on the vectors a private-key struct represents -/
theorem signSpec_is_algorithm_7 (m : Mode) (O : Oracles) (hO : OracleOk O) (hP : OraclePrefix O) (p : ParamSet) (blz : Nat) (cfg : VerCfg p blz)
    (hk : 1 ≤ p.k ∧ p.k ≤ 8) (he : p.eta = 2 ∨ p.eta = 4) (fuel : Nat) (hfuel : fuel * p.l ≤ 65535)
    (sk : PrivateKey) (s1 s2 t0 : List Poly) (hsk : SkOf m p sk s1 s2 t0) (hok : SkOk p sk) (msg ctx oid phm rnd : List Nat) (nist : Bool) :
    AgreesSig (signSpec m O p fuel sk.rho sk.key sk.tr s1 s2 t0 msg ctx oid phm rnd nist)
      (Spec.signInternal (specParams p) O.h O.g (1680 * O.fuelScale) (8 + 1360 * O.fuelScale) fuel sk.rho sk.key sk.tr s1 s2 t0
        (Spec.formatted nist msg ctx oid phm) rnd) := by
  have hblz : 1 + Spec.bitlen (p.gamma1 - 1) = blz := by
    rcases cfg.sig.g1 with ⟨h, hb⟩ | ⟨h, hb⟩ <;> rw [h, hb] <;> decide
  unfold signSpec Spec.signInternal
  rw [expandA_is_algorithm_32 m O hO p sk.rho hsk.rho, muOf_formatted_sign]
  have hnp := expandA_np m O hO false p sk.rho hsk.rho
  rw [expandA_is_algorithm_32 m O hO p sk.rho hsk.rho] at hnp
  simp only [specParams] at *
  cases hA' : Spec.expandA (fun x => O.g x (1680 * O.fuelScale)) p.k p.l sk.rho with
  | none => exact ⟨_, rfl⟩
  | some aHat =>
    rw [hA'] at hnp
    have hA : aHat.length = p.k ∧ ∀ row ∈ aHat, row.length = p.l ∧ ∀ q ∈ row, q.length = 256 ∧ Res q := by
      rcases hnp with ⟨v, hv, hpv⟩ | ⟨s, hs⟩
      · have := ok_inj hv; subst this; exact hpv
      · exact absurd hs (by simp [ofSpec])
    simp only [ofSpec]
    rw [ok_bind]
    have hloop := loopSpec_is_algorithm_7 m O hO hP p blz cfg s1 s2 t0 hsk.v1.1.2 hsk.v2.1.2 hsk.v0.1.2 aHat hA
      (O.h (sk.tr ++ Spec.formatted nist msg ctx oid phm) 64)
      (O.h (sk.key ++ rnd ++ O.h (sk.tr ++ Spec.formatted nist msg ctx oid phm) 64) 64) fuel 0 0 (by omega)
    simp only [specParams] at hloop
    have hcast : ((0 : Nat) : Int) = 0 := rfl
    rw [hcast] at hloop
    cases hsl : Spec.signLoop { tau := p.tau.toNat, lambda := p.lambda, gamma1 := p.gamma1, gamma2 := p.gamma2, k := p.k, l := p.l, eta := p.eta, beta := p.beta, omega := p.omega.toNat }
        O.h (8 + 1360 * O.fuelScale) s1 s2 t0 aHat (O.h (sk.tr ++ Spec.formatted nist msg ctx oid phm) 64)
        (O.h (sk.key ++ rnd ++ O.h (sk.tr ++ Spec.formatted nist msg ctx oid phm) 64) 64) fuel 0 with
    | none =>
      rw [hsl] at hloop
      obtain ⟨s, hs⟩ := hloop
      exact ⟨s, by rw [hs]; rfl⟩
    | some r =>
      rw [hsl] at hloop
      obtain ⟨it', hit⟩ := hloop
      obtain ⟨c, z, h⟩ := r
      simp only [] at hit
      rw [hit, ok_bind]
      -- the accepted triple has the shapes and ranges sigEncode needs: read off the crate-side loop
      have hfl : ((fuel * p.l : Nat) : Int) ≤ 65535 := Int.ofNat_le.mpr hfuel
      rw [Int.natCast_mul] at hfl
      have heq := signLoop_eq_spec m O hO p blz cfg hk he sk s1 s2 t0 hsk aHat hA
        (O.h (sk.tr ++ Spec.formatted nist msg ctx oid phm) 64)
        (O.h (sk.key ++ rnd ++ O.h (sk.tr ++ Spec.formatted nist msg ctx oid phm) 64) 64) fuel 0 0 (by omega) (by omega)
      have hnl := signLoop_np m O hO p blz cfg hk sk hok aHat hA
        (O.h (sk.tr ++ Spec.formatted nist msg ctx oid phm) 64)
        (O.h (sk.key ++ rnd ++ O.h (sk.tr ++ Spec.formatted nist msg ctx oid phm) 64) 64) fuel 0 0 (by omega) (by omega)
      rw [hit] at heq
      rcases hnl with ⟨v, hv, hpv⟩ | ⟨s, hs⟩
      · rw [hv, ok_bind, pure_eq] at heq
        have e := ok_inj heq
        obtain ⟨vc, vz, vh, vit⟩ := v
        simp only [centerLoop, Prod.mk.injEq] at e
        obtain ⟨e1, e2, e3, e4⟩ := e
        obtain ⟨c1, c2, c3, c4, c5, c6⟩ := hpv vc vz vh rfl
        subst e1 e2 e3
        have henc := sigEncode_is_algorithm_26 m p blz cfg.sig vc (vz.map (fun q => q.map (modpm Q))) vh c1
          ⟨by rw [List.length_map]; exact c2.1, fun q hq => by
            obtain ⟨q0, hq0, rfl⟩ := List.mem_map.mp hq
            rw [List.length_map]; exact c2.2 q0 hq0⟩
          (fun q hq x hx => by
            obtain ⟨q0, hq0, rfl⟩ := List.mem_map.mp hq
            obtain ⟨x0, hx0, rfl⟩ := List.mem_map.mp hx
            exact (c3 q0 hq0).2 x0 hx0) c4 c5 c6
        rw [henc, ok_bind, hblz]
        exact ⟨_, rfl⟩
      · rw [hs] at heq
        exact absurd heq (by intro h; cases h)

end Fips204.Impl
