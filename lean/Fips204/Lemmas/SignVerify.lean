import Fips204.Lemmas.RecoverW1
import Fips204.Lemmas.SigDecodeEncode
/-! An accepted signing attempt passes the verifier's test (exact specifications): the part of Algorithm 8 after
    signature decoding returns `true` on what lines 11-29 of Algorithm 7 produced. -/
namespace Fips204.Impl
open Fips204 Fips204.Gen Fips204.K

/-- lines 5-13 of Algorithm 8 after `sigDecode` and `ExpandA`, exact arithmetic -/
def verifyCoreS (m : Mode) (O : Oracles) (p : ParamSet) (aHat : List (List Poly)) (t1 : List Poly) (mu : List Nat)
    (cTilde : List Nat) (z h : List Poly) : M Bool := do
  let c ← sampleInBall m O false p.tau cTilde
  let w1 := List.zipWith (fun hp wp => List.zipWith (fun hh r => Spec.useHint p.gamma2 hh r) hp wp) h (wApproxS aHat z c t1)
  let w1t ← w1Encode m p w1 p.w1Len
  pure (decide (normInfS z < p.gamma1 - p.beta) && decide (cTilde = O.h (mu ++ w1t) p.lambdaDiv4))

theorem attempt_verifies (m : Mode) (O : Oracles) (hO : OracleOk O) (p : ParamSet)
    (hg : p.gamma2 = 95232 ∨ p.gamma2 = 261888) (hbeta : p.beta = p.eta * p.tau) (hbg : p.beta ≤ p.gamma2)
    (htau : 0 ≤ p.tau ∧ p.tau ≤ 64) (heta : 0 ≤ p.eta ∧ p.eta ≤ 4)
    (aHat : List (List Poly)) (s1 s2 : List Poly)
    (hA : ∀ row ∈ aHat, ∀ a ∈ row, a.length = 256) (hs1 : ∀ u ∈ s1, u.length = 256) (hs2 : ∀ u ∈ s2, u.length = 256)
    (hs2b : ∀ u ∈ s2, ∀ x ∈ u, -p.eta ≤ x ∧ x ≤ p.eta) (hk : aHat.length = s2.length)
    (mu rhoPP : List Nat) (kappa : Int)
    (hyS : ∀ y, expandMask m O p rhoPP kappa = .ok y → y.length = s1.length ∧ ∀ u ∈ y, u.length = 256)
    (cT : List Nat) (z h : List Poly)
    (hatt : attemptSpec m O p s1 s2 ((List.zipWith (fun row s2r => tRowS row s1 s2r) aHat s2).map (fun q => q.map (fun x => (Spec.power2round x).2)))
      aHat mu rhoPP kappa = .ok (some (cT, z, h))) :
    verifyCoreS m O p aHat ((List.zipWith (fun row s2r => tRowS row s1 s2r) aHat s2).map (fun q => q.map (fun x => (Spec.power2round x).1)))
      mu cT z h = .ok true := by
  unfold attemptSpec at hatt
  obtain ⟨y, hy, h1⟩ := bind_ok_inv hatt
  simp only [] at h1
  obtain ⟨w1t, hw1t, h2⟩ := bind_ok_inv h1
  obtain ⟨c, hc, h3⟩ := bind_ok_inv h2
  split at h3
  · simp [pure_eq] at h3
  rename_i hr1
  split at h3
  · simp [pure_eq] at h3
  rename_i hr2
  simp only [pure_eq] at h3
  have e := ok_inj h3
  simp only [Option.some.injEq, Prod.mk.injEq] at e
  obtain ⟨e1, e2, e3⟩ := e
  subst e1 e2 e3
  simp only [Bool.or_eq_true, decide_eq_true_eq, not_or, Int.not_le, ge_iff_le] at hr1 hr2
  obtain ⟨hyl, hy256⟩ := hyS y hy
  have hTri : Tri c ∧ nz c = p.tau.toNat := by
    rcases sampleInBall_np' m O hO false p.tau _ htau with ⟨v, hv, hp⟩ | ⟨s, hs⟩
    · rw [hc] at hv; have := ok_inj hv; subst this; exact hp
    · rw [hc] at hs; cases hs
  have hn : (nz c : Int) = p.tau := by rw [hTri.2]; exact Int.toNat_of_nonneg htau.1
  have hb0 : 0 ≤ p.beta := by rw [hbeta]; exact Int.mul_nonneg heta.1 htau.1
  have hsmall : p.eta * p.tau ≤ 4190208 := by
    have := Int.mul_le_mul heta.2 htau.2 htau.1 (by omega : (0 : Int) ≤ 4)
    omega
  have hcs2 : ∀ q ∈ s2.map (cmul c), ∀ x ∈ q, -p.beta ≤ modpm Q x ∧ modpm Q x ≤ p.beta := by
    intro q hq x hx
    obtain ⟨u, hu, rfl⟩ := List.mem_map.mp hq
    have := cmul_centered_bound c u p.tau p.eta hTri.1 hn (hs2 u hu) (hs2b u hu) heta.1 hsmall x hx
    rw [hbeta]; exact this
  have hrec := verifier_recovers_w1 p.gamma2 p.beta hg ⟨hb0, hbg⟩ aHat s1 s2 y c hA hs1 hs2 hy256 hyl hk hTri.1.1 hcs2 hr1.2 hr2.1
  unfold verifyCoreS
  rw [hc, ok_bind]
  simp only []
  rw [hrec, hw1t, ok_bind, pure_eq]
  congr 1
  simp only [Bool.and_eq_true, decide_eq_true_eq, and_true]
  exact hr1.1

/-- whatever the rejection loop returns was produced by an accepted attempt, so it passes the verifier's test -/
theorem loop_verifies (m : Mode) (O : Oracles) (hO : OracleOk O) (p : ParamSet)
    (hg : p.gamma2 = 95232 ∨ p.gamma2 = 261888) (hbeta : p.beta = p.eta * p.tau) (hbg : p.beta ≤ p.gamma2)
    (htau : 0 ≤ p.tau ∧ p.tau ≤ 64) (heta : 0 ≤ p.eta ∧ p.eta ≤ 4)
    (aHat : List (List Poly)) (s1 s2 : List Poly)
    (hA : ∀ row ∈ aHat, ∀ a ∈ row, a.length = 256) (hs1 : ∀ u ∈ s1, u.length = 256) (hs2 : ∀ u ∈ s2, u.length = 256)
    (hs2b : ∀ u ∈ s2, ∀ x ∈ u, -p.eta ≤ x ∧ x ≤ p.eta) (hk : aHat.length = s2.length)
    (mu rhoPP : List Nat)
    (hyS : ∀ kappa y, expandMask m O p rhoPP kappa = .ok y → y.length = s1.length ∧ ∀ u ∈ y, u.length = 256)
    (cT : List Nat) (z h : List Poly) (n : Nat) :
    ∀ (fuel : Nat) (kappa : Int) (it : Nat),
      loopSpec m O p s1 s2 ((List.zipWith (fun row s2r => tRowS row s1 s2r) aHat s2).map (fun q => q.map (fun x => (Spec.power2round x).2)))
        aHat mu rhoPP fuel kappa it = .ok (cT, z, h, n) →
      verifyCoreS m O p aHat ((List.zipWith (fun row s2r => tRowS row s1 s2r) aHat s2).map (fun q => q.map (fun x => (Spec.power2round x).1)))
        mu cT z h = .ok true := by
  intro fuel
  induction fuel with
  | zero => intro kappa it hl; unfold loopSpec at hl; cases hl
  | succ fuel ih =>
    intro kappa it hl
    unfold loopSpec at hl
    obtain ⟨r, hr, hl⟩ := bind_ok_inv hl
    cases r with
    | some t =>
      obtain ⟨c', z', h'⟩ := t
      simp only [pure_eq] at hl
      have e := ok_inj hl
      simp only [Prod.mk.injEq] at e
      obtain ⟨e1, e2, e3, _⟩ := e
      subst e1 e2 e3
      exact attempt_verifies m O hO p hg hbeta hbg htau heta aHat s1 s2 hA hs1 hs2 hs2b hk mu rhoPP kappa (hyS kappa) _ _ _ hr
    | none =>
      simp only [] at hl
      split at hl
      · cases hl
      · obtain ⟨k', _, hl⟩ := bind_ok_inv hl
        exact ih k' (it + 1) hl

/-- what an accepted attempt returns is inside the domain of the signature encoder -/
theorem attempt_wf (m : Mode) (O : Oracles) (hO : OracleOk O) (p : ParamSet) (hb0 : 0 ≤ p.beta) (hom : 0 ≤ p.omega) (htau : 0 ≤ p.tau ∧ p.tau ≤ 64)
    (aHat : List (List Poly)) (s1 s2 t0 : List Poly)
    (hA : ∀ row ∈ aHat, ∀ a ∈ row, a.length = 256) (hs1 : s1.length = p.l ∧ ∀ u ∈ s1, u.length = 256)
    (hs2 : s2.length = p.k ∧ ∀ u ∈ s2, u.length = 256) (ht0 : t0.length = p.k ∧ ∀ u ∈ t0, u.length = 256) (hk : aHat.length = p.k)
    (mu rhoPP : List Nat) (kappa : Int)
    (hyS : ∀ y, expandMask m O p rhoPP kappa = .ok y → y.length = s1.length ∧ ∀ u ∈ y, u.length = 256)
    (cT : List Nat) (z h : List Poly)
    (hatt : attemptSpec m O p s1 s2 t0 aHat mu rhoPP kappa = .ok (some (cT, z, h))) :
    cT.length = p.lambdaDiv4 ∧ Sh p.l z ∧ (∀ q ∈ z, ∀ c ∈ q, -(p.gamma1 - 1) ≤ c ∧ c ≤ p.gamma1) ∧ Sh p.k h ∧ (∀ q ∈ h, Bin q) ∧
      onesAll h ≤ p.omega.toNat := by
  unfold attemptSpec at hatt
  obtain ⟨y, hy, h1⟩ := bind_ok_inv hatt
  simp only [] at h1
  obtain ⟨w1t, hw1t, h2⟩ := bind_ok_inv h1
  obtain ⟨c, hc, h3⟩ := bind_ok_inv h2
  split at h3
  · simp [pure_eq] at h3
  rename_i hr1
  split at h3
  · simp [pure_eq] at h3
  rename_i hr2
  simp only [pure_eq] at h3
  have e := ok_inj h3
  simp only [Option.some.injEq, Prod.mk.injEq] at e
  obtain ⟨e1, e2, e3⟩ := e
  subst e1 e2 e3
  simp only [Bool.or_eq_true, decide_eq_true_eq, not_or, Int.not_le, ge_iff_le] at hr1 hr2
  obtain ⟨hyl, hy256⟩ := hyS y hy
  have lz : zeroPoly.length = 256 := by unfold zeroPoly; rw [List.length_replicate]
  have hcm : ∀ u, u.length = 256 → c.length = 256 → (cmul c u).length = 256 := fun u hu hcl => by
    unfold cmul canon; rw [List.length_map, negMul_length c u hcl hu]
  have hcl : c.length = 256 := by
    rcases sampleInBall_np' m O hO false p.tau _ htau with ⟨v, hv, hp⟩ | ⟨s, hs⟩
    · rw [hc] at hv; have := ok_inj hv; subst this; exact hp.1.1
    · rw [hc] at hs; cases hs
  refine ⟨hO.hlen _ _, ⟨?_, ?_⟩, ?_, ⟨?_, ?_⟩, ?_, ?_⟩
  · rw [List.length_zipWith, List.length_map, hyl, hs1.1]; exact Nat.min_self _
  · intro q hq
    obtain ⟨yp, hyp, cp, hcp, rfl⟩ := mem_zipWith' _ _ _ _ hq
    obtain ⟨u, hu, rfl⟩ := List.mem_map.mp hcp
    rw [List.length_zipWith, hy256 yp hyp, hcm u (hs1.2 u hu) hcl]; rfl
  · intro q hq x hx
    have hbn := normInfS_bound _ _ hr1.1 q hq x hx
    obtain ⟨yp, hyp, cp, hcp, rfl⟩ := mem_zipWith' _ _ _ _ hq
    obtain ⟨a, _, b, _, rfl⟩ := mem_zipWith' _ _ _ _ hx
    rw [modpm_idem, absI_eq] at hbn
    split at hbn <;> omega
  · unfold attemptSpec.zw3L commitS
    simp only [List.length_zipWith, List.length_map, List.length_zip, hk, hs2.1, ht0.1]; omega
  · intro q hq
    unfold attemptSpec.zw3L at hq
    obtain ⟨ap, hap, bc, hbc, rfl⟩ := mem_zipWith' _ _ _ _ hq
    have hb1 := (List.of_mem_zip hbc).1
    have hb2 := (List.of_mem_zip hbc).2
    obtain ⟨u, hu, e1⟩ := List.mem_map.mp hb1
    obtain ⟨v, hv, e2⟩ := List.mem_map.mp hb2
    unfold commitS at hap
    obtain ⟨row, hrow, e0⟩ := List.mem_map.mp hap
    have lRy := (rowS_ev 0 (by decide) row y zeroPoly lz (hA row hrow) hy256).1
    have l0 : ap.length = 256 := by rw [← e0]; exact invC_length _ lRy
    unfold zw3
    rw [List.length_zipWith, List.length_zip, l0, ← e1, ← e2, hcm u (hs2.2 u hu) hcl, hcm v (ht0.2 v hv) hcl]; rfl
  · intro q hq
    unfold attemptSpec.zw3L at hq
    obtain ⟨ap, hap, bc, hbc, rfl⟩ := mem_zipWith' _ _ _ _ hq
    have hb1 := (List.of_mem_zip hbc).1
    have hb2 := (List.of_mem_zip hbc).2
    obtain ⟨u, hu, e1⟩ := List.mem_map.mp hb1
    obtain ⟨v, hv, e2⟩ := List.mem_map.mp hb2
    unfold commitS at hap
    obtain ⟨row, hrow, e0⟩ := List.mem_map.mp hap
    have lRy := (rowS_ev 0 (by decide) row y zeroPoly lz (hA row hrow) hy256).1
    have l0 : ap.length = 256 := by rw [← e0]; exact invC_length _ lRy
    refine ⟨?_, fun x hx => ?_⟩
    · unfold zw3
      rw [List.length_zipWith, List.length_zip, l0, ← e1, ← e2, hcm u (hs2.2 u hu) hcl, hcm v (ht0.2 v hv) hcl]; rfl
    · unfold zw3 at hx
      obtain ⟨a, _, b, _, rfl⟩ := mem_zipWith' _ _ _ _ hx
      dsimp only
      split
      · exact Or.inr rfl
      · exact Or.inl rfl
  · have := hr2.2
    omega

/-- whatever the rejection loop returns is the result of one accepted attempt -/
theorem loop_some_attempt (m : Mode) (O : Oracles) (p : ParamSet) (s1 s2 t0 : List Poly) (aHat : List (List Poly)) (mu rhoPP : List Nat)
    (cT : List Nat) (z h : List Poly) (n : Nat) :
    ∀ (fuel : Nat) (kappa : Int) (it : Nat), loopSpec m O p s1 s2 t0 aHat mu rhoPP fuel kappa it = .ok (cT, z, h, n) →
      ∃ kappa', attemptSpec m O p s1 s2 t0 aHat mu rhoPP kappa' = .ok (some (cT, z, h)) := by
  intro fuel
  induction fuel with
  | zero => intro kappa it hl; unfold loopSpec at hl; cases hl
  | succ fuel ih =>
    intro kappa it hl
    unfold loopSpec at hl
    obtain ⟨r, hr, hl⟩ := bind_ok_inv hl
    cases r with
    | some t =>
      obtain ⟨c', z', h'⟩ := t
      simp only [pure_eq] at hl
      have e := ok_inj hl
      simp only [Prod.mk.injEq] at e
      obtain ⟨e1, e2, e3, _⟩ := e
      subst e1 e2 e3
      exact ⟨kappa, hr⟩
    | none =>
      simp only [] at hl
      split at hl
      · cases hl
      · obtain ⟨k', _, hl⟩ := bind_ok_inv hl
        exact ih k' (it + 1) hl

theorem expandMask_shape (m : Mode) (O : Oracles) (p : ParamSet) (rho : List Nat) (kappa : Int) (ys : List Poly)
    (h : expandMask m O p rho kappa = .ok ys) : ys.length = p.l ∧ ∀ u ∈ ys, u.length = 256 := by
  unfold expandMask at h
  obtain ⟨g1, _, h⟩ := bind_ok_inv h
  obtain ⟨bl, _, h⟩ := bind_ok_inv h
  obtain ⟨_, _, h⟩ := bind_ok_inv h
  split at h
  · cases h
  obtain ⟨ys', hm, h⟩ := bind_ok_inv h
  obtain ⟨_, _, h⟩ := bind_ok_inv h
  rw [pure_eq] at h
  have := ok_inj h; subst this
  refine ⟨by rw [mapM_len _ _ _ hm, List.length_range], ?_⟩
  refine mapM_all _ (fun u => u.length = 256) _ _ hm (fun r _ b hb => ?_)
  obtain ⟨n, _, hb⟩ := bind_ok_inv hb
  simp only [] at hb
  obtain ⟨vs, _, hb⟩ := bind_ok_inv hb
  obtain ⟨o, ho, hb⟩ := bind_ok_inv hb
  cases o with
  | none => cases hb
  | some y =>
    simp only [pure_eq] at hb
    have := ok_inj hb; subst this
    exact bitUnpack_len m _ _ _ _ ho

/-- **a signature made by Algorithm 7 is accepted by Algorithm 8** (exact specifications), for a key `(rho, K, tr, s1, s2)` with
    `t = A s1 + s2`, `(t1, t0) = Power2Round(t)`, under one named hypothesis: that the signature bytes decode back to the
    `(c~, z, h)` the loop produced (`hcodec`, the `sigDecode ∘ sigEncode` direction). -/
theorem sign_verify_spec_partial (m : Mode) (O : Oracles) (hO : OracleOk O) (p : ParamSet)
    (hg : p.gamma2 = 95232 ∨ p.gamma2 = 261888) (hbeta : p.beta = p.eta * p.tau) (hbg : p.beta ≤ p.gamma2)
    (htau : 0 ≤ p.tau ∧ p.tau ≤ 64) (heta : 0 ≤ p.eta ∧ p.eta ≤ 4)
    (fuel : Nat) (rho key tr : List Nat) (s1 s2 : List Poly) (aHat : List (List Poly)) (hexp : expandA m O false p rho = .ok aHat)
    (hA : ∀ row ∈ aHat, ∀ a ∈ row, a.length = 256) (hk : aHat.length = s2.length)
    (hs1 : s1.length = p.l ∧ ∀ u ∈ s1, u.length = 256) (hs2 : ∀ u ∈ s2, u.length = 256)
    (hs2b : ∀ u ∈ s2, ∀ x ∈ u, -p.eta ≤ x ∧ x ≤ p.eta)
    (msg ctx oid phm rnd : List Nat) (nist : Bool) (out : SignOut)
    (hsign : signSpec m O p fuel rho key tr s1 s2
      ((List.zipWith (fun row s2r => tRowS row s1 s2r) aHat s2).map (fun q => q.map (fun x => (Spec.power2round x).2)))
      msg ctx oid phm rnd nist = .ok out)
    (hcodec : ∀ cT z h it, loopSpec m O p s1 s2
        ((List.zipWith (fun row s2r => tRowS row s1 s2r) aHat s2).map (fun q => q.map (fun x => (Spec.power2round x).2))) aHat
        (muOf O domPure_sign domHash_sign tr msg ctx oid phm nist)
        (O.h (key ++ rnd ++ muOf O domPure_sign domHash_sign tr msg ctx oid phm nist) 64) fuel 0 0 = .ok (cT, z, h, it) →
      sigEncode m false p cT z h = .ok out.sig → sigDecode m p out.sig = .ok (some (cT, z, h))) :
    verifySpec m O false p rho tr
      ((List.zipWith (fun row s2r => tRowS row s1 s2r) aHat s2).map (fun q => q.map (fun x => (Spec.power2round x).1)))
      msg out.sig ctx oid phm nist = .ok true := by
  unfold signSpec at hsign
  rw [hexp, ok_bind] at hsign
  simp only [] at hsign
  obtain ⟨r, hloop, hsign⟩ := bind_ok_inv hsign
  obtain ⟨cT, z, h, it⟩ := r
  simp only [] at hsign
  obtain ⟨sig, henc, hsign⟩ := bind_ok_inv hsign
  rw [pure_eq] at hsign
  have := ok_inj hsign; subst this
  have hdec := hcodec cT z h it hloop henc
  have hv := loop_verifies m O hO p hg hbeta hbg htau heta aHat s1 s2 hA hs1.2 hs2 hs2b hk _ _
    (fun kappa y hy => by
      obtain ⟨a, b⟩ := expandMask_shape m O p _ kappa y hy
      exact ⟨a.trans hs1.1.symm, b⟩) cT z h it fuel 0 0 hloop
  unfold verifySpec
  simp only [] at hdec ⊢
  rw [hdec, ok_bind]
  simp only []
  unfold verifyCoreS at hv
  obtain ⟨c, hc, hv⟩ := bind_ok_inv hv
  rw [hc, ok_bind, hexp, ok_bind]
  exact hv

theorem tRowS_length (row s1 : List Poly) (s2r : Poly) (hrow : ∀ a ∈ row, a.length = 256) (hs1 : ∀ u ∈ s1, u.length = 256)
    (ls2 : s2r.length = 256) : (tRowS row s1 s2r).length = 256 := by
  have lz : zeroPoly.length = 256 := by unfold zeroPoly; rw [List.length_replicate]
  have lRs := (rowS_ev 0 (by decide) row s1 zeroPoly lz hrow hs1).1
  unfold tRowS; rw [List.length_zipWith]
  have := invC_length _ lRs
  unfold invC at this; rw [this, ls2]; rfl

/-- **a signature made by Algorithm 7 is accepted by Algorithm 8** (exact specifications), for every key `(rho, K, tr, s1, s2)` with
    `t = A s1 + s2`, `(t1, t0) = Power2Round(t)`: through the rejection loop, the byte encoder and the byte decoder. -/
theorem sign_verify_spec (m : Mode) (O : Oracles) (hO : OracleOk O) (p : ParamSet) (blz : Nat) (cfg : SigCfg p blz)
    (hg : p.gamma2 = 95232 ∨ p.gamma2 = 261888) (hbeta : p.beta = p.eta * p.tau) (hbg : p.beta ≤ p.gamma2)
    (htau : 0 ≤ p.tau ∧ p.tau ≤ 64) (heta : 0 ≤ p.eta ∧ p.eta ≤ 4)
    (fuel : Nat) (rho key tr : List Nat) (s1 s2 : List Poly) (aHat : List (List Poly)) (hexp : expandA m O false p rho = .ok aHat)
    (hA : ∀ row ∈ aHat, ∀ a ∈ row, a.length = 256) (hk : aHat.length = p.k)
    (hs1 : s1.length = p.l ∧ ∀ u ∈ s1, u.length = 256) (hs2 : s2.length = p.k ∧ ∀ u ∈ s2, u.length = 256)
    (hs2b : ∀ u ∈ s2, ∀ x ∈ u, -p.eta ≤ x ∧ x ≤ p.eta)
    (msg ctx oid phm rnd : List Nat) (nist : Bool) (out : SignOut)
    (hsign : signSpec m O p fuel rho key tr s1 s2
      ((List.zipWith (fun row s2r => tRowS row s1 s2r) aHat s2).map (fun q => q.map (fun x => (Spec.power2round x).2)))
      msg ctx oid phm rnd nist = .ok out) :
    verifySpec m O false p rho tr
      ((List.zipWith (fun row s2r => tRowS row s1 s2r) aHat s2).map (fun q => q.map (fun x => (Spec.power2round x).1)))
      msg out.sig ctx oid phm nist = .ok true := by
  have hb0 : 0 ≤ p.beta := by rw [hbeta]; exact Int.mul_nonneg heta.1 htau.1
  have ht0 : ((List.zipWith (fun row s2r => tRowS row s1 s2r) aHat s2).map (fun q => q.map (fun x => (Spec.power2round x).2))).length = p.k ∧
      ∀ u ∈ (List.zipWith (fun row s2r => tRowS row s1 s2r) aHat s2).map (fun q => q.map (fun x => (Spec.power2round x).2)), u.length = 256 := by
    refine ⟨by rw [List.length_map, List.length_zipWith, hk, hs2.1]; exact Nat.min_self _, fun u hu => ?_⟩
    obtain ⟨q, hq, hqe⟩ := List.mem_map.mp hu
    obtain ⟨row, hrow, s2r, hs2r, hqe2⟩ := mem_zipWith' (fun row s2r => tRowS row s1 s2r) aHat s2 q hq
    rw [← hqe, List.length_map, hqe2]
    exact tRowS_length row s1 s2r (hA row hrow) hs1.2 (hs2.2 s2r hs2r)
  refine sign_verify_spec_partial m O hO p hg hbeta hbg htau heta fuel rho key tr s1 s2 aHat hexp hA (hk.trans hs2.1.symm) hs1 hs2.2 hs2b
    msg ctx oid phm rnd nist out hsign ?_
  generalize (List.zipWith (fun row s2r => tRowS row s1 s2r) aHat s2).map (fun q => q.map (fun x => (Spec.power2round x).2)) = t0 at ht0
  intro cT z h it hloop henc
  obtain ⟨kappa', hatt⟩ := loop_some_attempt m O p s1 s2 t0 aHat _ _ cT z h it fuel 0 0 hloop
  obtain ⟨w1, w2, w3, w4, w5, w6⟩ := attempt_wf m O hO p hb0 cfg.om htau aHat s1 s2 t0 hA hs1 hs2 ht0 hk _ _ kappa'
    (fun y hy => by
      obtain ⟨a, b⟩ := expandMask_shape m O p _ kappa' y hy
      exact ⟨a.trans hs1.1.symm, b⟩) cT z h hatt
  exact sigDecode_sigEncode m p blz cfg cT z h w1 w2 w3 w4 w5 w6 out.sig henc

end Fips204.Impl
