/-! Little-endian positional values of digit lists (base `P`), in natural order (`numF`) and for the reversed
    accumulators the codecs build (`valR`); uniqueness of fixed-length representations. -/
namespace Fips204.Impl

/-- value of a digit list, least significant digit first -/
def numF (P : Nat) : List Nat → Nat
  | [] => 0
  | d :: ds => d + P * numF P ds

/-- value of a digit list held most-significant-digit first (the codecs push to the front) -/
def valR (P : Nat) : List Nat → Nat
  | [] => 0
  | d :: ds => valR P ds + d * P ^ ds.length

theorem numF_append (P : Nat) (l1 l2 : List Nat) : numF P (l1 ++ l2) = numF P l1 + P ^ l1.length * numF P l2 := by
  induction l1 with
  | nil => simp [numF]
  | cons d ds ih => simp only [List.cons_append, numF, ih, List.length_cons, Nat.pow_succ]; grind

theorem valR_eq_numF_reverse (P : Nat) (l : List Nat) : valR P l = numF P l.reverse := by
  induction l with
  | nil => rfl
  | cons d ds ih =>
    rw [List.reverse_cons, numF_append, List.length_reverse, ← ih]
    simp only [valR, numF]; grind

theorem numF_lt (P : Nat) (hP : 1 ≤ P) : ∀ l : List Nat, (∀ d ∈ l, d < P) → numF P l < P ^ l.length := by
  intro l
  induction l with
  | nil => intro _; simp [numF]
  | cons d ds ih =>
    intro h
    have h1 := h d (List.mem_cons_self ..)
    have h2 := ih (fun x hx => h x (List.mem_cons_of_mem _ hx))
    simp only [numF, List.length_cons, Nat.pow_succ]
    have : P * numF P ds + P ≤ P * P ^ ds.length := by
      have : numF P ds + 1 ≤ P ^ ds.length := h2
      calc P * numF P ds + P = P * (numF P ds + 1) := by grind
        _ ≤ P * P ^ ds.length := Nat.mul_le_mul_left _ this
    calc d + P * numF P ds < P + P * numF P ds := by omega
      _ = P * numF P ds + P := by grind
      _ ≤ P * P ^ ds.length := this
      _ = P ^ ds.length * P := by grind

/-- two digit lists of the same length with the same value are equal -/
theorem numF_inj (P : Nat) (hP : 1 ≤ P) : ∀ l1 l2 : List Nat, l1.length = l2.length → (∀ d ∈ l1, d < P) → (∀ d ∈ l2, d < P) →
    numF P l1 = numF P l2 → l1 = l2 := by
  intro l1
  induction l1 with
  | nil => intro l2 hl _ _ _; cases l2 with
    | nil => rfl
    | cons _ _ => simp at hl
  | cons d ds ih =>
    intro l2 hl h1 h2 hv
    cases l2 with
    | nil => simp at hl
    | cons e es =>
      simp only [numF] at hv
      have hd := h1 d (List.mem_cons_self ..)
      have he := h2 e (List.mem_cons_self ..)
      have hmod : d = e := by
        have a1 : (d + P * numF P ds) % P = d := by rw [Nat.add_mul_mod_self_left]; exact Nat.mod_eq_of_lt hd
        have a2 : (e + P * numF P es) % P = e := by rw [Nat.add_mul_mod_self_left]; exact Nat.mod_eq_of_lt he
        rw [← a1, ← a2, hv]
      subst hmod
      have hrest : numF P ds = numF P es := by
        have : P * numF P ds = P * numF P es := by omega
        exact Nat.eq_of_mul_eq_mul_left (by omega) this
      rw [ih es (by simpa using hl) (fun x hx => h1 x (List.mem_cons_of_mem _ hx)) (fun x hx => h2 x (List.mem_cons_of_mem _ hx)) hrest]

end Fips204.Impl

namespace Fips204.Impl

/-- the `i`-th digit of a fixed-length representation is recovered by division and remainder -/
theorem numF_digit (P : Nat) (hP : 1 ≤ P) : ∀ (l : List Nat) (i : Nat) (h : i < l.length), (∀ d ∈ l, d < P) →
    (numF P l / P ^ i) % P = l[i] := by
  intro l
  induction l with
  | nil => intro i h; simp at h
  | cons d ds ih =>
    intro i h hd
    have hd0 := hd d (List.mem_cons_self ..)
    cases i with
    | zero =>
      simp only [numF, Nat.pow_zero, Nat.div_one, List.getElem_cons_zero]
      rw [Nat.add_mul_mod_self_left]; exact Nat.mod_eq_of_lt hd0
    | succ j =>
      simp only [numF, List.getElem_cons_succ]
      have e : (d + P * numF P ds) / P ^ (j + 1) = numF P ds / P ^ j := by
        rw [Nat.pow_succ, Nat.mul_comm (P ^ j) P, ← Nat.div_div_eq_div_mul]
        congr 1
        rw [Nat.add_mul_div_left _ _ (by omega), Nat.div_eq_of_lt hd0, Nat.zero_add]
      rw [e]
      exact ih j (by simpa using h) (fun x hx => hd x (List.mem_cons_of_mem _ hx))

end Fips204.Impl
