import Fips204.Lemmas.NttBounds2
import Fips204.Impl.MlDsa
/-! Composition of the envelope lemmas along the crate's NTT pipelines (verify step 9, sign step 12, keygen step 5). -/

namespace Fips204.Impl
open Fips204 Fips204.Gen Fips204.K

theorem ntt_single (m : Mode) (c ch : Poly) (h : nttPoly m c = .ok ch) : ntt m [c] = .ok [ch] := by
  unfold ntt
  rw [List.mapM_cons, h]
  simp [List.mapM_nil, ok_bind, pure_eq, bind, Except.bind, pure, Except.pure]

/-- **the verifier's lazy NTT pipeline cannot overflow**, whatever response vector `z` (|z_i| ≤ 2^19, i.e. anything
    `sigDecode` can return), challenge `c` in {-1,0,1}, canonical matrix and key precompute it is given -/
theorem wApproxOf_ok (m : Mode) (aHat : List (List Poly)) (z : List Poly) (c : Poly) (t1d2 : List Poly)
    (hA : ∀ row ∈ aHat, row.length ≤ 7 ∧ ∀ p ∈ row, Res p) (hz : ∀ w ∈ z, Bnd 524288 w) (hc : Bnd 1 c)
    (ht : ∀ w ∈ t1d2, Bnd 16760833 w) :
    ∃ r, wApproxOf m aHat z c t1d2 = .ok r ∧ ∀ w ∈ r, ∀ x ∈ w, 0 ≤ x ∧ x < 8380417 := by
  obtain ⟨zHat, hzHat, bz⟩ := ntt_ok m z hz
  obtain ⟨az, haz, baz⟩ := matVecMul_ok m aHat zHat 7 hA (fun w hw => (bz w hw).mono (by omega)) (by omega)
  obtain ⟨ch, hch, bch⟩ := nttPoly_ok m c (hc.mono (by omega))
  have hchats := ntt_single m c ch hch
  obtain ⟨diff, hdiff, bdiff⟩ := zipWithM_ok (fun ap tp => zipWith3M (fun a c t => do
      let pr ← arith .i64 m "ml_dsa.rs:verify_internal:c_hat*t1" (c * t)
      let r ← mont_reduce m pr
      arith .i32 m "ml_dsa.rs:verify_internal:az-ct1" (a - r)) ap ch tp)
    (fun ap => Bnd ((7:Nat) * 8380416) ap) (fun tp => Bnd 16760833 tp) (fun d => Bnd 2143289343 d)
    (fun ap tp hap htp => by
      obtain ⟨d, hd, bd⟩ := zipWith3M_ok (fun a c t => do
          let pr ← arith .i64 m "ml_dsa.rs:verify_internal:c_hat*t1" (c * t)
          let r ← mont_reduce m pr
          arith .i32 m "ml_dsa.rs:verify_internal:az-ct1" (a - r))
        (fun a => -((7:Nat) * 8380416 : Int) ≤ a ∧ a ≤ (7:Nat) * 8380416) (fun c => -34284028 ≤ c ∧ c ≤ 34284028)
        (fun t => -16760833 ≤ t ∧ t ≤ 16760833) (fun r => -2143289343 ≤ r ∧ r ≤ 2143289343)
        (fun a c t ha hc ht => by
          have hp := mul_bound_sym c t 34284028 16760833 hc.1 hc.2 ht.1 ht.2
          have hm := montv_spec (c * t) (by omega) (by omega)
          have ha' : -58662912 ≤ a ∧ a ≤ 58662912 := by
            have e : ((7:Nat) : Int) * 8380416 = 58662912 := by decide
            omega
          refine ⟨a - montv (c * t), ?_, by omega, by omega⟩
          simp only [arith_i64 _ _ _ (show (-9223372036854775808:Int) ≤ c * t by omega) (show c * t ≤ 9223372036854775807 by omega), ok_bind,
            mont_reduce_eq m _ (show (-17996808479301632:Int) ≤ c * t by omega) (show c * t ≤ 17996808470921215 by omega),
            arith_i32 _ _ _ (show (-2147483648:Int) ≤ a - montv (c * t) by omega) (show a - montv (c * t) ≤ 2147483647 by omega)])
        ap ch tp hap bch htp
      exact ⟨d, hd, bd⟩)
    az t1d2 baz ht
  obtain ⟨r, hr, br⟩ := invNtt_ok m diff bdiff
  refine ⟨r, ?_, br⟩
  unfold wApproxOf
  simp only [hzHat, haz, hchats, ok_bind, idx, List.getElem?_cons_zero, pure_eq, hdiff, hr]

/-- the signer's commitment `w = invNTT(A_hat ∘ NTT(y))` (and key generation's `A s1`) cannot overflow either -/
theorem commitment_ok (m : Mode) (aHat : List (List Poly)) (y : List Poly)
    (hA : ∀ row ∈ aHat, row.length ≤ 7 ∧ ∀ p ∈ row, Res p) (hy : ∀ w ∈ y, Bnd 524288 w) :
    ∃ r, (do let yh ← ntt m y; let ay ← matVecMul m aHat yh; invNtt m ay) = .ok r ∧ ∀ w ∈ r, ∀ x ∈ w, 0 ≤ x ∧ x < 8380417 := by
  obtain ⟨yHat, hyHat, by'⟩ := ntt_ok m y hy
  obtain ⟨ay, hay, bay⟩ := matVecMul_ok m aHat yHat 7 hA (fun w hw => (by' w hw).mono (by omega)) (by omega)
  obtain ⟨r, hr, br⟩ := invNtt_ok m ay (fun w hw => (bay w hw).mono (by decide))
  exact ⟨r, by simp only [hyHat, hay, hr, ok_bind], br⟩

end Fips204.Impl
