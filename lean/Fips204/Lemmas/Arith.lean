import Fips204.Basic
/-! Helper lemmas about the arithmetic vocabulary of `Fips204.Basic`. -/
namespace Fips204

/-! Monad laws of `M` as *propositional* rewrite rules.  They are deliberately not proved by a bare
    `rfl`: `simp` would then use them definitionally and leave the kernel to re-check the step by
    evaluating the whole `do` block, which diverges on stuck `Nat.land/lor` terms. -/
theorem pure_eq {α} (a : α) : (pure a : M α) = Except.ok a := by
  show Except.pure a = Except.ok a; unfold Except.pure; exact rfl
theorem ok_bind {α β} (a : α) (f : α → M β) : (Except.ok a >>= f) = f a := by
  show Except.bind (Except.ok a) f = f a; unfold Except.bind; exact rfl
theorem error_bind {α β} (e : Fault) (f : α → M β) : ((Except.error e : M α) >>= f) = Except.error e := by
  show Except.bind (Except.error e) f = Except.error e; unfold Except.bind; exact rfl

theorem arith_ok (t : IT) (m : Mode) (s : String) (r : Int) (h1 : t.lo ≤ r) (h2 : r ≤ t.hi) :
    arith t m s r = .ok r := by
  unfold arith; rw [if_pos ⟨h1, h2⟩]; rfl

theorem arith_i32 (m : Mode) (s : String) (r : Int) (h1 : -2147483648 ≤ r) (h2 : r ≤ 2147483647) :
    arith .i32 m s r = .ok r := arith_ok _ _ _ _ h1 h2

theorem arith_i64 (m : Mode) (s : String) (r : Int) (h1 : -9223372036854775808 ≤ r)
    (h2 : r ≤ 9223372036854775807) : arith .i64 m s r = .ok r := arith_ok _ _ _ _ h1 h2

theorem dassertM_ok (m : Mode) (s : String) (c : M Bool) (h : c = .ok true) :
    dassertM m s c = .ok () := by
  cases m <;> simp [dassertM, h, bind, Except.bind, pure, Except.pure]

theorem absI_eq (x : Int) : absI x = if x < 0 then -x else x := rfl

theorem wrap32_id (x : Int) (h1 : -2147483648 ≤ x) (h2 : x ≤ 2147483647) : IT.i32.wrap x = x := by
  simp only [IT.wrap, IT.lo, IT.modulus]; omega

theorem wrap64_id (x : Int) (h1 : -9223372036854775808 ≤ x) (h2 : x ≤ 9223372036854775807) :
    IT.i64.wrap x = x := by
  simp only [IT.wrap, IT.lo, IT.modulus]; omega

end Fips204

namespace Fips204

theorem dassertM_dec (m : Mode) (s : String) (p : Prop) [Decidable p] (h : p) :
    dassertM m s (Except.ok (decide p)) = .ok () := by
  apply dassertM_ok; simp [h]

theorem dassertM_true (m : Mode) (s : String) : dassertM m s (Except.ok true) = .ok () :=
  dassertM_ok _ _ _ rfl

theorem absI_lt (x c : Int) : absI x < c ↔ (-c < x ∧ x < c) := by
  simp only [absI_eq]; split <;> omega

theorem absI_nonneg (x : Int) : 0 ≤ absI x := by simp only [absI_eq]; split <;> omega

theorem arith_abs32 (m : Mode) (s : String) (x : Int) (h1 : -2147483648 < x) (h2 : x ≤ 2147483647) :
    arith .i32 m s (absI x) = .ok (absI x) := by
  apply arith_i32 <;> simp only [absI_eq] <;> split <;> omega

theorem arith_abs64 (m : Mode) (s : String) (x : Int) (h1 : -9223372036854775808 < x)
    (h2 : x ≤ 9223372036854775807) : arith .i64 m s (absI x) = .ok (absI x) := by
  apply arith_i64 <;> simp only [absI_eq] <;> split <;> omega

/-! ### bit operations through the unsigned representative -/

theorem toU32_of_nonneg (x : Int) (h0 : 0 ≤ x) (h1 : x < 4294967296) : IT.i32.toU x = x.toNat := by
  simp only [IT.toU, IT.modulus]; congr 1; omega

theorem ofU32_small (n : Nat) (h : n < 2147483648) : IT.i32.ofU n = (n : Int) := by
  simp only [IT.ofU, IT.wrap, IT.lo, IT.modulus]; omega

theorem band32_zero (b : Int) : band .i32 0 b = 0 := by
  simp [band, IT.toU, IT.ofU, IT.wrap, IT.lo, IT.modulus]

theorem band32_neg1 (b : Int) (h1 : -2147483648 ≤ b) (h2 : b ≤ 2147483647) : band .i32 (-1) b = b := by
  have e : IT.i32.toU (-1) = 2 ^ 32 - 1 := by simp [IT.toU, IT.modulus]
  simp only [band, e]
  rw [Nat.and_comm, Nat.and_two_pow_sub_one_eq_mod]
  simp only [IT.toU, IT.ofU, IT.wrap, IT.lo, IT.modulus]
  omega

/-- sign-mask select: `(x >> 31) & b` -/
theorem band32_signmask (x b : Int) (hx1 : -2147483648 ≤ x) (hx2 : x ≤ 2147483647)
    (h1 : -2147483648 ≤ b) (h2 : b ≤ 2147483647) :
    band .i32 (x / 2147483648) b = if x < 0 then b else 0 := by
  by_cases hx : x < 0
  · have : x / 2147483648 = -1 := by omega
    rw [this, band32_neg1 b h1 h2, if_pos hx]
  · have : x / 2147483648 = 0 := by omega
    rw [this, band32_zero, if_neg hx]

theorem remEuclid_ok (s : String) (a b : Int) (h : b ≠ 0) : remEuclid s a b = .ok (a % b) := by
  unfold remEuclid; rw [if_neg h]; rfl

/-- sign-mask select in arithmetic form (linear for a literal `b`, so `omega` can use it) -/
theorem band32_signmask' (x b : Int) (hx1 : -2147483648 ≤ x) (hx2 : x ≤ 2147483647)
    (h1 : -2147483648 ≤ b) (h2 : b ≤ 2147483647) :
    band .i32 (x / 2147483648) b = -(x / 2147483648) * b := by
  rw [band32_signmask x b hx1 hx2 h1 h2]
  by_cases hx : x < 0
  · have : x / 2147483648 = -1 := by omega
    rw [this, if_pos hx]; omega
  · have : x / 2147483648 = 0 := by omega
    rw [this, if_neg hx]; omega

/-- low mask on i32: `x & (2^k - 1)` for a non-negative `x` -/
theorem band32_low (x : Int) (k : Nat) (hk : k ≤ 31) (hx0 : 0 ≤ x) (hx : x ≤ 2147483647) :
    band .i32 x ((2 ^ k - 1 : Nat) : Int) = ((x.toNat % 2 ^ k : Nat) : Int) := by
  have hp : (2:Nat) ^ k ≤ 2 ^ 31 := Nat.pow_le_pow_right (by decide) hk
  have hp1 : 1 ≤ (2:Nat) ^ k := Nat.one_le_two_pow
  have e1 : IT.i32.toU x = x.toNat := toU32_of_nonneg x hx0 (by omega)
  have e2 : IT.i32.toU ((2 ^ k - 1 : Nat) : Int) = 2 ^ k - 1 := by
    rw [toU32_of_nonneg _ (by omega) (by omega)]; simp
  simp only [band, e1, e2, Nat.and_two_pow_sub_one_eq_mod]
  apply ofU32_small
  have := Nat.mod_lt x.toNat (show 0 < 2 ^ k by omega)
  omega

/-- low mask on u8 -/
theorem band8_low (x : Int) (k : Nat) (hk : k ≤ 8) (hx0 : 0 ≤ x) (hx : x ≤ 255) :
    band .u8 x ((2 ^ k - 1 : Nat) : Int) = ((x.toNat % 2 ^ k : Nat) : Int) := by
  have hp : (2:Nat) ^ k ≤ 2 ^ 8 := Nat.pow_le_pow_right (by decide) hk
  have hp1 : 1 ≤ (2:Nat) ^ k := Nat.one_le_two_pow
  have e1 : IT.u8.toU x = x.toNat := by simp only [IT.toU, IT.modulus]; congr 1; omega
  have e2 : IT.u8.toU ((2 ^ k - 1 : Nat) : Int) = 2 ^ k - 1 := by
    simp only [IT.toU, IT.modulus]
    have : (((2 ^ k - 1 : Nat) : Int)) % 256 = ((2 ^ k - 1 : Nat) : Int) := by omega
    rw [this]; simp
  simp only [band, e1, e2, Nat.and_two_pow_sub_one_eq_mod]
  have := Nat.mod_lt x.toNat (show 0 < 2 ^ k by omega)
  simp only [IT.ofU, IT.wrap, IT.lo, IT.modulus]
  omega

theorem band32_15 (x : Int) (hx0 : 0 ≤ x) (hx : x ≤ 2147483647) : band .i32 x 15 = x % 16 := by
  have := band32_low x 4 (by decide) hx0 hx
  simp only [show ((2 ^ 4 - 1 : Nat) : Int) = 15 by decide] at this
  rw [this]; omega

theorem band32_63 (x : Int) (hx0 : 0 ≤ x) (hx : x ≤ 2147483647) : band .i32 x 63 = x % 64 := by
  have := band32_low x 6 (by decide) hx0 hx
  simp only [show ((2 ^ 6 - 1 : Nat) : Int) = 63 by decide] at this
  rw [this]; omega

theorem band8_127 (x : Int) (hx0 : 0 ≤ x) (hx : x ≤ 255) : band .u8 x 127 = x % 128 := by
  have := band8_low x 7 (by decide) hx0 hx
  simp only [show ((2 ^ 7 - 1 : Nat) : Int) = 127 by decide] at this
  rw [this]; omega

theorem band8_7 (x : Int) (hx0 : 0 ≤ x) (hx : x ≤ 255) : band .u8 x 7 = x % 8 := by
  have := band8_low x 3 (by decide) hx0 hx
  simp only [show ((2 ^ 3 - 1 : Nat) : Int) = 7 by decide] at this
  rw [this]; omega

theorem band8_15 (x : Int) (hx0 : 0 ≤ x) (hx : x ≤ 255) : band .u8 x 15 = x % 16 := by
  have := band8_low x 4 (by decide) hx0 hx
  simp only [show ((2 ^ 4 - 1 : Nat) : Int) = 15 by decide] at this
  rw [this]; omega

theorem bxor32_zero (x : Int) (h1 : -2147483648 ≤ x) (h2 : x ≤ 2147483647) : bxor .i32 x 0 = x := by
  have e : IT.i32.toU 0 = 0 := by decide
  unfold bxor
  rw [e, Nat.xor_zero]
  simp only [IT.toU, IT.ofU, IT.wrap, IT.lo, IT.modulus]
  omega

theorem bxor32_self (x : Int) : bxor .i32 x x = 0 := by
  simp [bxor, IT.ofU, IT.wrap, IT.lo, IT.modulus]

/-- byte assembly: `(hi << k) | lo` with `lo < 2^k` (on natural numbers) -/
theorem bor32_disjoint (a b k : Nat) (hb : b < 2 ^ k) (hs : a * 2 ^ k + b ≤ 2147483647) :
    bor .i32 ((a * 2 ^ k : Nat) : Int) (b : Int) = ((a * 2 ^ k + b : Nat) : Int) := by
  have h1 : IT.i32.toU ((a * 2 ^ k : Nat) : Int) = a * 2 ^ k := by
    rw [toU32_of_nonneg _ (by omega) (by omega)]; exact Int.toNat_natCast _
  have h2 : IT.i32.toU (b : Int) = b := by
    rw [toU32_of_nonneg _ (by omega) (by omega)]; simp
  unfold bor
  rw [h1, h2, ← Nat.shiftLeft_eq, ← Nat.shiftLeft_add_eq_or_of_lt hb, Nat.shiftLeft_eq]
  exact ofU32_small _ (by omega)

end Fips204

/-- unfold a generated kernel completely: every `arith` is discharged by `omega` from the
    hypotheses in scope, every `debug_assert` likewise (DESIGN 3.1, proof pattern) -/
syntax "ksimp" (" [" Lean.Parser.Tactic.simpLemma,* "]")? : tactic
macro_rules
  | `(tactic| ksimp) => `(tactic| simp (disch := omega) only [Fips204.arith_i32, Fips204.arith_i64, Fips204.arith_abs32, Fips204.arith_abs64,
      Fips204.pure_eq, Fips204.ok_bind, Fips204.error_bind, Fips204.dassertM_dec, Fips204.dassertM_true, Fips204.absI_lt, Fips204.band32_signmask', Fips204.remEuclid_ok])
  | `(tactic| ksimp [$ls,*]) => `(tactic| simp (disch := omega) only [Fips204.arith_i32, Fips204.arith_i64, Fips204.arith_abs32, Fips204.arith_abs64,
      Fips204.pure_eq, Fips204.ok_bind, Fips204.error_bind, Fips204.dassertM_dec, Fips204.dassertM_true, Fips204.absI_lt, Fips204.band32_signmask', Fips204.remEuclid_ok, $ls,*])

namespace Fips204

theorem bor32_disjoint' (a b k p : Nat) (hp : p = 2 ^ k) (hb : b < p) (hs : a * p + b ≤ 2147483647) :
    bor .i32 ((a * p : Nat) : Int) (b : Int) = ((a * p + b : Nat) : Int) := by
  subst hp; exact bor32_disjoint a b k hb hs

theorem bor32_add_256 (x y : Int) (hx0 : 0 ≤ x) (hxk : x % 256 = 0) (hy0 : 0 ≤ y) (hy : y < 256)
    (hs : x + y ≤ 2147483647) : bor .i32 x y = x + y := by
  have h := bor32_disjoint' (x / 256).toNat y.toNat 8 256 rfl (by omega) (by omega)
  have e1 : (((x / 256).toNat * 256 : Nat) : Int) = x := by omega
  have e2 : ((y.toNat : Nat) : Int) = y := by omega
  have e3 : ((((x / 256).toNat * 256 + y.toNat : Nat)) : Int) = x + y := by rw [Int.natCast_add, e1, e2]
  rw [e1, e2, e3] at h; exact h

theorem bor32_add_65536 (x y : Int) (hx0 : 0 ≤ x) (hxk : x % 65536 = 0) (hy0 : 0 ≤ y) (hy : y < 65536)
    (hs : x + y ≤ 2147483647) : bor .i32 x y = x + y := by
  have h := bor32_disjoint' (x / 65536).toNat y.toNat 16 65536 rfl (by omega) (by omega)
  have e1 : (((x / 65536).toNat * 65536 : Nat) : Int) = x := by omega
  have e2 : ((y.toNat : Nat) : Int) = y := by omega
  have e3 : ((((x / 65536).toNat * 65536 + y.toNat : Nat)) : Int) = x + y := by rw [Int.natCast_add, e1, e2]
  rw [e1, e2, e3] at h; exact h

end Fips204
