/-
  Lemmas.SpecNtt — the exact-integer transforms used by the whole-function theorems (`nttS`, `invS`, `wApproxS`: the crate's
  Montgomery zeta table times `2^-32`) are FIPS 204 Algorithms 41 / 42 with the standard's zetas (`Spec/Ntt.lean`), modulo q;
  and the verifier's `w'_Approx` is line 9 of Algorithm 8 computed with them.
-/
import Fips204.Spec.Ntt
import Fips204.Lemmas.VerifyCore
import Fips204.Lemmas.VerifySpec
namespace Fips204.Impl
open Fips204 Fips204.Gen

theorem cg_mod (a : Int) : cg (a % 8380417) a := by unfold cg; omega
theorem cg_mod' (a : Int) : cg a (a % 8380417) := (cg_mod a).symm

theorem brv8_eq (k : Nat) : Spec.brv8 k = bitrev8 k := rfl

/-- the crate's table entry times `2^-32` is the standard's `ζ^{BitRev8(k)} mod q` -/
theorem zeta_cg (k : Nat) (h1 : 1 ≤ k) (h2 : k < 256) : cg (zv k * RINV) (Spec.zeta k) := by
  have h := List.all_eq_true.mp zeta_table_is_fips k (List.mem_range.mpr h2)
  have hk : (k == 0) = false := by simp; omega
  rw [hk, Bool.false_or] at h
  unfold zetaFipsOk cf at h
  have h' : (zv k * RINV - 1753 ^ bitrev8 k) % 8380417 = 0 := eq_of_beq h
  unfold Spec.zeta
  rw [brv8_eq]
  have e : (Q : Int) = 8380417 := rfl
  rw [e]
  exact cg.trans h' (cg_mod' _)

theorem mul_cg {a a' b b' : Int} (h1 : cg a a') (h2 : cg b b') : cg (a * b) (a' * b') :=
  cg.trans (cg.mul_right b h1) (cg.mul_left a' h2)

theorem nttS_is_spec : ∀ (d k : Nat) (u v : List Int), CongL u v → 1 ≤ k → (k + 1) * 2 ^ d ≤ 512 →
    CongL (nttS d k u) (Spec.nttRec d k v) := by
  intro d
  induction d with
  | zero => intro k u v h _ _; exact h
  | succ d ih =>
    intro k u v h hk1 hk2
    have hk : k < 256 := by
      have : 1 ≤ 2 ^ (d + 1) := Nat.one_le_two_pow
      have : (k + 1) * 2 ≤ (k + 1) * 2 ^ (d + 1) := Nat.mul_le_mul_left _ (by rw [Nat.pow_succ]; omega)
      omega
    have hz := zeta_cg k hk1 hk
    unfold nttS Spec.nttRec
    simp only []
    rw [h.1]
    have hts : CongL ((u.drop (v.length / 2)).map (fun x => zv k * x * RINV)) ((v.drop (v.length / 2)).map (fun x => Spec.zeta k * x % Q)) :=
      (h.drop _).map _ _ (fun a b hab => by
        have e : zv k * a * RINV = (zv k * RINV) * a := by grind
        rw [e]
        exact cg.trans (mul_cg hz hab) (cg_mod' _))
    have hpow : (k + 1) * 2 ^ (d + 1) = (2 * k + 2) * 2 ^ d := by rw [Nat.pow_succ]; grind
    refine CongL.append ?_ ?_
    · exact ih (2 * k) _ _ ((h.take _).zipWith hts _ _ (fun a b a' b' h1 h2 => cg.trans (cg.add h1 h2) (cg_mod' _))) (by omega)
        (by rw [hpow] at hk2; have : (2 * k + 1) * 2 ^ d ≤ (2 * k + 2) * 2 ^ d := Nat.mul_le_mul_right _ (by omega); omega)
    · exact ih (2 * k + 1) _ _ ((h.take _).zipWith hts _ _ (fun a b a' b' h1 h2 => cg.trans (cg.sub h1 h2) (cg_mod' _))) (by omega)
        (by rw [hpow] at hk2; omega)

theorem invS_is_spec : ∀ (d k : Nat) (u v : List Int), CongL u v → 1 ≤ k → (k + 1) * 2 ^ d ≤ 512 →
    CongL (invS d k u) (Spec.invRec d k v) := by
  intro d
  induction d with
  | zero => intro k u v h _ _; exact h
  | succ d ih =>
    intro k u v h hk1 hk2
    have hk : k < 256 := by
      have : 1 ≤ 2 ^ (d + 1) := Nat.one_le_two_pow
      have : (k + 1) * 2 ≤ (k + 1) * 2 ^ (d + 1) := Nat.mul_le_mul_left _ (by rw [Nat.pow_succ]; omega)
      omega
    have hz := zeta_cg k hk1 hk
    have hpow : (k + 1) * 2 ^ (d + 1) = (2 * k + 2) * 2 ^ d := by rw [Nat.pow_succ]; grind
    unfold invS Spec.invRec
    simp only []
    rw [h.1]
    have hlo := ih (2 * k + 1) _ _ (h.take (v.length / 2)) (by omega) (by rw [hpow] at hk2; omega)
    have hhi := ih (2 * k) _ _ (h.drop (v.length / 2)) (by omega)
      (by rw [hpow] at hk2; have : (2 * k + 1) * 2 ^ d ≤ (2 * k + 2) * 2 ^ d := Nat.mul_le_mul_right _ (by omega); omega)
    refine CongL.append ?_ ?_
    · exact hlo.zipWith hhi _ _ (fun a b a' b' h1 h2 => cg.trans (cg.add h1 h2) (cg_mod' _))
    · exact hlo.zipWith hhi _ _ (fun a b a' b' h1 h2 => by
        have e : -zv k * (a - a') * RINV = -(zv k * RINV) * (a - a') := by grind
        rw [e]
        have hneg : cg (-(zv k * RINV)) (-(Spec.zeta k)) := by
          have := cg.mul_left (-1) hz
          simpa using this
        exact cg.trans (mul_cg hneg (cg.sub h1 h2)) (cg_mod' _))

theorem FS_cg : cg FS 8347681 := by unfold cg FS; decide

/-- two canonical lists that are congruent are equal -/
theorem canon_eq_of_cong (u v : List Int) (h : CongL u v) (hv : ∀ x ∈ v, 0 ≤ x ∧ x < 8380417) : canon u = v := by
  show u.map (fun x => x % 8380417) = v
  apply List.ext_getElem
  · rw [List.length_map, h.1]
  · intro i h1 h2
    rw [List.getElem_map]
    have hc := h.2 i (by simpa using h1) h2
    have hb := hv v[i] (List.getElem_mem h2)
    unfold cg at hc
    omega


/-! ### the verifier's `w'_Approx` -/

theorem rowS_is_spec : ∀ (row z : List Poly) (P P' : List Int), CongL P P' →
    CongL (rowS row z P) ((List.zipWith Spec.mulQ row (z.map Spec.ntt)).foldl Spec.addQ P') := by
  intro row
  induction row with
  | nil => intro z P P' h; cases z <;> exact h
  | cons a as ih =>
    intro z P P' h
    cases z with
    | nil => exact h
    | cons y ys =>
      simp only [rowS, List.map_cons, List.zipWith_cons_cons, List.foldl_cons]
      refine ih ys _ _ ?_
      unfold Spec.addQ Spec.mulQ
      refine h.zipWith ?_ _ _ (fun p q p' q' h1 h2 => cg.trans (cg.add h1 h2) (cg_mod' _))
      exact (CongL.refl a).zipWith (nttS_is_spec 8 1 y y (CongL.refl y) (by omega) (by decide)) _ _
        (fun p q p' q' h1 h2 => cg.trans (mul_cg h1 h2) (cg_mod' _))

theorem wRowS_is_spec (row z : List Poly) (c t : Poly) :
    wRowS row z c t =
      Spec.invNtt (Spec.subQ (Spec.rowTimes row (z.map Spec.ntt)) (Spec.mulQ (Spec.ntt c) (Spec.ntt (t.map (fun x => x * 2 ^ 13 % Q))))) := by
  unfold wRowS
  apply canon_eq_of_cong
  · unfold Spec.invNtt
    refine CongL.map ?_ _ _ (fun a b hab => cg.trans (mul_cg FS_cg hab) (cg_mod' _))
    refine invS_is_spec 8 1 _ _ ?_ (by omega) (by decide)
    unfold Spec.subQ
    refine CongL.zipWith ?_ ?_ _ _ (fun p q p' q' h1 h2 => cg.trans (cg.sub h1 h2) (cg_mod' _))
    · unfold Spec.rowTimes
      exact rowS_is_spec row z zeroPoly (List.replicate 256 0) (CongL.refl _)
    · unfold Spec.mulQ
      refine CongL.zipWith (nttS_is_spec 8 1 c c (CongL.refl c) (by omega) (by decide)) ?_ _ _
        (fun p q p' q' h1 h2 => cg.trans (mul_cg h1 h2) (cg_mod' _))
      refine nttS_is_spec 8 1 _ _ ?_ (by omega) (by decide)
      refine (CongL.refl t).map _ _ (fun a b hab => ?_)
      have e : (2 : Int) ^ 13 = 8192 := by decide
      rw [e, Int.mul_comm b 8192]
      exact cg.trans (cg.mul_left 8192 hab) (cg_mod' _)
  · intro x hx
    unfold Spec.invNtt at hx
    obtain ⟨y, _, rfl⟩ := List.mem_map.mp hx
    exact ⟨Int.emod_nonneg _ (by decide), Int.emod_lt_of_pos _ (by decide)⟩

/-- **the exact-arithmetic `w'_Approx` of `verification_is_algorithm_8` is line 9 of Algorithm 8 with the standard's NTT** -/
theorem wApproxS_is_spec (aHat : List (List Poly)) (z : List Poly) (c : Poly) (t1 : List Poly) :
    wApproxS aHat z c t1 = Spec.wApprox aHat z c t1 := by
  have hf : (fun (row : List Poly) (t : Poly) => wRowS row z c t) =
      (fun row t => Spec.invNtt (Spec.subQ (Spec.rowTimes row (z.map Spec.ntt)) (Spec.mulQ (Spec.ntt c) (Spec.ntt (t.map (fun x => x * 2 ^ 13 % Q)))))) := by
    funext row t
    exact wRowS_is_spec row z c t
  unfold wApproxS Spec.wApprox
  rw [hf]

theorem normInfS_is_spec (z : List Poly) : normInfS z = Spec.infNorm z := by
  unfold normInfS Spec.infNorm
  cases hz : z.flatten.map (fun e => absI (modpm Q e)) with
  | nil => rfl
  | cons v vs =>
    simp only [List.foldl_cons]
    have hv : 0 ≤ v := by
      have : v ∈ z.flatten.map (fun e => absI (modpm Q e)) := by rw [hz]; exact List.mem_cons_self
      obtain ⟨e, _, rfl⟩ := List.mem_map.mp this
      unfold absI; split <;> omega
    rw [if_pos_or_eq v hv]
where
  if_pos_or_eq (v : Int) (hv : 0 ≤ v) : (if (0 : Int) < v then v else 0) = v := by
    split <;> omega

end Fips204.Impl
