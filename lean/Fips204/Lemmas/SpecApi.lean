import Fips204.Props.C02c
import Fips204.Props.C02b
import Fips204.Props.C03d
import Fips204.Props.C04c
import Fips204.Props.C04
import Fips204.Props.C12
/-!
  The external interface (`Impl/Api`: the six trait methods with the RNG automaton) against Algorithms 1-5 of `Spec/MlDsa.lean`.
-/
namespace Fips204.Impl
open Fips204 Fips204.Gen

def specPh : Ph → Spec.PreHash
  | .sha256 => .sha256
  | .sha512 => .sha512
  | .shake128 => .shake128

theorem hashMessage_is_oidAndDigest (O : Oracles) (hW : Spec.WF O) (msg : List Nat) (ph : Ph) :
    hashMessage O msg ph = Spec.oidAndDigest O.sha256 O.sha512 O.g msg (specPh ph) := by
  rw [Props.C03.hashMessage_is_fips O hW msg ph]
  cases ph <;> rfl

theorem oid_nonempty (O : Oracles) (msg : List Nat) (ph : Spec.PreHash) :
    (Spec.oidAndDigest O.sha256 O.sha512 O.g msg ph).1.isEmpty = false := by
  cases ph <;> rfl

theorem formatted_pure (msg ctx : List Nat) : Spec.formatted false msg ctx [] [] = [0] ++ [ctx.length % 256] ++ ctx ++ msg := rfl

theorem formatted_hash (msg ctx oid phm : List Nat) (h : oid.isEmpty = false) :
    Spec.formatted false msg ctx oid phm = [1] ++ [ctx.length % 256] ++ ctx ++ oid ++ phm := by
  unfold Spec.formatted
  simp [h]

/-- **`verify` is Algorithm 3 as written**, from the key bytes -/
theorem verify_is_algorithm_3_as_written (m : Mode) (O : Oracles) (hO : OracleOk O) (p : ParamSet)
    (hp : p ∈ [ml_dsa_44, ml_dsa_65, ml_dsa_87]) (pkb msg sig ctx : List Nat)
    (hpb : ∀ x ∈ pkb, x < 256) (hpl : pkb.length = p.pkLen) (hb : ∀ x ∈ sig, x < 256) (hlen : sig.length = p.sigLen) :
    ∃ pk, expandPublic m O p pkb = .ok (some pk) ∧
      AgreesWith (verify m O p pk msg sig ctx)
        (Spec.verify (specParams p) O.h O.g (1680 * O.fuelScale) (8 + 1360 * O.fuelScale) pkb msg sig ctx) := by
  obtain ⟨pk, hpk, h8⟩ := Props.C02.verification_is_fips_204_algorithm_8_as_written m O hO p hp pkb msg sig ctx [] [] false hpb hpl hb hlen
  refine ⟨pk, hpk, ?_⟩
  rw [Props.C02.verify_is_algorithm_3]
  unfold Spec.verify
  by_cases hc : ctx.length > 255
  · rw [if_pos hc, if_pos hc]; rfl
  · rw [if_neg hc, if_neg hc]
    rw [formatted_pure] at h8
    exact h8

/-- **`hash_verify` is Algorithm 5 as written**, from the key bytes -/
theorem hashVerify_is_algorithm_5_as_written (m : Mode) (O : Oracles) (hO : OracleOk O) (hW : Spec.WF O) (p : ParamSet)
    (hp : p ∈ [ml_dsa_44, ml_dsa_65, ml_dsa_87]) (pkb msg sig ctx : List Nat) (ph : Ph)
    (hpb : ∀ x ∈ pkb, x < 256) (hpl : pkb.length = p.pkLen) (hb : ∀ x ∈ sig, x < 256) (hlen : sig.length = p.sigLen) :
    ∃ pk, expandPublic m O p pkb = .ok (some pk) ∧
      AgreesWith (hashVerify m O p pk msg sig ctx ph)
        (Spec.hashVerify (specParams p) O.h O.g O.sha256 O.sha512 (1680 * O.fuelScale) (8 + 1360 * O.fuelScale) pkb msg sig ctx (specPh ph)) := by
  obtain ⟨pk, hpk, h8⟩ := Props.C02.verification_is_fips_204_algorithm_8_as_written m O hO p hp pkb msg sig ctx
    (hashMessage O msg ph).1 (hashMessage O msg ph).2 false hpb hpl hb hlen
  refine ⟨pk, hpk, ?_⟩
  rw [Props.C02.hash_verify_is_algorithm_5]
  unfold Spec.hashVerify
  by_cases hc : ctx.length > 255
  · rw [if_pos hc, if_pos hc]; rfl
  · rw [if_neg hc, if_neg hc]
    rw [hashMessage_is_oidAndDigest O hW] at h8 ⊢
    rw [formatted_hash _ _ _ _ (oid_nonempty O msg (specPh ph))] at h8
    exact h8

/-- a result of the signing entry points against `Option (Option signature)` of the specification -/
def AgreesApiSig (r : M (ApiRes SignOut × List RngCall)) : Option (Option (List Nat)) → Prop
  | some (some sig) => ∃ it, r = .ok (.ok { sig := sig, iters := it }, [.tryFill 32])
  | some none => ∃ e log, r = .ok (.error e, log)
  | none => ∃ s, r = .error (.fuel s)

theorem agreesApiSig_of (x : M SignOut) (o : Option (List Nat)) (h : AgreesSig x o) :
    AgreesApiSig (do let s ← x; pure (.ok s, [.tryFill 32])) (o.map some) := by
  cases o with
  | none => obtain ⟨s, hs⟩ := h; exact ⟨s, by rw [hs]; rfl⟩
  | some sig => obtain ⟨it, hs⟩ := h; exact ⟨it, by rw [hs]; rfl⟩

/-- **`try_sign_with_rng` is Algorithm 2 as written**, from the private-key bytes, on a generator that delivers `rnd` -/
theorem sign_is_algorithm_2_as_written (m : Mode) (O : Oracles) (hO : OracleOk O) (hP : OraclePrefix O)
    (p : ParamSet) (hp : p ∈ [ml_dsa_44, ml_dsa_65, ml_dsa_87]) (fuel : Nat) (hfuel : fuel * p.l ≤ 65535)
    (skb : List Nat) (hb : ∀ x ∈ skb, x < 256) (hlen : skb.length = p.skLen)
    (sk : PrivateKey) (hsk : expandPrivate m p skb = .ok (some sk)) (msg ctx rnd : List Nat) (rest : List RngResp) (hr : rnd.length = 32) :
    AgreesApiSig (sign m O p fuel sk msg ctx (RngResp.ok rnd :: rest))
      (Spec.sign (specParams p) O.h O.g (1680 * O.fuelScale) (8 + 1360 * O.fuelScale) fuel skb msg ctx (some rnd)) := by
  unfold Spec.sign
  by_cases hc : ctx.length > 255
  · rw [if_pos hc]
    refine ⟨.ctx, [], ?_⟩
    unfold sign
    simp only [signCtxGuard, pure_eq, ok_bind]
    rw [if_pos (by simp; omega)]
  · rw [if_neg hc]
    rw [Props.C03.sign_is_alg2_wrapper m O p fuel sk msg ctx rnd rest (by omega) hr]
    have h7 := Props.C03.sign_internal_is_Sign_internal_as_written m O hO hP p hp fuel hfuel skb hb hlen sk hsk msg ctx [] [] rnd false
    simp only [] at h7
    rw [formatted_pure] at h7
    exact agreesApiSig_of _ _ h7

/-- **`try_hash_sign_with_rng` is Algorithm 4 as written** -/
theorem hashSign_is_algorithm_4_as_written (m : Mode) (O : Oracles) (hO : OracleOk O) (hP : OraclePrefix O) (hW : Spec.WF O)
    (p : ParamSet) (hp : p ∈ [ml_dsa_44, ml_dsa_65, ml_dsa_87]) (fuel : Nat) (hfuel : fuel * p.l ≤ 65535)
    (skb : List Nat) (hb : ∀ x ∈ skb, x < 256) (hlen : skb.length = p.skLen)
    (sk : PrivateKey) (hsk : expandPrivate m p skb = .ok (some sk)) (msg ctx rnd : List Nat) (ph : Ph) (rest : List RngResp) (hr : rnd.length = 32) :
    AgreesApiSig (hashSign m O p fuel sk msg ctx ph (RngResp.ok rnd :: rest))
      (Spec.hashSign (specParams p) O.h O.g O.sha256 O.sha512 (1680 * O.fuelScale) (8 + 1360 * O.fuelScale) fuel skb msg ctx (specPh ph) (some rnd)) := by
  unfold Spec.hashSign
  by_cases hc : ctx.length > 255
  · rw [if_pos hc]
    refine ⟨.ctx, [], ?_⟩
    unfold hashSign
    simp only [hashSignCtxGuard, pure_eq, ok_bind]
    rw [if_pos (by simp; omega)]
  · rw [if_neg hc]
    rw [Props.C03.hashSign_is_alg4_wrapper m O p fuel sk msg ctx rnd ph rest (by omega) hr]
    have h7 := Props.C03.sign_internal_is_Sign_internal_as_written m O hO hP p hp fuel hfuel skb hb hlen sk hsk msg ctx
      (hashMessage O msg ph).1 (hashMessage O msg ph).2 rnd false
    simp only [] at h7
    rw [hashMessage_is_oidAndDigest O hW] at h7 ⊢
    rw [formatted_hash _ _ _ _ (oid_nonempty O msg (specPh ph))] at h7
    exact agreesApiSig_of _ _ h7

/-- **`try_keygen_with_rng` followed by serialisation is Algorithm 1 as written**, on a generator that delivers `xi`; a failing generator gives `⊥` -/
theorem keygen_is_algorithm_1_as_written (m : Mode) (O : Oracles) (hO : OracleOk O) (p : ParamSet) (hp : p ∈ [ml_dsa_44, ml_dsa_65, ml_dsa_87])
    (xi : List Nat) (rest : List RngResp) (hx : xi.length = 32) :
    match Spec.keyGen (specParams p) O.h O.g (1680 * O.fuelScale) (1088 * O.fuelScale) (some xi) with
    | some (some (pk, sk)) => ∃ kp, keygenWithRng m O p (RngResp.ok xi :: rest) = .ok (.ok kp, [.tryFill 32]) ∧
        pkIntoBytes m p kp.1 = .ok pk ∧ skIntoBytes m p kp.2 = .ok sk
    | some none => False
    | none => ∃ s, keygenWithRng m O p (RngResp.ok xi :: rest) = .error (.fuel s) ∨
        ∃ kp, keygenWithRng m O p (RngResp.ok xi :: rest) = .ok (.ok kp, [.tryFill 32]) ∧
          ((∃ s', pkIntoBytes m p kp.1 = .error (.fuel s')) ∨ ∃ s', skIntoBytes m p kp.2 = .error (.fuel s')) := by
  have h6 := keygen_is_algorithm_6_as_written m O hO p hp xi
  rw [Props.C04.keygen_rng_is_seeded m O p xi rest hx]
  unfold Spec.keyGen
  simp only []
  cases hk : Spec.keyGenInternal (specParams p) O.h O.g (1680 * O.fuelScale) (1088 * O.fuelScale) xi with
  | none =>
    rw [hk] at h6
    obtain ⟨s, hs⟩ := h6
    simp only [Option.map_none]
    cases hg : keygenFromSeed m O p xi with
    | error e =>
      rw [hg] at hs
      have : e = .fuel s := by cases hs; rfl
      exact ⟨s, Or.inl (by rw [this]; rfl)⟩
    | ok kp =>
      rw [hg, ok_bind] at hs
      refine ⟨s, Or.inr ⟨kp, rfl, ?_⟩⟩
      cases hpk : pkIntoBytes m p kp.1 with
      | error e => rw [hpk] at hs; left; exact ⟨s, by cases hs; rfl⟩
      | ok pkb =>
        rw [hpk, ok_bind] at hs
        cases hskb : skIntoBytes m p kp.2 with
        | error e => rw [hskb] at hs; right; exact ⟨s, by cases hs; rfl⟩
        | ok skb => rw [hskb, ok_bind] at hs; cases hs
  | some r =>
    obtain ⟨pk, sk⟩ := r
    rw [hk] at h6
    simp only [Option.map_some]
    have h6' : (keygenFromSeed m O p xi >>= fun kp => pkIntoBytes m p kp.1 >>= fun pkb =>
        skIntoBytes m p kp.2 >>= fun skb => pure (pkb, skb)) = .ok (pk, sk) := h6
    obtain ⟨kp, hkp, h6'⟩ := bind_ok_inv h6'
    obtain ⟨pkb, hpkI, h6'⟩ := bind_ok_inv h6'
    obtain ⟨skb, hskI, h6'⟩ := bind_ok_inv h6'
    rw [pure_eq] at h6'
    have e := ok_inj h6'
    simp only [Prod.mk.injEq] at e
    obtain ⟨e1, e2⟩ := e
    subst e1 e2
    exact ⟨kp, by rw [hkp]; rfl, hpkI, hskI⟩

/-- a generator that fails is the `NULL` of Algorithm 2 lines 5-8 / Algorithm 4: the entry points return an error exactly as the standard returns `⊥`,
    for every context length -/
theorem sign_failing_generator_is_bottom (m : Mode) (O : Oracles) (p : ParamSet) (fuel : Nat) (sk : PrivateKey) (skb msg ctx : List Nat)
    (script : List RngResp) (h : Props.C12.Fails script) :
    AgreesApiSig (sign m O p fuel sk msg ctx script)
      (Spec.sign (specParams p) O.h O.g (1680 * O.fuelScale) (8 + 1360 * O.fuelScale) fuel skb msg ctx none) := by
  unfold Spec.sign
  by_cases hc : ctx.length > 255
  · rw [if_pos hc]
    refine ⟨.ctx, [], ?_⟩
    unfold sign
    simp only [signCtxGuard, pure_eq, ok_bind]
    rw [if_pos (by simp; omega)]
  · rw [if_neg hc]
    exact ⟨.rng, [.tryFill 32], Props.C12.sign_reports_rng_failure m O p fuel sk msg ctx script (by omega) h⟩

theorem hashSign_failing_generator_is_bottom (m : Mode) (O : Oracles) (p : ParamSet) (fuel : Nat) (sk : PrivateKey) (skb msg ctx : List Nat)
    (ph : Ph) (script : List RngResp) (h : Props.C12.Fails script) :
    AgreesApiSig (hashSign m O p fuel sk msg ctx ph script)
      (Spec.hashSign (specParams p) O.h O.g O.sha256 O.sha512 (1680 * O.fuelScale) (8 + 1360 * O.fuelScale) fuel skb msg ctx (specPh ph) none) := by
  unfold Spec.hashSign
  by_cases hc : ctx.length > 255
  · rw [if_pos hc]
    refine ⟨.ctx, [], ?_⟩
    unfold hashSign
    simp only [hashSignCtxGuard, pure_eq, ok_bind]
    rw [if_pos (by simp; omega)]
  · rw [if_neg hc]
    exact ⟨.rng, [.tryFill 32], Props.C12.hashSign_reports_rng_failure m O p fuel sk msg ctx ph script (by omega) h⟩

end Fips204.Impl
