import Fips204.Lemmas.RingIdentity
/-! The verifier recomputes the signer's `w1`: `UseHint(h, w'_approx) = HighBits(w)` for every coefficient of every row,
    under the tests Algorithm 7 applies before it emits a signature. Exact specifications on both sides. -/
namespace Fips204.Impl
open Fips204 Fips204.Gen Fips204.K

theorem normInfS_bound (v : List Poly) (B : Int) (h : normInfS v < B) : ∀ q ∈ v, ∀ x ∈ q, absI (modpm Q x) < B := by
  intro q hq x hx
  have hm : absI (modpm Q x) ∈ v.flatten.map (fun e => absI (modpm Q e)) :=
    List.mem_map.mpr ⟨x, List.mem_flatten.mpr ⟨q, hq, hx⟩, rfl⟩
  unfold normInfS at h
  cases hl : v.flatten.map (fun e => absI (modpm Q e)) with
  | nil => rw [hl] at hm; simp at hm
  | cons a as =>
    rw [hl] at h hm
    simp only [] at h
    obtain ⟨g1, g2⟩ := foldl_max_ge as a
    rcases List.mem_cons.mp hm with e | e
    · rw [e]; omega
    · have := g2 _ e; omega

theorem useHint_mod (g h a b : Int) (hab : a % Q = b % Q) : Spec.useHint g h a = Spec.useHint g h b := by
  unfold Spec.useHint; rw [decompose_mod g a b hab]

/-- one polynomial: hints made from `(w, c s2, c t0)` applied to anything congruent to `w - c s2 + c t0` give `HighBits(w)` -/
theorem poly_recover (g beta : Int) (hg : g = 95232 ∨ g = 261888) (hb : 0 ≤ beta ∧ beta ≤ g) (w cs2 ct0 wa : Poly)
    (l1 : w.length = cs2.length) (l2 : cs2.length = ct0.length)
    (hwa : CongL wa (zw3 (fun p q r => p - q + r) w cs2 ct0))
    (h1 : ∀ x ∈ cs2, -beta ≤ modpm Q x ∧ modpm Q x ≤ beta)
    (h2 : ∀ x ∈ List.zipWith (fun a b => Spec.lowBits g (a - b)) w cs2, -(g - beta) < x ∧ x < g - beta)
    (h3 : ∀ x ∈ ct0, -g < modpm Q x ∧ modpm Q x < g) :
    List.zipWith (fun hh r => Spec.useHint g hh r)
      (zw3 (fun a b c0 => if Spec.makeHint g (-c0) (a - b + c0) then (1 : Int) else 0) w cs2 ct0) wa = w.map (Spec.highBits g) := by
  have lz : (zw3 (fun p q r => p - q + r) w cs2 ct0).length = w.length := by
    unfold zw3; rw [List.length_zipWith, List.length_zip]; omega
  have lh : (zw3 (fun a b c0 => if Spec.makeHint g (-c0) (a - b + c0) then (1 : Int) else 0) w cs2 ct0).length = w.length := by
    unfold zw3; rw [List.length_zipWith, List.length_zip]; omega
  have lwa : wa.length = w.length := hwa.1.trans lz
  apply List.ext_getElem
  · rw [List.length_zipWith, List.length_map, lh, lwa]; omega
  · intro j g1 g2
    rw [List.length_map] at g2
    have j1 : j < cs2.length := by omega
    have j2 : j < ct0.length := by omega
    have jw : j < wa.length := by omega
    have hc := hwa.2 j jw (by rw [lz]; exact g2)
    have e3 : (zw3 (fun p q r => p - q + r) w cs2 ct0)[j]'(by rw [lz]; exact g2) = w[j] - cs2[j] + ct0[j] := by
      unfold zw3; rw [List.getElem_zipWith, List.getElem_zip]
    rw [e3] at hc
    have eh : (zw3 (fun a b c0 => if Spec.makeHint g (-c0) (a - b + c0) then (1 : Int) else 0) w cs2 ct0)[j]'(by rw [lh]; exact g2) =
        if Spec.makeHint g (-ct0[j]) (w[j] - cs2[j] + ct0[j]) then (1 : Int) else 0 := by
      unfold zw3; rw [List.getElem_zipWith, List.getElem_zip]
    rw [List.getElem_zipWith, List.getElem_map, eh]
    rw [useHint_mod g _ wa[j] (w[j] - cs2[j] + ct0[j]) (by unfold cg at hc; simp only [Q]; omega)]
    refine coeff_hint g beta w[j] cs2[j] ct0[j] hg hb (h1 _ (List.getElem_mem _)) ?_ (h3 _ (List.getElem_mem _))
    have hm : Spec.lowBits g (w[j] - cs2[j]) ∈ List.zipWith (fun a b => Spec.lowBits g (a - b)) w cs2 := by
      refine List.mem_iff_getElem.mpr ⟨j, by rw [List.length_zipWith]; omega, ?_⟩
      rw [List.getElem_zipWith]
    exact h2 _ hm

/-- **the verifier recovers the signer's `w1`** (exact specifications): with `t = A s1 + s2`, `(t1, t0) = Power2Round(t)`,
    `w = A y`, `z = y + c s1`, and the signer's tests `‖LowBits(w - c s2)‖∞ < gamma2 - beta`, `‖c t0‖∞ < gamma2`,
    `‖c s2‖∞ ≤ beta`, the hint applied to the verifier's `w'_approx = A z - c t1 2^d` returns `HighBits(w)` -/
theorem verifier_recovers_w1 (g beta : Int) (hg : g = 95232 ∨ g = 261888) (hb : 0 ≤ beta ∧ beta ≤ g)
    (aHat : List (List Poly)) (s1 s2 y : List Poly) (c : Poly)
    (hA : ∀ row ∈ aHat, ∀ a ∈ row, a.length = 256) (hs1 : ∀ u ∈ s1, u.length = 256) (hs2 : ∀ u ∈ s2, u.length = 256)
    (hy : ∀ u ∈ y, u.length = 256) (hl1 : y.length = s1.length) (hk : aHat.length = s2.length) (lc : c.length = 256)
    (hcs2 : ∀ q ∈ s2.map (cmul c), ∀ x ∈ q, -beta ≤ modpm Q x ∧ modpm Q x ≤ beta)
    (hr0 : normInfS (List.zipWith (fun wp cp => List.zipWith (fun a b => Spec.lowBits g (a - b)) wp cp) (commitS aHat y) (s2.map (cmul c))) < g - beta)
    (hct0 : normInfS (((List.zipWith (fun row s2r => tRowS row s1 s2r) aHat s2).map
        (fun q => q.map (fun x => (Spec.power2round x).2))).map (cmul c)) < g) :
    List.zipWith (fun hp wp => List.zipWith (fun hh r => Spec.useHint g hh r) hp wp)
      (attemptSpec.zw3L (fun a b c0 => if Spec.makeHint g (-c0) (a - b + c0) then (1 : Int) else 0) (commitS aHat y) (s2.map (cmul c))
        (((List.zipWith (fun row s2r => tRowS row s1 s2r) aHat s2).map (fun q => q.map (fun x => (Spec.power2round x).2))).map (cmul c)))
      (wApproxS aHat (List.zipWith (fun yp cp => List.zipWith (fun a b => modpm Q (a + b)) yp cp) y (s1.map (cmul c))) c
        ((List.zipWith (fun row s2r => tRowS row s1 s2r) aHat s2).map (fun q => q.map (fun x => (Spec.power2round x).1)))) =
      (commitS aHat y).map (fun q => q.map (Spec.highBits g)) := by
  have lz : zeroPoly.length = 256 := by unfold zeroPoly; rw [List.length_replicate]
  unfold attemptSpec.zw3L wApproxS
  apply List.ext_getElem
  · unfold commitS
    simp only [List.length_zipWith, List.length_map, List.length_zip]; omega
  · intro i g1 g2
    have g2 : i < aHat.length := by
      unfold commitS at g2
      rw [List.length_map, List.length_map] at g2; exact g2
    have i2 : i < s2.length := by omega
    have hrow := hA _ (List.getElem_mem g2)
    have ls2 := hs2 _ (List.getElem_mem i2)
    have vr := verifier_row aHat[i] s1 y c s2[i] hrow hs1 hy hl1 lc ls2
    have lRy := (rowS_ev 0 (by decide) aHat[i] y zeroPoly lz hrow hy).1
    have lRs := (rowS_ev 0 (by decide) aHat[i] s1 zeroPoly lz hrow hs1).1
    have lw : (invC (rowS aHat[i] y zeroPoly)).length = 256 := invC_length _ lRy
    have lt : (tRowS aHat[i] s1 s2[i]).length = 256 := by
      unfold tRowS; rw [List.length_zipWith]
      have := invC_length _ lRs
      unfold invC at this; rw [this, ls2]; rfl
    have lcs2 : (cmul c s2[i]).length = 256 := by unfold cmul canon; rw [List.length_map, negMul_length c _ lc ls2]
    have lct0 : (cmul c ((tRowS aHat[i] s1 s2[i]).map (fun v => (Spec.power2round v).2))).length = 256 := by
      unfold cmul canon; rw [List.length_map, negMul_length c _ lc (by rw [List.length_map, lt])]
    -- the i-th components
    have eW : (commitS aHat y)[i]'(by unfold commitS; rw [List.length_map]; exact g2) = invC (rowS aHat[i] y zeroPoly) := by
      unfold commitS invC; rw [List.getElem_map]
    have pr := poly_recover g beta hg hb (invC (rowS aHat[i] y zeroPoly)) (cmul c s2[i])
      (cmul c ((tRowS aHat[i] s1 s2[i]).map (fun v => (Spec.power2round v).2))) _ (by rw [lw, lcs2]) (by rw [lcs2, lct0]) vr
      (hcs2 _ (List.mem_map.mpr ⟨s2[i], List.getElem_mem i2, rfl⟩))
      (fun x hx => by
        have hmem : List.zipWith (fun a b => Spec.lowBits g (a - b)) (invC (rowS aHat[i] y zeroPoly)) (cmul c s2[i]) ∈
            List.zipWith (fun wp cp => List.zipWith (fun a b => Spec.lowBits g (a - b)) wp cp) (commitS aHat y) (s2.map (cmul c)) := by
          refine List.mem_iff_getElem.mpr ⟨i, by unfold commitS; simp only [List.length_zipWith, List.length_map]; omega, ?_⟩
          rw [List.getElem_zipWith, List.getElem_map, eW]
        have hb := normInfS_bound _ _ hr0 _ hmem x hx
        obtain ⟨j, hj, rfl⟩ := List.mem_iff_getElem.mp hx
        rw [List.getElem_zipWith] at hb ⊢
        have hrng := lowBits_range g ((invC (rowS aHat[i] y zeroPoly))[j]'(by rw [List.length_zipWith] at hj; omega) -
          (cmul c s2[i])[j]'(by rw [List.length_zipWith] at hj; omega)) hg
        rw [modpm_small _ (by omega), absI_eq] at hb
        split at hb <;> omega)
      (fun x hx => by
        have hmem : cmul c ((tRowS aHat[i] s1 s2[i]).map (fun v => (Spec.power2round v).2)) ∈
            ((List.zipWith (fun row s2r => tRowS row s1 s2r) aHat s2).map (fun q => q.map (fun x => (Spec.power2round x).2))).map (cmul c) := by
          refine List.mem_iff_getElem.mpr ⟨i, by simp only [List.length_zipWith, List.length_map]; omega, ?_⟩
          rw [List.getElem_map, List.getElem_map, List.getElem_zipWith]
        have hb := normInfS_bound _ _ hct0 _ hmem x hx
        rw [absI_eq] at hb
        split at hb <;> omega)
    simp only [List.getElem_zipWith, List.getElem_map, List.getElem_zip]
    rw [eW]
    exact pr

end Fips204.Impl
