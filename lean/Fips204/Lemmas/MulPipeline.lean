import Fips204.Lemmas.NttMul
/-! The implementation's transform / pointwise-multiply / inverse-transform pipeline computes negacyclic products
    modulo q: `c * s` for the signer's `c s1`, `c s2`, `c t0`. -/
namespace Fips204.Impl
open Fips204 Fips204.Gen Fips204.K

theorem fs_scale (x : Int) : cg (FS * (2 ^ 8 * x)) x := by
  have e : FS * (2 ^ 8 * x) = (FS * 2 ^ 8) * x := by grind
  rw [e]
  have := fs256.mul_right x
  rw [Int.one_mul] at this
  exact this

theorem rr_one (x : Int) : cg (x * 4294967296 * RINV) x := by unfold cg RINV; omega

theorem pointwise_unmont (A B : List Int) :
    CongL (List.zipWith (fun c x => c * x * RINV) A (B.map (fun x => x * 4294967296))) (List.zipWith (fun x y => x * y) A B) := by
  refine ⟨by simp, fun i h1 h2 => ?_⟩
  simp only [List.getElem_zipWith, List.getElem_map]
  rw [List.length_zipWith] at h2
  have e : A[i] * (B[i] * 4294967296) * RINV = A[i] * (B[i] * 4294967296 * RINV) := by grind
  rw [e]
  exact (rr_one _).mul_left _

/-- **one product `c * s` through the lazy pipeline**: `inv_ntt(mont_reduce(ntt(c) ∘ to_mont(ntt(s))))` is the
    negacyclic product modulo q, as canonical residues, without overflow -/
theorem mulPoly_sem (m : Mode) (site : String) (c s : Poly) (lc : c.length = 256) (ls : s.length = 256)
    (hc : Bnd 524288 c) (hs : Bnd 524288 s) :
    ∃ ch a sh pr r, nttPoly m c = .ok ch ∧ nttPoly m s = .ok a ∧ a.mapM (to_mont_coeff m) = .ok sh ∧
      zipWithM (fun c x => do let p ← arith .i64 m site (c * x); mont_reduce m p) ch sh = .ok pr ∧ invNttPoly m pr = .ok r ∧
      (∀ x ∈ r, 0 ≤ x ∧ x < 8380417) ∧ CongL r (negMul c s) := by
  obtain ⟨ch, hch, bch, cch⟩ := nttPoly_sem m c c (CongL.refl c) hc
  obtain ⟨a, ha, ba, ca⟩ := nttPoly_sem m s s (CongL.refl s) hs
  obtain ⟨sh, hsh, bsh, csh⟩ := mapM_sem (to_mont_coeff m) (fun x => x * 4294967296) (fun x => -67000000 ≤ x ∧ x ≤ 67000000)
    (fun y => -16760833 ≤ y ∧ y ≤ 16760833)
    (fun x t hx hxt => by
      have := pr64s_spec x hx.1 hx.2
      exact ⟨pr64s x, to_mont_coeff_eq m x hx.1 hx.2, ⟨by omega, by omega⟩, (show cg (pr64s x) (x * 4294967296) from this.1).trans (hxt.mul_right _)⟩)
    a _ ca (fun x hx => by have := ba x hx; omega)
  obtain ⟨pr, hpr, bpr, cpr⟩ := zipWithM_sem (fun c x => do let p ← arith .i64 m site (c * x); mont_reduce m p) (fun c x => c * x * RINV)
    (fun c => -34284028 ≤ c ∧ c ≤ 34284028) (fun x => -16760833 ≤ x ∧ x ≤ 16760833) (fun r => -2143289343 ≤ r ∧ r ≤ 2143289343)
    (fun c1 s1 x1 s1' hc1 hx1 cc cx => by
      have hp := mul_bound_sym c1 x1 34284028 16760833 hc1.1 hc1.2 hx1.1 hx1.2
      have hm := montv_spec (c1 * x1) (by omega) (by omega)
      refine ⟨montv (c1 * x1), ?_, ⟨by omega, by omega⟩, ?_⟩
      · rw [arith_i64 _ _ _ (by omega) (by omega), ok_bind]; exact mont_reduce_eq m _ (by omega) (by omega)
      · exact (montv_cg (c1 * x1) (by omega) (by omega)).trans ((((cc.mul_right x1).trans (cx.mul_left s1))).mul_right RINV))
    ch _ sh _ cch csh bch bsh
  -- the product list is congruent to the pointwise product of the two transforms
  have la := nttS_length 8 1 c (by rw [lc])
  have lb := nttS_length 8 1 s (by rw [ls])
  have hpw : CongL pr (List.zipWith (fun x y => x * y) (nttS 8 1 c) (nttS 8 1 s)) := cpr.trans (pointwise_unmont _ _)
  obtain ⟨r, hr, br, cr⟩ := invNttPoly_sem m pr _ hpw bpr
  refine ⟨ch, a, sh, pr, r, hch, ha, hsh, hpr, hr, br, cr.trans ?_⟩
  have := (invS_pointwise c s lc ls).map (fun x => FS * x) (fun x => FS * x) (fun a b h => h.mul_left FS)
  refine this.trans ⟨by simp, fun i h1 h2 => ?_⟩
  simp only [List.getElem_map]
  exact fs_scale _

/-- **`c * s_i` for a whole vector, as the signer computes it**: `ntt(c)`, the stored `to_mont(ntt(s))`, `mulInv` -/
theorem mulInv_sem (m : Mode) (site : String) (c : Poly) (s : List Poly) (lc : c.length = 256) (hc : Bnd 524288 c)
    (hs : ∀ q ∈ s, q.length = 256 ∧ Bnd 524288 q) :
    ∃ ch sh r, nttPoly m c = .ok ch ∧ nttMont m s = .ok sh ∧ mulInv m site ch sh = .ok r ∧ r.length = s.length ∧
      ∀ i (h1 : i < r.length) (h2 : i < s.length), (∀ x ∈ r[i], 0 ≤ x ∧ x < 8380417) ∧ CongL r[i] (negMul c s[i]) := by
  obtain ⟨ch, hch, _, _⟩ := nttPoly_sem m c c (CongL.refl c) hc
  have hex : ∀ i : Nat, ∃ tup : Poly × Poly × Poly × Poly, ∀ (hi : i < s.length),
      nttPoly m s[i] = .ok tup.1 ∧ tup.1.mapM (to_mont_coeff m) = .ok tup.2.1 ∧
      zipWithM (fun c x => do let p ← arith .i64 m site (c * x); mont_reduce m p) ch tup.2.1 = .ok tup.2.2.1 ∧
      invNttPoly m tup.2.2.1 = .ok tup.2.2.2 ∧ (∀ x ∈ tup.2.2.2, 0 ≤ x ∧ x < 8380417) ∧ CongL tup.2.2.2 (negMul c s[i]) := by
    intro i
    by_cases hi : i < s.length
    · obtain ⟨ch', a, sh, pr, r, h1, h2, h3, h4, h5, h6, h7⟩ := mulPoly_sem m site c s[i] lc (hs _ (List.getElem_mem _)).1 hc (hs _ (List.getElem_mem _)).2
      rw [hch] at h1
      have e := ok_inj h1
      subst e
      exact ⟨(a, sh, pr, r), fun _ => ⟨h2, h3, h4, h5, h6, h7⟩⟩
    · exact ⟨([], [], [], []), fun h => absurd h hi⟩
  obtain ⟨G, hG⟩ := Classical.axiomOfChoice hex
  let n := s.length
  have s1 : s.mapM (nttPoly m) = .ok ((List.range' 0 n).map (fun i => (G i).1)) :=
    mapM_stage _ _ s 0 (fun i hi => by rw [Nat.zero_add]; exact (hG i hi).1)
  have s2 : ((List.range' 0 n).map (fun i => (G i).1)).mapM (fun q : Poly => q.mapM (to_mont_coeff m)) = .ok ((List.range' 0 n).map (fun i => (G i).2.1)) := by
    have := mapM_stage (fun q : Poly => q.mapM (to_mont_coeff m)) (fun i => (G i).2.1) ((List.range' 0 n).map (fun i => (G i).1)) 0
      (fun i hi => by
        rw [Nat.zero_add, stage_get]
        have hi' : i < s.length := by simpa using hi
        exact (hG i hi').2.1)
    simpa using this
  have s3 : ((List.range' 0 n).map (fun i => (G i).2.1)).mapM (fun sp => zipWithM (fun c x => do let p ← arith .i64 m site (c * x); mont_reduce m p) ch sp) =
      .ok ((List.range' 0 n).map (fun i => (G i).2.2.1)) := by
    have := mapM_stage (fun sp => zipWithM (fun c x => do let p ← arith .i64 m site (c * x); mont_reduce m p) ch sp) (fun i => (G i).2.2.1)
      ((List.range' 0 n).map (fun i => (G i).2.1)) 0
      (fun i hi => by
        rw [Nat.zero_add, stage_get]
        have hi' : i < s.length := by simpa using hi
        exact (hG i hi').2.2.1)
    simpa using this
  have s4 : ((List.range' 0 n).map (fun i => (G i).2.2.1)).mapM (invNttPoly m) = .ok ((List.range' 0 n).map (fun i => (G i).2.2.2)) := by
    have := mapM_stage (invNttPoly m) (fun i => (G i).2.2.2) ((List.range' 0 n).map (fun i => (G i).2.2.1)) 0
      (fun i hi => by
        rw [Nat.zero_add, stage_get]
        have hi' : i < s.length := by simpa using hi
        exact (hG i hi').2.2.2.1)
    simpa using this
  refine ⟨ch, (List.range' 0 n).map (fun i => (G i).2.1), (List.range' 0 n).map (fun i => (G i).2.2.2), hch, ?_, ?_, by simp [n], fun i h1 h2 => ?_⟩
  · unfold nttMont ntt toMont; rw [s1, ok_bind]; exact s2
  · unfold mulInv invNtt; rw [s3, ok_bind]; exact s4
  · rw [stage_get]
    exact ⟨(hG i h2).2.2.2.2.1, (hG i h2).2.2.2.2.2⟩

/-! ### multiply and accumulate: one matrix row times a vector -/

theorem nttS_add (u v : List Int) (hu : u.length = 256) (hv : v.length = 256) :
    CongL (nttS 8 1 (List.zipWith (fun a b => a + b) u v)) (List.zipWith (fun a b => a + b) (nttS 8 1 u) (nttS 8 1 v)) := by
  have hl : (List.zipWith (fun a b => a + b) u v).length = 256 := by rw [List.length_zipWith, hu, hv]; rfl
  have la := nttS_length 8 1 u (by rw [hu])
  have lb := nttS_length 8 1 v (by rw [hv])
  have lc := nttS_length 8 1 _ (by rw [hl])
  refine ⟨by rw [List.length_zipWith, la, lb, lc]; rfl, fun i h1 h2 => ?_⟩
  have hi : i < 256 := by rw [lc] at h1; exact h1
  rw [List.getElem_zipWith]
  have ea := nttS_eval 7 1 u (by rw [hu]) (by decide) (by omega) i (by rw [la]; exact hi)
  have eb := nttS_eval 7 1 v (by rw [hv]) (by decide) (by omega) i (by rw [lb]; exact hi)
  have ec := nttS_eval 7 1 _ (by rw [hl]) (by decide) (by omega) i h1
  rw [ev_zip_add _ _ _ (by rw [hu, hv])] at ec
  exact ec.trans (ea.symm.add eb.symm)

/-- one accumulate step on abstract lists: `acc + mont_reduce(a_hat * u_mont)` is `acc + a_hat ∘ y_hat` modulo q -/
theorem acc_step_cong (acc NP ah NA um NY : List Int) (h1 : CongL acc NP) (h2 : CongL ah NA) (h3 : CongL um (NY.map (fun x => x * 4294967296)))
    (ba : ∀ x ∈ ah, 0 ≤ x ∧ x ≤ 8380416) (bu : Bnd 16760833 um) :
    CongL (zw3 accP acc ah um) (List.zipWith (fun a b => a + b) NP (List.zipWith (fun x y => x * y) NA NY)) := by
  unfold zw3
  have l3 := h3.1
  rw [List.length_map] at l3
  refine ⟨by simp only [List.length_zipWith, List.length_zip, h1.1, h2.1, l3], fun i g1 g2 => ?_⟩
  rw [List.length_zipWith, List.length_zip] at g1
  rw [List.length_zipWith, List.length_zipWith] at g2
  simp only [List.getElem_zipWith, List.getElem_zip]
  have hai := ba (ah[i]'(by omega)) (List.getElem_mem _)
  have hui := bu (um[i]'(by omega)) (List.getElem_mem _)
  have hp := mul_bound (ah[i]'(by omega)) (um[i]'(by omega)) 8380416 16760833 hai.1 hai.2 hui.1 hui.2
  unfold accP
  refine (h1.2 i (by omega) (by omega)).add ?_
  have c1 := montv_cg ((ah[i]'(by omega)) * (um[i]'(by omega))) (by omega) (by omega)
  have c2 := h2.2 i (by omega) (by omega)
  have c3 := h3.2 i (by omega) (by rw [List.length_map]; omega)
  rw [List.getElem_map] at c3
  refine c1.trans ((((c2.mul_right _).trans (c3.mul_left _)).mul_right RINV).trans ?_)
  have e : NA[i] * (NY[i] * 4294967296) * RINV = NA[i] * (NY[i] * 4294967296 * RINV) := by grind
  rw [e]
  exact (rr_one _).mul_left _

/-- a matrix row in the NTT domain, the vector in stored (`to_mont`) form, and the polynomials they represent -/
def RowRel : List Poly → List Poly → List Poly → List Poly → Prop
  | [], [], [], [] => True
  | ah :: row, u :: um, a :: as, y :: ys =>
    (Res ah ∧ Bnd 16760833 u ∧ a.length = 256 ∧ y.length = 256 ∧ CongL ah (nttS 8 1 a) ∧
      CongL u ((nttS 8 1 y).map (fun x => x * 4294967296))) ∧ RowRel row um as ys
  | _, _, _, _ => False

/-- `sum_j a_j * y_j` in `Z[X]/(X^256 + 1)`, accumulated onto `P` -/
def sumProd : List Poly → List Poly → Poly → Poly
  | a :: as, y :: ys, P => sumProd as ys (List.zipWith (fun a b => a + b) P (negMul a y))
  | _, _, P => P

theorem rowP_sem : ∀ (row um as ys : List Poly) (acc P : List Int), RowRel row um as ys → CongL acc (nttS 8 1 P) → P.length = 256 →
    CongL (rowP (row.zip um) acc) (nttS 8 1 (sumProd as ys P)) ∧ (sumProd as ys P).length = 256 := by
  intro row
  induction row with
  | nil =>
    intro um as ys acc P h hc hl
    match um, as, ys, h with
    | [], [], [], _ => exact ⟨by simpa [rowP, sumProd] using hc, by simpa [sumProd] using hl⟩
  | cons ah row ih =>
    intro um as ys acc P h hc hl
    match um, as, ys, h with
    | u :: um', a :: as', y :: ys', h =>
      obtain ⟨⟨r1, r2, r3, r4, r5, r6⟩, hrest⟩ := h
      have hnl := negMul_length a y r3 r4
      have hPl : (List.zipWith (fun a b => a + b) P (negMul a y)).length = 256 := by rw [List.length_zipWith, hl, hnl]; rfl
      have step := acc_step_cong acc (nttS 8 1 P) ah (nttS 8 1 a) u (nttS 8 1 y) hc r5 r6 r1 r2
      have target : CongL (List.zipWith (fun a b => a + b) (nttS 8 1 P) (List.zipWith (fun x y => x * y) (nttS 8 1 a) (nttS 8 1 y)))
          (nttS 8 1 (List.zipWith (fun a b => a + b) P (negMul a y))) :=
        ((CongL.refl (nttS 8 1 P)).zipWith (nttS_negMul a y r3 r4).symm _ _ (fun a b a' b' h1 h2 => h1.add h2)).trans (nttS_add P (negMul a y) hl hnl).symm
      simp only [List.zip_cons_cons, rowP, List.foldl_cons, sumProd]
      exact ih um' as' ys' _ _ hrest (step.trans target) hPl

/-- the matrix row (NTT domain, canonical) and the polynomials it represents -/
def RowA : List Poly → List Poly → Prop
  | [], [] => True
  | ah :: row, a :: as => (Res ah ∧ a.length = 256 ∧ CongL ah (nttS 8 1 a)) ∧ RowA row as
  | _, _ => False

theorem build_rowRel (m : Mode) : ∀ (ys yh row as : List Poly), ys.mapM (nttPoly m) = .ok yh → RowA row as →
    (∀ y ∈ ys, y.length = 256 ∧ Bnd 524288 y) → ys.length = row.length → RowRel row (toMontP yh) as ys := by
  intro ys
  induction ys with
  | nil =>
    intro yh row as h hr _ hl
    rw [List.mapM_nil, pure_eq] at h
    rw [← ok_inj h]
    match row, as, hr with
    | [], [], _ => simp [RowRel, toMontP]
    | _ :: _, _, _ => simp at hl
  | cons y ys ih =>
    intro yh row as h hr hy hl
    rw [List.mapM_cons] at h
    obtain ⟨hd, hhd, h⟩ := bind_ok_inv h
    obtain ⟨tl, htl, h⟩ := bind_ok_inv h
    rw [pure_eq] at h
    rw [← ok_inj h]
    match row, as, hr with
    | [], _, _ => simp at hl
    | ah :: row', a :: as', hr =>
      obtain ⟨⟨r1, r2, r3⟩, hrest⟩ := hr
      obtain ⟨hy1, hy2⟩ := hy y (List.mem_cons_self ..)
      obtain ⟨hd', e1, b1, c1⟩ := nttPoly_sem m y y (CongL.refl y) hy2
      rw [hhd] at e1
      have := ok_inj e1
      subst this
      have bsh : Bnd 16760833 (hd.map pr64s) := by
        intro x hx
        obtain ⟨z, hz, rfl⟩ := List.mem_map.mp hx
        have := pr64s_spec z (by have := b1 z hz; omega) (by have := b1 z hz; omega)
        omega
      have csh : CongL (hd.map pr64s) ((nttS 8 1 y).map (fun x => x * 4294967296)) := by
        refine ⟨by simp [c1.1], fun i g1 g2 => ?_⟩
        rw [List.length_map] at g1 g2
        rw [List.getElem_map, List.getElem_map]
        have hb := b1 hd[i] (List.getElem_mem _)
        have s1 : cg (pr64s hd[i]) (hd[i] * 4294967296) := (pr64s_spec hd[i] (by omega) (by omega)).1
        exact s1.trans ((c1.2 i g1 g2).mul_right _)
      simp only [toMontP, List.map_cons, RowRel]
      exact ⟨⟨r1, bsh, r2, hy1, r3, csh⟩, ih tl row' as' htl hrest (fun q hq => hy q (List.mem_cons_of_mem _ hq)) (by simpa using hl)⟩

theorem ev_zeros (x : Int) : ∀ n : Nat, ev x (List.replicate n 0) = 0 := by
  intro n
  induction n with
  | zero => rfl
  | succ n ih => simp [List.replicate_succ, ev, ih]

theorem nttS_zero : CongL zeroPoly (nttS 8 1 zeroPoly) := by
  have hl : zeroPoly.length = 256 := by unfold zeroPoly; rw [List.length_replicate]
  have ln := nttS_length 8 1 zeroPoly (by rw [hl])
  refine ⟨by rw [hl, ln], fun i h1 h2 => ?_⟩
  have e := nttS_eval 7 1 zeroPoly (by rw [hl]) (by decide) (by omega) i h2
  have hz : ∀ x ∈ zeroPoly, x = 0 := fun x hx => List.eq_of_mem_replicate hx
  rw [hz _ (List.getElem_mem h1)]
  have : ev (root 8 1 i) zeroPoly = 0 := by unfold zeroPoly; exact ev_zeros _ _
  rw [this] at e
  exact e.symm

/-- **one row of `invNTT(A_hat ∘ NTT(y))`** (the signer's commitment, key generation's `A s1`): the lazy
    transform / multiply-accumulate / inverse-transform pipeline returns `sum_j a_j * y_j` in `Z_q[X]/(X^256 + 1)`, as
    canonical residues, for any canonical row `A_hat` representing the polynomials `a_j` and any vector `y` with
    coefficients up to `2^19` -/
theorem commitment_row_sem (m : Mode) (row as ys : List Poly) (hr : RowA row as) (hl : ys.length = row.length) (hn : row.length ≤ 7)
    (hy : ∀ y ∈ ys, y.length = 256 ∧ Bnd 524288 y) :
    ∃ yh r w, ntt m ys = .ok yh ∧ matVecMul m [row] yh = .ok [r] ∧ invNttPoly m r = .ok w ∧
      (∀ x ∈ w, 0 ≤ x ∧ x < 8380417) ∧ CongL w (sumProd as ys zeroPoly) := by
  obtain ⟨yh, hyh, byh⟩ := ntt_ok m ys (fun w hw => (hy w hw).2)
  have hres : ∀ p ∈ row, Res p := by
    have : ∀ (row as : List Poly), RowA row as → ∀ p ∈ row, Res p := by
      intro row
      induction row with
      | nil => intro as _ p hp; simp at hp
      | cons a r ih =>
        intro as h p hp
        match as, h with
        | b :: bs, h =>
          rcases List.mem_cons.mp hp with rfl | hp
          · exact h.1.1
          · exact ih bs h.2 p hp
    exact this row as hr
  have ha : ∀ rw ∈ [row], rw.length ≤ 7 ∧ ∀ p ∈ rw, Res p := fun rw hrw => by
    rw [List.mem_singleton.mp hrw]; exact ⟨hn, hres⟩
  have bsy : ∀ w ∈ yh, Bnd 67000000 w := fun w hw => (byh w hw).mono (by omega)
  have hpure := matVecMul_pure m [row] yh 7 ha bsy (by omega)
  obtain ⟨r', hr', br'⟩ := matVecMul_ok m [row] yh 7 ha bsy (by omega)
  rw [hpure] at hr'
  have e := ok_inj hr'
  have hrel := build_rowRel m ys yh row as hyh hr hy hl
  have hzl : zeroPoly.length = 256 := by unfold zeroPoly; rw [List.length_replicate]
  obtain ⟨hc, hsl⟩ := rowP_sem row (toMontP yh) as ys zeroPoly zeroPoly hrel nttS_zero hzl
  have hb : Bnd 2143289343 (rowP (row.zip (toMontP yh)) zeroPoly) := by
    have : rowP (row.zip (toMontP yh)) zeroPoly ∈ r' := by rw [← e]; simp [matP]
    exact (br' _ this).mono (by decide)
  obtain ⟨w, hw, cw, sw⟩ := invNttPoly_of_nttS m _ _ hsl hc hb
  exact ⟨yh, _, w, hyh, by rw [hpure]; simp [matP], hw, cw, sw⟩

end Fips204.Impl
