import Fips204.Lemmas.SignerHint
/-! The verifier's ring identity, at the level of the exact specifications: with `t = A s1 + s2` (key generation),
    `t = t1 2^13 + t0` (Power2Round), `z = y + c s1` and `w = A y` (signing),
    `NTT^-1(A_hat ∘ NTT(z) - NTT(c) ∘ NTT(t1 2^13)) = w - c s2 + c t0` modulo q, row by row.
    The proof evaluates both sides at the 256 roots (`nttS_eval`) and uses that the two transforms are mutually inverse
    (`invS_nttS`, `nttS_invS`). -/
namespace Fips204.Impl
open Fips204 Fips204.Gen Fips204.K

theorem getD_of_lt (l : List Int) (i : Nat) (h : i < l.length) : l.getD i 0 = l[i] := by
  rw [List.getD_eq_getElem?_getD, List.getElem?_eq_getElem h]; rfl

theorem getD_zipWith (f : Int → Int → Int) (a b : List Int) (i : Nat) (ha : i < a.length) (hb : i < b.length) :
    (List.zipWith f a b).getD i 0 = f (a.getD i 0) (b.getD i 0) := by
  rw [getD_of_lt _ i (by rw [List.length_zipWith]; omega), getD_of_lt a i ha, getD_of_lt b i hb, List.getElem_zipWith]

theorem cg.mul {a a' b b' : Int} (h : cg a a') (h' : cg b b') : cg (a * b) (a' * b') :=
  (h.mul_right b).trans (h'.mul_left a')

/-- `NTT^-1` with exact arithmetic, canonical representatives -/
def invC (v : List Int) : List Int := canon ((invS 8 1 v).map (fun x => FS * x))

theorem invC_length (v : List Int) (hv : v.length = 256) : (invC v).length = 256 := by
  unfold invC canon
  rw [List.length_map, List.length_map, invS_length 8 1 v (by rw [hv])]

theorem map_fs_256 (w : List Int) : CongL ((w.map (fun x => 2 ^ 8 * x)).map (fun x => FS * x)) w := by
  refine ⟨by simp, fun i g1 g2 => ?_⟩
  simp only [List.getElem_map]
  exact fs_scale _

theorem nttS_invC (v : List Int) (hv : v.length = 256) : CongL (nttS 8 1 (invC v)) v := by
  have h1 := nttS_invS 8 0 1 1 v (by rw [hv]) (by decide) (by decide) (by decide) (by decide)
  unfold invC
  refine (nttS_cong' 8 1 _ _ (canon_cong _)).trans ((nttS_scale' FS 8 1 _).trans ?_)
  exact (h1.map (fun x => FS * x) (fun x => FS * x) (fun a b h => h.mul_left FS)).trans (map_fs_256 v)

theorem invC_nttS (w : List Int) (hw : w.length = 256) : CongL (invC (nttS 8 1 w)) w := by
  have h1 := invS_nttS 8 0 1 1 w (by rw [hw]) (by decide) (by decide) (by decide) (by decide)
  unfold invC
  refine (canon_cong _).trans ?_
  exact (h1.map (fun x => FS * x) (fun x => FS * x) (fun a b h => h.mul_left FS)).trans (map_fs_256 w)

theorem invC_cong (u v : List Int) (h : CongL u v) : CongL (invC u) (invC v) := by
  unfold invC
  exact (canon_cong _).trans (((invS_cong 8 1 u v h).map _ _ (fun a b h => h.mul_left FS)).trans (canon_cong _).symm)

theorem nttS_getD (u : List Int) (hu : u.length = 256) (i : Nat) (hi : i < 256) :
    cg ((nttS 8 1 u).getD i 0) (ev (root 8 1 i) u) := by
  have ln := nttS_length 8 1 u (by rw [hu])
  rw [getD_of_lt _ i (by rw [ln]; exact hi)]
  exact nttS_eval 7 1 u (by rw [hu]) (by decide) (by omega) i (by rw [ln]; exact hi)

theorem ev_invC (v : List Int) (hv : v.length = 256) (i : Nat) (hi : i < 256) :
    cg (ev (root 8 1 i) (invC v)) (v.getD i 0) := by
  have hl := invC_length v hv
  have ln := nttS_length 8 1 (invC v) (by rw [hl])
  have e := nttS_eval 7 1 (invC v) (by rw [hl]) (by decide) (by omega) i (by rw [ln]; exact hi)
  have c := (nttS_invC v hv).2 i (by rw [ln]; exact hi) (by rw [hv]; exact hi)
  rw [getD_of_lt v i (by rw [hv]; exact hi)]
  exact e.symm.trans c

/-- `sum_j a_j[i] * u_j(x)` -/
def rowEv (x : Int) (i : Nat) : List Poly → List Poly → Int
  | a :: as, u :: us => a.getD i 0 * ev x u + rowEv x i as us
  | _, _ => 0

theorem rowS_ev (i : Nat) (hi : i < 256) : ∀ (row us : List Poly) (P : Poly), P.length = 256 → (∀ a ∈ row, a.length = 256) →
    (∀ u ∈ us, u.length = 256) →
    (rowS row us P).length = 256 ∧ cg ((rowS row us P).getD i 0) (P.getD i 0 + rowEv (root 8 1 i) i row us) := by
  intro row
  induction row with
  | nil =>
    intro us P hP _ _
    refine ⟨by simpa [rowS] using hP, ?_⟩
    simp only [rowS, rowEv, Int.add_zero]
    exact cg.rfl' _
  | cons a as ih =>
    intro us P hP ha hu
    cases us with
    | nil =>
      refine ⟨by simpa [rowS] using hP, ?_⟩
      simp only [rowS, rowEv, Int.add_zero]
      exact cg.rfl' _
    | cons u us =>
      have la := ha a (List.mem_cons_self ..)
      have lu := hu u (List.mem_cons_self ..)
      have ln : (nttS 8 1 u).length = 256 := nttS_length 8 1 u (by rw [lu])
      have lm : (List.zipWith (fun x y => x * y) a (nttS 8 1 u)).length = 256 := by rw [List.length_zipWith, la, ln]; rfl
      have lP' : (List.zipWith (fun p q => p + q) P (List.zipWith (fun x y => x * y) a (nttS 8 1 u))).length = 256 := by
        rw [List.length_zipWith, hP, lm]; rfl
      obtain ⟨l1, c1⟩ := ih us _ lP' (fun b hb => ha b (List.mem_cons_of_mem _ hb)) (fun b hb => hu b (List.mem_cons_of_mem _ hb))
      refine ⟨by rw [rowS]; exact l1, ?_⟩
      rw [rowS]
      refine c1.trans ?_
      rw [getD_zipWith _ _ _ i (by omega) (by omega), getD_zipWith _ _ _ i (by omega) (by omega)]
      have h := (nttS_getD u lu i hi).mul_left (a.getD i 0)
      simp only [rowEv]
      have e : P.getD i 0 + (a.getD i 0 * ev (root 8 1 i) u + rowEv (root 8 1 i) i as us) =
          (P.getD i 0 + a.getD i 0 * ev (root 8 1 i) u) + rowEv (root 8 1 i) i as us := by grind
      rw [e]
      exact ((cg.rfl' _).add h).add (cg.rfl' _)

theorem rowEv_lin (x C : Int) (i : Nat) : ∀ (row ys ss zs : List Poly), ys.length = ss.length → zs.length = ys.length →
    (∀ j (h1 : j < zs.length) (h2 : j < ys.length) (h3 : j < ss.length), cg (ev x zs[j]) (ev x ys[j] + C * ev x ss[j])) →
    cg (rowEv x i row zs) (rowEv x i row ys + C * rowEv x i row ss) := by
  intro row
  induction row with
  | nil => intro ys ss zs _ _ _; simp only [rowEv]; exact cg.of_eq (by simp)
  | cons a as ih =>
    intro ys ss zs h1 h2 h
    cases ys with
    | nil =>
      have e1 : zs = [] := List.eq_nil_of_length_eq_zero (by simpa using h2)
      have e2 : ss = [] := List.eq_nil_of_length_eq_zero (by simpa using h1.symm)
      subst e1; subst e2
      simp only [rowEv]; exact cg.of_eq (by simp)
    | cons y ys =>
      cases ss with
      | nil => simp at h1
      | cons s ss =>
        cases zs with
        | nil => simp at h2
        | cons z zs =>
          simp only [rowEv]
          have h0 := h 0 (by simp) (by simp) (by simp)
          simp only [List.getElem_cons_zero] at h0
          have ht := ih ys ss zs (by simpa using h1) (by simpa using h2) (fun j g1 g2 g3 => by
            have := h (j + 1) (by simp; omega) (by simp; omega) (by simp; omega)
            simpa using this)
          exact ((h0.mul_left (a.getD i 0)).add ht).trans (cg.of_eq (by grind))

theorem ev_cmul (c s : Poly) (lc : c.length = 256) (ls : s.length = 256) (i : Nat) (hi : i < 256) :
    cg (ev (root 8 1 i) (cmul c s)) (ev (root 8 1 i) c * ev (root 8 1 i) s) := by
  have hm : 256 ≤ (mulP c s).length := by
    rw [mulP_length c s (by intro h; rw [h] at lc; simp at lc) (by intro h; rw [h] at ls; simp at ls), lc, ls]; omega
  have hn := ev_negc (root 8 1 i) (root_256 i hi) (mulP c s) hm
  rw [ev_mulP] at hn
  exact (ev_cong _ _ _ (canon_cong _)).trans hn

theorem ev_zip_modpm (x : Int) (yp cp : Poly) (h : yp.length = cp.length) :
    cg (ev x (List.zipWith (fun a b => modpm Q (a + b)) yp cp)) (ev x yp + ev x cp) := by
  rw [← ev_zip_add x yp cp h]
  apply ev_cong
  refine ⟨by simp, fun i h1 h2 => ?_⟩
  simp only [List.getElem_zipWith]
  have := modpm_cong (yp[i]'(by simp at h1; omega) + cp[i]'(by simp at h1; omega))
  unfold cg; simp only [Q] at this; exact this

theorem ev_zip_modq (x : Int) (yp cp : Poly) (h : yp.length = cp.length) :
    cg (ev x (List.zipWith (fun a b => (a + b) % Q) yp cp)) (ev x yp + ev x cp) := by
  rw [← ev_zip_add x yp cp h]
  apply ev_cong
  refine ⟨by simp, fun i h1 h2 => ?_⟩
  simp only [List.getElem_zipWith]
  unfold cg; simp only [Q]; omega

theorem p2r_recompose (v : Int) : cg (8192 * (Spec.power2round v).1) (v - (Spec.power2round v).2) := by
  unfold Spec.power2round modpm cg
  simp only [Q]
  split <;> omega

theorem ev_t1 (x : Int) (t : Poly) :
    cg (ev x ((t.map (fun v => (Spec.power2round v).1)).map (fun v => 8192 * v)))
      (ev x t - ev x (t.map (fun v => (Spec.power2round v).2))) := by
  rw [← ev_zip_sub x t _ (by simp)]
  apply ev_cong
  refine ⟨by simp, fun i h1 h2 => ?_⟩
  simp only [List.getElem_zipWith, List.getElem_map]
  exact p2r_recompose _

theorem ev_zw3_lin (x : Int) : ∀ (a b c : List Int), a.length = b.length → b.length = c.length →
    ev x (zw3 (fun p q r => p - q + r) a b c) = ev x a - ev x b + ev x c := by
  intro a
  induction a with
  | nil => intro b c h1 h2; simp [zw3, ev]
           have : b = [] := List.eq_nil_of_length_eq_zero (by simpa using h1.symm)
           subst this
           have : c = [] := List.eq_nil_of_length_eq_zero (by simpa using h2.symm)
           subst this; simp [ev]
  | cons p ps ih =>
    intro b c h1 h2
    cases b with
    | nil => simp at h1
    | cons q qs =>
      cases c with
      | nil => simp at h2
      | cons r rs =>
        have := ih qs rs (by simpa using h1) (by simpa using h2)
        unfold zw3 at this ⊢
        simp only [List.zip_cons_cons, List.zipWith_cons_cons, ev, this]
        grind

theorem ring_scalar (Z Y R C T T0 S2 E8 NC N8 W CS2 CT0 zEv yEv rEv : Int)
    (h1 : cg Z zEv) (h2 : cg zEv (yEv + C * rEv)) (h3 : cg Y yEv) (h4 : cg R rEv) (h5 : cg W Y) (h6 : cg T (R + S2))
    (h7 : cg E8 (T - T0)) (h8 : cg NC C) (h9 : cg N8 E8) (h10 : cg CS2 (C * S2)) (h11 : cg CT0 (C * T0)) :
    cg (W - CS2 + CT0) (Z - NC * N8) := by
  have a1 : cg Z (Y + C * R) := h1.trans (h2.trans ((h3.symm).add ((cg.rfl' C).mul h4.symm)))
  have a2 : cg N8 ((R + S2) - T0) := h9.trans (h7.trans (h6.sub (cg.rfl' T0)))
  have a3 : cg (Z - NC * N8) ((Y + C * R) - C * ((R + S2) - T0)) := a1.sub (h8.mul a2)
  have a4 : cg (W - CS2 + CT0) (Y - C * S2 + C * T0) := (h5.sub h10).add h11
  exact a4.trans ((cg.of_eq (by grind)).trans a3.symm)

/-- **the verifier's ring identity, one row** -/
theorem verifier_row (row s1 y : List Poly) (c s2r : Poly) (hrow : ∀ a ∈ row, a.length = 256) (hs1 : ∀ u ∈ s1, u.length = 256)
    (hy : ∀ u ∈ y, u.length = 256) (hl1 : y.length = s1.length) (lc : c.length = 256) (ls2 : s2r.length = 256) :
    CongL (wRowS row (List.zipWith (fun yp cp => List.zipWith (fun a b => modpm Q (a + b)) yp cp) y (s1.map (cmul c))) c
        ((tRowS row s1 s2r).map (fun v => (Spec.power2round v).1)))
      (zw3 (fun p q r => p - q + r) (invC (rowS row y zeroPoly)) (cmul c s2r)
        (cmul c ((tRowS row s1 s2r).map (fun v => (Spec.power2round v).2)))) := by
  have lz : zeroPoly.length = 256 := by unfold zeroPoly; rw [List.length_replicate]
  have lRy := (rowS_ev 0 (by decide) row y zeroPoly lz hrow hy).1
  have lRs := (rowS_ev 0 (by decide) row s1 zeroPoly lz hrow hs1).1
  have lw := invC_length _ lRy
  have lt : (tRowS row s1 s2r).length = 256 := by
    unfold tRowS; rw [List.length_zipWith]
    have := invC_length _ lRs
    unfold invC at this; rw [this, ls2]; rfl
  have lt0 : ((tRowS row s1 s2r).map (fun v => (Spec.power2round v).2)).length = 256 := by rw [List.length_map, lt]
  have lt1 : (((tRowS row s1 s2r).map (fun v => (Spec.power2round v).1)).map (fun v => 8192 * v)).length = 256 := by
    rw [List.length_map, List.length_map, lt]
  have lcs2 : (cmul c s2r).length = 256 := by unfold cmul canon; rw [List.length_map, negMul_length c s2r lc ls2]
  have lct0 : (cmul c ((tRowS row s1 s2r).map (fun v => (Spec.power2round v).2))).length = 256 := by
    unfold cmul canon; rw [List.length_map, negMul_length c _ lc lt0]
  have lrhs : (zw3 (fun p q r => p - q + r) (invC (rowS row y zeroPoly)) (cmul c s2r)
      (cmul c ((tRowS row s1 s2r).map (fun v => (Spec.power2round v).2)))).length = 256 := by
    unfold zw3; rw [List.length_zipWith, List.length_zip, lw, lcs2, lct0]; rfl
  have hzl : ∀ u ∈ List.zipWith (fun yp cp => List.zipWith (fun a b => modpm Q (a + b)) yp cp) y (s1.map (cmul c)), u.length = 256 := by
    intro u hu
    obtain ⟨j, hj, rfl⟩ := List.mem_iff_getElem.mp hu
    rw [List.length_zipWith, List.length_map] at hj
    rw [List.getElem_zipWith, List.length_zipWith, List.getElem_map, hy _ (List.getElem_mem _)]
    unfold cmul canon
    rw [List.length_map, negMul_length c _ lc (hs1 _ (List.getElem_mem _))]; rfl
  have lRz := (rowS_ev 0 (by decide) row _ zeroPoly lz hrow hzl).1
  have lnc : (nttS 8 1 c).length = 256 := nttS_length 8 1 c (by rw [lc])
  have ln8 : (nttS 8 1 (((tRowS row s1 s2r).map (fun v => (Spec.power2round v).1)).map (fun v => 8192 * v))).length = 256 :=
    nttS_length 8 1 _ (by rw [lt1])
  -- both sides through the transform
  have key : CongL (nttS 8 1 (zw3 (fun p q r => p - q + r) (invC (rowS row y zeroPoly)) (cmul c s2r)
      (cmul c ((tRowS row s1 s2r).map (fun v => (Spec.power2round v).2)))))
      (List.zipWith (fun a b => a - b) (rowS row (List.zipWith (fun yp cp => List.zipWith (fun a b => modpm Q (a + b)) yp cp) y (s1.map (cmul c))) zeroPoly)
        (List.zipWith (fun x y => x * y) (nttS 8 1 c)
          (nttS 8 1 (((tRowS row s1 s2r).map (fun v => (Spec.power2round v).1)).map (fun v => 8192 * v))))) := by
    have lN := nttS_length 8 1 _ (show _ = 2 ^ 8 from lrhs)
    have lmul : (List.zipWith (fun x y => x * y) (nttS 8 1 c)
          (nttS 8 1 (((tRowS row s1 s2r).map (fun v => (Spec.power2round v).1)).map (fun v => 8192 * v)))).length = 256 := by
      rw [List.length_zipWith, lnc, ln8]; rfl
    refine ⟨by rw [lN, List.length_zipWith, lRz, lmul]; rfl, fun i g1 g2 => ?_⟩
    have hi : i < 256 := by rw [lN] at g1; exact g1
    rw [← getD_of_lt _ i g1, ← getD_of_lt _ i g2]
    rw [getD_zipWith _ _ _ i (by omega) (by omega), getD_zipWith _ _ _ i (by omega) (by omega)]
    refine (nttS_getD _ lrhs i hi).trans ?_
    rw [ev_zw3_lin _ _ _ _ (by rw [lw, lcs2]) (by rw [lcs2, lct0])]
    have zz : zeroPoly.getD i 0 = 0 := by
      unfold zeroPoly; rw [getD_of_lt _ i (by rw [List.length_replicate]; exact hi), List.getElem_replicate]
    have rz := (rowS_ev i hi row _ zeroPoly lz hrow hzl).2
    have ry := (rowS_ev i hi row y zeroPoly lz hrow hy).2
    have rs := (rowS_ev i hi row s1 zeroPoly lz hrow hs1).2
    rw [zz, Int.zero_add] at rz ry rs
    have lin := rowEv_lin (root 8 1 i) (ev (root 8 1 i) c) i row y s1
      (List.zipWith (fun yp cp => List.zipWith (fun a b => modpm Q (a + b)) yp cp) y (s1.map (cmul c))) hl1
      (by rw [List.length_zipWith, List.length_map, hl1]; omega)
      (fun j k1 k2 k3 => by
        rw [List.getElem_zipWith, List.getElem_map]
        have ly := hy _ (List.getElem_mem k2)
        have lsj := hs1 _ (List.getElem_mem k3)
        have lcm : (cmul c s1[j]).length = 256 := by unfold cmul canon; rw [List.length_map, negMul_length c _ lc lsj]
        exact (ev_zip_modpm _ _ _ (by rw [ly, lcm])).trans ((cg.rfl' _).add (ev_cmul c _ lc lsj i hi)))
    have hw := ev_invC _ lRy i hi
    have hT : cg (ev (root 8 1 i) (tRowS row s1 s2r)) ((rowS row s1 zeroPoly).getD i 0 + ev (root 8 1 i) s2r) := by
      unfold tRowS
      have li := invC_length _ lRs
      have := ev_zip_modq (root 8 1 i) (invC (rowS row s1 zeroPoly)) s2r (by rw [li, ls2])
      exact this.trans ((ev_invC _ lRs i hi).add (cg.rfl' _))
    exact ring_scalar _ _ _ (ev (root 8 1 i) c) _ _ (ev (root 8 1 i) s2r) _ _ _ _ _ _ _ _ _
      rz lin ry rs hw hT (ev_t1 (root 8 1 i) (tRowS row s1 s2r)) (nttS_getD c lc i hi) (nttS_getD _ lt1 i hi)
      (ev_cmul c s2r lc ls2 i hi) (ev_cmul c _ lc lt0 i hi)
  have hX := invC_cong _ _ key
  exact hX.symm.trans (invC_nttS _ lrhs)

end Fips204.Impl
