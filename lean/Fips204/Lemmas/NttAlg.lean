import Fips204.Lemmas.KeygenOk
/-! The NTT as arithmetic modulo q: elementwise congruence of lists, exact-arithmetic specifications of the forward and
    inverse butterflies, the implementation is congruent to them (inside the overflow envelopes of `NttBounds`), and the
    inverse specification undoes the forward one up to the factor `2^d`. -/
namespace Fips204.Impl
open Fips204 Fips204.Gen Fips204.K

/-! ### congruence modulo q -/

/-- `a ≡ b (mod q)` -/
def cg (a b : Int) : Prop := (a - b) % 8380417 = 0

theorem cg.rfl' (a : Int) : cg a a := by unfold cg; simp
theorem cg.symm {a b : Int} (h : cg a b) : cg b a := by unfold cg at *; omega
theorem cg.trans {a b c : Int} (h1 : cg a b) (h2 : cg b c) : cg a c := by unfold cg at *; omega
theorem cg.add {a a' b b' : Int} (h1 : cg a a') (h2 : cg b b') : cg (a + b) (a' + b') := by unfold cg at *; omega
theorem cg.sub {a a' b b' : Int} (h1 : cg a a') (h2 : cg b b') : cg (a - b) (a' - b') := by unfold cg at *; omega
theorem cg.of_eq {a b : Int} (h : a = b) : cg a b := by rw [h]; exact cg.rfl' b

theorem cg.mul_left (k : Int) {a b : Int} (h : cg a b) : cg (k * a) (k * b) := by
  unfold cg at *
  obtain ⟨t, ht⟩ := Int.dvd_of_emod_eq_zero h
  have : k * a - k * b = 8380417 * (k * t) := by
    have : k * a - k * b = k * (a - b) := by rw [Int.mul_sub]
    rw [this, ht]; grind
  rw [this]; exact Int.mul_emod_right _ _

theorem cg.mul_right (k : Int) {a b : Int} (h : cg a b) : cg (a * k) (b * k) := by
  rw [Int.mul_comm a k, Int.mul_comm b k]; exact h.mul_left k

/-- elementwise congruence of two lists -/
def CongL (u v : List Int) : Prop := u.length = v.length ∧ ∀ i (h1 : i < u.length) (h2 : i < v.length), cg u[i] v[i]

theorem CongL.nil : CongL [] [] := ⟨rfl, fun i h => by simp at h⟩

theorem CongL.cons {a b : Int} {as bs : List Int} (h : cg a b) (t : CongL as bs) : CongL (a :: as) (b :: bs) :=
  ⟨by simp [t.1], fun i h1 h2 => by
    cases i with
    | zero => exact h
    | succ j => simp only [List.getElem_cons_succ]; exact t.2 j (by simpa using h1) (by simpa using h2)⟩

theorem CongL.uncons {a b : Int} {as bs : List Int} (h : CongL (a :: as) (b :: bs)) : cg a b ∧ CongL as bs :=
  ⟨h.2 0 (by simp) (by simp), by have := h.1; simp at this; exact this, fun i h1 h2 => by
    have := h.2 (i + 1) (by simp; omega) (by simp; omega)
    simpa using this⟩

theorem CongL.refl (u : List Int) : CongL u u := ⟨rfl, fun i _ _ => cg.rfl' _⟩
theorem CongL.symm {u v : List Int} (h : CongL u v) : CongL v u := ⟨h.1.symm, fun i h1 h2 => (h.2 i h2 h1).symm⟩
theorem CongL.trans {u v w : List Int} (h1 : CongL u v) (h2 : CongL v w) : CongL u w :=
  ⟨h1.1.trans h2.1, fun i a b => (h1.2 i a (by rw [← h1.1]; exact a)).trans (h2.2 i (by rw [← h1.1]; exact a) b)⟩

theorem CongL.take {u v : List Int} (h : CongL u v) (n : Nat) : CongL (u.take n) (v.take n) :=
  ⟨by rw [List.length_take, List.length_take, h.1], fun i h1 h2 => by
    rw [List.getElem_take, List.getElem_take]
    exact h.2 i (by rw [List.length_take] at h1; omega) (by rw [List.length_take] at h2; omega)⟩

theorem CongL.drop {u v : List Int} (h : CongL u v) (n : Nat) : CongL (u.drop n) (v.drop n) :=
  ⟨by rw [List.length_drop, List.length_drop, h.1], fun i h1 h2 => by
    rw [List.getElem_drop, List.getElem_drop]
    exact h.2 (n + i) (by rw [List.length_drop] at h1; omega) (by rw [List.length_drop] at h2; omega)⟩

theorem CongL.append {u v u' v' : List Int} (h : CongL u v) (h' : CongL u' v') : CongL (u ++ u') (v ++ v') :=
  ⟨by rw [List.length_append, List.length_append, h.1, h'.1], fun i h1 h2 => by
    by_cases hi : i < u.length
    · rw [List.getElem_append_left hi, List.getElem_append_left (by rw [← h.1]; exact hi)]
      exact h.2 i hi (by rw [← h.1]; exact hi)
    · rw [List.getElem_append_right (by omega), List.getElem_append_right (by rw [← h.1]; omega)]
      have e : i - v.length = i - u.length := by rw [h.1]
      simp only [e]
      rw [List.length_append] at h1 h2
      exact h'.2 (i - u.length) (by omega) (by rw [← h.1] at h2; omega)⟩

theorem CongL.map {u v : List Int} (h : CongL u v) (g g' : Int → Int) (hg : ∀ a b, cg a b → cg (g a) (g' b)) :
    CongL (u.map g) (v.map g') :=
  ⟨by rw [List.length_map, List.length_map, h.1], fun i h1 h2 => by
    rw [List.getElem_map, List.getElem_map]
    exact hg _ _ (h.2 i (by simpa using h1) (by simpa using h2))⟩

theorem CongL.zipWith {u v u' v' : List Int} (h : CongL u v) (h' : CongL u' v') (g g' : Int → Int → Int)
    (hg : ∀ a b a' b', cg a b → cg a' b' → cg (g a a') (g' b b')) : CongL (List.zipWith g u u') (List.zipWith g' v v') :=
  ⟨by rw [List.length_zipWith, List.length_zipWith, h.1, h'.1], fun i h1 h2 => by
    rw [List.getElem_zipWith, List.getElem_zipWith]
    rw [List.length_zipWith] at h1 h2
    exact hg _ _ _ _ (h.2 i (by omega) (by omega)) (h'.2 i (by omega) (by omega))⟩

/-! ### monadic maps whose steps are congruent to pure functions -/

theorem mapM_sem (f : Int → M Int) (g : Int → Int) (P : Int → Prop) (R : Int → Prop)
    (hf : ∀ a s, P a → cg a s → ∃ b, f a = .ok b ∧ R b ∧ cg b (g s)) :
    ∀ (l ls : List Int), CongL l ls → (∀ a ∈ l, P a) → ∃ r, l.mapM f = .ok r ∧ (∀ b ∈ r, R b) ∧ CongL r (ls.map g) := by
  intro l
  induction l with
  | nil =>
    intro ls hc _
    have : ls = [] := by have := hc.1; simp at this; exact List.eq_nil_of_length_eq_zero this.symm
    subst this
    exact ⟨[], by simp [pure_eq], by simp, CongL.nil⟩
  | cons a as ih =>
    intro ls hc hp
    cases ls with
    | nil => have := hc.1; simp at this
    | cons s ss =>
      obtain ⟨h0, ht⟩ := hc.uncons
      obtain ⟨b, hb, rb, cb⟩ := hf a s (hp a (List.mem_cons_self ..)) h0
      obtain ⟨bs, hbs, rbs, cbs⟩ := ih ss ht (fun x hx => hp x (List.mem_cons_of_mem _ hx))
      refine ⟨b :: bs, by rw [List.mapM_cons, hb, ok_bind, hbs, ok_bind, pure_eq], fun x hx => ?_, CongL.cons cb cbs⟩
      rcases List.mem_cons.mp hx with rfl | hx
      · exact rb
      · exact rbs x hx

theorem zipWithM_sem (f : Int → Int → M Int) (g : Int → Int → Int) (P P' : Int → Prop) (R : Int → Prop)
    (hf : ∀ a s a' s', P a → P' a' → cg a s → cg a' s' → ∃ b, f a a' = .ok b ∧ R b ∧ cg b (g s s')) :
    ∀ (l ls l' ls' : List Int), CongL l ls → CongL l' ls' → (∀ a ∈ l, P a) → (∀ a ∈ l', P' a) →
      ∃ r, zipWithM f l l' = .ok r ∧ (∀ b ∈ r, R b) ∧ CongL r (List.zipWith g ls ls') := by
  intro l
  induction l with
  | nil =>
    intro ls l' ls' hc _ _ _
    have : ls = [] := by have := hc.1; simp at this; exact List.eq_nil_of_length_eq_zero this.symm
    subst this
    exact ⟨[], by simp [zipWithM, pure_eq], by simp, by simpa using CongL.nil⟩
  | cons a as ih =>
    intro ls l' ls' hc hc' hp hp'
    cases ls with
    | nil => have := hc.1; simp at this
    | cons s ss =>
      cases l' with
      | nil =>
        have : ls' = [] := by have := hc'.1; simp at this; exact List.eq_nil_of_length_eq_zero this.symm
        subst this
        exact ⟨[], by simp [zipWithM, pure_eq], by simp, by simpa using CongL.nil⟩
      | cons a' as' =>
        cases ls' with
        | nil => have := hc'.1; simp at this
        | cons s' ss' =>
          obtain ⟨h0, ht⟩ := hc.uncons
          obtain ⟨h0', ht'⟩ := hc'.uncons
          obtain ⟨b, hb, rb, cb⟩ := hf a s a' s' (hp a (List.mem_cons_self ..)) (hp' a' (List.mem_cons_self ..)) h0 h0'
          obtain ⟨bs, hbs, rbs, cbs⟩ := ih ss as' ss' ht ht' (fun x hx => hp x (List.mem_cons_of_mem _ hx)) (fun x hx => hp' x (List.mem_cons_of_mem _ hx))
          refine ⟨b :: bs, by simp only [zipWithM]; rw [hb, ok_bind, hbs, ok_bind, pure_eq], fun x hx => ?_, by
            simp only [List.zipWith_cons_cons]; exact CongL.cons cb cbs⟩
          rcases List.mem_cons.mp hx with rfl | hx
          · exact rb
          · exact rbs x hx

/-! ### exact-arithmetic specifications of the butterflies -/

/-- the table entry the crate reads (0 outside the table) -/
def zv (k : Nat) : Int := (zetaArr[k]?).getD 0

/-- `2^-32 mod q` -/
def RINV : Int := 8265825

theorem zeta_zv (site : String) (k : Nat) (z : Int) (h : zeta site k = .ok z) : z = zv k := by
  unfold zeta at h
  unfold zv
  cases hq : zetaArr[k]? with
  | none => rw [hq] at h; cases h
  | some v =>
    rw [hq] at h
    have h' : (pure v : M Int) = .ok z := h
    rw [pure_eq] at h'
    rw [← ok_inj h']; rfl

/-- Montgomery reduction is multiplication by `2^-32` modulo q -/
theorem montv_cg (a : Int) (h1 : -17996808479301632 ≤ a) (h2 : a ≤ 17996808470921215) : cg (montv a) (a * RINV) := by
  have := (montv_spec a h1 h2).1
  unfold cg RINV
  omega

/-- forward butterflies, exact integers: block of `2^d` coefficients with table index `k` -/
def nttS : Nat → Nat → List Int → List Int
  | 0, _, w => w
  | d + 1, k, w =>
    let half := w.length / 2
    let lo := w.take half
    let ts := (w.drop half).map (fun x => zv k * x * RINV)
    nttS d (2 * k) (List.zipWith (fun a t => a + t) lo ts) ++ nttS d (2 * k + 1) (List.zipWith (fun a t => a - t) lo ts)

/-- inverse butterflies, exact integers -/
def invS : Nat → Nat → List Int → List Int
  | 0, _, w => w
  | d + 1, k, w =>
    let half := w.length / 2
    let lo := invS d (2 * k + 1) (w.take half)
    let hi := invS d (2 * k) (w.drop half)
    List.zipWith (fun t u => t + u) lo hi ++ List.zipWith (fun t u => -zv k * (t - u) * RINV) lo hi

/-- **the forward butterflies compute `nttS` modulo q** (and stay inside the overflow envelope) -/
theorem nttRec_sem (m : Mode) : ∀ (d k : Nat) (w ws : List Int) (B : Int), CongL w ws → Bnd B w → 0 ≤ B →
    bfw d B ≤ 2147483647 → (k + 1) * 2 ^ d ≤ 512 →
    ∃ w', nttRec m d k w = .ok w' ∧ Bnd (bfw d B) w' ∧ CongL w' (nttS d k ws) := by
  intro d
  induction d with
  | zero => intro k w ws B hc hw _ _ _; exact ⟨w, by simp [nttRec, pure, Except.pure], hw, hc⟩
  | succ d ih =>
    intro k w ws B hc hw hB hfit hk
    simp only [bfw] at hfit
    show ∃ w', nttRec m (d + 1) k w = .ok w' ∧ Bnd (bfw d (fstep B)) w' ∧ CongL w' (nttS (d + 1) k ws)
    rw [Nat.pow_succ] at hk
    have hk1 : (2 * k + 1 + 1) * 2 ^ d ≤ 512 := by
      have e : (2 * k + 1 + 1) * 2 ^ d = (k + 1) * (2 ^ d * 2) := by
        rw [show 2 * k + 1 + 1 = (k + 1) * 2 by omega, Nat.mul_assoc, Nat.mul_comm 2 (2 ^ d)]
      omega
    have hk0 : (2 * k + 1) * 2 ^ d ≤ 512 := by
      have : (2 * k + 1) * 2 ^ d ≤ (2 * k + 1 + 1) * 2 ^ d := Nat.mul_le_mul_right _ (by omega)
      omega
    have hkz : k < 256 := by
      have h1 := two_pow_pos d
      have : (k + 1) * 2 ≤ (k + 1) * (2 ^ d * 2) := Nat.mul_le_mul_left _ (by omega)
      omega
    have hs := fstep_ge B hB
    have hge := bfw_ge d (fstep B) (by omega)
    have hsB : fstep B ≤ 2147483647 := by omega
    obtain ⟨z, hz, z0, z1⟩ := zeta_ok "ntt.rs:ntt:ZETA_TABLE_MONT[m]" k hkz
    have hzv := zeta_zv _ k z hz
    have hBm : 8380416 * B ≤ 17996806323437568 := by unfold fstep at hsB; omega
    have hlen := hc.1
    obtain ⟨ts, hts, bts, cts⟩ := mapM_sem (fun x => do
        let p ← arith .i64 m "ntt.rs:ntt:zeta*w" (z * x)
        mont_reduce m p) (fun x => zv k * x * RINV) (fun x => -B ≤ x ∧ x ≤ B)
      (fun t => -(8380416 * B / 4294967296 + 4190210) ≤ t ∧ t ≤ 8380416 * B / 4294967296 + 4190210)
      (fun x s hx hxs => by
        have hp := mul_bound z x 8380416 B z0 (by omega) hx.1 hx.2
        have hb := montv_bound (z * x) (8380416 * B) hp.1 hp.2
        refine ⟨montv (z * x), ?_, ⟨hb.1, hb.2⟩, ?_⟩
        · simp only [arith_i64 _ _ _ (show (-9223372036854775808:Int) ≤ z * x by omega) (show z * x ≤ 9223372036854775807 by omega), ok_bind,
            mont_reduce_eq m _ (show (-17996808479301632:Int) ≤ z * x by omega) (show z * x ≤ 17996808470921215 by omega)]
        · have := montv_cg (z * x) (by omega) (by omega)
          rw [← hzv]
          exact this.trans ((hxs.mul_left z).mul_right RINV))
      (w.drop (w.length / 2)) (ws.drop (w.length / 2)) (hc.drop _) (hw.drop _)
    obtain ⟨hi', hhi, bhi, chi⟩ := zipWithM_sem (fun a t => arith .i32 m "ntt.rs:ntt:w[j]-t" (a - t)) (fun a t => a - t)
      (fun a => -B ≤ a ∧ a ≤ B) (fun t => -(8380416 * B / 4294967296 + 4190210) ≤ t ∧ t ≤ 8380416 * B / 4294967296 + 4190210)
      (fun c => -(fstep B) ≤ c ∧ c ≤ fstep B)
      (fun a s t s' ha ht hcs hct => ⟨a - t, arith_i32 _ _ _ (by unfold fstep at hsB; omega) (by unfold fstep at hsB; omega),
        ⟨by unfold fstep; omega, by unfold fstep; omega⟩, hcs.sub hct⟩)
      (w.take (w.length / 2)) (ws.take (w.length / 2)) ts _ (hc.take _) cts (hw.take _) bts
    obtain ⟨lo', hlo, blo, clo⟩ := zipWithM_sem (fun a t => arith .i32 m "ntt.rs:ntt:w[j]+t" (a + t)) (fun a t => a + t)
      (fun a => -B ≤ a ∧ a ≤ B) (fun t => -(8380416 * B / 4294967296 + 4190210) ≤ t ∧ t ≤ 8380416 * B / 4294967296 + 4190210)
      (fun c => -(fstep B) ≤ c ∧ c ≤ fstep B)
      (fun a s t s' ha ht hcs hct => ⟨a + t, arith_i32 _ _ _ (by unfold fstep at hsB; omega) (by unfold fstep at hsB; omega),
        ⟨by unfold fstep; omega, by unfold fstep; omega⟩, hcs.add hct⟩)
      (w.take (w.length / 2)) (ws.take (w.length / 2)) ts _ (hc.take _) cts (hw.take _) bts
    obtain ⟨l, hl, bl, cl⟩ := ih (2 * k) lo' _ (fstep B) clo blo (by omega) hfit hk0
    obtain ⟨h, hh, bh, ch⟩ := ih (2 * k + 1) hi' _ (fstep B) chi bhi (by omega) hfit hk1
    refine ⟨l ++ h, ?_, Bnd.append bl bh, ?_⟩
    · simp only [nttRec, hz, ok_bind, hts, hhi, hlo, hl, hh, pure_eq]
    · unfold nttS
      simp only [← hlen]
      exact cl.append ch

/-- **the inverse butterflies compute `invS` modulo q** (and stay inside the overflow envelope) -/
theorem invRec_sem (m : Mode) : ∀ (d k : Nat) (w ws : List Int) (B : Int), CongL w ws → Bnd B w → 4190209 ≤ B →
    bout d B ≤ 2147483647 → (k + 1) * 2 ^ d ≤ 512 →
    ∃ w', invRec m d k w = .ok w' ∧ Bnd (bout d B) w' ∧ CongL w' (invS d k ws) := by
  intro d
  induction d with
  | zero => intro k w ws B hc hw _ _ _; exact ⟨w, by simp [invRec, pure, Except.pure], hw, hc⟩
  | succ d ih =>
    intro k w ws B hc hw hB hfit hk
    simp only [bout] at hfit ⊢
    have hlen := hc.1
    rw [Nat.pow_succ] at hk
    have hk1 : (2 * k + 1 + 1) * 2 ^ d ≤ 512 := by
      have e : (2 * k + 1 + 1) * 2 ^ d = (k + 1) * (2 ^ d * 2) := by
        rw [show 2 * k + 1 + 1 = (k + 1) * 2 by omega, Nat.mul_assoc, Nat.mul_comm 2 (2 ^ d)]
      omega
    have hk0 : (2 * k + 1) * 2 ^ d ≤ 512 := by
      have : (2 * k + 1) * 2 ^ d ≤ (2 * k + 1 + 1) * 2 ^ d := Nat.mul_le_mul_right _ (by omega)
      omega
    have hkz : k < 256 := by
      have h1 := two_pow_pos d
      have : (k + 1) * 2 ≤ (k + 1) * (2 ^ d * 2) := Nat.mul_le_mul_left _ (by omega)
      omega
    have hge := bout_ge d B (by omega)
    obtain ⟨lo, hlo, blo, clo⟩ := ih (2 * k + 1) (w.take (w.length / 2)) (ws.take (w.length / 2)) B (hc.take _) (hw.take _) hB (by omega) hk1
    obtain ⟨hi, hhi, bhi, chi⟩ := ih (2 * k) (w.drop (w.length / 2)) (ws.drop (w.length / 2)) B (hc.drop _) (hw.drop _) hB (by omega) hk0
    obtain ⟨z0, hz0, z0a, z0b⟩ := zeta_ok "ntt.rs:inv_ntt:ZETA_TABLE_MONT[m]" k hkz
    have hzv := zeta_zv _ k z0 hz0
    generalize bout d B = C at *
    obtain ⟨sums, hsums, bsums, csums⟩ := zipWithM_sem (fun t u => arith .i32 m "ntt.rs:inv_ntt:t+w[j+len]" (t + u)) (fun t u => t + u)
      (fun t => -C ≤ t ∧ t ≤ C) (fun t => -C ≤ t ∧ t ≤ C) (fun c => -(2 * C) ≤ c ∧ c ≤ 2 * C)
      (fun a s b s' ha hb hca hcb => ⟨a + b, arith_i32 _ _ _ (by omega) (by omega), ⟨by omega, by omega⟩, hca.add hcb⟩)
      lo _ hi _ clo chi blo bhi
    obtain ⟨diffs, hdiffs, bdiffs, cdiffs⟩ := zipWithM_sem (fun t u => do
        let d ← arith .i32 m "ntt.rs:inv_ntt:t-w[j+len]" (t - u)
        let p ← arith .i64 m "ntt.rs:inv_ntt:zeta*w" (-z0 * d)
        mont_reduce m p) (fun t u => -zv k * (t - u) * RINV)
      (fun t => -C ≤ t ∧ t ≤ C) (fun t => -C ≤ t ∧ t ≤ C) (fun c => -(2 * C) ≤ c ∧ c ≤ 2 * C)
      (fun a s b s' ha hb hca hcb => by
        have hd1 : -2147483647 ≤ a - b ∧ a - b ≤ 2147483647 := by omega
        have hcd : cg (a - b) (s - s') := hca.sub hcb
        have hp : -17996806323437569 ≤ -z0 * (a - b) ∧ -z0 * (a - b) ≤ 17996806323437569 := by
          generalize a - b = e at *
          constructor
          · have : z0 * e ≤ 8380416 * 2147483647 := by
              rcases Int.le_total 0 e with he | he
              · exact Int.mul_le_mul (by omega) (by omega) he (by omega)
              · have : z0 * e ≤ 0 := Int.mul_nonpos_of_nonneg_of_nonpos z0a he
                omega
            have e2 : -z0 * e = -(z0 * e) := Int.neg_mul _ _
            omega
          · have : -(8380416 * 2147483647) ≤ z0 * e := by
              rcases Int.le_total 0 e with he | he
              · have : 0 ≤ z0 * e := Int.mul_nonneg z0a he
                omega
              · have h3 : z0 * (-e) ≤ 8380416 * 2147483647 := Int.mul_le_mul (by omega) (by omega) (by omega) (by omega)
                have e3 : z0 * (-e) = -(z0 * e) := Int.mul_neg _ _
                omega
            have e2 : -z0 * e = -(z0 * e) := Int.neg_mul _ _
            omega
        have hm := montv_spec (-z0 * (a - b)) (by omega) (by omega)
        refine ⟨montv (-z0 * (a - b)), ?_, ⟨by omega, by omega⟩, ?_⟩
        · simp only [arith_i32 _ _ _ (show (-2147483648:Int) ≤ a - b by omega) (show a - b ≤ 2147483647 by omega), ok_bind,
            arith_i64 _ _ _ (show (-9223372036854775808:Int) ≤ -z0 * (a - b) by omega) (show -z0 * (a - b) ≤ 9223372036854775807 by omega),
            mont_reduce_eq m _ (show (-17996808479301632:Int) ≤ -z0 * (a - b) by omega) (show -z0 * (a - b) ≤ 17996808470921215 by omega)]
        · have := montv_cg (-z0 * (a - b)) (by omega) (by omega)
          rw [← hzv]
          exact this.trans ((hcd.mul_left (-z0)).mul_right RINV))
      lo _ hi _ clo chi blo bhi
    refine ⟨sums ++ diffs, ?_, Bnd.append bsums bdiffs, ?_⟩
    · simp only [invRec, hlo, hhi, hz0, ok_bind, arith_i32 _ _ _ (show (-2147483648:Int) ≤ -z0 by omega) (show -z0 ≤ 2147483647 by omega),
        hsums, hdiffs, pure_eq]
    · unfold invS
      simp only [← hlen]
      exact csums.append cdiffs

/-- `F_MONT * 2^-32 mod q`, the scaling applied after the last inverse layer -/
def FS : Int := 16382 * 8265825

/-- the whole inverse transform of one polynomial, modulo q -/
theorem invNttPoly_sem (m : Mode) (w ws : List Int) (hc : CongL w ws) (hw : Bnd 2143289343 w) :
    ∃ w', invNttPoly m w = .ok w' ∧ (∀ x ∈ w', 0 ≤ x ∧ x < 8380417) ∧ CongL w' ((invS 8 1 ws).map (fun x => FS * x)) := by
  obtain ⟨w0, hw0, b0, c0⟩ := mapM_sem (partial_reduce32 m) (fun x => x) (fun a => -2143289343 ≤ a ∧ a ≤ 2143289343)
    (fun b => -6287360 ≤ b ∧ b ≤ 6287360)
    (fun a s ha hcs => ⟨pr32 a, partial_reduce32_eq m a (by omega) (by omega), by
      have := pr32_tight a (by omega) (by omega); omega, by
      have h := (pr32_spec a (by omega) (by omega)).1
      have h' : cg (pr32 a) a := h
      exact h'.trans hcs⟩) w ws hc hw
  rw [List.map_id'] at c0
  obtain ⟨w1, hw1, b1, c1⟩ := invRec_sem m 8 1 w0 ws 6287360 c0 b0 (by omega) (by decide) (by decide)
  have hb : bout 8 6287360 = 1609564160 := by decide
  rw [hb] at b1
  obtain ⟨w2, hw2, b2, c2⟩ := mapM_sem (fun x => do
      let p ← arith .i64 m "ntt.rs:inv_ntt:F_MONT*w" (F_MONT * x)
      let r ← mont_reduce m p
      full_reduce32 m r) (fun x => FS * x) (fun a => -1609564160 ≤ a ∧ a ≤ 1609564160) (fun b => 0 ≤ b ∧ b < 8380417)
    (fun a s ha hcs => by
      have hm := montv_spec (16382 * a) (by omega) (by omega)
      refine ⟨montv (16382 * a) % 8380417, ?_, ⟨Int.emod_nonneg _ (by decide), Int.emod_lt_of_pos _ (by decide)⟩, ?_⟩
      · simp only [F_MONT, arith_i64 _ _ _ (show (-9223372036854775808:Int) ≤ 16382 * a by omega) (show 16382 * a ≤ 9223372036854775807 by omega),
          ok_bind, mont_reduce_eq m _ (show (-17996808479301632:Int) ≤ 16382 * a by omega) (show 16382 * a ≤ 17996808470921215 by omega),
          full_reduce32_eq m _ (show (-2143289344:Int) < montv (16382 * a) by omega) (show montv (16382 * a) < 2143289344 by omega), Q]
      · have h1 : cg (montv (16382 * a) % 8380417) (montv (16382 * a)) := by unfold cg; omega
        have h2 := montv_cg (16382 * a) (by omega) (by omega)
        have h3 : cg (16382 * a * RINV) (FS * s) := by
          have e : 16382 * a * RINV = FS * a := by unfold FS RINV; grind
          rw [e]; exact hcs.mul_left FS
        exact h1.trans (h2.trans h3)) w1 _ c1 b1
  exact ⟨w2, by simp only [invNttPoly, invNttPolyWith, hw0, hw1, hw2, ok_bind], b2, c2⟩

/-- the whole forward transform of one polynomial, modulo q -/
theorem nttPoly_sem (m : Mode) (w ws : List Int) (hc : CongL w ws) (hw : Bnd 524288 w) :
    ∃ w', nttPoly m w = .ok w' ∧ Bnd 34284028 w' ∧ CongL w' (nttS 8 1 ws) := by
  have h := nttRec_sem m 8 1 w ws 524288 hc hw (by omega) (by rw [bfw_gamma1]; omega) (by decide)
  rw [bfw_gamma1] at h
  exact h

/-! ### the inverse specification undoes the forward one -/

/-- the table pairs block `i` of forward layer `j` (entry `2^j + i`) with entry `2^(j+1) - 1 - i` of the inverse walk:
    the negated Montgomery entry there is the inverse of the forward multiplier -/
def pairOk (j i : Nat) : Bool :=
  (zv (2 ^ j + i) * RINV * (-zv (2 ^ (j + 1) - 1 - i) * RINV) - 1) % 8380417 == 0

/-- all 255 pairs, by kernel evaluation of the generated table -/
theorem pairs_check : (List.range 8).all (fun j => (List.range (2 ^ j)).all (fun i => pairOk j i)) = true := by decide +kernel

theorem pair_cg (j k kk : Nat) (hj : j < 8) (h1 : 2 ^ j ≤ k) (h2 : k < 2 ^ (j + 1)) (h3 : k + kk + 1 = 3 * 2 ^ j) :
    cg (zv k * RINV * (-zv kk * RINV)) 1 := by
  have hp : 2 ^ (j + 1) = 2 * 2 ^ j := by rw [Nat.pow_succ]; omega
  have h := List.all_eq_true.mp (List.all_eq_true.mp pairs_check j (List.mem_range.mpr hj)) (k - 2 ^ j) (List.mem_range.mpr (by omega))
  unfold pairOk at h
  have e1 : 2 ^ j + (k - 2 ^ j) = k := by omega
  have e2 : 2 ^ (j + 1) - 1 - (k - 2 ^ j) = kk := by omega
  rw [e1, e2] at h
  unfold cg
  exact eq_of_beq h

theorem nttS_length : ∀ (d k : Nat) (w : List Int), w.length = 2 ^ d → (nttS d k w).length = 2 ^ d := by
  intro d
  induction d with
  | zero => intro k w h; exact h
  | succ d ih =>
    intro k w h
    have hp : 2 ^ (d + 1) = 2 * 2 ^ d := by rw [Nat.pow_succ]; omega
    have hhalf : w.length / 2 = 2 ^ d := by omega
    unfold nttS
    simp only [hhalf]
    rw [List.length_append, ih, ih]
    · omega
    · rw [List.length_zipWith, List.length_take, List.length_map, List.length_drop]; omega
    · rw [List.length_zipWith, List.length_take, List.length_map, List.length_drop]; omega

theorem invS_length : ∀ (d k : Nat) (w : List Int), w.length = 2 ^ d → (invS d k w).length = 2 ^ d := by
  intro d
  induction d with
  | zero => intro k w h; exact h
  | succ d ih =>
    intro k w h
    have hp : 2 ^ (d + 1) = 2 * 2 ^ d := by rw [Nat.pow_succ]; omega
    have hhalf : w.length / 2 = 2 ^ d := by omega
    unfold invS
    simp only [hhalf]
    have l1 := ih (2 * k + 1) (w.take (2 ^ d)) (by rw [List.length_take]; omega)
    have l2 := ih (2 * k) (w.drop (2 ^ d)) (by rw [List.length_drop]; omega)
    rw [List.length_append, List.length_zipWith, List.length_zipWith, l1, l2]; omega

theorem invS_cong : ∀ (d k : Nat) (u v : List Int), CongL u v → CongL (invS d k u) (invS d k v) := by
  intro d
  induction d with
  | zero => intro k u v h; exact h
  | succ d ih =>
    intro k u v h
    unfold invS
    simp only [h.1]
    have c1 := ih (2 * k + 1) _ _ (h.take (v.length / 2))
    have c2 := ih (2 * k) _ _ (h.drop (v.length / 2))
    exact (c1.zipWith c2 _ _ (fun a b a' b' h1 h2 => h1.add h2)).append
      (c1.zipWith c2 _ _ (fun a b a' b' h1 h2 => ((h1.sub h2).mul_left (-zv k)).mul_right RINV))

theorem cg_sum (P P2 A C X Y : Int) (hP : P2 = 2 * P) (hx : cg X (P * (A + C))) (hy : cg Y (P * (A - C))) : cg (X + Y) (P2 * A) := by
  subst hP
  exact (hx.add hy).trans (cg.of_eq (by grind))

theorem diff_key (zk zkk R P A B : Int) :
    -zkk * (P * (A + zk * B * R) - P * (A - zk * B * R)) * R = (zk * R * (-zkk * R)) * (2 * P * B) := by grind

theorem cg_diff (zk zkk R P P2 A B X : Int) (hP : P2 = 2 * P) (hpc : cg (zk * R * (-zkk * R)) 1)
    (hx : cg X (-zkk * (P * (A + zk * B * R) - P * (A - zk * B * R)) * R)) : cg X (P2 * B) := by
  rw [diff_key] at hx
  have := hpc.mul_right (2 * P * B)
  rw [Int.one_mul] at this
  subst hP
  exact hx.trans this

/-- **inverse butterflies after forward butterflies multiply by `2^d`** (modulo q), block by block -/
theorem invS_nttS : ∀ (d j k kk : Nat) (w : List Int), w.length = 2 ^ d → 2 ^ j ≤ k → k < 2 ^ (j + 1) → k + kk + 1 = 3 * 2 ^ j →
    j + d ≤ 8 → CongL (invS d kk (nttS d k w)) (w.map (fun x => 2 ^ d * x)) := by
  intro d
  induction d with
  | zero =>
    intro j k kk w _ _ _ _ _
    refine ⟨by simp [invS, nttS], fun i h1 h2 => ?_⟩
    simp only [invS, nttS, List.getElem_map]
    exact cg.of_eq (by simp)
  | succ d ih =>
    intro j k kk w hw h1 h2 h3 hjd
    have hp : 2 ^ (d + 1) = 2 * 2 ^ d := by rw [Nat.pow_succ]; omega
    have hpj : 2 ^ (j + 1) = 2 * 2 ^ j := by rw [Nat.pow_succ]; omega
    have hpj2 : 2 ^ (j + 1 + 1) = 2 * 2 ^ (j + 1) := by rw [Nat.pow_succ]; omega
    have hhalf : w.length / 2 = 2 ^ d := by omega
    -- forward layer
    have hlo : (w.take (2 ^ d)).length = 2 ^ d := by rw [List.length_take]; omega
    have hts : ((w.drop (2 ^ d)).map (fun x => zv k * x * RINV)).length = 2 ^ d := by rw [List.length_map, List.length_drop]; omega
    have hA : (List.zipWith (fun a t => a + t) (w.take (2 ^ d)) ((w.drop (2 ^ d)).map (fun x => zv k * x * RINV))).length = 2 ^ d := by
      rw [List.length_zipWith, hlo, hts]; omega
    have hB : (List.zipWith (fun a t => a - t) (w.take (2 ^ d)) ((w.drop (2 ^ d)).map (fun x => zv k * x * RINV))).length = 2 ^ d := by
      rw [List.length_zipWith, hlo, hts]; omega
    have e1 : nttS (d + 1) k w = nttS d (2 * k) (List.zipWith (fun a t => a + t) (w.take (2 ^ d)) ((w.drop (2 ^ d)).map (fun x => zv k * x * RINV))) ++
        nttS d (2 * k + 1) (List.zipWith (fun a t => a - t) (w.take (2 ^ d)) ((w.drop (2 ^ d)).map (fun x => zv k * x * RINV))) := by
      rw [nttS]; simp only [hhalf]
    have lA := nttS_length d (2 * k) _ hA
    have lB := nttS_length d (2 * k + 1) _ hB
    -- inverse layer on the concatenation
    rw [e1]
    unfold invS
    have hlen2 : (nttS d (2 * k) (List.zipWith (fun a t => a + t) (w.take (2 ^ d)) ((w.drop (2 ^ d)).map (fun x => zv k * x * RINV))) ++
        nttS d (2 * k + 1) (List.zipWith (fun a t => a - t) (w.take (2 ^ d)) ((w.drop (2 ^ d)).map (fun x => zv k * x * RINV)))).length / 2 = 2 ^ d := by
      rw [List.length_append, lA, lB]; omega
    simp only [hlen2]
    rw [List.take_left' lA, List.drop_left' lA]
    have cX := ih (j + 1) (2 * k) (2 * kk + 1) _ hA (by omega) (by omega) (by omega) (by omega)
    have cY := ih (j + 1) (2 * k + 1) (2 * kk) _ hB (by omega) (by omega) (by omega) (by omega)
    have lX := invS_length d (2 * kk + 1) _ lA
    have lY := invS_length d (2 * kk) _ lB
    have hpc := pair_cg j k kk (by omega) h1 h2 h3
    have hpI : (2:Int) ^ (d + 1) = 2 * 2 ^ d := by rw [Int.pow_succ]; omega
    refine ⟨by rw [List.length_append, List.length_zipWith, List.length_zipWith, lX, lY, List.length_map, hw]; omega, fun i hi1 hi2 => ?_⟩
    rw [List.length_map] at hi2
    rw [List.getElem_map]
    by_cases hi : i < 2 ^ d
    · -- sums
      rw [List.getElem_append_left (by rw [List.length_zipWith, lX, lY]; omega), List.getElem_zipWith]
      have x := cX.2 i (by rw [lX]; exact hi) (by rw [List.length_map, hA]; exact hi)
      have y := cY.2 i (by rw [lY]; exact hi) (by rw [List.length_map, hB]; exact hi)
      rw [List.getElem_map, List.getElem_zipWith, List.getElem_map, List.getElem_take, List.getElem_drop] at x y
      exact cg_sum _ _ _ _ _ _ hpI x y
    · -- differences
      rw [List.getElem_append_right (by rw [List.length_zipWith, lX, lY]; omega), List.getElem_zipWith]
      have hlz : (List.zipWith (fun t u => t + u) (invS d (2 * kk + 1) (nttS d (2 * k) (List.zipWith (fun a t => a + t) (w.take (2 ^ d)) ((w.drop (2 ^ d)).map (fun x => zv k * x * RINV)))))
          (invS d (2 * kk) (nttS d (2 * k + 1) (List.zipWith (fun a t => a - t) (w.take (2 ^ d)) ((w.drop (2 ^ d)).map (fun x => zv k * x * RINV)))))).length = 2 ^ d := by
        rw [List.length_zipWith, lX, lY]; omega
      simp only [hlz]
      have hi' : i - 2 ^ d < 2 ^ d := by omega
      have x := cX.2 (i - 2 ^ d) (by rw [lX]; exact hi') (by rw [List.length_map, hA]; exact hi')
      have y := cY.2 (i - 2 ^ d) (by rw [lY]; exact hi') (by rw [List.length_map, hB]; exact hi')
      rw [List.getElem_map, List.getElem_zipWith, List.getElem_map, List.getElem_take, List.getElem_drop] at x y
      have hidx : 2 ^ d + (i - 2 ^ d) = i := by omega
      simp only [hidx] at x y
      have step1 := ((x.sub y).mul_left (-zv kk)).mul_right RINV
      exact cg_diff _ _ _ _ _ _ _ _ hpI hpc step1

/-! ### the forward specification undoes the inverse one as well -/

theorem cg_fwd_sum (P P2 L H c cn X : Int) (hP : P2 = 2 * P) (hpc : cg (c * cn) 1) (hx : cg X ((L + H) + c * (cn * (L - H)))) (hL : True) :
    cg X (2 * L) := by
  have e : (L + H) + c * (cn * (L - H)) = (L + H) + (c * cn) * (L - H) := by grind
  rw [e] at hx
  have := hpc.mul_right (L - H)
  rw [Int.one_mul] at this
  exact hx.trans (((cg.rfl' (L + H)).add this).trans (cg.of_eq (by grind)))

theorem cg_fwd_diff (L H c cn X : Int) (hpc : cg (c * cn) 1) (hx : cg X ((L + H) - c * (cn * (L - H)))) : cg X (2 * H) := by
  have e : (L + H) - c * (cn * (L - H)) = (L + H) - (c * cn) * (L - H) := by grind
  rw [e] at hx
  have := hpc.mul_right (L - H)
  rw [Int.one_mul] at this
  exact hx.trans (((cg.rfl' (L + H)).sub this).trans (cg.of_eq (by grind)))

theorem fwd_sum_eq (a b z1 z2 r : Int) : a + b + z1 * (-z2 * (a - b) * r) * r = (a + b) + (z1 * r) * ((-z2 * r) * (a - b)) := by grind
theorem fwd_diff_eq (a b z1 z2 r : Int) : a + b - z1 * (-z2 * (a - b) * r) * r = (a + b) - (z1 * r) * ((-z2 * r) * (a - b)) := by grind

theorem nttS_cong' : ∀ (d k : Nat) (u v : List Int), CongL u v → CongL (nttS d k u) (nttS d k v) := by
  intro d
  induction d with
  | zero => intro k u v h; exact h
  | succ d ih =>
    intro k u v h
    unfold nttS
    simp only [h.1]
    have ct := (h.drop (v.length / 2)).map (fun x => zv k * x * RINV) (fun x => zv k * x * RINV)
      (fun a b hab => (hab.mul_left (zv k)).mul_right RINV)
    exact (ih (2 * k) _ _ ((h.take (v.length / 2)).zipWith ct _ _ (fun a b a' b' h1 h2 => h1.add h2))).append
      (ih (2 * k + 1) _ _ ((h.take (v.length / 2)).zipWith ct _ _ (fun a b a' b' h1 h2 => h1.sub h2)))

theorem nttS_scale' (c : Int) : ∀ (d k : Nat) (w : List Int), CongL (nttS d k (w.map (fun x => c * x))) ((nttS d k w).map (fun x => c * x)) := by
  intro d
  induction d with
  | zero => intro k w; exact CongL.refl _
  | succ d ih =>
    intro k w
    unfold nttS
    simp only [List.length_map, List.map_append]
    have hA : CongL (List.zipWith (fun a t => a + t) ((w.map (fun x => c * x)).take (w.length / 2))
        (((w.map (fun x => c * x)).drop (w.length / 2)).map (fun x => zv k * x * RINV)))
        ((List.zipWith (fun a t => a + t) (w.take (w.length / 2)) ((w.drop (w.length / 2)).map (fun x => zv k * x * RINV))).map (fun x => c * x)) :=
      ⟨by simp, fun i h1 h2 => by
        simp only [List.getElem_zipWith, List.getElem_map, List.getElem_take, List.getElem_drop]
        exact cg.of_eq (by grind)⟩
    have hB : CongL (List.zipWith (fun a t => a - t) ((w.map (fun x => c * x)).take (w.length / 2))
        (((w.map (fun x => c * x)).drop (w.length / 2)).map (fun x => zv k * x * RINV)))
        ((List.zipWith (fun a t => a - t) (w.take (w.length / 2)) ((w.drop (w.length / 2)).map (fun x => zv k * x * RINV))).map (fun x => c * x)) :=
      ⟨by simp, fun i h1 h2 => by
        simp only [List.getElem_zipWith, List.getElem_map, List.getElem_take, List.getElem_drop]
        exact cg.of_eq (by grind)⟩
    exact ((nttS_cong' d (2 * k) _ _ hA).trans (ih (2 * k) _)).append ((nttS_cong' d (2 * k + 1) _ _ hB).trans (ih (2 * k + 1) _))

/-- **forward butterflies after inverse butterflies multiply by `2^d`** (modulo q): the two transforms are mutually
    inverse up to the factor `2^d` -/
theorem nttS_invS : ∀ (d j k kk : Nat) (w : List Int), w.length = 2 ^ d → 2 ^ j ≤ k → k < 2 ^ (j + 1) → k + kk + 1 = 3 * 2 ^ j →
    j + d ≤ 8 → CongL (nttS d k (invS d kk w)) (w.map (fun x => 2 ^ d * x)) := by
  intro d
  induction d with
  | zero =>
    intro j k kk w _ _ _ _ _
    refine ⟨by simp [invS, nttS], fun i h1 h2 => ?_⟩
    simp only [invS, nttS, List.getElem_map]
    exact cg.of_eq (by simp)
  | succ d ih =>
    intro j k kk w hw h1 h2 h3 hjd
    have hp : 2 ^ (d + 1) = 2 * 2 ^ d := by rw [Nat.pow_succ]; omega
    have hpj : 2 ^ (j + 1) = 2 * 2 ^ j := by rw [Nat.pow_succ]; omega
    have hpj2 : 2 ^ (j + 1 + 1) = 2 * 2 ^ (j + 1) := by rw [Nat.pow_succ]; omega
    have hpI : (2:Int) ^ (d + 1) = 2 * 2 ^ d := by rw [Int.pow_succ]; omega
    have hhalf : w.length / 2 = 2 ^ d := by omega
    have hlo : (w.take (2 ^ d)).length = 2 ^ d := by rw [List.length_take]; omega
    have hhi : (w.drop (2 ^ d)).length = 2 ^ d := by rw [List.length_drop]; omega
    have lL := invS_length d (2 * kk + 1) (w.take (2 ^ d)) hlo
    have lH := invS_length d (2 * kk) (w.drop (2 ^ d)) hhi
    have hpc := pair_cg j k kk (by omega) h1 h2 h3
    -- the inverse layer
    have e1 : invS (d + 1) kk w = List.zipWith (fun t u => t + u) (invS d (2 * kk + 1) (w.take (2 ^ d))) (invS d (2 * kk) (w.drop (2 ^ d))) ++
        List.zipWith (fun t u => -zv kk * (t - u) * RINV) (invS d (2 * kk + 1) (w.take (2 ^ d))) (invS d (2 * kk) (w.drop (2 ^ d))) := by
      rw [invS]; simp only [hhalf]
    have lS : (List.zipWith (fun t u => t + u) (invS d (2 * kk + 1) (w.take (2 ^ d))) (invS d (2 * kk) (w.drop (2 ^ d)))).length = 2 ^ d := by
      rw [List.length_zipWith, lL, lH]; omega
    have lD : (List.zipWith (fun t u => -zv kk * (t - u) * RINV) (invS d (2 * kk + 1) (w.take (2 ^ d))) (invS d (2 * kk) (w.drop (2 ^ d)))).length = 2 ^ d := by
      rw [List.length_zipWith, lL, lH]; omega
    rw [e1]
    unfold nttS
    have hlen2 : (List.zipWith (fun t u => t + u) (invS d (2 * kk + 1) (w.take (2 ^ d))) (invS d (2 * kk) (w.drop (2 ^ d))) ++
        List.zipWith (fun t u => -zv kk * (t - u) * RINV) (invS d (2 * kk + 1) (w.take (2 ^ d))) (invS d (2 * kk) (w.drop (2 ^ d)))).length / 2 = 2 ^ d := by
      rw [List.length_append, lS, lD]; omega
    simp only [hlen2]
    rw [List.take_left' lS, List.drop_left' lS]
    -- lo' ≅ 2 L, hi' ≅ 2 H
    have cLo : CongL (List.zipWith (fun a t => a + t) (List.zipWith (fun t u => t + u) (invS d (2 * kk + 1) (w.take (2 ^ d))) (invS d (2 * kk) (w.drop (2 ^ d))))
        ((List.zipWith (fun t u => -zv kk * (t - u) * RINV) (invS d (2 * kk + 1) (w.take (2 ^ d))) (invS d (2 * kk) (w.drop (2 ^ d)))).map (fun x => zv k * x * RINV)))
        ((invS d (2 * kk + 1) (w.take (2 ^ d))).map (fun x => 2 * x)) := by
      refine ⟨by simp only [List.length_zipWith, List.length_map, lL, lH]; omega, fun i g1 g2 => ?_⟩
      simp only [List.getElem_zipWith, List.getElem_map]
      exact cg_fwd_sum 1 2 _ _ (zv k * RINV) (-zv kk * RINV) _ rfl hpc (cg.of_eq (fwd_sum_eq _ _ _ _ _)) trivial
    have cHi : CongL (List.zipWith (fun a t => a - t) (List.zipWith (fun t u => t + u) (invS d (2 * kk + 1) (w.take (2 ^ d))) (invS d (2 * kk) (w.drop (2 ^ d))))
        ((List.zipWith (fun t u => -zv kk * (t - u) * RINV) (invS d (2 * kk + 1) (w.take (2 ^ d))) (invS d (2 * kk) (w.drop (2 ^ d)))).map (fun x => zv k * x * RINV)))
        ((invS d (2 * kk) (w.drop (2 ^ d))).map (fun x => 2 * x)) := by
      refine ⟨by simp only [List.length_zipWith, List.length_map, lL, lH]; omega, fun i g1 g2 => ?_⟩
      simp only [List.getElem_zipWith, List.getElem_map]
      exact cg_fwd_diff _ _ (zv k * RINV) (-zv kk * RINV) _ hpc (cg.of_eq (fwd_diff_eq _ _ _ _ _))
    have iL := ih (j + 1) (2 * k) (2 * kk + 1) (w.take (2 ^ d)) hlo (by omega) (by omega) (by omega) (by omega)
    have iH := ih (j + 1) (2 * k + 1) (2 * kk) (w.drop (2 ^ d)) hhi (by omega) (by omega) (by omega) (by omega)
    have rL := ((nttS_cong' d (2 * k) _ _ cLo).trans (nttS_scale' 2 d (2 * k) _)).trans
      (iL.map (fun x => 2 * x) (fun x => 2 * x) (fun a b h => h.mul_left 2))
    have rH := ((nttS_cong' d (2 * k + 1) _ _ cHi).trans (nttS_scale' 2 d (2 * k + 1) _)).trans
      (iH.map (fun x => 2 * x) (fun x => 2 * x) (fun a b h => h.mul_left 2))
    refine (rL.append rH).trans ?_
    rw [List.map_map, List.map_map, ← List.map_append, List.take_append_drop]
    exact (CongL.refl w).map _ _ (fun a b h => by
      simp only [Function.comp]
      rw [hpI]
      exact (cg.of_eq (by grind)).trans (h.mul_left (2 * 2 ^ d)))

end Fips204.Impl
