import Fips204.Lemmas.KeyDecode
/-! `hint_bit_unpack` (Algorithm 21): never faults on any byte string of the right length; what it returns is a vector
    of `k` polynomials of 256 coefficients in {0,1}, each with at most `omega` ones. -/
namespace Fips204.Impl
open Fips204 Fips204.Gen

theorem dassert_dec (m : Mode) (s : String) (c : Bool) (h : c = true) : dassert m s c = .ok () := by
  cases m <;> simp [dassert, h, pure, Except.pure]

/-- number of coefficients equal to one -/
def ones (p : Poly) : Nat := (p.filter (fun e => e = 1)).length

theorem foldl_add_ones (l : List Int) (h : ∀ x ∈ l, x = 1) (s : Int) : l.foldl (fun s e => s + e) s = s + l.length := by
  induction l generalizing s with
  | nil => simp
  | cons a as ih =>
    have ha := h a (List.mem_cons_self ..)
    rw [List.foldl_cons, ih (fun x hx => h x (List.mem_cons_of_mem _ hx)), ha, List.length_cons]
    omega

theorem countOnes_eq (p : Poly) : countOnes p = ones p := by
  unfold countOnes ones
  rw [foldl_add_ones _ (fun x hx => by simpa using (List.mem_filter.mp hx).2)]
  omega

theorem ones_set_le (p : Poly) (i : Nat) : ones (p.set i 1) ≤ ones p + 1 := by
  unfold ones
  induction p generalizing i with
  | nil => simp
  | cons a as ih =>
    cases i with
    | zero =>
      simp only [List.set_cons_zero, List.filter_cons]
      split <;> split <;> simp_all <;> omega
    | succ j =>
      simp only [List.set_cons_succ, List.filter_cons]
      have := ih j
      split <;> simp_all <;> omega

theorem ones_zeroPoly : ones zeroPoly = 0 := by decide +kernel

/-- 0/1 polynomial of 256 coefficients -/
def Bin (p : Poly) : Prop := p.length = 256 ∧ ∀ x ∈ p, x = 0 ∨ x = 1

theorem Bin.set {p : Poly} (h : Bin p) (i : Nat) : Bin (p.set i 1) :=
  ⟨by rw [List.length_set]; exact h.1, fun x hx => by
    rcases List.mem_or_eq_of_mem_set hx with hx | rfl
    · exact h.2 x hx
    · exact Or.inr rfl⟩

theorem Bin_zeroPoly : Bin zeroPoly :=
  ⟨by unfold zeroPoly; rw [List.length_replicate], fun x hx => by
    unfold zeroPoly at hx; exact Or.inl (List.eq_of_mem_replicate hx)⟩

theorem idx_ok {α} (site : String) (l : List α) (i : Nat) (h : i < l.length) : idx site l i = .ok l[i] := by
  unfold idx; rw [List.getElem?_eq_getElem h]; rfl

theorem hintInner_ok (y : List Nat) (hy : ∀ b ∈ y, b < 256) (first limit : Nat) (hl : limit ≤ y.length) :
    ∀ (fuel index : Nat) (hp : Poly), Bin hp →
      ∃ r, hintInner y first limit fuel index hp = .ok r ∧
        ∀ i' hp', r = some (i', hp') → Bin hp' ∧ index ≤ i' ∧ (i' ≤ index ∨ i' ≤ limit) ∧ ones hp' + index ≤ ones hp + i' := by
  intro fuel
  induction fuel with
  | zero =>
    intro index hp hb
    refine ⟨some (index, hp), rfl, fun i' hp' h => ?_⟩
    simp only [Option.some.injEq, Prod.mk.injEq] at h
    obtain ⟨rfl, rfl⟩ := h
    exact ⟨hb, Nat.le_refl _, Or.inl (Nat.le_refl _), Nat.le_refl _⟩
  | succ fuel ih =>
    intro index hp hb
    unfold hintInner
    by_cases hlt : index < limit
    · rw [if_pos hlt, idx_ok _ y index (by omega), ok_bind]
      have hcur : y[index]'(by omega) < hp.length := by rw [hb.1]; exact hy _ (List.getElem_mem _)
      obtain ⟨r, hr, hrp⟩ := ih (index + 1) (hp.set (y[index]'(by omega)) 1) (hb.set _)
      have key : ∀ i' hp', r = some (i', hp') → Bin hp' ∧ index ≤ i' ∧ (i' ≤ index ∨ i' ≤ limit) ∧ ones hp' + index ≤ ones hp + i' := by
        intro i' hp' h
        obtain ⟨h1, h2, h3, h4⟩ := hrp i' hp' h
        have := ones_set_le hp (y[index]'(by omega))
        exact ⟨h1, by omega, by omega, by omega⟩
      by_cases hf : index > first
      · rw [if_pos hf, idx_ok _ y (index - 1) (by omega), ok_bind]
        by_cases hge : y[index - 1]'(by omega) ≥ y[index]'(by omega)
        · rw [if_pos hge]
          exact ⟨none, rfl, fun i' hp' h => by simp at h⟩
        · rw [if_neg hge, if_pos hcur]
          exact ⟨r, hr, key⟩
      · rw [if_neg hf, if_pos hcur]
        exact ⟨r, hr, key⟩
    · rw [if_neg hlt]
      refine ⟨some (index, hp), rfl, fun i' hp' h => ?_⟩
      simp only [Option.some.injEq, Prod.mk.injEq] at h
      obtain ⟨rfl, rfl⟩ := h
      exact ⟨hb, Nat.le_refl _, Or.inl (Nat.le_refl _), Nat.le_refl _⟩

theorem hintOuter_ok (m : Mode) (y : List Nat) (hy : ∀ b ∈ y, b < 256) (om omByte : Nat) (hob : omByte ≤ om) :
    ∀ (is : List Nat) (index : Nat) (acc : List Poly), (∀ i ∈ is, om + i < y.length) → index ≤ omByte →
      (∀ q ∈ acc, Bin q ∧ ones q ≤ omByte) →
      ∃ r, hintOuter m y om omByte is index acc = .ok r ∧
        ∀ i' h, r = some (i', h) → i' ≤ omByte ∧ h.length = acc.length + is.length ∧ ∀ q ∈ h, Bin q ∧ ones q ≤ omByte := by
  intro is
  induction is with
  | nil =>
    intro index acc _ hi hacc
    refine ⟨some (index, acc.reverse), rfl, fun i' h hh => ?_⟩
    simp only [Option.some.injEq, Prod.mk.injEq] at hh
    obtain ⟨rfl, rfl⟩ := hh
    exact ⟨hi, by simp, fun q hq => hacc q (List.mem_reverse.mp hq)⟩
  | cons i is ih =>
    intro index acc his hi hacc
    unfold hintOuter
    have h1 := his i (List.mem_cons_self ..)
    rw [idx_ok _ y (om + i) h1, ok_bind]
    by_cases hbad : (decide (y[om + i]'h1 < index) || decide (y[om + i]'h1 > omByte)) = true
    · rw [if_pos hbad]; exact ⟨none, rfl, fun i' h hh => by simp at hh⟩
    · rw [if_neg hbad]
      simp only [Bool.or_eq_true, decide_eq_true_eq, not_or, Nat.not_lt, gt_iff_lt] at hbad
      obtain ⟨r, hr, hrp⟩ := hintInner_ok y hy index (y[om + i]'h1) (by omega) 256 index zeroPoly Bin_zeroPoly
      rw [hr, ok_bind]
      cases r with
      | none => exact ⟨none, rfl, fun i' h hh => by simp at hh⟩
      | some ip =>
        obtain ⟨i1, hp1⟩ := ip
        obtain ⟨b1, b2, b3, b4⟩ := hrp i1 hp1 rfl
        rw [ones_zeroPoly] at b4
        obtain ⟨r2, hr2, hr2p⟩ := ih i1 (hp1 :: acc) (fun j hj => his j (List.mem_cons_of_mem _ hj)) (by omega)
          (fun q hq => by
            rcases List.mem_cons.mp hq with rfl | hq
            · exact ⟨b1, by omega⟩
            · exact hacc q hq)
        refine ⟨r2, hr2, fun i' h hh => ?_⟩
        obtain ⟨c1, c2, c3⟩ := hr2p i' h hh
        exact ⟨c1, by rw [c2]; simp; omega, c3⟩

theorem mapM_idx_ok {α} (site : String) (y : List α) (index : Nat) :
    ∀ (n : Nat), index + n ≤ y.length → ∃ r, (List.range n).mapM (fun d => idx site y (index + d)) = .ok r := by
  intro n hn
  obtain ⟨r, hr, _⟩ := mapM_ok (fun d => idx site y (index + d)) (fun d => d < n) (fun _ => True)
    (fun d hd => ⟨_, idx_ok site y (index + d) (by omega), trivial⟩) (List.range n) (fun d hd => List.mem_range.mp hd)
  exact ⟨r, hr⟩

/-- **`hint_bit_unpack` never faults**, in both build modes, on any byte string of length `omega + k`;
    an accepted section decodes to `k` polynomials of 256 coefficients in {0,1} -/
theorem hintBitUnpack_ok (m : Mode) (k : Nat) (omega : Int) (y : List Nat) (hy : ∀ b ∈ y, b < 256)
    (ho : 0 ≤ omega) (hk : 1 ≤ omega.toNat + k ∧ omega.toNat + k < 256) (hlen : y.length = omega.toNat + k) :
    ∃ r, hintBitUnpack m k omega y = .ok r ∧ ∀ h, r = some h → h.length = k ∧ ∀ q ∈ h, Bin q ∧ ones q ≤ omega.toNat := by
  unfold hintBitUnpack
  rw [if_neg (by omega)]
  have hmod : omega.toNat % 256 = omega.toNat := Nat.mod_eq_of_lt (by omega)
  simp only [dassert_dec m _ _ (show (decide (1 ≤ omega.toNat + k) && decide (omega.toNat + k < 256)) = true by simp; omega),
    dassert_dec m _ _ (show (y.length == omega.toNat + k) = true by simp [hlen]), ok_bind, hmod]
  obtain ⟨r, hr, hrp⟩ := hintOuter_ok m y hy omega.toNat omega.toNat (Nat.le_refl _) (List.range k) 0 []
    (fun i hi => by have := List.mem_range.mp hi; omega) (by omega) (by simp)
  rw [hr, ok_bind]
  cases r with
  | none => exact ⟨none, rfl, fun h hh => by simp at hh⟩
  | some ih =>
    obtain ⟨index, h⟩ := ih
    obtain ⟨c1, c2, c3⟩ := hrp index h rfl
    obtain ⟨rest, hrest⟩ := mapM_idx_ok "conversion.rs:hint_bit_unpack:y_bytes[i]" y index (omega.toNat - index) (by omega)
    simp only [hrest, ok_bind]
    by_cases hany : (rest.any fun b => decide (b ≠ 0)) = true
    · rw [if_pos hany]; exact ⟨none, rfl, fun h hh => by simp at hh⟩
    · rw [if_neg hany]
      have hall : (h.all fun p => decide (countOnes p ≤ omega)) = true := by
        rw [List.all_eq_true]
        intro q hq
        have := (c3 q hq).2
        rw [countOnes_eq]
        simp only [decide_eq_true_eq]
        omega
      rw [dassert_dec m _ _ hall, ok_bind]
      refine ⟨some h, rfl, fun h' hh => ?_⟩
      simp only [Option.some.injEq] at hh
      subst hh
      exact ⟨by simpa using c2, fun q hq => c3 q hq⟩

end Fips204.Impl
