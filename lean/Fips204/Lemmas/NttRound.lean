import Fips204.Lemmas.NttAlg
/-! The NTT-domain representation of key material round-trips exactly: `unMontCentered (nttMont s) = s` for every
    vector of small polynomials, and the verifier precompute of `t1` is undone by `pk.into_bytes`' arithmetic. -/
namespace Fips204.Impl
open Fips204 Fips204.Gen Fips204.K

theorem fs256 : cg (FS * 2 ^ 8) 1 := by unfold cg FS; decide

/-- the inverse transform of anything congruent to the forward specification of `ws` is congruent to `ws` -/
theorem invNttPoly_of_nttS (m : Mode) (u ws : List Int) (hl : ws.length = 256) (hc : CongL u (nttS 8 1 ws)) (hu : Bnd 2143289343 u) :
    ∃ r, invNttPoly m u = .ok r ∧ (∀ x ∈ r, 0 ≤ x ∧ x < 8380417) ∧ CongL r ws := by
  obtain ⟨r, h1, h2, h3⟩ := invNttPoly_sem m u _ hc hu
  refine ⟨r, h1, h2, h3.trans ?_⟩
  have hi := invS_nttS 8 0 1 1 ws (by rw [hl]) (by decide) (by decide) (by decide) (by decide)
  have := hi.map (fun x => FS * x) (fun x => FS * x) (fun a b h => h.mul_left FS)
  refine this.trans ⟨by simp, fun i a b => ?_⟩
  rw [List.getElem_map, List.getElem_map]
  have e : FS * (2 ^ 8 * ws[i]) = (FS * 2 ^ 8) * ws[i] := by grind
  rw [e]
  have := fs256.mul_right ws[i]
  rw [Int.one_mul] at this
  exact this

/-- a relational `mapM`: every step succeeds and relates input to output -/
theorem mapM_rel {α β} (f : α → M β) (R : α → β → Prop) : ∀ l : List α, (∀ a ∈ l, ∃ b, f a = .ok b ∧ R a b) →
    ∃ l', l.mapM f = .ok l' ∧ l'.length = l.length ∧ ∀ i (h1 : i < l.length) (h2 : i < l'.length), R l[i] l'[i] := by
  intro l
  induction l with
  | nil => intro _; exact ⟨[], by simp [pure_eq], rfl, fun i h => by simp at h⟩
  | cons a as ih =>
    intro h
    obtain ⟨b, hb, rb⟩ := h a (List.mem_cons_self ..)
    obtain ⟨bs, hbs, lbs, rbs⟩ := ih (fun x hx => h x (List.mem_cons_of_mem _ hx))
    refine ⟨b :: bs, by rw [List.mapM_cons, hb, ok_bind, hbs, ok_bind, pure_eq], by simp [lbs], fun i h1 h2 => ?_⟩
    cases i with
    | zero => exact rb
    | succ j => simp only [List.getElem_cons_succ]; exact rbs j (by simpa using h1) (by simpa using h2)

/-- one polynomial through `ntt`, `to_mont`, `mont_reduce`, `inv_ntt` and re-centring comes back unchanged -/
theorem poly_round (m : Mode) (s : Poly) (hl : s.length = 256) (hs : Bnd 524288 s) :
    ∃ a b c d, nttPoly m s = .ok a ∧ a.mapM (to_mont_coeff m) = .ok b ∧ Bnd 16760833 b ∧ b.length = 256 ∧ b.mapM (mont_reduce m) = .ok c ∧
      invNttPoly m c = .ok d ∧
      d.mapM (fun x => if x > Int.tdiv Q 2 then arith .i32 m "lib.rs:into_bytes:x-Q" (x - Q) else pure x) = .ok s := by
  obtain ⟨a, ha, ba, ca⟩ := nttPoly_sem m s s (CongL.refl s) hs
  have la := nttPoly_len m s a hl ha
  obtain ⟨b, hb, bb, cb⟩ := mapM_sem (to_mont_coeff m) (fun x => x * 4294967296) (fun x => -67000000 ≤ x ∧ x ≤ 67000000)
    (fun y => -16760833 ≤ y ∧ y ≤ 16760833)
    (fun x t hx hxt => by
      have := pr64s_spec x hx.1 hx.2
      exact ⟨pr64s x, to_mont_coeff_eq m x hx.1 hx.2, ⟨by omega, by omega⟩, (show cg (pr64s x) (x * 4294967296) from this.1).trans (hxt.mul_right _)⟩)
    a _ ca (fun x hx => by have := ba x hx; omega)
  have lb : b.length = 256 := by rw [mapM_len _ _ _ hb]; exact la
  obtain ⟨c, hc, bc, cc⟩ := mapM_sem (mont_reduce m) (fun x => x * RINV) (fun x => -16760833 ≤ x ∧ x ≤ 16760833)
    (fun y => -2143289343 ≤ y ∧ y ≤ 2143289343)
    (fun x t hx hxt => by
      have := montv_spec x (by omega) (by omega)
      exact ⟨montv x, mont_reduce_eq m x (by omega) (by omega), ⟨by omega, by omega⟩, (montv_cg x (by omega) (by omega)).trans (hxt.mul_right _)⟩)
    b _ cb bb
  -- c ≅ nttS s
  have hcs : CongL c (nttS 8 1 s) := by
    refine cc.trans ⟨by simp, fun i h1 h2 => ?_⟩
    rw [List.getElem_map, List.getElem_map]
    have : cg (4294967296 * 8265825) 1 := by unfold cg; decide
    have := this.mul_left ((nttS 8 1 s)[i])
    rw [Int.mul_one] at this
    unfold RINV
    refine (cg.of_eq ?_).trans this
    grind
  obtain ⟨d, hd, bd, cd⟩ := invNttPoly_of_nttS m c s hl hcs bc
  have ld := invNttPoly_len m c d (by rw [mapM_len _ _ _ hc]; exact lb) hd
  have ht : Int.tdiv Q 2 = 4190208 := by decide
  obtain ⟨e, he, le, re⟩ := mapM_rel (fun x => if x > Int.tdiv Q 2 then arith .i32 m "lib.rs:into_bytes:x-Q" (x - Q) else pure x)
    (fun x y => y = if x > 4190208 then x - 8380417 else x) d
    (fun x hx => by
      have := bd x hx
      rw [ht]
      by_cases hg : x > 4190208
      · rw [if_pos hg, if_pos hg]; simp only [Q]; exact ⟨_, arith_i32 _ _ _ (by omega) (by omega), rfl⟩
      · rw [if_neg hg, if_neg hg, pure_eq]; exact ⟨_, rfl, rfl⟩)
  have hes : e = s := by
    apply List.ext_getElem (by rw [le, ld, hl])
    intro i h1 h2
    have r := re i (by rw [← le]; exact h1) h1
    rw [r]
    have hdi := bd (d[i]'(by rw [← le]; exact h1)) (List.getElem_mem _)
    have hcg : cg (d[i]'(by rw [← le]; exact h1)) s[i] := cd.2 i (by rw [← le]; exact h1) h2
    have hsi := hs s[i] (List.getElem_mem _)
    unfold cg at hcg
    split <;> omega
  rw [hes] at he
  exact ⟨a, b, c, d, ha, hb, bb, lb, hc, hd, he⟩

/-- **`unMontCentered (nttMont s) = s`**: the NTT-domain form stored in a private key determines the vector exactly -/
theorem unMont_nttMont (m : Mode) (s : List Poly) (hs : ∀ q ∈ s, q.length = 256 ∧ Bnd 524288 q) :
    ∃ h, nttMont m s = .ok h ∧ unMontCentered m h = .ok s := by
  -- stage 1: ntt
  obtain ⟨a, ha, la, ra⟩ := mapM_rel (nttPoly m) (fun p a => ∃ b c d, nttPoly m p = .ok a ∧ a.mapM (to_mont_coeff m) = .ok b ∧ Bnd 16760833 b ∧ b.length = 256 ∧
      b.mapM (mont_reduce m) = .ok c ∧ invNttPoly m c = .ok d ∧
      d.mapM (fun x => if x > Int.tdiv Q 2 then arith .i32 m "lib.rs:into_bytes:x-Q" (x - Q) else pure x) = .ok p) s
    (fun p hp => by
      obtain ⟨a, b, c, d, h1, h2, h3, h4, h5, h6, h7⟩ := poly_round m p (hs p hp).1 (hs p hp).2
      exact ⟨a, h1, b, c, d, h1, h2, h3, h4, h5, h6, h7⟩)
  -- stage 2: to_mont
  obtain ⟨b, hb, lb, rb⟩ := mapM_rel (fun p : Poly => p.mapM (to_mont_coeff m)) (fun a b => a.mapM (to_mont_coeff m) = .ok b) a
    (fun x hx => by
      obtain ⟨i, hi, rfl⟩ := List.mem_iff_getElem.mp hx
      obtain ⟨b, c, d, _, h2, _⟩ := ra i (by rw [← la]; exact hi) hi
      exact ⟨b, h2, h2⟩)
  have hnm : nttMont m s = .ok b := by unfold nttMont ntt toMont; rw [ha, ok_bind]; exact hb
  refine ⟨b, hnm, ?_⟩
  -- per index: the poly_round witnesses, with b[i] identified
  have key : ∀ i (hi : i < s.length), ∃ c d, (b[i]'(by rw [lb, la]; exact hi)).mapM (mont_reduce m) = .ok c ∧ invNttPoly m c = .ok d ∧
      d.mapM (fun x => if x > Int.tdiv Q 2 then arith .i32 m "lib.rs:into_bytes:x-Q" (x - Q) else pure x) = .ok s[i] := by
    intro i hi
    obtain ⟨b', c, d, _, h2, _, _, h5, h6, h7⟩ := ra i hi (by rw [la]; exact hi)
    have hbi := rb i (by rw [la]; exact hi) (by rw [lb, la]; exact hi)
    rw [h2] at hbi
    have : b' = b[i]'(by rw [lb, la]; exact hi) := ok_inj hbi
    subst this
    exact ⟨c, d, h5, h6, h7⟩
  -- stage 3: mont_reduce
  obtain ⟨c, hc, lc, rc⟩ := mapM_rel (fun p : Poly => p.mapM (mont_reduce m)) (fun b c => b.mapM (mont_reduce m) = .ok c) b
    (fun x hx => by
      obtain ⟨i, hi, rfl⟩ := List.mem_iff_getElem.mp hx
      obtain ⟨c, d, h5, _⟩ := key i (by rw [← la, ← lb]; exact hi)
      exact ⟨c, h5, h5⟩)
  -- stage 4: inverse transform
  obtain ⟨d, hd, ld, rd⟩ := mapM_rel (invNttPoly m) (fun c d => invNttPoly m c = .ok d) c
    (fun x hx => by
      obtain ⟨i, hi, rfl⟩ := List.mem_iff_getElem.mp hx
      have hi' : i < s.length := by rw [← la, ← lb, ← lc]; exact hi
      obtain ⟨c', d', h5, h6, _⟩ := key i hi'
      have := rc i (by rw [lb, la]; exact hi') hi
      rw [h5] at this
      have e : c' = c[i] := ok_inj this
      subst e
      exact ⟨d', h6, h6⟩)
  -- stage 5: re-centre
  obtain ⟨e, he, le, re⟩ := mapM_rel (fun p : Poly => p.mapM (fun x => if x > Int.tdiv Q 2 then arith .i32 m "lib.rs:into_bytes:x-Q" (x - Q) else pure x))
    (fun d e => d.mapM (fun x => if x > Int.tdiv Q 2 then arith .i32 m "lib.rs:into_bytes:x-Q" (x - Q) else pure x) = .ok e) d
    (fun x hx => by
      obtain ⟨i, hi, rfl⟩ := List.mem_iff_getElem.mp hx
      have hi' : i < s.length := by rw [← la, ← lb, ← lc, ← ld]; exact hi
      obtain ⟨c', d', h5, h6, h7⟩ := key i hi'
      have hci := rc i (by rw [lb, la]; exact hi') (by rw [lc, lb, la]; exact hi')
      rw [h5] at hci
      have e1 : c' = c[i]'(by rw [lc, lb, la]; exact hi') := ok_inj hci
      subst e1
      have hdi := rd i (by rw [lc, lb, la]; exact hi') hi
      rw [h6] at hdi
      have e2 : d' = d[i] := ok_inj hdi
      subst e2
      exact ⟨s[i], h7, h7⟩)
  have hes : e = s := by
    apply List.ext_getElem (by rw [le, ld, lc, lb, la])
    intro i h1 h2
    obtain ⟨c', d', h5, h6, h7⟩ := key i h2
    have hci := rc i (by rw [lb, la]; exact h2) (by rw [lc, lb, la]; exact h2)
    rw [h5] at hci
    have e1 : c' = c[i]'(by rw [lc, lb, la]; exact h2) := ok_inj hci
    subst e1
    have hdi := rd i (by rw [lc, lb, la]; exact h2) (by rw [ld, lc, lb, la]; exact h2)
    rw [h6] at hdi
    have e2 : d' = d[i]'(by rw [ld, lc, lb, la]; exact h2) := ok_inj hdi
    subst e2
    have hei := re i (by rw [ld, lc, lb, la]; exact h2) h1
    rw [h7] at hei
    exact (ok_inj hei).symm
  unfold unMontCentered invNtt
  rw [hc, ok_bind, hd, ok_bind, he, hes]

/-! ### linearity of the forward specification, and the verifier precompute -/

theorem nttS_cong : ∀ (d k : Nat) (u v : List Int), CongL u v → CongL (nttS d k u) (nttS d k v) := by
  intro d
  induction d with
  | zero => intro k u v h; exact h
  | succ d ih =>
    intro k u v h
    unfold nttS
    simp only [h.1]
    have ct := (h.drop (v.length / 2)).map (fun x => zv k * x * RINV) (fun x => zv k * x * RINV)
      (fun a b hab => (hab.mul_left (zv k)).mul_right RINV)
    exact (ih (2 * k) _ _ ((h.take (v.length / 2)).zipWith ct _ _ (fun a b a' b' h1 h2 => h1.add h2))).append
      (ih (2 * k + 1) _ _ ((h.take (v.length / 2)).zipWith ct _ _ (fun a b a' b' h1 h2 => h1.sub h2)))

theorem nttS_scale (c : Int) : ∀ (d k : Nat) (w : List Int), CongL (nttS d k (w.map (fun x => c * x))) ((nttS d k w).map (fun x => c * x)) := by
  intro d
  induction d with
  | zero => intro k w; exact CongL.refl _
  | succ d ih =>
    intro k w
    unfold nttS
    simp only [List.length_map, List.map_append]
    have hA : CongL (List.zipWith (fun a t => a + t) ((w.map (fun x => c * x)).take (w.length / 2))
        (((w.map (fun x => c * x)).drop (w.length / 2)).map (fun x => zv k * x * RINV)))
        ((List.zipWith (fun a t => a + t) (w.take (w.length / 2)) ((w.drop (w.length / 2)).map (fun x => zv k * x * RINV))).map (fun x => c * x)) :=
      ⟨by simp, fun i h1 h2 => by
        simp only [List.getElem_zipWith, List.getElem_map, List.getElem_take, List.getElem_drop]
        exact cg.of_eq (by grind)⟩
    have hB : CongL (List.zipWith (fun a t => a - t) ((w.map (fun x => c * x)).take (w.length / 2))
        (((w.map (fun x => c * x)).drop (w.length / 2)).map (fun x => zv k * x * RINV)))
        ((List.zipWith (fun a t => a - t) (w.take (w.length / 2)) ((w.drop (w.length / 2)).map (fun x => zv k * x * RINV))).map (fun x => c * x)) :=
      ⟨by simp, fun i h1 h2 => by
        simp only [List.getElem_zipWith, List.getElem_map, List.getElem_take, List.getElem_drop]
        exact cg.of_eq (by grind)⟩
    exact ((nttS_cong d (2 * k) _ _ hA).trans (ih (2 * k) _)).append ((nttS_cong d (2 * k + 1) _ _ hB).trans (ih (2 * k + 1) _))

theorem cg_chain (x : Int) : cg (x * 4294967296 * 8192 * RINV * 4294967296 * RINV) (8192 * x) := by
  have hRR : cg (4294967296 * 8265825) 1 := by unfold cg; decide
  have h2 := (hRR.mul_left (4294967296 * 8265825)).trans (by rw [Int.mul_one]; exact hRR)
  have key := h2.mul_left (8192 * x)
  rw [Int.mul_one] at key
  unfold RINV
  exact (cg.of_eq (by grind)).trans key

/-- one polynomial of `t1` through the verifier precompute and back through `pk.into_bytes`' arithmetic -/
theorem pk_poly_round (m : Mode) (t : Poly) (hl : t.length = 256) (ht : ∀ x ∈ t, 0 ≤ x ∧ x ≤ 1023) :
    ∃ a1 a2 a3 a4 a5 a6, nttPoly m t = .ok a1 ∧ a1.mapM (to_mont_coeff m) = .ok a2 ∧
      a2.mapM (fun x => mont_reduce m (IT.i64.wrap (x * 2 ^ D.toNat))) = .ok a3 ∧ a3.mapM (to_mont_coeff m) = .ok a4 ∧
      a4.mapM (mont_reduce m) = .ok a5 ∧ invNttPoly m a5 = .ok a6 ∧ a6.map (fun x => x / 2 ^ D.toNat) = t := by
  have e13 : (2:Int) ^ D.toNat = 8192 := by decide
  obtain ⟨a1, h1, b1, c1⟩ := nttPoly_sem m t t (CongL.refl t) (fun x hx => by have := ht x hx; omega)
  have l1 := nttPoly_len m t a1 hl h1
  obtain ⟨a2, h2, b2, c2⟩ := mapM_sem (to_mont_coeff m) (fun x => x * 4294967296) (fun x => -67000000 ≤ x ∧ x ≤ 67000000)
    (fun y => -16760833 ≤ y ∧ y ≤ 16760833)
    (fun x s hx hxs => by
      have := pr64s_spec x hx.1 hx.2
      exact ⟨pr64s x, to_mont_coeff_eq m x hx.1 hx.2, ⟨by omega, by omega⟩, (show cg (pr64s x) (x * 4294967296) from this.1).trans (hxs.mul_right _)⟩)
    a1 _ c1 (fun x hx => by have := b1 x hx; omega)
  obtain ⟨a3, h3, b3, c3⟩ := mapM_sem (fun x => mont_reduce m (IT.i64.wrap (x * 2 ^ D.toNat))) (fun x => x * 8192 * RINV)
    (fun x => -16760833 ≤ x ∧ x ≤ 16760833) (fun y => -67000000 ≤ y ∧ y ≤ 67000000)
    (fun x s hx hxs => by
      have hw := wrap64_id (x * 8192) (by omega) (by omega)
      have hm := montv_spec (x * 8192) (by omega) (by omega)
      refine ⟨montv (x * 8192), by rw [e13, hw]; exact mont_reduce_eq m _ (by omega) (by omega), ⟨by omega, by omega⟩, ?_⟩
      exact (montv_cg (x * 8192) (by omega) (by omega)).trans ((hxs.mul_right 8192).mul_right RINV)) a2 _ c2 b2
  obtain ⟨a4, h4, b4, c4⟩ := mapM_sem (to_mont_coeff m) (fun x => x * 4294967296) (fun x => -67000000 ≤ x ∧ x ≤ 67000000)
    (fun y => -16760833 ≤ y ∧ y ≤ 16760833)
    (fun x s hx hxs => by
      have := pr64s_spec x hx.1 hx.2
      exact ⟨pr64s x, to_mont_coeff_eq m x hx.1 hx.2, ⟨by omega, by omega⟩, (show cg (pr64s x) (x * 4294967296) from this.1).trans (hxs.mul_right _)⟩)
    a3 _ c3 b3
  obtain ⟨a5, h5, b5, c5⟩ := mapM_sem (mont_reduce m) (fun x => x * RINV) (fun x => -16760833 ≤ x ∧ x ≤ 16760833)
    (fun y => -2143289343 ≤ y ∧ y ≤ 2143289343)
    (fun x s hx hxs => by
      have := montv_spec x (by omega) (by omega)
      exact ⟨montv x, mont_reduce_eq m x (by omega) (by omega), ⟨by omega, by omega⟩, (montv_cg x (by omega) (by omega)).trans (hxs.mul_right _)⟩)
    a4 _ c4 b4
  -- a5 ≅ 8192 * nttS t ≅ nttS (8192 * t)
  have hc5 : CongL a5 ((nttS 8 1 t).map (fun x => 8192 * x)) := by
    refine c5.trans ?_
    rw [List.map_map, List.map_map, List.map_map]
    exact (CongL.refl (nttS 8 1 t)).map _ _ (fun a b h => (cg_chain a).trans (h.mul_left 8192))
  have hc5' : CongL a5 (nttS 8 1 (t.map (fun x => 8192 * x))) := hc5.trans (nttS_scale 8192 8 1 t).symm
  obtain ⟨a6, h6, b6, c6⟩ := invNttPoly_of_nttS m a5 (t.map (fun x => 8192 * x)) (by rw [List.length_map]; exact hl) hc5' b5
  have l6 := invNttPoly_len m a5 a6 (by rw [mapM_len _ _ _ h5, mapM_len _ _ _ h4, mapM_len _ _ _ h3, mapM_len _ _ _ h2]; exact l1) h6
  refine ⟨a1, a2, a3, a4, a5, a6, h1, h2, h3, h4, h5, h6, ?_⟩
  rw [e13]
  apply List.ext_getElem (by rw [List.length_map, l6, hl])
  intro i g1 g2
  rw [List.getElem_map]
  have g1' : i < a6.length := by rw [List.length_map] at g1; exact g1
  have hb := b6 (a6[i]'g1') (List.getElem_mem _)
  have hcg : cg (a6[i]'g1') (8192 * t[i]) := by
    have := c6.2 i g1' (by rw [List.length_map]; exact g2)
    rw [List.getElem_map] at this
    exact this
  have hti := ht t[i] (List.getElem_mem _)
  unfold cg at hcg
  omega

end Fips204.Impl
