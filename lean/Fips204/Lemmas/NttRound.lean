import Fips204.Lemmas.NttAlg
/-! The NTT-domain representation of key material round-trips exactly: `unMontCentered (nttMont s) = s` for every
    vector of small polynomials, and the verifier precompute of `t1` is undone by `pk.into_bytes`' arithmetic. -/
namespace Fips204.Impl
open Fips204 Fips204.Gen Fips204.K

theorem fs256 : cg (FS * 2 ^ 8) 1 := by unfold cg FS; decide

/-- the inverse transform of anything congruent to the forward specification of `ws` is congruent to `ws` -/
theorem invNttPoly_of_nttS (m : Mode) (u ws : List Int) (hl : ws.length = 256) (hc : CongL u (nttS 8 1 ws)) (hu : Bnd 2143289343 u) :
    ∃ r, invNttPoly m u = .ok r ∧ (∀ x ∈ r, 0 ≤ x ∧ x < 8380417) ∧ CongL r ws := by
  obtain ⟨r, h1, h2, h3⟩ := invNttPoly_sem m u _ hc hu
  refine ⟨r, h1, h2, h3.trans ?_⟩
  have hi := invS_nttS 8 0 1 1 ws (by rw [hl]) (by decide) (by decide) (by decide) (by decide)
  have := hi.map (fun x => FS * x) (fun x => FS * x) (fun a b h => h.mul_left FS)
  refine this.trans ⟨by simp, fun i a b => ?_⟩
  rw [List.getElem_map, List.getElem_map]
  have e : FS * (2 ^ 8 * ws[i]) = (FS * 2 ^ 8) * ws[i] := by grind
  rw [e]
  have := fs256.mul_right ws[i]
  rw [Int.one_mul] at this
  exact this

/-- a relational `mapM`: every step succeeds and relates input to output -/
theorem mapM_rel {α β} (f : α → M β) (R : α → β → Prop) : ∀ l : List α, (∀ a ∈ l, ∃ b, f a = .ok b ∧ R a b) →
    ∃ l', l.mapM f = .ok l' ∧ l'.length = l.length ∧ ∀ i (h1 : i < l.length) (h2 : i < l'.length), R l[i] l'[i] := by
  intro l
  induction l with
  | nil => intro _; exact ⟨[], by simp [pure_eq], rfl, fun i h => by simp at h⟩
  | cons a as ih =>
    intro h
    obtain ⟨b, hb, rb⟩ := h a (List.mem_cons_self ..)
    obtain ⟨bs, hbs, lbs, rbs⟩ := ih (fun x hx => h x (List.mem_cons_of_mem _ hx))
    refine ⟨b :: bs, by rw [List.mapM_cons, hb, ok_bind, hbs, ok_bind, pure_eq], by simp [lbs], fun i h1 h2 => ?_⟩
    cases i with
    | zero => exact rb
    | succ j => simp only [List.getElem_cons_succ]; exact rbs j (by simpa using h1) (by simpa using h2)

/-- one polynomial through `ntt`, `to_mont`, `mont_reduce`, `inv_ntt` and re-centring comes back unchanged -/
theorem poly_round (m : Mode) (s : Poly) (hl : s.length = 256) (hs : Bnd 524288 s) :
    ∃ a b c d, nttPoly m s = .ok a ∧ a.mapM (to_mont_coeff m) = .ok b ∧ Bnd 16760833 b ∧ b.length = 256 ∧ b.mapM (mont_reduce m) = .ok c ∧
      invNttPoly m c = .ok d ∧
      d.mapM (fun x => if x > Int.tdiv Q 2 then arith .i32 m "lib.rs:into_bytes:x-Q" (x - Q) else pure x) = .ok s := by
  obtain ⟨a, ha, ba, ca⟩ := nttPoly_sem m s s (CongL.refl s) hs
  have la := nttPoly_len m s a hl ha
  obtain ⟨b, hb, bb, cb⟩ := mapM_sem (to_mont_coeff m) (fun x => x * 4294967296) (fun x => -67000000 ≤ x ∧ x ≤ 67000000)
    (fun y => -16760833 ≤ y ∧ y ≤ 16760833)
    (fun x t hx hxt => by
      have := pr64s_spec x hx.1 hx.2
      exact ⟨pr64s x, to_mont_coeff_eq m x hx.1 hx.2, ⟨by omega, by omega⟩, (show cg (pr64s x) (x * 4294967296) from this.1).trans (hxt.mul_right _)⟩)
    a _ ca (fun x hx => by have := ba x hx; omega)
  have lb : b.length = 256 := by rw [mapM_len _ _ _ hb]; exact la
  obtain ⟨c, hc, bc, cc⟩ := mapM_sem (mont_reduce m) (fun x => x * RINV) (fun x => -16760833 ≤ x ∧ x ≤ 16760833)
    (fun y => -2143289343 ≤ y ∧ y ≤ 2143289343)
    (fun x t hx hxt => by
      have := montv_spec x (by omega) (by omega)
      exact ⟨montv x, mont_reduce_eq m x (by omega) (by omega), ⟨by omega, by omega⟩, (montv_cg x (by omega) (by omega)).trans (hxt.mul_right _)⟩)
    b _ cb bb
  -- c ≅ nttS s
  have hcs : CongL c (nttS 8 1 s) := by
    refine cc.trans ⟨by simp, fun i h1 h2 => ?_⟩
    rw [List.getElem_map, List.getElem_map]
    have : cg (4294967296 * 8265825) 1 := by unfold cg; decide
    have := this.mul_left ((nttS 8 1 s)[i])
    rw [Int.mul_one] at this
    unfold RINV
    refine (cg.of_eq ?_).trans this
    grind
  obtain ⟨d, hd, bd, cd⟩ := invNttPoly_of_nttS m c s hl hcs bc
  have ld := invNttPoly_len m c d (by rw [mapM_len _ _ _ hc]; exact lb) hd
  have ht : Int.tdiv Q 2 = 4190208 := by decide
  obtain ⟨e, he, le, re⟩ := mapM_rel (fun x => if x > Int.tdiv Q 2 then arith .i32 m "lib.rs:into_bytes:x-Q" (x - Q) else pure x)
    (fun x y => y = if x > 4190208 then x - 8380417 else x) d
    (fun x hx => by
      have := bd x hx
      rw [ht]
      by_cases hg : x > 4190208
      · rw [if_pos hg, if_pos hg]; simp only [Q]; exact ⟨_, arith_i32 _ _ _ (by omega) (by omega), rfl⟩
      · rw [if_neg hg, if_neg hg, pure_eq]; exact ⟨_, rfl, rfl⟩)
  have hes : e = s := by
    apply List.ext_getElem (by rw [le, ld, hl])
    intro i h1 h2
    have r := re i (by rw [← le]; exact h1) h1
    rw [r]
    have hdi := bd (d[i]'(by rw [← le]; exact h1)) (List.getElem_mem _)
    have hcg : cg (d[i]'(by rw [← le]; exact h1)) s[i] := cd.2 i (by rw [← le]; exact h1) h2
    have hsi := hs s[i] (List.getElem_mem _)
    unfold cg at hcg
    split <;> omega
  rw [hes] at he
  exact ⟨a, b, c, d, ha, hb, bb, lb, hc, hd, he⟩

/-- **`unMontCentered (nttMont s) = s`**: the NTT-domain form stored in a private key determines the vector exactly -/
theorem unMont_nttMont (m : Mode) (s : List Poly) (hs : ∀ q ∈ s, q.length = 256 ∧ Bnd 524288 q) :
    ∃ h, nttMont m s = .ok h ∧ unMontCentered m h = .ok s := by
  -- stage 1: ntt
  obtain ⟨a, ha, la, ra⟩ := mapM_rel (nttPoly m) (fun p a => ∃ b c d, nttPoly m p = .ok a ∧ a.mapM (to_mont_coeff m) = .ok b ∧ Bnd 16760833 b ∧ b.length = 256 ∧
      b.mapM (mont_reduce m) = .ok c ∧ invNttPoly m c = .ok d ∧
      d.mapM (fun x => if x > Int.tdiv Q 2 then arith .i32 m "lib.rs:into_bytes:x-Q" (x - Q) else pure x) = .ok p) s
    (fun p hp => by
      obtain ⟨a, b, c, d, h1, h2, h3, h4, h5, h6, h7⟩ := poly_round m p (hs p hp).1 (hs p hp).2
      exact ⟨a, h1, b, c, d, h1, h2, h3, h4, h5, h6, h7⟩)
  -- stage 2: to_mont
  obtain ⟨b, hb, lb, rb⟩ := mapM_rel (fun p : Poly => p.mapM (to_mont_coeff m)) (fun a b => a.mapM (to_mont_coeff m) = .ok b) a
    (fun x hx => by
      obtain ⟨i, hi, rfl⟩ := List.mem_iff_getElem.mp hx
      obtain ⟨b, c, d, _, h2, _⟩ := ra i (by rw [← la]; exact hi) hi
      exact ⟨b, h2, h2⟩)
  have hnm : nttMont m s = .ok b := by unfold nttMont ntt toMont; rw [ha, ok_bind]; exact hb
  refine ⟨b, hnm, ?_⟩
  -- per index: the poly_round witnesses, with b[i] identified
  have key : ∀ i (hi : i < s.length), ∃ c d, (b[i]'(by rw [lb, la]; exact hi)).mapM (mont_reduce m) = .ok c ∧ invNttPoly m c = .ok d ∧
      d.mapM (fun x => if x > Int.tdiv Q 2 then arith .i32 m "lib.rs:into_bytes:x-Q" (x - Q) else pure x) = .ok s[i] := by
    intro i hi
    obtain ⟨b', c, d, _, h2, _, _, h5, h6, h7⟩ := ra i hi (by rw [la]; exact hi)
    have hbi := rb i (by rw [la]; exact hi) (by rw [lb, la]; exact hi)
    rw [h2] at hbi
    have : b' = b[i]'(by rw [lb, la]; exact hi) := ok_inj hbi
    subst this
    exact ⟨c, d, h5, h6, h7⟩
  -- stage 3: mont_reduce
  obtain ⟨c, hc, lc, rc⟩ := mapM_rel (fun p : Poly => p.mapM (mont_reduce m)) (fun b c => b.mapM (mont_reduce m) = .ok c) b
    (fun x hx => by
      obtain ⟨i, hi, rfl⟩ := List.mem_iff_getElem.mp hx
      obtain ⟨c, d, h5, _⟩ := key i (by rw [← la, ← lb]; exact hi)
      exact ⟨c, h5, h5⟩)
  -- stage 4: inverse transform
  obtain ⟨d, hd, ld, rd⟩ := mapM_rel (invNttPoly m) (fun c d => invNttPoly m c = .ok d) c
    (fun x hx => by
      obtain ⟨i, hi, rfl⟩ := List.mem_iff_getElem.mp hx
      have hi' : i < s.length := by rw [← la, ← lb, ← lc]; exact hi
      obtain ⟨c', d', h5, h6, _⟩ := key i hi'
      have := rc i (by rw [lb, la]; exact hi') hi
      rw [h5] at this
      have e : c' = c[i] := ok_inj this
      subst e
      exact ⟨d', h6, h6⟩)
  -- stage 5: re-centre
  obtain ⟨e, he, le, re⟩ := mapM_rel (fun p : Poly => p.mapM (fun x => if x > Int.tdiv Q 2 then arith .i32 m "lib.rs:into_bytes:x-Q" (x - Q) else pure x))
    (fun d e => d.mapM (fun x => if x > Int.tdiv Q 2 then arith .i32 m "lib.rs:into_bytes:x-Q" (x - Q) else pure x) = .ok e) d
    (fun x hx => by
      obtain ⟨i, hi, rfl⟩ := List.mem_iff_getElem.mp hx
      have hi' : i < s.length := by rw [← la, ← lb, ← lc, ← ld]; exact hi
      obtain ⟨c', d', h5, h6, h7⟩ := key i hi'
      have hci := rc i (by rw [lb, la]; exact hi') (by rw [lc, lb, la]; exact hi')
      rw [h5] at hci
      have e1 : c' = c[i]'(by rw [lc, lb, la]; exact hi') := ok_inj hci
      subst e1
      have hdi := rd i (by rw [lc, lb, la]; exact hi') hi
      rw [h6] at hdi
      have e2 : d' = d[i] := ok_inj hdi
      subst e2
      exact ⟨s[i], h7, h7⟩)
  have hes : e = s := by
    apply List.ext_getElem (by rw [le, ld, lc, lb, la])
    intro i h1 h2
    obtain ⟨c', d', h5, h6, h7⟩ := key i h2
    have hci := rc i (by rw [lb, la]; exact h2) (by rw [lc, lb, la]; exact h2)
    rw [h5] at hci
    have e1 : c' = c[i]'(by rw [lc, lb, la]; exact h2) := ok_inj hci
    subst e1
    have hdi := rd i (by rw [lc, lb, la]; exact h2) (by rw [ld, lc, lb, la]; exact h2)
    rw [h6] at hdi
    have e2 : d' = d[i]'(by rw [ld, lc, lb, la]; exact h2) := ok_inj hdi
    subst e2
    have hei := re i (by rw [ld, lc, lb, la]; exact h2) h1
    rw [h7] at hei
    exact (ok_inj hei).symm
  unfold unMontCentered invNtt
  rw [hc, ok_bind, hd, ok_bind, he, hes]

end Fips204.Impl
