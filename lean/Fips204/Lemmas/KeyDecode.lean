import Fips204.Lemmas.Unpack
import Fips204.Lemmas.Pipeline
/-!
  Every byte string of public-key length deserialises: `pk_decode` cannot reject (10-bit fields always fit
  [0, 1023]) and the verifier precompute `to_mont(mont_reduce(to_mont(ntt(t1)) << 13))` cannot overflow.
-/
namespace Fips204.Impl
open Fips204 Fips204.Gen Fips204.K

theorem of_toOption {α} (x : M α) (v : α) (h : x.toOption = some v) : x = .ok v := by
  cases x with
  | error e => simp [Except.toOption] at h
  | ok w => simp [Except.toOption] at h; subst h; rfl

theorem bitLen_1023 (m : Mode) : bitLen m (0 + 1023) = .ok 10 :=
  of_toOption _ _ (by cases m <;> decide +kernel)

theorem slice_ok {α} (site : String) (l : List α) (a b : Nat) (h : a ≤ b ∧ b ≤ l.length) :
    slice site l a b = .ok ((l.drop a).take (b - a)) := by
  unfold slice; rw [if_pos h]; rfl

theorem mem_slice {α} (l : List α) (a n : Nat) (x : α) (h : x ∈ (l.drop a).take n) : x ∈ l :=
  List.mem_of_mem_drop (List.mem_of_mem_take h)

/-- `simple_bit_unpack(., 1023)` accepts every 320-byte string -/
theorem simpleBitUnpack_1023_total (m : Mode) (v : List Nat) (hv : ∀ x ∈ v, x < 256) (hlen : v.length = 320) :
    ∃ w : List Int, simpleBitUnpack m v 1023 = .ok (some w) ∧ w.length = 256 ∧ ∀ c ∈ w, 0 ≤ c ∧ c ≤ 1023 := by
  obtain ⟨w, hw, hl, hr⟩ := bitUnpack_total m v 0 1023 10 (by omega) (by omega) (bitLen_1023 m) (by omega) (by decide) hv (by omega)
  refine ⟨w, ?_, hl, fun c hc => by have := hr c hc; omega⟩
  unfold simpleBitUnpack
  have d1 : dassert m "conversion.rs:simple_bit_unpack:debug_assert(Alg 18: b out of range)" (decide ((1:Int) ≤ 1023) && decide ((1023:Int) < 1048576)) = .ok () := by
    cases m <;> rfl
  have hb : bitLen m 1023 = .ok 10 := bitLen_1023 m
  have d2 : dassertM m "conversion.rs:simple_bit_unpack:debug_assert_eq(Alg 18: bad output size)" (do
      let bl ← bitLen m 1023
      pure (v.length == 32 * bl)) = .ok () := by
    rw [hb]; simp only [ok_bind, pure_eq, hlen]
    exact dassertM_true m _
  simp only [d1, d2, ok_bind]
  exact hw

/-- the loop of `pk_decode` over the k packed polynomials -/
theorem pkDecode_go_total (m : Mode) (pk : List Nat) (hb : ∀ x ∈ pk, x < 256) :
    ∀ (is : List Nat) (acc : List Poly), (∀ i ∈ is, 32 + 32 * (i + 1) * blqd ≤ pk.length) →
      (∀ q ∈ acc, q.length = 256 ∧ ∀ c ∈ q, 0 ≤ c ∧ c ≤ 1023) →
      ∃ t1, pkDecode.go m pk is acc = .ok (some t1) ∧ t1.length = acc.length + is.length ∧
        ∀ q ∈ t1, q.length = 256 ∧ ∀ c ∈ q, 0 ≤ c ∧ c ≤ 1023 := by
  have hq : blqd = 10 := by decide
  intro is
  induction is with
  | nil => intro acc _ hacc; exact ⟨acc.reverse, by simp [pkDecode.go, pure, Except.pure], by simp, fun q hq => hacc q (List.mem_reverse.mp hq)⟩
  | cons i is ih =>
    intro acc hlen hacc
    have hi := hlen i (List.mem_cons_self ..)
    rw [hq] at hi
    have hs := slice_ok "encodings.rs:pk_decode:pk[..]" pk (32 + 32 * i * 10) (32 + 32 * (i + 1) * 10) (by constructor <;> omega)
    have hsl : ((pk.drop (32 + 32 * i * 10)).take (32 + 32 * (i + 1) * 10 - (32 + 32 * i * 10))).length = 320 := by
      rw [List.length_take, List.length_drop]; omega
    obtain ⟨w, hw, hwl, hwr⟩ := simpleBitUnpack_1023_total m _ (fun x hx => hb x (mem_slice _ _ _ _ hx)) hsl
    obtain ⟨t1, ht1, hl1, hr1⟩ := ih (w :: acc) (fun j hj => hlen j (List.mem_cons_of_mem _ hj))
      (fun q hq' => by rcases List.mem_cons.mp hq' with rfl | h; exact ⟨hwl, hwr⟩; exact hacc q h)
    refine ⟨t1, ?_, by simp only [List.length_cons] at hl1 ⊢; omega, hr1⟩
    simp only [pkDecode.go, hq, hs, ok_bind, show ((2:Int) ^ 10 - 1) = 1023 by decide, hw]
    exact ht1

end Fips204.Impl

namespace Fips204.Impl
open Fips204 Fips204.Gen Fips204.K

theorem isInRange_true (m : Mode) (w : Poly) (lo hi : Int) (hlo : -2147483647 ≤ lo ∧ lo ≤ 2147483648)
    (h : ∀ c ∈ w, -lo ≤ c ∧ c ≤ hi) : isInRange m w lo hi = .ok true := by
  unfold isInRange
  rw [arith_i32 _ _ _ (by omega) (by omega)]
  have hall : (w.all fun e => decide (e ≥ -lo) && decide (e ≤ hi)) = true := by
    rw [List.all_eq_true]; intro c hc; have := h c hc; simp [this.1, this.2]
  simp only [ok_bind, pure_eq, hall]

/-- `pk_decode` accepts every byte string of public-key length -/
theorem pkDecode_total (m : Mode) (p : ParamSet) (pk : List Nat) (hb : ∀ x ∈ pk, x < 256)
    (hlen : pk.length = 32 + 32 * p.k * blqd) (hcfg : p.pkLen = 32 + 32 * p.k * blqd) :
    ∃ d : PkParts, pkDecode m p pk = .ok (some d) ∧ d.rho = pk.take 32 ∧ d.t1.length = p.k ∧
      ∀ q ∈ d.t1, q.length = 256 ∧ ∀ c ∈ q, 0 ≤ c ∧ c ≤ 1023 := by
  have hq : blqd = 10 := by decide
  obtain ⟨t1, hgo, hl, hr⟩ := pkDecode_go_total m pk hb (List.range p.k) []
    (fun i hi => by
      have : i < p.k := List.mem_range.mp hi
      rw [hlen]
      have : 32 * (i + 1) * blqd ≤ 32 * p.k * blqd := Nat.mul_le_mul_right _ (Nat.mul_le_mul_left _ (by omega))
      omega) (by simp)
  refine ⟨⟨pk.take 32, t1⟩, ?_, rfl, by simpa using hl, hr⟩
  unfold pkDecode
  have d1 : dassert m "encodings.rs:pk_decode:debug_assert_eq(Alg 23: incorrect pk length)" (pk.length == 32 + 32 * p.k * blqd) = .ok () := by
    have : (pk.length == 32 + 32 * p.k * blqd) = true := by simp [hlen]
    rw [this]; cases m <;> rfl
  have d2 : dassert m "encodings.rs:pk_decode:debug_assert_eq(Alg 23: bad pk/config size)" (p.pkLen == 32 + 32 * p.k * blqd) = .ok () := by
    have : (p.pkLen == 32 + 32 * p.k * blqd) = true := by simp [hcfg]
    rw [this]; cases m <;> rfl
  have hs := slice_ok "encodings.rs:pk_decode:pk[0..32]" pk 0 32 (by omega)
  have hrange : (t1.mapM (fun t => isInRange m t 0 (2 ^ blqd - 1))) = .ok (t1.map (fun _ => true)) := by
    clear hgo hl
    induction t1 with
    | nil => rfl
    | cons q qs ih =>
      have h1 := isInRange_true m q 0 (2 ^ blqd - 1) (by omega) (fun c hc => by
        have := (hr q (List.mem_cons_self ..)).2 c hc
        rw [hq]; simp only [show ((2:Int) ^ 10 - 1) = 1023 by decide]; omega)
      rw [List.mapM_cons, h1, ih (fun q' hq' => hr q' (List.mem_cons_of_mem _ hq'))]; rfl
  have d3 : dassertM m "encodings.rs:pk_decode:debug_assert(Alg 23: t1 out of range)" (do
      let bs ← t1.mapM (fun t => isInRange m t 0 (2 ^ blqd - 1))
      pure (bs.all id)) = .ok () := by
    rw [hrange]
    simp only [ok_bind, pure_eq]
    have : ((t1.map fun _ => true).all id) = true := by simp
    rw [this]; exact dassertM_true m _
  simp only [d1, d2, ok_bind, hs, hgo, d3, List.drop_zero, Nat.sub_zero]
  simp only [pure_eq]

end Fips204.Impl

namespace Fips204.Impl
open Fips204 Fips204.Gen Fips204.K

/-- the verifier precompute on any t1 with coefficients in [0, 1023] -/
theorem precomputeT1_ok (m : Mode) (t1 : List Poly) (h : ∀ q ∈ t1, ∀ c ∈ q, 0 ≤ c ∧ c ≤ 1023) :
    ∃ r, precomputeT1 m t1 = .ok r ∧ ∀ w ∈ r, Bnd 16760833 w := by
  obtain ⟨a, ha, ba⟩ := ntt_ok m t1 (fun q hq c hc => by have := h q hq c hc; omega)
  obtain ⟨b, hb, bb⟩ := toMont_ok m a (fun w hw => (ba w hw).mono (by omega))
  obtain ⟨c, hc, bc⟩ := mapM_ok (fun p : Poly => p.mapM (fun x => mont_reduce m (IT.i64.wrap (x * 2 ^ D.toNat))))
    (Bnd 16760833) (Bnd 67000000)
    (fun p hp => mapM_ok (fun x => mont_reduce m (IT.i64.wrap (x * 2 ^ D.toNat))) (fun x => -16760833 ≤ x ∧ x ≤ 16760833)
      (fun y => -67000000 ≤ y ∧ y ≤ 67000000)
      (fun x hx => by
        have e : (2:Int) ^ D.toNat = 8192 := by decide
        have hw := wrap64_id (x * 8192) (by omega) (by omega)
        have hm := montv_spec (x * 8192) (by omega) (by omega)
        refine ⟨montv (x * 8192), ?_, by omega, by omega⟩
        rw [e, hw]; exact mont_reduce_eq m _ (by omega) (by omega)) p hp) b bb
  obtain ⟨d, hd, bd⟩ := toMont_ok m c bc
  exact ⟨d, by simp only [precomputeT1, nttMont, ha, hb, hc, hd, ok_bind], bd⟩

/-- **every byte string of public-key length deserialises** (no rejection, no fault, in either build mode): for the three
    parameter sets `PK_LEN = 32 + 320 k`, so any `pkb` of that length with byte entries yields a public key struct -/
theorem expandPublic_total (m : Mode) (O : Oracles) (p : ParamSet) (pkb : List Nat) (hb : ∀ x ∈ pkb, x < 256)
    (hlen : pkb.length = 32 + 32 * p.k * blqd) (hcfg : p.pkLen = 32 + 32 * p.k * blqd) :
    ∃ pk : PublicKey, expandPublic m O p pkb = .ok (some pk) ∧ pk.rho = pkb.take 32 ∧ pk.tr = O.h pkb 64 ∧
      ∀ w ∈ pk.t1d2, ∀ x ∈ w, -16760833 ≤ x ∧ x ≤ 16760833 := by
  obtain ⟨d, hd, hrho, _, ht⟩ := pkDecode_total m p pkb hb hlen hcfg
  obtain ⟨r, hr, br⟩ := precomputeT1_ok m d.t1 (fun q hq => (ht q hq).2)
  exact ⟨⟨d.rho, O.h pkb 64, r⟩, by simp only [expandPublic, hd, ok_bind, hr, pure_eq], hrho, rfl, br⟩

theorem pk_config_ok : ∀ p ∈ [ml_dsa_44, ml_dsa_65, ml_dsa_87], p.pkLen = 32 + 32 * p.k * blqd := by decide

end Fips204.Impl

namespace Fips204.Impl
open Fips204 Fips204.Gen Fips204.K

/-- `unpackMany` (the loops of skDecode / sigDecode) never faults on byte strings that are long enough -/
theorem unpackMany_no_fault (m : Mode) (site : String) (bytes : List Nat) (hb : ∀ x ∈ bytes, x < 256) (start : Nat) (a b : Int) (bl : Nat)
    (ha : 0 ≤ a ∧ a < 1048576) (hbb : 1 ≤ b ∧ b < 1048576) (hbl : bitLen m (a + b) = .ok bl) (hbl2 : 1 ≤ bl ∧ bl ≤ 20) :
    ∀ (is : List Nat) (acc : List Poly), (∀ i ∈ is, start + (i + 1) * (32 * bl) ≤ bytes.length) →
      ∃ r, unpackMany m site bytes start (32 * bl) a b is acc = .ok r := by
  intro is
  induction is with
  | nil => intro acc _; exact ⟨some acc.reverse, by simp [unpackMany, pure, Except.pure]⟩
  | cons i is ih =>
    intro acc hlen
    have hi := hlen i (List.mem_cons_self ..)
    have e1 : start + (i + 1) * (32 * bl) = start + i * (32 * bl) + 32 * bl := by rw [Nat.add_mul, Nat.one_mul]; omega
    have hs := slice_ok site bytes (start + i * (32 * bl)) (start + (i + 1) * (32 * bl)) (by constructor <;> omega)
    have hsl : ((bytes.drop (start + i * (32 * bl))).take (start + (i + 1) * (32 * bl) - (start + i * (32 * bl)))).length = 32 * bl := by
      rw [List.length_take, List.length_drop]; omega
    obtain ⟨r, hr⟩ := bitUnpack_no_fault m _ a b bl ha hbb hbl hbl2 (fun x hx => hb x (mem_slice _ _ _ _ hx)) hsl
    simp only [unpackMany, hs, ok_bind, hr]
    cases r with
    | none => exact ⟨none, by simp [pure_eq]⟩
    | some t => exact ih (t :: acc) (fun j hj => hlen j (List.mem_cons_of_mem _ hj))

end Fips204.Impl

namespace Fips204.Impl
open Fips204 Fips204.Gen Fips204.K

theorem bitLen_eta (m : Mode) (eta : Int) (h : eta = 2 ∨ eta = 4) : ∃ bl, bitLen m (2 * eta) = .ok bl ∧ bitLen m (eta + eta) = .ok bl ∧ 1 ≤ bl ∧ bl ≤ 20 := by
  rcases h with rfl | rfl
  · exact ⟨3, of_toOption _ _ (by cases m <;> decide +kernel), of_toOption _ _ (by cases m <;> decide +kernel), by omega, by omega⟩
  · exact ⟨4, of_toOption _ _ (by cases m <;> decide +kernel), of_toOption _ _ (by cases m <;> decide +kernel), by omega, by omega⟩

theorem bitLen_t0 (m : Mode) : bitLen m (top - 1 + top) = .ok 13 := of_toOption _ _ (by cases m <;> decide +kernel)

/-- **private-key deserialisation never faults**: for the three parameter sets and every byte string of private-key
    length, `sk_decode` returns a value (`some` parts or `none` = Err), in both build modes -/
theorem skDecode_no_fault (m : Mode) (p : ParamSet) (skb : List Nat) (hb : ∀ x ∈ skb, x < 256)
    (he : p.eta = 2 ∨ p.eta = 4) (bl : Nat) (hbl : bitLen m (2 * p.eta) = .ok bl)
    (hlen : skb.length = 128 + 32 * ((p.k + p.l) * bl + D.toNat * p.k)) (hcfg : p.skLen = skb.length) :
    ∃ r, skDecode m p skb = .ok r := by
  obtain ⟨bl', h1, h2, h3, h4⟩ := bitLen_eta m p.eta he
  rw [hbl] at h1
  simp only [Except.ok.injEq] at h1
  subst h1
  have hD : D.toNat = 13 := by decide
  rw [hD] at hlen
  have eta0 : 0 ≤ p.eta ∧ p.eta < 1048576 := by rcases he with h | h <;> omega
  have eta1 : 1 ≤ p.eta ∧ p.eta < 1048576 := by rcases he with h | h <;> omega
  unfold skDecode
  have d1 : dassert m "encodings.rs:sk_decode:debug_assert(Alg 25: incorrect eta)" (decide (p.eta = 2) || decide (p.eta = 4)) = .ok () := by
    have : (decide (p.eta = 2) || decide (p.eta = 4)) = true := by rcases he with h | h <;> simp [h]
    rw [this]; cases m <;> rfl
  have d2 : dassert m "encodings.rs:sk_decode:debug_assert_eq(Alg 25: bad sk/config size)"
      (p.skLen == 128 + 32 * ((p.k + p.l) * bl + D.toNat * p.k)) = .ok () := by
    have : (p.skLen == 128 + 32 * ((p.k + p.l) * bl + D.toNat * p.k)) = true := by rw [hD]; simp [hcfg, hlen]
    rw [this]; cases m <;> rfl
  have s1 := slice_ok "encodings.rs:sk_decode:sk[0..32]" skb 0 32 (by omega)
  have s2 := slice_ok "encodings.rs:sk_decode:sk[32..64]" skb 32 64 (by omega)
  have s3 := slice_ok "encodings.rs:sk_decode:sk[64..128]" skb 64 128 (by omega)
  have hexp : (p.k + p.l) * bl = p.l * bl + p.k * bl := by rw [Nat.add_mul]; omega
  obtain ⟨r1, hr1⟩ := unpackMany_no_fault m "encodings.rs:sk_decode:s1" skb hb 128 p.eta p.eta bl eta0 eta1 h2 ⟨h3, h4⟩ (List.range p.l) []
    (fun i hi => by
      have : i < p.l := List.mem_range.mp hi
      have : (i + 1) * (32 * bl) ≤ p.l * (32 * bl) := Nat.mul_le_mul_right _ (by omega)
      have e : p.l * (32 * bl) = 32 * (p.l * bl) := by rw [Nat.mul_left_comm]
      rw [hlen, hexp]; omega)
  obtain ⟨r2, hr2⟩ := unpackMany_no_fault m "encodings.rs:sk_decode:s2" skb hb (128 + p.l * (32 * bl)) p.eta p.eta bl eta0 eta1 h2 ⟨h3, h4⟩ (List.range p.k) []
    (fun i hi => by
      have : i < p.k := List.mem_range.mp hi
      have : (i + 1) * (32 * bl) ≤ p.k * (32 * bl) := Nat.mul_le_mul_right _ (by omega)
      have e : p.l * (32 * bl) = 32 * (p.l * bl) := by rw [Nat.mul_left_comm]
      have e2 : p.k * (32 * bl) = 32 * (p.k * bl) := by rw [Nat.mul_left_comm]
      rw [hlen, hexp]; omega)
  obtain ⟨r3, hr3⟩ := unpackMany_no_fault m "encodings.rs:sk_decode:t0" skb hb (128 + p.l * (32 * bl) + p.k * (32 * bl)) (top - 1) top 13
    (by decide) (by decide) (bitLen_t0 m) (by omega) (List.range p.k) []
    (fun i hi => by
      have : i < p.k := List.mem_range.mp hi
      have : (i + 1) * (32 * 13) ≤ p.k * (32 * 13) := Nat.mul_le_mul_right _ (by omega)
      have e : p.l * (32 * bl) = 32 * (p.l * bl) := by rw [Nat.mul_left_comm]
      have e2 : p.k * (32 * bl) = 32 * (p.k * bl) := by rw [Nat.mul_left_comm]
      rw [hlen, hexp]; omega)
  simp only [d1, hbl, d2, s1, s2, s3, ok_bind, hr1]
  cases r1 with
  | none => exact ⟨none, by simp [pure_eq]⟩
  | some v1 =>
    simp only [hr2, ok_bind]
    cases r2 with
    | none => exact ⟨none, by simp [pure_eq]⟩
    | some v2 =>
      simp only [hD, hr3, ok_bind]
      cases r3 with
      | none => exact ⟨none, by simp [pure_eq]⟩
      | some v3 =>
        have d3 : dassert m "encodings.rs:sk_decode:debug_assert_eq(Alg 25: length miscalc)"
            (128 + p.l * (32 * bl) + p.k * (32 * bl) + p.k * (32 * 13) == skb.length) = .ok () := by
          have e : p.l * (32 * bl) = 32 * (p.l * bl) := by rw [Nat.mul_left_comm]
          have e2 : p.k * (32 * bl) = 32 * (p.k * bl) := by rw [Nat.mul_left_comm]
          have : (128 + p.l * (32 * bl) + p.k * (32 * bl) + p.k * (32 * 13) == skb.length) = true := by
            rw [hlen, hexp]; simp; omega
          rw [this]; cases m <;> rfl
        refine ⟨some ⟨List.take (32 - 0) (List.drop 0 skb), List.take (64 - 32) (List.drop 32 skb), List.take (128 - 64) (List.drop 64 skb), v1, v2, v3⟩, ?_⟩
        simp only [d3, ok_bind, pure_eq]

end Fips204.Impl
