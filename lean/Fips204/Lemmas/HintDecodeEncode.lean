import Fips204.Lemmas.HintRoundTrip
import Fips204.Lemmas.SignOk
/-! `hint_bit_unpack ∘ hint_bit_pack = id` on every well-formed hint (0/1 coefficients, at most omega ones):
    the decoder accepts what the encoder writes and returns the hint that was encoded.  Proved by running the decoder on the
    explicit byte string (index segments, zero padding, running counts) and using `hint_bit_pack ∘ hint_bit_unpack = id`. -/
namespace Fips204.Impl
open Fips204 Fips204.Gen Fips204.K

/-- positions of the non-zero coefficients, in increasing order -/
def nzI (p : Poly) : List Nat := nzIdx (List.zip (List.range 256) p)

theorem nzIdx_range' : ∀ (p : Poly) (s : Nat),
    (∀ c ∈ nzIdx (List.zip (List.range' s p.length) p), s ≤ c ∧ c < s + p.length) ∧
    List.Pairwise (· < ·) (nzIdx (List.zip (List.range' s p.length) p)) ∧
    (∀ j (h : j < p.length), s + j ∈ nzIdx (List.zip (List.range' s p.length) p) ↔ p[j] ≠ 0) ∧
    (nzIdx (List.zip (List.range' s p.length) p)).length = (p.filter (fun e => decide (e ≠ 0))).length := by
  intro p
  induction p with
  | nil => intro s; simp [nzIdx]
  | cons e p ih =>
    intro s
    obtain ⟨a, b, c, d⟩ := ih (s + 1)
    have hz : List.zip (List.range' s (e :: p).length) (e :: p) = (s, e) :: List.zip (List.range' (s + 1) p.length) p := by
      rw [List.length_cons, List.range'_succ, List.zip_cons_cons]
    rw [hz, nzIdx_cons]
    by_cases he : e = 0
    · rw [if_neg (by simpa using he)]
      refine ⟨fun x hx => by have := a x hx; rw [List.length_cons]; omega, b, ?_, ?_⟩
      · intro j hj
        cases j with
        | zero =>
          simp only [List.getElem_cons_zero, Nat.add_zero]
          constructor
          · intro hm; have := a s hm; omega
          · intro h; exact absurd he h
        | succ j =>
          have := c j (by simpa using hj)
          rw [List.getElem_cons_succ, ← this]
          have e2 : s + (j + 1) = s + 1 + j := by omega
          rw [e2]
      · rw [d, List.filter_cons, if_neg (by simpa using he)]
    · rw [if_pos he]
      refine ⟨fun x hx => ?_, ?_, ?_, ?_⟩
      · rcases List.mem_cons.mp hx with rfl | hx
        · rw [List.length_cons]; omega
        · have := a x hx; rw [List.length_cons]; omega
      · exact List.pairwise_cons.mpr ⟨fun x hx => by have := a x hx; omega, b⟩
      · intro j hj
        cases j with
        | zero =>
          simp only [List.getElem_cons_zero, Nat.add_zero, List.mem_cons, true_or, true_iff]
          exact he
        | succ j =>
          have := c j (by simpa using hj)
          rw [List.getElem_cons_succ, ← this]
          have e2 : s + (j + 1) = s + 1 + j := by omega
          rw [e2, List.mem_cons]
          constructor
          · rintro (h | h)
            · omega
            · exact h
          · intro h; exact Or.inr h
      · rw [List.length_cons, d, List.filter_cons, if_pos (by simpa using he), List.length_cons]

theorem nzI_facts (p : Poly) (hp : p.length = 256) :
    (∀ c ∈ nzI p, c < 256) ∧ List.Pairwise (· < ·) (nzI p) ∧ (∀ j (h : j < p.length), j ∈ nzI p ↔ p[j] ≠ 0) ∧
    (nzI p).length = (p.filter (fun e => decide (e ≠ 0))).length := by
  obtain ⟨a, b, c, d⟩ := nzIdx_range' p 0
  have e : List.range 256 = List.range' 0 p.length := by rw [hp, List.range_eq_range']
  unfold nzI
  rw [e]
  refine ⟨fun x hx => by have := a x hx; omega, b, fun j hj => ?_, d⟩
  have := c j hj
  rw [Nat.zero_add] at this
  exact this

theorem nzI_len_ones (p : Poly) (hp : Bin p) : (nzI p).length = ones p := by
  rw [(nzI_facts p hp.1).2.2.2]
  unfold ones
  congr 1
  apply List.filter_congr
  intro x hx
  rcases hp.2 x hx with h | h <;> simp [h]

theorem setOnes_nzI (p : Poly) (hp : Bin p) : setOnes (nzI p) zeroPoly = p := by
  obtain ⟨_, _, c, _⟩ := nzI_facts p hp.1
  have lz : zeroPoly.length = 256 := by unfold zeroPoly; rw [List.length_replicate]
  apply List.ext_getElem?
  intro j
  by_cases hj : j < 256
  · rw [setOnes_get _ _ j (by rw [lz]; exact hj), zeroPoly_get j hj]
    have hjp : j < p.length := by rw [hp.1]; exact hj
    rw [List.getElem?_eq_getElem hjp]
    by_cases hm : j ∈ nzI p
    · rw [if_pos hm]
      have := (c j hjp).mp hm
      rcases hp.2 _ (List.getElem_mem hjp) with h | h
      · exact absurd h this
      · rw [h]
    · rw [if_neg hm]
      have : p[j] = 0 := by
        by_cases h0 : p[j] = 0
        · exact h0
        · exact absurd ((c j hjp).mpr h0) hm
      rw [this]
  · rw [List.getElem?_eq_none (by rw [setOnes_length, lz]; omega), List.getElem?_eq_none (by rw [hp.1]; omega)]

theorem idx_some {α} (site : String) (l : List α) (i : Nat) (x : α) (h : l[i]? = some x) : idx site l i = .ok x := by
  unfold idx; rw [h]; rfl

/-- the decoder's inner loop on a strictly increasing in-range segment: accepts, and sets exactly those positions -/
theorem hintInner_succ (y : List Nat) (first : Nat) (seg : List Nat) (hseg : ∀ d (hd : d < seg.length), y[first + d]? = some seg[d])
    (hinc : List.Pairwise (· < ·) seg) (hb : ∀ c ∈ seg, c < 256) :
    ∀ (fuel n : Nat) (hp : Poly), n ≤ seg.length → seg.length - n ≤ fuel → hp.length = 256 →
      hintInner y first (first + seg.length) fuel (first + n) hp = .ok (some (first + seg.length, setOnes (seg.drop n) hp)) := by
  intro fuel
  induction fuel with
  | zero =>
    intro n hp h1 h2 _
    have : n = seg.length := by omega
    subst this
    unfold hintInner
    rw [List.drop_length]; rfl
  | succ fuel ih =>
    intro n hp h1 h2 hl
    unfold hintInner
    by_cases hn : n < seg.length
    · rw [if_pos (by omega), idx_some _ y (first + n) seg[n] (hseg n hn), ok_bind]
      have hcur : seg[n] < hp.length := by rw [hl]; exact hb _ (List.getElem_mem hn)
      have hdrop : seg.drop n = seg[n] :: seg.drop (n + 1) := List.drop_eq_getElem_cons hn
      have hrec := ih (n + 1) (hp.set seg[n] 1) (by omega) (by omega) (by rw [List.length_set]; exact hl)
      have hset : setOnes (seg.drop n) hp = setOnes (seg.drop (n + 1)) (hp.set seg[n] 1) := by
        rw [hdrop]; rfl
      rw [hset]
      by_cases h0 : first + n > first
      · rw [if_pos h0]
        have hn1 : n - 1 < seg.length := by omega
        have hprev : y[first + n - 1]? = some seg[n - 1] := by
          have := hseg (n - 1) hn1
          have e : first + (n - 1) = first + n - 1 := by omega
          rw [e] at this; exact this
        rw [idx_some _ y (first + n - 1) seg[n - 1] hprev, ok_bind]
        have hlt : seg[n - 1] < seg[n] := (List.pairwise_iff_getElem.mp hinc) (n - 1) n hn1 hn (by omega)
        rw [if_neg (by omega), if_pos hcur]
        exact hrec
      · rw [if_neg h0, if_pos hcur]
        exact hrec
    · have : n = seg.length := by omega
      subst this
      rw [if_neg (by omega), List.drop_length]; rfl

/-- running counts after each polynomial -/
def cumEnds : Nat → List Poly → List Nat
  | _, [] => []
  | index, p :: ps => (index + (nzI p).length) :: cumEnds (index + (nzI p).length) ps

theorem cumEnds_length : ∀ (ps : List Poly) (index : Nat), (cumEnds index ps).length = ps.length := by
  intro ps
  induction ps with
  | nil => intro _; rfl
  | cons p ps ih => intro index; simp [cumEnds, ih]

def segsOf (ps : List Poly) : List Nat := (ps.map nzI).flatten

theorem segsOf_cons (p : Poly) (ps : List Poly) : segsOf (p :: ps) = nzI p ++ segsOf ps := by
  unfold segsOf; rw [List.map_cons, List.flatten_cons]

theorem nzI_le (p : Poly) (hp : p.length = 256) : (nzI p).length ≤ 256 := by
  rw [(nzI_facts p hp).2.2.2]
  have := List.length_filter_le (fun e => decide (e ≠ 0)) p
  omega

/-- the decoder's outer loop on segments followed by their running counts -/
theorem hintOuter_succ (m : Mode) (y : List Nat) (om omB : Nat) :
    ∀ (ps : List Poly) (i index : Nat) (acc : List Poly), (∀ p ∈ ps, Bin p) → index + (segsOf ps).length ≤ omB →
      (∀ d (hd : d < (segsOf ps).length), y[index + d]? = some (segsOf ps)[d]) →
      (∀ j (hj : j < (cumEnds index ps).length), y[om + i + j]? = some (cumEnds index ps)[j]) →
      hintOuter m y om omB (List.range' i ps.length) index acc = .ok (some (index + (segsOf ps).length, acc.reverse ++ ps)) := by
  intro ps
  induction ps with
  | nil =>
    intro i index acc _ _ _ _
    simp [hintOuter, segsOf, pure_eq]
  | cons p ps ih =>
    intro i index acc hb hle hseg hends
    have hp := hb p (List.mem_cons_self ..)
    rw [List.length_cons, List.range'_succ]
    unfold hintOuter
    have h0 := hends 0 (by simp [cumEnds])
    simp only [cumEnds, List.getElem_cons_zero, Nat.add_zero] at h0
    rw [idx_some _ y (om + i) _ h0, ok_bind]
    rw [segsOf_cons, List.length_append] at hle
    rw [if_neg (by simp only [Bool.or_eq_true, decide_eq_true_eq]; omega)]
    obtain ⟨f1, f2, _, _⟩ := nzI_facts p hp.1
    have hin := hintInner_succ y index (nzI p)
      (fun d hd => by
        have := hseg d (by rw [segsOf_cons, List.length_append]; omega)
        rw [this]; congr 1
        simp only [segsOf_cons]
        rw [List.getElem_append_left hd])
      f2 f1 256 0 zeroPoly (by omega) (by have := nzI_le p hp.1; omega) (by unfold zeroPoly; rw [List.length_replicate])
    rw [Nat.add_zero, List.drop_zero, setOnes_nzI p hp] at hin
    rw [hin, ok_bind]
    simp only []
    have hrec := ih (i + 1) (index + (nzI p).length) (p :: acc) (fun q hq => hb q (List.mem_cons_of_mem _ hq)) (by omega)
      (fun d hd => by
        have := hseg ((nzI p).length + d) (by rw [segsOf_cons, List.length_append]; omega)
        have e : index + ((nzI p).length + d) = index + (nzI p).length + d := by omega
        rw [e] at this
        rw [this]; congr 1
        simp only [segsOf_cons]
        rw [List.getElem_append_right (by omega)]
        congr 1; omega)
      (fun j hj => by
        have := hends (j + 1) (by simp only [cumEnds, List.length_cons]; omega)
        have e : om + i + (j + 1) = om + (i + 1) + j := by omega
        rw [e] at this
        rw [this]; congr 1)
    have e1 : index + (nzI p).length + (segsOf ps).length = index + (segsOf (p :: ps)).length := by
      rw [segsOf_cons, List.length_append]; omega
    have e2 : (p :: acc).reverse ++ ps = acc.reverse ++ p :: ps := by simp
    rw [hrec, e1, e2]

theorem segs_len_onesAll : ∀ (h : List Poly), (∀ q ∈ h, Bin q) → (segsOf h).length = onesAll h := by
  intro h
  induction h with
  | nil => intro _; rfl
  | cons p ps ih =>
    intro hb
    rw [segsOf_cons, List.length_append, ih (fun q hq => hb q (List.mem_cons_of_mem _ hq)), nzI_len_ones p (hb p (List.mem_cons_self ..))]
    unfold onesAll
    rw [List.map_cons, List.foldl_cons, foldl_add_nat (ps.map ones) (0 + ones p)]
    omega

theorem cumEnds_le : ∀ (ps : List Poly) (index : Nat), ∀ x ∈ cumEnds index ps, x ≤ index + (segsOf ps).length := by
  intro ps
  induction ps with
  | nil => intro _ x hx; simp [cumEnds] at hx
  | cons p ps ih =>
    intro index x hx
    rw [segsOf_cons, List.length_append]
    simp only [cumEnds, List.mem_cons] at hx
    rcases hx with rfl | hx
    · omega
    · have := ih _ x hx; omega

/-- the byte string Algorithm 20 writes for `h` -/
def yOf (om : Nat) (h : List Poly) : List Nat := segsOf h ++ List.replicate (om - (segsOf h).length) 0 ++ cumEnds 0 h

/-- the decoder accepts the explicit encoding and returns the hint -/
theorem hintBitUnpack_yOf (m : Mode) (k : Nat) (omega : Int) (h : List Poly) (ho : 0 ≤ omega)
    (hk : 1 ≤ omega.toNat + k ∧ omega.toNat + k < 256) (hl : h.length = k) (hb : ∀ q ∈ h, Bin q) (hsum : onesAll h ≤ omega.toNat) :
    (yOf omega.toNat h).length = omega.toNat + k ∧ (∀ b ∈ yOf omega.toNat h, b < 256) ∧
    hintBitUnpack m k omega (yOf omega.toNat h) = .ok (some h) := by
  subst hl
  have hsl := segs_len_onesAll h hb
  have hlen : (yOf omega.toNat h).length = omega.toNat + h.length := by
    unfold yOf; rw [List.length_append, List.length_append, List.length_replicate, cumEnds_length]; omega
  have hbytes : ∀ b ∈ yOf omega.toNat h, b < 256 := by
    intro b hb'
    unfold yOf at hb'
    rcases List.mem_append.mp hb' with hb' | hb'
    · rcases List.mem_append.mp hb' with hb' | hb'
      · unfold segsOf at hb'
        obtain ⟨l, hl', hbl⟩ := List.mem_flatten.mp hb'
        obtain ⟨q, hq, rfl⟩ := List.mem_map.mp hl'
        exact (nzI_facts q (hb q hq).1).1 b hbl
      · have := List.eq_of_mem_replicate hb'; omega
    · have := cumEnds_le h 0 b hb'; omega
  refine ⟨hlen, hbytes, ?_⟩
  have hmod : omega.toNat % 256 = omega.toNat := Nat.mod_eq_of_lt (by omega)
  have hout := hintOuter_succ m (yOf omega.toNat h) omega.toNat omega.toNat h 0 0 [] hb (by omega)
    (fun d hd => by
      unfold yOf
      rw [Nat.zero_add, List.append_assoc, List.getElem?_append_left hd, List.getElem?_eq_getElem hd])
    (fun j hj => by
      unfold yOf
      rw [Nat.add_zero, List.getElem?_append_right (by rw [List.length_append, List.length_replicate]; omega)]
      rw [List.length_append, List.length_replicate]
      have e : omega.toNat + j - ((segsOf h).length + (omega.toNat - (segsOf h).length)) = j := by omega
      rw [e, List.getElem?_eq_getElem hj])
  rw [← List.range_eq_range'] at hout
  unfold hintBitUnpack
  rw [if_neg (by omega)]
  simp only [dassert_dec m _ _ (show (decide (1 ≤ omega.toNat + h.length) && decide (omega.toNat + h.length < 256)) = true by simp; omega),
    dassert_dec m _ _ (show ((yOf omega.toNat h).length == omega.toNat + h.length) = true by simp [hlen]), ok_bind, hmod]
  rw [hout, ok_bind]
  simp only [Nat.zero_add, List.reverse_nil, List.nil_append]
  have hrest := mapM_pure (fun d => idx "conversion.rs:hint_bit_unpack:y_bytes[i]" (yOf omega.toNat h) ((segsOf h).length + d)) (fun _ => (0 : Nat))
    (List.range (omega.toNat - (segsOf h).length)) (fun d hd => by
      have hd' : d < omega.toNat - (segsOf h).length := List.mem_range.mp hd
      apply idx_some
      unfold yOf
      rw [List.append_assoc, List.getElem?_append_right (by omega),
        List.getElem?_append_left (by rw [List.length_replicate]; omega)]
      rw [List.getElem?_replicate, if_pos (by omega)])
  rw [hrest, ok_bind]
  rw [if_neg (by simp)]
  have d4 : (h.all fun p => decide (countOnes p ≤ omega)) = true := by
    rw [List.all_eq_true]; intro q hq
    have := ones_le_onesAll h q hq
    rw [countOnes_eq]; simp only [decide_eq_true_eq]; omega
  rw [dassert_dec m _ _ d4, ok_bind, pure_eq]

/-- what Algorithm 20 writes is the explicit string `yOf` -/
theorem hintBitPack_eq_yOf (m : Mode) (k : Nat) (omega : Int) (h : List Poly) (ho : 0 ≤ omega)
    (hk : 1 ≤ omega.toNat + k ∧ omega.toNat + k < 256) (hl : h.length = k) (hb : ∀ q ∈ h, Bin q) (hsum : onesAll h ≤ omega.toNat)
    (y : List Nat) (hp : hintBitPack m false omega h (omega.toNat + k) = .ok y) : y = yOf omega.toNat h := by
  obtain ⟨h1, h2, h3⟩ := hintBitUnpack_yOf m k omega h ho hk hl hb hsum
  have := hintBitPack_hintBitUnpack m k omega _ h2 ho hk h1 h h3
  rw [hp] at this
  exact ok_inj this

/-- **`hint_bit_unpack ∘ hint_bit_pack = id`** on every 0/1 hint with at most omega ones -/
theorem hintBitUnpack_hintBitPack (m : Mode) (k : Nat) (omega : Int) (h : List Poly) (ho : 0 ≤ omega)
    (hk : 1 ≤ omega.toNat + k ∧ omega.toNat + k < 256) (hl : h.length = k) (hb : ∀ q ∈ h, Bin q) (hsum : onesAll h ≤ omega.toNat)
    (y : List Nat) (hp : hintBitPack m false omega h (omega.toNat + k) = .ok y) : hintBitUnpack m k omega y = .ok (some h) := by
  obtain ⟨h1, h2, h3⟩ := hintBitUnpack_yOf m k omega h ho hk hl hb hsum
  have := hintBitPack_hintBitUnpack m k omega _ h2 ho hk h1 h h3
  rw [hp] at this
  rw [ok_inj this]
  exact h3

end Fips204.Impl
