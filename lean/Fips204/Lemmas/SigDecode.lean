import Fips204.Lemmas.HintCodec
/-! `sig_decode` (Algorithm 27) never faults on any byte string of signature length; shape and range of what it returns. -/
namespace Fips204.Impl
open Fips204 Fips204.Gen Fips204.K

/-- `unpackMany` on an exact pair (`a + b + 1 = 2^bitlen`): every byte string is accepted -/
theorem unpackMany_total (m : Mode) (site : String) (bytes : List Nat) (hb : ∀ x ∈ bytes, x < 256) (start : Nat) (a b : Int) (bl : Nat)
    (ha : 0 ≤ a ∧ a < 1048576) (hbb : 1 ≤ b ∧ b < 1048576) (hbl : bitLen m (a + b) = .ok bl) (hbl2 : 1 ≤ bl ∧ bl ≤ 20)
    (hpow : a + b + 1 = 2 ^ bl) :
    ∀ (is : List Nat) (acc : List Poly), (∀ i ∈ is, start + (i + 1) * (32 * bl) ≤ bytes.length) →
      (∀ q ∈ acc, q.length = 256 ∧ ∀ c ∈ q, -a ≤ c ∧ c ≤ b) →
      ∃ z, unpackMany m site bytes start (32 * bl) a b is acc = .ok (some z) ∧ z.length = acc.length + is.length ∧
        ∀ q ∈ z, q.length = 256 ∧ ∀ c ∈ q, -a ≤ c ∧ c ≤ b := by
  intro is
  induction is with
  | nil =>
    intro acc _ hacc
    exact ⟨acc.reverse, by simp [unpackMany, pure, Except.pure], by simp, fun q hq => hacc q (List.mem_reverse.mp hq)⟩
  | cons i is ih =>
    intro acc hlen hacc
    have hi := hlen i (List.mem_cons_self ..)
    have e1 : start + (i + 1) * (32 * bl) = start + i * (32 * bl) + 32 * bl := by rw [Nat.add_mul, Nat.one_mul]; omega
    have hs := slice_ok site bytes (start + i * (32 * bl)) (start + (i + 1) * (32 * bl)) (by constructor <;> omega)
    have hsl : ((bytes.drop (start + i * (32 * bl))).take (start + (i + 1) * (32 * bl) - (start + i * (32 * bl)))).length = 32 * bl := by
      rw [List.length_take, List.length_drop]; omega
    obtain ⟨w, hw, hwl, hwr⟩ := bitUnpack_total m _ a b bl ha hbb hbl hbl2 hpow (fun x hx => hb x (mem_slice _ _ _ _ hx)) hsl
    simp only [unpackMany, hs, ok_bind, hw]
    obtain ⟨z, hz, hzl, hzr⟩ := ih (w :: acc) (fun j hj => hlen j (List.mem_cons_of_mem _ hj)) (fun q hq => by
      rcases List.mem_cons.mp hq with rfl | hq
      · exact ⟨hwl, hwr⟩
      · exact hacc q hq)
    exact ⟨z, hz, by rw [hzl]; simp; omega, hzr⟩

/-- the facts about a parameter set that `sig_decode` relies on -/
structure SigCfg (p : ParamSet) (blz : Nat) : Prop where
  g1 : (p.gamma1 = 131072 ∧ blz = 18) ∨ (p.gamma1 = 524288 ∧ blz = 20)
  len : p.sigLen = p.lambdaDiv4 + p.l * (32 * blz) + p.omega.toNat + p.k
  om : 0 ≤ p.omega
  omk : 1 ≤ p.omega.toNat + p.k ∧ p.omega.toNat + p.k < 256
  l1 : 1 ≤ p.l

theorem sigCfg_44 : SigCfg ml_dsa_44 18 := ⟨by decide, by decide, by decide, by decide, by decide⟩
theorem sigCfg_65 : SigCfg ml_dsa_65 20 := ⟨by decide, by decide, by decide, by decide, by decide⟩
theorem sigCfg_87 : SigCfg ml_dsa_87 20 := ⟨by decide, by decide, by decide, by decide, by decide⟩

theorem bitLen_g1 (m : Mode) : bitLen m 131071 = .ok 17 ∧ bitLen m (131071 + 131072) = .ok 18 ∧
    bitLen m 524287 = .ok 19 ∧ bitLen m (524287 + 524288) = .ok 20 :=
  ⟨of_toOption _ _ (by cases m <;> decide +kernel), of_toOption _ _ (by cases m <;> decide +kernel),
   of_toOption _ _ (by cases m <;> decide +kernel), of_toOption _ _ (by cases m <;> decide +kernel)⟩

/-- **`sig_decode` never faults** on a byte string of signature length, in both build modes; an accepted signature
    decodes to `l` response polynomials with coefficients in `[-gamma1+1, gamma1]` and `k` 0/1 hint polynomials -/
theorem sigDecode_ok (m : Mode) (p : ParamSet) (blz : Nat) (cfg : SigCfg p blz) (sigma : List Nat) (hb : ∀ x ∈ sigma, x < 256)
    (hlen : sigma.length = p.sigLen) :
    ∃ r, sigDecode m p sigma = .ok r ∧ ∀ ct z h, r = some (ct, z, h) →
      ct.length = p.lambdaDiv4 ∧ z.length = p.l ∧ (∀ q ∈ z, q.length = 256 ∧ ∀ c ∈ q, -(p.gamma1 - 1) ≤ c ∧ c ≤ p.gamma1) ∧
      h.length = p.k ∧ ∀ q ∈ h, Bin q := by
  obtain ⟨b17, b18, b19, b20⟩ := bitLen_g1 m
  have hbl : ∃ bl0, bitLen m (p.gamma1 - 1) = .ok bl0 ∧ bl0 + 1 = blz ∧ bitLen m (p.gamma1 - 1 + p.gamma1) = .ok blz ∧
      p.gamma1 - 1 + p.gamma1 + 1 = 2 ^ blz ∧ 1 ≤ blz ∧ blz ≤ 20 ∧ 1 ≤ p.gamma1 ∧ p.gamma1 < 1048576 := by
    rcases cfg.g1 with ⟨hg, rfl⟩ | ⟨hg, rfl⟩
    · rw [hg]; exact ⟨17, b17, rfl, b18, by decide, by omega, by omega, by omega, by omega⟩
    · rw [hg]; exact ⟨19, b19, rfl, b20, by decide, by omega, by omega, by omega, by omega⟩
  obtain ⟨bl0, h0, hbz, h1, hpow, hz1, hz2, hg1, hg2⟩ := hbl
  have hlen' := cfg.len
  have hom := cfg.om
  have hsl : sigLenOk m p = .ok true := by
    unfold sigLenOk
    rw [arith_i32 _ _ _ (by omega) (by omega), ok_bind, h0, ok_bind, pure_eq]
    congr 1
    have e : (absI p.omega).toNat = p.omega.toNat := by rw [absI_eq, if_neg (by omega)]
    rw [e, hlen']
    simp only [beq_iff_eq]
    have : p.l * 32 * (1 + bl0) = p.l * (32 * blz) := by rw [← hbz, Nat.mul_assoc, Nat.add_comm]
    omega
  unfold sigDecode
  have hc := slice_ok "encodings.rs:sig_decode:sigma[0..LAMBDA_DIV4]" sigma 0 p.lambdaDiv4 (by omega)
  rw [dassertM_ok m _ _ hsl, ok_bind, hc, ok_bind, arith_i32 _ _ _ (by omega) (by omega), ok_bind, h0, ok_bind, hbz]
  obtain ⟨z, hz, hzl, hzr⟩ := unpackMany_total m "encodings.rs:sig_decode:z" sigma hb p.lambdaDiv4 (p.gamma1 - 1) p.gamma1 blz
    (by omega) (by omega) h1 (by omega) hpow (List.range p.l) []
    (fun i hi => by
      have := List.mem_range.mp hi
      have : (i + 1) * (32 * blz) ≤ p.l * (32 * blz) := Nat.mul_le_mul_right _ (by omega)
      omega) (by simp)
  simp only [hz, ok_bind]
  have hs2 := slice_ok "encodings.rs:sig_decode:sigma[start..]" sigma (p.lambdaDiv4 + p.l * (32 * blz)) sigma.length (by omega)
  rw [hs2, ok_bind]
  obtain ⟨r, hr, hrp⟩ := hintBitUnpack_ok m p.k p.omega ((sigma.drop (p.lambdaDiv4 + p.l * (32 * blz))).take (sigma.length - (p.lambdaDiv4 + p.l * (32 * blz))))
    (fun x hx => hb x (mem_slice _ _ _ _ hx)) hom cfg.omk (by rw [List.length_take, List.length_drop]; omega)
  rw [hr, ok_bind]
  cases r with
  | none => exact ⟨none, rfl, fun ct z h hh => by simp at hh⟩
  | some h =>
    obtain ⟨c1, c2⟩ := hrp h rfl
    refine ⟨some (_, z, h), rfl, fun ct' z' h' hh => ?_⟩
    simp only [Option.some.injEq, Prod.mk.injEq] at hh
    obtain ⟨rfl, rfl, rfl⟩ := hh
    refine ⟨?_, by simpa using hzl, hzr, c1, fun q hq => (c2 q hq).1⟩
    rw [List.length_take, List.length_drop]; omega

end Fips204.Impl
