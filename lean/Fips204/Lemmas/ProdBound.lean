import Fips204.Lemmas.SignSpec
/-! `‖c * s‖∞ ≤ ‖c‖₁ ‖s‖∞` for the negacyclic product: why `‖c s2‖∞ ≤ tau * eta = beta`. -/
namespace Fips204.Impl
open Fips204 Fips204.Gen Fips204.K

theorem addP_getD : ∀ (x y : List Int) (k : Nat), (addP x y).getD k 0 = x.getD k 0 + y.getD k 0 := by
  intro x
  induction x with
  | nil => intro y k; simp [addP]
  | cons a as ih =>
    intro y k
    cases y with
    | nil => simp [addP]
    | cons b bs =>
      cases k with
      | zero => simp [addP]
      | succ j => simp only [addP, List.getD_cons_succ]; exact ih bs j

theorem map_mul_getD (a : Int) (s : List Int) (k : Nat) : (s.map (fun y => a * y)).getD k 0 = a * s.getD k 0 := by
  simp only [List.getD_eq_getElem?_getD, List.getElem?_map]
  cases s[k]? <;> simp

/-- coefficientwise domination of a schoolbook product by the product of the absolute values -/
theorem mulP_dom : ∀ (c s t : List Int), (∀ j, -t.getD j 0 ≤ s.getD j 0 ∧ s.getD j 0 ≤ t.getD j 0) →
    ∀ n, -(mulP (c.map absI) t).getD n 0 ≤ (mulP c s).getD n 0 ∧ (mulP c s).getD n 0 ≤ (mulP (c.map absI) t).getD n 0 := by
  intro c
  induction c with
  | nil => intro s t _ n; simp [mulP]
  | cons a as ih =>
    intro s t h n
    simp only [List.map_cons, mulP, addP_getD, map_mul_getD]
    have hj := h n
    have ht0 : 0 ≤ t.getD n 0 := by omega
    have ha : -absI a ≤ a ∧ a ≤ absI a := by rw [absI_eq]; split <;> omega
    have ha0 : 0 ≤ absI a := by rw [absI_eq]; split <;> omega
    have hp := mul_bound_sym a (s.getD n 0) (absI a) (t.getD n 0) ha.1 ha.2 hj.1 hj.2
    cases n with
    | zero => simp only [List.getD_cons_zero]; omega
    | succ k =>
      simp only [List.getD_cons_succ]
      have := ih s t h k
      omega

theorem list_sum_cons (a : Int) (l : List Int) : (a :: l).sum = a + l.sum := by simp

/-- cyclic wrap of a product with a constant vector: every wrapped coefficient is `B * (sum of u)` -/
theorem cyc_const (B : Int) : ∀ (u : List Int), u.length ≤ 256 → ∀ k, k ≤ 255 →
    (mulP u (List.replicate 256 B)).getD k 0 + (mulP u (List.replicate 256 B)).getD (k + 256) 0 = B * u.sum := by
  intro u
  induction u with
  | nil => intro _ k _; simp [mulP]
  | cons a as ih =>
    intro hl k hk
    simp only [List.length_cons] at hl
    simp only [mulP, addP_getD, map_mul_getD, list_sum_cons]
    have r1 : (List.replicate 256 B).getD k 0 = B := by
      rw [List.getD_eq_getElem?_getD, List.getElem?_replicate, if_pos (by omega)]; rfl
    have r2 : (List.replicate 256 B).getD (k + 256) 0 = 0 := by
      rw [List.getD_eq_getElem?_getD, List.getElem?_replicate, if_neg (by omega)]; rfl
    rw [r1, r2]
    cases k with
    | zero =>
      simp only [List.getD_cons_zero, Nat.zero_add]
      have h255 := ih (by omega) 255 (by omega)
      have hout : (mulP as (List.replicate 256 B)).getD (255 + 256) 0 = 0 := by
        rw [List.getD_eq_getElem?_getD, List.getElem?_eq_none]; rfl
        cases as with
        | nil => simp only [mulP, List.length_nil]; omega
        | cons a' as' =>
          rw [mulP_length _ _ (List.cons_ne_nil _ _) (by intro h; have := congrArg List.length h; rw [List.length_replicate] at this; simp at this)]
          simp only [List.length_cons, List.length_replicate] at hl ⊢; omega
      rw [hout] at h255
      have e : (0 :: mulP as (List.replicate 256 B)).getD 256 0 = (mulP as (List.replicate 256 B)).getD 255 0 := rfl
      rw [e]
      have : B * (a + as.sum) = a * B + B * as.sum := by grind
      omega
    | succ j =>
      simp only [List.getD_cons_succ]
      have hj := ih (by omega) j (by omega)
      have e : (0 :: mulP as (List.replicate 256 B)).getD (j + 1 + 256) 0 = (mulP as (List.replicate 256 B)).getD (j + 256) 0 := by
        rw [show j + 1 + 256 = (j + 256) + 1 by omega, List.getD_cons_succ]
      have : B * (a + as.sum) = a * B + B * as.sum := by grind
      omega

theorem negc_getD (p : List Int) (k : Nat) (hk : k < 256) : (negc p).getD k 0 = p.getD k 0 - p.getD (k + 256) 0 := by
  unfold negc
  rw [addP_getD, map_mul_getD]
  have e1 : (p.take 256).getD k 0 = p.getD k 0 := by
    simp only [List.getD_eq_getElem?_getD, List.getElem?_take, if_pos hk]
  have e2 : (p.drop 256).getD k 0 = p.getD (k + 256) 0 := by
    simp only [List.getD_eq_getElem?_getD, List.getElem?_drop, Nat.add_comm]
  rw [e1, e2]; omega

/-- **`‖c * s‖∞ ≤ ‖c‖₁ * ‖s‖∞`** for the product in `Z[X]/(X^256 + 1)` -/
theorem negMul_bound (c s : List Int) (B : Int) (hc : c.length ≤ 256) (hs : s.length = 256) (hB : ∀ x ∈ s, -B ≤ x ∧ x ≤ B) (hB0 : 0 ≤ B) :
    ∀ x ∈ negMul c s, -(B * (c.map absI).sum) ≤ x ∧ x ≤ B * (c.map absI).sum := by
  intro x hx
  obtain ⟨k, hk, rfl⟩ := List.mem_iff_getElem.mp hx
  have hlen : (negMul c s).length ≤ 256 := by
    unfold negMul negc
    rw [addP_length, List.length_take, List.length_map, List.length_drop]
    cases c with
    | nil => simp [mulP]
    | cons a as =>
      rw [mulP_length _ _ (by simp) (by intro h; rw [h] at hs; simp at hs), hs]
      simp only [List.length_cons] at hc ⊢; omega
  have hk' : k < 256 := by omega
  have e : (negMul c s)[k] = (negMul c s).getD k 0 := by
    rw [List.getD_eq_getElem?_getD, List.getElem?_eq_getElem hk]; rfl
  rw [e]
  unfold negMul
  rw [negc_getD _ k hk']
  have hdom := mulP_dom c s (List.replicate 256 B) (fun j => by
    by_cases hj : j < 256
    · rw [List.getD_eq_getElem?_getD, List.getElem?_replicate, if_pos hj]
      rw [List.getD_eq_getElem?_getD, List.getElem?_eq_getElem (by omega)]
      simp only [Option.getD_some]
      exact hB _ (List.getElem_mem _)
    · rw [List.getD_eq_getElem?_getD, List.getElem?_replicate, if_neg hj, List.getD_eq_getElem?_getD, List.getElem?_eq_none (by omega)]
      simp)
  have d1 := hdom k
  have d2 := hdom (k + 256)
  have hc' := cyc_const B (c.map absI) (by rw [List.length_map]; exact hc) k (by omega)
  omega

end Fips204.Impl
