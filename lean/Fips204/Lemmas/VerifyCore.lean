import Fips204.Lemmas.MulPipeline
/-! The verifier's arithmetic core `w'_Approx = NTT^-1(A_hat ∘ NTT(z) - NTT(c) ∘ NTT(t1 * 2^d))` as the crate computes it
    equals the exact modulo-q formula, coefficient for coefficient. -/
namespace Fips204.Impl
open Fips204 Fips204.Gen Fips204.K

/-- canonical representatives -/
def canon (l : List Int) : List Int := l.map (fun x => x % 8380417)

theorem canon_can (l : List Int) : ∀ x ∈ canon l, 0 ≤ x ∧ x < 8380417 := by
  intro x hx
  obtain ⟨y, _, rfl⟩ := List.mem_map.mp hx
  exact ⟨Int.emod_nonneg _ (by decide), Int.emod_lt_of_pos _ (by decide)⟩

theorem canon_cong (l : List Int) : CongL (canon l) l := by
  unfold canon
  exact ⟨by simp, fun i h1 h2 => by rw [List.getElem_map]; unfold cg; omega⟩

/-- the table the crate generates holds the FIPS 204 zetas: entry `k` is `1753^(bitrev8 k) * 2^32 mod q` -/
def zetaFipsOk (k : Nat) : Bool := (cf k - 1753 ^ bitrev8 k) % 8380417 == 0

theorem zeta_table_is_fips : (List.range 256).all (fun k => k == 0 || zetaFipsOk k) = true := by decide +kernel

/-- `sum_j A_hat_j ∘ NTT(y_j)`, coefficientwise, accumulated onto `P` -/
def rowS : List Poly → List Poly → Poly → Poly
  | a :: as, y :: ys, P => rowS as ys (List.zipWith (fun p q => p + q) P (List.zipWith (fun x y => x * y) a (nttS 8 1 y)))
  | _, _, P => P

/-- matrix row in the NTT domain, the vector in stored form, and the polynomials the vector represents -/
def RowRelN : List Poly → List Poly → List Poly → Prop
  | [], [], [] => True
  | ah :: row, u :: um, y :: ys =>
    (Res ah ∧ Bnd 16760833 u ∧ CongL u ((nttS 8 1 y).map (fun x => x * 4294967296))) ∧ RowRelN row um ys
  | _, _, _ => False

theorem rowP_semN : ∀ (row um ys : List Poly) (acc P : List Int), RowRelN row um ys → CongL acc P →
    CongL (rowP (row.zip um) acc) (rowS row ys P) := by
  intro row
  induction row with
  | nil =>
    intro um ys acc P h hc
    match um, ys, h with
    | [], [], _ => simpa [rowP, rowS] using hc
  | cons ah row ih =>
    intro um ys acc P h hc
    match um, ys, h with
    | u :: um', y :: ys', h =>
      obtain ⟨⟨r1, r2, r3⟩, hrest⟩ := h
      have step := acc_step_cong acc P ah ah u (nttS 8 1 y) hc (CongL.refl ah) r3 r1 r2
      simp only [List.zip_cons_cons, rowP, List.foldl_cons, rowS]
      exact ih um' ys' _ _ hrest step

theorem build_rowRelN (m : Mode) : ∀ (ys yh row : List Poly), ys.mapM (nttPoly m) = .ok yh → (∀ p ∈ row, Res p) →
    (∀ y ∈ ys, Bnd 524288 y) → ys.length = row.length → RowRelN row (toMontP yh) ys := by
  intro ys
  induction ys with
  | nil =>
    intro yh row h _ _ hl
    rw [List.mapM_nil, pure_eq] at h
    rw [← ok_inj h]
    match row with
    | [] => simp [RowRelN, toMontP]
    | _ :: _ => simp at hl
  | cons y ys ih =>
    intro yh row h hr hy hl
    rw [List.mapM_cons] at h
    obtain ⟨hd, hhd, h⟩ := bind_ok_inv h
    obtain ⟨tl, htl, h⟩ := bind_ok_inv h
    rw [pure_eq] at h
    rw [← ok_inj h]
    match row, hr with
    | [], _ => simp at hl
    | ah :: row', hr =>
      have hy2 := hy y (List.mem_cons_self ..)
      obtain ⟨hd', e1, b1, c1⟩ := nttPoly_sem m y y (CongL.refl y) hy2
      rw [hhd] at e1
      have := ok_inj e1
      subst this
      have bsh : Bnd 16760833 (hd.map pr64s) := by
        intro x hx
        obtain ⟨z, hz, rfl⟩ := List.mem_map.mp hx
        have := pr64s_spec z (by have := b1 z hz; omega) (by have := b1 z hz; omega)
        omega
      have csh : CongL (hd.map pr64s) ((nttS 8 1 y).map (fun x => x * 4294967296)) := by
        refine ⟨by simp [c1.1], fun i g1 g2 => ?_⟩
        rw [List.length_map] at g1 g2
        rw [List.getElem_map, List.getElem_map]
        have hb := b1 hd[i] (List.getElem_mem _)
        have s1 : cg (pr64s hd[i]) (hd[i] * 4294967296) := (pr64s_spec hd[i] (by omega) (by omega)).1
        exact s1.trans ((c1.2 i g1 g2).mul_right _)
      simp only [toMontP, List.map_cons, RowRelN]
      exact ⟨⟨hr ah (List.mem_cons_self ..), bsh, csh⟩,
        ih tl row' htl (fun q hq => hr q (List.mem_cons_of_mem _ hq)) (fun q hq => hy q (List.mem_cons_of_mem _ hq)) (by simpa using hl)⟩

/-- the subtraction step `az - mont_reduce(c_hat * t)` on abstract lists -/
def diffP (a c t : Int) : Int := a - montv (c * t)

theorem diff_step_cong (az NAZ ch NC t NT : List Int) (h1 : CongL az NAZ) (h2 : CongL ch NC) (h3 : CongL t (NT.map (fun x => x * 4294967296)))
    (bc : Bnd 34284028 ch) (bt : Bnd 16760833 t) :
    CongL (zw3 diffP az ch t) (List.zipWith (fun a b => a - b) NAZ (List.zipWith (fun x y => x * y) NC NT)) := by
  unfold zw3
  have l3 := h3.1
  rw [List.length_map] at l3
  refine ⟨by simp only [List.length_zipWith, List.length_zip, h1.1, h2.1, l3], fun i g1 g2 => ?_⟩
  rw [List.length_zipWith, List.length_zip] at g1
  rw [List.length_zipWith, List.length_zipWith] at g2
  simp only [List.getElem_zipWith, List.getElem_zip]
  have hci := bc (ch[i]'(by omega)) (List.getElem_mem _)
  have hti := bt (t[i]'(by omega)) (List.getElem_mem _)
  have hp := mul_bound_sym (ch[i]'(by omega)) (t[i]'(by omega)) 34284028 16760833 hci.1 hci.2 hti.1 hti.2
  unfold diffP
  refine (h1.2 i (by omega) (by omega)).sub ?_
  have c1 := montv_cg ((ch[i]'(by omega)) * (t[i]'(by omega))) (by omega) (by omega)
  have c2 := h2.2 i (by omega) (by omega)
  have c3 := h3.2 i (by omega) (by rw [List.length_map]; omega)
  rw [List.getElem_map] at c3
  refine c1.trans ((((c2.mul_right _).trans (c3.mul_left _)).mul_right RINV).trans ?_)
  have e : NC[i] * (NT[i] * 4294967296) * RINV = NC[i] * (NT[i] * 4294967296 * RINV) := by grind
  rw [e]
  exact (rr_one _).mul_left _

theorem zipWithM_pure {α β γ} (f : α → β → M γ) (g : α → β → γ) (P : α → Prop) (P' : β → Prop)
    (hf : ∀ a b, P a → P' b → f a b = .ok (g a b)) :
    ∀ (l : List α) (l' : List β), (∀ a ∈ l, P a) → (∀ b ∈ l', P' b) → zipWithM f l l' = .ok (List.zipWith g l l') := by
  intro l
  induction l with
  | nil => intro l' _ _; simp [zipWithM, pure_eq]
  | cons a as ih =>
    intro l' h h'
    cases l' with
    | nil => simp [zipWithM, pure_eq]
    | cons b bs =>
      simp only [zipWithM, List.zipWith_cons_cons]
      rw [hf a b (h a (List.mem_cons_self ..)) (h' b (List.mem_cons_self ..)), ok_bind,
        ih bs (fun x hx => h x (List.mem_cons_of_mem _ hx)) (fun x hx => h' x (List.mem_cons_of_mem _ hx)), ok_bind, pure_eq]

/-- the stored verifier precompute of one polynomial of `t1`: `2^32 * NTT(t1 * 2^13)` modulo q, inside `mont_reduce`'s domain -/
theorem precompPoly_sem (m : Mode) (t : Poly) (ht : ∀ x ∈ t, 0 ≤ x ∧ x ≤ 1023) :
    ∃ a1 a2 a3 a4, nttPoly m t = .ok a1 ∧ a1.mapM (to_mont_coeff m) = .ok a2 ∧
      a2.mapM (fun x => mont_reduce m (IT.i64.wrap (x * 2 ^ D.toNat))) = .ok a3 ∧ a3.mapM (to_mont_coeff m) = .ok a4 ∧
      Bnd 16760833 a4 ∧ CongL a4 ((nttS 8 1 (t.map (fun x => 8192 * x))).map (fun x => x * 4294967296)) := by
  have e13 : (2:Int) ^ D.toNat = 8192 := by decide
  obtain ⟨a1, h1, b1, c1⟩ := nttPoly_sem m t t (CongL.refl t) (fun x hx => by have := ht x hx; omega)
  obtain ⟨a2, h2, b2, c2⟩ := mapM_sem (to_mont_coeff m) (fun x => x * 4294967296) (fun x => -67000000 ≤ x ∧ x ≤ 67000000)
    (fun y => -16760833 ≤ y ∧ y ≤ 16760833)
    (fun x s hx hxs => by
      have := pr64s_spec x hx.1 hx.2
      exact ⟨pr64s x, to_mont_coeff_eq m x hx.1 hx.2, ⟨by omega, by omega⟩, (show cg (pr64s x) (x * 4294967296) from this.1).trans (hxs.mul_right _)⟩)
    a1 _ c1 (fun x hx => by have := b1 x hx; omega)
  obtain ⟨a3, h3, b3, c3⟩ := mapM_sem (fun x => mont_reduce m (IT.i64.wrap (x * 2 ^ D.toNat))) (fun x => x * 8192 * RINV)
    (fun x => -16760833 ≤ x ∧ x ≤ 16760833) (fun y => -67000000 ≤ y ∧ y ≤ 67000000)
    (fun x s hx hxs => by
      have hw := wrap64_id (x * 8192) (by omega) (by omega)
      have hm := montv_spec (x * 8192) (by omega) (by omega)
      refine ⟨montv (x * 8192), by rw [e13, hw]; exact mont_reduce_eq m _ (by omega) (by omega), ⟨by omega, by omega⟩, ?_⟩
      exact (montv_cg (x * 8192) (by omega) (by omega)).trans ((hxs.mul_right 8192).mul_right RINV)) a2 _ c2 b2
  obtain ⟨a4, h4, b4, c4⟩ := mapM_sem (to_mont_coeff m) (fun x => x * 4294967296) (fun x => -67000000 ≤ x ∧ x ≤ 67000000)
    (fun y => -16760833 ≤ y ∧ y ≤ 16760833)
    (fun x s hx hxs => by
      have := pr64s_spec x hx.1 hx.2
      exact ⟨pr64s x, to_mont_coeff_eq m x hx.1 hx.2, ⟨by omega, by omega⟩, (show cg (pr64s x) (x * 4294967296) from this.1).trans (hxs.mul_right _)⟩)
    a3 _ c3 b3
  refine ⟨a1, a2, a3, a4, h1, h2, h3, h4, b4, c4.trans ?_⟩
  rw [List.map_map, List.map_map]
  have hsc := (nttS_scale 8192 8 1 t).symm
  have step2 : CongL ((nttS 8 1 t).map (fun x => 8192 * x * 4294967296)) ((nttS 8 1 (t.map (fun x => 8192 * x))).map (fun x => x * 4294967296)) := by
    have := hsc.map (fun x => x * 4294967296) (fun x => x * 4294967296) (fun a b h => h.mul_right _)
    rw [List.map_map] at this
    exact this
  refine ((CongL.refl (nttS 8 1 t)).map _ (fun x => 8192 * x * 4294967296) (fun a b h => ?_)).trans step2
  simp only [Function.comp]
  have e : a * 4294967296 * 8192 * RINV * 4294967296 = (8192 * a * 4294967296) * 4294967296 * RINV := by grind
  rw [e]
  exact (rr_one _).trans ((h.mul_left 8192).mul_right _)

/-! ### the exact formula and the assembly -/

/-- one row of `NTT^-1(A_hat ∘ NTT(z) - NTT(c) ∘ NTT(t1 * 2^13))` with exact arithmetic modulo q, canonical representatives -/
def wRowS (row z : List Poly) (c t : Poly) : Poly :=
  canon ((invS 8 1 (List.zipWith (fun a b => a - b) (rowS row z zeroPoly)
    (List.zipWith (fun x y => x * y) (nttS 8 1 c) (nttS 8 1 (t.map (fun x => 8192 * x)))))).map (fun x => FS * x))

def wApproxS (aHat : List (List Poly)) (z : List Poly) (c : Poly) (t1 : List Poly) : List Poly :=
  List.zipWith (fun row t => wRowS row z c t) aHat t1

theorem diff_bound (a c t : Int) (ha : -58662912 ≤ a ∧ a ≤ 58662912) (hc : -34284028 ≤ c ∧ c ≤ 34284028)
    (ht : -16760833 ≤ t ∧ t ≤ 16760833) : -2143289343 ≤ diffP a c t ∧ diffP a c t ≤ 2143289343 := by
  have hp := mul_bound_sym c t 34284028 16760833 hc.1 hc.2 ht.1 ht.2
  have hm := (montv_spec (c * t) (by omega) (by omega)).2
  unfold diffP
  omega

theorem diff_eq (m : Mode) (a c t : Int) (ha : -58662912 ≤ a ∧ a ≤ 58662912) (hc : -34284028 ≤ c ∧ c ≤ 34284028)
    (ht : -16760833 ≤ t ∧ t ≤ 16760833) :
    (arith .i64 m "ml_dsa.rs:verify_internal:c_hat*t1" (c * t) >>= fun pr => mont_reduce m pr >>= fun r =>
        arith .i32 m "ml_dsa.rs:verify_internal:az-ct1" (a - r)) = .ok (diffP a c t) := by
  have hp := mul_bound_sym c t 34284028 16760833 hc.1 hc.2 ht.1 ht.2
  have hm := (montv_spec (c * t) (by omega) (by omega)).2
  rw [arith_i64 _ _ _ (by omega) (by omega), ok_bind, mont_reduce_eq m _ (by omega) (by omega), ok_bind]
  exact arith_i32 _ _ _ (by omega) (by omega)

/-- one row of the verifier core: subtract, inverse-transform, and land exactly on the formula -/
theorem wRow_spec (m : Mode) (row z zHat : List Poly) (c ch t t4 : Poly) (hzh : z.mapM (nttPoly m) = .ok zHat)
    (hrow : ∀ p ∈ row, Res p) (hrl : z.length = row.length) (hl7 : row.length ≤ 7) (hz : ∀ w ∈ z, Bnd 524288 w)
    (bch : Bnd 34284028 ch) (cch : CongL ch (nttS 8 1 c)) (b4 : Bnd 16760833 t4)
    (c4 : CongL t4 ((nttS 8 1 (t.map (fun x => 8192 * x))).map (fun x => x * 4294967296)))
    (baz : Bnd 58662912 (rowP (row.zip (toMontP zHat)) zeroPoly)) :
    zipWith3M (fun a c t => do
        let pr ← arith .i64 m "ml_dsa.rs:verify_internal:c_hat*t1" (c * t)
        let r ← mont_reduce m pr
        arith .i32 m "ml_dsa.rs:verify_internal:az-ct1" (a - r)) (rowP (row.zip (toMontP zHat)) zeroPoly) ch t4 =
      .ok (zw3 diffP (rowP (row.zip (toMontP zHat)) zeroPoly) ch t4) ∧
    invNttPoly m (zw3 diffP (rowP (row.zip (toMontP zHat)) zeroPoly) ch t4) = .ok (wRowS row z c t) := by
  have hpure := zipWith3M_pure (fun a c t => do
        let pr ← arith .i64 m "ml_dsa.rs:verify_internal:c_hat*t1" (c * t)
        let r ← mont_reduce m pr
        arith .i32 m "ml_dsa.rs:verify_internal:az-ct1" (a - r)) diffP (fun a => -58662912 ≤ a ∧ a ≤ 58662912)
      (fun c => -34284028 ≤ c ∧ c ≤ 34284028) (fun t => -16760833 ≤ t ∧ t ≤ 16760833)
      (fun a c t ha hc ht => diff_eq m a c t ha hc ht) _ ch t4 baz bch b4
  refine ⟨hpure, ?_⟩
  have hrel := build_rowRelN m z zHat row hzh hrow hz hrl
  have haz := rowP_semN row (toMontP zHat) z zeroPoly zeroPoly hrel (CongL.refl _)
  have hd := diff_step_cong _ _ ch (nttS 8 1 c) t4 (nttS 8 1 (t.map (fun x => 8192 * x))) haz cch c4 bch b4
  have hb : Bnd 2143289343 (zw3 diffP (rowP (row.zip (toMontP zHat)) zeroPoly) ch t4) := by
    intro x hx
    obtain ⟨a, ha, c', hc', t', ht', rfl⟩ := zw3_mem diffP _ _ _ x hx
    exact diff_bound a c' t' (baz a ha) (bch c' hc') (b4 t' ht')
  obtain ⟨w, hw, cw, sw⟩ := invNttPoly_sem m _ _ hd hb
  rw [hw]
  have : w = wRowS row z c t := can_eq_of_cong w (wRowS row z c t) (sw.trans (canon_cong _).symm) cw (canon_can _)
  rw [this]

theorem rowP_bound (m : Mode) (row um : List Poly) (hrow : ∀ p ∈ row, Res p) (hum : ∀ w ∈ um, Bnd 16760833 w) (hl7 : row.length ≤ 7) :
    Bnd 58662912 (rowP (row.zip um) zeroPoly) := by
  have hz : Bnd 0 zeroPoly := by
    intro x hx; unfold zeroPoly at hx; have := List.eq_of_mem_replicate hx; omega
  have hzl : (row.zip um).length ≤ 7 := by have := List.length_zip (l₁ := row) (l₂ := um); omega
  have hzl' : ((row.zip um).length : Int) ≤ 7 := by exact_mod_cast hzl
  have hnn : (0:Int) ≤ ((row.zip um).length : Int) := Int.natCast_nonneg _
  have hall : ∀ au ∈ row.zip um, Res au.1 ∧ Bnd 16760833 au.2 :=
    fun au hau => ⟨hrow au.1 (List.of_mem_zip hau).1, hum au.2 (List.of_mem_zip hau).2⟩
  obtain ⟨r, hr, br⟩ := rowAcc_ok m (row.zip um) zeroPoly 0 hz (by omega) (by omega) hall
  rw [rowAcc_pure m (row.zip um) zeroPoly 0 hz (by omega) (by omega) hall] at hr
  rw [ok_inj hr]
  exact br.mono (by omega)

theorem wApprox_rows (m : Mode) (z zHat : List Poly) (c ch : Poly) (hzh : z.mapM (nttPoly m) = .ok zHat) (hz : ∀ w ∈ z, Bnd 524288 w)
    (bch : Bnd 34284028 ch) (cch : CongL ch (nttS 8 1 c)) :
    ∀ (aHat : List (List Poly)) (t1 : List Poly), (∀ row ∈ aHat, z.length = row.length ∧ row.length ≤ 7 ∧ ∀ p ∈ row, Res p) →
      (∀ q ∈ t1, ∀ x ∈ q, 0 ≤ x ∧ x ≤ 1023) → aHat.length = t1.length →
      ∃ a1 a2 a3 t1d2 Ds, t1.mapM (nttPoly m) = .ok a1 ∧ a1.mapM (fun p : Poly => p.mapM (to_mont_coeff m)) = .ok a2 ∧
        a2.mapM (fun p : Poly => p.mapM (fun x => mont_reduce m (IT.i64.wrap (x * 2 ^ D.toNat)))) = .ok a3 ∧
        a3.mapM (fun p : Poly => p.mapM (to_mont_coeff m)) = .ok t1d2 ∧
        zipWithM (fun ap tp => zipWith3M (fun a c t => do
            let pr ← arith .i64 m "ml_dsa.rs:verify_internal:c_hat*t1" (c * t)
            let r ← mont_reduce m pr
            arith .i32 m "ml_dsa.rs:verify_internal:az-ct1" (a - r)) ap ch tp)
          (aHat.map (fun row => rowP (row.zip (toMontP zHat)) zeroPoly)) t1d2 = .ok Ds ∧
        Ds.mapM (invNttPoly m) = .ok (wApproxS aHat z c t1) := by
  obtain ⟨zh', hzh', bzh⟩ := ntt_ok m z hz
  have : zh' = zHat := by unfold ntt at hzh'; rw [hzh] at hzh'; exact (ok_inj hzh').symm
  subst this
  have bum : ∀ w ∈ toMontP zh', Bnd 16760833 w := by
    intro w hw x hx
    unfold toMontP at hw
    obtain ⟨p, hp, rfl⟩ := List.mem_map.mp hw
    obtain ⟨y, hy, rfl⟩ := List.mem_map.mp hx
    have hb := bzh p hp y hy
    have := pr64s_spec y (by omega) (by omega)
    omega
  intro aHat
  induction aHat with
  | nil =>
    intro t1 _ _ hl
    have : t1 = [] := List.eq_nil_of_length_eq_zero (by simpa using hl.symm)
    subst this
    exact ⟨[], [], [], [], [], by simp [pure_eq], by simp [pure_eq], by simp [pure_eq], by simp [pure_eq], by simp [zipWithM, pure_eq],
      by simp [wApproxS, pure_eq]⟩
  | cons row rows ih =>
    intro t1 hA ht hl
    cases t1 with
    | nil => simp at hl
    | cons t ts =>
      obtain ⟨hrl, hl7, hres⟩ := hA row (List.mem_cons_self ..)
      obtain ⟨b1, b2, b3, b4, g1, g2, g3, g4, bb4, cc4⟩ := precompPoly_sem m t (ht t (List.mem_cons_self ..))
      obtain ⟨a1, a2, a3, t1d2, Ds, f1, f2, f3, f4, f5, f6⟩ := ih ts (fun r hr => hA r (List.mem_cons_of_mem _ hr))
        (fun q hq => ht q (List.mem_cons_of_mem _ hq)) (by simpa using hl)
      obtain ⟨w1, w2⟩ := wRow_spec m row z zh' c ch t b4 hzh hres hrl hl7 hz bch cch bb4 cc4 (rowP_bound m row _ hres bum hl7)
      refine ⟨b1 :: a1, b2 :: a2, b3 :: a3, b4 :: t1d2, zw3 diffP (rowP (row.zip (toMontP zh')) zeroPoly) ch b4 :: Ds, ?_, ?_, ?_, ?_, ?_, ?_⟩
      · rw [List.mapM_cons, g1, ok_bind, f1, ok_bind, pure_eq]
      · rw [List.mapM_cons, g2, ok_bind, f2, ok_bind, pure_eq]
      · rw [List.mapM_cons, g3, ok_bind, f3, ok_bind, pure_eq]
      · rw [List.mapM_cons, g4, ok_bind, f4, ok_bind, pure_eq]
      · simp only [List.map_cons, zipWithM]
        rw [w1, ok_bind, f5, ok_bind, pure_eq]
      · rw [List.mapM_cons, w2, ok_bind, f6, ok_bind, pure_eq]
        simp [wApproxS]

/-- **the verifier's core equals the exact formula**: for every canonical matrix, every response vector with
    coefficients up to `2^19`, every challenge and every `t1`, the lazy pipeline on the stored precompute returns
    `NTT^-1(A_hat ∘ NTT(z) - NTT(c) ∘ NTT(t1 * 2^13))` computed with exact arithmetic modulo q -/
theorem wApproxOf_spec (m : Mode) (aHat : List (List Poly)) (z : List Poly) (c : Poly) (t1 : List Poly)
    (hA : ∀ row ∈ aHat, z.length = row.length ∧ row.length ≤ 7 ∧ ∀ p ∈ row, Res p) (hz : ∀ w ∈ z, Bnd 524288 w) (hc : Bnd 524288 c)
    (ht : ∀ q ∈ t1, ∀ x ∈ q, 0 ≤ x ∧ x ≤ 1023) (hk : aHat.length = t1.length) :
    ∃ t1d2, precomputeT1 m t1 = .ok t1d2 ∧ wApproxOf m aHat z c t1d2 = .ok (wApproxS aHat z c t1) := by
  obtain ⟨zHat, hzh, bzh⟩ := ntt_ok m z hz
  obtain ⟨ch, hch, bch, cch⟩ := nttPoly_sem m c c (CongL.refl c) hc
  obtain ⟨a1, a2, a3, t1d2, Ds, f1, f2, f3, f4, f5, f6⟩ := wApprox_rows m z zHat c ch (by unfold ntt at hzh; exact hzh) hz bch cch aHat t1 hA ht hk
  refine ⟨t1d2, ?_, ?_⟩
  · unfold precomputeT1 nttMont ntt toMont
    rw [f1, ok_bind, f2, ok_bind, f3, ok_bind]
    exact f4
  · have hmv := matVecMul_pure m aHat zHat 7 (fun row hrow => ⟨(hA row hrow).2.1, (hA row hrow).2.2⟩)
      (fun w hw => (bzh w hw).mono (by omega)) (by omega)
    unfold wApproxOf
    rw [hzh, ok_bind, hmv, ok_bind, ntt_single m c ch hch, ok_bind]
    simp only [idx, List.getElem?_cons_zero, pure_eq, ok_bind]
    unfold matP
    rw [f5, ok_bind]
    exact f6

end Fips204.Impl
