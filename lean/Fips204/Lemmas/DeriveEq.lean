import Fips204.Lemmas.MatVec
/-! Deriving the public key from a generated private key gives the generated public key, as a struct. -/
namespace Fips204.Impl
open Fips204 Fips204.Gen Fips204.K

theorem cg_unmont (x : Int) (h1 : -67000000 ≤ x) (h2 : x ≤ 67000000) : cg (montv (pr64s x)) x := by
  have s := pr64s_spec x h1 h2
  have c1 := montv_cg (pr64s x) (by omega) (by omega)
  have c2 : cg (pr64s x) (x * 4294967296) := s.1
  have c3 : cg (x * 4294967296 * RINV) x := by unfold cg RINV; omega
  exact c1.trans ((c2.mul_right RINV).trans c3)

/-- **`private_to_public_key(sk) = pk`** for every generated pair (equality of structs: `rho`, `tr`, and every coefficient
    of the verifier precompute) -/
theorem derive_eq_generated (m : Mode) (O : Oracles) (p : ParamSet) (hl7 : p.l ≤ 7) (he : p.eta = 2 ∨ p.eta = 4)
    (kp : PublicKey × PrivateKey) (hg : GenOk m O p kp) : privateToPublicKey m O p kp.2 = .ok kp.1 := by
  obtain ⟨s1, s2, t0, t1, pkb, v1, v2, v0, vt, n1, n2, n0, pc, pe, htr, aHat, s1Hat, as1, w, t, hA, hAs, hn, hmv, hinv, ht, hp2r⟩ := hg.vecs
  have eta4 : 0 ≤ p.eta ∧ p.eta ≤ 4 := by rcases he with h | h <;> omega
  have hArow : ∀ row ∈ aHat, row.length ≤ 7 ∧ ∀ q ∈ row, Res q :=
    fun row hrow => ⟨by rw [(hAs.2 row hrow).1]; exact hl7, fun q hq => ((hAs.2 row hrow).2 q hq).2⟩
  have hAres : ∀ row ∈ aHat, ∀ q ∈ row, Res q := fun row hrow q hq => ((hAs.2 row hrow).2 q hq).2
  -- s1Hat is bounded, and the stored s1 is its to_mont image
  obtain ⟨r0, hr0, br0⟩ := ntt_ok m s1 (fun w hw x hx => by have := v1.2 w hw x hx; omega)
  rw [hn] at hr0
  have e0 := ok_inj hr0
  subst e0
  have bs1 : ∀ w ∈ s1Hat, Bnd 67000000 w := fun w hw => (br0 w hw).mono (by omega)
  have hstored : kp.2.s1 = toMontP s1Hat := by
    have := n1
    unfold nttMont at this
    rw [hn, ok_bind, toMont_pure m s1Hat bs1] at this
    exact (ok_inj this).symm
  -- mont_reduce of the stored vector: a pure map, congruent to s1Hat
  have hred : kp.2.s1.mapM (fun q : Poly => q.mapM (mont_reduce m)) = .ok ((toMontP s1Hat).map (fun q => q.map montv)) := by
    rw [hstored]
    refine mapM_pure _ _ _ (fun q hq => mapM_pure _ _ q (fun x hx => ?_))
    unfold toMontP at hq
    obtain ⟨q0, hq0, rfl⟩ := List.mem_map.mp hq
    obtain ⟨y, hy, rfl⟩ := List.mem_map.mp hx
    have := pr64s_spec y (bs1 q0 hq0 y hy).1 (bs1 q0 hq0 y hy).2
    exact mont_reduce_eq m _ (by omega) (by omega)
  have bred : ∀ w ∈ (toMontP s1Hat).map (fun q => q.map montv), Bnd 67000000 w := by
    intro w hw x hx
    obtain ⟨q, hq, rfl⟩ := List.mem_map.mp hw
    obtain ⟨y, hy, rfl⟩ := List.mem_map.mp hx
    unfold toMontP at hq
    obtain ⟨q0, hq0, rfl⟩ := List.mem_map.mp hq
    obtain ⟨z, hz, rfl⟩ := List.mem_map.mp hy
    have s := pr64s_spec z (bs1 q0 hq0 z hz).1 (bs1 q0 hq0 z hz).2
    have := montv_spec (pr64s z) (by omega) (by omega)
    omega
  have cred : CongV ((toMontP s1Hat).map (fun q => q.map montv)) s1Hat := by
    unfold toMontP
    refine ⟨by simp, fun i h1 h2 => ?_⟩
    simp only [List.getElem_map]
    refine ⟨by simp, fun j g1 g2 => ?_⟩
    simp only [List.getElem_map]
    have x := bs1 s1Hat[i] (List.getElem_mem _) _ (List.getElem_mem g2)
    exact cg_unmont _ x.1 x.2
  -- s2 comes back exactly
  obtain ⟨a2, ha2, u2⟩ := unMont_nttMont m s2 (fun q hq => ⟨v2.1.2 q hq, fun x hx => by have := v2.2 q hq x hx; omega⟩)
  rw [n2] at ha2
  have e2 := ok_inj ha2
  subst e2
  -- the two matrix-vector products are congruent, so their inverse transforms are equal
  have hmv' := matVecMul_pure m aHat ((toMontP s1Hat).map (fun q => q.map montv)) 7 hArow bred (by omega)
  have hmvp := matVecMul_pure m aHat s1Hat 7 hArow bs1 (by omega)
  rw [hmv] at hmvp
  have eas1 := ok_inj hmvp
  obtain ⟨ra, hra, bra⟩ := matVecMul_ok m aHat s1Hat 7 hArow bs1 (by omega)
  obtain ⟨rb, hrb, brb⟩ := matVecMul_ok m aHat ((toMontP s1Hat).map (fun q => q.map montv)) 7 hArow bred (by omega)
  rw [hmv] at hra; rw [hmv'] at hrb
  have era := ok_inj hra; have erb := ok_inj hrb
  subst era erb
  have b7 : ∀ (v : List Poly), (∀ w ∈ v, Bnd ((7:Nat) * 8380416) w) → ∀ w ∈ v, Bnd 2143289343 w := fun v hv w hw => (hv w hw).mono (by decide)
  obtain ⟨w', hw', _⟩ := invNtt_ok m (matP aHat ((toMontP s1Hat).map (fun q => q.map montv))) (b7 _ brb)
  have hww : w' = w := invNtt_eq_of_cong m _ _ w' w (by rw [eas1]; exact matP_cong aHat hAres _ _ cred bred bs1) (b7 _ brb) (b7 _ bra) hw' hinv
  subst hww
  -- assemble
  obtain ⟨tnr, ht1, ht2⟩ := bind_ok_inv ht
  obtain ⟨lk, lt, lrho, ltr⟩ := hg.lens
  unfold privateToPublicKey
  rw [lrho, hA, ok_bind, hred, ok_bind, u2, ok_bind, hmv', ok_bind, hw', ok_bind, ht1, ok_bind, ht2, ok_bind, hp2r, ok_bind]
  simp only []
  rw [pc, ok_bind, pure_eq, ltr]

end Fips204.Impl
