import Fips204.Impl.Ntt
import Fips204.Lemmas.Kernels
/-!
  Magnitude envelope of the inverse transform (DESIGN 3.2): after the repair (partial reduction on
  copy-in) `inv_ntt` cannot overflow `i32` - in either build mode - for **any** input in the domain of
  `partial_reduce32`, i.e. for every vector its callers can possibly supply.
-/
namespace Fips204.Impl
open Fips204 Fips204.Gen Fips204.K

/-- all coefficients within [-B, B] -/
def Bnd (B : Int) (w : List Int) : Prop := ∀ x ∈ w, -B ≤ x ∧ x ≤ B

theorem Bnd.take {B : Int} {w : List Int} (h : Bnd B w) (n : Nat) : Bnd B (w.take n) :=
  fun x hx => h x (List.mem_of_mem_take hx)
theorem Bnd.drop {B : Int} {w : List Int} (h : Bnd B w) (n : Nat) : Bnd B (w.drop n) :=
  fun x hx => h x (List.mem_of_mem_drop hx)
theorem Bnd.mono {B B' : Int} {w : List Int} (h : Bnd B w) (hb : B ≤ B') : Bnd B' w :=
  fun x hx => ⟨by have := (h x hx).1; omega, by have := (h x hx).2; omega⟩
theorem Bnd.append {B : Int} {v w : List Int} (h1 : Bnd B v) (h2 : Bnd B w) : Bnd B (v ++ w) := by
  intro x hx; rcases List.mem_append.mp hx with h | h
  · exact h1 x h
  · exact h2 x h

/-- pointwise success of `mapM` -/
theorem mapM_ok {α β} (f : α → M β) (P : α → Prop) (R : β → Prop) (hf : ∀ a, P a → ∃ b, f a = .ok b ∧ R b) :
    ∀ l : List α, (∀ a ∈ l, P a) → ∃ l', l.mapM f = .ok l' ∧ ∀ b ∈ l', R b := by
  intro l
  induction l with
  | nil => intro _; exact ⟨[], by simp [pure, Except.pure], by simp⟩
  | cons a as ih =>
    intro h
    obtain ⟨b, hb, hr⟩ := hf a (h a (List.mem_cons_self ..))
    obtain ⟨bs, hbs, hrs⟩ := ih (fun x hx => h x (List.mem_cons_of_mem _ hx))
    refine ⟨b :: bs, ?_, ?_⟩
    · rw [List.mapM_cons, hb, hbs]; rfl
    · intro x hx; rcases List.mem_cons.mp hx with rfl | hx
      · exact hr
      · exact hrs x hx

/-- pointwise success of `zipWithM` -/
theorem zipWithM_ok {α β γ} (f : α → β → M γ) (P : α → Prop) (P' : β → Prop) (R : γ → Prop)
    (hf : ∀ a b, P a → P' b → ∃ c, f a b = .ok c ∧ R c) :
    ∀ (l : List α) (l' : List β), (∀ a ∈ l, P a) → (∀ b ∈ l', P' b) → ∃ r, zipWithM f l l' = .ok r ∧ ∀ c ∈ r, R c := by
  intro l
  induction l with
  | nil => intro l' _ _; exact ⟨[], by simp [zipWithM, pure, Except.pure], by simp⟩
  | cons a as ih =>
    intro l' h h'
    cases l' with
    | nil => exact ⟨[], by simp [zipWithM, pure, Except.pure], by simp⟩
    | cons b bs =>
      obtain ⟨c, hc, hr⟩ := hf a b (h a (List.mem_cons_self ..)) (h' b (List.mem_cons_self ..))
      obtain ⟨cs, hcs, hrs⟩ := ih bs (fun x hx => h x (List.mem_cons_of_mem _ hx)) (fun x hx => h' x (List.mem_cons_of_mem _ hx))
      refine ⟨c :: cs, ?_, ?_⟩
      · simp only [zipWithM, hc, hcs, ok_bind, pure_eq]
      · intro x hx; rcases List.mem_cons.mp hx with rfl | hx
        · exact hr
        · exact hrs x hx

/-- output bound after `d` doubling layers -/
def bout : Nat → Int → Int
  | 0, B => B
  | d + 1, B => 2 * bout d B

theorem bout_ge (d : Nat) (B : Int) (hB : 0 ≤ B) : B ≤ bout d B := by
  induction d with
  | zero => exact Int.le_refl _
  | succ d ih => simp only [bout]; omega

def zetaEntryOk (k : Nat) : Bool :=
  match zetaArr[k]? with
  | some z => decide (0 ≤ z) && decide (z < 8380417)
  | none => false

/-- every entry of the Montgomery zeta table is a canonical residue (kernel evaluation of the generated table) -/
theorem zeta_table_check : (List.range 256).all zetaEntryOk = true := by decide +kernel

theorem zeta_range (k : Nat) (hk : k < 256) : ∃ z, zetaArr[k]? = some z ∧ 0 ≤ z ∧ z < 8380417 := by
  have h : zetaEntryOk k = true := List.all_eq_true.mp zeta_table_check k (List.mem_range.mpr hk)
  unfold zetaEntryOk at h
  cases hz : zetaArr[k]? with
  | none => rw [hz] at h; simp at h
  | some z =>
    rw [hz] at h
    simp only [Bool.and_eq_true, decide_eq_true_eq] at h
    exact ⟨z, rfl, h.1, h.2⟩

theorem zeta_ok (site : String) (k : Nat) (hk : k < 256) : ∃ z, zeta site k = .ok z ∧ 0 ≤ z ∧ z < 8380417 := by
  obtain ⟨z, hz, h0, h1⟩ := zeta_range k hk
  exact ⟨z, by simp [zeta, hz, pure, Except.pure], h0, h1⟩

theorem two_pow_pos (d : Nat) : 1 ≤ 2 ^ d := Nat.one_le_two_pow

/-- the inverse butterflies never fault while the doubled bound stays inside i32 -/
theorem invRec_ok (m : Mode) : ∀ (d k : Nat) (w : List Int) (B : Int), Bnd B w → 4190209 ≤ B →
    bout d B ≤ 2147483647 → (k + 1) * 2 ^ d ≤ 512 → ∃ w', invRec m d k w = .ok w' ∧ Bnd (bout d B) w' := by
  intro d
  induction d with
  | zero => intro k w B hw _ _ _; exact ⟨w, by simp [invRec, pure, Except.pure], hw⟩
  | succ d ih =>
    intro k w B hw hB hfit hk
    simp only [bout] at hfit
    show ∃ w', invRec m (d + 1) k w = .ok w' ∧ Bnd (2 * bout d B) w'
    rw [Nat.pow_succ] at hk
    have hk1 : (2 * k + 1 + 1) * 2 ^ d ≤ 512 := by
      have e : (2 * k + 1 + 1) * 2 ^ d = (k + 1) * (2 ^ d * 2) := by
        rw [show 2 * k + 1 + 1 = (k + 1) * 2 by omega, Nat.mul_assoc, Nat.mul_comm 2 (2 ^ d)]
      omega
    have hk0 : (2 * k + 1) * 2 ^ d ≤ 512 := by
      have : (2 * k + 1) * 2 ^ d ≤ (2 * k + 1 + 1) * 2 ^ d := Nat.mul_le_mul_right _ (by omega)
      omega
    have hkz : k < 256 := by
      have h1 := two_pow_pos d
      have : (k + 1) * 2 ≤ (k + 1) * (2 ^ d * 2) := Nat.mul_le_mul_left _ (by omega)
      omega
    have hge := bout_ge d B (by omega)
    obtain ⟨lo, hlo, blo⟩ := ih (2 * k + 1) (w.take (w.length / 2)) B (hw.take _) hB (by omega) hk1
    obtain ⟨hi, hhi, bhi⟩ := ih (2 * k) (w.drop (w.length / 2)) B (hw.drop _) hB (by omega) hk0
    obtain ⟨z0, hz0, z0a, z0b⟩ := zeta_ok "ntt.rs:inv_ntt:ZETA_TABLE_MONT[m]" k hkz
    generalize bout d B = C at *
    obtain ⟨sums, hsums, bsums⟩ := zipWithM_ok (fun t u => arith .i32 m "ntt.rs:inv_ntt:t+w[j+len]" (t + u))
      (fun t => -C ≤ t ∧ t ≤ C) (fun t => -C ≤ t ∧ t ≤ C) (fun c => -(2 * C) ≤ c ∧ c ≤ 2 * C)
      (fun a b ha hb => ⟨a + b, arith_i32 _ _ _ (by omega) (by omega), by omega, by omega⟩) lo hi blo bhi
    obtain ⟨diffs, hdiffs, bdiffs⟩ := zipWithM_ok (fun t u => do
        let d ← arith .i32 m "ntt.rs:inv_ntt:t-w[j+len]" (t - u)
        let p ← arith .i64 m "ntt.rs:inv_ntt:zeta*w" (-z0 * d)
        mont_reduce m p)
      (fun t => -C ≤ t ∧ t ≤ C) (fun t => -C ≤ t ∧ t ≤ C) (fun c => -(2 * C) ≤ c ∧ c ≤ 2 * C)
      (fun a b ha hb => by
        have hd1 : -2147483647 ≤ a - b ∧ a - b ≤ 2147483647 := by omega
        have hp : -17996806323437569 ≤ -z0 * (a - b) ∧ -z0 * (a - b) ≤ 17996806323437569 := by
          generalize a - b = e at *
          constructor
          · have : z0 * e ≤ 8380416 * 2147483647 := by
              rcases Int.le_total 0 e with he | he
              · exact Int.mul_le_mul (by omega) (by omega) he (by omega)
              · have : z0 * e ≤ 0 := Int.mul_nonpos_of_nonneg_of_nonpos z0a he
                omega
            have e2 : -z0 * e = -(z0 * e) := Int.neg_mul _ _
            omega
          · have : -(8380416 * 2147483647) ≤ z0 * e := by
              rcases Int.le_total 0 e with he | he
              · have : 0 ≤ z0 * e := Int.mul_nonneg z0a he
                omega
              · have h3 : z0 * (-e) ≤ 8380416 * 2147483647 := Int.mul_le_mul (by omega) (by omega) (by omega) (by omega)
                have e3 : z0 * (-e) = -(z0 * e) := Int.mul_neg _ _
                omega
            have e2 : -z0 * e = -(z0 * e) := Int.neg_mul _ _
            omega
        have hm := montv_spec (-z0 * (a - b)) (by omega) (by omega)
        refine ⟨montv (-z0 * (a - b)), ?_, by omega, by omega⟩
        simp only [arith_i32 _ _ _ (show (-2147483648:Int) ≤ a - b by omega) (show a - b ≤ 2147483647 by omega), ok_bind,
          arith_i64 _ _ _ (show (-9223372036854775808:Int) ≤ -z0 * (a - b) by omega) (show -z0 * (a - b) ≤ 9223372036854775807 by omega),
          mont_reduce_eq m _ (show (-17996808479301632:Int) ≤ -z0 * (a - b) by omega) (show -z0 * (a - b) ≤ 17996808470921215 by omega)])
      lo hi blo bhi
    refine ⟨sums ++ diffs, ?_, ?_⟩
    · simp only [invRec, hlo, hhi, hz0, ok_bind, arith_i32 _ _ _ (show (-2147483648:Int) ≤ -z0 by omega) (show -z0 ≤ 2147483647 by omega),
        hsums, hdiffs, pure_eq]
    · exact Bnd.append bsums bdiffs

/-- **the repaired inverse transform never faults** (either build mode) on any input in the domain of
    `partial_reduce32`, and returns canonical residues -/
theorem invNttPoly_ok (m : Mode) (w : List Int) (hw : Bnd 2143289343 w) :
    ∃ w', invNttPoly m w = .ok w' ∧ ∀ x ∈ w', 0 ≤ x ∧ x < 8380417 := by
  obtain ⟨w0, hw0, b0⟩ := mapM_ok (partial_reduce32 m) (fun a => -2143289343 ≤ a ∧ a ≤ 2143289343)
    (fun b => -6287360 ≤ b ∧ b ≤ 6287360)
    (fun a ha => ⟨pr32 a, partial_reduce32_eq m a (by omega) (by omega), by
      have := pr32_tight a (by omega) (by omega); omega⟩) w hw
  obtain ⟨w1, hw1, b1⟩ := invRec_ok m 8 1 w0 6287360 b0 (by omega) (by decide) (by decide)
  have hb : bout 8 6287360 = 1609564160 := by decide
  rw [hb] at b1
  obtain ⟨w2, hw2, b2⟩ := mapM_ok (fun x => do
      let p ← arith .i64 m "ntt.rs:inv_ntt:F_MONT*w" (F_MONT * x)
      let r ← mont_reduce m p
      full_reduce32 m r) (fun a => -1609564160 ≤ a ∧ a ≤ 1609564160) (fun b => 0 ≤ b ∧ b < 8380417)
    (fun a ha => by
      have hm := montv_spec (16382 * a) (by omega) (by omega)
      refine ⟨montv (16382 * a) % 8380417, ?_, Int.emod_nonneg _ (by decide), Int.emod_lt_of_pos _ (by decide)⟩
      simp only [F_MONT, arith_i64 _ _ _ (show (-9223372036854775808:Int) ≤ 16382 * a by omega) (show 16382 * a ≤ 9223372036854775807 by omega),
        ok_bind, mont_reduce_eq m _ (show (-17996808479301632:Int) ≤ 16382 * a by omega) (show 16382 * a ≤ 17996808470921215 by omega),
        full_reduce32_eq m _ (show (-2143289344:Int) < montv (16382 * a) by omega) (show montv (16382 * a) < 2143289344 by omega), Q]) w1 b1
  exact ⟨w2, by simp only [invNttPoly, invNttPolyWith, hw0, hw1, hw2, ok_bind], b2⟩

theorem invNtt_ok (m : Mode) (ws : List (List Int)) (hw : ∀ w ∈ ws, Bnd 2143289343 w) :
    ∃ r, invNtt m ws = .ok r ∧ ∀ w' ∈ r, ∀ x ∈ w', 0 ≤ x ∧ x < 8380417 :=
  mapM_ok (invNttPoly m) (Bnd 2143289343) (fun w' => ∀ x ∈ w', 0 ≤ x ∧ x < 8380417) (invNttPoly_ok m) ws hw

end Fips204.Impl
