/-
  Lemmas.SrcTie — the model computes the per-coefficient expressions that the current source contains.

  `Gen/Exprs.lean` is regenerated from `/repo/src` on every run: every `core::array::from_fn(|k| R(from_fn(|n| EXPR)))`
  comprehension of `ml_dsa.rs`, of the serialisers in `lib.rs` and of `helpers.rs` is translated, expression by expression,
  into a Lean function of its scalar inputs.  The model (`Impl/*`) is written by hand; this file pins the two together:

  * a *shape* theorem (by `rfl`) states that a model function is literally a skeleton instantiated with certain
    per-coefficient lambdas, so the lambdas quoted here are the ones the model runs;
  * a *tie* theorem per lambda states that it agrees with the translated source expression on every input, up to the
    name of the fault site (`er` forgets the site string and keeps value / fault kind).

  A change to one of these expressions in the source changes `Gen/Exprs` and the corresponding tie no longer checks.
-/
import Fips204.Gen.Exprs
import Fips204.Impl.Api
namespace Fips204.SrcTie
open Fips204 Fips204.Gen Fips204.Impl

/-- forget the fault site: the value, or the kind of fault -/
def er {α} : M α → Except String α
  | .ok a => .ok a
  | .error f => .error f.kind

/-- `arith` without a site -/
def arithK (t : IT) (m : Mode) (r : Int) : Except String Int :=
  if t.lo ≤ r ∧ r ≤ t.hi then .ok r
  else match m with
    | .checked => .error "overflow"
    | .release => .ok (t.wrap r)

theorem er_pure {α} (a : α) : er (pure a : M α) = .ok a := rfl
theorem er_ok {α} (a : α) : er (.ok a : M α) = .ok a := rfl

theorem er_bind {α β} (x : M α) (f : α → M β) : er (x >>= f) = (er x >>= fun a => er (f a)) := by
  cases x <;> rfl

theorem er_arith (t : IT) (m : Mode) (s : String) (r : Int) : er (arith t m s r) = arithK t m r := by
  unfold arith arithK
  split
  · rfl
  · cases m <;> rfl

theorem er_ite {α} (c : Prop) [Decidable c] (x y : M α) : er (if c then x else y) = if c then er x else er y := by
  split <;> rfl

theorem okBindK {α β} (a : α) (f : α → Except String β) : ((.ok a : Except String α) >>= f) = f a := rfl
theorem bindOkK {α} (x : Except String α) : (x >>= fun a => (.ok a : Except String α)) = x := by
  cases x <;> rfl
theorem bindAssocK {α β γ} (x : Except String α) (f : α → Except String β) (g : β → Except String γ) :
    ((x >>= f) >>= g) = (x >>= fun a => f a >>= g) := by
  cases x <;> rfl

/-- decidable form of `x = .ok v` (the error type has no `DecidableEq` instance on `Except`) -/
def okIs {α} [DecidableEq α] (x : M α) (v : α) : Bool := match x with | .ok a => decide (a = v) | .error _ => false

theorem okIs_eq {α} [DecidableEq α] (x : M α) (v : α) (h : okIs x v = true) : x = .ok v := by
  cases x with
  | error e => simp [okIs] at h
  | ok a => simp only [okIs, decide_eq_true_eq] at h; rw [h]

/-- two computations agree up to fault-site names -/
abbrev Same {α} (x y : M α) : Prop := er x = er y

theorem shiftD : (2 : Int) ^ D.toNat = 8192 := by decide
theorem Qhalf : Int.tdiv Q 2 = 4190208 := by decide

macro "tie" : tactic => `(tactic|
  (simp only [Same, er_bind, er_arith, er_pure, er_ok, er_ite, okBindK, bindOkK, bindAssocK, apply_ite er, Qhalf, shiftD, decide_eq_true_eq]))


/-! ## Shared skeletons -/

def mulInvWith (f : Int → Int → M Int) (m : Mode) (chat : Poly) (v : List Poly) : M (List Poly) := do
  let prods ← v.mapM (fun s => zipWithM f chat s)
  invNtt m prods

theorem mulInv_shape (m : Mode) (site : String) (chat : Poly) (v : List Poly) :
    mulInv m site chat v = mulInvWith (fun c x => do
      let p ← arith .i64 m site (c * x)
      mont_reduce m p) m chat v := rfl

def unMontCenteredWith (f g : Int → M Int) (m : Mode) (v : List Poly) : M (List Poly) := do
  let a ← v.mapM (fun p => p.mapM f)
  let b ← invNtt m a
  b.mapM (fun p => p.mapM g)

theorem unMontCentered_shape (m : Mode) (v : List Poly) :
    unMontCentered m v = unMontCenteredWith (mont_reduce m)
      (fun x => if x > Int.tdiv Q 2 then arith .i32 m "lib.rs:into_bytes:x-Q" (x - Q) else pure x) m v := rfl

def precomputeT1With (f : Int → M Int) (m : Mode) (t1 : List Poly) : M (List Poly) := do
  let t1hm ← nttMont m t1
  let sh ← t1hm.mapM (fun p => p.mapM f)
  toMont m sh

theorem precomputeT1_shape (m : Mode) (t1 : List Poly) :
    precomputeT1 m t1 = precomputeT1With (fun x => mont_reduce m (IT.i64.wrap (x * 2 ^ D.toNat))) m t1 := rfl

def addVectorNttWith (f : Int → Int → M Int) (v w : List Poly) : M (List Poly) :=
  zipWithM (fun p q => zipWithM f p q) v w

theorem addVectorNtt_shape (m : Mode) (v w : List Poly) :
    addVectorNtt m v w = addVectorNttWith (fun a b => arith .i32 m "helpers.rs:add_vector_ntt:+" (a + b)) v w := rfl

theorem add_vector (m : Mode) (a b : Int) :
    Same (arith .i32 m "helpers.rs:add_vector_ntt:+" (a + b)) (Exprs.add_vector_ntt_anon m a b) := by
  unfold Exprs.add_vector_ntt_anon; tie

/-- `add_vector_ntt` consists of exactly this comprehension -/
theorem comprehensions_add_vector_ntt : Exprs.add_vector_ntt_comprehensions = ["add_vector_ntt_anon"] := by decide

end Fips204.SrcTie
