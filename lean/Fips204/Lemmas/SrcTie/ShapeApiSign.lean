import Fips204.Gen.Shapes
/-!
# Source tie, statement level: ShapeApiSign

`Gen/Shapes.lean` is regenerated from `/repo/src` on every run and holds a fingerprint of the comment-free, white-space-normalised text of each
function that `Impl/*` models by hand.  The theorems below say that each fingerprint is the one of the text the model was written from and
validated against (correspondence runs in both build profiles).  They carry no mathematical content: they pin the *statements* around the
expressions that the other `Lemmas/SrcTie/*` modules tie - loop structure, which buffer feeds which call, slices - so that a change there stops a
named theorem from checking even when no generated input exposes it.  A harmless rewrite breaks them too (reported as `no-failing-input-found`
unless the search finds an input); after the model has been re-validated against the new text, the number is updated here.
-/
namespace Fips204.SrcTie.Shape
open Fips204.Gen

/-- the text of `try_sign_with_rng` is the one Impl.sign was modelled on -/
theorem lib_try_sign_with_rng_text_unchanged : Shapes.lib_try_sign_with_rng = 298899175878523003 := rfl

/-- the text of `try_hash_sign_with_rng` is the one Impl.hashSign was modelled on -/
theorem lib_try_hash_sign_with_rng_text_unchanged : Shapes.lib_try_hash_sign_with_rng = 225378858554146707 := rfl

/-- the text of `internal_sign` is the one Impl.internalSign was modelled on -/
theorem lib_internal_sign_text_unchanged : Shapes.lib_internal_sign = 1054471056498608153 := rfl

end Fips204.SrcTie.Shape
