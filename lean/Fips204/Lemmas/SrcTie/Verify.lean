/-
  Lemmas.SrcTie.Verify — the model of verify_internal and expand_public computes the per-coefficient expressions of the current source
  (skeleton by `rfl`, one tie per expression; see SrcTie/Basic for the method).
-/
import Fips204.Lemmas.SrcTie.Basic
namespace Fips204.SrcTie
open Fips204 Fips204.Gen Fips204.Impl

def wApproxOfWith (fd : Int → Int → Int → M Int) (m : Mode) (aHat : List (List Poly)) (z : List Poly) (c : Poly) (t1d2 : List Poly) :
    M (List Poly) := do
  let zHat ← ntt m z
  let az ← matVecMul m aHat zHat
  let chats ← ntt m [c]
  let chat ← idx "ml_dsa.rs:verify_internal:ntt(&[c])[0]" chats 0
  let diff ← zipWithM (fun ap tp => zipWith3M fd ap chat tp) az t1d2
  invNtt m diff

theorem wApproxOf_shape (m : Mode) (aHat : List (List Poly)) (z : List Poly) (c : Poly) (t1d2 : List Poly) :
    wApproxOf m aHat z c t1d2 = wApproxOfWith (fun a c t => do
      let pr ← arith .i64 m "ml_dsa.rs:verify_internal:c_hat*t1" (c * t)
      let r ← mont_reduce m pr
      arith .i32 m "ml_dsa.rs:verify_internal:az-ct1" (a - r)) m aHat z c t1d2 := rfl

def verifyInternalWith (fu : Int → Int → M Int) (m : Mode) (O : Oracles) (ctest : Bool) (p : ParamSet) (pk : PublicKey)
    (msg sig ctx oid phm : List Nat) (nist : Bool) : M Bool := do
  match ← sigDecode m p sig with
  | none => pure false
  | some (cTilde, z, h) =>
  dassertM m "ml_dsa.rs:verify_internal:debug_assert(Alg 8: i_norm out of range)" (do
    let n ← infinityNorm m z
    pure (decide (n ≤ p.gamma1)))
  let mu := muOf O domPure_verify domHash_verify pk.tr msg ctx oid phm nist
  let c ← sampleInBall m O false p.tau cTilde
  let aHat ← expandA m O ctest p pk.rho
  let wApprox ← wApproxOf m aHat z c pk.t1d2
  let w1 ← zipWithM (fun hp wp => zipWithM fu hp wp) h wApprox
  let w1t ← w1Encode m p w1 p.w1Len
  let cTildeP := O.h (mu ++ w1t) p.lambdaDiv4
  let zn ← infinityNorm m z
  let g1b ← arith .i32 m "ml_dsa.rs:verify_internal:gamma1-beta" (p.gamma1 - p.beta)
  let left := decide (zn < g1b)
  let right := decide (cTilde = cTildeP)
  pure (left && right)

theorem verifyInternal_shape (m : Mode) (O : Oracles) (ctest : Bool) (p : ParamSet) (pk : PublicKey)
    (msg sig ctx oid phm : List Nat) (nist : Bool) :
    verifyInternal m O ctest p pk msg sig ctx oid phm nist =
      verifyInternalWith (fun hh r => use_hint m p.gamma2 hh r) m O ctest p pk msg sig ctx oid phm nist := rfl

theorem verify_diff (m : Mode) (a c t : Int) :
    Same (do
      let pr ← arith .i64 m "ml_dsa.rs:verify_internal:c_hat*t1" (c * t)
      let r ← mont_reduce m pr
      arith .i32 m "ml_dsa.rs:verify_internal:az-ct1" (a - r)) (Exprs.verify_c_hat m a c t) := by
  unfold Exprs.verify_c_hat; tie

theorem verify_w1 (m : Mode) (g hh r : Int) : Same (use_hint m g hh r) (Exprs.verify_wp_1 m g hh r) := by
  unfold Exprs.verify_wp_1; tie

/-- `expand_public` runs the precompute skeleton (`precomputeT1_shape`) with the source's expression -/
theorem expand_public_precompute (m : Mode) (x : Int) :
    Same (mont_reduce m (IT.i64.wrap (x * 2 ^ D.toNat))) (Exprs.expand_public_t1_d2_hat_mont m x) := by
  unfold Exprs.expand_public_t1_d2_hat_mont; tie

/-- `verify_internal` and `expand_public` contain exactly the comprehensions accounted for above -/
theorem comprehensions_verify :
    Exprs.verify_comprehensions = ["verify_c_hat", "verify_wp_1"] ∧
    Exprs.expand_public_comprehensions = ["expand_public_t1_d2_hat_mont"] := by
  decide

end Fips204.SrcTie
