import Fips204.Gen.Shapes
/-!
# Source tie, statement level: ShapeApiDefault

The entry points without an RNG argument (`try_keygen`, `try_sign`, `try_hash_sign`, feature `default-rng`) and the module-level forwarding functions:
each is a one-line call of the `_with_rng` variant with the operating system's generator, which is how `Impl/Api` models them (the RNG automaton with
an arbitrary script).  See `ShapeXof.lean` for what these theorems are.
-/
namespace Fips204.SrcTie.Shape
open Fips204.Gen

/-- the text of `try_keygen` (traits.rs) is the forwarding call the model assumes -/
theorem traits_try_keygen_text_unchanged : Shapes.traits_try_keygen = 1052921194231997552 := rfl

/-- the text of `try_sign` (traits.rs) is the forwarding call the model assumes -/
theorem traits_try_sign_text_unchanged : Shapes.traits_try_sign = 256180968092423089 := rfl

/-- the text of `try_hash_sign` (traits.rs) is the forwarding call the model assumes -/
theorem traits_try_hash_sign_text_unchanged : Shapes.traits_try_hash_sign = 234598218800796869 := rfl

/-- the text of `try_keygen` (lib.rs) is the forwarding call the model assumes -/
theorem lib_try_keygen_text_unchanged : Shapes.lib_try_keygen = 779432934896440317 := rfl

/-- the text of `try_keygen_with_rng` (lib.rs) is the forwarding call the model assumes -/
theorem lib_try_keygen_with_rng_text_unchanged : Shapes.lib_try_keygen_with_rng = 419766149254066698 := rfl

end Fips204.SrcTie.Shape
