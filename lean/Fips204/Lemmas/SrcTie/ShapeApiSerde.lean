import Fips204.Gen.Shapes
/-!
# Source tie, statement level: ShapeApiSerde

`Gen/Shapes.lean` is regenerated from `/repo/src` on every run and holds a fingerprint of the comment-free, white-space-normalised text of each
function that `Impl/*` models by hand.  The theorems below say that each fingerprint is the one of the text the model was written from and
validated against (correspondence runs in both build profiles).  They carry no mathematical content: they pin the *statements* around the
expressions that the other `Lemmas/SrcTie/*` modules tie - loop structure, which buffer feeds which call, slices - so that a change there stops a
named theorem from checking even when no generated input exposes it.  A harmless rewrite breaks them too (reported as `no-failing-input-found`
unless the search finds an input); after the model has been re-validated against the new text, the number is updated here.
-/
namespace Fips204.SrcTie.Shape
open Fips204.Gen

/-- the text of `try_from_bytes` is the one Impl.expandPrivate (wrapper) was modelled on -/
theorem lib_try_from_bytes_text_unchanged : Shapes.lib_try_from_bytes = 496696940442781744 := rfl

/-- the text of `into_bytes` is the one Impl.skIntoBytes was modelled on -/
theorem lib_into_bytes_text_unchanged : Shapes.lib_into_bytes = 564755556086475530 := rfl

/-- the text of `try_from_bytes_2` is the one Impl.expandPublic (wrapper) was modelled on -/
theorem lib_try_from_bytes_2_text_unchanged : Shapes.lib_try_from_bytes_2 = 248678174610800343 := rfl

/-- the text of `into_bytes_2` is the one Impl.pkIntoBytes was modelled on -/
theorem lib_into_bytes_2_text_unchanged : Shapes.lib_into_bytes_2 = 264954079711979321 := rfl

/-- the text of `get_public_key` is the one Impl.privateToPublicKey (wrapper) was modelled on -/
theorem lib_get_public_key_text_unchanged : Shapes.lib_get_public_key = 802809009256096042 := rfl

end Fips204.SrcTie.Shape
