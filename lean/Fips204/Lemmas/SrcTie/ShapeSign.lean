import Fips204.Gen.Shapes
/-!
# Source tie, statement level: ShapeSign

`Gen/Shapes.lean` is regenerated from `/repo/src` on every run and holds a fingerprint of the comment-free, white-space-normalised text of each
function that `Impl/*` models by hand.  The theorems below say that each fingerprint is the one of the text the model was written from and
validated against (correspondence runs in both build profiles).  They carry no mathematical content: they pin the *statements* around the
expressions that the other `Lemmas/SrcTie/*` modules tie - loop structure, which buffer feeds which call, slices - so that a change there stops a
named theorem from checking even when no generated input exposes it.  A harmless rewrite breaks them too (reported as `no-failing-input-found`
unless the search finds an input); after the model has been re-validated against the new text, the number is updated here.
-/
namespace Fips204.SrcTie.Shape
open Fips204.Gen

/-- the text of `sign_internal` is the one Impl.signInternal / signLoop / signAttempt was modelled on -/
theorem ml_dsa_sign_internal_text_unchanged : Shapes.ml_dsa_sign_internal = 895950819683158753 := rfl

end Fips204.SrcTie.Shape
