/-
  Lemmas.SrcTie.Ntt — the butterflies of `ntt` / `inv_ntt`, the copy-in and the final scaling: the model runs the
  expressions of the current source (see SrcTie/Basic for the method).
-/
import Fips204.Lemmas.SrcTie.Basic
namespace Fips204.SrcTie
open Fips204 Fips204.Gen Fips204.Impl

/-- one forward layer on a block, with the three butterfly expressions abstracted -/
def nttLayerWith (ft : Int → Int → M Int) (fhi flo : Int → Int → M Int) (k : Nat) (w : Poly) : M (Poly × Poly) := do
  let half := w.length / 2
  let lo := w.take half
  let hi := w.drop half
  let z ← zeta "ntt.rs:ntt:ZETA_TABLE_MONT[m]" k
  let ts ← hi.mapM (ft z)
  let hi' ← zipWithM fhi lo ts
  let lo' ← zipWithM flo lo ts
  pure (lo', hi')

theorem nttRec_shape (m : Mode) (d k : Nat) (w : Poly) :
    nttRec m (d + 1) k w = (do
      let (lo', hi') ← nttLayerWith
        (fun z x => do
          let p ← arith .i64 m "ntt.rs:ntt:zeta*w" (z * x)
          mont_reduce m p)
        (fun a t => arith .i32 m "ntt.rs:ntt:w[j]-t" (a - t))
        (fun a t => arith .i32 m "ntt.rs:ntt:w[j]+t" (a + t)) k w
      let l ← nttRec m d (2 * k) lo'
      let h ← nttRec m d (2 * k + 1) hi'
      pure (l ++ h)) := by
  simp only [nttRec, nttLayerWith, bind_assoc, pure_bind]

theorem ntt_t (m : Mode) (z x : Int) :
    Same (do let p ← arith .i64 m "ntt.rs:ntt:zeta*w" (z * x); mont_reduce m p) (Exprs.ntt_t m z x) := by
  unfold Exprs.ntt_t; tie

theorem ntt_hi (m : Mode) (a t : Int) : Same (arith .i32 m "ntt.rs:ntt:w[j]-t" (a - t)) (Exprs.ntt_hi m a t) := by
  unfold Exprs.ntt_hi; tie

theorem ntt_lo (m : Mode) (a t : Int) : Same (arith .i32 m "ntt.rs:ntt:w[j]+t" (a + t)) (Exprs.ntt_lo m a t) := by
  unfold Exprs.ntt_lo; tie

/-- the forward transform copies its input unchanged -/
theorem ntt_copy_in (m : Mode) (w : Int) : Exprs.ntt_w_hat m w = .ok w := rfl

/-- one inverse layer on two transformed halves -/
def invLayerWith (fz : Int → M Int) (fs fd : Int → Int → M Int) (fm : Int → Int → M Int) (k : Nat) (lo hi : Poly) : M Poly := do
  let z0 ← zeta "ntt.rs:inv_ntt:ZETA_TABLE_MONT[m]" k
  let z ← fz z0
  let sums ← zipWithM fs lo hi
  let diffs ← zipWithM (fun t u => do
    let d ← fd t u
    fm z d) lo hi
  pure (sums ++ diffs)

theorem invRec_shape (m : Mode) (d k : Nat) (w : Poly) :
    invRec m (d + 1) k w = (do
      let half := w.length / 2
      let lo ← invRec m d (2 * k + 1) (w.take half)
      let hi ← invRec m d (2 * k) (w.drop half)
      invLayerWith (fun z0 => arith .i32 m "ntt.rs:inv_ntt:-zeta" (-z0))
        (fun t u => arith .i32 m "ntt.rs:inv_ntt:t+w[j+len]" (t + u))
        (fun t u => arith .i32 m "ntt.rs:inv_ntt:t-w[j+len]" (t - u))
        (fun z d => do
          let p ← arith .i64 m "ntt.rs:inv_ntt:zeta*w" (z * d)
          mont_reduce m p) k lo hi) := by
  simp only [invRec, invLayerWith, bind_assoc]

theorem inv_ntt_zeta (m : Mode) (z : Int) : Same (arith .i32 m "ntt.rs:inv_ntt:-zeta" (-z)) (Exprs.inv_ntt_zeta m z) := by
  unfold Exprs.inv_ntt_zeta; tie

theorem inv_ntt_sum (m : Mode) (t u : Int) : Same (arith .i32 m "ntt.rs:inv_ntt:t+w[j+len]" (t + u)) (Exprs.inv_ntt_sum m t u) := by
  unfold Exprs.inv_ntt_sum; tie

theorem inv_ntt_diff (m : Mode) (t u : Int) : Same (arith .i32 m "ntt.rs:inv_ntt:t-w[j+len]" (t - u)) (Exprs.inv_ntt_diff m t u) := by
  unfold Exprs.inv_ntt_diff; tie

theorem inv_ntt_mul (m : Mode) (z d : Int) :
    Same (do let p ← arith .i64 m "ntt.rs:inv_ntt:zeta*w" (z * d); mont_reduce m p) (Exprs.inv_ntt_mul m z d) := by
  unfold Exprs.inv_ntt_mul; tie

def invNttPolyWith' (copyIn : Int → M Int) (fin : Int → M Int) (m : Mode) (w : Poly) : M Poly := do
  let w0 ← w.mapM copyIn
  let w1 ← invRec m 8 1 w0
  w1.mapM fin

theorem invNttPoly_shape (m : Mode) (w : Poly) :
    invNttPoly m w = invNttPolyWith' (partial_reduce32 m) (fun x => do
      let p ← arith .i64 m "ntt.rs:inv_ntt:F_MONT*w" (F_MONT * x)
      let r ← mont_reduce m p
      full_reduce32 m r) m w := rfl

theorem inv_ntt_copy_in (m : Mode) (x : Int) : Same (partial_reduce32 m x) (Exprs.inv_ntt_w_out m x) := by
  unfold Exprs.inv_ntt_w_out; tie

theorem inv_ntt_final (m : Mode) (x : Int) :
    Same (do
      let p ← arith .i64 m "ntt.rs:inv_ntt:F_MONT*w" (F_MONT * x)
      let r ← mont_reduce m p
      full_reduce32 m r) (Exprs.inv_ntt_final m x) := by
  unfold Exprs.inv_ntt_final; tie

theorem comprehensions_ntt :
    Exprs.ntt_comprehensions = ["ntt_w_hat"] ∧ Exprs.inv_ntt_comprehensions = ["inv_ntt_w_out"] := by decide

end Fips204.SrcTie
