import Fips204.Gen.Shapes
/-!
# Source tie, statement level: ShapeSig

`Gen/Shapes.lean` is regenerated from `/repo/src` on every run and holds a fingerprint of the comment-free, white-space-normalised text of each
function that `Impl/*` models by hand.  The theorems below say that each fingerprint is the one of the text the model was written from and
validated against (correspondence runs in both build profiles).  They carry no mathematical content: they pin the *statements* around the
expressions that the other `Lemmas/SrcTie/*` modules tie - loop structure, which buffer feeds which call, slices - so that a change there stops a
named theorem from checking even when no generated input exposes it.  A harmless rewrite breaks them too (reported as `no-failing-input-found`
unless the search finds an input); after the model has been re-validated against the new text, the number is updated here.
-/
namespace Fips204.SrcTie.Shape
open Fips204.Gen

/-- the text of `sig_encode` is the one Impl.sigEncode was modelled on -/
theorem encodings_sig_encode_text_unchanged : Shapes.encodings_sig_encode = 32490380580380076 := rfl

/-- the text of `sig_decode` is the one Impl.sigDecode was modelled on -/
theorem encodings_sig_decode_text_unchanged : Shapes.encodings_sig_decode = 1071361140127372309 := rfl

/-- the text of `w1_encode` is the one Impl.w1Encode was modelled on -/
theorem encodings_w1_encode_text_unchanged : Shapes.encodings_w1_encode = 674506049859519087 := rfl

end Fips204.SrcTie.Shape
