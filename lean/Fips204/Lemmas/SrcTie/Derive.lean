/-
  Lemmas.SrcTie.Derive — the model of private_to_public_key computes the per-coefficient expressions of the current source
  (skeleton by `rfl`, one tie per expression; see SrcTie/Basic for the method).
-/
import Fips204.Lemmas.SrcTie.Basic
namespace Fips204.SrcTie
open Fips204 Fips204.Gen Fips204.Impl

def privateToPublicKeyWith (fs1 ft : Int → M Int) (m : Mode) (O : Oracles) (p : ParamSet) (sk : PrivateKey) : M PublicKey := do
  let aHat ← expandA m O false p sk.rho
  let s1Hat ← sk.s1.mapM (fun q => q.mapM fs1)
  let s2 ← unMontCentered m sk.s2
  let as1 ← matVecMul m aHat s1Hat
  let tnr ← addVectorNtt m (← invNtt m as1) s2
  let t ← tnr.mapM (fun q => q.mapM ft)
  let (t1, _) ← power2round m t
  let t1d2 ← precomputeT1 m t1
  pure { rho := sk.rho, tr := sk.tr, t1d2 := t1d2 }

theorem privateToPublicKey_shape (m : Mode) (O : Oracles) (p : ParamSet) (sk : PrivateKey) :
    privateToPublicKey m O p sk = privateToPublicKeyWith (mont_reduce m) (full_reduce32 m) m O p sk := rfl

theorem derive_s1 (m : Mode) (x : Int) : Same (mont_reduce m x) (Exprs.derive_s_1_hat m x) := by
  unfold Exprs.derive_s_1_hat; tie

/-- `s_2` goes through `unMontCentered` (`unMontCentered_shape`): Montgomery form out ... -/
theorem derive_s2_unmont (m : Mode) (x : Int) : Same (mont_reduce m x) (Exprs.derive_s_2 m x) := by
  unfold Exprs.derive_s_2; tie

/-- ... and re-centred around zero after the inverse transform -/
theorem derive_s2_recentre (m : Mode) (x : Int) :
    Same (if x > Int.tdiv Q 2 then arith .i32 m "lib.rs:into_bytes:x-Q" (x - Q) else pure x) (Exprs.derive_s_2_2 m x) := by
  unfold Exprs.derive_s_2_2; tie

theorem derive_t (m : Mode) (x : Int) : Same (full_reduce32 m x) (Exprs.derive_t_not_reduced m x) := by
  unfold Exprs.derive_t_not_reduced; tie

theorem derive_precompute (m : Mode) (x : Int) :
    Same (mont_reduce m (IT.i64.wrap (x * 2 ^ D.toNat))) (Exprs.derive_t1_d2_hat_mont m x) := by
  unfold Exprs.derive_t1_d2_hat_mont; tie

/-- `private_to_public_key` contains exactly the comprehensions accounted for above, in this order -/
theorem comprehensions_derive :
    Exprs.derive_comprehensions = ["derive_s_1_hat", "derive_s_2", "derive_s_2_2", "derive_t_not_reduced", "derive_t1_d2_hat_mont"] := by
  decide

end Fips204.SrcTie
