/-
  Lemmas.SrcTie.Sampling — `expand_mask` (width, counter) and `sample_in_ball` (index arithmetic, sign): the model takes
  the expressions of the current source (see SrcTie/Basic for the method).
-/
import Fips204.Lemmas.SrcTie.Basic
namespace Fips204.SrcTie
open Fips204 Fips204.Gen Fips204.Impl

/-! ### `expand_mask` (Algorithm 34) -/

/-- `c = 1 + bit_length(gamma1 - 1)` for the two values of gamma1, as the model computes it (18 and 20 bits) -/
theorem expand_mask_c (m : Mode) :
    Exprs.expand_mask_c m 131072 = .ok 18 ∧ Exprs.expand_mask_c m 524288 = .ok 20 ∧
    (do let g1 ← arith .i32 m "hashing.rs:expand_mask:gamma1-1" (131072 - 1); let bl ← bitLen m g1; pure (1 + bl) : M Nat) = .ok 18 ∧
    (do let g1 ← arith .i32 m "hashing.rs:expand_mask:gamma1-1" (524288 - 1); let bl ← bitLen m g1; pure (1 + bl) : M Nat) = .ok 20 := by
  refine ⟨okIs_eq _ _ ?_, okIs_eq _ _ ?_, okIs_eq _ _ ?_, okIs_eq _ _ ?_⟩ <;> cases m <;> decide +kernel

/-- the per-polynomial counter `n = mu + r` is a `u16` addition -/
theorem expand_mask_n (m : Mode) (mu : Int) (r : Nat) :
    Same (arith .u16 m "hashing.rs:expand_mask:mu+r" (mu + Int.ofNat r)) (Exprs.expand_mask_n m mu r) := by
  unfold Exprs.expand_mask_n; tie
  rfl

/-- the unpacked range is `[-(gamma1 - 1), gamma1]` -/
theorem expand_mask_unpack_args : Exprs.expand_mask_unpack_args = "gamma1 - 1, gamma1" := by decide

/-! ### `sample_in_ball` (Algorithm 29) -/

/-- `index = i + tau - 256` inside the loop range `256 - tau ..= 255` -/
theorem sib_index (m : Mode) (i tau : Nat) (h1 : 256 ≤ i + tau) (h2 : i < 256) (h3 : tau ≤ 256) :
    Exprs.sib_index m i tau = .ok (Int.ofNat (i + tau - 256)) := by
  unfold Exprs.sib_index
  have e1 : arith .usize m "hashing.rs:sample_in_ball.sib_index:+#1" ((i : Int) + (tau : Int)) = .ok ((i : Int) + (tau : Int)) := by
    unfold arith; rw [if_pos]; · rfl
    · constructor <;> simp only [IT.lo, IT.hi] <;> omega
  have e2 : arith .usize m "hashing.rs:sample_in_ball.sib_index:-#2" ((i : Int) + (tau : Int) - 256) = .ok ((i : Int) + (tau : Int) - 256) := by
    unfold arith; rw [if_pos]; · rfl
    · constructor <;> simp only [IT.lo, IT.hi] <;> omega
  simp only [e1, e2, bind, Except.bind, pure, Except.pure, Int.ofNat_eq_natCast]
  congr 1; omega

theorem sib_range (m : Mode) (tau : Nat) (h : tau ≤ 256) : Exprs.sib_range m tau = .ok (Int.ofNat (256 - tau)) := by
  unfold Exprs.sib_range
  have e1 : arith .usize m "hashing.rs:sample_in_ball.sib_range:-#1" (256 - (tau : Int)) = .ok (256 - (tau : Int)) := by
    unfold arith; rw [if_pos]; · rfl
    · constructor <;> simp only [IT.lo, IT.hi] <;> omega
  simp only [e1, bind, Except.bind, pure, Except.pure, Int.ofNat_eq_natCast]
  congr 1; omega

/-- the coefficient written is `1 - 2 * (shifted & 1)`: +1 or -1 by the low bit (all 256 byte values) -/
theorem sib_value (m : Mode) (s : Fin 256) : Exprs.sib_value m s.val = .ok (1 - 2 * Int.ofNat (s.val % 2)) := by
  apply okIs_eq
  revert s
  cases m <;> decide +kernel

end Fips204.SrcTie
