import Fips204.Gen.Shapes
/-!
# Source tie, statement level: ShapeLin

`Gen/Shapes.lean` is regenerated from `/repo/src` on every run and holds a fingerprint of the comment-free, white-space-normalised text of each
function that `Impl/*` models by hand.  The theorems below say that each fingerprint is the one of the text the model was written from and
validated against (correspondence runs in both build profiles).  They carry no mathematical content: they pin the *statements* around the
expressions that the other `Lemmas/SrcTie/*` modules tie - loop structure, which buffer feeds which call, slices - so that a change there stops a
named theorem from checking even when no generated input exposes it.  A harmless rewrite breaks them too (reported as `no-failing-input-found`
unless the search finds an input); after the model has been re-validated against the new text, the number is updated here.
-/
namespace Fips204.SrcTie.Shape
open Fips204.Gen

/-- the text of `mat_vec_mul` is the one Impl.matVecMul was modelled on -/
theorem helpers_mat_vec_mul_text_unchanged : Shapes.helpers_mat_vec_mul = 795819463612001432 := rfl

/-- the text of `add_vector_ntt` is the one Impl.addVectorNtt was modelled on -/
theorem helpers_add_vector_ntt_text_unchanged : Shapes.helpers_add_vector_ntt = 956621292477817315 := rfl

/-- the text of `to_mont` is the one Impl.toMont was modelled on -/
theorem helpers_to_mont_text_unchanged : Shapes.helpers_to_mont = 586068575218975197 := rfl

/-- the text of `infinity_norm` is the one Impl.infinityNorm was modelled on -/
theorem helpers_infinity_norm_text_unchanged : Shapes.helpers_infinity_norm = 229003671923847260 := rfl

/-- the text of `power2round` is the one Impl.power2roundVec was modelled on -/
theorem high_low_power2round_text_unchanged : Shapes.high_low_power2round = 255003570541700475 := rfl

/-- the text of `ntt` is the one Impl.ntt was modelled on -/
theorem ntt_ntt_text_unchanged : Shapes.ntt_ntt = 134610812366834792 := rfl

/-- the text of `inv_ntt` is the one Impl.invNtt was modelled on -/
theorem ntt_inv_ntt_text_unchanged : Shapes.ntt_inv_ntt = 319972786458475503 := rfl

end Fips204.SrcTie.Shape
