/-
  Lemmas.SrcTie.Sign — the model of sign_internal computes the per-coefficient expressions of the current source
  (skeleton by `rfl`, one tie per expression; see SrcTie/Basic for the method).
-/
import Fips204.Lemmas.SrcTie.Basic
namespace Fips204.SrcTie
open Fips204 Fips204.Gen Fips204.Impl

def signAttemptWith (fw1 : Int → M Int) (fz fr0 : Int → Int → M Int) (fh : Int → Int → Int → M Int)
    (m : Mode) (O : Oracles) (ctest : Bool) (p : ParamSet) (sk : PrivateKey) (aHat : List (List Poly))
    (mu rhoPP : List Nat) (kappa : Int) : M (Option (List Nat × List Poly × List Poly)) := do
  let beta := p.beta
  let y ← expandMask m O p rhoPP kappa
  let w ← invNtt m (← matVecMul m aHat (← ntt m y))
  let w1 ← w.mapM (fun q => q.mapM fw1)
  let w1t ← w1Encode m p w1 p.w1Len
  let cTilde := O.h (mu ++ w1t) p.lambdaDiv4
  let c ← sampleInBall m O ctest p.tau cTilde
  let chats ← ntt m [c]
  let chat ← idx "ml_dsa.rs:sign_internal:ntt(&[c])[0]" chats 0
  let cs1 ← mulInv m "ml_dsa.rs:sign_internal:c_hat*s1" chat sk.s1
  let cs2 ← mulInv m "ml_dsa.rs:sign_internal:c_hat*s2" chat sk.s2
  let z ← zipWithM (fun yp cp => zipWithM fz yp cp) y cs1
  let r0 ← zipWithM (fun wp cp => zipWithM fr0 wp cp) w cs2
  let zNorm ← infinityNorm m z
  let r0Norm ← infinityNorm m r0
  let g1b ← arith .i32 m "ml_dsa.rs:sign_internal:gamma1-beta" (p.gamma1 - beta)
  let g2b ← arith .i32 m "ml_dsa.rs:sign_internal:gamma2-beta" (p.gamma2 - beta)
  if !ctest && (decide (zNorm ≥ g1b) || decide (r0Norm ≥ g2b)) then pure none else
  let ct0 ← mulInv m "ml_dsa.rs:sign_internal:c_hat*t0" chat sk.t0
  let h ← zipWith3M (fun wp c2p c0p => zipWith3M fh wp c2p c0p) w cs2 ct0
  if ctest then pure (some (cTilde, z, h)) else
  let ct0Norm ← infinityNorm m ct0
  let hsum ← (h.map (fun q => q.foldl (· + ·) 0)).foldlM (fun a b => arith .i32 m "ml_dsa.rs:sign_internal:sum" (a + b)) 0
  if decide (ct0Norm ≥ p.gamma2) || decide (hsum > p.omega) then pure none else
  pure (some (cTilde, z, h))

/-- one pass of the signing loop is the skeleton above with these four per-coefficient lambdas
    (the three `c_hat * s` products go through `mulInv`, see `mulInv_shape`) -/
theorem signAttempt_shape (m : Mode) (O : Oracles) (ctest : Bool) (p : ParamSet) (sk : PrivateKey) (aHat : List (List Poly))
    (mu rhoPP : List Nat) (kappa : Int) :
    signAttempt m O ctest p sk aHat mu rhoPP kappa =
      signAttemptWith (high_bits m p.gamma2)
        (fun a b => do
          let s ← arith .i32 m "ml_dsa.rs:sign_internal:y+cs1" (a + b)
          partial_reduce32 m s)
        (fun a b => do
          let s ← arith .i32 m "ml_dsa.rs:sign_internal:w-cs2" (a - b)
          let r ← partial_reduce32 m s
          low_bits m p.gamma2 r)
        (fun a b c0 => do
          let qc ← arith .i32 m "ml_dsa.rs:sign_internal:Q-ct0" (Q - c0)
          let s1 ← arith .i32 m "ml_dsa.rs:sign_internal:w-cs2" (a - b)
          let s2 ← arith .i32 m "ml_dsa.rs:sign_internal:w-cs2+ct0" (s1 + c0)
          let r ← partial_reduce32 m s2
          let hb ← make_hint m p.gamma2 qc r
          pure (if hb then (1 : Int) else 0))
        m O ctest p sk aHat mu rhoPP kappa := rfl

def signInternalWith (fzm : Int → M Int) (m : Mode) (O : Oracles) (ctest : Bool) (p : ParamSet) (fuel : Nat) (sk : PrivateKey)
    (msg ctx oid phm rnd : List Nat) (nist : Bool) : M SignOut := do
  let aHat ← expandA m O ctest p sk.rho
  let mu := muOf O domPure_sign domHash_sign sk.tr msg ctx oid phm nist
  let rhoPP := O.h (sk.key ++ rnd ++ mu) 64
  let (cTilde, z, h, it) ← signLoop m O ctest p sk aHat mu rhoPP fuel 0 0
  let zmodq ← z.mapM (fun q => q.mapM fzm)
  let sig ← sigEncode m ctest p cTilde zmodq h
  pure { sig := sig, iters := it }

theorem signInternal_shape (m : Mode) (O : Oracles) (ctest : Bool) (p : ParamSet) (fuel : Nat) (sk : PrivateKey)
    (msg ctx oid phm rnd : List Nat) (nist : Bool) :
    signInternal m O ctest p fuel sk msg ctx oid phm rnd nist =
      signInternalWith (center_mod m) m O ctest p fuel sk msg ctx oid phm rnd nist := rfl

theorem sign_w1 (m : Mode) (g x : Int) : Same (high_bits m g x) (Exprs.sign_w_1 m g x) := by
  unfold Exprs.sign_w_1; tie

theorem sign_cs1 (m : Mode) (site : String) (c x : Int) :
    Same (do let p ← arith .i64 m site (c * x); mont_reduce m p) (Exprs.sign_cs1_hat m c x) := by
  unfold Exprs.sign_cs1_hat; tie

theorem sign_cs2 (m : Mode) (site : String) (c x : Int) :
    Same (do let p ← arith .i64 m site (c * x); mont_reduce m p) (Exprs.sign_cs2_hat m c x) := by
  unfold Exprs.sign_cs2_hat; tie

theorem sign_ct0 (m : Mode) (site : String) (c x : Int) :
    Same (do let p ← arith .i64 m site (c * x); mont_reduce m p) (Exprs.sign_ct0_hat m c x) := by
  unfold Exprs.sign_ct0_hat; tie

theorem sign_z (m : Mode) (a b : Int) :
    Same (do let s ← arith .i32 m "ml_dsa.rs:sign_internal:y+cs1" (a + b); partial_reduce32 m s) (Exprs.sign_z m a b) := by
  unfold Exprs.sign_z; tie

theorem sign_r0 (m : Mode) (g a b : Int) :
    Same (do
      let s ← arith .i32 m "ml_dsa.rs:sign_internal:w-cs2" (a - b)
      let r ← partial_reduce32 m s
      low_bits m g r) (Exprs.sign_r0 m g a b) := by
  unfold Exprs.sign_r0; tie

theorem sign_h (m : Mode) (g a b c0 : Int) :
    Same (do
      let qc ← arith .i32 m "ml_dsa.rs:sign_internal:Q-ct0" (Q - c0)
      let s1 ← arith .i32 m "ml_dsa.rs:sign_internal:w-cs2" (a - b)
      let s2 ← arith .i32 m "ml_dsa.rs:sign_internal:w-cs2+ct0" (s1 + c0)
      let r ← partial_reduce32 m s2
      let hb ← make_hint m g qc r
      pure (if hb then (1 : Int) else 0)) (Exprs.sign_h m g c0 a b) := by
  unfold Exprs.sign_h; tie

theorem sign_zmodq (m : Mode) (x : Int) : Same (center_mod m x) (Exprs.sign_zmodq m x) := by
  unfold Exprs.sign_zmodq; tie

/-- `sign_internal` contains exactly the comprehensions accounted for above, in this order -/
theorem comprehensions_sign :
    Exprs.sign_comprehensions = ["sign_w_1", "sign_cs1_hat", "sign_cs2_hat", "sign_z", "sign_r0", "sign_ct0_hat", "sign_h", "sign_zmodq"] := by
  decide

end Fips204.SrcTie
