/-
  Lemmas.SrcTie.Helpers — `is_in_range`, `infinity_norm`, and the butterflies of `ntt` / `inv_ntt`:
  the model runs the expressions of the current source (see SrcTie/Basic for the method).
-/
import Fips204.Lemmas.SrcTie.Basic
namespace Fips204.SrcTie
open Fips204 Fips204.Gen Fips204.Impl

/-! ### `is_in_range` -/

/-- on a one-element polynomial the model's `is_in_range` is the per-element test of the source
    (`w.0.iter().all(|&e| ..)`; the model's definition is `List.all` of the same test) -/
theorem is_in_range_elem (m : Mode) (e lo hi : Int) :
    Same (isInRange m [e] lo hi) (Exprs.is_in_range_elem m e lo hi) := by
  unfold Exprs.is_in_range_elem isInRange; tie
  simp only [List.all_cons, List.all_nil, Bool.and_true]

theorem isInRange_all (m : Mode) (w : Poly) (lo hi : Int) :
    isInRange m w lo hi = (do
      let nlo ← arith .i32 m "helpers.rs:is_in_range:-lo" (-lo)
      pure (w.all (fun e => decide (e ≥ nlo) && decide (e ≤ hi)))) := rfl

/-! ### `infinity_norm` -/

def infinityNormWith (f : Int → M Int) (w : List Poly) : M Int := do
  let vals ← w.flatten.mapM f
  match vals with
  | [] => throw (.expect "helpers.rs:infinity_norm:expect")
  | v :: vs => pure (vs.foldl (fun a b => if a < b then b else a) v)

theorem infinityNorm_shape (m : Mode) (w : List Poly) :
    infinityNorm m w = infinityNormWith (fun e => do
      let c ← center_mod m e
      arith .i32 m "helpers.rs:infinity_norm:abs" (absI c)) w := rfl

theorem infinity_norm_elem (m : Mode) (e : Int) :
    Same (do let c ← center_mod m e; arith .i32 m "helpers.rs:infinity_norm:abs" (absI c)) (Exprs.infinity_norm_elem m e) := by
  unfold Exprs.infinity_norm_elem; tie

end Fips204.SrcTie
