import Fips204.Gen.Shapes
/-!
# Source tie, statement level: ShapeXof

`Gen/Shapes.lean` is regenerated from `/repo/src` on every run and holds a fingerprint of the comment-free, white-space-normalised text of each
function that `Impl/*` models by hand.  The theorems below say that each fingerprint is the one of the text the model was written from and
validated against (correspondence runs in both build profiles).  They carry no mathematical content: they pin the *statements* around the
expressions that the other `Lemmas/SrcTie/*` modules tie - loop structure, which buffer feeds which call, slices - so that a change there stops a
named theorem from checking even when no generated input exposes it.  A harmless rewrite breaks them too (reported as `no-failing-input-found`
unless the search finds an input); after the model has been re-validated against the new text, the number is updated here.
-/
namespace Fips204.SrcTie.Shape
open Fips204.Gen

/-- the text of `h256_xof` is the one the h oracle (SHAKE256 over the concatenated slices) was modelled on -/
theorem hashing_h256_xof_text_unchanged : Shapes.hashing_h256_xof = 502941994942202256 := rfl

/-- the text of `g128_xof` is the one the g oracle (SHAKE128 over the concatenated slices) was modelled on -/
theorem hashing_g128_xof_text_unchanged : Shapes.hashing_g128_xof = 436184399378920807 := rfl

end Fips204.SrcTie.Shape
