/-
  Lemmas.SrcTie.Serialise — the model of the two into_bytes serialisers computes the per-coefficient expressions of the current source
  (skeleton by `rfl`, one tie per expression; see SrcTie/Basic for the method).
-/
import Fips204.Lemmas.SrcTie.Basic
namespace Fips204.SrcTie
open Fips204 Fips204.Gen Fips204.Impl

def pkIntoBytesWith (fa : Int → M Int) (fs : Int → Int) (m : Mode) (p : ParamSet) (pk : PublicKey) : M (List Nat) := do
  let a ← pk.t1d2.mapM (fun q => q.mapM fa)
  let t1d2 ← invNtt m a
  let t1 := t1d2.map (fun q => q.map fs)
  pkEncode m p pk.rho t1

theorem pkIntoBytes_shape (m : Mode) (p : ParamSet) (pk : PublicKey) :
    pkIntoBytes m p pk = pkIntoBytesWith (mont_reduce m) (fun x => x / 2 ^ D.toNat) m p pk := rfl

def skIntoBytesWith (un : Mode → List Poly → M (List Poly)) (m : Mode) (p : ParamSet) (sk : PrivateKey) : M (List Nat) := do
  let s1 ← un m sk.s1
  let s2 ← un m sk.s2
  let t0 ← un m sk.t0
  skEncode m p { rho := sk.rho, key := sk.key, tr := sk.tr, s1 := s1, s2 := s2, t0 := t0 }

/-- the private-key serialiser applies `unMontCentered` (`unMontCentered_shape`) to the three vectors -/
theorem skIntoBytes_shape (m : Mode) (p : ParamSet) (sk : PrivateKey) :
    skIntoBytes m p sk = skIntoBytesWith unMontCentered m p sk := rfl

theorem sk_bytes_unmont (m : Mode) (x : Int) :
    Same (mont_reduce m x) (Exprs.sk_into_bytes_s_1 m x) ∧ Same (mont_reduce m x) (Exprs.sk_into_bytes_s_2 m x) ∧
    Same (mont_reduce m x) (Exprs.sk_into_bytes_t_0 m x) := by
  refine ⟨?_, ?_, ?_⟩
  · unfold Exprs.sk_into_bytes_s_1; tie
  · unfold Exprs.sk_into_bytes_s_2; tie
  · unfold Exprs.sk_into_bytes_t_0; tie

theorem sk_bytes_recentre (m : Mode) (x : Int) :
    let f := (if x > Int.tdiv Q 2 then arith .i32 m "lib.rs:into_bytes:x-Q" (x - Q) else pure x : M Int)
    Same f (Exprs.sk_into_bytes_s_1_2 m x) ∧ Same f (Exprs.sk_into_bytes_s_2_2 m x) ∧ Same f (Exprs.sk_into_bytes_t_0_2 m x) := by
  refine ⟨?_, ?_, ?_⟩
  · unfold Exprs.sk_into_bytes_s_1_2; tie
  · unfold Exprs.sk_into_bytes_s_2_2; tie
  · unfold Exprs.sk_into_bytes_t_0_2; tie

theorem pk_bytes_unmont (m : Mode) (x : Int) : Same (mont_reduce m x) (Exprs.pk_into_bytes_t1_d2 m x) := by
  unfold Exprs.pk_into_bytes_t1_d2; tie

theorem pk_bytes_shift (m : Mode) (x : Int) : Exprs.pk_into_bytes_t1 m x = .ok (x / 2 ^ D.toNat) := by
  unfold Exprs.pk_into_bytes_t1; rfl

/-- the two serialisers contain exactly the comprehensions accounted for above, in this order -/
theorem comprehensions_serialise :
    Exprs.sk_into_bytes_comprehensions = ["sk_into_bytes_s_1", "sk_into_bytes_s_1_2", "sk_into_bytes_s_2", "sk_into_bytes_s_2_2", "sk_into_bytes_t_0", "sk_into_bytes_t_0_2"] ∧
    Exprs.pk_into_bytes_comprehensions = ["pk_into_bytes_t1_d2", "pk_into_bytes_t1"] := by
  decide

end Fips204.SrcTie
