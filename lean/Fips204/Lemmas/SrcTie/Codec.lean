/-
  Lemmas.SrcTie.Codec — the decisions of `hint_bit_unpack` and the per-coefficient step of `bit_unpack`: the model takes the
  comparisons of the current source (see SrcTie/Basic for the method).  The equations below are the model's own
  definitions unfolded one step (closed by `rfl` / `simp only` with the definition), with the source's expression in place.
-/
import Fips204.Lemmas.SrcTie.Basic
namespace Fips204.SrcTie
open Fips204 Fips204.Gen Fips204.Impl

/-! ### `hint_bit_unpack` (Algorithm 21) -/

/-- line 4: the count byte of polynomial `i` is rejected exactly when the source's test says so -/
theorem hintOuter_step (m : Mode) (y : List Nat) (om omByte i : Nat) (is : List Nat) (index : Nat) (acc : List Poly) :
    hintOuter m y om omByte (i :: is) index acc = (do
      let yi ← idx "conversion.rs:hint_bit_unpack:y_bytes[omega+i]" y (om + i)
      if yi < index || yi > omByte then pure none else
      match ← hintInner y index yi 256 index zeroPoly with
      | none => pure none
      | some (index', hp) => hintOuter m y om omByte is index' (hp :: acc)) := rfl

theorem hint_count_reject (m : Mode) (yi index omByte : Nat) :
    Exprs.hint_count_reject m yi index omByte = .ok (decide (yi < index) || decide (yi > omByte)) := by
  simp only [Exprs.hint_count_reject, Int.ofNat_lt, gt_iff_lt]; rfl

/-- lines 7-13: the loop runs while `index < y[omega+i]`, compares neighbours only after the first index of a polynomial,
    and rejects when the previous index is not smaller -/
theorem hintInner_step (y : List Nat) (first limit fuel index : Nat) (hp : Poly) :
    hintInner y first limit (fuel + 1) index hp =
      (if index < limit then do
        let cur ← idx "conversion.rs:hint_bit_unpack:y_bytes[index]" y index
        if index > first then do
          let prev ← idx "conversion.rs:hint_bit_unpack:y_bytes[index-1]" y (index - 1)
          if prev ≥ cur then pure none else
          if cur < hp.length then hintInner y first limit fuel (index + 1) (hp.set cur 1)
          else throw (Fault.oob "conversion.rs:hint_bit_unpack:h[i].0[..]")
        else
          if cur < hp.length then hintInner y first limit fuel (index + 1) (hp.set cur 1)
          else throw (Fault.oob "conversion.rs:hint_bit_unpack:h[i].0[..]")
      else pure (some (index, hp))) := rfl

theorem hint_loop_cond (m : Mode) (limit index : Nat) :
    Exprs.hint_loop_cond m limit index = .ok (decide (index < limit)) := by
  simp only [Exprs.hint_loop_cond, Int.ofNat_lt]; rfl

theorem hint_order_guard (m : Mode) (index first : Nat) :
    Exprs.hint_order_guard m index first = .ok (decide (index > first)) := by
  simp only [Exprs.hint_order_guard, gt_iff_lt, Int.ofNat_lt]; rfl

theorem hint_order_reject (m : Mode) (prev cur : Nat) :
    Exprs.hint_order_reject m prev cur = .ok (decide (prev ≥ cur)) := by
  simp only [Exprs.hint_order_reject, ge_iff_le, Int.ofNat_le]; rfl

/-- line 17: a leftover byte is rejected exactly when it is non-zero -/
theorem hint_padding_reject (m : Mode) (b : Nat) :
    Exprs.hint_padding_reject m b = .ok (decide (b ≠ 0)) := by
  simp only [Exprs.hint_padding_reject, ne_eq, Int.natCast_eq_zero]; rfl

/-! ### `bit_unpack` (Algorithm 19) -/

/-- the coefficient popped out of the accumulator is `tmask` or `b - tmask` as in the source -/
theorem drainCoeffs_step (m : Mode) (a b : Int) (bl fuel : Nat) (temp : Int) (bi : Nat) (out : List Int) :
    drainCoeffs m a b bl (fuel + 1) temp bi out =
      (if bi ≥ bl then do
        let tmask := band .i32 temp (2 ^ bl - 1)
        let c ← if a = 0 then pure tmask else arith .i32 m "conversion.rs:bit_unpack:b-tmask" (b - tmask)
        drainCoeffs m a b bl fuel (temp / 2 ^ bl) (bi - bl) (c :: out)
      else pure (temp, bi, out)) := rfl

theorem bit_unpack_coeff (m : Mode) (a b tmask : Int) :
    Same (if a = 0 then pure tmask else arith .i32 m "conversion.rs:bit_unpack:b-tmask" (b - tmask)) (Exprs.bit_unpack_coeff m a b tmask) := by
  unfold Exprs.bit_unpack_coeff; tie

/-- the range test at the end of `bit_unpack` is `is_in_range(&w_out, a, b)` -/
theorem bit_unpack_range : Exprs.bit_unpack_range = "a, b" := by decide

end Fips204.SrcTie
