/-
  Lemmas.SrcTie.Keygen — the model of key_gen_internal computes the per-coefficient expressions of the current source
  (skeleton by `rfl`, one tie per expression; see SrcTie/Basic for the method).
-/
import Fips204.Lemmas.SrcTie.Basic
namespace Fips204.SrcTie
open Fips204 Fips204.Gen Fips204.Impl

def keyGenInternalWith (ft : Int → M Int) (m : Mode) (O : Oracles) (ctest : Bool) (p : ParamSet) (xi : List Nat) :
    M (PublicKey × PrivateKey) := do
  let hh := O.h (xi ++ [p.k % 256, p.l % 256]) 128
  let rho := hh.take 32
  let rhoPrime := (hh.drop 32).take 64
  let capK := (hh.drop 96).take 32
  let (s1, s2) ← expandS m O ctest p rhoPrime
  let aHat ← expandA m O ctest p rho
  let s1Hat ← ntt m s1
  let as1 ← matVecMul m aHat s1Hat
  let tnr ← addVectorNtt m (← invNtt m as1) s2
  let t ← tnr.mapM (fun q => q.mapM ft)
  let (t1, t0) ← power2round m t
  let pkb ← pkEncode m p rho t1
  let tr := O.h pkb 64
  let t1d2 ← precomputeT1 m t1
  let pk : PublicKey := { rho := rho, tr := tr, t1d2 := t1d2 }
  let s1hm ← nttMont m s1
  let s2hm ← nttMont m s2
  let t0hm ← nttMont m t0
  pure (pk, { rho := rho, key := capK, tr := tr, s1 := s1hm, s2 := s2hm, t0 := t0hm })

theorem keyGenInternal_shape (m : Mode) (O : Oracles) (ctest : Bool) (p : ParamSet) (xi : List Nat) :
    keyGenInternal m O ctest p xi = keyGenInternalWith (full_reduce32 m) m O ctest p xi := rfl

theorem keygen_t (m : Mode) (x : Int) : Same (full_reduce32 m x) (Exprs.keygen_t m x) := by
  unfold Exprs.keygen_t; tie

theorem keygen_t1_precompute (m : Mode) (x : Int) :
    Same (mont_reduce m (IT.i64.wrap (x * 2 ^ D.toNat))) (Exprs.keygen_t1_hat_mont m x) := by
  unfold Exprs.keygen_t1_hat_mont; tie

/-- the source function(s) contain exactly the comprehensions accounted for above, in this order -/
theorem comprehensions_keygen :
    Exprs.keygen_comprehensions = ["keygen_t", "keygen_t1_hat_mont"] := by decide

end Fips204.SrcTie
