import Fips204.Lemmas.DeriveEq
/-! The forward specification evaluates a polynomial at 256 roots of `X^256 + 1` modulo q; hence pointwise products in
    the NTT domain are negacyclic products of polynomials. -/
namespace Fips204.Impl
open Fips204 Fips204.Gen Fips204.K

/-! ### Horner evaluation -/

/-- `w_0 + w_1 x + w_2 x^2 + ...` -/
def ev (x : Int) : List Int → Int
  | [] => 0
  | a :: as => a + x * ev x as

theorem ev_append (x : Int) : ∀ (u v : List Int), ev x (u ++ v) = ev x u + x ^ u.length * ev x v := by
  intro u
  induction u with
  | nil => intro v; simp [ev]
  | cons a as ih => intro v; simp only [List.cons_append, ev, ih, List.length_cons, Int.pow_succ]; grind

theorem ev_cong (x : Int) : ∀ (u v : List Int), CongL u v → cg (ev x u) (ev x v) := by
  intro u
  induction u with
  | nil => intro v h; have : v = [] := by have := h.1; simp at this; exact List.eq_nil_of_length_eq_zero this.symm
           subst this; exact cg.rfl' _
  | cons a as ih =>
    intro v h
    cases v with
    | nil => have := h.1; simp at this
    | cons b bs =>
      obtain ⟨h0, ht⟩ := h.uncons
      simp only [ev]
      exact h0.add ((ih bs ht).mul_left x)

theorem ev_map_mul (x c : Int) : ∀ u : List Int, ev x (u.map (fun y => c * y)) = c * ev x u := by
  intro u
  induction u with
  | nil => simp [ev]
  | cons a as ih => simp only [List.map_cons, ev, ih]; grind

theorem ev_zip_add (x : Int) : ∀ (u v : List Int), u.length = v.length →
    ev x (List.zipWith (fun a t => a + t) u v) = ev x u + ev x v := by
  intro u
  induction u with
  | nil => intro v h; have : v = [] := List.eq_nil_of_length_eq_zero (by simpa using h.symm)
           subst this; simp [ev]
  | cons a as ih =>
    intro v h
    cases v with
    | nil => simp at h
    | cons b bs => simp only [List.zipWith_cons_cons, ev, ih bs (by simpa using h)]; grind

theorem ev_zip_sub (x : Int) : ∀ (u v : List Int), u.length = v.length →
    ev x (List.zipWith (fun a t => a - t) u v) = ev x u - ev x v := by
  intro u
  induction u with
  | nil => intro v h; have : v = [] := List.eq_nil_of_length_eq_zero (by simpa using h.symm)
           subst this; simp [ev]
  | cons a as ih =>
    intro v h
    cases v with
    | nil => simp at h
    | cons b bs => simp only [List.zipWith_cons_cons, ev, ih bs (by simpa using h)]; grind

/-! ### the roots -/

/-- the forward multiplier of block `k` as a residue: `zeta_k * 2^-32` -/
def cf (k : Nat) : Int := zv k * RINV

/-- the evaluation point of leaf `i` of the block of size `2^d` with table index `k` -/
def root : Nat → Nat → Nat → Int
  | 0, _, _ => 0
  | 1, k, i => if i = 0 then cf k else -cf k
  | d + 2, k, i => if i < 2 ^ (d + 1) then root (d + 1) (2 * k) i else root (d + 1) (2 * k + 1) (i - 2 ^ (d + 1))

def sqOk (k : Nat) : Bool :=
  (cf (2 * k) * cf (2 * k) - cf k) % 8380417 == 0 && (cf (2 * k + 1) * cf (2 * k + 1) + cf k) % 8380417 == 0

/-- the table is a tree of square roots: `zeta_{2k}^2 = zeta_k`, `zeta_{2k+1}^2 = -zeta_k` (as residues), k = 1..127 -/
theorem sq_check : (List.range 128).all (fun k => k == 0 || sqOk k) = true := by decide +kernel

theorem sq_cg (k : Nat) (h1 : 1 ≤ k) (h2 : k < 128) : cg (cf (2 * k) * cf (2 * k)) (cf k) ∧ cg (cf (2 * k + 1) * cf (2 * k + 1)) (-cf k) := by
  have h := List.all_eq_true.mp sq_check k (List.mem_range.mpr h2)
  have hk : (k == 0) = false := by simp; omega
  rw [hk, Bool.false_or] at h
  unfold sqOk at h
  rw [Bool.and_eq_true] at h
  have a := eq_of_beq h.1
  have b := eq_of_beq h.2
  unfold cg
  constructor
  · exact a
  · have : cf (2 * k + 1) * cf (2 * k + 1) - -cf k = cf (2 * k + 1) * cf (2 * k + 1) + cf k := by omega
    rw [this]; exact b

theorem cg.sq {a b : Int} (h : cg a b) : cg (a * a) (b * b) := (h.mul_left a).trans (h.mul_right b)

/-- every leaf root of block `(d+1, k)` is a `2^d`-th root of `± zeta_k` -/
theorem root_pow : ∀ (d k i : Nat), i < 2 ^ (d + 1) → (k + 1) * 2 ^ (d + 1) ≤ 512 → 1 ≤ k →
    cg ((root (d + 1) k i) ^ (2 ^ d)) (if i < 2 ^ d then cf k else -cf k) := by
  intro d
  induction d with
  | zero =>
    intro k i hi _ _
    have : i = 0 ∨ i = 1 := by simp at hi; omega
    rcases this with rfl | rfl
    · simp [root]; exact cg.of_eq (Int.pow_one _)
    · simp [root]; exact cg.of_eq (Int.pow_one _)
  | succ d ih =>
    intro k i hi hk h1
    have hp : 2 ^ (d + 1 + 1) = 2 * 2 ^ (d + 1) := by rw [Nat.pow_succ]; omega
    have hp' : 2 ^ (d + 1) = 2 * 2 ^ d := by rw [Nat.pow_succ]; omega
    have hpos : 1 ≤ 2 ^ d := Nat.one_le_two_pow
    have hk128 : k < 128 := by
      rw [hp, hp'] at hk
      have : (k + 1) * 4 ≤ (k + 1) * (2 * (2 * 2 ^ d)) := Nat.mul_le_mul_left _ (by omega)
      omega
    obtain ⟨s0, s1⟩ := sq_cg k h1 hk128
    have epow : ∀ x : Int, x ^ (2 ^ (d + 1)) = x ^ (2 ^ d) * x ^ (2 ^ d) := fun x => by rw [hp', Nat.two_mul, Int.pow_add]
    have hk0 : (2 * k + 1) * 2 ^ (d + 1) ≤ 512 := by
      have e : (k + 1) * 2 ^ (d + 1 + 1) = (2 * k + 2) * 2 ^ (d + 1) := by rw [hp]; grind
      have : (2 * k + 1) * 2 ^ (d + 1) ≤ (2 * k + 2) * 2 ^ (d + 1) := Nat.mul_le_mul_right _ (by omega)
      omega
    have hk1 : (2 * k + 1 + 1) * 2 ^ (d + 1) ≤ 512 := by
      have e : (k + 1) * 2 ^ (d + 1 + 1) = (2 * k + 1 + 1) * 2 ^ (d + 1) := by rw [hp]; grind
      omega
    by_cases hlt : i < 2 ^ (d + 1)
    · have hr : root (d + 1 + 1) k i = root (d + 1) (2 * k) i := by simp [root, hlt]
      rw [hr, if_pos hlt, epow]
      have := ih (2 * k) i hlt hk0 (by omega)
      refine this.sq.trans ?_
      split
      · exact s0
      · exact (cg.of_eq (by grind)).trans s0
    · have hr : root (d + 1 + 1) k i = root (d + 1) (2 * k + 1) (i - 2 ^ (d + 1)) := by simp [root, hlt]
      rw [hr, if_neg hlt, epow]
      have := ih (2 * k + 1) (i - 2 ^ (d + 1)) (by omega) hk1 (by omega)
      refine this.sq.trans ?_
      split
      · exact s1
      · exact (cg.of_eq (by grind)).trans s1

/-- **the forward specification evaluates the block's polynomial at the leaf roots** -/
theorem nttS_eval : ∀ (d k : Nat) (w : List Int), w.length = 2 ^ (d + 1) → (k + 1) * 2 ^ (d + 1) ≤ 512 → 1 ≤ k →
    ∀ i (hi : i < (nttS (d + 1) k w).length), cg ((nttS (d + 1) k w)[i]) (ev (root (d + 1) k i) w) := by
  intro d
  induction d with
  | zero =>
    intro k w hw _ _ i hi
    match w, hw with
    | [a, b], _ =>
      have hi' : i = 0 ∨ i = 1 := by simp [nttS] at hi; omega
      rcases hi' with rfl | rfl
      · simp only [nttS, root, cf, ev]; simp; exact cg.of_eq (by grind)
      · simp only [nttS, root, cf, ev]; simp; exact cg.of_eq (by grind)
  | succ d ih =>
    intro k w hw hk h1 i hi
    have hp : 2 ^ (d + 1 + 1) = 2 * 2 ^ (d + 1) := by rw [Nat.pow_succ]; omega
    have hhalf : w.length / 2 = 2 ^ (d + 1) := by omega
    have hlo : (w.take (2 ^ (d + 1))).length = 2 ^ (d + 1) := by rw [List.length_take]; omega
    have hhi : (w.drop (2 ^ (d + 1))).length = 2 ^ (d + 1) := by rw [List.length_drop]; omega
    have hts : ((w.drop (2 ^ (d + 1))).map (fun x => zv k * x * RINV)).length = 2 ^ (d + 1) := by rw [List.length_map, hhi]
    have hA : (List.zipWith (fun a t => a + t) (w.take (2 ^ (d + 1))) ((w.drop (2 ^ (d + 1))).map (fun x => zv k * x * RINV))).length = 2 ^ (d + 1) := by
      rw [List.length_zipWith, hlo, hts]; omega
    have hB : (List.zipWith (fun a t => a - t) (w.take (2 ^ (d + 1))) ((w.drop (2 ^ (d + 1))).map (fun x => zv k * x * RINV))).length = 2 ^ (d + 1) := by
      rw [List.length_zipWith, hlo, hts]; omega
    have e1 : nttS (d + 1 + 1) k w = nttS (d + 1) (2 * k) (List.zipWith (fun a t => a + t) (w.take (2 ^ (d + 1))) ((w.drop (2 ^ (d + 1))).map (fun x => zv k * x * RINV))) ++
        nttS (d + 1) (2 * k + 1) (List.zipWith (fun a t => a - t) (w.take (2 ^ (d + 1))) ((w.drop (2 ^ (d + 1))).map (fun x => zv k * x * RINV))) := by
      rw [nttS]; simp only [hhalf]
    have lA := nttS_length (d + 1) (2 * k) _ hA
    have lB := nttS_length (d + 1) (2 * k + 1) _ hB
    have hk0 : (2 * k + 1) * 2 ^ (d + 1) ≤ 512 := by
      have e : (k + 1) * 2 ^ (d + 1 + 1) = (2 * k + 2) * 2 ^ (d + 1) := by rw [hp]; grind
      have : (2 * k + 1) * 2 ^ (d + 1) ≤ (2 * k + 2) * 2 ^ (d + 1) := Nat.mul_le_mul_right _ (by omega)
      omega
    have hk1 : (2 * k + 1 + 1) * 2 ^ (d + 1) ≤ 512 := by
      have e : (k + 1) * 2 ^ (d + 1 + 1) = (2 * k + 1 + 1) * 2 ^ (d + 1) := by rw [hp]; grind
      omega
    have hi2 : i < 2 ^ (d + 1 + 1) := by rw [nttS_length (d + 1 + 1) k w hw] at hi; exact hi
    have hsplit : w = w.take (2 ^ (d + 1)) ++ w.drop (2 ^ (d + 1)) := (List.take_append_drop _ _).symm
    have hrp := root_pow (d + 1) k i hi2 hk h1
    have hts_ev : ∀ x : Int, ev x ((w.drop (2 ^ (d + 1))).map (fun y => zv k * y * RINV)) = cf k * ev x (w.drop (2 ^ (d + 1))) := by
      intro x
      have : (fun y : Int => zv k * y * RINV) = (fun y => cf k * y) := by funext y; unfold cf; grind
      rw [this, ev_map_mul]
    simp only [e1]
    by_cases hlt : i < 2 ^ (d + 1)
    · have hr : root (d + 1 + 1) k i = root (d + 1) (2 * k) i := by simp [root, hlt]
      rw [List.getElem_append_left (by rw [lA]; exact hlt)]
      have c := ih (2 * k) _ hA hk0 (by omega) i (by rw [lA]; exact hlt)
      rw [hr]
      refine c.trans ?_
      rw [ev_zip_add _ _ _ (by rw [hlo, hts]), hts_ev]
      rw [hr, if_pos hlt] at hrp
      conv => rhs; rw [hsplit, ev_append, hlo]
      exact (cg.rfl' _).add (hrp.symm.mul_right _)
    · have hr : root (d + 1 + 1) k i = root (d + 1) (2 * k + 1) (i - 2 ^ (d + 1)) := by simp [root, hlt]
      rw [List.getElem_append_right (by rw [lA]; omega)]
      simp only [lA]
      have c := ih (2 * k + 1) _ hB hk1 (by omega) (i - 2 ^ (d + 1)) (by rw [lB]; omega)
      rw [hr]
      refine c.trans ?_
      rw [ev_zip_sub _ _ _ (by rw [hlo, hts]), hts_ev]
      rw [hr, if_neg hlt] at hrp
      conv => rhs; rw [hsplit, ev_append, hlo]
      have : cg (cf k * ev (root (d + 1) (2 * k + 1) (i - 2 ^ (d + 1))) (w.drop (2 ^ (d + 1))))
          (-(root (d + 1) (2 * k + 1) (i - 2 ^ (d + 1)) ^ 2 ^ (d + 1) * ev (root (d + 1) (2 * k + 1) (i - 2 ^ (d + 1))) (w.drop (2 ^ (d + 1))))) := by
        have := hrp.symm.mul_right (ev (root (d + 1) (2 * k + 1) (i - 2 ^ (d + 1))) (w.drop (2 ^ (d + 1))))
        refine (cg.of_eq (by grind)).trans ((this.mul_left (-1)).trans (cg.of_eq (by grind)))
      refine ((cg.rfl' _).sub this).trans (cg.of_eq (by grind))

/-! ### polynomial multiplication and the negacyclic product -/

/-- coefficientwise sum (the longer list wins the tail) -/
def addP : List Int → List Int → List Int
  | [], b => b
  | a, [] => a
  | a :: as, b :: bs => (a + b) :: addP as bs

/-- schoolbook product of polynomials -/
def mulP : List Int → List Int → List Int
  | [], _ => []
  | a :: as, b => addP (b.map (fun y => a * y)) (0 :: mulP as b)

theorem ev_addP (x : Int) : ∀ (a b : List Int), ev x (addP a b) = ev x a + ev x b := by
  intro a
  induction a with
  | nil => intro b; simp [addP, ev]
  | cons a as ih =>
    intro b
    cases b with
    | nil => simp [addP, ev]
    | cons b bs => simp only [addP, ev, ih bs]; grind

theorem ev_mulP (x : Int) : ∀ (a b : List Int), ev x (mulP a b) = ev x a * ev x b := by
  intro a
  induction a with
  | nil => intro b; simp [mulP, ev]
  | cons a as ih => intro b; simp only [mulP, ev_addP, ev_map_mul, ev, ih b]; grind

theorem addP_length : ∀ (a b : List Int), (addP a b).length = max a.length b.length := by
  intro a
  induction a with
  | nil => intro b; simp [addP]
  | cons a as ih =>
    intro b
    cases b with
    | nil => simp [addP]
    | cons b bs => simp only [addP, List.length_cons, ih bs]; omega

theorem mulP_length : ∀ (a b : List Int), a ≠ [] → b ≠ [] → (mulP a b).length = a.length + b.length - 1 := by
  intro a
  induction a with
  | nil => intro b h; exact absurd rfl h
  | cons a as ih =>
    intro b _ hb
    have hbl : 1 ≤ b.length := by cases b with | nil => exact absurd rfl hb | cons _ _ => simp
    cases as with
    | nil => simp only [mulP, addP_length, List.length_map, List.length_cons, List.length_nil]; omega
    | cons a' as' =>
      have := ih b (by simp) hb
      simp only [mulP, addP_length, List.length_map, List.length_cons] at this ⊢
      omega

/-- reduction modulo `X^256 + 1` -/
def negc (p : List Int) : List Int := addP (p.take 256) ((p.drop 256).map (fun y => -1 * y))

/-- the product in `Z[X]/(X^256 + 1)` -/
def negMul (a b : List Int) : List Int := negc (mulP a b)

theorem negMul_length (a b : List Int) (ha : a.length = 256) (hb : b.length = 256) : (negMul a b).length = 256 := by
  unfold negMul negc
  have := mulP_length a b (by intro h; rw [h] at ha; simp at ha) (by intro h; rw [h] at hb; simp at hb)
  rw [addP_length, List.length_take, List.length_map, List.length_drop, this, ha, hb]; omega

theorem ev_negc (x : Int) (hx : cg (x ^ 256) (-1)) (p : List Int) (hp : 256 ≤ p.length) : cg (ev x (negc p)) (ev x p) := by
  unfold negc
  rw [ev_addP, ev_map_mul]
  have hs : p = p.take 256 ++ p.drop 256 := (List.take_append_drop _ _).symm
  conv => rhs; rw [hs, ev_append, List.length_take, Nat.min_eq_left hp]
  exact (cg.rfl' _).add (hx.symm.mul_right _)

/-- the 256 evaluation points are roots of `X^256 + 1` modulo q -/
theorem root_256 (i : Nat) (hi : i < 256) : cg ((root 8 1 i) ^ 256) (-1) := by
  have h := root_pow 7 1 i (by simpa using hi) (by decide) (by omega)
  have e : (root 8 1 i) ^ 256 = (root (7 + 1) 1 i) ^ (2 ^ 7) * (root (7 + 1) 1 i) ^ (2 ^ 7) := by
    rw [← Int.pow_add]
  rw [e]
  have hc : cg (cf 1 * cf 1) (-1) := by unfold cg cf RINV zv; decide +kernel
  refine h.sq.trans ?_
  split
  · exact hc
  · exact (cg.of_eq (by grind)).trans hc

/-- **pointwise products in the NTT domain are negacyclic products**: the transform of `a * b mod (X^256 + 1)` is the
    coefficientwise product of the transforms, modulo q -/
theorem nttS_negMul (a b : List Int) (ha : a.length = 256) (hb : b.length = 256) :
    CongL (nttS 8 1 (negMul a b)) (List.zipWith (fun x y => x * y) (nttS 8 1 a) (nttS 8 1 b)) := by
  have hl := negMul_length a b ha hb
  have la := nttS_length 8 1 a (by rw [ha])
  have lb := nttS_length 8 1 b (by rw [hb])
  have lc := nttS_length 8 1 (negMul a b) (by rw [hl])
  refine ⟨by rw [List.length_zipWith, la, lb, lc]; rfl, fun i h1 h2 => ?_⟩
  have hi : i < 256 := by rw [lc] at h1; exact h1
  rw [List.getElem_zipWith]
  have ea := nttS_eval 7 1 a (by rw [ha]) (by decide) (by omega) i (by rw [la]; exact hi)
  have eb := nttS_eval 7 1 b (by rw [hb]) (by decide) (by omega) i (by rw [lb]; exact hi)
  have ec := nttS_eval 7 1 (negMul a b) (by rw [hl]) (by decide) (by omega) i h1
  have hm : 256 ≤ (mulP a b).length := by
    rw [mulP_length a b (by intro h; rw [h] at ha; simp at ha) (by intro h; rw [h] at hb; simp at hb), ha, hb]; omega
  have hn := ev_negc (root 8 1 i) (root_256 i hi) (mulP a b) hm
  rw [ev_mulP] at hn
  exact ec.trans (hn.trans ((ea.symm.mul_right _).trans (eb.symm.mul_left _)))

/-- **`invNTT(NTT(a) ∘ NTT(b)) = 2^8 (a * b)`** in `Z_q[X]/(X^256 + 1)`, at the level of the exact specifications -/
theorem invS_pointwise (a b : List Int) (ha : a.length = 256) (hb : b.length = 256) :
    CongL (invS 8 1 (List.zipWith (fun x y => x * y) (nttS 8 1 a) (nttS 8 1 b))) ((negMul a b).map (fun x => 2 ^ 8 * x)) :=
  (invS_cong 8 1 _ _ (nttS_negMul a b ha hb).symm).trans
    (invS_nttS 8 0 1 1 (negMul a b) (by rw [negMul_length a b ha hb]) (by decide) (by decide) (by decide) (by decide))

end Fips204.Impl
