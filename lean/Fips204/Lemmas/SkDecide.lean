import Fips204.Lemmas.SigRoundTrip
/-! Exact acceptance condition of `bit_unpack`, `unpackMany` and `sk_decode` in terms of the bit fields of the input. -/
namespace Fips204.Impl
open Fips204 Fips204.Gen Fips204.K

/-- the `i`-th `bl`-bit field of a byte string read as a little-endian number -/
def fieldAt (bl : Nat) (v : List Nat) (i : Nat) : Nat := (numF 256 v / (2 ^ bl) ^ i) % 2 ^ bl

/-- all 256 fields are at most `lim` -/
def fieldsOk (bl : Nat) (v : List Nat) (lim : Nat) : Bool := (List.range 256).all (fun i => decide (fieldAt bl v i ≤ lim))

/-- **`bit_unpack` accepts exactly the byte strings all of whose fields are at most `a + b`** -/
theorem bitUnpack_decision (m : Mode) (v : List Nat) (a b : Int) (bl : Nat) (ha : 0 ≤ a ∧ a < 1048576) (hb : 1 ≤ b ∧ b < 1048576)
    (hbl : bitLen m (a + b) = .ok bl) (hbl2 : 1 ≤ bl ∧ bl ≤ 20) (hv : ∀ x ∈ v, x < 256) (hlen : v.length = 32 * bl) :
    ∃ w, w.length = 256 ∧ (∀ c ∈ w, fieldOk a b bl c) ∧
      bitUnpack m v a b = .ok (if fieldsOk bl v (a + b).toNat then some w else none) := by
  obtain ⟨w, hw, hf, hval, he⟩ := bitUnpack_shape m v a b bl ha hb hbl hbl2 hv hlen
  refine ⟨w, hw, hf, ?_⟩
  have hP : 1 ≤ (2:Nat) ^ bl := Nat.one_le_two_pow
  have hdig : ∀ i (hi : i < 256), fieldAt bl v i = fld a b (w[i]'(by omega)) := by
    intro i hi
    unfold fieldAt
    rw [← hval, numF_digit (2 ^ bl) hP (w.map (fld a b)) i (by simp [hw]; exact hi)
      (fun d hd => by obtain ⟨c, hc, rfl⟩ := List.mem_map.mp hd; exact (fld_lt_of_fieldOk a b bl c (hf c hc)).1)]
    simp
  -- coefficient in range iff its field is at most a + b
  have hiff : ∀ c, fieldOk a b bl c → ((-a ≤ c ∧ c ≤ b) ↔ fld a b c ≤ (a + b).toNat) := by
    intro c hc
    unfold fieldOk at hc
    unfold fld
    by_cases ha0 : a = 0
    · rw [if_pos ha0] at hc ⊢; omega
    · rw [if_neg ha0] at hc ⊢; omega
  rw [he]
  unfold isInRange
  rw [arith_i32 _ _ _ (by omega) (by omega), ok_bind, pure_eq, ok_bind]
  have hall : (w.all fun e => decide (e ≥ -a) && decide (e ≤ b)) = fieldsOk bl v (a + b).toNat := by
    unfold fieldsOk
    rw [Bool.eq_iff_iff, List.all_eq_true, List.all_eq_true]
    constructor
    · intro h i hi
      have hi' := List.mem_range.mp hi
      have hc := h (w[i]'(by omega)) (List.getElem_mem _)
      simp only [Bool.and_eq_true, decide_eq_true_eq] at hc ⊢
      rw [hdig i hi']
      exact (hiff _ (hf _ (List.getElem_mem _))).mp ⟨by omega, hc.2⟩
    · intro h c hc
      obtain ⟨i, hi, rfl⟩ := List.mem_iff_getElem.mp hc
      have := h i (List.mem_range.mpr (by omega))
      simp only [decide_eq_true_eq] at this
      rw [hdig i (by omega)] at this
      have := (hiff _ (hf _ (List.getElem_mem _))).mpr this
      simp only [Bool.and_eq_true, decide_eq_true_eq]
      omega
  rw [hall]
  cases fieldsOk bl v (a + b).toNat <;> simp [pure_eq]

/-- `unpackMany` accepts exactly when every slice passes the field test -/
theorem unpackMany_decision (m : Mode) (site : String) (bytes : List Nat) (hb : ∀ x ∈ bytes, x < 256) (start : Nat) (a b : Int) (bl : Nat)
    (ha : 0 ≤ a ∧ a < 1048576) (hbb : 1 ≤ b ∧ b < 1048576) (hbl : bitLen m (a + b) = .ok bl) (hbl2 : 1 ≤ bl ∧ bl ≤ 20) :
    ∀ (is : List Nat) (acc : List Poly), (∀ i ∈ is, start + (i + 1) * (32 * bl) ≤ bytes.length) →
      ∃ z, unpackMany m site bytes start (32 * bl) a b is acc =
        .ok (if is.all (fun i => fieldsOk bl ((bytes.drop (start + i * (32 * bl))).take (32 * bl)) (a + b).toNat) then some z else none) := by
  intro is
  induction is with
  | nil => intro acc _; exact ⟨acc.reverse, by simp [unpackMany, pure_eq]⟩
  | cons i is ih =>
    intro acc hlen
    have hi := hlen i (List.mem_cons_self ..)
    have e1 : start + (i + 1) * (32 * bl) = start + i * (32 * bl) + 32 * bl := by rw [Nat.add_mul, Nat.one_mul]; omega
    have hs := slice_ok site bytes (start + i * (32 * bl)) (start + (i + 1) * (32 * bl)) (by constructor <;> omega)
    have e2 : start + (i + 1) * (32 * bl) - (start + i * (32 * bl)) = 32 * bl := by omega
    rw [e2] at hs
    have hsl : ((bytes.drop (start + i * (32 * bl))).take (32 * bl)).length = 32 * bl := by
      rw [List.length_take, List.length_drop]; omega
    obtain ⟨w, _, _, hw⟩ := bitUnpack_decision m _ a b bl ha hbb hbl hbl2 (fun x hx => hb x (mem_slice _ _ _ _ hx)) hsl
    unfold unpackMany
    rw [hs, ok_bind, hw, ok_bind, List.all_cons]
    cases fieldsOk bl ((bytes.drop (start + i * (32 * bl))).take (32 * bl)) (a + b).toNat with
    | false => exact ⟨[], by simp [pure_eq]⟩
    | true =>
      obtain ⟨z, hz⟩ := ih (w :: acc) (fun j hj => hlen j (List.mem_cons_of_mem _ hj))
      exact ⟨z, by simpa using hz⟩

/-- the field test of the private-key sections `s1` and `s2`: every `bitlen(2 eta)`-bit field is at most `2 eta`,
    i.e. encodes a coefficient `eta - field` inside `[-eta, eta]` -/
def skFieldsOk (p : ParamSet) (bl : Nat) (skb : List Nat) : Bool :=
  (List.range p.l).all (fun i => fieldsOk bl ((skb.drop (128 + i * (32 * bl))).take (32 * bl)) (p.eta + p.eta).toNat) &&
  (List.range p.k).all (fun i => fieldsOk bl ((skb.drop (128 + p.l * (32 * bl) + i * (32 * bl))).take (32 * bl)) (p.eta + p.eta).toNat)

/-- **`sk_decode` succeeds exactly on the byte strings whose `s1`/`s2` fields are all in range** (C10, both directions),
    in both build modes and never with a fault -/
theorem skDecode_decision (m : Mode) (p : ParamSet) (skb : List Nat) (hb : ∀ x ∈ skb, x < 256)
    (he : p.eta = 2 ∨ p.eta = 4) (bl : Nat) (hbl : bitLen m (2 * p.eta) = .ok bl)
    (hlen : skb.length = 128 + 32 * ((p.k + p.l) * bl + D.toNat * p.k)) (hcfg : p.skLen = skb.length) :
    ∃ parts, skDecode m p skb = .ok (if skFieldsOk p bl skb then some parts else none) := by
  obtain ⟨bl', h1, h2, h3, h4⟩ := bitLen_eta m p.eta he
  rw [hbl] at h1
  simp only [Except.ok.injEq] at h1
  subst h1
  have hD : D.toNat = 13 := by decide
  rw [hD] at hlen
  have eta0 : 0 ≤ p.eta ∧ p.eta < 1048576 := by rcases he with h | h <;> omega
  have eta1 : 1 ≤ p.eta ∧ p.eta < 1048576 := by rcases he with h | h <;> omega
  unfold skDecode
  have d1 : dassert m "encodings.rs:sk_decode:debug_assert(Alg 25: incorrect eta)" (decide (p.eta = 2) || decide (p.eta = 4)) = .ok () := by
    have : (decide (p.eta = 2) || decide (p.eta = 4)) = true := by rcases he with h | h <;> simp [h]
    rw [this]; cases m <;> rfl
  have d2 : dassert m "encodings.rs:sk_decode:debug_assert_eq(Alg 25: bad sk/config size)"
      (p.skLen == 128 + 32 * ((p.k + p.l) * bl + D.toNat * p.k)) = .ok () := by
    have : (p.skLen == 128 + 32 * ((p.k + p.l) * bl + D.toNat * p.k)) = true := by rw [hD]; simp [hcfg, hlen]
    rw [this]; cases m <;> rfl
  have s1 := slice_ok "encodings.rs:sk_decode:sk[0..32]" skb 0 32 (by omega)
  have s2 := slice_ok "encodings.rs:sk_decode:sk[32..64]" skb 32 64 (by omega)
  have s3 := slice_ok "encodings.rs:sk_decode:sk[64..128]" skb 64 128 (by omega)
  have hexp : (p.k + p.l) * bl = p.l * bl + p.k * bl := by rw [Nat.add_mul]; omega
  obtain ⟨r1, hr1⟩ := unpackMany_decision m "encodings.rs:sk_decode:s1" skb hb 128 p.eta p.eta bl eta0 eta1 h2 ⟨h3, h4⟩ (List.range p.l) []
    (fun i hi => by
      have : i < p.l := List.mem_range.mp hi
      have : (i + 1) * (32 * bl) ≤ p.l * (32 * bl) := Nat.mul_le_mul_right _ (by omega)
      have e : p.l * (32 * bl) = 32 * (p.l * bl) := by rw [Nat.mul_left_comm]
      rw [hlen, hexp]; omega)
  obtain ⟨r2, hr2⟩ := unpackMany_decision m "encodings.rs:sk_decode:s2" skb hb (128 + p.l * (32 * bl)) p.eta p.eta bl eta0 eta1 h2 ⟨h3, h4⟩ (List.range p.k) []
    (fun i hi => by
      have : i < p.k := List.mem_range.mp hi
      have : (i + 1) * (32 * bl) ≤ p.k * (32 * bl) := Nat.mul_le_mul_right _ (by omega)
      have e : p.l * (32 * bl) = 32 * (p.l * bl) := by rw [Nat.mul_left_comm]
      have e2 : p.k * (32 * bl) = 32 * (p.k * bl) := by rw [Nat.mul_left_comm]
      rw [hlen, hexp]; omega)
  obtain ⟨r3, hr3, _, _⟩ := unpackMany_total m "encodings.rs:sk_decode:t0" skb hb (128 + p.l * (32 * bl) + p.k * (32 * bl)) (top - 1) top 13
    (by decide) (by decide) (bitLen_t0 m) (by omega) (by decide) (List.range p.k) []
    (fun i hi => by
      have : i < p.k := List.mem_range.mp hi
      have : (i + 1) * (32 * 13) ≤ p.k * (32 * 13) := Nat.mul_le_mul_right _ (by omega)
      have e : p.l * (32 * bl) = 32 * (p.l * bl) := by rw [Nat.mul_left_comm]
      have e2 : p.k * (32 * bl) = 32 * (p.k * bl) := by rw [Nat.mul_left_comm]
      rw [hlen, hexp]; omega) (by simp)
  have d3 : dassert m "encodings.rs:sk_decode:debug_assert_eq(Alg 25: length miscalc)"
      (128 + p.l * (32 * bl) + p.k * (32 * bl) + p.k * (32 * 13) == skb.length) = .ok () := by
    have e : p.l * (32 * bl) = 32 * (p.l * bl) := by rw [Nat.mul_left_comm]
    have e2 : p.k * (32 * bl) = 32 * (p.k * bl) := by rw [Nat.mul_left_comm]
    have : (128 + p.l * (32 * bl) + p.k * (32 * bl) + p.k * (32 * 13) == skb.length) = true := by
      rw [hlen, hexp]; simp; omega
    rw [this]; cases m <;> rfl
  refine ⟨⟨List.take (32 - 0) (List.drop 0 skb), List.take (64 - 32) (List.drop 32 skb), List.take (128 - 64) (List.drop 64 skb), r1, r2, r3⟩, ?_⟩
  unfold skFieldsOk
  simp only [d1, hbl, d2, s1, s2, s3, ok_bind, hr1]
  cases (List.range p.l).all (fun i => fieldsOk bl ((skb.drop (128 + i * (32 * bl))).take (32 * bl)) (p.eta + p.eta).toNat) with
  | false => simp [pure_eq]
  | true =>
    simp only [if_true, hr2, ok_bind, Bool.true_and]
    cases (List.range p.k).all (fun i => fieldsOk bl ((skb.drop (128 + p.l * (32 * bl) + i * (32 * bl))).take (32 * bl)) (p.eta + p.eta).toNat) with
    | false => simp [pure_eq]
    | true => simp only [if_true, hD, hr3, ok_bind, d3, pure_eq]

end Fips204.Impl
