/-
  Lemmas.SpecEncode — `sig_decode`, `pk_decode` and `w1_encode` are FIPS 204 Algorithms 27, 23 and 28 as written (`Spec/Codec.lean`).
-/
import Fips204.Lemmas.SpecHint
import Fips204.Lemmas.SpecCodec
import Fips204.Lemmas.SigDecode
import Fips204.Lemmas.KeyDecode
import Fips204.Lemmas.VerifyOk
import Fips204.Lemmas.GenKeys
namespace Fips204.Impl
open Fips204 Fips204.Gen Fips204.K

/-- on an exact pair (`a + b + 1 = 2^bitlen`) every byte string unpacks, to the polynomial of the standard's `BitUnpack` -/
theorem bitUnpack_exact_is_spec (m : Mode) (v : List Nat) (a b : Int) (bl : Nat) (ha : 0 < a ∧ a < 1048576) (hb : 1 ≤ b ∧ b < 1048576)
    (hbl : bitLen m (a + b) = .ok bl) (hbl2 : 1 ≤ bl ∧ bl ≤ 20) (hpow : a + b + 1 = 2 ^ bl)
    (hv : ∀ x ∈ v, x < 256) (hlen : v.length = 32 * bl) :
    bitUnpack m v a b = .ok (some (Spec.bitUnpack bl b v)) := by
  obtain ⟨w, hw, _, _⟩ := bitUnpack_total m v a b bl ⟨by omega, ha.2⟩ hb hbl hbl2 hpow hv hlen
  have he := bitUnpack_is_algorithm_19 m v a b bl ha hb hbl hbl2 hv hlen
  rw [hw] at he
  cases hr : isInRange m (Spec.bitUnpack bl b v) a b with
  | error e => rw [hr] at he; cases he
  | ok ok =>
    rw [hr, ok_bind] at he
    cases ok with
    | false => simp only [Bool.false_eq_true, if_false, pure_eq] at he; cases he
    | true => simp only [if_true, pure_eq] at he; rw [hw, he]

theorem unpackMany_is_spec (m : Mode) (site : String) (bytes : List Nat) (hb : ∀ x ∈ bytes, x < 256) (start : Nat) (a b : Int) (bl : Nat)
    (ha : 0 < a ∧ a < 1048576) (hbb : 1 ≤ b ∧ b < 1048576) (hbl : bitLen m (a + b) = .ok bl) (hbl2 : 1 ≤ bl ∧ bl ≤ 20)
    (hpow : a + b + 1 = 2 ^ bl) :
    ∀ (is : List Nat) (acc : List Poly), (∀ i ∈ is, start + (i + 1) * (32 * bl) ≤ bytes.length) →
      unpackMany m site bytes start (32 * bl) a b is acc =
        .ok (some (acc.reverse ++ is.map (fun i => Spec.bitUnpack bl b ((bytes.drop (start + i * (32 * bl))).take (32 * bl))))) := by
  intro is
  induction is with
  | nil => intro acc _; simp [unpackMany, pure, Except.pure]
  | cons i is ih =>
    intro acc hlen
    have hi := hlen i (List.mem_cons_self ..)
    have e1 : start + (i + 1) * (32 * bl) = start + i * (32 * bl) + 32 * bl := by rw [Nat.add_mul, Nat.one_mul]; omega
    have hs := slice_ok site bytes (start + i * (32 * bl)) (start + (i + 1) * (32 * bl)) (by constructor <;> omega)
    have e2 : start + (i + 1) * (32 * bl) - (start + i * (32 * bl)) = 32 * bl := by omega
    rw [e2] at hs
    have hsl : ((bytes.drop (start + i * (32 * bl))).take (32 * bl)).length = 32 * bl := by
      rw [List.length_take, List.length_drop]; omega
    have hw := bitUnpack_exact_is_spec m _ a b bl ha hbb hbl hbl2 hpow (fun x hx => hb x (mem_slice _ _ _ _ hx)) hsl
    simp only [unpackMany, hs, ok_bind, hw]
    rw [ih _ (fun j hj => hlen j (List.mem_cons_of_mem _ hj))]
    simp

/-- **`sig_decode` is FIPS 204 Algorithm 27 (`sigDecode`) as written**, for every byte string of signature length, the three parameter sets -/
theorem sigDecode_is_algorithm_27 (m : Mode) (p : ParamSet) (blz : Nat) (cfg : SigCfg p blz) (sigma : List Nat) (hb : ∀ x ∈ sigma, x < 256)
    (hlen : sigma.length = p.sigLen) :
    sigDecode m p sigma = .ok (
      let d := Spec.sigDecode p.lambdaDiv4 p.l p.k p.omega.toNat blz p.gamma1 sigma
      match d.2.2 with
      | none => none
      | some h => some (d.1, d.2.1, h)) := by
  obtain ⟨b17, b18, b19, b20⟩ := bitLen_g1 m
  have hbl : ∃ bl0, bitLen m (p.gamma1 - 1) = .ok bl0 ∧ bl0 + 1 = blz ∧ bitLen m (p.gamma1 - 1 + p.gamma1) = .ok blz ∧
      p.gamma1 - 1 + p.gamma1 + 1 = 2 ^ blz ∧ 1 ≤ blz ∧ blz ≤ 20 ∧ 2 ≤ p.gamma1 ∧ p.gamma1 < 1048576 := by
    rcases cfg.g1 with ⟨hg, rfl⟩ | ⟨hg, rfl⟩
    · rw [hg]; exact ⟨17, b17, rfl, b18, by decide, by omega, by omega, by omega, by omega⟩
    · rw [hg]; exact ⟨19, b19, rfl, b20, by decide, by omega, by omega, by omega, by omega⟩
  obtain ⟨bl0, h0, hbz, h1, hpow, hz1, hz2, hg1, hg2⟩ := hbl
  have hlen' := cfg.len
  have hom := cfg.om
  have hsl : sigLenOk m p = .ok true := by
    unfold sigLenOk
    rw [arith_i32 _ _ _ (by omega) (by omega), ok_bind, h0, ok_bind, pure_eq]
    congr 1
    have e : (absI p.omega).toNat = p.omega.toNat := by rw [absI_eq, if_neg (by omega)]
    rw [e, hlen']
    simp only [beq_iff_eq]
    have : p.l * 32 * (1 + bl0) = p.l * (32 * blz) := by rw [← hbz, Nat.mul_assoc, Nat.add_comm]
    omega
  unfold sigDecode Spec.sigDecode
  have hc := slice_ok "encodings.rs:sig_decode:sigma[0..LAMBDA_DIV4]" sigma 0 p.lambdaDiv4 (by omega)
  rw [dassertM_ok m _ _ hsl, ok_bind, hc, ok_bind, arith_i32 _ _ _ (by omega) (by omega), ok_bind, h0, ok_bind, hbz]
  have hz := unpackMany_is_spec m "encodings.rs:sig_decode:z" sigma hb p.lambdaDiv4 (p.gamma1 - 1) p.gamma1 blz
    (by omega) (by omega) h1 (by omega) hpow (List.range p.l) []
    (fun i hi => by
      have := List.mem_range.mp hi
      have : (i + 1) * (32 * blz) ≤ p.l * (32 * blz) := Nat.mul_le_mul_right _ (by omega)
      omega)
  simp only [hz, ok_bind]
  have hs2 := slice_ok "encodings.rs:sig_decode:sigma[start..]" sigma (p.lambdaDiv4 + p.l * (32 * blz)) sigma.length (by omega)
  rw [hs2, ok_bind]
  have hy : (sigma.drop (p.lambdaDiv4 + p.l * (32 * blz))).take (sigma.length - (p.lambdaDiv4 + p.l * (32 * blz))) =
      sigma.drop (p.lambdaDiv4 + p.l * (32 * blz)) := by
    apply List.take_of_length_le; rw [List.length_drop]; omega
  rw [hy]
  rw [hintBitUnpack_is_algorithm_21 m p.k p.omega (sigma.drop (p.lambdaDiv4 + p.l * (32 * blz)))
    (fun x hx => hb x (List.mem_of_mem_drop hx)) hom cfg.omk (by rw [List.length_drop]; omega), ok_bind]
  simp only [List.drop_zero, Nat.sub_zero, List.reverse_nil, List.nil_append]
  cases Spec.hintBitUnpack p.omega.toNat p.k (sigma.drop (p.lambdaDiv4 + p.l * (32 * blz))) <;> rfl


/-! ### pkDecode -/

theorem simpleBitUnpack_1023_is_spec (m : Mode) (v : List Nat) (hv : ∀ x ∈ v, x < 256) (hlen : v.length = 320) :
    simpleBitUnpack m v 1023 = .ok (some (Spec.simpleBitUnpack 10 v)) := by
  obtain ⟨w, hw, _, _⟩ := simpleBitUnpack_1023_total m v hv hlen
  have hbu : bitUnpack m v 0 1023 = .ok (some w) := by
    unfold simpleBitUnpack at hw
    have d1 : dassert m "conversion.rs:simple_bit_unpack:debug_assert(Alg 18: b out of range)" (decide ((1:Int) ≤ 1023) && decide ((1023:Int) < 1048576)) = .ok () := by
      cases m <;> rfl
    have hb : bitLen m 1023 = .ok 10 := bitLen_1023 m
    have d2 : dassertM m "conversion.rs:simple_bit_unpack:debug_assert_eq(Alg 18: bad output size)" (do
        let bl ← bitLen m 1023
        pure (v.length == 32 * bl)) = .ok () := by
      rw [hb]; simp only [ok_bind, pure_eq, hlen]
      exact dassertM_true m _
    simpa only [d1, d2, ok_bind] using hw
  have he := bitUnpack_is_algorithm_18 m v 1023 10 (by omega) (bitLen_1023 m) (by omega) hv (by omega)
  rw [hbu] at he
  rw [hw]
  cases hr : isInRange m (Spec.simpleBitUnpack 10 v) 0 1023 with
  | error e => rw [hr] at he; cases he
  | ok ok =>
    rw [hr, ok_bind] at he
    cases ok with
    | false => simp only [Bool.false_eq_true, if_false, pure_eq] at he; cases he
    | true => simp only [if_true, pure_eq] at he; rw [he]

theorem pkDecode_go_is_spec (m : Mode) (pk : List Nat) (hb : ∀ x ∈ pk, x < 256) :
    ∀ (is : List Nat) (acc : List Poly), (∀ i ∈ is, 32 + 32 * (i + 1) * blqd ≤ pk.length) →
      pkDecode.go m pk is acc = .ok (some (acc.reverse ++ is.map (fun i => Spec.simpleBitUnpack 10 ((pk.drop (32 + i * 320)).take 320)))) := by
  have hq : blqd = 10 := by decide
  intro is
  induction is with
  | nil => intro acc _; simp [pkDecode.go, pure, Except.pure]
  | cons i is ih =>
    intro acc hlen
    have hi := hlen i (List.mem_cons_self ..)
    rw [hq] at hi
    have hs := slice_ok "encodings.rs:pk_decode:pk[..]" pk (32 + 32 * i * 10) (32 + 32 * (i + 1) * 10) (by constructor <;> omega)
    have e2 : 32 + 32 * (i + 1) * 10 - (32 + 32 * i * 10) = 320 := by omega
    have e3 : 32 + 32 * i * 10 = 32 + i * 320 := by omega
    rw [e2, e3] at hs
    have hsl : ((pk.drop (32 + i * 320)).take 320).length = 320 := by
      rw [List.length_take, List.length_drop]; omega
    have hw := simpleBitUnpack_1023_is_spec m _ (fun x hx => hb x (mem_slice _ _ _ _ hx)) hsl
    simp only [pkDecode.go, hq, e3, hs, ok_bind, show ((2:Int) ^ 10 - 1) = 1023 by decide, hw]
    rw [ih _ (fun j hj => hlen j (List.mem_cons_of_mem _ hj))]
    simp

/-- **`pk_decode` is FIPS 204 Algorithm 23 (`pkDecode`) as written**, for every byte string of public-key length -/
theorem pkDecode_is_algorithm_23 (m : Mode) (p : ParamSet) (pk : List Nat) (hb : ∀ x ∈ pk, x < 256)
    (hlen : pk.length = 32 + 32 * p.k * blqd) (hcfg : p.pkLen = 32 + 32 * p.k * blqd) :
    ∃ d : PkParts, pkDecode m p pk = .ok (some d) ∧ (d.rho, d.t1) = Spec.pkDecode p.k pk := by
  obtain ⟨d, hd, hrho, _, _⟩ := pkDecode_total m p pk hb hlen hcfg
  refine ⟨d, hd, ?_⟩
  have hq : blqd = 10 := by decide
  have hgo := pkDecode_go_is_spec m pk hb (List.range p.k) []
    (fun i hi => by
      have : i < p.k := List.mem_range.mp hi
      rw [hlen]
      have : 32 * (i + 1) * blqd ≤ 32 * p.k * blqd := Nat.mul_le_mul_right _ (Nat.mul_le_mul_left _ (by omega))
      omega)
  -- read the t1 component off the definition: `pkDecode` returns what `go` returned
  unfold pkDecode at hd
  have d1 : dassert m "encodings.rs:pk_decode:debug_assert_eq(Alg 23: incorrect pk length)" (pk.length == 32 + 32 * p.k * blqd) = .ok () := by
    have : (pk.length == 32 + 32 * p.k * blqd) = true := by simp [hlen]
    rw [this]; cases m <;> rfl
  have d2 : dassert m "encodings.rs:pk_decode:debug_assert_eq(Alg 23: bad pk/config size)" (p.pkLen == 32 + 32 * p.k * blqd) = .ok () := by
    have : (p.pkLen == 32 + 32 * p.k * blqd) = true := by simp [hcfg]
    rw [this]; cases m <;> rfl
  have hs := slice_ok "encodings.rs:pk_decode:pk[0..32]" pk 0 32 (by omega)
  simp only [d1, d2, ok_bind, hs, hgo, List.reverse_nil, List.nil_append] at hd
  cases hda : dassertM m "encodings.rs:pk_decode:debug_assert(Alg 23: t1 out of range)" (do
      let bs ← ((List.range p.k).map (fun i => Spec.simpleBitUnpack 10 ((pk.drop (32 + i * 320)).take 320))).mapM (fun t => isInRange m t 0 (2 ^ blqd - 1))
      pure (bs.all id)) with
  | error e => rw [hda] at hd; cases hd
  | ok u =>
    rw [hda, ok_bind, pure_eq] at hd
    cases hd
    simp [Spec.pkDecode]

/-! ### w1Encode -/

/-- **`w1_encode` is FIPS 204 Algorithm 28 (`w1Encode`) as written**, on every vector of `k` polynomials with coefficients in
    `[0, (q-1)/(2 gamma2) - 1]` (the range of `UseHint`) -/
theorem w1Encode_is_algorithm_28 (m : Mode) (p : ParamSet)
    (hg : (p.gamma2 = 95232 ∧ p.w1Bits = 6) ∨ (p.gamma2 = 261888 ∧ p.w1Bits = 4)) (w1 : List Poly) (hsh : Sh p.k w1)
    (hr : ∀ q ∈ w1, ∀ x ∈ q, 0 ≤ x ∧ x ≤ (Q - 1) / (2 * p.gamma2) - 1) :
    w1Encode m p w1 p.w1Len = .ok (Spec.w1Encode p.w1Bits w1) := by
  obtain ⟨b43, b15⟩ := bitLen_w1 m
  have key : ∃ (qm : Int) (bl : Nat), Int.tdiv (Q - 1) (2 * p.gamma2) - 1 = qm ∧ (Q - 1) / (2 * p.gamma2) - 1 = qm ∧ bitLen m qm = .ok bl ∧
      p.w1Bits = bl ∧ 1 ≤ qm ∧ qm < 1048576 ∧ 1 ≤ bl ∧ bl ≤ 20 ∧ qm < 2 ^ bl ∧ -1073741824 ≤ p.gamma2 ∧ p.gamma2 ≤ 1073741823 ∧ 2 * p.gamma2 ≠ 0 := by
    rcases hg with ⟨h1, h2⟩ | ⟨h1, h2⟩
    · rw [h1, h2]; exact ⟨43, 6, by decide, by decide, b43, rfl, by omega, by omega, by omega, by omega, by decide, by omega, by omega, by omega⟩
    · rw [h1, h2]; exact ⟨15, 4, by decide, by decide, b15, rfl, by omega, by omega, by omega, by omega, by decide, by omega, by omega, by omega⟩
  obtain ⟨qm, bl, e1, e2, hbl, hwb, q1, q2, hbl1, hbl2, hqb, g1, g2, g3⟩ := key
  unfold w1Encode
  rw [arith_i32 _ _ _ (by omega) (by omega), ok_bind, if_neg g3, e1, arith_i32 _ _ _ (by omega) (by omega), ok_bind, hbl, ok_bind]
  have hlen : p.w1Len = 32 * p.k * bl := by unfold ParamSet.w1Len; rw [hwb]
  rw [dassert_dec m _ _ (by rw [hlen]; simp), ok_bind]
  obtain ⟨bs, hbs, _, hbt⟩ := mapM_ok_len (fun r => isInRange m r 0 qm) (fun r => r ∈ w1) (fun b => b = true)
    (fun r hr' => ⟨true, isInRange_true m r 0 qm (by omega) (fun c hc => by have := hr r hr' c hc; omega), rfl⟩) w1 (fun a ha => ha)
  have hall : bs.all id = true := by rw [List.all_eq_true]; intro b hb; exact hbt b hb
  have d2 : dassertM m "encodings.rs:w1_encode:debug_assert(Alg 28: w1 out of range)" (do
      let bs ← w1.mapM (fun r => isInRange m r 0 qm); pure (bs.all id)) = .ok () := by
    apply dassertM_ok; rw [hbs, ok_bind, pure_eq, hall]
  rw [d2, ok_bind]
  -- each row is the standard's SimpleBitPack
  have hrow : ∀ r ∈ w1, simpleBitPack m r qm (32 * bl) = .ok (Spec.simpleBitPack bl r) := by
    intro r hr'
    unfold simpleBitPack
    have dd1 := dassert_dec m "conversion.rs:simple_bit_pack:debug_assert(Alg 16: b out of range)" (decide (1 ≤ qm) && decide (qm < 1048576)) (by simp; omega)
    have dd2 := dassertM_ok m "conversion.rs:simple_bit_pack:debug_assert(Alg 16: w out of range)" _
      (isInRange_true m r 0 qm (by omega) (fun c hc => by have := hr r hr' c hc; omega))
    rw [dd1, ok_bind, dd2, ok_bind]
    simp only [hbl, ok_bind, pure_eq, beq_self_eq_true, dassertM_true]
    exact bitPack_is_algorithm_16 m r qm bl ⟨q1, q2⟩ (by rw [Int.zero_add]; exact hbl) ⟨hbl1, hbl2⟩ (by omega)
      (fun c hc => by have := hr r hr' c hc; omega) (hsh.2 r hr')
  have htake : w1.take p.k = w1 := List.take_of_length_le (by rw [hsh.1]; exact Nat.le_refl _)
  rw [htake]
  have hcs : w1.mapM (fun r => simpleBitPack m r qm (32 * bl)) = .ok (w1.map (fun r => Spec.simpleBitPack bl r)) := by
    have : ∀ (l : List Poly), (∀ r ∈ l, r ∈ w1) → l.mapM (fun r => simpleBitPack m r qm (32 * bl)) = .ok (l.map (fun r => Spec.simpleBitPack bl r)) := by
      intro l
      induction l with
      | nil => intro _; rfl
      | cons r rs ih =>
        intro h
        rw [List.mapM_cons, hrow r (h r List.mem_cons_self), ok_bind, ih (fun x hx => h x (List.mem_cons_of_mem _ hx))]; rfl
    exact this w1 (fun r h => h)
  dsimp only
  rw [hcs, ok_bind]
  have hfl : ((w1.map (fun r => Spec.simpleBitPack bl r)).flatten).length = 32 * p.k * bl := by
    have hcr : ∀ o ∈ w1.map (fun r => Spec.simpleBitPack bl r), o.length = 32 * bl := by
      intro o ho; obtain ⟨r, _, rfl⟩ := List.mem_map.mp ho
      unfold Spec.simpleBitPack; exact bitsToBytes_len _ _
    rw [flatten_len_const (32 * bl) _ hcr, List.length_map, hsh.1, Nat.mul_left_comm, Nat.mul_assoc]
  rw [if_neg (by rw [hfl, hlen]; omega), pure_eq, hfl, hlen, Nat.sub_self]
  simp [Spec.w1Encode, hwb]


/-! ### pkEncode, skEncode -/

theorem mapM_eq_map {α β} (f : α → M β) (g : α → β) : ∀ l : List α, (∀ r ∈ l, f r = .ok (g r)) → l.mapM f = .ok (l.map g) := by
  intro l
  induction l with
  | nil => intro _; rfl
  | cons r rs ih =>
    intro h
    rw [List.mapM_cons, h r List.mem_cons_self, ok_bind, ih (fun x hx => h x (List.mem_cons_of_mem _ hx))]; rfl

/-- **`pk_encode` is FIPS 204 Algorithm 22 (`pkEncode`) as written**, on every `t1` with coefficients in `[0, 1023]` -/
theorem pkEncode_is_algorithm_22 (m : Mode) (p : ParamSet) (rho : List Nat) (t1 : List Poly) (hr : rho.length = 32)
    (hcfg : p.pkLen = 32 + 32 * p.k * blqd) (hs : Sh p.k t1) (ht : ∀ q ∈ t1, ∀ x ∈ q, 0 ≤ x ∧ x ≤ 1023) :
    pkEncode m p rho t1 = .ok (Spec.pkEncode rho t1) := by
  have hq : blqd = 10 := by decide
  have e1023 : (2:Int) ^ blqd - 1 = 1023 := by rw [hq]; decide
  unfold pkEncode
  rw [e1023]
  obtain ⟨bs, hbs, _, hbt⟩ := mapM_ok_len (fun t => isInRange m t 0 1023) (fun r => r ∈ t1) (fun b => b = true)
    (fun r hr' => ⟨true, isInRange_true m r 0 1023 (by omega) (fun c hc => by have := ht r hr' c hc; omega), rfl⟩) t1 (fun a ha => ha)
  have hall : bs.all id = true := by rw [List.all_eq_true]; intro b hb'; exact hbt b hb'
  simp only [hbs, ok_bind, pure_eq, hall, dassertM_true]
  rw [dassert_dec m _ _ (by simp [hcfg]), ok_bind, if_neg (by omega)]
  have hb10 : bitLen m 1023 = .ok 10 := by have := bitLen_1023 m; simpa using this
  have htake : t1.take p.k = t1 := List.take_of_length_le (by rw [hs.1]; exact Nat.le_refl _)
  have hrow : ∀ r ∈ t1, simpleBitPack m r 1023 (32 * blqd) = .ok (Spec.simpleBitPack 10 r) := by
    intro r hr'
    rw [hq]
    unfold simpleBitPack
    have dd1 := dassert_dec m "conversion.rs:simple_bit_pack:debug_assert(Alg 16: b out of range)" (decide ((1:Int) ≤ 1023) && decide ((1023:Int) < 1048576)) (by decide)
    have dd2 := dassertM_ok m "conversion.rs:simple_bit_pack:debug_assert(Alg 16: w out of range)" _
      (isInRange_true m r 0 1023 (by omega) (fun c hc => by have := ht r hr' c hc; omega))
    rw [dd1, ok_bind, dd2, ok_bind]
    simp only [hb10, ok_bind, pure_eq, beq_self_eq_true, dassertM_true]
    exact bitPack_is_algorithm_16 m r 1023 10 (by omega) (bitLen_1023 m) (by omega) (by decide)
      (fun c hc => by have := ht r hr' c hc; omega) (hs.2 r hr')
  rw [htake, mapM_eq_map _ _ t1 hrow, ok_bind]
  have hfl : ((t1.map (fun t => Spec.simpleBitPack 10 t)).flatten).length = 32 * p.k * 10 := by
    have hcr : ∀ o ∈ t1.map (fun r => Spec.simpleBitPack 10 r), o.length = 320 := by
      intro o ho; obtain ⟨r, _, rfl⟩ := List.mem_map.mp ho
      unfold Spec.simpleBitPack; exact bitsToBytes_len _ _
    rw [flatten_len_const 320 _ hcr, List.length_map, hs.1]; omega
  unfold Spec.pkEncode
  rw [hcfg, hq, hfl]
  have e0 : 32 + 32 * p.k * 10 - 32 - 32 * p.k * 10 = 0 := by omega
  rw [e0]
  simp only [List.replicate_zero, List.append_nil, pure_eq]
  congr 1
  apply List.take_of_length_le
  rw [List.length_append, hr, hfl]
  exact Nat.le_refl _

/-- **`sk_encode` is FIPS 204 Algorithm 24 (`skEncode`) as written**, on every in-range `(s1, s2, t0)` -/
theorem skEncode_is_algorithm_24 (m : Mode) (p : ParamSet) (he : p.eta = 2 ∨ p.eta = 4) (bl : Nat) (hbl : bitLen m (2 * p.eta) = .ok bl)
    (hcfg : p.skLen = 128 + 32 * ((p.k + p.l) * bl + D.toNat * p.k)) (s : SkParts)
    (hr : s.rho.length = 32) (hk : s.key.length = 32) (ht : s.tr.length = 64)
    (h1 : VecIn p.l (-p.eta) p.eta s.s1) (h2 : VecIn p.k (-p.eta) p.eta s.s2) (h0 : VecIn p.k (-(top - 1)) top s.t0) :
    skEncode m p s = .ok (Spec.skEncode bl p.eta s.rho s.key s.tr s.s1 s.s2 s.t0) := by
  obtain ⟨out, hout, holen⟩ := skEncode_ok m p he bl hbl hcfg s hr hk ht h1 h2 h0
  obtain ⟨bl', g1, g2, g3, g4⟩ := bitLen_eta m p.eta he
  rw [hbl] at g1
  simp only [Except.ok.injEq] at g1
  subst g1
  have hD : D.toNat = 13 := by decide
  have eta0 : 0 < p.eta ∧ p.eta < 1048576 := by rcases he with h | h <;> omega
  have eta1 : 1 ≤ p.eta ∧ p.eta < 1048576 := by rcases he with h | h <;> omega
  have htop : top = 4096 := by decide
  have hpow : p.eta + p.eta < 2 ^ bl := by
    have b3 : bitLen m (2 + 2) = .ok 3 := of_toOption _ _ (by cases m <;> decide +kernel)
    have b4 : bitLen m (4 + 4) = .ok 4 := of_toOption _ _ (by cases m <;> decide +kernel)
    rcases he with h | h
    · rw [h] at g2 ⊢; rw [b3] at g2; cases g2; decide
    · rw [h] at g2 ⊢; rw [b4] at g2; cases g2; decide
  rw [hout]
  unfold skEncode at hout
  simp only [] at hout
  have d1 : dassert m "encodings.rs:sk_encode:debug_assert(Alg 24: incorrect eta)" (decide (p.eta = 2) || decide (p.eta = 4)) = .ok () := by
    apply dassert_dec; rcases he with h | h <;> simp [h]
  rw [d1, ok_bind, dassertM_ok m _ _ (mapM_isInRange_true m s.s1 p.eta p.eta (by omega) h1.2), ok_bind,
    dassertM_ok m _ _ (mapM_isInRange_true m s.s2 p.eta p.eta (by omega) h2.2), ok_bind,
    dassertM_ok m _ _ (mapM_isInRange_true m s.t0 (top - 1) top (by rw [htop]; omega) h0.2), ok_bind, hbl, ok_bind,
    dassert_dec m _ _ (by simp [hcfg]), ok_bind, if_neg (by rw [hr, hk, ht]; simp)] at hout
  have t1' : s.s1.take p.l = s.s1 := List.take_of_length_le (by rw [h1.1.1]; exact Nat.le_refl _)
  have t2' : s.s2.take p.k = s.s2 := List.take_of_length_le (by rw [h2.1.1]; exact Nat.le_refl _)
  have t3' : s.t0.take p.k = s.t0 := List.take_of_length_le (by rw [h0.1.1]; exact Nat.le_refl _)
  have e1 := mapM_eq_map (fun x => bitPack m x p.eta p.eta (32 * bl)) (fun x => Spec.bitPack bl p.eta x) s.s1
    (fun r hr' => bitPack_is_algorithm_17 m r p.eta p.eta bl eta0 eta1 g2 ⟨g3, g4⟩ hpow (h1.2 r hr') (h1.1.2 r hr'))
  have e2 := mapM_eq_map (fun x => bitPack m x p.eta p.eta (32 * bl)) (fun x => Spec.bitPack bl p.eta x) s.s2
    (fun r hr' => bitPack_is_algorithm_17 m r p.eta p.eta bl eta0 eta1 g2 ⟨g3, g4⟩ hpow (h2.2 r hr') (h2.1.2 r hr'))
  have e3 := mapM_eq_map (fun x => bitPack m x (top - 1) top (32 * 13)) (fun x => Spec.bitPack 13 4096 x) s.t0
    (fun r hr' => by
      have := bitPack_is_algorithm_17 m r (top - 1) top 13 (by rw [htop]; omega) (by rw [htop]; omega) (bitLen_t0 m) (by omega)
        (by rw [htop]; decide) (h0.2 r hr') (h0.1.2 r hr')
      rw [htop] at this ⊢
      exact this)
  rw [t1', t2', t3', e1, ok_bind, e2, ok_bind, hD, e3, ok_bind] at hout
  unfold Spec.skEncode
  split at hout
  · cases hout
  · rw [pure_eq] at hout
    exact (ok_inj hout).symm ▸ rfl


/-! ### skDecode -/

theorem isInRange_eval (m : Mode) (w : Poly) (lo hi : Int) (hlo : -2147483647 ≤ lo ∧ lo ≤ 2147483648) :
    isInRange m w lo hi = .ok (w.all (fun e => decide (e ≥ -lo) && decide (e ≤ hi))) := by
  unfold isInRange
  rw [arith_i32 _ _ _ (by omega) (by omega)]
  rfl

/-- `bit_unpack` with `a > 0`: the standard's `BitUnpack`, kept exactly when all coefficients lie in `[-a, b]` -/
theorem bitUnpack_checked_is_spec (m : Mode) (v : List Nat) (a b : Int) (bl : Nat) (ha : 0 < a ∧ a < 1048576) (hb : 1 ≤ b ∧ b < 1048576)
    (hbl : bitLen m (a + b) = .ok bl) (hbl2 : 1 ≤ bl ∧ bl ≤ 20) (hv : ∀ x ∈ v, x < 256) (hlen : v.length = 32 * bl) :
    bitUnpack m v a b = .ok (if (Spec.bitUnpack bl b v).all (fun e => decide (e ≥ -a) && decide (e ≤ b)) then some (Spec.bitUnpack bl b v) else none) := by
  rw [bitUnpack_is_algorithm_19 m v a b bl ha hb hbl hbl2 hv hlen, isInRange_eval m _ a b (by omega), ok_bind]
  split <;> rfl

theorem unpackMany_checked_is_spec (m : Mode) (site : String) (bytes : List Nat) (hb : ∀ x ∈ bytes, x < 256) (start : Nat) (a b : Int) (bl : Nat)
    (ha : 0 < a ∧ a < 1048576) (hbb : 1 ≤ b ∧ b < 1048576) (hbl : bitLen m (a + b) = .ok bl) (hbl2 : 1 ≤ bl ∧ bl ≤ 20) :
    ∀ (is : List Nat) (acc : List Poly), (∀ i ∈ is, start + (i + 1) * (32 * bl) ≤ bytes.length) →
      unpackMany m site bytes start (32 * bl) a b is acc =
        .ok (if Spec.allInRange a b (is.map (fun i => Spec.bitUnpack bl b ((bytes.drop (start + i * (32 * bl))).take (32 * bl))))
          then some (acc.reverse ++ is.map (fun i => Spec.bitUnpack bl b ((bytes.drop (start + i * (32 * bl))).take (32 * bl)))) else none) := by
  intro is
  induction is with
  | nil => intro acc _; simp [unpackMany, pure, Except.pure, Spec.allInRange]
  | cons i is ih =>
    intro acc hlen
    have hi := hlen i (List.mem_cons_self ..)
    have e1 : start + (i + 1) * (32 * bl) = start + i * (32 * bl) + 32 * bl := by rw [Nat.add_mul, Nat.one_mul]; omega
    have hs := slice_ok site bytes (start + i * (32 * bl)) (start + (i + 1) * (32 * bl)) (by constructor <;> omega)
    have e2 : start + (i + 1) * (32 * bl) - (start + i * (32 * bl)) = 32 * bl := by omega
    rw [e2] at hs
    have hsl : ((bytes.drop (start + i * (32 * bl))).take (32 * bl)).length = 32 * bl := by
      rw [List.length_take, List.length_drop]; omega
    have hw := bitUnpack_checked_is_spec m _ a b bl ha hbb hbl hbl2 (fun x hx => hb x (mem_slice _ _ _ _ hx)) hsl
    unfold unpackMany
    rw [hs, ok_bind, hw, ok_bind]
    simp only [Spec.allInRange, List.map_cons, List.all_cons]
    by_cases hr : (Spec.bitUnpack bl b ((bytes.drop (start + i * (32 * bl))).take (32 * bl))).all (fun e => decide (e ≥ -a) && decide (e ≤ b)) = true
    · rw [if_pos hr, hr, Bool.true_and]
      simp only []
      rw [ih _ (fun j hj => hlen j (List.mem_cons_of_mem _ hj))]
      simp [Spec.allInRange]
    · rw [if_neg hr]
      have : (Spec.bitUnpack bl b ((bytes.drop (start + i * (32 * bl))).take (32 * bl))).all (fun e => decide (e ≥ -a) && decide (e ≤ b)) = false := by
        simpa using hr
      rw [this, Bool.false_and]
      simp [pure_eq]

/-- **`sk_decode` is FIPS 204 Algorithm 25 (`skDecode`) as written, accepted exactly when every coefficient of `s1` and `s2` lies in
    `[-eta, eta]`** (the check the standard requires of an implementation that accepts keys from outside), for every byte string of
    private-key length -/
theorem skDecode_is_algorithm_25 (m : Mode) (p : ParamSet) (skb : List Nat) (hb : ∀ x ∈ skb, x < 256)
    (he : p.eta = 2 ∨ p.eta = 4) (bl : Nat) (hbl : bitLen m (2 * p.eta) = .ok bl)
    (hlen : skb.length = 128 + 32 * ((p.k + p.l) * bl + D.toNat * p.k)) (hcfg : p.skLen = skb.length) :
    skDecode m p skb = .ok (
      let d := Spec.skDecode bl p.eta p.k p.l skb
      if Spec.allInRange p.eta p.eta d.2.2.2.1 && Spec.allInRange p.eta p.eta d.2.2.2.2.1
      then some { rho := d.1, key := d.2.1, tr := d.2.2.1, s1 := d.2.2.2.1, s2 := d.2.2.2.2.1, t0 := d.2.2.2.2.2 } else none) := by
  obtain ⟨bl', h1, h2, h3, h4⟩ := bitLen_eta m p.eta he
  rw [hbl] at h1
  simp only [Except.ok.injEq] at h1
  subst h1
  have hD : D.toNat = 13 := by decide
  rw [hD] at hlen
  have eta0 : 0 < p.eta ∧ p.eta < 1048576 := by rcases he with h | h <;> omega
  have eta1 : 1 ≤ p.eta ∧ p.eta < 1048576 := by rcases he with h | h <;> omega
  unfold skDecode
  have d1 : dassert m "encodings.rs:sk_decode:debug_assert(Alg 25: incorrect eta)" (decide (p.eta = 2) || decide (p.eta = 4)) = .ok () := by
    have : (decide (p.eta = 2) || decide (p.eta = 4)) = true := by rcases he with h | h <;> simp [h]
    rw [this]; cases m <;> rfl
  have d2 : dassert m "encodings.rs:sk_decode:debug_assert_eq(Alg 25: bad sk/config size)"
      (p.skLen == 128 + 32 * ((p.k + p.l) * bl + D.toNat * p.k)) = .ok () := by
    have : (p.skLen == 128 + 32 * ((p.k + p.l) * bl + D.toNat * p.k)) = true := by rw [hD]; simp [hcfg, hlen]
    rw [this]; cases m <;> rfl
  have s1 := slice_ok "encodings.rs:sk_decode:sk[0..32]" skb 0 32 (by omega)
  have s2 := slice_ok "encodings.rs:sk_decode:sk[32..64]" skb 32 64 (by omega)
  have s3 := slice_ok "encodings.rs:sk_decode:sk[64..128]" skb 64 128 (by omega)
  have hexp : (p.k + p.l) * bl = p.l * bl + p.k * bl := by rw [Nat.add_mul]; omega
  have hr1 := unpackMany_checked_is_spec m "encodings.rs:sk_decode:s1" skb hb 128 p.eta p.eta bl eta0 eta1 h2 ⟨h3, h4⟩ (List.range p.l) []
    (fun i hi => by
      have : i < p.l := List.mem_range.mp hi
      have : (i + 1) * (32 * bl) ≤ p.l * (32 * bl) := Nat.mul_le_mul_right _ (by omega)
      have e : p.l * (32 * bl) = 32 * (p.l * bl) := by rw [Nat.mul_left_comm]
      rw [hlen, hexp]; omega)
  have hr2 := unpackMany_checked_is_spec m "encodings.rs:sk_decode:s2" skb hb (128 + p.l * (32 * bl)) p.eta p.eta bl eta0 eta1 h2 ⟨h3, h4⟩ (List.range p.k) []
    (fun i hi => by
      have : i < p.k := List.mem_range.mp hi
      have : (i + 1) * (32 * bl) ≤ p.k * (32 * bl) := Nat.mul_le_mul_right _ (by omega)
      have e : p.l * (32 * bl) = 32 * (p.l * bl) := by rw [Nat.mul_left_comm]
      have e2 : p.k * (32 * bl) = 32 * (p.k * bl) := by rw [Nat.mul_left_comm]
      rw [hlen, hexp]; omega)
  have htop : top = 4096 := by decide
  have hr3 := unpackMany_is_spec m "encodings.rs:sk_decode:t0" skb hb (128 + p.l * (32 * bl) + p.k * (32 * bl)) (top - 1) top 13
    (by decide) (by decide) (bitLen_t0 m) (by omega) (by decide) (List.range p.k) []
    (fun i hi => by
      have : i < p.k := List.mem_range.mp hi
      have : (i + 1) * (32 * 13) ≤ p.k * (32 * 13) := Nat.mul_le_mul_right _ (by omega)
      have e : p.l * (32 * bl) = 32 * (p.l * bl) := by rw [Nat.mul_left_comm]
      have e2 : p.k * (32 * bl) = 32 * (p.k * bl) := by rw [Nat.mul_left_comm]
      rw [hlen, hexp]; omega)
  have d3 : dassert m "encodings.rs:sk_decode:debug_assert_eq(Alg 25: length miscalc)"
      (128 + p.l * (32 * bl) + p.k * (32 * bl) + p.k * (32 * 13) == skb.length) = .ok () := by
    have e : p.l * (32 * bl) = 32 * (p.l * bl) := by rw [Nat.mul_left_comm]
    have e2 : p.k * (32 * bl) = 32 * (p.k * bl) := by rw [Nat.mul_left_comm]
    have : (128 + p.l * (32 * bl) + p.k * (32 * bl) + p.k * (32 * 13) == skb.length) = true := by
      rw [hlen, hexp]; simp; omega
    rw [this]; cases m <;> rfl
  have d2' : dassert m "encodings.rs:sk_decode:debug_assert_eq(Alg 25: bad sk/config size)"
      (p.skLen == 128 + 32 * ((p.k + p.l) * bl + 13 * p.k)) = .ok () := by rw [← hD]; exact d2
  simp only [d1, hbl, hD, d2', s1, s2, s3, ok_bind, hr1]
  unfold Spec.skDecode
  simp only [List.reverse_nil, List.nil_append, List.drop_zero, Nat.sub_zero]
  by_cases c1 : Spec.allInRange p.eta p.eta ((List.range p.l).map (fun i => Spec.bitUnpack bl p.eta ((skb.drop (128 + i * (32 * bl))).take (32 * bl)))) = true
  · rw [if_pos c1, c1, Bool.true_and]
    simp only [hr2]
    by_cases c2 : Spec.allInRange p.eta p.eta ((List.range p.k).map (fun i => Spec.bitUnpack bl p.eta ((skb.drop (128 + p.l * (32 * bl) + i * (32 * bl))).take (32 * bl)))) = true
    · rw [if_pos c2, if_pos c2]
      simp only [ok_bind]
      rw [hr3]
      simp only [ok_bind, htop, List.reverse_nil, List.nil_append, d3, pure_eq]
    · rw [if_neg c2, if_neg c2]
      simp only [ok_bind, pure_eq]
  · rw [if_neg c1]
    have : Spec.allInRange p.eta p.eta ((List.range p.l).map (fun i => Spec.bitUnpack bl p.eta ((skb.drop (128 + i * (32 * bl))).take (32 * bl)))) = false := by
      simpa using c1
    rw [this, Bool.false_and]
    simp only [ok_bind, pure_eq, Bool.false_eq_true, if_false]


/-! ### sigEncode -/

/-- **`sig_encode` is FIPS 204 Algorithm 26 (`sigEncode`) as written**, on every in-range response and every 0/1 hint with at most omega ones -/
theorem sigEncode_is_algorithm_26 (m : Mode) (p : ParamSet) (blz : Nat) (cfg : SigCfg p blz) (ct : List Nat) (z h : List Poly)
    (hct : ct.length = p.lambdaDiv4) (hz : Sh p.l z) (hzr : ∀ q ∈ z, ∀ c ∈ q, -(p.gamma1 - 1) ≤ c ∧ c ≤ p.gamma1)
    (hh : Sh p.k h) (hb : ∀ q ∈ h, Bin q) (hsum : onesAll h ≤ p.omega.toNat) :
    sigEncode m false p ct z h = .ok (Spec.sigEncode blz p.gamma1 p.omega.toNat ct z h) := by
  obtain ⟨bl0, h0, hbz, h1, hpow, hz1, hz2, hg1, hg2, _⟩ := gamma1_facts m p blz cfg
  have hg2' : 2 ≤ p.gamma1 := by rcases cfg.g1 with ⟨h, _⟩ | ⟨h, _⟩ <;> omega
  have hlen' := cfg.len
  have hom := cfg.om
  have hsl : sigLenOk m p = .ok true := by
    unfold sigLenOk
    rw [arith_i32 _ _ _ (by omega) (by omega), ok_bind, h0, ok_bind, pure_eq]
    congr 1
    have e : (absI p.omega).toNat = p.omega.toNat := by rw [absI_eq, if_neg (by omega)]
    rw [e, hlen']
    simp only [beq_iff_eq]
    have : p.l * 32 * (1 + bl0) = p.l * (32 * blz) := by rw [← hbz, Nat.mul_assoc, Nat.add_comm]
    omega
  unfold sigEncode
  rw [arith_i32 _ _ _ (by omega) (by omega), ok_bind]
  obtain ⟨bs1, hbs1, _, hbt1⟩ := mapM_ok_len (fun x => isInRange m x (p.gamma1 - 1) p.gamma1) (fun r => r ∈ z) (fun b => b = true)
    (fun r hr' => ⟨true, isInRange_true m r (p.gamma1 - 1) p.gamma1 (by omega) (hzr r hr'), rfl⟩) z (fun a ha => ha)
  have hall1 : bs1.all id = true := by rw [List.all_eq_true]; intro b hb'; exact hbt1 b hb'
  obtain ⟨bs2, hbs2, _, hbt2⟩ := mapM_ok_len (fun x => isInRange m x 0 1) (fun r => r ∈ h) (fun b => b = true)
    (fun r hr' => ⟨true, isInRange_true m r 0 1 (by omega) (fun c hc => by
      rcases (hb r hr').2 c hc with h0 | h1 <;> omega), rfl⟩) h (fun a ha => ha)
  have hall2 : bs2.all id = true := by rw [List.all_eq_true]; intro b hb'; exact hbt2 b hb'
  simp only [hbs1, hbs2, ok_bind, pure_eq, hall1, hall2, dassertM_true, dassertM_ok m _ _ hsl]
  rw [if_neg (by rw [hct]; exact fun h => h rfl), h0, ok_bind]
  have hstep : 32 * (1 + bl0) = 32 * blz := by rw [← hbz, Nat.add_comm]
  simp only [hstep]
  have htake : z.take p.l = z := List.take_of_length_le (by rw [hz.1]; exact Nat.le_refl _)
  have hzs := mapM_eq_map (fun x => bitPack m x (p.gamma1 - 1) p.gamma1 (32 * blz)) (fun x => Spec.bitPack blz p.gamma1 x) z
    (fun r hr' => bitPack_is_algorithm_17 m r (p.gamma1 - 1) p.gamma1 blz (by omega) (by omega) h1 ⟨hz1, hz2⟩ (by omega) (hzr r hr') (hz.2 r hr'))
  rw [htake, hzs, ok_bind]
  have hfl : ((z.map (fun x => Spec.bitPack blz p.gamma1 x)).flatten).length = p.l * (32 * blz) := by
    have hcr : ∀ o ∈ z.map (fun x => Spec.bitPack blz p.gamma1 x), o.length = 32 * blz := by
      intro o ho; obtain ⟨r, _, rfl⟩ := List.mem_map.mp ho
      unfold Spec.bitPack; exact bitsToBytes_len _ _
    rw [flatten_len_const (32 * blz) _ hcr, List.length_map, hz.1]
  rw [if_neg (by omega)]
  have hrest : p.sigLen - (p.lambdaDiv4 + p.l * (32 * blz)) = p.omega.toNat + p.k := by omega
  rw [hrest, hintBitPack_is_algorithm_20 m p.omega h p.k hom hh.1 cfg.omk hb hsum, ok_bind]
  rfl

end Fips204.Impl
