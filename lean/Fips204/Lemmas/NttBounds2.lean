import Fips204.Lemmas.NttBounds
/-!
  Magnitude envelope of the forward transform, `to_mont`, and `mat_vec_mul` (DESIGN 3.2):
  no `i32`/`i64` overflow and no failed assertion, in either build mode, on the stated input ranges.
-/
namespace Fips204.Impl
open Fips204 Fips204.Gen Fips204.K

/-- product of a non-negative bounded factor and a symmetric bounded factor -/
theorem mul_bound (z x Z X : Int) (hz0 : 0 ≤ z) (hz : z ≤ Z) (hx1 : -X ≤ x) (hx2 : x ≤ X) :
    -(Z * X) ≤ z * x ∧ z * x ≤ Z * X := by
  have hX : 0 ≤ X := by omega
  have hZ : 0 ≤ Z := by omega
  rcases Int.le_total 0 x with h | h
  · have h1 : z * x ≤ Z * X := Int.mul_le_mul hz hx2 h hZ
    have h2 : 0 ≤ z * x := Int.mul_nonneg hz0 h
    have h3 : 0 ≤ Z * X := Int.mul_nonneg hZ hX
    omega
  · have h1 : z * (-x) ≤ Z * X := Int.mul_le_mul hz (by omega) (by omega) hZ
    have e : z * (-x) = -(z * x) := Int.mul_neg _ _
    have h2 : z * x ≤ 0 := Int.mul_nonpos_of_nonneg_of_nonpos hz0 h
    have h3 : 0 ≤ Z * X := Int.mul_nonneg hZ hX
    omega

/-- one forward layer adds at most one Montgomery product to the magnitude -/
def fstep (B : Int) : Int := B + 8380416 * B / 4294967296 + 4190210

/-- bound after `d` forward layers -/
def bfw : Nat → Int → Int
  | 0, B => B
  | d + 1, B => bfw d (fstep B)

theorem fstep_ge (B : Int) (h : 0 ≤ B) : B ≤ fstep B := by unfold fstep; omega

theorem bfw_ge (d : Nat) : ∀ B : Int, 0 ≤ B → B ≤ bfw d B := by
  induction d with
  | zero => intro B _; exact Int.le_refl _
  | succ d ih =>
    intro B h
    have h1 := fstep_ge B h
    have h2 := ih (fstep B) (by omega)
    simp only [bfw]; omega

/-- the forward butterflies never fault while the envelope stays inside i32 -/
theorem nttRec_ok (m : Mode) : ∀ (d k : Nat) (w : List Int) (B : Int), Bnd B w → 0 ≤ B →
    bfw d B ≤ 2147483647 → (k + 1) * 2 ^ d ≤ 512 → ∃ w', nttRec m d k w = .ok w' ∧ Bnd (bfw d B) w' := by
  intro d
  induction d with
  | zero => intro k w B hw _ _ _; exact ⟨w, by simp [nttRec, pure, Except.pure], hw⟩
  | succ d ih =>
    intro k w B hw hB hfit hk
    simp only [bfw] at hfit
    show ∃ w', nttRec m (d + 1) k w = .ok w' ∧ Bnd (bfw d (fstep B)) w'
    rw [Nat.pow_succ] at hk
    have hk1 : (2 * k + 1 + 1) * 2 ^ d ≤ 512 := by
      have e : (2 * k + 1 + 1) * 2 ^ d = (k + 1) * (2 ^ d * 2) := by
        rw [show 2 * k + 1 + 1 = (k + 1) * 2 by omega, Nat.mul_assoc, Nat.mul_comm 2 (2 ^ d)]
      omega
    have hk0 : (2 * k + 1) * 2 ^ d ≤ 512 := by
      have : (2 * k + 1) * 2 ^ d ≤ (2 * k + 1 + 1) * 2 ^ d := Nat.mul_le_mul_right _ (by omega)
      omega
    have hkz : k < 256 := by
      have h1 := two_pow_pos d
      have : (k + 1) * 2 ≤ (k + 1) * (2 ^ d * 2) := Nat.mul_le_mul_left _ (by omega)
      omega
    have hs := fstep_ge B hB
    have hge := bfw_ge d (fstep B) (by omega)
    have hsB : fstep B ≤ 2147483647 := by omega
    obtain ⟨z, hz, z0, z1⟩ := zeta_ok "ntt.rs:ntt:ZETA_TABLE_MONT[m]" k hkz
    have hBm : 8380416 * B ≤ 17996806323437568 := by unfold fstep at hsB; omega
    -- t = mont_reduce(zeta * w[j + len])
    obtain ⟨ts, hts, bts⟩ := mapM_ok (fun x => do
        let p ← arith .i64 m "ntt.rs:ntt:zeta*w" (z * x)
        mont_reduce m p) (fun x => -B ≤ x ∧ x ≤ B)
      (fun t => -(8380416 * B / 4294967296 + 4190210) ≤ t ∧ t ≤ 8380416 * B / 4294967296 + 4190210)
      (fun x hx => by
        have hp := mul_bound z x 8380416 B z0 (by omega) hx.1 hx.2
        have hb := montv_bound (z * x) (8380416 * B) hp.1 hp.2
        refine ⟨montv (z * x), ?_, hb.1, hb.2⟩
        simp only [arith_i64 _ _ _ (show (-9223372036854775808:Int) ≤ z * x by omega) (show z * x ≤ 9223372036854775807 by omega), ok_bind,
          mont_reduce_eq m _ (show (-17996808479301632:Int) ≤ z * x by omega) (show z * x ≤ 17996808470921215 by omega)])
      (w.drop (w.length / 2)) (hw.drop _)
    obtain ⟨hi', hhi, bhi⟩ := zipWithM_ok (fun a t => arith .i32 m "ntt.rs:ntt:w[j]-t" (a - t))
      (fun a => -B ≤ a ∧ a ≤ B) (fun t => -(8380416 * B / 4294967296 + 4190210) ≤ t ∧ t ≤ 8380416 * B / 4294967296 + 4190210)
      (fun c => -(fstep B) ≤ c ∧ c ≤ fstep B)
      (fun a t ha ht => ⟨a - t, arith_i32 _ _ _ (by unfold fstep at hsB; omega) (by unfold fstep at hsB; omega), by unfold fstep; omega, by unfold fstep; omega⟩)
      (w.take (w.length / 2)) ts (hw.take _) bts
    obtain ⟨lo', hlo, blo⟩ := zipWithM_ok (fun a t => arith .i32 m "ntt.rs:ntt:w[j]+t" (a + t))
      (fun a => -B ≤ a ∧ a ≤ B) (fun t => -(8380416 * B / 4294967296 + 4190210) ≤ t ∧ t ≤ 8380416 * B / 4294967296 + 4190210)
      (fun c => -(fstep B) ≤ c ∧ c ≤ fstep B)
      (fun a t ha ht => ⟨a + t, arith_i32 _ _ _ (by unfold fstep at hsB; omega) (by unfold fstep at hsB; omega), by unfold fstep; omega, by unfold fstep; omega⟩)
      (w.take (w.length / 2)) ts (hw.take _) bts
    obtain ⟨l, hl, bl⟩ := ih (2 * k) lo' (fstep B) blo (by omega) hfit hk0
    obtain ⟨h, hh, bh⟩ := ih (2 * k + 1) hi' (fstep B) bhi (by omega) hfit hk1
    refine ⟨l ++ h, ?_, Bnd.append bl bh⟩
    simp only [nttRec, hz, ok_bind, hts, hhi, hlo, hl, hh, pure_eq]

/-- bound reached by the forward transform from inputs of magnitude at most 2^19 (the largest any caller supplies:
    the response vector z, the mask y) -/
theorem bfw_gamma1 : bfw 8 524288 = 34284028 := by decide

/-- the forward NTT of any polynomial with coefficients in [-2^19, 2^19] never faults and stays below 3.43e7 < 67e6 -/
theorem nttPoly_ok (m : Mode) (w : List Int) (hw : Bnd 524288 w) : ∃ w', nttPoly m w = .ok w' ∧ Bnd 34284028 w' := by
  have h := nttRec_ok m 8 1 w 524288 hw (by omega) (by rw [bfw_gamma1]; omega) (by decide)
  rw [bfw_gamma1] at h
  exact h

theorem ntt_ok (m : Mode) (ws : List (List Int)) (hw : ∀ w ∈ ws, Bnd 524288 w) :
    ∃ r, ntt m ws = .ok r ∧ ∀ w' ∈ r, Bnd 34284028 w' :=
  mapM_ok (nttPoly m) (Bnd 524288) (Bnd 34284028) (nttPoly_ok m) ws hw

/-- `to_mont` on the forward transform's envelope: no fault, result strictly inside (-2q, 2q) -/
theorem toMont_ok (m : Mode) (v : List (List Int)) (hv : ∀ w ∈ v, Bnd 67000000 w) :
    ∃ r, toMont m v = .ok r ∧ ∀ w' ∈ r, Bnd 16760833 w' := by
  unfold toMont
  exact mapM_ok (fun p => p.mapM (to_mont_coeff m)) (Bnd 67000000) (Bnd 16760833)
    (fun p hp => mapM_ok (to_mont_coeff m) (fun x => -67000000 ≤ x ∧ x ≤ 67000000) (fun y => -16760833 ≤ y ∧ y ≤ 16760833)
      (fun x hx => ⟨pr64s x, to_mont_coeff_eq m x hx.1 hx.2, by have := pr64s_spec x hx.1 hx.2; omega, by have := pr64s_spec x hx.1 hx.2; omega⟩) p hp) v hv

end Fips204.Impl

namespace Fips204.Impl
open Fips204 Fips204.Gen Fips204.K

theorem mul_bound_sym (x y X Y : Int) (hx1 : -X ≤ x) (hx2 : x ≤ X) (hy1 : -Y ≤ y) (hy2 : y ≤ Y) :
    -(X * Y) ≤ x * y ∧ x * y ≤ X * Y := by
  rcases Int.le_total 0 x with h | h
  · exact mul_bound x y X Y h hx2 hy1 hy2
  · have := mul_bound (-x) y X Y (by omega) (by omega) hy1 hy2
    have e : -x * y = -(x * y) := Int.neg_mul _ _
    omega

/-- pointwise success of `zipWith3M` -/
theorem zipWith3M_ok {α β γ δ} (f : α → β → γ → M δ) (P : α → Prop) (P' : β → Prop) (P'' : γ → Prop) (R : δ → Prop)
    (hf : ∀ a b c, P a → P' b → P'' c → ∃ d, f a b c = .ok d ∧ R d) :
    ∀ (l : List α) (l' : List β) (l'' : List γ), (∀ a ∈ l, P a) → (∀ b ∈ l', P' b) → (∀ c ∈ l'', P'' c) →
      ∃ r, zipWith3M f l l' l'' = .ok r ∧ ∀ d ∈ r, R d := by
  intro l
  induction l with
  | nil => intro l' l'' _ _ _; exact ⟨[], by simp [zipWith3M, pure, Except.pure], by simp⟩
  | cons a as ih =>
    intro l' l'' h h' h''
    cases l' with
    | nil => exact ⟨[], by simp [zipWith3M, pure, Except.pure], by simp⟩
    | cons b bs =>
      cases l'' with
      | nil => exact ⟨[], by simp [zipWith3M, pure, Except.pure], by simp⟩
      | cons c cs =>
        obtain ⟨d, hd, hr⟩ := hf a b c (h a (List.mem_cons_self ..)) (h' b (List.mem_cons_self ..)) (h'' c (List.mem_cons_self ..))
        obtain ⟨ds, hds, hrs⟩ := ih bs cs (fun x hx => h x (List.mem_cons_of_mem _ hx)) (fun x hx => h' x (List.mem_cons_of_mem _ hx))
          (fun x hx => h'' x (List.mem_cons_of_mem _ hx))
        refine ⟨d :: ds, ?_, ?_⟩
        · simp only [zipWith3M, hd, hds, ok_bind, pure_eq]
        · intro x hx; rcases List.mem_cons.mp hx with rfl | hx
          · exact hr
          · exact hrs x hx

/-- canonical residues -/
def Res (w : List Int) : Prop := ∀ x ∈ w, 0 ≤ x ∧ x ≤ 8380416

/-- one multiply-accumulate step of `mat_vec_mul` -/
theorem acc_ok (m : Mode) (C e a u : Int) (he : -C ≤ e ∧ e ≤ C) (ha : 0 ≤ a ∧ a ≤ 8380416) (hu : -16760833 ≤ u ∧ u ≤ 16760833)
    (hC : 0 ≤ C) (hfit : C + 8380416 ≤ 2147483647) :
    ∃ r, mat_vec_mul_acc m e a u = .ok r ∧ -(C + 8380416) ≤ r ∧ r ≤ C + 8380416 := by
  have hp := mul_bound a u 8380416 16760833 ha.1 ha.2 hu.1 hu.2
  have hm := montv_spec (a * u) (by omega) (by omega)
  refine ⟨e + montv (a * u), ?_, by omega, by omega⟩
  unfold mat_vec_mul_acc
  simp only [arith_i64 _ _ _ (show (-9223372036854775808:Int) ≤ a * u by omega) (show a * u ≤ 9223372036854775807 by omega), ok_bind,
    mont_reduce_eq m _ (show (-17996808479301632:Int) ≤ a * u by omega) (show a * u ≤ 17996808470921215 by omega),
    arith_i32 _ _ _ (show (-2147483648:Int) ≤ e + montv (a * u) by omega) (show e + montv (a * u) ≤ 2147483647 by omega), pure_eq]

/-- accumulating one matrix row: the bound grows by less than q per term -/
theorem rowAcc_ok (m : Mode) : ∀ (l : List (Poly × Poly)) (acc : List Int) (C : Int), Bnd C acc → 0 ≤ C →
    C + l.length * 8380416 ≤ 2147483647 → (∀ au ∈ l, Res au.1 ∧ Bnd 16760833 au.2) →
    ∃ r, l.foldlM (fun acc au => zipWith3M (mat_vec_mul_acc m) acc au.1 au.2) acc = .ok r ∧ Bnd (C + l.length * 8380416) r := by
  intro l
  induction l with
  | nil => intro acc C hacc _ _ _; exact ⟨acc, by simp [pure, Except.pure], by simpa using hacc⟩
  | cons au l ih =>
    intro acc C hacc hC hfit hl
    have hlen : ((au :: l).length : Int) = (l.length : Int) + 1 := by simp
    rw [hlen] at hfit ⊢
    obtain ⟨h1, h2⟩ := hl au (List.mem_cons_self ..)
    have hlnn : (0:Int) ≤ (l.length : Int) := Int.natCast_nonneg _
    obtain ⟨acc', hacc', bacc'⟩ := zipWith3M_ok (mat_vec_mul_acc m) (fun e => -C ≤ e ∧ e ≤ C) (fun a => 0 ≤ a ∧ a ≤ 8380416)
      (fun u => -16760833 ≤ u ∧ u ≤ 16760833) (fun r => -(C + 8380416) ≤ r ∧ r ≤ C + 8380416)
      (fun e a u he ha hu => acc_ok m C e a u he ha hu hC (by omega)) acc au.1 au.2 hacc h1 h2
    obtain ⟨r, hr, br⟩ := ih acc' (C + 8380416) bacc' (by omega) (by omega) (fun x hx => hl x (List.mem_cons_of_mem _ hx))
    refine ⟨r, ?_, ?_⟩
    · rw [List.foldlM_cons, hacc']; exact hr
    · intro x hx; have := br x hx; omega

/-- `mat_vec_mul` on canonical matrix entries and any vector inside `to_mont`'s envelope: no fault, and every
    output coefficient is bounded by (row length) x q -/
theorem matVecMul_ok (m : Mode) (a : List (List Poly)) (u : List Poly) (n : Nat)
    (ha : ∀ row ∈ a, row.length ≤ n ∧ ∀ p ∈ row, Res p) (hu : ∀ w ∈ u, Bnd 67000000 w) (hn : n ≤ 200) :
    ∃ r, matVecMul m a u = .ok r ∧ ∀ w ∈ r, Bnd (n * 8380416) w := by
  obtain ⟨um, hum, bum⟩ := toMont_ok m u hu
  unfold matVecMul
  simp only [hum, ok_bind]
  refine mapM_ok _ (fun row => row.length ≤ n ∧ ∀ p ∈ row, Res p) (fun w => Bnd (n * 8380416) w) ?_ a ha
  intro row ⟨hlen, hres⟩
  have hz : Bnd 0 zeroPoly := by
    intro x hx; unfold zeroPoly at hx; have := List.eq_of_mem_replicate hx; omega
  have hzl : (row.zip um).length ≤ n := by
    have := List.length_zip (l₁ := row) (l₂ := um); omega
  have hzl' : ((row.zip um).length : Int) ≤ (n : Int) := Int.ofNat_le.mpr hzl
  have hn' : (n : Int) ≤ 200 := Int.ofNat_le.mpr hn
  have hnn : (0:Int) ≤ ((row.zip um).length : Int) := Int.natCast_nonneg _
  obtain ⟨r, hr, br⟩ := rowAcc_ok m (row.zip um) zeroPoly 0 hz (by omega) (by omega)
    (fun au hau => ⟨hres au.1 (List.of_mem_zip hau).1, bum au.2 (List.of_mem_zip hau).2⟩)
  exact ⟨r, hr, fun x hx => by have := br x hx; omega⟩

end Fips204.Impl
