import Fips204.Lemmas.VerifyCore
/-! `verify_internal` equals Algorithm 8 written with exact arithmetic modulo q (`verifySpec`), on every input. -/
namespace Fips204.Impl
open Fips204 Fips204.Gen Fips204.K

/-- `‖z‖∞` with centred representatives, as a pure function (0 on the empty vector) -/
def normInfS (z : List Poly) : Int :=
  match z.flatten.map (fun e => absI (modpm Q e)) with
  | [] => 0
  | v :: vs => vs.foldl (fun a b => if a < b then b else a) v

theorem infinityNorm_pure (m : Mode) (w : List Poly) (hne : w.flatten.length ≠ 0) (hw : ∀ q ∈ w, Dom q) :
    infinityNorm m w = .ok (normInfS w) := by
  unfold infinityNorm normInfS
  have hmap := mapM_pure (fun e => do
      let c ← center_mod m e
      arith .i32 m "helpers.rs:infinity_norm:abs" (absI c)) (fun e => absI (modpm Q e)) w.flatten
    (fun e he => by
      obtain ⟨q, hq, heq⟩ := List.mem_flatten.mp he
      have hd := hw q hq e heq
      have hr := modpm_range e
      rw [center_mod_eq m e hd.1 hd.2, ok_bind]
      exact arith_i32 _ _ _ (by rw [absI_eq]; split <;> omega) (by rw [absI_eq]; split <;> omega))
  rw [hmap, ok_bind]
  cases hfl : w.flatten with
  | nil => rw [hfl] at hne; simp at hne
  | cons e es => simp only [List.map_cons, pure_eq]

/-- Algorithm 8 (ML-DSA.Verify_internal) with exact arithmetic: the decoder, the samplers and the encoder are the
    model's own (they are literal transcriptions); the arithmetic core is `wApproxS`, `Spec.useHint`, `normInfS` -/
def verifySpec (m : Mode) (O : Oracles) (ctest : Bool) (p : ParamSet) (rho tr : List Nat) (t1 : List Poly)
    (msg sig ctx oid phm : List Nat) (nist : Bool) : M Bool := do
  match ← sigDecode m p sig with
  | none => pure false
  | some (cTilde, z, h) =>
  let mu := muOf O domPure_verify domHash_verify tr msg ctx oid phm nist
  let c ← sampleInBall m O false p.tau cTilde
  let aHat ← expandA m O ctest p rho
  let w1 := List.zipWith (fun hp wp => List.zipWith (fun hh r => Spec.useHint p.gamma2 hh r) hp wp) h (wApproxS aHat z c t1)
  let w1t ← w1Encode m p w1 p.w1Len
  let cTildeP := O.h (mu ++ w1t) p.lambdaDiv4
  pure (decide (normInfS z < p.gamma1 - p.beta) && decide (cTilde = cTildeP))

theorem bind_congr_on {α β} {x : M α} {f g : α → M β} {P : α → Prop} (hx : NoPanic x P) (h : ∀ v, P v → f v = g v) :
    (x >>= f) = (x >>= g) := by
  rcases hx with ⟨v, rfl, hv⟩ | ⟨s, rfl⟩
  · rw [ok_bind, ok_bind]; exact h v hv
  · rw [error_bind, error_bind]

/-- **`verify_internal` is Algorithm 8**: on the struct `expand_public` builds from `(rho, t1)`, for every message,
    context, pre-hash and every byte string of signature length, in both build modes -/
theorem verifyInternal_eq_spec (m : Mode) (O : Oracles) (hO : OracleOk O) (ctest : Bool) (p : ParamSet) (blz : Nat) (cfg : VerCfg p blz)
    (rho tr : List Nat) (t1 t1d2 : List Poly) (hrho : rho.length = 32) (ht1 : VecIn p.k 0 1023 t1) (hpre : precomputeT1 m t1 = .ok t1d2)
    (msg sig ctx oid phm : List Nat) (nist : Bool) (hb : ∀ x ∈ sig, x < 256) (hlen : sig.length = p.sigLen) :
    verifyInternal m O ctest p { rho := rho, tr := tr, t1d2 := t1d2 } msg sig ctx oid phm nist =
      verifySpec m O ctest p rho tr t1 msg sig ctx oid phm nist := by
  unfold verifyInternal verifySpec
  obtain ⟨r, hr, hrp⟩ := sigDecode_ok m p blz cfg.sig sig hb hlen
  rw [hr, ok_bind, ok_bind]
  cases r with
  | none => rfl
  | some t =>
    obtain ⟨ct, z, h⟩ := t
    obtain ⟨c1, c2, c3, c4, c5⟩ := hrp ct z h rfl
    dsimp only
    have hg1 : 1 ≤ p.gamma1 ∧ p.gamma1 ≤ 524288 := by rcases cfg.sig.g1 with ⟨h, _⟩ | ⟨h, _⟩ <;> omega
    have hzB : ∀ q ∈ z, Bnd 524288 q := fun q hq x hx => by have := (c3 q hq).2 x hx; omega
    have hne : z.flatten.length ≠ 0 := by
      rw [flatten_len 256 z (fun q hq => (c3 q hq).1), c2]
      have := cfg.sig.l1
      have : 0 < p.l * 256 := Nat.mul_pos (by omega) (by omega)
      omega
    have hzD : ∀ q ∈ z, Dom q := fun q hq x hx => by have := hzB q hq x hx; omega
    have hn := infinityNorm_pure m z hne hzD
    obtain ⟨n', hn', hn0, hn1⟩ := infinityNorm_ok m z p.gamma1 (by omega) hne (fun q hq x hx => by have := (c3 q hq).2 x hx; omega)
    rw [hn] at hn'
    have en := ok_inj hn'
    have d1 : dassertM m "ml_dsa.rs:verify_internal:debug_assert(Alg 8: i_norm out of range)" (do
        let n ← infinityNorm m z
        pure (decide (n ≤ p.gamma1))) = .ok () := by
      apply dassertM_ok; rw [hn, ok_bind, pure_eq, en]; simp [hn1]
    rw [d1, ok_bind]
    refine bind_congr_on (sampleInBall_np m O hO false p.tau ct cfg.tau) (fun c hc => ?_)
    refine bind_congr_on (expandA_np m O hO ctest p rho hrho) (fun aHat hA => ?_)
    obtain ⟨t1d2', hp', hw⟩ := wApproxOf_spec m aHat z c t1
      (fun row hrow => ⟨by rw [c2, (hA.2 row hrow).1], by rw [(hA.2 row hrow).1]; exact cfg.l7, fun q hq => ((hA.2 row hrow).2 q hq).2⟩)
      hzB (hc.2.mono (by omega)) ht1.2 (by rw [hA.1, ht1.1.1])
    rw [hpre] at hp'
    have := ok_inj hp'
    subst this
    rw [hw, ok_bind]
    have hgg : G2 p.gamma2 := by
      rcases cfg.g2 with ⟨h, _⟩ | ⟨h, _⟩
      · exact Or.inl h
      · exact Or.inr h
    have huse : zipWithM (fun hp wp => zipWithM (fun hh r => use_hint m p.gamma2 hh r) hp wp) h (wApproxS aHat z c t1) =
        .ok (List.zipWith (fun hp wp => List.zipWith (fun hh r => Spec.useHint p.gamma2 hh r) hp wp) h (wApproxS aHat z c t1)) :=
      zipWithM_pure _ _ Bin (fun wp => ∀ x ∈ wp, 0 ≤ x ∧ x < 8380417)
        (fun hp wp hhp hwp => zipWithM_pure _ _ (fun hh => hh = 0 ∨ hh = 1) (fun r => 0 ≤ r ∧ r < 8380417)
          (fun hh r h1 h2 => use_hint_eq m p.gamma2 hh r hgg h1 (by omega) (by omega)) hp wp hhp.2 hwp)
        h _ c5 (fun wp hwp => by
          unfold wApproxS at hwp
          obtain ⟨i, hi, rfl⟩ := List.mem_iff_getElem.mp hwp
          rw [List.getElem_zipWith]
          exact canon_can _)
    rw [huse, ok_bind, hn]
    have hbeta := cfg.beta
    congr 1
    funext w1t
    rw [ok_bind, arith_i32 _ _ _ (by omega) (by omega), ok_bind]

end Fips204.Impl
