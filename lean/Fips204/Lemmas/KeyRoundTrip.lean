import Fips204.Lemmas.NttRound
/-! `sk_encode ∘ sk_decode = id`, and through the NTT-domain representation: `into_bytes ∘ try_from_bytes = id` for
    private keys. -/
namespace Fips204.Impl
open Fips204 Fips204.Gen Fips204.K

theorem take_drop_split {α} (l : List α) (a n : Nat) : (l.drop a).take n ++ l.drop (a + n) = l.drop a := by
  rw [← List.drop_drop, List.take_append_drop]

theorem mapM_isInRange_true (m : Mode) (v : List Poly) (lo hi : Int) (hlo : -2147483647 ≤ lo ∧ lo ≤ 2147483648)
    (h : ∀ q ∈ v, ∀ c ∈ q, -lo ≤ c ∧ c ≤ hi) :
    (do let bs ← v.mapM (fun x => isInRange m x lo hi); pure (bs.all id) : M Bool) = .ok true := by
  obtain ⟨bs, hbs, _, hbt⟩ := mapM_ok_len (fun x => isInRange m x lo hi) (fun r => r ∈ v) (fun b => b = true)
    (fun r hr' => ⟨true, isInRange_true m r lo hi hlo (h r hr'), rfl⟩) v (fun a ha => ha)
  have hall : bs.all id = true := by rw [List.all_eq_true]; intro b hb'; exact hbt b hb'
  rw [hbs, ok_bind, pure_eq, hall]

/-- **`sk_encode ∘ sk_decode = id`** on every accepted private-key byte string -/
theorem skEncode_skDecode (m : Mode) (p : ParamSet) (skb : List Nat) (hb : ∀ x ∈ skb, x < 256)
    (he : p.eta = 2 ∨ p.eta = 4) (bl : Nat) (hbl : bitLen m (2 * p.eta) = .ok bl)
    (hlen : skb.length = 128 + 32 * ((p.k + p.l) * bl + D.toNat * p.k)) (hcfg : p.skLen = skb.length)
    (s : SkParts) (hdec : skDecode m p skb = .ok (some s)) : skEncode m p s = .ok skb := by
  obtain ⟨bl', h1, h2, h3, h4⟩ := bitLen_eta m p.eta he
  rw [hbl] at h1
  simp only [Except.ok.injEq] at h1
  subst h1
  have hD : D.toNat = 13 := by decide
  have eta0 : 0 ≤ p.eta ∧ p.eta < 1048576 := by rcases he with h | h <;> omega
  have eta1 : 1 ≤ p.eta ∧ p.eta < 1048576 := by rcases he with h | h <;> omega
  have hab : p.eta + p.eta < 2 ^ bl := by
    rcases he with h | h
    · have b3 : bitLen m ((2:Int) + 2) = .ok 3 := of_toOption _ _ (by cases m <;> decide +kernel)
      rw [h, b3] at h2
      rw [h, ← ok_inj h2]; decide
    · have b4 : bitLen m ((4:Int) + 4) = .ok 4 := of_toOption _ _ (by cases m <;> decide +kernel)
      rw [h, b4] at h2
      rw [h, ← ok_inj h2]; decide
  obtain ⟨rg1, rg2, rg0⟩ := Props.C10.skDecode_accepts_only_in_range m p skb s ⟨eta0.1, by omega⟩ hdec
  obtain ⟨_, sh1, sh2, sh0⟩ := skDecode_sh m p skb s hdec
  have hexp : (p.k + p.l) * bl = p.l * bl + p.k * bl := by rw [Nat.add_mul]; omega
  have e1 : p.l * (32 * bl) = 32 * (p.l * bl) := by rw [Nat.mul_left_comm]
  have e2 : p.k * (32 * bl) = 32 * (p.k * bl) := by rw [Nat.mul_left_comm]
  rw [hD] at hlen
  -- invert the decoder
  unfold skDecode at hdec
  simp only [] at hdec
  obtain ⟨_, _, hdec⟩ := bind_ok_inv hdec
  rw [hbl, ok_bind] at hdec
  obtain ⟨_, _, hdec⟩ := bind_ok_inv hdec
  rw [slice_ok _ skb 0 32 (by omega), ok_bind, slice_ok _ skb 32 64 (by omega), ok_bind, slice_ok _ skb 64 128 (by omega), ok_bind] at hdec
  obtain ⟨r1, hr1, hdec⟩ := bind_ok_inv hdec
  cases r1 with
  | none => rw [pure_eq] at hdec; have := ok_inj hdec; simp at this
  | some s1 =>
    simp only [] at hdec
    obtain ⟨r2, hr2, hdec⟩ := bind_ok_inv hdec
    cases r2 with
    | none => rw [pure_eq] at hdec; have := ok_inj hdec; simp at this
    | some s2 =>
      simp only [] at hdec
      obtain ⟨r3, hr3, hdec⟩ := bind_ok_inv hdec
      cases r3 with
      | none => rw [pure_eq] at hdec; have := ok_inj hdec; simp at this
      | some t0 =>
        simp only [] at hdec
        obtain ⟨_, _, hdec⟩ := bind_ok_inv hdec
        rw [pure_eq] at hdec
        have hs := ok_inj hdec
        simp only [Option.some.injEq] at hs
        subst hs
        simp only [] at rg1 rg2 rg0 sh1 sh2 sh0
        rw [hD] at hr3
        obtain ⟨z1, f1, g1, k1⟩ := unpackMany_repack m _ skb hb 128 p.eta p.eta bl eta0 eta1 h2 ⟨h3, h4⟩ hab (List.range p.l) [] s1
          (fun i hi => by
            have : i < p.l := List.mem_range.mp hi
            have : (i + 1) * (32 * bl) ≤ p.l * (32 * bl) := Nat.mul_le_mul_right _ (by omega)
            rw [hlen, hexp]; omega) hr1
        obtain ⟨z2, f2, g2, k2⟩ := unpackMany_repack m _ skb hb (128 + p.l * (32 * bl)) p.eta p.eta bl eta0 eta1 h2 ⟨h3, h4⟩ hab (List.range p.k) [] s2
          (fun i hi => by
            have : i < p.k := List.mem_range.mp hi
            have : (i + 1) * (32 * bl) ≤ p.k * (32 * bl) := Nat.mul_le_mul_right _ (by omega)
            rw [hlen, hexp]; omega) hr2
        obtain ⟨z0, f0, g0, k0⟩ := unpackMany_repack m _ skb hb (128 + p.l * (32 * bl) + p.k * (32 * bl)) (top - 1) top 13
          (by decide) (by decide) (bitLen_t0 m) (by omega) (by decide) (List.range p.k) [] t0
          (fun i hi => by
            have : i < p.k := List.mem_range.mp hi
            have : (i + 1) * (32 * 13) ≤ p.k * (32 * 13) := Nat.mul_le_mul_right _ (by omega)
            rw [hlen, hexp]; omega) hr3
        simp only [List.reverse_nil, List.nil_append] at f1 f2 f0
        subst f1 f2 f0
        -- run the encoder
        unfold skEncode
        simp only []
        have d1 : dassert m "encodings.rs:sk_encode:debug_assert(Alg 24: incorrect eta)" (decide (p.eta = 2) || decide (p.eta = 4)) = .ok () := by
          apply dassert_dec; rcases he with h | h <;> simp [h]
        have ht : top = 4096 := by decide
        rw [d1, ok_bind, dassertM_ok m _ _ (mapM_isInRange_true m s1 p.eta p.eta (by omega) rg1), ok_bind,
          dassertM_ok m _ _ (mapM_isInRange_true m s2 p.eta p.eta (by omega) rg2), ok_bind,
          dassertM_ok m _ _ (mapM_isInRange_true m t0 (top - 1) top (by rw [ht]; omega) rg0), ok_bind, hbl, ok_bind,
          dassert_dec m _ _ (by rw [hD]; simp [hcfg, hlen]), ok_bind]
        have l32 : ((skb.drop 0).take (32 - 0)).length = 32 := by rw [List.length_take, List.length_drop]; omega
        have l64 : ((skb.drop 32).take (64 - 32)).length = 32 := by rw [List.length_take, List.length_drop]; omega
        have l128 : ((skb.drop 64).take (128 - 64)).length = 64 := by rw [List.length_take, List.length_drop]; omega
        rw [if_neg (by rw [l32, l64, l128]; simp)]
        rw [List.take_of_length_le (by rw [sh1.1]; exact Nat.le_refl _), List.take_of_length_le (by rw [sh2.1]; exact Nat.le_refl _),
          List.take_of_length_le (by rw [sh0.1]; exact Nat.le_refl _), k1, ok_bind, k2, ok_bind, hD, k0, ok_bind]
        rw [flatten_slices skb 128 (32 * bl) p.l (by rw [hlen, hexp]; omega),
          flatten_slices skb (128 + p.l * (32 * bl)) (32 * bl) p.k (by rw [hlen, hexp]; omega),
          flatten_slices skb (128 + p.l * (32 * bl) + p.k * (32 * bl)) (32 * 13) p.k (by rw [hlen, hexp]; omega)]
        -- reassemble
        have hall : (skb.drop 0).take (32 - 0) ++ (skb.drop 32).take (64 - 32) ++ (skb.drop 64).take (128 - 64) ++
            (skb.drop 128).take (p.l * (32 * bl)) ++ (skb.drop (128 + p.l * (32 * bl))).take (p.k * (32 * bl)) ++
            (skb.drop (128 + p.l * (32 * bl) + p.k * (32 * bl))).take (p.k * (32 * 13)) = skb := by
          have t6 : (skb.drop (128 + p.l * (32 * bl) + p.k * (32 * bl))).take (p.k * (32 * 13)) = skb.drop (128 + p.l * (32 * bl) + p.k * (32 * bl)) :=
            List.take_of_length_le (by rw [List.length_drop, hlen, hexp]; omega)
          rw [t6]
          simp only [List.append_assoc]
          rw [take_drop_split skb (128 + p.l * (32 * bl)) (p.k * (32 * bl)), take_drop_split skb 128 (p.l * (32 * bl))]
          have : (skb.drop 64).take (128 - 64) ++ skb.drop 128 = skb.drop 64 := take_drop_split skb 64 64
          rw [this]
          have : (skb.drop 32).take (64 - 32) ++ skb.drop 64 = skb.drop 32 := take_drop_split skb 32 32
          rw [this]
          have : (skb.drop 0).take (32 - 0) ++ skb.drop 32 = skb.drop 0 := take_drop_split skb 0 32
          rw [this, List.drop_zero]
        rw [hall, if_neg (by rw [hcfg]; exact fun h => h rfl), pure_eq]

/-- **`into_bytes ∘ try_from_bytes = id` for private keys**: every accepted private-key byte string is reproduced, byte
    for byte, by serialising the struct `expand_private` built from it (through the NTT-domain representation) -/
theorem skIntoBytes_expandPrivate (m : Mode) (p : ParamSet) (skb : List Nat) (hb : ∀ x ∈ skb, x < 256)
    (he : p.eta = 2 ∨ p.eta = 4) (bl : Nat) (hbl : bitLen m (2 * p.eta) = .ok bl)
    (hlen : skb.length = 128 + 32 * ((p.k + p.l) * bl + D.toNat * p.k)) (hcfg : p.skLen = skb.length)
    (sk : PrivateKey) (h : expandPrivate m p skb = .ok (some sk)) : skIntoBytes m p sk = .ok skb := by
  unfold expandPrivate at h
  obtain ⟨r, hr, h⟩ := bind_ok_inv h
  cases r with
  | none => rw [pure_eq] at h; have := ok_inj h; simp at this
  | some s =>
    simp only [] at h
    have eta0 : 0 ≤ p.eta ∧ p.eta ≤ 4 := by rcases he with h | h <;> omega
    obtain ⟨_, sh1, sh2, sh0⟩ := skDecode_sh m p skb s hr
    obtain ⟨r1, r2, r0⟩ := Props.C10.skDecode_accepts_only_in_range m p skb s ⟨eta0.1, by omega⟩ hr
    have ht : top = 4096 := by decide
    obtain ⟨a1, ha1, u1⟩ := unMont_nttMont m s.s1 (fun q hq => ⟨sh1.2 q hq, fun x hx => by have := r1 q hq x hx; omega⟩)
    obtain ⟨a2, ha2, u2⟩ := unMont_nttMont m s.s2 (fun q hq => ⟨sh2.2 q hq, fun x hx => by have := r2 q hq x hx; omega⟩)
    obtain ⟨a0, ha0, u0⟩ := unMont_nttMont m s.t0 (fun q hq => ⟨sh0.2 q hq, fun x hx => by have := r0 q hq x hx; rw [ht] at this; omega⟩)
    rw [ha1, ok_bind, ha2, ok_bind, ha0, ok_bind, pure_eq] at h
    have hsk := ok_inj h
    simp only [Option.some.injEq] at hsk
    subst hsk
    unfold skIntoBytes
    simp only []
    rw [u1, ok_bind, u2, ok_bind, u0, ok_bind]
    exact skEncode_skDecode m p skb hb he bl hbl hlen hcfg s hr

/-! ### public keys -/

/-- a `mapM` whose `i`-th step is known: the result is the list of the known outputs -/
theorem mapM_stage {α β} (f : α → M β) (g : Nat → β) : ∀ (l : List α) (s : Nat), (∀ i (hi : i < l.length), f l[i] = .ok (g (s + i))) →
    l.mapM f = .ok ((List.range' s l.length).map g) := by
  intro l
  induction l with
  | nil => intro s _; simp [pure_eq]
  | cons a as ih =>
    intro s h
    have h0 := h 0 (by simp)
    simp only [List.getElem_cons_zero, Nat.add_zero] at h0
    have := ih (s + 1) (fun i hi => by
      have := h (i + 1) (by simp; omega)
      simp only [List.getElem_cons_succ] at this
      rw [show s + 1 + i = s + (i + 1) by omega]; exact this)
    rw [List.mapM_cons, h0, ok_bind, this, ok_bind, pure_eq, List.length_cons, List.range'_succ, List.map_cons]

theorem stage_get {β} (g : Nat → β) (n i : Nat) (h : i < ((List.range' 0 n).map g).length) : ((List.range' 0 n).map g)[i] = g i := by
  rw [List.getElem_map, List.getElem_range']; simp

/-- the verifier precompute of `t1`, then `pk.into_bytes`' arithmetic, gives `t1` back -/
theorem precompute_round (m : Mode) (t1 : List Poly) (ht : ∀ q ∈ t1, q.length = 256 ∧ ∀ x ∈ q, 0 ≤ x ∧ x ≤ 1023) :
    ∃ r a b, precomputeT1 m t1 = .ok r ∧ r.mapM (fun q : Poly => q.mapM (mont_reduce m)) = .ok a ∧ invNtt m a = .ok b ∧
      b.map (fun q => q.map (fun x => x / 2 ^ D.toNat)) = t1 := by
  have hex : ∀ i : Nat, ∃ tup : Poly × Poly × Poly × Poly × Poly × Poly, ∀ (hi : i < t1.length),
      nttPoly m t1[i] = .ok tup.1 ∧ tup.1.mapM (to_mont_coeff m) = .ok tup.2.1 ∧
      tup.2.1.mapM (fun x => mont_reduce m (IT.i64.wrap (x * 2 ^ D.toNat))) = .ok tup.2.2.1 ∧ tup.2.2.1.mapM (to_mont_coeff m) = .ok tup.2.2.2.1 ∧
      tup.2.2.2.1.mapM (mont_reduce m) = .ok tup.2.2.2.2.1 ∧ invNttPoly m tup.2.2.2.2.1 = .ok tup.2.2.2.2.2 ∧
      tup.2.2.2.2.2.map (fun x => x / 2 ^ D.toNat) = t1[i] := by
    intro i
    by_cases hi : i < t1.length
    · obtain ⟨a1, a2, a3, a4, a5, a6, h⟩ := pk_poly_round m t1[i] (ht _ (List.getElem_mem _)).1 (ht _ (List.getElem_mem _)).2
      exact ⟨(a1, a2, a3, a4, a5, a6), fun _ => h⟩
    · exact ⟨([], [], [], [], [], []), fun h => absurd h hi⟩
  obtain ⟨G, hG⟩ := Classical.axiomOfChoice hex
  let n := t1.length
  have s1 : t1.mapM (nttPoly m) = .ok ((List.range' 0 n).map (fun i => (G i).1)) :=
    mapM_stage _ _ t1 0 (fun i hi => by rw [Nat.zero_add]; exact (hG i hi).1)
  have s2 : ((List.range' 0 n).map (fun i => (G i).1)).mapM (fun q : Poly => q.mapM (to_mont_coeff m)) = .ok ((List.range' 0 n).map (fun i => (G i).2.1)) := by
    have := mapM_stage (fun q : Poly => q.mapM (to_mont_coeff m)) (fun i => (G i).2.1) ((List.range' 0 n).map (fun i => (G i).1)) 0
      (fun i hi => by
        rw [Nat.zero_add, stage_get]
        have hi' : i < t1.length := by simpa using hi
        exact (hG i hi').2.1)
    simpa using this
  have s3 : ((List.range' 0 n).map (fun i => (G i).2.1)).mapM (fun q : Poly => q.mapM (fun x => mont_reduce m (IT.i64.wrap (x * 2 ^ D.toNat)))) =
      .ok ((List.range' 0 n).map (fun i => (G i).2.2.1)) := by
    have := mapM_stage (fun q : Poly => q.mapM (fun x => mont_reduce m (IT.i64.wrap (x * 2 ^ D.toNat)))) (fun i => (G i).2.2.1) ((List.range' 0 n).map (fun i => (G i).2.1)) 0
      (fun i hi => by
        rw [Nat.zero_add, stage_get]
        have hi' : i < t1.length := by simpa using hi
        exact (hG i hi').2.2.1)
    simpa using this
  have s4 : ((List.range' 0 n).map (fun i => (G i).2.2.1)).mapM (fun q : Poly => q.mapM (to_mont_coeff m)) = .ok ((List.range' 0 n).map (fun i => (G i).2.2.2.1)) := by
    have := mapM_stage (fun q : Poly => q.mapM (to_mont_coeff m)) (fun i => (G i).2.2.2.1) ((List.range' 0 n).map (fun i => (G i).2.2.1)) 0
      (fun i hi => by
        rw [Nat.zero_add, stage_get]
        have hi' : i < t1.length := by simpa using hi
        exact (hG i hi').2.2.2.1)
    simpa using this
  have s5 : ((List.range' 0 n).map (fun i => (G i).2.2.2.1)).mapM (fun q : Poly => q.mapM (mont_reduce m)) = .ok ((List.range' 0 n).map (fun i => (G i).2.2.2.2.1)) := by
    have := mapM_stage (fun q : Poly => q.mapM (mont_reduce m)) (fun i => (G i).2.2.2.2.1) ((List.range' 0 n).map (fun i => (G i).2.2.2.1)) 0
      (fun i hi => by
        rw [Nat.zero_add, stage_get]
        have hi' : i < t1.length := by simpa using hi
        exact (hG i hi').2.2.2.2.1)
    simpa using this
  have s6 : ((List.range' 0 n).map (fun i => (G i).2.2.2.2.1)).mapM (invNttPoly m) = .ok ((List.range' 0 n).map (fun i => (G i).2.2.2.2.2)) := by
    have := mapM_stage (invNttPoly m) (fun i => (G i).2.2.2.2.2) ((List.range' 0 n).map (fun i => (G i).2.2.2.2.1)) 0
      (fun i hi => by
        rw [Nat.zero_add, stage_get]
        have hi' : i < t1.length := by simpa using hi
        exact (hG i hi').2.2.2.2.2.1)
    simpa using this
  refine ⟨_, _, _, ?_, s5, s6, ?_⟩
  · unfold precomputeT1 nttMont ntt toMont
    rw [s1, ok_bind, s2, ok_bind, s3, ok_bind]
    exact s4
  · apply List.ext_getElem (by simp [n])
    intro i h1 h2
    rw [List.getElem_map, stage_get]
    exact (hG i h2).2.2.2.2.2.2

theorem simpleBitPack_simpleBitUnpack (m : Mode) (v : List Nat) (hv : ∀ x ∈ v, x < 256) (hlen : v.length = 320) (w : Poly)
    (h : simpleBitUnpack m v 1023 = .ok (some w)) : simpleBitPack m w 1023 320 = .ok v := by
  have hb10 : bitLen m 1023 = .ok 10 := by have := bitLen_1023 m; simpa using this
  have hb10' : bitLen m (0 + 1023) = .ok 10 := bitLen_1023 m
  unfold simpleBitUnpack at h
  obtain ⟨_, _, h⟩ := bind_ok_inv h
  obtain ⟨_, _, h⟩ := bind_ok_inv h
  have hr := Props.C10.bitUnpack_accepts_only_in_range m v 0 1023 w (by omega) (by omega) h
  have hp := bitPack_bitUnpack m v 0 1023 10 (by omega) (by omega) hb10' (by omega) (by decide) hv hlen w h
  unfold simpleBitPack
  rw [dassert_dec m _ _ (by decide), ok_bind, dassertM_ok m _ _ (isInRange_true m w 0 1023 (by omega) hr), ok_bind]
  simp only [hb10, ok_bind, pure_eq]
  rw [dassertM_ok m _ _ (by rfl), ok_bind]
  exact hp

theorem pkDecode_go_repack (m : Mode) (pk : List Nat) (hb : ∀ x ∈ pk, x < 256) :
    ∀ (is : List Nat) (acc t1 : List Poly), (∀ i ∈ is, 32 + (i + 1) * 320 ≤ pk.length) →
      pkDecode.go m pk is acc = .ok (some t1) →
      ∃ tn, t1 = acc.reverse ++ tn ∧ tn.length = is.length ∧
        tn.mapM (fun t => simpleBitPack m t 1023 320) = .ok (is.map (fun i => (pk.drop (32 + i * 320)).take 320)) := by
  have hq : blqd = 10 := by decide
  intro is
  induction is with
  | nil =>
    intro acc t1 _ h
    simp only [pkDecode.go, pure_eq] at h
    have := ok_inj h
    simp only [Option.some.injEq] at this
    exact ⟨[], by simp [this], rfl, by simp [pure_eq]⟩
  | cons i is ih =>
    intro acc t1 hlen h
    have hi := hlen i (List.mem_cons_self ..)
    unfold pkDecode.go at h
    rw [hq] at h
    have hs := slice_ok "encodings.rs:pk_decode:pk[..]" pk (32 + 32 * i * 10) (32 + 32 * (i + 1) * 10) (by constructor <;> omega)
    have e1 : 32 + 32 * (i + 1) * 10 - (32 + 32 * i * 10) = 320 := by omega
    have e2 : 32 + 32 * i * 10 = 32 + i * 320 := by omega
    have hs' : slice "encodings.rs:pk_decode:pk[..]" pk (32 + 32 * i * 10) (32 + 32 * (i + 1) * 10) = .ok ((pk.drop (32 + i * 320)).take 320) := by
      rw [hs, e1, e2]
    rw [hs', ok_bind, show ((2:Int) ^ 10 - 1) = 1023 by decide] at h
    obtain ⟨r, hr, h⟩ := bind_ok_inv h
    cases r with
    | none => rw [pure_eq] at h; have := ok_inj h; simp at this
    | some t =>
      replace h : pkDecode.go m pk is (t :: acc) = .ok (some t1) := h
      obtain ⟨tn, f1, f2, f3⟩ := ih (t :: acc) t1 (fun j hj => hlen j (List.mem_cons_of_mem _ hj)) h
      have hsl : ((pk.drop (32 + i * 320)).take 320).length = 320 := by rw [List.length_take, List.length_drop]; omega
      have hp := simpleBitPack_simpleBitUnpack m _ (fun x hx => hb x (mem_slice _ _ _ _ hx)) hsl t hr
      refine ⟨t :: tn, by rw [f1]; simp, by simp [f2], ?_⟩
      rw [List.mapM_cons, hp, ok_bind, f3, ok_bind, pure_eq]
      rfl

/-- **`pk_encode ∘ pk_decode = id`** -/
theorem pkEncode_pkDecode (m : Mode) (p : ParamSet) (pkb : List Nat) (hb : ∀ x ∈ pkb, x < 256)
    (hlen : pkb.length = 32 + 32 * p.k * blqd) (hcfg : p.pkLen = 32 + 32 * p.k * blqd) (d : PkParts)
    (hdec : pkDecode m p pkb = .ok (some d)) : pkEncode m p d.rho d.t1 = .ok pkb := by
  have hq : blqd = 10 := by decide
  rw [hq] at hlen hcfg
  obtain ⟨d', hd', _, hk, ht⟩ := pkDecode_total m p pkb hb (by rw [hq]; exact hlen) (by rw [hq]; exact hcfg)
  rw [hdec] at hd'
  have hdd := ok_inj hd'
  simp only [Option.some.injEq] at hdd
  subst hdd
  unfold pkDecode at hdec
  obtain ⟨_, _, hdec⟩ := bind_ok_inv hdec
  obtain ⟨_, _, hdec⟩ := bind_ok_inv hdec
  rw [slice_ok _ pkb 0 32 (by omega), ok_bind] at hdec
  obtain ⟨r, hr, hdec⟩ := bind_ok_inv hdec
  cases r with
  | none => rw [pure_eq] at hdec; have := ok_inj hdec; simp at this
  | some t1 =>
    simp only [] at hdec
    obtain ⟨_, _, hdec⟩ := bind_ok_inv hdec
    rw [pure_eq] at hdec
    have hs := ok_inj hdec
    simp only [Option.some.injEq] at hs
    subst hs
    simp only [] at hk ht ⊢
    obtain ⟨tn, f1, f2, f3⟩ := pkDecode_go_repack m pkb hb (List.range p.k) [] t1
      (fun i hi => by
        have := List.mem_range.mp hi
        have : (i + 1) * 320 ≤ p.k * 320 := Nat.mul_le_mul_right _ (by omega)
        omega) hr
    simp only [List.reverse_nil, List.nil_append] at f1
    subst f1
    unfold pkEncode
    have e1023 : (2:Int) ^ blqd - 1 = 1023 := by rw [hq]; decide
    rw [e1023, hq, dassertM_ok m _ _ (mapM_isInRange_true m t1 0 1023 (by omega) (fun q hq' c hc => by have := (ht q hq').2 c hc; omega)), ok_bind,
      dassert_dec m _ _ (by simp [hcfg]), ok_bind]
    have l32 : ((pkb.drop 0).take (32 - 0)).length = 32 := by rw [List.length_take, List.length_drop]; omega
    rw [if_neg (by rw [l32]; omega), List.take_of_length_le (by rw [hk]; exact Nat.le_refl _), f3, ok_bind]
    simp only []
    rw [flatten_slices pkb 32 320 p.k (by omega), pure_eq]
    congr 1
    have hbody : ((pkb.drop 32).take (p.k * 320)).length = p.k * 320 := by rw [List.length_take, List.length_drop]; omega
    rw [hbody, hcfg, show 32 + 32 * p.k * 10 - 32 - p.k * 320 = 0 by omega]
    simp only [List.replicate_zero, List.append_nil, List.drop_zero, Nat.sub_zero]
    have : (pkb.drop 32).take (p.k * 320) = pkb.drop 32 := List.take_of_length_le (by rw [List.length_drop]; omega)
    rw [this, List.take_append_drop, List.take_of_length_le (by omega)]

/-- **`into_bytes ∘ try_from_bytes = id` for public keys**: every byte string of public-key length is reproduced, byte
    for byte, by serialising the struct `expand_public` built from it -/
theorem pkIntoBytes_expandPublic (m : Mode) (O : Oracles) (p : ParamSet) (pkb : List Nat) (hb : ∀ x ∈ pkb, x < 256)
    (hlen : pkb.length = 32 + 32 * p.k * blqd) (hcfg : p.pkLen = 32 + 32 * p.k * blqd) :
    ∃ pk, expandPublic m O p pkb = .ok (some pk) ∧ pkIntoBytes m p pk = .ok pkb := by
  obtain ⟨d, hd, _, hk, ht⟩ := pkDecode_total m p pkb hb hlen hcfg
  obtain ⟨r, a, b, h1, h2, h3, h4⟩ := precompute_round m d.t1 ht
  refine ⟨⟨d.rho, O.h pkb 64, r⟩, by simp only [expandPublic, hd, ok_bind, h1, pure_eq], ?_⟩
  unfold pkIntoBytes
  simp only []
  rw [h2, ok_bind, h3, ok_bind, h4]
  exact pkEncode_pkDecode m p pkb hb hlen hcfg d hd

end Fips204.Impl
