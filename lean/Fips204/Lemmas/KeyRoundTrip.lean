import Fips204.Lemmas.NttRound
/-! `sk_encode ∘ sk_decode = id`, and through the NTT-domain representation: `into_bytes ∘ try_from_bytes = id` for
    private keys. -/
namespace Fips204.Impl
open Fips204 Fips204.Gen Fips204.K

theorem take_drop_split {α} (l : List α) (a n : Nat) : (l.drop a).take n ++ l.drop (a + n) = l.drop a := by
  rw [← List.drop_drop, List.take_append_drop]

theorem mapM_isInRange_true (m : Mode) (v : List Poly) (lo hi : Int) (hlo : -2147483647 ≤ lo ∧ lo ≤ 2147483648)
    (h : ∀ q ∈ v, ∀ c ∈ q, -lo ≤ c ∧ c ≤ hi) :
    (do let bs ← v.mapM (fun x => isInRange m x lo hi); pure (bs.all id) : M Bool) = .ok true := by
  obtain ⟨bs, hbs, _, hbt⟩ := mapM_ok_len (fun x => isInRange m x lo hi) (fun r => r ∈ v) (fun b => b = true)
    (fun r hr' => ⟨true, isInRange_true m r lo hi hlo (h r hr'), rfl⟩) v (fun a ha => ha)
  have hall : bs.all id = true := by rw [List.all_eq_true]; intro b hb'; exact hbt b hb'
  rw [hbs, ok_bind, pure_eq, hall]

/-- **`sk_encode ∘ sk_decode = id`** on every accepted private-key byte string -/
theorem skEncode_skDecode (m : Mode) (p : ParamSet) (skb : List Nat) (hb : ∀ x ∈ skb, x < 256)
    (he : p.eta = 2 ∨ p.eta = 4) (bl : Nat) (hbl : bitLen m (2 * p.eta) = .ok bl)
    (hlen : skb.length = 128 + 32 * ((p.k + p.l) * bl + D.toNat * p.k)) (hcfg : p.skLen = skb.length)
    (s : SkParts) (hdec : skDecode m p skb = .ok (some s)) : skEncode m p s = .ok skb := by
  obtain ⟨bl', h1, h2, h3, h4⟩ := bitLen_eta m p.eta he
  rw [hbl] at h1
  simp only [Except.ok.injEq] at h1
  subst h1
  have hD : D.toNat = 13 := by decide
  have eta0 : 0 ≤ p.eta ∧ p.eta < 1048576 := by rcases he with h | h <;> omega
  have eta1 : 1 ≤ p.eta ∧ p.eta < 1048576 := by rcases he with h | h <;> omega
  have hab : p.eta + p.eta < 2 ^ bl := by
    rcases he with h | h
    · have b3 : bitLen m ((2:Int) + 2) = .ok 3 := of_toOption _ _ (by cases m <;> decide +kernel)
      rw [h, b3] at h2
      rw [h, ← ok_inj h2]; decide
    · have b4 : bitLen m ((4:Int) + 4) = .ok 4 := of_toOption _ _ (by cases m <;> decide +kernel)
      rw [h, b4] at h2
      rw [h, ← ok_inj h2]; decide
  obtain ⟨rg1, rg2, rg0⟩ := Props.C10.skDecode_accepts_only_in_range m p skb s ⟨eta0.1, by omega⟩ hdec
  obtain ⟨_, sh1, sh2, sh0⟩ := skDecode_sh m p skb s hdec
  have hexp : (p.k + p.l) * bl = p.l * bl + p.k * bl := by rw [Nat.add_mul]; omega
  have e1 : p.l * (32 * bl) = 32 * (p.l * bl) := by rw [Nat.mul_left_comm]
  have e2 : p.k * (32 * bl) = 32 * (p.k * bl) := by rw [Nat.mul_left_comm]
  rw [hD] at hlen
  -- invert the decoder
  unfold skDecode at hdec
  simp only [] at hdec
  obtain ⟨_, _, hdec⟩ := bind_ok_inv hdec
  rw [hbl, ok_bind] at hdec
  obtain ⟨_, _, hdec⟩ := bind_ok_inv hdec
  rw [slice_ok _ skb 0 32 (by omega), ok_bind, slice_ok _ skb 32 64 (by omega), ok_bind, slice_ok _ skb 64 128 (by omega), ok_bind] at hdec
  obtain ⟨r1, hr1, hdec⟩ := bind_ok_inv hdec
  cases r1 with
  | none => rw [pure_eq] at hdec; have := ok_inj hdec; simp at this
  | some s1 =>
    simp only [] at hdec
    obtain ⟨r2, hr2, hdec⟩ := bind_ok_inv hdec
    cases r2 with
    | none => rw [pure_eq] at hdec; have := ok_inj hdec; simp at this
    | some s2 =>
      simp only [] at hdec
      obtain ⟨r3, hr3, hdec⟩ := bind_ok_inv hdec
      cases r3 with
      | none => rw [pure_eq] at hdec; have := ok_inj hdec; simp at this
      | some t0 =>
        simp only [] at hdec
        obtain ⟨_, _, hdec⟩ := bind_ok_inv hdec
        rw [pure_eq] at hdec
        have hs := ok_inj hdec
        simp only [Option.some.injEq] at hs
        subst hs
        simp only [] at rg1 rg2 rg0 sh1 sh2 sh0
        rw [hD] at hr3
        obtain ⟨z1, f1, g1, k1⟩ := unpackMany_repack m _ skb hb 128 p.eta p.eta bl eta0 eta1 h2 ⟨h3, h4⟩ hab (List.range p.l) [] s1
          (fun i hi => by
            have : i < p.l := List.mem_range.mp hi
            have : (i + 1) * (32 * bl) ≤ p.l * (32 * bl) := Nat.mul_le_mul_right _ (by omega)
            rw [hlen, hexp]; omega) hr1
        obtain ⟨z2, f2, g2, k2⟩ := unpackMany_repack m _ skb hb (128 + p.l * (32 * bl)) p.eta p.eta bl eta0 eta1 h2 ⟨h3, h4⟩ hab (List.range p.k) [] s2
          (fun i hi => by
            have : i < p.k := List.mem_range.mp hi
            have : (i + 1) * (32 * bl) ≤ p.k * (32 * bl) := Nat.mul_le_mul_right _ (by omega)
            rw [hlen, hexp]; omega) hr2
        obtain ⟨z0, f0, g0, k0⟩ := unpackMany_repack m _ skb hb (128 + p.l * (32 * bl) + p.k * (32 * bl)) (top - 1) top 13
          (by decide) (by decide) (bitLen_t0 m) (by omega) (by decide) (List.range p.k) [] t0
          (fun i hi => by
            have : i < p.k := List.mem_range.mp hi
            have : (i + 1) * (32 * 13) ≤ p.k * (32 * 13) := Nat.mul_le_mul_right _ (by omega)
            rw [hlen, hexp]; omega) hr3
        simp only [List.reverse_nil, List.nil_append] at f1 f2 f0
        subst f1 f2 f0
        -- run the encoder
        unfold skEncode
        simp only []
        have d1 : dassert m "encodings.rs:sk_encode:debug_assert(Alg 24: incorrect eta)" (decide (p.eta = 2) || decide (p.eta = 4)) = .ok () := by
          apply dassert_dec; rcases he with h | h <;> simp [h]
        have ht : top = 4096 := by decide
        rw [d1, ok_bind, dassertM_ok m _ _ (mapM_isInRange_true m s1 p.eta p.eta (by omega) rg1), ok_bind,
          dassertM_ok m _ _ (mapM_isInRange_true m s2 p.eta p.eta (by omega) rg2), ok_bind,
          dassertM_ok m _ _ (mapM_isInRange_true m t0 (top - 1) top (by rw [ht]; omega) rg0), ok_bind, hbl, ok_bind,
          dassert_dec m _ _ (by rw [hD]; simp [hcfg, hlen]), ok_bind]
        have l32 : ((skb.drop 0).take (32 - 0)).length = 32 := by rw [List.length_take, List.length_drop]; omega
        have l64 : ((skb.drop 32).take (64 - 32)).length = 32 := by rw [List.length_take, List.length_drop]; omega
        have l128 : ((skb.drop 64).take (128 - 64)).length = 64 := by rw [List.length_take, List.length_drop]; omega
        rw [if_neg (by rw [l32, l64, l128]; simp)]
        rw [List.take_of_length_le (by rw [sh1.1]; exact Nat.le_refl _), List.take_of_length_le (by rw [sh2.1]; exact Nat.le_refl _),
          List.take_of_length_le (by rw [sh0.1]; exact Nat.le_refl _), k1, ok_bind, k2, ok_bind, hD, k0, ok_bind]
        rw [flatten_slices skb 128 (32 * bl) p.l (by rw [hlen, hexp]; omega),
          flatten_slices skb (128 + p.l * (32 * bl)) (32 * bl) p.k (by rw [hlen, hexp]; omega),
          flatten_slices skb (128 + p.l * (32 * bl) + p.k * (32 * bl)) (32 * 13) p.k (by rw [hlen, hexp]; omega)]
        -- reassemble
        have hall : (skb.drop 0).take (32 - 0) ++ (skb.drop 32).take (64 - 32) ++ (skb.drop 64).take (128 - 64) ++
            (skb.drop 128).take (p.l * (32 * bl)) ++ (skb.drop (128 + p.l * (32 * bl))).take (p.k * (32 * bl)) ++
            (skb.drop (128 + p.l * (32 * bl) + p.k * (32 * bl))).take (p.k * (32 * 13)) = skb := by
          have t6 : (skb.drop (128 + p.l * (32 * bl) + p.k * (32 * bl))).take (p.k * (32 * 13)) = skb.drop (128 + p.l * (32 * bl) + p.k * (32 * bl)) :=
            List.take_of_length_le (by rw [List.length_drop, hlen, hexp]; omega)
          rw [t6]
          simp only [List.append_assoc]
          rw [take_drop_split skb (128 + p.l * (32 * bl)) (p.k * (32 * bl)), take_drop_split skb 128 (p.l * (32 * bl))]
          have : (skb.drop 64).take (128 - 64) ++ skb.drop 128 = skb.drop 64 := take_drop_split skb 64 64
          rw [this]
          have : (skb.drop 32).take (64 - 32) ++ skb.drop 64 = skb.drop 32 := take_drop_split skb 32 32
          rw [this]
          have : (skb.drop 0).take (32 - 0) ++ skb.drop 32 = skb.drop 0 := take_drop_split skb 0 32
          rw [this, List.drop_zero]
        rw [hall, if_neg (by rw [hcfg]; exact fun h => h rfl), pure_eq]

/-- **`into_bytes ∘ try_from_bytes = id` for private keys**: every accepted private-key byte string is reproduced, byte
    for byte, by serialising the struct `expand_private` built from it (through the NTT-domain representation) -/
theorem skIntoBytes_expandPrivate (m : Mode) (p : ParamSet) (skb : List Nat) (hb : ∀ x ∈ skb, x < 256)
    (he : p.eta = 2 ∨ p.eta = 4) (bl : Nat) (hbl : bitLen m (2 * p.eta) = .ok bl)
    (hlen : skb.length = 128 + 32 * ((p.k + p.l) * bl + D.toNat * p.k)) (hcfg : p.skLen = skb.length)
    (sk : PrivateKey) (h : expandPrivate m p skb = .ok (some sk)) : skIntoBytes m p sk = .ok skb := by
  unfold expandPrivate at h
  obtain ⟨r, hr, h⟩ := bind_ok_inv h
  cases r with
  | none => rw [pure_eq] at h; have := ok_inj h; simp at this
  | some s =>
    simp only [] at h
    have eta0 : 0 ≤ p.eta ∧ p.eta ≤ 4 := by rcases he with h | h <;> omega
    obtain ⟨_, sh1, sh2, sh0⟩ := skDecode_sh m p skb s hr
    obtain ⟨r1, r2, r0⟩ := Props.C10.skDecode_accepts_only_in_range m p skb s ⟨eta0.1, by omega⟩ hr
    have ht : top = 4096 := by decide
    obtain ⟨a1, ha1, u1⟩ := unMont_nttMont m s.s1 (fun q hq => ⟨sh1.2 q hq, fun x hx => by have := r1 q hq x hx; omega⟩)
    obtain ⟨a2, ha2, u2⟩ := unMont_nttMont m s.s2 (fun q hq => ⟨sh2.2 q hq, fun x hx => by have := r2 q hq x hx; omega⟩)
    obtain ⟨a0, ha0, u0⟩ := unMont_nttMont m s.t0 (fun q hq => ⟨sh0.2 q hq, fun x hx => by have := r0 q hq x hx; rw [ht] at this; omega⟩)
    rw [ha1, ok_bind, ha2, ok_bind, ha0, ok_bind, pure_eq] at h
    have hsk := ok_inj h
    simp only [Option.some.injEq] at hsk
    subst hsk
    unfold skIntoBytes
    simp only []
    rw [u1, ok_bind, u2, ok_bind, u0, ok_bind]
    exact skEncode_skDecode m p skb hb he bl hbl hlen hcfg s hr

end Fips204.Impl
