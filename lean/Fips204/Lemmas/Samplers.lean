import Fips204.Lemmas.SigDecode
import Fips204.Impl.Sample
import Fips204.Lemmas.Kernels2
/-! The samplers of the verifier (`sample_in_ball`, `rej_ntt_poly`, `expand_a`): no fault other than the model-only
    `Fault.fuel` (the crate squeezes the XOF without bound; the model reads a finite prefix), and the shape / range
    of what they return. -/
namespace Fips204.Impl
open Fips204 Fips204.Gen Fips204.K

/-- the computation returns a value satisfying `P`, or stops with the model-only stream-exhaustion outcome;
    in particular it does **not** panic (overflow, failed assertion, out-of-bounds, unwrap) -/
def NoPanic {α} (r : M α) (P : α → Prop) : Prop := (∃ v, r = .ok v ∧ P v) ∨ (∃ s, r = .error (.fuel s))

theorem NoPanic.ok {α} {P : α → Prop} (v : α) (h : P v) : NoPanic (Except.ok v) P := Or.inl ⟨v, rfl, h⟩

theorem NoPanic.of_ok {α} {P : α → Prop} {x : M α} (h : ∃ v, x = .ok v ∧ P v) : NoPanic x P := Or.inl h

theorem NoPanic.bind {α β} {x : M α} {f : α → M β} {P : α → Prop} {Q : β → Prop} (hx : NoPanic x P)
    (hf : ∀ v, P v → NoPanic (f v) Q) : NoPanic (x >>= f) Q := by
  rcases hx with ⟨v, rfl, hv⟩ | ⟨s, rfl⟩
  · rw [ok_bind]; exact hf v hv
  · rw [error_bind]; exact Or.inr ⟨s, rfl⟩

theorem NoPanic.bind' {α β} {x : M α} {f : α → M β} {P : α → Prop} {Q : β → Prop} (hx : NoPanic x P)
    (hf : ∀ v, x = .ok v → P v → NoPanic (f v) Q) : NoPanic (x >>= f) Q := by
  rcases hx with ⟨v, hv, hp⟩ | ⟨s, rfl⟩
  · rw [hv, ok_bind]; exact hf v hv hp
  · rw [error_bind]; exact Or.inr ⟨s, rfl⟩

theorem NoPanic.mono {α} {x : M α} {P Q : α → Prop} (hx : NoPanic x P) (h : ∀ v, P v → Q v) : NoPanic x Q := by
  rcases hx with ⟨v, rfl, hv⟩ | ⟨s, rfl⟩
  · exact Or.inl ⟨v, rfl, h v hv⟩
  · exact Or.inr ⟨s, rfl⟩

theorem mapM_np {α β} (f : α → M β) (R : β → Prop) :
    ∀ l : List α, (∀ a ∈ l, NoPanic (f a) R) → NoPanic (l.mapM f) (fun l' => l'.length = l.length ∧ ∀ b ∈ l', R b) := by
  intro l
  induction l with
  | nil => intro _; exact Or.inl ⟨[], by simp [pure, Except.pure], rfl, by simp⟩
  | cons a as ih =>
    intro h
    rw [List.mapM_cons]
    refine (h a (List.mem_cons_self ..)).bind (fun b hb => ?_)
    refine (ih (fun x hx => h x (List.mem_cons_of_mem _ hx))).bind (fun bs hbs => ?_)
    rw [pure_eq]
    refine NoPanic.ok _ ⟨by simp [hbs.1], fun x hx => ?_⟩
    rcases List.mem_cons.mp hx with rfl | hx
    · exact hb
    · exact hbs.2 x hx

/-- what the theorems assume of the hash oracles: they return as many bytes as asked for, and bytes are bytes -/
structure OracleOk (O : Oracles) : Prop where
  hlen : ∀ x n, (O.h x n).length = n
  hbyte : ∀ x n, ∀ b ∈ O.h x n, b < 256
  glen : ∀ x n, (O.g x n).length = n
  gbyte : ∀ x n, ∀ b ∈ O.g x n, b < 256

/-! ### SampleInBall -/

theorem sibFind_le (i : Nat) : ∀ (s : List Nat) j rest, sibFind i s = some (j, rest) → j ≤ i := by
  intro s
  induction s with
  | nil => intro j rest h; simp [sibFind] at h
  | cons a as ih =>
    intro j rest h
    unfold sibFind at h
    by_cases ha : a > i
    · rw [if_pos ha] at h; exact ih j rest h
    · rw [if_neg ha] at h
      simp only [Option.some.injEq, Prod.mk.injEq] at h
      omega

/-- number of non-zero coefficients -/
def nz (c : Poly) : Nat := (c.filter (fun e => e ≠ 0)).length

theorem nz_cons (a : Int) (l : Poly) : nz (a :: l) = (if a ≠ 0 then 1 else 0) + nz l := by
  unfold nz
  rw [List.filter_cons]
  by_cases h : a = 0
  · simp [h]
  · simp [h]; omega

theorem nz_set (l : Poly) : ∀ (i : Nat) (x y : Int), l[i]? = some y →
    nz (l.set i x) + (if y ≠ 0 then 1 else 0) = nz l + (if x ≠ 0 then 1 else 0) := by
  induction l with
  | nil => intro i x y h; simp at h
  | cons a as ih =>
    intro i x y h
    cases i with
    | zero =>
      simp only [List.getElem?_cons_zero, Option.some.injEq] at h
      subst h
      rw [List.set_cons_zero, nz_cons, nz_cons]; omega
    | succ j =>
      simp only [List.getElem?_cons_succ] at h
      have := ih j x y h
      rw [List.set_cons_succ, nz_cons, nz_cons]; omega

/-- 256 coefficients in {-1, 0, 1} -/
def Tri (c : Poly) : Prop := c.length = 256 ∧ ∀ x ∈ c, x = -1 ∨ x = 0 ∨ x = 1

theorem Tri.set {c : Poly} (h : Tri c) (i : Nat) (v : Int) (hv : v = -1 ∨ v = 0 ∨ v = 1) : Tri (c.set i v) :=
  ⟨by rw [List.length_set]; exact h.1, fun x hx => by
    rcases List.mem_or_eq_of_mem_set hx with hx | rfl
    · exact h.2 x hx
    · exact hv⟩

theorem sibTail_props (c : Poly) (hT : Tri c) (i j : Nat) (hj : j ≤ i) (hi : i < 256)
    (hz : ∀ k, i ≤ k → k < 256 → c[k]? = some 0) (cj : Int) (hcj : c[j]? = some cj) (v : Int) (hv : v = 1 ∨ v = -1) :
    Tri ((c.set i cj).set j v) ∧ nz ((c.set i cj).set j v) = nz c + 1 ∧
      ∀ k, i < k → k < 256 → ((c.set i cj).set j v)[k]? = some 0 := by
  have hcjm : cj = -1 ∨ cj = 0 ∨ cj = 1 := hT.2 cj (List.mem_of_getElem? hcj)
  have hT1 := hT.set i cj hcjm
  refine ⟨hT1.set j v (by omega), ?_, fun k hk hk2 => ?_⟩
  · have h1 := nz_set c i cj 0 (hz i (Nat.le_refl _) hi)
    have hc1j : (c.set i cj)[j]? = some cj := by
      by_cases hji : i = j
      · subst hji; rw [List.getElem?_set_self (by rw [hT.1]; exact hi)]
      · rw [List.getElem?_set_ne hji]; exact hcj
    have h2 := nz_set (c.set i cj) j v cj hc1j
    have hv0 : v ≠ 0 := by omega
    simp only [hv0, ne_eq, not_false_eq_true, if_true, not_true_eq_false, if_false] at h1 h2
    split at h1 <;> split at h2 <;> omega
  · rw [List.getElem?_set_ne (by omega), List.getElem?_set_ne (by omega)]
    exact hz k (by omega) hk2

theorem sibStep_np (O : Oracles) (ctest : Bool) (tau : Nat) (hbytes : List Nat) (hh : hbytes.length = 8) (ht : tau ≤ 64)
    (c : Poly) (s : List Nat) (i : Nat) (hT : Tri c) (hi : i < 256) (hit : 256 ≤ i + tau)
    (hz : ∀ k, i ≤ k → k < 256 → c[k]? = some 0) :
    NoPanic (sibStep O ctest tau hbytes (c, s) i)
      (fun st => Tri st.1 ∧ nz st.1 = nz c + 1 ∧ ∀ k, i < k → k < 256 → st.1[k]? = some 0) := by
  have core : ∀ (j : Nat) (s' : List Nat), j ≤ i → NoPanic (do
      let cj ← idx "hashing.rs:sample_in_ball:c[j]" c j
      let c1 := c.set i cj
      let index := i + tau - 256
      let bite ← idx "hashing.rs:sample_in_ball:h[index/8]" hbytes (index / 8)
      let shifted := bite / 2 ^ (index % 8)
      let c2 := c1.set j (1 - 2 * Int.ofNat (shifted % 2))
      (pure (c2, s') : M (Poly × List Nat)))
      (fun st => Tri st.1 ∧ nz st.1 = nz c + 1 ∧ ∀ k, i < k → k < 256 → st.1[k]? = some 0) := by
    intro j s' hj
    have hjl : j < c.length := by rw [hT.1]; omega
    rw [idx_ok _ c j hjl, ok_bind]
    dsimp only
    rw [idx_ok _ hbytes ((i + tau - 256) / 8) (by omega), ok_bind, pure_eq]
    refine NoPanic.ok _ ?_
    have hv : ∀ n : Nat, (1 - 2 * Int.ofNat (n % 2) = 1 ∨ 1 - 2 * Int.ofNat (n % 2) = -1) := fun n => by
      rcases Nat.mod_two_eq_zero_or_one n with h | h <;> rw [h] <;> decide
    exact sibTail_props c hT i j hj hi hz c[j] (List.getElem?_eq_getElem hjl) _ (hv _)
  unfold sibStep
  cases ctest with
  | true =>
    simp only [if_true, pure_eq, ok_bind]
    rw [Nat.mod_eq_of_lt hi]
    exact core i s (Nat.le_refl _)
  | false =>
    simp only [Bool.false_eq_true, if_false]
    cases hsf : sibFind i s with
    | none =>
      refine Or.inr ⟨"hashing.rs:sample_in_ball:stream", ?_⟩
      simp [throw, throwThe, MonadExceptOf.throw, bind, Except.bind]
    | some r =>
      obtain ⟨j, rest⟩ := r
      simp only [pure_eq, ok_bind]
      exact core j rest (sibFind_le i s j rest hsf)

theorem sibFold_np (O : Oracles) (ctest : Bool) (tau : Nat) (hbytes : List Nat) (hh : hbytes.length = 8) (ht : tau ≤ 64) :
    ∀ (n base : Nat) (c : Poly) (s : List Nat), base + n = 256 → 256 ≤ base + tau → Tri c →
      (∀ k, base ≤ k → k < 256 → c[k]? = some 0) →
      NoPanic ((List.range' base n).foldlM (sibStep O ctest tau hbytes) (c, s)) (fun st => Tri st.1 ∧ nz st.1 = nz c + n) := by
  intro n
  induction n with
  | zero => intro base c s _ _ hT _; simp only [List.range'_zero, List.foldlM_nil, pure_eq]; exact NoPanic.ok _ ⟨hT, rfl⟩
  | succ n ih =>
    intro base c s hb hbt hT hz
    rw [List.range'_succ, List.foldlM_cons]
    refine (sibStep_np O ctest tau hbytes hh ht c s base hT (by omega) hbt hz).bind (fun st hst => ?_)
    obtain ⟨c', s'⟩ := st
    obtain ⟨h1, h2, h3⟩ := hst
    refine (ih (base + 1) c' s' (by omega) (by omega) h1 (fun k hk hk2 => h3 k (by omega) hk2)).mono (fun st hst => ⟨hst.1, ?_⟩)
    rw [hst.2, h2]; omega

theorem band1_tri : band .i32 (-1) 1 = 1 ∧ band .i32 0 1 = 0 ∧ band .i32 1 1 = 1 := by decide +kernel

theorem sum_band1 (c : Poly) (h : ∀ x ∈ c, x = -1 ∨ x = 0 ∨ x = 1) (s : Int) :
    (c.map (fun e => band .i32 e 1)).foldl (· + ·) s = s + nz c := by
  obtain ⟨b1, b2, b3⟩ := band1_tri
  unfold nz
  induction c generalizing s with
  | nil => simp
  | cons a as ih =>
    rw [List.map_cons, List.foldl_cons, ih (fun x hx => h x (List.mem_cons_of_mem _ hx)), List.filter_cons]
    rcases h a (List.mem_cons_self ..) with rfl | rfl | rfl
    · rw [b1]; simp; omega
    · rw [b2]; simp
    · rw [b3]; simp; omega

theorem nz_zeroPoly : nz zeroPoly = 0 := by decide +kernel

theorem Tri_zeroPoly : Tri zeroPoly :=
  ⟨by unfold zeroPoly; rw [List.length_replicate], fun x hx => by
    unfold zeroPoly at hx; exact Or.inr (Or.inl (List.eq_of_mem_replicate hx))⟩

/-- **`sample_in_ball` never panics**: both Hamming-weight assertions hold for every seed, whatever the oracle returns -/
theorem sampleInBall_np (m : Mode) (O : Oracles) (hO : OracleOk O) (ctest : Bool) (tau : Int) (rho : List Nat)
    (ht : 0 ≤ tau ∧ tau ≤ 64) : NoPanic (sampleInBall m O ctest tau rho) (fun c => c.length = 256 ∧ Bnd 1 c) := by
  unfold sampleInBall
  rw [if_neg (by omega)]
  simp only []
  rw [if_neg (by omega)]
  have hr : (List.range tau.toNat).map (fun t => 256 - tau.toNat + t) = List.range' (256 - tau.toNat) tau.toNat := by
    rw [List.range'_eq_map_range]
  rw [hr]
  have hh : ((O.h rho (8 + 1360 * O.fuelScale)).take 8).length = 8 := by rw [List.length_take, hO.hlen]; omega
  refine (sibFold_np O ctest tau.toNat _ hh (by omega) tau.toNat (256 - tau.toNat) zeroPoly _ (by omega) (by omega) Tri_zeroPoly
    (fun k _ hk => by unfold zeroPoly; rw [List.getElem?_replicate, if_pos hk])).bind (fun st hst => ?_)
  obtain ⟨c, s⟩ := st
  obtain ⟨hT, hn⟩ := hst
  rw [nz_zeroPoly, Nat.zero_add] at hn
  simp only []
  have d1 : ((c.filter (fun e => e ≠ 0)).length == tau.toNat) = true := by
    exact beq_iff_eq.mpr hn
  have d2 : decide ((c.map (fun e => band .i32 e 1)).foldl (· + ·) 0 = Int.ofNat tau.toNat) = true := by
    rw [sum_band1 c hT.2 0, hn]; simp
  rw [dassert_dec m _ _ d1, ok_bind, dassert_dec m _ _ d2, ok_bind, pure_eq]
  exact NoPanic.ok _ ⟨hT.1, fun x hx => by rcases hT.2 x hx with rfl | rfl | rfl <;> omega⟩

/-! ### RejNTTPoly / ExpandA -/

theorem coeff3_range (m : Mode) (ctest : Bool) (b0 b1 b2 : Nat) (h0 : b0 < 256) (h1 : b1 < 256) (h2 : b2 < 256) :
    ∃ r, coeff_from_three_bytes m ctest b0 b1 b2 = .ok r ∧ ∀ z, r = some z → 0 ≤ z ∧ z ≤ 8380416 := by
  cases ctest with
  | false =>
    refine ⟨_, coeff3_eq m b0 b1 b2 (by omega) (by omega) (by omega), fun z hz => ?_⟩
    have key : ∀ (zz : Int), (if zz < Q then some zz else none) = some z → zz < 8380417 ∧ zz = z := by
      intro zz h; unfold Q at h; split at h <;> simp_all
    unfold Spec.coeffFromThreeBytes at hz
    obtain ⟨h3, h4⟩ := key _ hz
    have e3 : (if (b2 : Int) > 127 then (b2 : Int) - 128 else b2) = (b2 : Int) % 128 := by split <;> omega
    rw [e3] at h3 h4
    omega
  | true =>
    refine ⟨_, coeff3_ctest_some m b0 b1 b2 (by omega) (by omega) (by omega), fun z hz => ?_⟩
    simp only [Option.some.injEq] at hz; subst hz; omega

theorem rejNttLoop_np (m : Mode) (ctest : Bool) : ∀ (fuel : Nat) (s : List Nat) (acc : List Int), (∀ b ∈ s, b < 256) →
    acc.length ≤ 256 → (∀ x ∈ acc, 0 ≤ x ∧ x ≤ 8380416) →
    NoPanic (rejNttLoop m ctest fuel s acc) (fun r => r.length = 256 ∧ Res r) := by
  intro fuel
  induction fuel with
  | zero => intro s acc _ _ _; exact Or.inr ⟨_, rfl⟩
  | succ fuel ih =>
    intro s acc hs hl ha
    unfold rejNttLoop
    by_cases hfull : acc.length ≥ 256
    · rw [if_pos hfull, pure_eq]
      exact NoPanic.ok _ ⟨by rw [List.length_reverse]; omega, fun x hx => ha x (List.mem_reverse.mp hx)⟩
    · rw [if_neg hfull]
      match s, hs with
      | [], _ => exact Or.inr ⟨_, rfl⟩
      | [_], _ => exact Or.inr ⟨_, rfl⟩
      | [_, _], _ => exact Or.inr ⟨_, rfl⟩
      | b0 :: b1 :: b2 :: rest, hs =>
        obtain ⟨r, hr, hrr⟩ := coeff3_range m ctest b0 b1 b2 (hs b0 (by simp)) (hs b1 (by simp)) (hs b2 (by simp))
        simp only [hr, ok_bind]
        have hrest : ∀ b ∈ rest, b < 256 := fun b hb => hs b (by simp [hb])
        cases r with
        | none => exact ih rest acc hrest hl ha
        | some v =>
          refine ih rest (v :: acc) hrest (by simp; omega) (fun x hx => ?_)
          rcases List.mem_cons.mp hx with rfl | hx
          · exact hrr _ rfl
          · exact ha x hx

theorem rejNttPoly_np (m : Mode) (O : Oracles) (hO : OracleOk O) (ctest : Bool) (rho : List Nat) (hr : rho.length = 34) :
    NoPanic (rejNttPoly m O ctest rho) (fun r => r.length = 256 ∧ Res r) := by
  unfold rejNttPoly
  rw [dassert_dec m _ _ (by simp [hr]), ok_bind]
  exact rejNttLoop_np m ctest _ _ [] (hO.gbyte _ _) (by simp) (by simp)

/-- `expand_a`: `k` rows of `l` canonical polynomials -/
theorem expandA_np (m : Mode) (O : Oracles) (hO : OracleOk O) (ctest : Bool) (p : ParamSet) (rho : List Nat) (hr : rho.length = 32) :
    NoPanic (expandA m O ctest p rho) (fun a => a.length = p.k ∧ ∀ row ∈ a, row.length = p.l ∧ ∀ q ∈ row, q.length = 256 ∧ Res q) := by
  unfold expandA
  refine (mapM_np _ (fun row : List Poly => row.length = p.l ∧ ∀ q ∈ row, q.length = 256 ∧ Res q) (List.range p.k) (fun r _ => ?_)).mono
    (fun a ha => ⟨by rw [ha.1, List.length_range], ha.2⟩)
  refine (mapM_np _ (fun q : Poly => q.length = 256 ∧ Res q) (List.range p.l) (fun s _ => ?_)).mono
    (fun a ha => ⟨by rw [ha.1, List.length_range], ha.2⟩)
  exact rejNttPoly_np m O hO ctest _ (by simp [hr])

end Fips204.Impl
