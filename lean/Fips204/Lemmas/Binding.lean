import Fips204.Lemmas.SignVerify
import Fips204.Props.C05
/-! Binding (C05): if two tuples that differ in the hint section, or in the public inputs, both pass Algorithm 8, the two runs
    exhibit an explicit collision of the hash oracle. -/
namespace Fips204.Impl
open Fips204 Fips204.Gen Fips204.K

theorem simpleBitPack_eq (m : Mode) (w : Poly) (b : Int) (bl : Nat) (hb : 1 ≤ b ∧ b < 1048576)
    (hbl : bitLen m b = .ok bl) (hw : ∀ c ∈ w, 0 ≤ c ∧ c ≤ b) :
    simpleBitPack m w b (32 * bl) = bitPack m w 0 b (32 * bl) := by
  unfold simpleBitPack
  have d1 := dassert_dec m "conversion.rs:simple_bit_pack:debug_assert(Alg 16: b out of range)" (decide (1 ≤ b) && decide (b < 1048576)) (by simp; omega)
  have d2 := dassertM_ok m "conversion.rs:simple_bit_pack:debug_assert(Alg 16: w out of range)" _
    (isInRange_true m w 0 b (by omega) (fun c hc => by have := hw c hc; omega))
  rw [d1, ok_bind, d2, ok_bind]
  simp only [hbl, ok_bind, pure_eq, beq_self_eq_true, dassertM_true]

/-- `simple_bit_pack` is injective on in-range polynomials -/
theorem simpleBitPack_inj (m : Mode) (b : Int) (bl : Nat) (hb : 1 ≤ b ∧ b < 1048576) (hbl : bitLen m b = .ok bl) (hbl2 : 1 ≤ bl ∧ bl ≤ 20)
    (hab : b < 2 ^ bl) (w w' : Poly) (hw : ∀ c ∈ w, 0 ≤ c ∧ c ≤ b) (hw' : ∀ c ∈ w', 0 ≤ c ∧ c ≤ b) (hl : w.length = 256) (hl' : w'.length = 256)
    (v : List Nat) (h1 : simpleBitPack m w b (32 * bl) = .ok v) (h2 : simpleBitPack m w' b (32 * bl) = .ok v) : w = w' := by
  rw [simpleBitPack_eq m w b bl hb hbl hw] at h1
  rw [simpleBitPack_eq m w' b bl hb hbl hw'] at h2
  obtain ⟨v1, e1, _, _, u1⟩ := bitUnpack_bitPack m w 0 b bl (by omega) hb (by rw [Int.zero_add]; exact hbl) hbl2 (by rw [Int.zero_add]; exact hab)
    (fun c hc => by have := hw c hc; omega) hl
  obtain ⟨v2, e2, _, _, u2⟩ := bitUnpack_bitPack m w' 0 b bl (by omega) hb (by rw [Int.zero_add]; exact hbl) hbl2 (by rw [Int.zero_add]; exact hab)
    (fun c hc => by have := hw' c hc; omega) hl'
  rw [h1] at e1; rw [h2] at e2
  have := ok_inj e1; subst this
  have := ok_inj e2; subst this
  rw [u1] at u2
  have := ok_inj u2
  simpa using this

/-- what `w1Encode` returns on an in-range vector -/
theorem w1Encode_val (m : Mode) (p : ParamSet)
    (hg : (p.gamma2 = 95232 ∧ p.w1Bits = 6) ∨ (p.gamma2 = 261888 ∧ p.w1Bits = 4)) (w1 : List Poly) (hsh : Sh p.k w1)
    (hr : ∀ q ∈ w1, ∀ x ∈ q, 0 ≤ x ∧ x ≤ (Q - 1) / (2 * p.gamma2) - 1) :
    ∃ (qm : Int) (bl : Nat) (cs : List (List Nat)), (Q - 1) / (2 * p.gamma2) - 1 = qm ∧ bitLen m qm = .ok bl ∧ 1 ≤ qm ∧ qm < 1048576 ∧ 1 ≤ bl ∧ bl ≤ 20 ∧
      qm < 2 ^ bl ∧ w1.mapM (fun r => simpleBitPack m r qm (32 * bl)) = .ok cs ∧ (∀ c ∈ cs, c.length = 32 * bl) ∧
      w1Encode m p w1 p.w1Len = .ok (cs.flatten ++ List.replicate (p.w1Len - cs.flatten.length) 0) := by
  obtain ⟨b43, b15⟩ := bitLen_w1 m
  have key : ∃ (qm : Int) (bl : Nat), Int.tdiv (Q - 1) (2 * p.gamma2) - 1 = qm ∧ (Q - 1) / (2 * p.gamma2) - 1 = qm ∧ bitLen m qm = .ok bl ∧
      p.w1Bits = bl ∧ 1 ≤ qm ∧ qm < 1048576 ∧ bl ≤ 20 ∧ -1073741824 ≤ p.gamma2 ∧ p.gamma2 ≤ 1073741823 ∧ 2 * p.gamma2 ≠ 0 ∧ 1 ≤ bl ∧ qm < 2 ^ bl := by
    rcases hg with ⟨h1, h2⟩ | ⟨h1, h2⟩
    · rw [h1, h2]; exact ⟨43, 6, by decide, by decide, b43, rfl, by omega, by omega, by omega, by omega, by omega, by omega, by omega, by decide⟩
    · rw [h1, h2]; exact ⟨15, 4, by decide, by decide, b15, rfl, by omega, by omega, by omega, by omega, by omega, by omega, by omega, by decide⟩
  obtain ⟨qm, bl, e1, e2, hbl, hwb, q1, q2, hbl2, g1, g2, g3, hbl1, hpow⟩ := key
  unfold w1Encode
  rw [arith_i32 _ _ _ (by omega) (by omega), ok_bind, if_neg g3, e1, arith_i32 _ _ _ (by omega) (by omega), ok_bind, hbl, ok_bind]
  have hlen : p.w1Len = 32 * p.k * bl := by unfold ParamSet.w1Len; rw [hwb]
  rw [dassert_dec m _ _ (by rw [hlen]; simp), ok_bind]
  obtain ⟨bs, hbs, _, hbt⟩ := mapM_ok_len (fun r => isInRange m r 0 qm) (fun r => r ∈ w1) (fun b => b = true)
    (fun r hr' => ⟨true, isInRange_true m r 0 qm (by omega) (fun c hc => by have := hr r hr' c hc; omega), rfl⟩) w1 (fun a ha => ha)
  have hall : bs.all id = true := by rw [List.all_eq_true]; intro b hb; exact hbt b hb
  have d2 : dassertM m "encodings.rs:w1_encode:debug_assert(Alg 28: w1 out of range)" (do
      let bs ← w1.mapM (fun r => isInRange m r 0 qm); pure (bs.all id)) = .ok () := by
    apply dassertM_ok; rw [hbs, ok_bind, pure_eq, hall]
  rw [d2, ok_bind]
  have htake : w1.take p.k = w1 := List.take_of_length_le (by rw [hsh.1]; exact Nat.le_refl _)
  obtain ⟨cs, hcs, hcl, hcr⟩ := mapM_ok_len (fun r => simpleBitPack m r qm (32 * bl)) (fun r => r ∈ w1) (fun o => o.length = 32 * bl)
    (fun r hr' => simpleBitPack_ok m r qm bl ⟨q1, q2⟩ hbl hbl2 (fun c hc => by have := hr r hr' c hc; omega) (hsh.2 r hr'))
    w1 (fun a ha => ha)
  dsimp only
  rw [htake, hcs, ok_bind]
  have hfl := flatten_len (32 * bl) cs hcr
  rw [hcl, hsh.1] at hfl
  have e3 : p.k * (32 * bl) = 32 * p.k * bl := by rw [Nat.mul_left_comm, Nat.mul_assoc]
  rw [if_neg (by rw [hfl, hlen, e3]; omega), pure_eq]
  exact ⟨qm, bl, cs, e2, hbl, q1, q2, hbl1, hbl2, hpow, hcs, hcr, rfl⟩

/-- `w1Encode` is injective on in-range vectors -/
theorem w1Encode_inj (m : Mode) (p : ParamSet)
    (hg : (p.gamma2 = 95232 ∧ p.w1Bits = 6) ∨ (p.gamma2 = 261888 ∧ p.w1Bits = 4)) (w1 w1' : List Poly) (hsh : Sh p.k w1) (hsh' : Sh p.k w1')
    (hr : ∀ q ∈ w1, ∀ x ∈ q, 0 ≤ x ∧ x ≤ (Q - 1) / (2 * p.gamma2) - 1) (hr' : ∀ q ∈ w1', ∀ x ∈ q, 0 ≤ x ∧ x ≤ (Q - 1) / (2 * p.gamma2) - 1)
    (out : List Nat) (h1 : w1Encode m p w1 p.w1Len = .ok out) (h2 : w1Encode m p w1' p.w1Len = .ok out) : w1 = w1' := by
  obtain ⟨qm, bl, cs, e, hbl, q1, q2, b1, b2, hpow, hcs, hcr, hv⟩ := w1Encode_val m p hg w1 hsh hr
  obtain ⟨qm', bl', cs', e', hbl', _, _, _, _, _, hcs', hcr', hv'⟩ := w1Encode_val m p hg w1' hsh' hr'
  have : qm = qm' := by rw [← e, ← e']
  subst this
  rw [hbl] at hbl'
  have hble : bl = bl' := ok_inj hbl'
  subst hble
  rw [h1] at hv; rw [h2] at hv'
  have hcl := mapM_len _ _ _ hcs
  have hcl' := mapM_len _ _ _ hcs'
  have hfl := flatten_len (32 * bl) cs hcr
  have hfl' := flatten_len (32 * bl) cs' hcr'
  have heq : cs.flatten = cs'.flatten := by
    have h := (ok_inj hv).symm.trans (ok_inj hv')
    exact (List.append_inj h (by rw [hfl, hfl', hcl, hcl', hsh.1, hsh'.1])).1
  apply List.ext_getElem (by rw [hsh.1, hsh'.1])
  intro i g1 g2
  have gi : i < cs.length := by rw [hcl]; exact g1
  have gi' : i < cs'.length := by rw [hcl']; exact g2
  have s1 := slice_flatten (32 * bl) cs hcr i gi
  have s2 := slice_flatten (32 * bl) cs' hcr' i gi'
  rw [heq, s2] at s1
  have p1 := mapM_get _ w1 cs hcs i g1 gi
  have p2 := mapM_get _ w1' cs' hcs' i g2 gi'
  rw [s1] at p2
  exact simpleBitPack_inj m qm bl ⟨q1, q2⟩ hbl ⟨b1, b2⟩ hpow w1[i] w1'[i]
    (fun c hc => by have := hr _ (List.getElem_mem g1) c hc; omega) (fun c hc => by have := hr' _ (List.getElem_mem g2) c hc; omega)
    (hsh.2 _ (List.getElem_mem g1)) (hsh'.2 _ (List.getElem_mem g2)) _ p1 p2

theorem wRowS_length (row z : List Poly) (c t : Poly) (hrow : ∀ a ∈ row, a.length = 256) (hz : ∀ u ∈ z, u.length = 256)
    (hc : c.length = 256) (ht : t.length = 256) : (wRowS row z c t).length = 256 := by
  have lz : zeroPoly.length = 256 := by unfold zeroPoly; rw [List.length_replicate]
  have lR := (rowS_ev 0 (by decide) row z zeroPoly lz hrow hz).1
  have lnc : (nttS 8 1 c).length = 256 := nttS_length 8 1 c (by rw [hc])
  have ln8 : (nttS 8 1 (t.map (fun x => 8192 * x))).length = 256 := nttS_length 8 1 _ (by rw [List.length_map, ht])
  unfold wRowS canon
  rw [List.length_map, List.length_map, invS_length 8 1 _ (by
    rw [List.length_zipWith, List.length_zipWith, lR, lnc, ln8]; rfl)]

theorem wApproxS_sh (k : Nat) (aHat : List (List Poly)) (z : List Poly) (c : Poly) (t1 : List Poly)
    (hA : aHat.length = k ∧ ∀ row ∈ aHat, ∀ a ∈ row, a.length = 256) (hz : ∀ u ∈ z, u.length = 256) (hc : c.length = 256) (ht1 : Sh k t1) :
    Sh k (wApproxS aHat z c t1) := by
  unfold wApproxS
  refine ⟨by rw [List.length_zipWith, hA.1, ht1.1]; exact Nat.min_self _, fun q hq => ?_⟩
  obtain ⟨row, hrow, t, ht, hqe⟩ := mem_zipWith' (fun row t => wRowS row z c t) aHat t1 q hq
  rw [hqe]
  exact wRowS_length row z c t (hA.2 row hrow) hz hc (ht1.2 t ht)

/-- different hints give different commitment high parts (same `w'_approx`) -/
theorem useHint_vec_inj (g : Int) (hg : g = 95232 ∨ g = 261888) (k : Nat) (h h' wa : List Poly) (hh : Sh k h) (hh' : Sh k h') (hwa : Sh k wa)
    (hb : ∀ q ∈ h, Bin q) (hb' : ∀ q ∈ h', Bin q)
    (he : List.zipWith (fun hp wp => List.zipWith (fun hh r => Spec.useHint g hh r) hp wp) h wa =
      List.zipWith (fun hp wp => List.zipWith (fun hh r => Spec.useHint g hh r) hp wp) h' wa) : h = h' := by
  apply List.ext_getElem (by rw [hh.1, hh'.1])
  intro i g1 g2
  have gw : i < wa.length := by rw [hwa.1, ← hh.1]; exact g1
  have l1 := hh.2 _ (List.getElem_mem g1)
  have l2 := hh'.2 _ (List.getElem_mem g2)
  have lw := hwa.2 _ (List.getElem_mem gw)
  have ei : List.zipWith (fun hh r => Spec.useHint g hh r) h[i] wa[i] = List.zipWith (fun hh r => Spec.useHint g hh r) h'[i] wa[i] := by
    have e1 := congrArg (fun l => l[i]?) he
    simp only [List.getElem?_zipWith, List.getElem?_eq_getElem g1, List.getElem?_eq_getElem g2, List.getElem?_eq_getElem gw] at e1
    simpa using e1
  apply List.ext_getElem (by rw [l1, l2])
  intro j k1 k2
  have kw : j < wa[i].length := by rw [lw, ← l1]; exact k1
  have ej := congrArg (fun l => l[j]?) ei
  simp only [List.getElem?_zipWith, List.getElem?_eq_getElem k1, List.getElem?_eq_getElem k2, List.getElem?_eq_getElem kw] at ej
  have ej' : Spec.useHint g h[i][j] wa[i][j] = Spec.useHint g h'[i][j] wa[i][j] := by simpa using ej
  rcases (hb _ (List.getElem_mem g1)).2 _ (List.getElem_mem k1) with a0 | a1 <;>
    rcases (hb' _ (List.getElem_mem g2)).2 _ (List.getElem_mem k2) with b0 | b1
  · rw [a0, b0]
  · rw [a0, b1] at ej'; exact absurd ej'.symm (Fips204.Props.C05.useHint_flip g _ hg)
  · rw [a1, b0] at ej'; exact absurd ej' (Fips204.Props.C05.useHint_flip g _ hg)
  · rw [a1, b1]

/-- what acceptance by Algorithm 8 means, given the decoded signature -/
theorem verifySpec_true_inv (m : Mode) (O : Oracles) (ctest : Bool) (p : ParamSet) (rho tr : List Nat) (t1 : List Poly)
    (msg sig ctx oid phm : List Nat) (nist : Bool) (cT : List Nat) (z h : List Poly)
    (hd : sigDecode m p sig = .ok (some (cT, z, h)))
    (hv : verifySpec m O ctest p rho tr t1 msg sig ctx oid phm nist = .ok true) :
    ∃ c aHat w1t, sampleInBall m O false p.tau cT = .ok c ∧ expandA m O ctest p rho = .ok aHat ∧
      w1Encode m p (List.zipWith (fun hp wp => List.zipWith (fun hh r => Spec.useHint p.gamma2 hh r) hp wp) h (wApproxS aHat z c t1)) p.w1Len = .ok w1t ∧
      normInfS z < p.gamma1 - p.beta ∧
      cT = O.h (muOf O domPure_verify domHash_verify tr msg ctx oid phm nist ++ w1t) p.lambdaDiv4 := by
  unfold verifySpec at hv
  rw [hd, ok_bind] at hv
  simp only [] at hv
  obtain ⟨c, hc, hv⟩ := bind_ok_inv hv
  obtain ⟨aHat, hA, hv⟩ := bind_ok_inv hv
  obtain ⟨w1t, hw, hv⟩ := bind_ok_inv hv
  rw [pure_eq] at hv
  have e := ok_inj hv
  simp only [Bool.and_eq_true, decide_eq_true_eq] at e
  exact ⟨c, aHat, w1t, hc, hA, hw, e.1, e.2⟩

/-- **changing the hint needs a hash collision**: two signatures with the same `(c~, z)` and different hints that both pass
    Algorithm 8 under the same key and message exhibit two different inputs on which the hash oracle agrees -/
theorem hint_change_needs_collision (m : Mode) (O : Oracles) (hO : OracleOk O) (ctest : Bool) (p : ParamSet) (blz : Nat) (cfg : VerCfg p blz)
    (rho tr : List Nat) (t1 : List Poly) (hrho : rho.length = 32) (ht1 : Sh p.k t1)
    (msg sig sig' ctx oid phm : List Nat) (nist : Bool)
    (hb : ∀ x ∈ sig, x < 256) (hlen : sig.length = p.sigLen) (hb' : ∀ x ∈ sig', x < 256) (hlen' : sig'.length = p.sigLen)
    (cT : List Nat) (z h h' : List Poly)
    (hd : sigDecode m p sig = .ok (some (cT, z, h))) (hd' : sigDecode m p sig' = .ok (some (cT, z, h'))) (hne : h ≠ h')
    (hv : verifySpec m O ctest p rho tr t1 msg sig ctx oid phm nist = .ok true)
    (hv' : verifySpec m O ctest p rho tr t1 msg sig' ctx oid phm nist = .ok true) :
    ∃ x x', x ≠ x' ∧ O.h x p.lambdaDiv4 = O.h x' p.lambdaDiv4 := by
  obtain ⟨c, aHat, w1t, hc, hA, hw, _, hcT⟩ := verifySpec_true_inv m O ctest p rho tr t1 msg sig ctx oid phm nist cT z h hd hv
  obtain ⟨c', aHat', w1t', hc', hA', hw', _, hcT'⟩ := verifySpec_true_inv m O ctest p rho tr t1 msg sig' ctx oid phm nist cT z h' hd' hv'
  rw [hc] at hc'; have := ok_inj hc'; subst this
  rw [hA] at hA'; have := ok_inj hA'; subst this
  obtain ⟨r, hr, hprops⟩ := sigDecode_ok m p blz cfg.sig sig hb hlen
  rw [hd] at hr
  obtain ⟨_, c2, c3, c4, c5⟩ := hprops cT z h (ok_inj hr).symm
  obtain ⟨r', hr', hprops'⟩ := sigDecode_ok m p blz cfg.sig sig' hb' hlen'
  rw [hd'] at hr'
  obtain ⟨_, _, _, c4', c5'⟩ := hprops' cT z h' (ok_inj hr').symm
  have hcl : c.length = 256 := by
    rcases sampleInBall_np' m O hO false p.tau cT cfg.tau with ⟨v, hv0, hp⟩ | ⟨s, hs⟩
    · rw [hc] at hv0; have := ok_inj hv0; subst this; exact hp.1.1
    · rw [hc] at hs; cases hs
  have hAsh : aHat.length = p.k ∧ ∀ row ∈ aHat, ∀ a ∈ row, a.length = 256 := by
    rcases expandA_np m O hO ctest p rho hrho with ⟨v, hv0, hp⟩ | ⟨s, hs⟩
    · rw [hA] at hv0; have := ok_inj hv0; subst this
      exact ⟨hp.1, fun row hrow a ha => ((hp.2 row hrow).2 a ha).1⟩
    · rw [hA] at hs; cases hs
  have hwa := wApproxS_sh p.k aHat z c t1 hAsh (fun u hu => (c3 u hu).1) hcl ht1
  have hgg : p.gamma2 = 95232 ∨ p.gamma2 = 261888 := by
    rcases cfg.g2 with ⟨h, _⟩ | ⟨h, _⟩
    · exact Or.inl h
    · exact Or.inr h
  have shW : ∀ (hh : List Poly), Sh p.k hh →
      Sh p.k (List.zipWith (fun hp wp => List.zipWith (fun hh r => Spec.useHint p.gamma2 hh r) hp wp) hh (wApproxS aHat z c t1)) ∧
      ∀ q ∈ List.zipWith (fun hp wp => List.zipWith (fun hh r => Spec.useHint p.gamma2 hh r) hp wp) hh (wApproxS aHat z c t1),
        ∀ x ∈ q, 0 ≤ x ∧ x ≤ (Q - 1) / (2 * p.gamma2) - 1 := by
    intro hh hsh
    refine ⟨⟨by rw [List.length_zipWith, hsh.1, hwa.1]; exact Nat.min_self _, fun q hq => ?_⟩, fun q hq x hx => ?_⟩
    · obtain ⟨a, ha, b, hb0, hqe⟩ := mem_zipWith' (fun hp wp => List.zipWith (fun hh r => Spec.useHint p.gamma2 hh r) hp wp) hh _ q hq
      rw [hqe, List.length_zipWith, hsh.2 a ha, hwa.2 b hb0]; rfl
    · obtain ⟨a, ha, b, hb0, hqe⟩ := mem_zipWith' (fun hp wp => List.zipWith (fun hh r => Spec.useHint p.gamma2 hh r) hp wp) hh _ q hq
      rw [hqe] at hx
      obtain ⟨a', _, b', _, hxe⟩ := mem_zipWith' (fun hh r => Spec.useHint p.gamma2 hh r) a b x hx
      rw [hxe]
      exact useHint_range p.gamma2 a' b' hgg
  have hhS : Sh p.k h := ⟨c4, fun q hq => (c5 q hq).1⟩
  have hhS' : Sh p.k h' := ⟨c4', fun q hq => (c5' q hq).1⟩
  refine ⟨_, _, ?_, hcT.symm.trans hcT'⟩
  intro heq
  have hw1 : w1t = w1t' := List.append_cancel_left heq
  rw [← hw1] at hw'
  have := w1Encode_inj m p cfg.g2 _ _ (shW h hhS).1 (shW h' hhS').1 (shW h hhS).2 (shW h' hhS').2 w1t hw hw'
  exact hne (useHint_vec_inj p.gamma2 hgg p.k h h' _ hhS hhS' hwa c5 c5' this)

theorem muOf_length (O : Oracles) (hO : OracleOk O) (a b : Nat) (tr msg ctx oid phm : List Nat) (nist : Bool) :
    (muOf O a b tr msg ctx oid phm nist).length = 64 := by
  unfold muOf
  split
  · exact hO.hlen _ _
  · split <;> exact hO.hlen _ _

/-- acceptance implies the signature decodes -/
theorem verifySpec_true_decodes (m : Mode) (O : Oracles) (ctest : Bool) (p : ParamSet) (rho tr : List Nat) (t1 : List Poly)
    (msg sig ctx oid phm : List Nat) (nist : Bool)
    (hv : verifySpec m O ctest p rho tr t1 msg sig ctx oid phm nist = .ok true) :
    ∃ cT z h, sigDecode m p sig = .ok (some (cT, z, h)) := by
  unfold verifySpec at hv
  obtain ⟨r, hr, hv⟩ := bind_ok_inv hv
  cases r with
  | none => simp only [pure_eq] at hv; have := ok_inj hv; simp at this
  | some t => obtain ⟨cT, z, h⟩ := t; exact ⟨cT, z, h, hr⟩

/-- **changing anything that enters `mu` needs a hash collision**: if the same signature passes Algorithm 8 under two sets of public
    inputs whose message representatives differ, the commitment hash collides on two different inputs -/
theorem mu_change_needs_collision (m : Mode) (O : Oracles) (hO : OracleOk O) (ctest : Bool) (p : ParamSet)
    (rho tr rho' tr' : List Nat) (t1 t1' : List Poly) (msg msg' sig ctx ctx' oid oid' phm phm' : List Nat) (nist nist' : Bool)
    (hmu : muOf O domPure_verify domHash_verify tr msg ctx oid phm nist ≠ muOf O domPure_verify domHash_verify tr' msg' ctx' oid' phm' nist')
    (hv : verifySpec m O ctest p rho tr t1 msg sig ctx oid phm nist = .ok true)
    (hv' : verifySpec m O ctest p rho' tr' t1' msg' sig ctx' oid' phm' nist' = .ok true) :
    ∃ x x', x ≠ x' ∧ O.h x p.lambdaDiv4 = O.h x' p.lambdaDiv4 := by
  obtain ⟨cT, z, h, hd⟩ := verifySpec_true_decodes m O ctest p rho tr t1 msg sig ctx oid phm nist hv
  obtain ⟨c, aHat, w1t, _, _, _, _, hcT⟩ := verifySpec_true_inv m O ctest p rho tr t1 msg sig ctx oid phm nist cT z h hd hv
  obtain ⟨c', aHat', w1t', _, _, _, _, hcT'⟩ := verifySpec_true_inv m O ctest p rho' tr' t1' msg' sig ctx' oid' phm' nist' cT z h hd hv'
  refine ⟨_, _, ?_, hcT.symm.trans hcT'⟩
  intro heq
  exact hmu (List.append_inj heq (by rw [muOf_length O hO, muOf_length O hO])).1

end Fips204.Impl
