import Fips204.Spec.Arith
import Fips204.Lemmas.Arith
/-! UseHint(MakeHint(z, r), r) = HighBits(r + z) for |z| ≤ gamma2 (FIPS 204, Lemma behind Algorithms 39/40). -/
namespace Fips204.Spec
open Fips204 Fips204.Gen

theorem useHint_zero (g r : Int) : useHint g 0 r = highBits g r := by
  unfold useHint highBits
  simp

theorem dec65 (r : Int) : ∃ rp r0 : Int, rp = r % 8380417 ∧ -261888 < r0 ∧ r0 ≤ 261888 ∧ (rp - r0) % 523776 = 0 ∧
    decompose 261888 r = (if rp - r0 = 8380416 then (0, r0 - 1) else ((rp - r0) / 523776, r0)) := by
  unfold decompose modpm
  simp only [Q]
  refine ⟨_, _, rfl, ?_, ?_, ?_, rfl⟩ <;> (split <;> omega)

theorem hint_changed_65 (r z : Int) (hz : -261888 ≤ z ∧ z ≤ 261888) (hne : highBits 261888 r ≠ highBits 261888 (r + z)) :
    useHint 261888 1 r = highBits 261888 (r + z) := by
  obtain ⟨rp, r0, hrp, a1, a2, a3, ha⟩ := dec65 r
  obtain ⟨sp, s0, hsp, b1, b2, b3, hb⟩ := dec65 (r + z)
  unfold useHint highBits at *
  rw [ha] at hne ⊢
  rw [hb] at hne ⊢
  have h1 : 0 ≤ rp ∧ rp < 8380417 := by omega
  have h2 : 0 ≤ sp ∧ sp < 8380417 := by omega
  have h3 : sp = rp + z ∨ sp = rp + z - 8380417 ∨ sp = rp + z + 8380417 := by omega
  clear hrp hsp ha hb
  simp only [Q, true_and]
  have hm : ((8380417 : Int) - 1) / (2 * 261888) = 16 := by decide
  rw [hm]
  by_cases c1 : rp - r0 = 8380416 <;> by_cases c2 : sp - s0 = 8380416
  · simp only [c1, c2, if_true] at hne ⊢; omega
  · simp only [c1, c2, if_true, if_false] at hne ⊢
    split <;> omega
  · simp only [c1, c2, if_true, if_false] at hne ⊢
    split <;> omega
  · simp only [c1, c2, if_false] at hne ⊢
    split <;> omega

theorem dec44 (r : Int) : ∃ rp r0 : Int, rp = r % 8380417 ∧ -95232 < r0 ∧ r0 ≤ 95232 ∧ (rp - r0) % 190464 = 0 ∧
    decompose 95232 r = (if rp - r0 = 8380416 then (0, r0 - 1) else ((rp - r0) / 190464, r0)) := by
  unfold decompose modpm
  simp only [Q]
  refine ⟨_, _, rfl, ?_, ?_, ?_, rfl⟩ <;> (split <;> omega)

theorem hint_changed_44 (r z : Int) (hz : -95232 ≤ z ∧ z ≤ 95232) (hne : highBits 95232 r ≠ highBits 95232 (r + z)) :
    useHint 95232 1 r = highBits 95232 (r + z) := by
  obtain ⟨rp, r0, hrp, a1, a2, a3, ha⟩ := dec44 r
  obtain ⟨sp, s0, hsp, b1, b2, b3, hb⟩ := dec44 (r + z)
  unfold useHint highBits at *
  rw [ha] at hne ⊢
  rw [hb] at hne ⊢
  have h1 : 0 ≤ rp ∧ rp < 8380417 := by omega
  have h2 : 0 ≤ sp ∧ sp < 8380417 := by omega
  have h3 : sp = rp + z ∨ sp = rp + z - 8380417 ∨ sp = rp + z + 8380417 := by omega
  clear hrp hsp ha hb
  simp only [Q, true_and]
  have hm : ((8380417 : Int) - 1) / (2 * 95232) = 44 := by decide
  rw [hm]
  by_cases c1 : rp - r0 = 8380416 <;> by_cases c2 : sp - s0 = 8380416
  · simp only [c1, c2, if_true] at hne ⊢; omega
  · simp only [c1, c2, if_true, if_false] at hne ⊢
    split <;> omega
  · simp only [c1, c2, if_true, if_false] at hne ⊢
    split <;> omega
  · simp only [c1, c2, if_false] at hne ⊢
    split <;> omega

/-- **UseHint(MakeHint(z, r), r) = HighBits(r + z)** for every `r` and every `|z| ≤ gamma2`, both values of `gamma2` -/
theorem hint_duality (g r z : Int) (hg : g = 95232 ∨ g = 261888) (hz : -g ≤ z ∧ z ≤ g) :
    useHint g (if makeHint g z r then 1 else 0) r = highBits g (r + z) := by
  cases hm : makeHint g z r with
  | false =>
    simp only [Bool.false_eq_true, if_false]
    rw [useHint_zero]
    unfold makeHint at hm
    simpa using hm
  | true =>
    simp only [if_true]
    unfold makeHint at hm
    have hne : highBits g r ≠ highBits g (r + z) := by simpa using hm
    rcases hg with rfl | rfl
    · exact hint_changed_44 r z hz hne
    · exact hint_changed_65 r z hz hne

/-- **small perturbations do not change the high bits when the low bits are small**: if `|LowBits(r)| < gamma2 - b` and
    `|s| ≤ b` then `HighBits(r + s) = HighBits(r)` (why the signer's `r0` test makes `w1` recoverable) -/
theorem highBits_stable (g r s b : Int) (hg : g = 95232 ∨ g = 261888) (hb : 0 ≤ b ∧ b ≤ g) (hs : -b ≤ s ∧ s ≤ b)
    (hl : -(g - b) < lowBits g r ∧ lowBits g r < g - b) : highBits g (r + s) = highBits g r := by
  rcases hg with rfl | rfl
  · obtain ⟨rp, r0, hrp, a1, a2, a3, ha⟩ := dec44 r
    obtain ⟨sp, s0, hsp, b1, b2, b3, hb'⟩ := dec44 (r + s)
    unfold highBits lowBits at *
    rw [ha] at hl ⊢
    rw [hb']
    have h3 : sp = rp + s ∨ sp = rp + s - 8380417 ∨ sp = rp + s + 8380417 := by omega
    have h1 : 0 ≤ rp ∧ rp < 8380417 := by omega
    have h2 : 0 ≤ sp ∧ sp < 8380417 := by omega
    clear hrp hsp ha hb'
    by_cases c1 : rp - r0 = 8380416 <;> by_cases c2 : sp - s0 = 8380416
    · simp only [c1, c2, if_true]
    · simp only [c1, c2, if_true, if_false] at hl ⊢; omega
    · simp only [c1, c2, if_true, if_false] at hl ⊢; omega
    · simp only [c1, c2, if_false] at hl ⊢; omega
  · obtain ⟨rp, r0, hrp, a1, a2, a3, ha⟩ := dec65 r
    obtain ⟨sp, s0, hsp, b1, b2, b3, hb'⟩ := dec65 (r + s)
    unfold highBits lowBits at *
    rw [ha] at hl ⊢
    rw [hb']
    have h3 : sp = rp + s ∨ sp = rp + s - 8380417 ∨ sp = rp + s + 8380417 := by omega
    have h1 : 0 ≤ rp ∧ rp < 8380417 := by omega
    have h2 : 0 ≤ sp ∧ sp < 8380417 := by omega
    clear hrp hsp ha hb'
    by_cases c1 : rp - r0 = 8380416 <;> by_cases c2 : sp - s0 = 8380416
    · simp only [c1, c2, if_true]
    · simp only [c1, c2, if_true, if_false] at hl ⊢; omega
    · simp only [c1, c2, if_true, if_false] at hl ⊢; omega
    · simp only [c1, c2, if_false] at hl ⊢; omega

end Fips204.Spec
