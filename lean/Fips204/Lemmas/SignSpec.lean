import Fips204.Lemmas.KeygenSpec
/-! Signing equals Algorithm 7 written with exact arithmetic modulo q (`signSpec`). -/
namespace Fips204.Impl
open Fips204 Fips204.Gen Fips204.K

/-! ### the scalar functions depend only on the residue class -/

theorem decompose_mod (g a b : Int) (h : a % Q = b % Q) : Spec.decompose g a = Spec.decompose g b := by
  unfold Spec.decompose; rw [h]

theorem lowBits_pr32 (g x : Int) (h1 : -2143289344 < x) (h2 : x < 2143289344) : Spec.lowBits g (pr32 x) = Spec.lowBits g x := by
  unfold Spec.lowBits
  rw [decompose_mod g (pr32 x) x (by have := (pr32_spec x h1 h2).1; simp only [Q]; omega)]

theorem highBits_mod (g a b : Int) (h : a % Q = b % Q) : Spec.highBits g a = Spec.highBits g b := by
  unfold Spec.highBits; rw [decompose_mod g a b h]

theorem makeHint_pr32 (g c0 x : Int) (h1 : -2143289344 < x) (h2 : x < 2143289344) :
    Spec.makeHint g (Q - c0) (pr32 x) = Spec.makeHint g (-c0) x := by
  unfold Spec.makeHint
  have e := (pr32_spec x h1 h2).1
  rw [highBits_mod g (pr32 x) x (by simp only [Q]; omega), highBits_mod g (pr32 x + (Q - c0)) (x + -c0) (by simp only [Q]; omega)]

theorem modpm_pr32 (x : Int) (h1 : -2143289344 < x) (h2 : x < 2143289344) : modpm Q (pr32 x) = modpm Q x := by
  have e := (pr32_spec x h1 h2).1
  unfold modpm
  have : pr32 x % Q = x % Q := by simp only [Q]; omega
  rw [this]

theorem modpm_idem (x : Int) : modpm Q (modpm Q x) = modpm Q x := by
  unfold modpm; simp only [Q]; split <;> split <;> omega

/-! ### `c * s` from the stored form, exactly -/

/-- `c * s mod q`, canonical representatives of the negacyclic product -/
def cmul (c s : Poly) : Poly := canon (negMul c s)

theorem mulInv_spec (m : Mode) (site : String) (c ch : Poly) (s sh : List Poly) (lc : c.length = 256) (hc : Bnd 524288 c)
    (hs : ∀ q ∈ s, q.length = 256 ∧ Bnd 524288 q) (hch : nttPoly m c = .ok ch) (hsh : nttMont m s = .ok sh) :
    mulInv m site ch sh = .ok (s.map (cmul c)) := by
  obtain ⟨ch', sh', r, e1, e2, e3, e4, e5⟩ := mulInv_sem m site c s lc hc hs
  rw [hch] at e1; rw [hsh] at e2
  have := ok_inj e1; subst this
  have := ok_inj e2; subst this
  rw [e3]
  congr 1
  apply List.ext_getElem (by rw [e4, List.length_map])
  intro i h1 h2
  rw [List.getElem_map]
  have hi : i < s.length := by rw [← e4]; exact h1
  obtain ⟨cr, sr⟩ := e5 i h1 hi
  exact can_eq_of_cong _ _ (sr.trans (canon_cong _).symm) cr (canon_can _)

/-! ### one attempt of Algorithm 7, exact arithmetic -/

/-- `w = NTT^-1(A_hat ∘ NTT(y))`, canonical representatives -/
def commitS (aHat : List (List Poly)) (y : List Poly) : List Poly :=
  aHat.map (fun row => canon ((invS 8 1 (rowS row y zeroPoly)).map (fun x => FS * x)))

/-- lines 11-29 of Algorithm 7 for one value of kappa; `none` = `(z, h) = ⊥` -/
def attemptSpec (m : Mode) (O : Oracles) (p : ParamSet) (s1 s2 t0 : List Poly) (aHat : List (List Poly))
    (mu rhoPP : List Nat) (kappa : Int) : M (Option (List Nat × List Poly × List Poly)) := do
  let y ← expandMask m O p rhoPP kappa
  let w := commitS aHat y
  let w1 := w.map (fun q => q.map (Spec.highBits p.gamma2))
  let w1t ← w1Encode m p w1 p.w1Len
  let cTilde := O.h (mu ++ w1t) p.lambdaDiv4
  let c ← sampleInBall m O false p.tau cTilde
  let cs1 := s1.map (cmul c)
  let cs2 := s2.map (cmul c)
  let z := List.zipWith (fun yp cp => List.zipWith (fun a b => modpm Q (a + b)) yp cp) y cs1
  let r0 := List.zipWith (fun wp cp => List.zipWith (fun a b => Spec.lowBits p.gamma2 (a - b)) wp cp) w cs2
  if decide (normInfS z ≥ p.gamma1 - p.beta) || decide (normInfS r0 ≥ p.gamma2 - p.beta) then pure none else
  let ct0 := t0.map (cmul c)
  let h := zw3L (fun a b c0 => if Spec.makeHint p.gamma2 (-c0) (a - b + c0) then (1 : Int) else 0) w cs2 ct0
  if decide (normInfS ct0 ≥ p.gamma2) || decide (((onesAll h : Nat) : Int) > p.omega) then pure none else
  pure (some (cTilde, z, h))
where
  zw3L (g : Int → Int → Int → Int) (a b c : List Poly) : List Poly :=
    List.zipWith (fun ap (bc : Poly × Poly) => zw3 g ap bc.1 bc.2) a (List.zip b c)

/-- centre the response of an attempt's result -/
def centerRes (r : Option (List Nat × List Poly × List Poly)) : Option (List Nat × List Poly × List Poly) :=
  r.map (fun t => (t.1, t.2.1.map (fun q => q.map (modpm Q)), t.2.2))

theorem zipWith3M_pureL (f : Poly → Poly → Poly → M Poly) (g : Int → Int → Int → Int) (P P' P'' : Poly → Prop)
    (hf : ∀ a b c, P a → P' b → P'' c → f a b c = .ok (zw3 g a b c)) :
    ∀ (l l' l'' : List Poly), (∀ a ∈ l, P a) → (∀ b ∈ l', P' b) → (∀ c ∈ l'', P'' c) →
      zipWith3M f l l' l'' = .ok (attemptSpec.zw3L g l l' l'') := by
  intro l
  induction l with
  | nil => intro l' l'' _ _ _; simp [zipWith3M, attemptSpec.zw3L, pure_eq]
  | cons a as ih =>
    intro l' l'' h h' h''
    cases l' with
    | nil => simp [zipWith3M, attemptSpec.zw3L, pure_eq]
    | cons b bs =>
      cases l'' with
      | nil => simp [zipWith3M, attemptSpec.zw3L, pure_eq]
      | cons c cs =>
        simp only [zipWith3M]
        rw [hf a b c (h a (List.mem_cons_self ..)) (h' b (List.mem_cons_self ..)) (h'' c (List.mem_cons_self ..)), ok_bind,
          ih bs cs (fun x hx => h x (List.mem_cons_of_mem _ hx)) (fun x hx => h' x (List.mem_cons_of_mem _ hx)) (fun x hx => h'' x (List.mem_cons_of_mem _ hx)),
          ok_bind, pure_eq]
        simp [attemptSpec.zw3L]

theorem normInfS_center (z : List Poly) (hz : ∀ q ∈ z, ∀ x ∈ q, ∃ y, x = pr32 y ∧ -2143289344 < y ∧ y < 2143289344) :
    normInfS z = normInfS (z.map (fun q => q.map (modpm Q))) := by
  unfold normInfS
  have : (z.map (fun q => q.map (modpm Q))).flatten.map (fun e => absI (modpm Q e)) = z.flatten.map (fun e => absI (modpm Q e)) := by
    rw [← List.map_flatten, List.map_map]
    apply List.map_congr_left
    intro e _
    simp only [Function.comp, modpm_idem]
  rw [this]

theorem zipWith_congr_on {α β γ} (f g : α → β → γ) : ∀ (l : List α) (l' : List β), (∀ a ∈ l, ∀ b ∈ l', f a b = g a b) →
    List.zipWith f l l' = List.zipWith g l l' := by
  intro l
  induction l with
  | nil => intro l' _; simp
  | cons a as ih =>
    intro l' h
    cases l' with
    | nil => simp
    | cons b bs =>
      rw [List.zipWith_cons_cons, List.zipWith_cons_cons, h a (List.mem_cons_self ..) b (List.mem_cons_self ..),
        ih bs (fun x hx y hy => h x (List.mem_cons_of_mem _ hx) y (List.mem_cons_of_mem _ hy))]

theorem zw3_congr_on (f g : Int → Int → Int → Int) (a b c : List Int) (h : ∀ x ∈ a, ∀ y ∈ b, ∀ z ∈ c, f x y z = g x y z) :
    zw3 f a b c = zw3 g a b c := by
  unfold zw3
  exact zipWith_congr_on _ _ a (List.zip b c) (fun x hx yz hyz => h x hx yz.1 (List.of_mem_zip hyz).1 yz.2 (List.of_mem_zip hyz).2)

theorem zw3L_congr_on (f g : Int → Int → Int → Int) (a b c : List Poly)
    (h : ∀ p ∈ a, ∀ q ∈ b, ∀ r ∈ c, ∀ x ∈ p, ∀ y ∈ q, ∀ z ∈ r, f x y z = g x y z) : attemptSpec.zw3L f a b c = attemptSpec.zw3L g a b c := by
  unfold attemptSpec.zw3L
  exact zipWith_congr_on _ _ a (List.zip b c) (fun p hp qr hqr =>
    zw3_congr_on f g p qr.1 qr.2 (fun x hx y hy z hz => h p hp qr.1 (List.of_mem_zip hqr).1 qr.2 (List.of_mem_zip hqr).2 x hx y hy z hz))

theorem zw3L_props (g : Int → Int → Int → Int) (a b c : List Poly) (n : Nat) (ha : Sh n a) (hb : Sh n b) (hc : Sh n c)
    (hg : ∀ x y z, g x y z = 0 ∨ g x y z = 1) : Sh n (attemptSpec.zw3L g a b c) ∧ ∀ q ∈ attemptSpec.zw3L g a b c, Bin q := by
  unfold attemptSpec.zw3L
  have key : ∀ q ∈ List.zipWith (fun ap (bc : Poly × Poly) => zw3 g ap bc.1 bc.2) a (List.zip b c), Bin q := by
    intro q hq
    obtain ⟨ap, hap, bc, hbc, rfl⟩ := mem_zipWith' _ _ _ q hq
    have h1 := (List.of_mem_zip hbc).1
    have h2 := (List.of_mem_zip hbc).2
    refine ⟨by unfold zw3; rw [List.length_zipWith, List.length_zip, ha.2 ap hap, hb.2 _ h1, hc.2 _ h2]; rfl, fun x hx => ?_⟩
    obtain ⟨e, _, a', _, u, _, rfl⟩ := zw3_mem g _ _ _ x hx
    exact hg _ _ _
  exact ⟨⟨by rw [List.length_zipWith, List.length_zip, ha.1, hb.1, hc.1]; simp, fun q hq => (key q hq).1⟩, key⟩

/-- what the signer needs of a private-key struct *in terms of the vectors it represents* -/
structure SkOf (m : Mode) (p : ParamSet) (sk : PrivateKey) (s1 s2 t0 : List Poly) : Prop where
  rho : sk.rho.length = 32
  v1 : VecIn p.l (-p.eta) p.eta s1
  v2 : VecIn p.k (-p.eta) p.eta s2
  v0 : VecIn p.k (-4095) 4096 t0
  n1 : nttMont m s1 = .ok sk.s1
  n2 : nttMont m s2 = .ok sk.s2
  n0 : nttMont m t0 = .ok sk.t0

/-- **one attempt of the signing loop is lines 11-29 of Algorithm 7** (the response is returned uncentred by the crate
    and centred by the specification; everything else is equal) -/
theorem signAttempt_eq_spec (m : Mode) (O : Oracles) (hO : OracleOk O) (p : ParamSet) (blz : Nat) (cfg : VerCfg p blz) (hk : 1 ≤ p.k ∧ p.k ≤ 8)
    (he : p.eta = 2 ∨ p.eta = 4) (sk : PrivateKey) (s1 s2 t0 : List Poly) (hsk : SkOf m p sk s1 s2 t0) (aHat : List (List Poly))
    (hA : aHat.length = p.k ∧ ∀ row ∈ aHat, row.length = p.l ∧ ∀ q ∈ row, q.length = 256 ∧ Res q)
    (mu rhoPP : List Nat) (kappa : Int) (hkap : 0 ≤ kappa ∧ kappa + p.l ≤ 65536) :
    (signAttempt m O false p sk aHat mu rhoPP kappa >>= fun r => pure (centerRes r)) = attemptSpec m O p s1 s2 t0 aHat mu rhoPP kappa := by
  obtain ⟨_, _, _, _, _, hz1, hz2, hg1, hg2, _⟩ := gamma1_facts m p blz cfg.sig
  have hl7 := cfg.l7
  have hl1 := cfg.sig.l1
  have hbeta := cfg.beta
  have eta4 : 0 ≤ p.eta ∧ p.eta ≤ 4 := by rcases he with h | h <;> omega
  have hgg : G2 p.gamma2 := by
    rcases cfg.g2 with ⟨h, _⟩ | ⟨h, _⟩
    · exact Or.inl h
    · exact Or.inr h
  have hg2r : 95232 ≤ p.gamma2 ∧ p.gamma2 ≤ 261888 := by rcases hgg with h | h <;> rw [h] <;> omega
  unfold signAttempt attemptSpec
  simp only [bind_assoc]
  -- y
  refine bind_congr_on (NoPanic.of_ok (expandMask_ok m O hO p blz cfg.sig rhoPP kappa hkap (by omega))) (fun y hy => ?_)
  obtain ⟨ysh, yr⟩ := hy
  have yB : ∀ w ∈ y, Bnd 524288 w := fun w hw x hx => by have := yr w hw x hx; omega
  have hAA : ∀ row ∈ aHat, y.length = row.length ∧ row.length ≤ 7 ∧ ∀ q ∈ row, Res q :=
    fun row hrow => ⟨by rw [ysh.1, (hA.2 row hrow).1], by rw [(hA.2 row hrow).1]; exact hl7, fun q hq => ((hA.2 row hrow).2 q hq).2⟩
  -- w
  obtain ⟨yh, hyh, byh⟩ := ntt_ok m y yB
  have bsy : ∀ w ∈ yh, Bnd 67000000 w := fun w hw => (byh w hw).mono (by omega)
  have bum : ∀ w ∈ toMontP yh, Bnd 16760833 w := by
    intro w hw x hx
    unfold toMontP at hw
    obtain ⟨q, hq, rfl⟩ := List.mem_map.mp hw
    obtain ⟨y', hy', rfl⟩ := List.mem_map.mp hx
    have hb := bsy q hq y' hy'
    have := pr64s_spec y' hb.1 hb.2
    omega
  have hmv := matVecMul_pure m aHat yh 7 (fun row hrow => ⟨(hAA row hrow).2.1, (hAA row hrow).2.2⟩) bsy (by omega)
  have hinv : invNtt m (matP aHat yh) = .ok (commitS aHat y) := by
    unfold invNtt matP commitS
    exact commitRows_spec m y yh (by unfold ntt at hyh; exact hyh) yB bum aHat hAA
  have shw : Sh p.k (commitS aHat y) := by
    have s1sh := ntt_sh m p.l y yh ysh hyh
    have smv := matVecMul_sh m aHat yh (matP aHat yh) p.k p.l hA.1 (fun row hrow q hq => ((hA.2 row hrow).2 q hq).1) s1sh hmv
    exact invNtt_sh m p.k _ _ smv hinv
  have bw : ∀ q ∈ commitS aHat y, Can q := by
    intro q hq
    unfold commitS at hq
    obtain ⟨row, _, rfl⟩ := List.mem_map.mp hq
    exact canon_can _
  rw [hyh, ok_bind, hmv, ok_bind, hinv, ok_bind]
  -- w1
  have hw1 : (commitS aHat y).mapM (fun q : Poly => q.mapM (high_bits m p.gamma2)) = .ok ((commitS aHat y).map (fun q => q.map (Spec.highBits p.gamma2))) :=
    mapM_pure _ _ _ (fun q hq => mapM_pure _ _ q (fun x hx => high_bits_eq m p.gamma2 x hgg (by have := bw q hq x hx; omega) (by have := bw q hq x hx; omega)))
  rw [hw1, ok_bind]
  have hw1r : ∀ q ∈ (commitS aHat y).map (fun q => q.map (Spec.highBits p.gamma2)), q.length = 256 ∧ ∀ x ∈ q, 0 ≤ x ∧ x ≤ (Q - 1) / (2 * p.gamma2) - 1 := by
    intro q hq
    obtain ⟨q0, hq0, rfl⟩ := List.mem_map.mp hq
    refine ⟨by rw [List.length_map]; exact shw.2 q0 hq0, fun x hx => ?_⟩
    obtain ⟨x0, _, rfl⟩ := List.mem_map.mp hx
    unfold Spec.highBits
    rcases hgg with h | h
    · rw [h]; have := spec_decompose_r1_44 x0; have e : ((Q:Int) - 1) / (2 * 95232) - 1 = 43 := by decide
      rw [e]; exact this
    · rw [h]; have := spec_decompose_r1_65 x0; have e : ((Q:Int) - 1) / (2 * 261888) - 1 = 15 := by decide
      rw [e]; exact this
  obtain ⟨w1t, hw1t⟩ := w1Encode_ok m p cfg.g2 _ ⟨by rw [List.length_map]; exact shw.1, fun q hq => (hw1r q hq).1⟩ (fun q hq => (hw1r q hq).2)
  rw [hw1t, ok_bind, ok_bind]
  -- c
  refine bind_congr_on (sampleInBall_np m O hO false p.tau _ cfg.tau) (fun c hc => ?_)
  obtain ⟨ch, hch, bch, cch⟩ := nttPoly_sem m c c (CongL.refl c) (hc.2.mono (by omega))
  rw [ntt_single m c ch hch, ok_bind]
  simp only [idx, List.getElem?_cons_zero, pure_eq, ok_bind]
  have cB : Bnd 524288 c := hc.2.mono (by omega)
  have hs1 : ∀ q ∈ s1, q.length = 256 ∧ Bnd 524288 q := fun q hq => ⟨hsk.v1.1.2 q hq, fun x hx => by have := hsk.v1.2 q hq x hx; omega⟩
  have hs2 : ∀ q ∈ s2, q.length = 256 ∧ Bnd 524288 q := fun q hq => ⟨hsk.v2.1.2 q hq, fun x hx => by have := hsk.v2.2 q hq x hx; omega⟩
  have hs0 : ∀ q ∈ t0, q.length = 256 ∧ Bnd 524288 q := fun q hq => ⟨hsk.v0.1.2 q hq, fun x hx => by have := hsk.v0.2 q hq x hx; omega⟩
  rw [mulInv_spec m _ c ch s1 sk.s1 hc.1 cB hs1 hch hsk.n1, ok_bind, mulInv_spec m _ c ch s2 sk.s2 hc.1 cB hs2 hch hsk.n2, ok_bind]
  have cmulCan : ∀ (s : List Poly), ∀ q ∈ s.map (cmul c), Can q := by
    intro s q hq
    obtain ⟨q0, _, rfl⟩ := List.mem_map.mp hq
    exact canon_can _
  -- z (uncentred in the crate)
  have hz : zipWithM (fun yp cp => zipWithM (fun a b => do
      let s ← arith .i32 m "ml_dsa.rs:sign_internal:y+cs1" (a + b)
      partial_reduce32 m s) yp cp) y (s1.map (cmul c)) =
      .ok (List.zipWith (fun yp cp => List.zipWith (fun a b => pr32 (a + b)) yp cp) y (s1.map (cmul c))) :=
    zipWithM_pure _ _ (Bnd 524288) Can
      (fun yp cp hyp hcp => zipWithM_pure _ _ (fun a => -524288 ≤ a ∧ a ≤ 524288) (fun b => 0 ≤ b ∧ b < 8380417)
        (fun a b ha hb => by
          rw [arith_i32 _ _ _ (by omega) (by omega), ok_bind]
          exact partial_reduce32_eq m _ (by omega) (by omega)) yp cp hyp hcp) y _ yB (cmulCan s1)
  rw [hz, ok_bind]
  -- r0
  have hr0 : zipWithM (fun wp cp => zipWithM (fun a b => do
      let s ← arith .i32 m "ml_dsa.rs:sign_internal:w-cs2" (a - b)
      let r ← partial_reduce32 m s
      low_bits m p.gamma2 r) wp cp) (commitS aHat y) (s2.map (cmul c)) =
      .ok (List.zipWith (fun wp cp => List.zipWith (fun a b => Spec.lowBits p.gamma2 (a - b)) wp cp) (commitS aHat y) (s2.map (cmul c))) := by
    rw [zipWithM_pure _ (fun wp cp => List.zipWith (fun a b => Spec.lowBits p.gamma2 (pr32 (a - b))) wp cp) Can Can
      (fun wp cp hwp hcp => zipWithM_pure _ _ (fun a => 0 ≤ a ∧ a < 8380417) (fun b => 0 ≤ b ∧ b < 8380417)
        (fun a b ha hb => by
          have hp := pr32_spec (a - b) (by omega) (by omega)
          rw [arith_i32 _ _ _ (by omega) (by omega), ok_bind, partial_reduce32_eq m _ (by omega) (by omega), ok_bind]
          exact low_bits_eq m p.gamma2 _ hgg (by omega) (by omega)) wp cp hwp hcp) _ _ bw (cmulCan s2)]
    congr 1
    exact zipWith_congr_on _ _ _ _ (fun wp hwp cp hcp => zipWith_congr_on _ _ wp cp (fun a ha b hb => by
      have h1 := bw wp hwp a ha
      have h2 := cmulCan s2 cp hcp b hb
      exact lowBits_pr32 p.gamma2 (a - b) (by omega) (by omega)))
  rw [hr0, ok_bind]
  -- shapes
  have shcs1 : Sh p.l (s1.map (cmul c)) := ⟨by rw [List.length_map]; exact hsk.v1.1.1, fun q hq => by
    obtain ⟨q0, hq0, rfl⟩ := List.mem_map.mp hq
    unfold cmul canon; rw [List.length_map]; exact negMul_length c q0 hc.1 (hsk.v1.1.2 q0 hq0)⟩
  have shcs2 : Sh p.k (s2.map (cmul c)) := ⟨by rw [List.length_map]; exact hsk.v2.1.1, fun q hq => by
    obtain ⟨q0, hq0, rfl⟩ := List.mem_map.mp hq
    unfold cmul canon; rw [List.length_map]; exact negMul_length c q0 hc.1 (hsk.v2.1.2 q0 hq0)⟩
  have shct0 : Sh p.k (t0.map (cmul c)) := ⟨by rw [List.length_map]; exact hsk.v0.1.1, fun q hq => by
    obtain ⟨q0, hq0, rfl⟩ := List.mem_map.mp hq
    unfold cmul canon; rw [List.length_map]; exact negMul_length c q0 hc.1 (hsk.v0.1.2 q0 hq0)⟩
  -- the two lists for z
  have hzshape : ∀ (f : Int → Int → Int), Sh p.l (List.zipWith (fun yp cp => List.zipWith f yp cp) y (s1.map (cmul c))) := by
    intro f
    refine ⟨by rw [List.length_zipWith, ysh.1, shcs1.1]; exact Nat.min_self _, fun q hq => ?_⟩
    obtain ⟨a, ha, b, hb, rfl⟩ := mem_zipWith' _ _ _ q hq
    rw [List.length_zipWith, ysh.2 a ha, shcs1.2 b hb]; rfl
  have hzmap : (List.zipWith (fun yp cp => List.zipWith (fun a b => pr32 (a + b)) yp cp) y (s1.map (cmul c))).map (fun q => q.map (modpm Q)) =
      List.zipWith (fun yp cp => List.zipWith (fun a b => modpm Q (a + b)) yp cp) y (s1.map (cmul c)) := by
    rw [List.map_zipWith]
    exact zipWith_congr_on _ _ _ _ (fun yp hyp cp hcp => by
      rw [List.map_zipWith]
      exact zipWith_congr_on _ _ yp cp (fun a ha b hb => by
        have h1 := yB yp hyp a ha
        have h2 := cmulCan s1 cp hcp b hb
        exact modpm_pr32 (a + b) (by omega) (by omega)))
  have hzdom : ∀ q ∈ List.zipWith (fun yp cp => List.zipWith (fun a b => pr32 (a + b)) yp cp) y (s1.map (cmul c)), Dom q := by
    intro q hq
    obtain ⟨yp, hyp, cp, hcp, rfl⟩ := mem_zipWith' _ _ _ q hq
    intro x hx
    obtain ⟨a, ha, b, hb, rfl⟩ := mem_zipWith' _ _ _ x hx
    have h1 := yB yp hyp a ha
    have h2 := cmulCan s1 cp hcp b hb
    have := pr32_spec (a + b) (by omega) (by omega)
    omega
  have hznorm : normInfS (List.zipWith (fun yp cp => List.zipWith (fun a b => pr32 (a + b)) yp cp) y (s1.map (cmul c))) =
      normInfS (List.zipWith (fun yp cp => List.zipWith (fun a b => modpm Q (a + b)) yp cp) y (s1.map (cmul c))) := by
    rw [← hzmap]
    exact normInfS_center _ (fun q hq x hx => by
      obtain ⟨yp, hyp, cp, hcp, rfl⟩ := mem_zipWith' _ _ _ q hq
      obtain ⟨a, ha, b, hb, rfl⟩ := mem_zipWith' _ _ _ x hx
      have h1 := yB yp hyp a ha
      have h2 := cmulCan s1 cp hcp b hb
      exact ⟨a + b, rfl, by omega, by omega⟩)
  have hr0dom : ∀ q ∈ List.zipWith (fun wp cp => List.zipWith (fun a b => Spec.lowBits p.gamma2 (a - b)) wp cp) (commitS aHat y) (s2.map (cmul c)), Dom q := by
    intro q hq
    obtain ⟨wp, _, cp, _, rfl⟩ := mem_zipWith' _ _ _ q hq
    intro x hx
    obtain ⟨a, _, b, _, rfl⟩ := mem_zipWith' _ _ _ x hx
    have := lowBits_range p.gamma2 (a - b) hgg
    omega
  have hr0sh : Sh p.k (List.zipWith (fun wp cp => List.zipWith (fun a b => Spec.lowBits p.gamma2 (a - b)) wp cp) (commitS aHat y) (s2.map (cmul c))) := by
    refine ⟨by rw [List.length_zipWith, shw.1, shcs2.1]; exact Nat.min_self _, fun q hq => ?_⟩
    obtain ⟨a, ha, b, hb, rfl⟩ := mem_zipWith' _ _ _ q hq
    rw [List.length_zipWith, shw.2 a ha, shcs2.2 b hb]; rfl
  rw [infinityNorm_pure m _ (flatten_ne p.l _ hl1 (hzshape _)) hzdom, ok_bind,
    infinityNorm_pure m _ (flatten_ne p.k _ hk.1 hr0sh) hr0dom, ok_bind,
    arith_i32 _ _ _ (by omega) (by omega), ok_bind, arith_i32 _ _ _ (by omega) (by omega), ok_bind, hznorm]
  simp only [Bool.not_false, Bool.true_and]
  by_cases hrej : (decide (normInfS (List.zipWith (fun yp cp => List.zipWith (fun a b => modpm Q (a + b)) yp cp) y (s1.map (cmul c))) ≥ p.gamma1 - p.beta) ||
      decide (normInfS (List.zipWith (fun wp cp => List.zipWith (fun a b => Spec.lowBits p.gamma2 (a - b)) wp cp) (commitS aHat y) (s2.map (cmul c))) ≥ p.gamma2 - p.beta)) = true
  · rw [if_pos hrej, if_pos hrej]; simp only [pure_eq, ok_bind]; rfl
  · rw [if_neg hrej, if_neg hrej, mulInv_spec m _ c ch t0 sk.t0 hc.1 cB hs0 hch hsk.n0]
    simp only [ok_bind]
    -- the hint
    have hh : zipWith3M (fun wp c2p c0p => zipWith3M (fun a b c0 => do
        let qc ← arith .i32 m "ml_dsa.rs:sign_internal:Q-ct0" (Q - c0)
        let s1 ← arith .i32 m "ml_dsa.rs:sign_internal:w-cs2" (a - b)
        let s2 ← arith .i32 m "ml_dsa.rs:sign_internal:w-cs2+ct0" (s1 + c0)
        let r ← partial_reduce32 m s2
        let hb ← make_hint m p.gamma2 qc r
        pure (if hb then (1 : Int) else 0)) wp c2p c0p) (commitS aHat y) (s2.map (cmul c)) (t0.map (cmul c)) =
        .ok (attemptSpec.zw3L (fun a b c0 => if Spec.makeHint p.gamma2 (-c0) (a - b + c0) then (1 : Int) else 0) (commitS aHat y) (s2.map (cmul c)) (t0.map (cmul c))) := by
      rw [zipWith3M_pureL _ (fun a b c0 => if Spec.makeHint p.gamma2 (Q - c0) (pr32 (a - b + c0)) then (1 : Int) else 0) Can Can Can
        (fun wp c2p c0p hwp hc2 hc0 => zipWith3M_pure _ _ (fun a => 0 ≤ a ∧ a < 8380417) (fun b => 0 ≤ b ∧ b < 8380417) (fun c0 => 0 ≤ c0 ∧ c0 < 8380417)
          (fun a b c0 ha hb hc' => by
            have hp := pr32_spec (a - b + c0) (by omega) (by omega)
            simp only [Q] at *
            rw [arith_i32 _ _ _ (by omega) (by omega), ok_bind, arith_i32 _ _ _ (by omega) (by omega), ok_bind,
              arith_i32 _ _ _ (by omega) (by omega), ok_bind, partial_reduce32_eq m _ (by omega) (by omega), ok_bind,
              make_hint_eq m p.gamma2 _ _ hgg (by omega) (by omega) (by omega) (by omega), ok_bind, pure_eq]) wp c2p c0p hwp hc2 hc0)
        _ _ _ bw (cmulCan s2) (cmulCan t0)]
      congr 1
      exact zw3L_congr_on _ _ _ _ _ (fun wp hwp c2p hc2 c0p hc0 a ha b hb c0 hc0' => by
        have h1 := bw wp hwp a ha
        have h2 := cmulCan s2 c2p hc2 b hb
        have h3 := cmulCan t0 c0p hc0 c0 hc0'
        rw [makeHint_pr32 p.gamma2 c0 (a - b + c0) (by omega) (by omega)])
    simp only [pure_eq] at hh
    rw [hh]
    simp only [ok_bind, Bool.false_eq_true, if_false]
    obtain ⟨shh, hbin⟩ := zw3L_props (fun a b c0 => if Spec.makeHint p.gamma2 (-c0) (a - b + c0) then (1 : Int) else 0) _ _ _ p.k shw shcs2 shct0
      (fun x y z => by split <;> simp)
    have hct0dom : ∀ q ∈ t0.map (cmul c), Dom q := fun q hq x hx => by have := cmulCan t0 q hq x hx; omega
    have hoa := onesAll_le _ hbin
    rw [shh.1] at hoa
    have hoa2 : onesAll (attemptSpec.zw3L (fun a b c0 => if Spec.makeHint p.gamma2 (-c0) (a - b + c0) then (1 : Int) else 0) (commitS aHat y) (s2.map (cmul c)) (t0.map (cmul c))) ≤ 2048 := by
      have : p.k * 256 ≤ 8 * 256 := Nat.mul_le_mul_right _ hk.2
      omega
    rw [infinityNorm_pure m _ (flatten_ne p.k _ hk.1 shct0) hct0dom, hsum_ok m _ 0 hbin (by omega) (by omega)]
    simp only [ok_bind, Int.zero_add]
    split
    · simp only [pure_eq, ok_bind]; rfl
    · simp only [pure_eq, ok_bind]
      unfold centerRes
      simp only [Option.map_some]
      rw [hzmap]

/-! ### the loop and Algorithm 7 -/

/-- the rejection loop of Algorithm 7 over `attemptSpec`; `kappa` is the 16-bit counter stepped by `l` -/
def loopSpec (m : Mode) (O : Oracles) (p : ParamSet) (s1 s2 t0 : List Poly) (aHat : List (List Poly)) (mu rhoPP : List Nat) :
    Nat → Int → Nat → M (List Nat × List Poly × List Poly × Nat)
  | 0, _, _ => throw (Fault.fuel "ml_dsa.rs:sign_internal:loop")
  | fuel + 1, kappa, it => do
    match ← attemptSpec m O p s1 s2 t0 aHat mu rhoPP kappa with
    | some (c, z, h) => pure (c, z, h, it + 1)
    | none =>
      if p.l > 65535 then throw (Fault.expect "ml_dsa.rs:sign_internal:u16::try_from(L)") else
      let k' ← arith .u16 m "ml_dsa.rs:sign_internal:kappa_ctr+=L" (kappa + Int.ofNat p.l)
      loopSpec m O p s1 s2 t0 aHat mu rhoPP fuel k' (it + 1)

/-- Algorithm 7 (ML-DSA.Sign_internal) with exact arithmetic, on the vectors `(s1, s2, t0)` a private key represents -/
def signSpec (m : Mode) (O : Oracles) (p : ParamSet) (fuel : Nat) (rho key tr : List Nat) (s1 s2 t0 : List Poly)
    (msg ctx oid phm rnd : List Nat) (nist : Bool) : M SignOut := do
  let aHat ← expandA m O false p rho
  let mu := muOf O domPure_sign domHash_sign tr msg ctx oid phm nist
  let rhoPP := O.h (key ++ rnd ++ mu) 64
  let (cTilde, z, h, it) ← loopSpec m O p s1 s2 t0 aHat mu rhoPP fuel 0 0
  let sig ← sigEncode m false p cTilde z h
  pure { sig := sig, iters := it }

def centerLoop (r : List Nat × List Poly × List Poly × Nat) : List Nat × List Poly × List Poly × Nat :=
  (r.1, r.2.1.map (fun q => q.map (modpm Q)), r.2.2.1, r.2.2.2)

theorem signLoop_eq_spec (m : Mode) (O : Oracles) (hO : OracleOk O) (p : ParamSet) (blz : Nat) (cfg : VerCfg p blz) (hk : 1 ≤ p.k ∧ p.k ≤ 8)
    (he : p.eta = 2 ∨ p.eta = 4) (sk : PrivateKey) (s1 s2 t0 : List Poly) (hsk : SkOf m p sk s1 s2 t0) (aHat : List (List Poly))
    (hA : aHat.length = p.k ∧ ∀ row ∈ aHat, row.length = p.l ∧ ∀ q ∈ row, q.length = 256 ∧ Res q) (mu rhoPP : List Nat) :
    ∀ (fuel : Nat) (kappa : Int) (it : Nat), 0 ≤ kappa → kappa + fuel * p.l ≤ 65535 →
      (signLoop m O false p sk aHat mu rhoPP fuel kappa it >>= fun r => pure (centerLoop r)) = loopSpec m O p s1 s2 t0 aHat mu rhoPP fuel kappa it := by
  intro fuel
  induction fuel with
  | zero => intro kappa it _ _; rfl
  | succ fuel ih =>
    intro kappa it hk0 hroom
    have hmul : ((fuel + 1 : Nat) : Int) * p.l = fuel * p.l + p.l := by rw [Int.natCast_add, Int.add_mul]; simp
    have hfl : (0:Int) ≤ (fuel : Int) * p.l := Int.mul_nonneg (Int.natCast_nonneg _) (Int.natCast_nonneg _)
    have hl0 : (0:Int) ≤ Int.ofNat p.l := Int.natCast_nonneg _
    unfold signLoop loopSpec
    rw [← signAttempt_eq_spec m O hO p blz cfg hk he sk s1 s2 t0 hsk aHat hA mu rhoPP kappa ⟨hk0, by omega⟩]
    simp only [bind_assoc]
    congr 1
    funext r
    rw [pure_eq, ok_bind]
    cases r with
    | some t =>
      obtain ⟨c, z, h⟩ := t
      simp only [centerRes, Option.map_some, pure_eq, ok_bind]
      rfl
    | none =>
      simp only [centerRes, Option.map_none]
      have hl7 := cfg.l7
      rw [if_neg (by omega), if_neg (by omega)]
      have hk' : arith .u16 m "ml_dsa.rs:sign_internal:kappa_ctr+=L" (kappa + Int.ofNat p.l) = .ok (kappa + Int.ofNat p.l) :=
        arith_ok _ _ _ _ (by simp only [IT.lo]; omega) (by simp only [IT.hi]; show kappa + (p.l : Int) ≤ 65535; omega)
      rw [hk', ok_bind, ok_bind]
      exact ih (kappa + Int.ofNat p.l) (it + 1) (by omega) (by show kappa + (p.l : Int) + fuel * p.l ≤ 65535; omega)

/-- **`sign_internal` is Algorithm 7**: on a struct representing `(s1, s2, t0)`, for every message, context, pre-hash and
    randomness, within `fuel * l ≤ 65535` attempts -/
theorem signInternal_eq_spec (m : Mode) (O : Oracles) (hO : OracleOk O) (p : ParamSet) (blz : Nat) (cfg : VerCfg p blz) (hk : 1 ≤ p.k ∧ p.k ≤ 8)
    (he : p.eta = 2 ∨ p.eta = 4) (fuel : Nat) (hfuel : fuel * p.l ≤ 65535) (sk : PrivateKey) (s1 s2 t0 : List Poly) (hsk : SkOf m p sk s1 s2 t0)
    (hok : SkOk p sk) (msg ctx oid phm rnd : List Nat) (nist : Bool) :
    signInternal m O false p fuel sk msg ctx oid phm rnd nist = signSpec m O p fuel sk.rho sk.key sk.tr s1 s2 t0 msg ctx oid phm rnd nist := by
  unfold signInternal signSpec
  refine bind_congr_on (expandA_np m O hO false p sk.rho hsk.rho) (fun aHat hA => ?_)
  simp only []
  have hfl : ((fuel * p.l : Nat) : Int) ≤ 65535 := Int.ofNat_le.mpr hfuel
  rw [Int.natCast_mul] at hfl
  rw [← signLoop_eq_spec m O hO p blz cfg hk he sk s1 s2 t0 hsk aHat hA _ _ fuel 0 0 (by omega) (by omega), bind_assoc]
  refine bind_congr_on (signLoop_np m O hO p blz cfg hk sk hok aHat hA _ _ fuel 0 0 (by omega) (by omega)) (fun r hr => ?_)
  obtain ⟨ct, z, h, it⟩ := r
  obtain ⟨c1, c2, c3, c4, c5, c6⟩ := hr ct z h rfl
  rw [pure_eq, ok_bind]
  simp only [centerLoop]
  have hzm : z.mapM (fun q : Poly => q.mapM (center_mod m)) = .ok (z.map (fun q => q.map (modpm Q))) :=
    mapM_pure _ _ z (fun q hq => mapM_pure _ _ q (fun e he' => center_mod_eq m e ((c3 q hq).1 e he').1 ((c3 q hq).1 e he').2))
  rw [hzm, ok_bind]

end Fips204.Impl
