import Fips204.Impl.Pack
import Fips204.Lemmas.Arith
import Fips204.Lemmas.NttBounds
import Fips204.Lemmas.Digits
/-!
  `bit_unpack` never faults and produces exactly 256 coefficients, each `b - field` (or `field` when a = 0) for a
  `bitlen`-bit field: the streaming accumulator (`temp`, `bit_index`) invariant, for every byte string.
-/
namespace Fips204.Impl
open Fips204 Fips204.Gen

theorem bor32_comm (x y : Int) : bor .i32 x y = bor .i32 y x := by
  unfold bor; rw [Nat.or_comm]

theorem mask_cast (k : Nat) : ((2:Int) ^ k - 1) = (((2:Nat) ^ k - 1 : Nat) : Int) := by
  have h : 1 ≤ (2:Nat) ^ k := Nat.one_le_two_pow
  rw [Int.natCast_sub h]; simp

/-- coefficient range produced from a `bl`-bit field -/
def fieldOk (a b : Int) (bl : Nat) (c : Int) : Prop :=
  if a = 0 then 0 ≤ c ∧ c ≤ 2 ^ bl - 1 else b - (2 ^ bl - 1) ≤ c ∧ c ≤ b

/-- the `bl`-bit field a coefficient was decoded from (and is encoded to) -/
def fld (a b : Int) (c : Int) : Nat := if a = 0 then c.toNat else (b - c).toNat

/-- value held by the decoder state: fields popped so far, then the accumulator above them -/
def uval (a b : Int) (bl : Nat) (t : Nat) (out : List Int) : Nat :=
  valR (2 ^ bl) (out.map (fld a b)) + t * (2 ^ bl) ^ out.length

theorem uval_pop (a b : Int) (bl : Nat) (t : Nat) (out : List Int) (c : Int) (hc : fld a b c = t % 2 ^ bl) :
    uval a b bl (t / 2 ^ bl) (c :: out) = uval a b bl t out := by
  unfold uval
  simp only [List.map_cons, valR, List.length_cons, List.length_map, hc, Nat.pow_succ]
  have := Nat.div_add_mod t (2 ^ bl)
  generalize t / 2 ^ bl = q at *
  generalize t % 2 ^ bl = r at *
  subst this
  grind

/-- draining the accumulator: no fault, the bit count is conserved, every coefficient comes from a `bl`-bit field -/
theorem drainCoeffs_ok (m : Mode) (a b : Int) (bl : Nat) (hbl : 1 ≤ bl ∧ bl ≤ 20) (hb : 0 ≤ b ∧ b < 1048576) :
    ∀ (fuel : Nat) (t bi : Nat) (out : List Int), t < 2 ^ bi → bi < (fuel + 1) * bl → bi ≤ 27 →
      (∀ c ∈ out, fieldOk a b bl c) →
      ∃ (t' bi' : Nat) (out' : List Int), drainCoeffs m a b bl fuel (t : Int) bi out = .ok ((t' : Int), bi', out') ∧
        t' < 2 ^ bi' ∧ bi' < bl ∧ out'.length * bl + bi' = out.length * bl + bi ∧ (∀ c ∈ out', fieldOk a b bl c) ∧
        uval a b bl t' out' = uval a b bl t out := by
  intro fuel
  induction fuel with
  | zero =>
    intro t bi out ht hbi _ hout
    exact ⟨t, bi, out, by simp [drainCoeffs, pure, Except.pure], ht, by omega, rfl, hout, rfl⟩
  | succ fuel ih =>
    intro t bi out ht hbi hbi27 hout
    by_cases hge : bi ≥ bl
    · -- one coefficient is popped
      have hp : (2:Nat) ^ bi = 2 ^ bl * 2 ^ (bi - bl) := by rw [← Nat.pow_add]; congr 1; omega
      have hbl31 : bl ≤ 31 := by omega
      have ht27 : t < 2 ^ 27 := Nat.lt_of_lt_of_le ht (Nat.pow_le_pow_right (by decide) hbi27)
      have hmask := band32_low (t : Int) bl hbl31 (by omega) (by omega)
      rw [← mask_cast] at hmask
      have hmod : t % 2 ^ bl < 2 ^ bl := Nat.mod_lt _ (by have := Nat.one_le_two_pow (n := bl); omega)
      have hpl : (2:Nat) ^ bl ≤ 2 ^ 20 := Nat.pow_le_pow_right (by decide) hbl.2
      have hdiv : t / 2 ^ bl < 2 ^ (bi - bl) := by
        apply Nat.div_lt_of_lt_mul; rw [← hp]; exact ht
      have hcast : ((t : Int)) / 2 ^ bl = ((t / 2 ^ bl : Nat) : Int) := by simp
      have hfo : ∀ c, c = ((t % 2 ^ bl : Nat) : Int) ∨ c = b - ((t % 2 ^ bl : Nat) : Int) → True := fun _ _ => trivial
      by_cases ha : a = 0
      · have hc : fieldOk a b bl ((t % 2 ^ bl : Nat) : Int) := by
          unfold fieldOk; rw [if_pos ha]
          have e : ((2:Int) ^ bl - 1) = (((2:Nat) ^ bl - 1 : Nat) : Int) := mask_cast bl
          rw [e]; constructor
          · exact Int.natCast_nonneg _
          · exact Int.ofNat_le.mpr (by omega)
        obtain ⟨t', bi', out', hr, h1, h2, h3, h4, h5⟩ := ih (t / 2 ^ bl) (bi - bl) (((t % 2 ^ bl : Nat) : Int) :: out) hdiv
          (by have : (fuel + 1 + 1) * bl = (fuel + 1) * bl + bl := by rw [Nat.add_mul, Nat.one_mul]
              omega) (by omega)
          (fun c hc' => by rcases List.mem_cons.mp hc' with rfl | h; exact hc; exact hout c h)
        have hfl : fld a b ((t % 2 ^ bl : Nat) : Int) = t % 2 ^ bl := by unfold fld; rw [if_pos ha]; exact Int.toNat_natCast _
        refine ⟨t', bi', out', ?_, h1, h2, ?_, h4, by rw [h5]; exact uval_pop a b bl t out _ hfl⟩
        · simp only [drainCoeffs, if_pos hge, hmask, Int.toNat_natCast, if_pos ha, pure_eq, ok_bind, hcast]
          exact hr
        · simp only [List.length_cons] at h3
          rw [h3, Nat.add_mul, Nat.one_mul]; omega
      · have hcv : -2147483648 ≤ b - ((t % 2 ^ bl : Nat) : Int) ∧ b - ((t % 2 ^ bl : Nat) : Int) ≤ 2147483647 := by
          have : ((t % 2 ^ bl : Nat) : Int) < 1048577 := by
            have : t % 2 ^ bl < 1048577 := by omega
            exact Int.ofNat_lt.mpr this
          have h0 : (0:Int) ≤ ((t % 2 ^ bl : Nat) : Int) := Int.natCast_nonneg _
          omega
        have hc : fieldOk a b bl (b - ((t % 2 ^ bl : Nat) : Int)) := by
          unfold fieldOk; rw [if_neg ha]
          have e : ((2:Int) ^ bl - 1) = (((2:Nat) ^ bl - 1 : Nat) : Int) := mask_cast bl
          rw [e]
          have h0 : (0:Int) ≤ ((t % 2 ^ bl : Nat) : Int) := Int.natCast_nonneg _
          have h1 : ((t % 2 ^ bl : Nat) : Int) ≤ (((2:Nat) ^ bl - 1 : Nat) : Int) := Int.ofNat_le.mpr (by omega)
          omega
        obtain ⟨t', bi', out', hr, h1, h2, h3, h4, h5⟩ := ih (t / 2 ^ bl) (bi - bl) ((b - ((t % 2 ^ bl : Nat) : Int)) :: out) hdiv
          (by have : (fuel + 1 + 1) * bl = (fuel + 1) * bl + bl := by rw [Nat.add_mul, Nat.one_mul]
              omega) (by omega)
          (fun c hc' => by rcases List.mem_cons.mp hc' with rfl | h; exact hc; exact hout c h)
        have hfl : fld a b (b - ((t % 2 ^ bl : Nat) : Int)) = t % 2 ^ bl := by
          unfold fld; rw [if_neg ha]
          have : b - (b - ((t % 2 ^ bl : Nat) : Int)) = ((t % 2 ^ bl : Nat) : Int) := by omega
          rw [this]; exact Int.toNat_natCast _
        refine ⟨t', bi', out', ?_, h1, h2, ?_, h4, by rw [h5]; exact uval_pop a b bl t out _ hfl⟩
        · simp only [drainCoeffs, if_pos hge, hmask, Int.toNat_natCast, if_neg ha, arith_i32 _ _ _ hcv.1 hcv.2, ok_bind, hcast]
          exact hr
        · simp only [List.length_cons] at h3
          rw [h3, Nat.add_mul, Nat.one_mul]; omega
    · exact ⟨t, bi, out, by simp [drainCoeffs, hge, pure, Except.pure], ht, by omega, rfl, hout, rfl⟩

end Fips204.Impl

namespace Fips204.Impl
open Fips204 Fips204.Gen

/-- accumulator invariant after `n` input bytes -/
def UInv (a b : Int) (bl n N : Nat) (st : Int × Nat × List Int) : Prop :=
  ∃ t : Nat, st.1 = (t : Int) ∧ t < 2 ^ st.2.1 ∧ st.2.1 < bl ∧ st.2.2.length * bl + st.2.1 = 8 * n ∧ (∀ c ∈ st.2.2, fieldOk a b bl c) ∧
    uval a b bl t st.2.2 = N

theorem unpackStep_ok (m : Mode) (a b : Int) (bl : Nat) (hbl : 1 ≤ bl ∧ bl ≤ 20) (hb : 0 ≤ b ∧ b < 1048576)
    (n N : Nat) (st : Int × Nat × List Int) (byte : Nat) (hinv : UInv a b bl n N st) (hbyte : byte < 256)
    (hn : 8 * (n + 1) ≤ 256 * bl) :
    ∃ st', unpackStep m a b bl st byte = .ok st' ∧ UInv a b bl (n + 1) (N + byte * 2 ^ (8 * n)) st' := by
  obtain ⟨temp, bi, out⟩ := st
  obtain ⟨t, ht, htlt, hbi, hcnt, hout, hval⟩ := hinv
  simp only at ht htlt hbi hcnt hout hval
  subst ht
  have hbi19 : bi ≤ 19 := by omega
  have hp19 : (2:Nat) ^ bi ≤ 2 ^ 19 := Nat.pow_le_pow_right (by decide) hbi19
  have hpos : 1 ≤ (2:Nat) ^ bi := Nat.one_le_two_pow
  -- the shift
  have hsh : shl .i32 m "conversion.rs:bit_unpack:<<bit_index" (Int.ofNat byte) (bi : Int) = .ok (((byte * 2 ^ bi : Nat)) : Int) := by
    unfold shl
    have hc : (0:Int) ≤ (bi : Int) ∧ (bi : Int) < (IT.i32.bits : Int) := by
      constructor
      · exact Int.natCast_nonneg _
      · show (bi : Int) < ((32 : Nat) : Int); exact Int.ofNat_lt.mpr (by omega)
    rw [if_pos hc]
    have e : ((bi : Int)).toNat = bi := Int.toNat_natCast _
    rw [e]
    have hv : (Int.ofNat byte) * 2 ^ bi = ((byte * 2 ^ bi : Nat) : Int) := by simp
    rw [hv, wrap32_id _ (by omega) (by
      have : byte * 2 ^ bi ≤ 255 * 2 ^ 19 := Nat.mul_le_mul (by omega) hp19
      have : ((byte * 2 ^ bi : Nat) : Int) ≤ ((255 * 2 ^ 19 : Nat) : Int) := Int.ofNat_le.mpr this
      have e2 : ((255 * 2 ^ 19 : Nat) : Int) = 133693440 := by decide
      omega)]
    rfl
  have hsum : byte * 2 ^ bi + t ≤ 2147483647 := by
    have : byte * 2 ^ bi ≤ 255 * 2 ^ 19 := Nat.mul_le_mul (by omega) hp19
    have e2 : 255 * 2 ^ 19 = 133693440 := by decide
    have : t < 2 ^ 19 + 1 := by omega
    have e3 : 2 ^ 19 = 524288 := by decide
    omega
  have hbor : bor .i32 (t : Int) (((byte * 2 ^ bi : Nat)) : Int) = ((byte * 2 ^ bi + t : Nat) : Int) := by
    rw [bor32_comm]; exact bor32_disjoint byte t bi htlt hsum
  have hnew : byte * 2 ^ bi + t < 2 ^ (bi + 8) := by
    clear hval
    rw [Nat.pow_add]
    have e8 : (2:Nat) ^ 8 = 256 := by decide
    rw [e8]
    have : byte * 2 ^ bi ≤ 255 * 2 ^ bi := Nat.mul_le_mul_right _ (by omega)
    have : 2 ^ bi * 256 = 255 * 2 ^ bi + 2 ^ bi := by rw [Nat.mul_comm]; omega
    omega
  obtain ⟨t', bi', out', hr, h1, h2, h3, h4, h5⟩ := drainCoeffs_ok m a b bl hbl hb 8 (byte * 2 ^ bi + t) (bi + 8) out hnew
    (by have : (8 + 1) * bl = 8 * bl + bl := by rw [Nat.add_mul, Nat.one_mul]
        omega) (by omega) hout
  have hlen : out'.length ≤ 256 := by
    have h5 : out'.length * bl ≤ 256 * bl := by omega
    exact Nat.le_of_mul_le_mul_right h5 (by omega)
  have hv' : uval a b bl t' out' = N + byte * 2 ^ (8 * n) := by
    rw [h5, ← hval, ← hcnt]
    unfold uval
    rw [Nat.pow_add, Nat.pow_mul]
    have e : ((2:Nat) ^ out.length) ^ bl = (2 ^ bl) ^ out.length := by rw [← Nat.pow_mul, ← Nat.pow_mul, Nat.mul_comm]
    rw [e]; grind
  refine ⟨((t' : Int), bi', out'), ?_, ⟨t', rfl, h1, h2, by simp only; omega, h4, hv'⟩⟩
  unfold unpackStep
  simp only [hsh, ok_bind, hbor, hr, if_neg (show ¬ out'.length > 256 by omega), pure_eq]

theorem unpackFold_ok (m : Mode) (a b : Int) (bl : Nat) (hbl : 1 ≤ bl ∧ bl ≤ 20) (hb : 0 ≤ b ∧ b < 1048576) :
    ∀ (v : List Nat) (n N : Nat) (st : Int × Nat × List Int), UInv a b bl n N st → (∀ x ∈ v, x < 256) →
      8 * (n + v.length) ≤ 256 * bl →
      ∃ st', v.foldlM (unpackStep m a b bl) st = .ok st' ∧ UInv a b bl (n + v.length) (N + 2 ^ (8 * n) * numF 256 v) st' := by
  intro v
  induction v with
  | nil => intro n N st h _ _; exact ⟨st, by simp [pure, Except.pure], by simpa [numF] using h⟩
  | cons x xs ih =>
    intro n N st h hv hn
    simp only [List.length_cons] at hn
    obtain ⟨st1, hs1, hi1⟩ := unpackStep_ok m a b bl hbl hb n N st x h (hv x (List.mem_cons_self ..)) (by omega)
    obtain ⟨st2, hs2, hi2⟩ := ih (n + 1) _ st1 hi1 (fun y hy => hv y (List.mem_cons_of_mem _ hy)) (by omega)
    refine ⟨st2, ?_, ?_⟩
    · rw [List.foldlM_cons, hs1]; exact hs2
    · simp only [List.length_cons]
      have e1 : n + (xs.length + 1) = n + 1 + xs.length := by omega
      have e2 : N + 2 ^ (8 * n) * numF 256 (x :: xs) = N + x * 2 ^ (8 * n) + 2 ^ (8 * (n + 1)) * numF 256 xs := by
        simp only [numF]
        rw [show 8 * (n + 1) = 8 * n + 8 by omega, Nat.pow_add]
        grind
      rw [e1, e2]; exact hi2

/-- **`bit_unpack` on any byte string of the right length**: the accumulator loop never faults and yields exactly 256
    coefficients, each coming from one `bl`-bit field; what remains is the final range test -/
theorem bitUnpack_shape (m : Mode) (v : List Nat) (a b : Int) (bl : Nat) (ha : 0 ≤ a ∧ a < 1048576) (hb : 1 ≤ b ∧ b < 1048576)
    (hbl : bitLen m (a + b) = .ok bl) (hbl2 : 1 ≤ bl ∧ bl ≤ 20) (hv : ∀ x ∈ v, x < 256) (hlen : v.length = 32 * bl) :
    ∃ w : List Int, w.length = 256 ∧ (∀ c ∈ w, fieldOk a b bl c) ∧ numF (2 ^ bl) (w.map (fld a b)) = numF 256 v ∧
      bitUnpack m v a b = (do let ok ← isInRange m w a b; if ok then pure (some w) else pure none) := by
  have h0 : UInv a b bl 0 0 ((0 : Int), 0, []) := ⟨0, rfl, by simp, by show 0 < bl; omega, by simp, by simp, by simp [uval, valR]⟩
  obtain ⟨st', hfold, hinv⟩ := unpackFold_ok m a b bl hbl2 ⟨by omega, hb.2⟩ v 0 0 (0, 0, []) h0 hv (by omega)
  obtain ⟨temp, bi, out⟩ := st'
  obtain ⟨t, _, htlt, hbi, hcnt, hout, hval⟩ := hinv
  simp only at htlt hbi hcnt hout hval
  have hlen256 : out.length = 256 := by
    rw [hlen] at hcnt
    have h1 : out.length * bl ≤ 256 * bl := by omega
    have h2 : out.length ≤ 256 := Nat.le_of_mul_le_mul_right h1 (by omega)
    have h3 : 255 * bl < out.length * bl := by
      have : 256 * bl = 255 * bl + bl := by rw [show 256 = 255 + 1 from rfl, Nat.add_mul, Nat.one_mul]
      omega
    have h4 : 255 < out.length := Nat.lt_of_mul_lt_mul_right h3
    omega
  have hbi0 : bi = 0 := by
    rw [hlen256, hlen] at hcnt; omega
  have ht0 : t = 0 := by rw [hbi0] at htlt; simpa using htlt
  have hvalue : numF (2 ^ bl) (out.reverse.map (fld a b)) = numF 256 v := by
    rw [ht0] at hval
    unfold uval at hval
    simp only [Nat.zero_mul, Nat.add_zero, Nat.mul_zero, Nat.pow_zero, Nat.one_mul, Nat.zero_add] at hval
    rw [List.map_reverse, ← valR_eq_numF_reverse, hval]
  refine ⟨out.reverse, by simp [hlen256], fun c hc => hout c (List.mem_reverse.mp hc), hvalue, ?_⟩
  unfold bitUnpack
  have d1 : dassert m "conversion.rs:bit_unpack:debug_assert(Alg 19: a out of range)" (decide (0 ≤ a) && decide (a < 1048576)) = .ok () := by
    have : (decide (0 ≤ a) && decide (a < 1048576)) = true := by simp [ha.1, ha.2]
    rw [this]; cases m <;> rfl
  have d2 : dassert m "conversion.rs:bit_unpack:debug_assert(Alg 19: b out of range)" (decide (1 ≤ b) && decide (b < 1048576)) = .ok () := by
    have : (decide (1 ≤ b) && decide (b < 1048576)) = true := by simp [hb.1, hb.2]
    rw [this]; cases m <;> rfl
  have d3 : dassert m "conversion.rs:bit_unpack:debug_assert_eq(Alg 19: bad output size)" (v.length == 32 * bl) = .ok () := by
    have : (v.length == 32 * bl) = true := by simp [hlen]
    rw [this]; cases m <;> rfl
  have hne : ¬ bl = 0 := by omega
  have hpad : out.reverse ++ List.replicate (256 - out.reverse.length) 0 = out.reverse := by simp [hlen256]
  simp only [d1, d2, ok_bind, arith_i32 _ _ _ (show (-2147483648:Int) ≤ a + b by omega) (show a + b ≤ 2147483647 by omega), hbl, d3,
    if_neg hne, hfold, hpad]

/-- `bit_unpack` never faults, whatever the bytes -/
theorem bitUnpack_no_fault (m : Mode) (v : List Nat) (a b : Int) (bl : Nat) (ha : 0 ≤ a ∧ a < 1048576) (hb : 1 ≤ b ∧ b < 1048576)
    (hbl : bitLen m (a + b) = .ok bl) (hbl2 : 1 ≤ bl ∧ bl ≤ 20) (hv : ∀ x ∈ v, x < 256) (hlen : v.length = 32 * bl) :
    ∃ r, bitUnpack m v a b = .ok r := by
  obtain ⟨w, _, _, _, he⟩ := bitUnpack_shape m v a b bl ha hb hbl hbl2 hv hlen
  rw [he]
  unfold isInRange
  rw [arith_i32 _ _ _ (by omega) (by omega)]
  simp only [ok_bind, pure_eq]
  split <;> exact ⟨_, rfl⟩

/-- when `a + b + 1 = 2^bitlen` (every pair except (eta, eta) and (0, 43)) **every** byte string is accepted -/
theorem bitUnpack_total (m : Mode) (v : List Nat) (a b : Int) (bl : Nat) (ha : 0 ≤ a ∧ a < 1048576) (hb : 1 ≤ b ∧ b < 1048576)
    (hbl : bitLen m (a + b) = .ok bl) (hbl2 : 1 ≤ bl ∧ bl ≤ 20) (hpow : a + b + 1 = 2 ^ bl)
    (hv : ∀ x ∈ v, x < 256) (hlen : v.length = 32 * bl) :
    ∃ w : List Int, bitUnpack m v a b = .ok (some w) ∧ w.length = 256 ∧ ∀ c ∈ w, -a ≤ c ∧ c ≤ b := by
  obtain ⟨w, hw, hf, _, he⟩ := bitUnpack_shape m v a b bl ha hb hbl hbl2 hv hlen
  have hr : ∀ c ∈ w, -a ≤ c ∧ c ≤ b := by
    intro c hc
    have := hf c hc
    unfold fieldOk at this
    split at this <;> omega
  refine ⟨w, ?_, hw, hr⟩
  rw [he]
  unfold isInRange
  rw [arith_i32 _ _ _ (by omega) (by omega)]
  have hall : (w.all fun e => decide (e ≥ -a) && decide (e ≤ b)) = true := by
    rw [List.all_eq_true]; intro c hc
    have := hr c hc
    simp [this.1, this.2]
  simp only [ok_bind, pure_eq, hall, if_true]

end Fips204.Impl
