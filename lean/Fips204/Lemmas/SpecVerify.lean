/-
  Lemmas.SpecVerify — `verify_internal` is FIPS 204 Algorithm 8 as the standard writes it (`Spec/MlDsa.lean`), from the public-key bytes.
-/
import Fips204.Spec.MlDsa
import Fips204.Lemmas.SpecEncode
import Fips204.Lemmas.SpecSample
import Fips204.Lemmas.SpecNtt
import Fips204.Props.C02b
namespace Fips204.Impl
open Fips204 Fips204.Gen Fips204.K

/-- the crate's parameter record as a row of FIPS 204 Table 1 -/
def specParams (p : ParamSet) : Spec.Params :=
  { tau := p.tau.toNat, lambda := p.lambda, gamma1 := p.gamma1, gamma2 := p.gamma2, k := p.k, l := p.l, eta := p.eta, beta := p.beta, omega := p.omega.toNat }

/-- **the three parameter sets of the crate are the three rows of FIPS 204 Table 1** (constants regenerated from the source on every run) -/
theorem params_are_table_1 : specParams ml_dsa_44 = Spec.mlDsa44 ∧ specParams ml_dsa_65 = Spec.mlDsa65 ∧ specParams ml_dsa_87 = Spec.mlDsa87 := by
  decide

/-! ### lengths on the specification side -/

theorem spec_nttRec_length : ∀ (d k : Nat) (w : List Int), w.length = 2 ^ d → (Spec.nttRec d k w).length = 2 ^ d := by
  intro d
  induction d with
  | zero => intro k w h; exact h
  | succ d ih =>
    intro k w h
    have hp : 2 ^ (d + 1) = 2 * 2 ^ d := by rw [Nat.pow_succ]; omega
    have hhalf : w.length / 2 = 2 ^ d := by omega
    unfold Spec.nttRec
    simp only [hhalf]
    rw [List.length_append, ih, ih]
    · omega
    · rw [List.length_zipWith, List.length_take, List.length_map, List.length_drop]; omega
    · rw [List.length_zipWith, List.length_take, List.length_map, List.length_drop]; omega

theorem spec_invRec_length : ∀ (d k : Nat) (w : List Int), w.length = 2 ^ d → (Spec.invRec d k w).length = 2 ^ d := by
  intro d
  induction d with
  | zero => intro k w h; exact h
  | succ d ih =>
    intro k w h
    have hp : 2 ^ (d + 1) = 2 * 2 ^ d := by rw [Nat.pow_succ]; omega
    have hhalf : w.length / 2 = 2 ^ d := by omega
    unfold Spec.invRec
    simp only [hhalf]
    have l1 := ih (2 * k + 1) (w.take (2 ^ d)) (by rw [List.length_take]; omega)
    have l2 := ih (2 * k) (w.drop (2 ^ d)) (by rw [List.length_drop]; omega)
    rw [List.length_append, List.length_zipWith, List.length_zipWith, l1, l2]; omega

theorem spec_ntt_length (w : List Int) (h : w.length = 256) : (Spec.ntt w).length = 256 :=
  spec_nttRec_length 8 1 w h

theorem spec_rowTimes_length : ∀ (prods : List (List Int)) (P : List Int), P.length = 256 → (∀ q ∈ prods, q.length = 256) →
    (prods.foldl Spec.addQ P).length = 256 := by
  intro prods
  induction prods with
  | nil => intro P h _; exact h
  | cons q qs ih =>
    intro P h hq
    rw [List.foldl_cons]
    refine ih _ ?_ (fun x hx => hq x (List.mem_cons_of_mem _ hx))
    unfold Spec.addQ
    rw [List.length_zipWith, h, hq q List.mem_cons_self]; rfl

theorem zipWith_mulQ_lengths : ∀ (row zhat : List (List Int)), (∀ q ∈ row, q.length = 256) → (∀ q ∈ zhat, q.length = 256) →
    ∀ q ∈ List.zipWith Spec.mulQ row zhat, q.length = 256 := by
  intro row
  induction row with
  | nil => intro zhat _ _ q hq; simp at hq
  | cons a as ih =>
    intro zhat hr hz q hq
    cases zhat with
    | nil => simp at hq
    | cons y ys =>
      rw [List.zipWith_cons_cons, List.mem_cons] at hq
      rcases hq with rfl | hq
      · unfold Spec.mulQ
        rw [List.length_zipWith, hr a List.mem_cons_self, hz y List.mem_cons_self]; rfl
      · exact ih ys (fun x hx => hr x (List.mem_cons_of_mem _ hx)) (fun x hx => hz x (List.mem_cons_of_mem _ hx)) q hq

theorem spec_wApprox_shape (aHat : List (List Poly)) (z : List Poly) (c : Poly) (t1 : List Poly) (k : Nat)
    (hA : aHat.length = k ∧ ∀ row ∈ aHat, ∀ q ∈ row, q.length = 256) (hz : ∀ q ∈ z, q.length = 256) (hc : c.length = 256)
    (ht : t1.length = k ∧ ∀ q ∈ t1, q.length = 256) :
    (Spec.wApprox aHat z c t1).length = k ∧ ∀ q ∈ Spec.wApprox aHat z c t1, q.length = 256 ∧ ∀ x ∈ q, 0 ≤ x ∧ x < 8380417 := by
  unfold Spec.wApprox
  simp only []
  refine ⟨by rw [List.length_zipWith, hA.1, ht.1]; exact Nat.min_self k, fun q hq => ?_⟩
  obtain ⟨i, hi, rfl⟩ := List.mem_iff_getElem.mp hq
  rw [List.getElem_zipWith]
  rw [List.length_zipWith] at hi
  have hrow := hA.2 aHat[i] (List.getElem_mem (by omega))
  have ht' := ht.2 t1[i] (List.getElem_mem (by omega))
  refine ⟨?_, fun x hx => ?_⟩
  · unfold Spec.invNtt
    rw [List.length_map]
    apply spec_invRec_length 8 1
    unfold Spec.subQ Spec.mulQ Spec.rowTimes
    rw [List.length_zipWith, List.length_zipWith, spec_ntt_length c hc, spec_ntt_length _ (by rw [List.length_map]; exact ht')]
    rw [spec_rowTimes_length _ _ List.length_replicate (zipWith_mulQ_lengths _ _ hrow (fun q hq' => by
      obtain ⟨y, hy, rfl⟩ := List.mem_map.mp hq'
      exact spec_ntt_length y (hz y hy)))]
    rfl
  · unfold Spec.invNtt at hx
    obtain ⟨y, _, rfl⟩ := List.mem_map.mp hx
    exact ⟨Int.emod_nonneg _ (by decide), Int.emod_lt_of_pos _ (by decide)⟩


/-! ### Algorithm 8 -/

/-- lines 2-13 of Algorithm 8 on a decoded public key `(ρ, t1)` and `tr` -/
def specCore (P : Spec.Params) (H G : List Nat → Nat → List Nat) (nG nH : Nat) (rho : List Nat) (t1 : List Poly) (tr Mp sigma : List Nat) : Option Bool :=
  let d := Spec.sigDecode (P.lambda / 4) P.l P.k P.omega (1 + Spec.bitlen (P.gamma1 - 1)) P.gamma1 sigma
  match d.2.2 with
  | none => some false
  | some h =>
    match Spec.expandA (fun x => G x nG) P.k P.l rho with
    | none => none
    | some aHat =>
      match Spec.sampleInBall P.tau (H d.1 nH) with
      | none => none
      | some c =>
        let w1 := List.zipWith (fun hp wp => List.zipWith (fun hh r => Spec.useHint P.gamma2 hh r) hp wp) h (Spec.wApprox aHat d.2.1 c t1)
        some (decide (Spec.infNorm d.2.1 < P.gamma1 - P.beta) &&
          decide (d.1 = H (H (tr ++ Mp) 64 ++ Spec.w1Encode (Spec.bitlen ((8380417 - 1) / (2 * P.gamma2) - 1)) w1) (P.lambda / 4)))

theorem spec_verifyInternal_eq_core (P : Spec.Params) (H G : List Nat → Nat → List Nat) (nG nH : Nat) (pk Mp sigma : List Nat) :
    Spec.verifyInternal P H G nG nH pk Mp sigma =
      specCore P H G nG nH (Spec.pkDecode P.k pk).1 (Spec.pkDecode P.k pk).2 (H pk 64) Mp sigma := rfl

theorem muOf_formatted (O : Oracles) (tr msg ctx oid phm : List Nat) (nist : Bool) :
    muOf O domPure_verify domHash_verify tr msg ctx oid phm nist = O.h (tr ++ Spec.formatted nist msg ctx oid phm) 64 := by
  unfold muOf Spec.formatted
  cases nist with
  | true => rfl
  | false =>
    simp only [Bool.false_eq_true, if_false]
    split
    · simp [domPure_verify, ctxLenByte, List.append_assoc]
    · simp [domHash_verify, ctxLenByte, List.append_assoc]

/-- the result of the specification as a statement about a model result: a Boolean is returned as such; a stream prefix that ran out
    shows as the model-only outcome `Fault.fuel` -/
def AgreesWith (r : M Bool) : Option Bool → Prop
  | some b => r = .ok b
  | none => ∃ s, r = .error (.fuel s)

theorem verifySpec_is_core (m : Mode) (O : Oracles) (hO : OracleOk O) (p : ParamSet) (blz : Nat) (cfg : VerCfg p blz)
    (rho tr : List Nat) (t1 : List Poly) (hrho : rho.length = 32) (ht1 : VecIn p.k 0 1023 t1)
    (msg sig ctx oid phm : List Nat) (nist : Bool) (hb : ∀ x ∈ sig, x < 256) (hlen : sig.length = p.sigLen) :
    AgreesWith (verifySpec m O false p rho tr t1 msg sig ctx oid phm nist)
      (specCore (specParams p) O.h O.g (1680 * O.fuelScale) (8 + 1360 * O.fuelScale) rho t1 tr (Spec.formatted nist msg ctx oid phm) sig) := by
  -- parameter bookkeeping
  have hblz : 1 + Spec.bitlen (p.gamma1 - 1) = blz := by
    rcases cfg.sig.g1 with ⟨h, rfl⟩ | ⟨h, rfl⟩ <;> rw [h] <;> decide
  have hw1b : Spec.bitlen ((8380417 - 1) / (2 * p.gamma2) - 1) = p.w1Bits := by
    rcases cfg.g2 with ⟨h, h2⟩ | ⟨h, h2⟩ <;> rw [h, h2] <;> decide
  have hgg : G2 p.gamma2 := by
    rcases cfg.g2 with ⟨h, _⟩ | ⟨h, _⟩
    · exact Or.inl h
    · exact Or.inr h
  obtain ⟨r, hr, hrp⟩ := sigDecode_ok m p blz cfg.sig sig hb hlen
  have hsd := sigDecode_is_algorithm_27 m p blz cfg.sig sig hb hlen
  rw [hsd] at hr
  have hrr := ok_inj hr
  unfold verifySpec specCore specParams
  simp only [hblz, hw1b]
  rw [hsd, ok_bind]
  simp only [ParamSet.lambdaDiv4] at hrr ⊢
  -- the hint part decides the first branch
  cases hh : (Spec.sigDecode (p.lambda / 4) p.l p.k p.omega.toNat blz p.gamma1 sig).2.2 with
  | none =>
    simp only [hh]
    exact rfl
  | some h =>
    simp only [hh] at hrr ⊢
    obtain ⟨c1, c2, c3, c4, c5⟩ := hrp _ _ h hrr.symm
    rw [muOf_formatted]
    -- ExpandA and SampleInBall
    rw [sampleInBall_is_algorithm_29 m O hO p.tau _ cfg.tau, expandA_is_algorithm_32 m O hO p rho hrho]
    cases hea : Spec.expandA (fun x => O.g x (1680 * O.fuelScale)) p.k p.l rho with
    | none =>
      cases hsb : Spec.sampleInBall p.tau.toNat (O.h (Spec.sigDecode (p.lambda / 4) p.l p.k p.omega.toNat blz p.gamma1 sig).1 (8 + 1360 * O.fuelScale)) with
      | none => exact ⟨_, rfl⟩
      | some c => exact ⟨_, rfl⟩
    | some aHat =>
      cases hsb : Spec.sampleInBall p.tau.toNat (O.h (Spec.sigDecode (p.lambda / 4) p.l p.k p.omega.toNat blz p.gamma1 sig).1 (8 + 1360 * O.fuelScale)) with
      | none => exact ⟨_, rfl⟩
      | some c =>
        simp only [ofSpec, ok_bind]
        -- shapes, from the no-panic theorems of the two samplers
        have hAnp := expandA_np m O hO false p rho hrho
        rw [expandA_is_algorithm_32 m O hO p rho hrho, hea] at hAnp
        have hA := NoPanic.ok_elim hAnp
        have hcnp := sampleInBall_np m O hO false p.tau (Spec.sigDecode (p.lambda / 4) p.l p.k p.omega.toNat blz p.gamma1 sig).1 cfg.tau
        rw [sampleInBall_is_algorithm_29 m O hO p.tau _ cfg.tau, hsb] at hcnp
        have hc := NoPanic.ok_elim hcnp
        rw [wApproxS_is_spec, normInfS_is_spec]
        obtain ⟨sw1, sw2⟩ := spec_wApprox_shape aHat (Spec.sigDecode (p.lambda / 4) p.l p.k p.omega.toNat blz p.gamma1 sig).2.1 c t1 p.k
          ⟨hA.1, fun row hrow q hq => ((hA.2 row hrow).2 q hq).1⟩ (fun q hq => (c3 q hq).1) hc.1 ⟨ht1.1.1, ht1.1.2⟩
        -- w1 is in the range of UseHint, so w1Encode is the standard's
        have hw1 : w1Encode m p (List.zipWith (fun hp wp => List.zipWith (fun hh r => Spec.useHint p.gamma2 hh r) hp wp) h
            (Spec.wApprox aHat (Spec.sigDecode (p.lambda / 4) p.l p.k p.omega.toNat blz p.gamma1 sig).2.1 c t1)) p.w1Len = .ok _ :=
          w1Encode_is_algorithm_28 m p cfg.g2 _
            ⟨by rw [List.length_zipWith, c4, sw1]; exact Nat.min_self _, fun q hq => by
              obtain ⟨i, hi, rfl⟩ := List.mem_iff_getElem.mp hq
              rw [List.getElem_zipWith, List.length_zipWith]
              rw [List.length_zipWith] at hi
              rw [(c5 _ (List.getElem_mem (by omega))).1, (sw2 _ (List.getElem_mem (by omega))).1]; rfl⟩
            (fun q hq x hx => by
              obtain ⟨i, hi, rfl⟩ := List.mem_iff_getElem.mp hq
              rw [List.getElem_zipWith] at hx
              obtain ⟨j, hj, rfl⟩ := List.mem_iff_getElem.mp hx
              rw [List.getElem_zipWith]
              exact useHint_range p.gamma2 _ _ hgg)
        rw [hw1, ok_bind, pure_eq]
        rfl


/-- **`verify_internal` is FIPS 204 Algorithm 8 as the standard writes it**: for each of the three parameter sets, every oracle, every
    byte string of public-key length, every message / context / pre-hash input and every byte string of signature length, in both
    build modes, the struct `expand_public` builds from the bytes makes `verify_internal` return exactly the Boolean of
    `Spec.verifyInternal` on those bytes (Algorithms 23, 27, 21, 19, 32, 30, 29, 41, 42, 40, 28 as transcribed in `Spec/*`) -/
theorem verifyInternal_is_algorithm_8_as_written (m : Mode) (O : Oracles) (hO : OracleOk O) (p : ParamSet) (hp : p ∈ [ml_dsa_44, ml_dsa_65, ml_dsa_87])
    (pkb msg sig ctx oid phm : List Nat) (nist : Bool) (hpb : ∀ x ∈ pkb, x < 256) (hpl : pkb.length = p.pkLen)
    (hb : ∀ x ∈ sig, x < 256) (hlen : sig.length = p.sigLen) :
    ∃ pk, expandPublic m O p pkb = .ok (some pk) ∧
      AgreesWith (verifyInternal m O CTEST_default p pk msg sig ctx oid phm nist)
        (Spec.verifyInternal (specParams p) O.h O.g (1680 * O.fuelScale) (8 + 1360 * O.fuelScale) pkb (Spec.formatted nist msg ctx oid phm) sig) := by
  obtain ⟨blz, cfg⟩ := Props.C13.verCfg_of_mem p hp
  have hcfg := pk_config_ok p hp
  obtain ⟨pk, d, hexp, hdec, heq⟩ := Props.C02.verification_is_algorithm_8 m O hO p hp pkb msg sig ctx oid phm nist hpb hpl hb hlen
  obtain ⟨d2, hd2, hrho, hk, ht⟩ := pkDecode_total m p pkb hpb (by rw [hpl, hcfg]) hcfg
  obtain ⟨d3, hd3, hs3⟩ := pkDecode_is_algorithm_23 m p pkb hpb (by rw [hpl, hcfg]) hcfg
  have e2 : d2 = d := by rw [hd2] at hdec; cases hdec; rfl
  have e3 : d3 = d := by rw [hd3] at hdec; cases hdec; rfl
  subst e2
  subst e3
  refine ⟨pk, hexp, ?_⟩
  rw [heq, spec_verifyInternal_eq_core]
  have hk' : (specParams p).k = p.k := rfl
  rw [hk', ← hs3]
  have hct : CTEST_default = false := rfl
  rw [hct]
  exact verifySpec_is_core m O hO p blz cfg d3.rho (O.h pkb 64) d3.t1 (by rw [hrho, List.length_take, hpl, hcfg]; omega)
    ⟨⟨hk, fun q hq => (ht q hq).1⟩, fun q hq => (ht q hq).2⟩ msg sig ctx oid phm nist hb hlen

end Fips204.Impl
