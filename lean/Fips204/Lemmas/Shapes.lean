import Fips204.Lemmas.PackOk
/-! Shape (length) facts along the NTT pipelines: every transform that succeeds preserves the 256-coefficient shape. -/
namespace Fips204.Impl
open Fips204 Fips204.Gen Fips204.K

theorem bind_ok_inv {α β} {x : M α} {f : α → M β} {r : β} (h : (x >>= f) = .ok r) : ∃ a, x = .ok a ∧ f a = .ok r := by
  cases x with
  | error e => rw [error_bind] at h; cases h
  | ok a => exact ⟨a, rfl, by rwa [ok_bind] at h⟩

theorem ok_inj {α} {a b : α} (h : (Except.ok a : M α) = .ok b) : a = b := by cases h; rfl

theorem mapM_len {α β} (f : α → M β) : ∀ (l : List α) (r : List β), l.mapM f = .ok r → r.length = l.length := by
  intro l
  induction l with
  | nil => intro r h; rw [List.mapM_nil, pure_eq] at h; have := ok_inj h; subst this; rfl
  | cons a as ih =>
    intro r h
    rw [List.mapM_cons] at h
    obtain ⟨b, _, h⟩ := bind_ok_inv h
    obtain ⟨bs, hbs, h⟩ := bind_ok_inv h
    rw [pure_eq] at h
    rw [← ok_inj h, List.length_cons, List.length_cons, ih bs hbs]

theorem mapM_ok_len {α β} (f : α → M β) (P : α → Prop) (R : β → Prop) (hf : ∀ a, P a → ∃ b, f a = .ok b ∧ R b)
    (l : List α) (h : ∀ a ∈ l, P a) : ∃ l', l.mapM f = .ok l' ∧ l'.length = l.length ∧ ∀ b ∈ l', R b := by
  obtain ⟨l', h1, h2⟩ := mapM_ok f P R hf l h
  exact ⟨l', h1, mapM_len f l l' h1, h2⟩

theorem mapM_all {α β} (f : α → M β) (P : β → Prop) : ∀ (l : List α) (r : List β), l.mapM f = .ok r →
    (∀ a ∈ l, ∀ b, f a = .ok b → P b) → ∀ b ∈ r, P b := by
  intro l
  induction l with
  | nil => intro r h _; rw [List.mapM_nil, pure_eq] at h; rw [← ok_inj h]; simp
  | cons a as ih =>
    intro r h hp
    rw [List.mapM_cons] at h
    obtain ⟨b, hb, h⟩ := bind_ok_inv h
    obtain ⟨bs, hbs, h⟩ := bind_ok_inv h
    rw [pure_eq] at h
    rw [← ok_inj h]
    intro x hx
    rcases List.mem_cons.mp hx with rfl | hx
    · exact hp a (List.mem_cons_self ..) _ hb
    · exact ih bs hbs (fun a' ha' => hp a' (List.mem_cons_of_mem _ ha')) x hx

theorem zipWithM_len {α β γ} (f : α → β → M γ) : ∀ (l : List α) (l' : List β) (r : List γ), zipWithM f l l' = .ok r →
    r.length = min l.length l'.length := by
  intro l
  induction l with
  | nil => intro l' r h; simp only [zipWithM, pure_eq] at h; rw [← ok_inj h]; simp
  | cons a as ih =>
    intro l' r h
    cases l' with
    | nil => simp only [zipWithM, pure_eq] at h; rw [← ok_inj h]; simp
    | cons b bs =>
      simp only [zipWithM] at h
      obtain ⟨c, _, h⟩ := bind_ok_inv h
      obtain ⟨cs, hcs, h⟩ := bind_ok_inv h
      rw [pure_eq] at h
      rw [← ok_inj h, List.length_cons, List.length_cons, List.length_cons, ih bs cs hcs]; omega

theorem zipWithM_all {α β γ} (f : α → β → M γ) (P : γ → Prop) : ∀ (l : List α) (l' : List β) (r : List γ), zipWithM f l l' = .ok r →
    (∀ a ∈ l, ∀ b ∈ l', ∀ c, f a b = .ok c → P c) → ∀ c ∈ r, P c := by
  intro l
  induction l with
  | nil => intro l' r h _; simp only [zipWithM, pure_eq] at h; rw [← ok_inj h]; simp
  | cons a as ih =>
    intro l' r h hp
    cases l' with
    | nil => simp only [zipWithM, pure_eq] at h; rw [← ok_inj h]; simp
    | cons b bs =>
      simp only [zipWithM] at h
      obtain ⟨c, hc, h⟩ := bind_ok_inv h
      obtain ⟨cs, hcs, h⟩ := bind_ok_inv h
      rw [pure_eq] at h
      rw [← ok_inj h]
      intro x hx
      rcases List.mem_cons.mp hx with rfl | hx
      · exact hp a (List.mem_cons_self ..) b (List.mem_cons_self ..) _ hc
      · exact ih bs cs hcs (fun a' ha' b' hb' => hp a' (List.mem_cons_of_mem _ ha') b' (List.mem_cons_of_mem _ hb')) x hx

theorem zipWith3M_len {α β γ δ} (f : α → β → γ → M δ) : ∀ (l : List α) (l' : List β) (l'' : List γ) (r : List δ),
    zipWith3M f l l' l'' = .ok r → r.length = min l.length (min l'.length l''.length) := by
  intro l
  induction l with
  | nil => intro l' l'' r h; simp only [zipWith3M, pure_eq] at h; rw [← ok_inj h]; simp
  | cons a as ih =>
    intro l' l'' r h
    cases l' with
    | nil => simp only [zipWith3M, pure_eq] at h; rw [← ok_inj h]; simp
    | cons b bs =>
      cases l'' with
      | nil => simp only [zipWith3M, pure_eq] at h; rw [← ok_inj h]; simp
      | cons c cs =>
        simp only [zipWith3M] at h
        obtain ⟨d, _, h⟩ := bind_ok_inv h
        obtain ⟨ds, hds, h⟩ := bind_ok_inv h
        rw [pure_eq] at h
        rw [← ok_inj h]
        simp only [List.length_cons, ih bs cs ds hds]; omega

theorem nttRec_len (m : Mode) : ∀ (d k : Nat) (w r : Poly), w.length = 2 ^ d → nttRec m d k w = .ok r → r.length = 2 ^ d := by
  intro d
  induction d with
  | zero => intro k w r hw h; simp only [nttRec, pure_eq] at h; rw [← ok_inj h]; exact hw
  | succ d ih =>
    intro k w r hw h
    have hhalf : w.length / 2 = 2 ^ d := by rw [hw, Nat.pow_succ]; omega
    unfold nttRec at h
    simp only [hhalf] at h
    obtain ⟨z, _, h⟩ := bind_ok_inv h
    obtain ⟨ts, hts, h⟩ := bind_ok_inv h
    obtain ⟨hi', hhi, h⟩ := bind_ok_inv h
    obtain ⟨lo', hlo, h⟩ := bind_ok_inv h
    obtain ⟨l, hl, h⟩ := bind_ok_inv h
    obtain ⟨hh, hh', h⟩ := bind_ok_inv h
    rw [pure_eq] at h
    have e1 := mapM_len _ _ _ hts
    have e2 := zipWithM_len _ _ _ _ hhi
    have e3 := zipWithM_len _ _ _ _ hlo
    rw [List.length_take] at e2 e3
    rw [List.length_drop] at e1
    have hp : 2 ^ (d + 1) = 2 * 2 ^ d := by rw [Nat.pow_succ]; omega
    have l1 := ih _ _ _ (by omega) hl
    have l2 := ih _ _ _ (by omega) hh'
    rw [← ok_inj h, List.length_append, l1, l2]; omega

theorem invRec_len (m : Mode) : ∀ (d k : Nat) (w r : Poly), w.length = 2 ^ d → invRec m d k w = .ok r → r.length = 2 ^ d := by
  intro d
  induction d with
  | zero => intro k w r hw h; simp only [invRec, pure_eq] at h; rw [← ok_inj h]; exact hw
  | succ d ih =>
    intro k w r hw h
    have hhalf : w.length / 2 = 2 ^ d := by rw [hw, Nat.pow_succ]; omega
    have hp : 2 ^ (d + 1) = 2 * 2 ^ d := by rw [Nat.pow_succ]; omega
    unfold invRec at h
    simp only [hhalf] at h
    obtain ⟨lo, hlo, h⟩ := bind_ok_inv h
    obtain ⟨hi, hhi, h⟩ := bind_ok_inv h
    obtain ⟨z0, _, h⟩ := bind_ok_inv h
    obtain ⟨z, _, h⟩ := bind_ok_inv h
    obtain ⟨sums, hs, h⟩ := bind_ok_inv h
    obtain ⟨diffs, hd, h⟩ := bind_ok_inv h
    rw [pure_eq] at h
    have l1 := ih _ _ _ (by rw [List.length_take]; omega) hlo
    have l2 := ih _ _ _ (by rw [List.length_drop]; omega) hhi
    have e1 := zipWithM_len _ _ _ _ hs
    have e2 := zipWithM_len _ _ _ _ hd
    rw [← ok_inj h, List.length_append, e1, e2, l1, l2]; omega

theorem nttPoly_len (m : Mode) (w r : Poly) (hw : w.length = 256) (h : nttPoly m w = .ok r) : r.length = 256 :=
  nttRec_len m 8 1 w r hw h

/-- vector of 256-coefficient polynomials -/
def Sh (n : Nat) (v : List Poly) : Prop := v.length = n ∧ ∀ q ∈ v, q.length = 256

theorem ntt_sh (m : Mode) (n : Nat) (v r : List Poly) (hv : Sh n v) (h : ntt m v = .ok r) : Sh n r :=
  ⟨by rw [mapM_len _ _ _ h]; exact hv.1, mapM_all _ (fun q => q.length = 256) _ _ h (fun a ha b hb => nttPoly_len m a b (hv.2 a ha) hb)⟩

theorem invNttPoly_len (m : Mode) (w r : Poly) (hw : w.length = 256) (h : invNttPoly m w = .ok r) : r.length = 256 := by
  unfold invNttPoly invNttPolyWith at h
  obtain ⟨w0, h0, h⟩ := bind_ok_inv h
  obtain ⟨w1, h1, h⟩ := bind_ok_inv h
  rw [mapM_len _ _ _ h]
  exact invRec_len m 8 1 w0 w1 (by rw [mapM_len _ _ _ h0]; exact hw) h1

theorem invNtt_sh (m : Mode) (n : Nat) (v r : List Poly) (hv : Sh n v) (h : invNtt m v = .ok r) : Sh n r :=
  ⟨by rw [mapM_len _ _ _ h]; exact hv.1, mapM_all _ (fun q => q.length = 256) _ _ h (fun a ha b hb => invNttPoly_len m a b (hv.2 a ha) hb)⟩

theorem mapM2_sh (f : Int → M Int) (n : Nat) (v r : List Poly) (hv : Sh n v) (h : v.mapM (fun p => p.mapM f) = .ok r) : Sh n r :=
  ⟨by rw [mapM_len _ _ _ h]; exact hv.1, mapM_all _ (fun q => q.length = 256) _ _ h (fun a ha b hb => by rw [mapM_len _ _ _ hb]; exact hv.2 a ha)⟩

theorem toMont_sh (m : Mode) (n : Nat) (v r : List Poly) (hv : Sh n v) (h : toMont m v = .ok r) : Sh n r :=
  mapM2_sh _ n v r hv h

theorem rowFold_len (m : Mode) : ∀ (l : List (Poly × Poly)) (acc r : Poly), acc.length = 256 →
    (∀ au ∈ l, au.1.length = 256 ∧ au.2.length = 256) →
    l.foldlM (fun acc au => zipWith3M (mat_vec_mul_acc m) acc au.1 au.2) acc = .ok r → r.length = 256 := by
  intro l
  induction l with
  | nil => intro acc r ha _ h; rw [List.foldlM_nil, pure_eq] at h; rw [← ok_inj h]; exact ha
  | cons au l ih =>
    intro acc r ha hl h
    rw [List.foldlM_cons] at h
    obtain ⟨acc', h1, h⟩ := bind_ok_inv h
    have e := zipWith3M_len _ _ _ _ _ h1
    have := hl au (List.mem_cons_self ..)
    exact ih acc' r (by rw [e]; omega) (fun x hx => hl x (List.mem_cons_of_mem _ hx)) h

theorem matVecMul_sh (m : Mode) (a : List (List Poly)) (u r : List Poly) (k l : Nat) (ha : a.length = k)
    (ha2 : ∀ row ∈ a, ∀ q ∈ row, q.length = 256) (hu : Sh l u) (h : matVecMul m a u = .ok r) : Sh k r := by
  unfold matVecMul at h
  obtain ⟨um, hum, h⟩ := bind_ok_inv h
  have sum := toMont_sh m l u um hu hum
  refine ⟨by rw [mapM_len _ _ _ h]; exact ha, mapM_all _ (fun q => q.length = 256) _ _ h (fun row hrow b hb => ?_)⟩
  refine rowFold_len m _ zeroPoly b (by unfold zeroPoly; rw [List.length_replicate]) (fun au hau => ?_) hb
  have h1 := List.of_mem_zip hau
  exact ⟨ha2 row hrow _ h1.1, sum.2 _ h1.2⟩

end Fips204.Impl
