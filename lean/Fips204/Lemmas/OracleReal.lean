import Fips204.Exec.Keccak
import Fips204.Exec.Sha2
import Fips204.Exec.Oracles
import Fips204.Lemmas.SpecSample
import Fips204.Spec.Format
/-!
  The SHAKE128 / SHAKE256 the model driver runs (`Exec/Keccak.lean`) meet what the theorems assume of an oracle: exactly `n` bytes on a request
  for `n` (`OracleOk`), and a shorter request returns a prefix of a longer one (`OraclePrefix`, used by `expand_mask_is_ExpandMask` and what is
  built on it).  So every theorem quantified over oracles applies to the concrete functions with which the model is executed against the crate,
  and the hypotheses are not vacuous.  (That `Exec/Keccak.lean` *is* Keccak-f[1600] with the SHAKE padding is not proved; it is validated
  against the `sha3` crate on every run.)
-/
namespace Fips204.Impl
open Fips204 Fips204.Gen Fips204.Exec

theorem squeezeL_length (rate : Nat) : ∀ (n : Nat) (st : Array UInt64) (opos : Nat), (squeezeL rate n st opos).length = n := by
  intro n
  induction n with
  | zero => intro st opos; rfl
  | succ n ih =>
    intro st opos
    unfold squeezeL
    split <;> simp [ih]

theorem squeezeL_take (rate : Nat) : ∀ (n k : Nat) (st : Array UInt64) (opos : Nat), k ≤ n →
    (squeezeL rate n st opos).take k = squeezeL rate k st opos := by
  intro n
  induction n with
  | zero =>
    intro k st opos hk
    have : k = 0 := by omega
    subst this
    rfl
  | succ n ih =>
    intro k st opos hk
    cases k with
    | zero => simp [squeezeL]
    | succ k =>
      unfold squeezeL
      split
      · simp only [List.take_succ_cons]
        rw [ih k _ _ (by omega)]
      · simp only [List.take_succ_cons]
        rw [ih k _ _ (by omega)]

theorem ofBA_mk (l : List UInt8) : ofBA (ByteArray.mk l.toArray) = l.map (fun x => x.toNat) := by
  simp [ofBA]

theorem shake_len (rate : Nat) (x : List Nat) (n : Nat) : (ofBA (shake rate (toBA x) n)).length = n := by
  unfold shake
  rw [ofBA_mk, List.length_map, squeezeL_length]

theorem shake_byte (rate : Nat) (x : List Nat) (n : Nat) : ∀ b ∈ ofBA (shake rate (toBA x) n), b < 256 := by
  unfold shake
  rw [ofBA_mk]
  intro b hb
  obtain ⟨u, _, rfl⟩ := List.mem_map.mp hb
  exact u.toNat_lt

theorem shake_prefix (rate : Nat) (x : List Nat) (n k : Nat) (hk : k ≤ n) :
    (ofBA (shake rate (toBA x) n)).take k = ofBA (shake rate (toBA x) k) := by
  unfold shake
  rw [ofBA_mk, ofBA_mk, ← List.map_take, squeezeL_take rate n k _ _ hk]

/-- the oracles of the model driver (`Exec.realOracles`, any prefix scale) return exactly the bytes asked for -/
theorem driverOracles_ok (scale : Nat) : OracleOk (realOracles scale) :=
  ⟨fun x n => shake_len 136 x n, fun x n => shake_byte 136 x n, fun x n => shake_len 168 x n, fun x n => shake_byte 168 x n⟩

/-- and a shorter SHAKE256 request is a prefix of a longer one -/
theorem driverOracles_prefix (scale : Nat) : OraclePrefix (realOracles scale) :=
  fun x n k hk => shake_prefix 136 x n k hk

theorem sha256_len (msg : List Nat) : (sha256 msg).length = 32 := by simp [sha256, be32]

theorem sha512_len (msg : List Nat) : (sha512 msg).length = 64 := by simp [sha512, be64]

/-- the digest lengths the two pre-hash theorems assume (`Spec.WF`) hold of the driver's SHA-256 / SHA-512 / SHAKE -/
theorem driverOracles_wf (scale : Nat) : Spec.WF (realOracles scale) :=
  ⟨sha256_len, sha512_len, fun x n => shake_len 168 x n, fun x n => shake_len 136 x n⟩

end Fips204.Impl
