/-
  Lemmas.SpecKeygen — key generation followed by serialisation is FIPS 204 Algorithm 6 as the standard writes it (`Spec/MlDsa.lean`).
-/
import Fips204.Lemmas.SpecVerify
import Fips204.Lemmas.KeygenSpec
import Fips204.Props.C04b
namespace Fips204.Impl
open Fips204 Fips204.Gen Fips204.K

/-- a model result against a specification result: equal values, or the stream prefix ran out on both sides -/
def Agrees {α} (r : M α) : Option α → Prop
  | some b => r = .ok b
  | none => ∃ s, r = .error (.fuel s)

theorem tRowS_is_spec (row : List Poly) (s1 : List Poly) (s2r : Poly) :
    tRowS row s1 s2r = Spec.addQ (Spec.invNtt (Spec.rowTimes row (s1.map Spec.ntt))) s2r := by
  have h : canon ((invS 8 1 (rowS row s1 zeroPoly)).map (fun x => FS * x)) = Spec.invNtt (Spec.rowTimes row (s1.map Spec.ntt)) := by
    apply canon_eq_of_cong
    · unfold Spec.invNtt
      refine CongL.map ?_ _ _ (fun a b hab => cg.trans (mul_cg FS_cg hab) (cg_mod' _))
      refine invS_is_spec 8 1 _ _ ?_ (by omega) (by decide)
      unfold Spec.rowTimes
      exact rowS_is_spec row s1 zeroPoly (List.replicate 256 0) (CongL.refl _)
    · intro x hx
      unfold Spec.invNtt at hx
      obtain ⟨y, _, rfl⟩ := List.mem_map.mp hx
      exact ⟨Int.emod_nonneg _ (by decide), Int.emod_lt_of_pos _ (by decide)⟩
  unfold tRowS Spec.addQ
  rw [h]

theorem spec_t_shape (aHat : List (List Poly)) (s1 s2 : List Poly) (k : Nat)
    (hA : aHat.length = k ∧ ∀ row ∈ aHat, ∀ q ∈ row, q.length = 256) (h1 : ∀ q ∈ s1, q.length = 256) (h2 : Sh k s2) :
    Sh k (List.zipWith (fun row s2r => Spec.addQ (Spec.invNtt (Spec.rowTimes row (s1.map Spec.ntt))) s2r) aHat s2) ∧
    ∀ q ∈ List.zipWith (fun row s2r => Spec.addQ (Spec.invNtt (Spec.rowTimes row (s1.map Spec.ntt))) s2r) aHat s2, Can q := by
  refine ⟨⟨by rw [List.length_zipWith, hA.1, h2.1]; exact Nat.min_self k, fun q hq => ?_⟩, fun q hq => ?_⟩
  · obtain ⟨i, hi, rfl⟩ := List.mem_iff_getElem.mp hq
    rw [List.getElem_zipWith]
    rw [List.length_zipWith] at hi
    unfold Spec.addQ Spec.invNtt
    rw [List.length_zipWith, List.length_map, spec_invRec_length 8 1, h2.2 _ (List.getElem_mem (by omega))]
    · rfl
    · unfold Spec.rowTimes
      exact spec_rowTimes_length _ _ List.length_replicate (zipWith_mulQ_lengths _ _ (hA.2 _ (List.getElem_mem (by omega))) (fun q hq' => by
        obtain ⟨y, hy, rfl⟩ := List.mem_map.mp hq'
        exact spec_ntt_length y (h1 y hy)))
  · obtain ⟨i, hi, rfl⟩ := List.mem_iff_getElem.mp hq
    rw [List.getElem_zipWith]
    intro x hx
    unfold Spec.addQ at hx
    obtain ⟨j, hj, rfl⟩ := List.mem_iff_getElem.mp hx
    rw [List.getElem_zipWith]
    exact ⟨Int.emod_nonneg _ (by decide), Int.emod_lt_of_pos _ (by decide)⟩

theorem keygenSpec_is_algorithm_6 (m : Mode) (O : Oracles) (hO : OracleOk O) (p : ParamSet) (he : p.eta = 2 ∨ p.eta = 4)
    (hpcfg : p.pkLen = 32 + 32 * p.k * blqd) (bl : Nat) (hbl : bitLen m (2 * p.eta) = .ok bl) (hbs : Spec.bitlen (2 * p.eta) = bl)
    (hcfg : p.skLen = 128 + 32 * ((p.k + p.l) * bl + D.toNat * p.k)) (xi : List Nat) :
    Agrees (keygenSpec m O p xi)
      (Spec.keyGenInternal (specParams p) O.h O.g (1680 * O.fuelScale) (1088 * O.fuelScale) xi) := by
  unfold keygenSpec Spec.keyGenInternal specParams
  simp only [hbs]
  have hrho : ((O.h (xi ++ [p.k % 256, p.l % 256]) 128).take 32).length = 32 := by rw [List.length_take, hO.hlen]; omega
  have hrhoP : (((O.h (xi ++ [p.k % 256, p.l % 256]) 128).drop 32).take 64).length = 64 := by
    rw [List.length_take, List.length_drop, hO.hlen]; omega
  have hkey : (((O.h (xi ++ [p.k % 256, p.l % 256]) 128).drop 96).take 32).length = 32 := by
    rw [List.length_take, List.length_drop, hO.hlen]; omega
  have hSnp := expandS_np m O hO p he _ hrhoP
  have hAnp := expandA_np m O hO false p _ hrho
  rw [expandS_is_algorithm_33 m O hO p he _ hrhoP] at hSnp ⊢
  rw [expandA_is_algorithm_32 m O hO p _ hrho] at hAnp ⊢
  cases hea : Spec.expandA (fun x => O.g x (1680 * O.fuelScale)) p.k p.l ((O.h (xi ++ [p.k % 256, p.l % 256]) 128).take 32) with
  | none =>
    cases hes : Spec.expandS (fun x => O.h x (1088 * O.fuelScale)) p.eta p.k p.l (((O.h (xi ++ [p.k % 256, p.l % 256]) 128).drop 32).take 64) with
    | none => exact ⟨_, rfl⟩
    | some ss => exact ⟨_, rfl⟩
  | some aHat =>
    cases hes : Spec.expandS (fun x => O.h x (1088 * O.fuelScale)) p.eta p.k p.l (((O.h (xi ++ [p.k % 256, p.l % 256]) 128).drop 32).take 64) with
    | none => exact ⟨_, rfl⟩
    | some ss =>
      obtain ⟨s1, s2⟩ := ss
      rw [hes] at hSnp
      rw [hea] at hAnp
      obtain ⟨sh1, sh2, r1, r2⟩ := NoPanic.ok_elim hSnp
      have hA := NoPanic.ok_elim hAnp
      simp only [] at sh1 sh2 r1 r2
      simp only [ofSpec, ok_bind]
      have hf : (fun (row : List Poly) (s2r : Poly) => tRowS row s1 s2r) =
          (fun row s2r => Spec.addQ (Spec.invNtt (Spec.rowTimes row (s1.map Spec.ntt))) s2r) := by
        funext row s2r; exact tRowS_is_spec row s1 s2r
      rw [hf]
      obtain ⟨hshT, hcanT⟩ := spec_t_shape aHat s1 s2 p.k ⟨hA.1, fun row hrow q hq => ((hA.2 row hrow).2 q hq).1⟩ sh1.2 sh2
      have hp2 := power2round_pure m _ hcanT
      obtain ⟨r1', r0', hp2', sht1, sht0, bt1, bt0⟩ := power2round_ok m p.k _ hcanT hshT
      rw [hp2] at hp2'
      have er := ok_inj hp2'
      simp only [Prod.mk.injEq] at er
      obtain ⟨e1, e0⟩ := er
      subst e1 e0
      rw [pkEncode_is_algorithm_22 m p _ _ hrho hpcfg sht1 bt1, ok_bind]
      have htop : top = 4096 := by decide
      rw [skEncode_is_algorithm_24 m p he bl hbl hcfg
        { rho := (O.h (xi ++ [p.k % 256, p.l % 256]) 128).take 32, key := ((O.h (xi ++ [p.k % 256, p.l % 256]) 128).drop 96).take 32,
          tr := O.h _ 64, s1 := s1, s2 := s2, t0 := _ }
        hrho hkey (hO.hlen _ _) ⟨sh1, r1⟩ ⟨sh2, r2⟩ ⟨sht0, fun q hq x hx => by have := bt0 q hq x hx; rw [htop]; omega⟩, ok_bind, pure_eq]
      rfl


/-- **key generation followed by serialisation is FIPS 204 Algorithm 6 as the standard writes it**: for each of the three parameter sets,
    every oracle and every seed, in both build modes, the byte strings are exactly `Spec.keyGenInternal`'s `(pk, sk)`
    (Algorithms 32, 30, 33, 31, 41, 42, 35, 22, 24, 16, 17 as transcribed in `Spec/*`) -/
theorem keygen_is_algorithm_6_as_written (m : Mode) (O : Oracles) (hO : OracleOk O) (p : ParamSet) (hp : p ∈ [ml_dsa_44, ml_dsa_65, ml_dsa_87])
    (xi : List Nat) :
    Agrees (keygenFromSeed m O p xi >>= fun kp => pkIntoBytes m p kp.1 >>= fun pkb => skIntoBytes m p kp.2 >>= fun skb => pure (pkb, skb))
      (Spec.keyGenInternal (specParams p) O.h O.g (1680 * O.fuelScale) (1088 * O.fuelScale) xi) := by
  rw [Props.C04.key_generation_is_algorithm_6 m O hO p hp xi]
  obtain ⟨bl, he, hbl, hcfg⟩ := Fips204.Props.C10.sk_config m p hp
  obtain ⟨_, _, hpcfg⟩ := Fips204.Props.C13.keyCfg_of_mem p hp
  have hbs : Spec.bitlen (2 * p.eta) = bl := by
    have b3 : bitLen m (2 * 2) = .ok 3 := of_toOption _ _ (by cases m <;> decide +kernel)
    have b4 : bitLen m (2 * 4) = .ok 4 := of_toOption _ _ (by cases m <;> decide +kernel)
    rcases he with h | h
    · rw [h] at hbl ⊢; rw [b3] at hbl; cases hbl; decide
    · rw [h] at hbl ⊢; rw [b4] at hbl; cases hbl; decide
  exact keygenSpec_is_algorithm_6 m O hO p he hpcfg bl hbl hbs hcfg xi

end Fips204.Impl
