import Fips204.Gen.Kernels
import Fips204.Lemmas.Arith
import Fips204.Spec.Arith
/-!
  Equational lemmas about the *generated* scalar kernels (`Fips204.Gen.Kernels`, regenerated from
  the Rust source on every run).  Each says: on the documented input range the kernel returns
  `.ok v` in **both** build modes, for an explicit exact value `v`.
-/
namespace Fips204.K
open Fips204 Fips204.Gen

def pr32 (a : Int) : Int := a - (a + 4194304) / 8388608 * 8380417

theorem partial_reduce32_eq (m : Mode) (a : Int) (h1 : -2143289344 < a) (h2 : a < 2143289344) :
    partial_reduce32 m a = .ok (pr32 a) := by
  unfold partial_reduce32 pr32
  simp only [Q] at *
  ksimp

theorem pr32_spec (a : Int) (h1 : -2143289344 < a) (h2 : a < 2143289344) :
    (pr32 a - a) % 8380417 = 0 ∧ -8380417 < pr32 a ∧ pr32 a < 8380417 := by
  unfold pr32; omega

/-- tighter output bound of `partial_reduce32`: |r| ≤ 2^22 + small -/
theorem pr32_tight (a : Int) (h1 : -2143289344 < a) (h2 : a < 2143289344) :
    -4194304 - 2093056 ≤ pr32 a ∧ pr32 a ≤ 4194304 + 2093056 := by
  unfold pr32; omega

theorem full_reduce32_eq (m : Mode) (a : Int) (h1 : -2143289344 < a) (h2 : a < 2143289344) :
    full_reduce32 m a = .ok (a % Q) := by
  unfold full_reduce32
  simp only [Q] at *
  ksimp [partial_reduce32_eq, pr32]
  congr 1; omega

theorem center_mod_eq (m : Mode) (a : Int) (h1 : -2143289344 < a) (h2 : a < 2143289344) :
    center_mod m a = .ok (modpm Q a) := by
  unfold center_mod modpm
  simp only [Q] at *
  ksimp [full_reduce32_eq, Q]
  congr 1; split <;> omega

/-- the 32-bit Montgomery factor `t = (a as i32).wrapping_mul(QINV)` -/
def montT (a : Int) : Int := IT.i32.wrap (IT.i32.wrap a * 58728449)
/-- Montgomery reduction: exact value -/
def montv (a : Int) : Int := (a - montT a * 8380417) / 4294967296

theorem montT_range (a : Int) : -2147483648 ≤ montT a ∧ montT a ≤ 2147483647 := by
  unfold montT; simp only [IT.wrap, IT.lo, IT.modulus]; omega

/-- `a - t q` is an exact multiple of 2^32 (uses q * QINV = 1 + 114592 * 2^32) -/
theorem mont_exact (a : Int) : (a - montT a * 8380417) % 4294967296 = 0 := by
  unfold montT; simp only [IT.wrap, IT.lo, IT.modulus]
  have h : a - ((((a - -2147483648) % 4294967296 + -2147483648) * 58728449 - -2147483648) % 4294967296 + -2147483648) * 8380417
      = 4294967296 * ((((a - -2147483648) % 4294967296 + -2147483648) * 58728449 - -2147483648) / 4294967296 * 8380417
          - 114592 * a + 492168892383233 * ((a - -2147483648) / 4294967296)) := by omega
  rw [h]; omega

theorem mont_reduce_eq (m : Mode) (a : Int) (h1 : -17996808479301632 ≤ a) (h2 : a ≤ 17996808470921215) :
    mont_reduce m a = .ok (montv a) := by
  unfold mont_reduce montv
  have ht := montT_range a
  have he := mont_exact a
  unfold montT at *
  dsimp only
  generalize IT.i32.wrap (IT.i32.wrap a * 58728449) = t at *
  have hw := wrap64_id (t * 8380417) (by omega) (by omega)
  have hw2 := wrap32_id ((a - t * 8380417) / 4294967296) (by omega) (by omega)
  ksimp [hw, hw2]

theorem montv_spec (a : Int) (h1 : -17996808479301632 ≤ a) (h2 : a ≤ 17996808470921215) :
    (montv a * 4294967296 - a) % 8380417 = 0 ∧ -8380417 < montv a ∧ montv a < 8380417 := by
  unfold montv
  have ht := montT_range a
  have he := mont_exact a
  generalize montT a = t at *
  omega

/-- sharper bound used by the NTT envelope: |r| ≤ |a|/2^32 + q/2 + 2 -/
theorem montv_bound (a B : Int) (h1 : -B ≤ a) (h2 : a ≤ B) :
    -(B / 4294967296 + 4190210) ≤ montv a ∧ montv a ≤ B / 4294967296 + 4190210 := by
  unfold montv
  have ht := montT_range a
  generalize montT a = t at *
  omega

/-- exact value of `partial_reduce64` on the caller's shape `x << 32` -/
def pr64s (x : Int) : Int :=
  let a := x * 4294967296
  let a := a - a / 8388608 * 8380417
  let a := a - a / 8388608 * 8380417
  a - a * 33587228 / 281474976710656 * 8380417

/-- `to_mont` on one coefficient, for |x| ≤ 67_000_000 (every call site stays below 4.1 q ≈ 3.4e7).
    The documented bound 67_058_539 is tight to within 119 units of an i64 overflow of `a * M`, which
    linear arithmetic cannot see; the top slice is covered by `to_mont_top` (kernel evaluation). -/
theorem to_mont_coeff_eq (m : Mode) (x : Int) (h1 : -67000000 ≤ x) (h2 : x ≤ 67000000) :
    to_mont_coeff m x = .ok (pr64s x) := by
  unfold to_mont_coeff partial_reduce64 pr64s
  have hw := wrap64_id (x * 4294967296) (by omega) (by omega)
  have e0 : x * 4294967296 / 8388608 = x * 512 := by omega
  have e1 : x * 4294967296 - x * 512 * 8380417 = x * 4193792 := by omega
  obtain ⟨d, hd⟩ : ∃ d, x * 4193792 / 8388608 = d := ⟨_, rfl⟩
  have hd1 : 16384 * d ≤ 8191 * x := by omega
  have hd2 : 8191 * x < 16384 * d + 16384 := by omega
  obtain ⟨a2, ha2⟩ : ∃ a2, x * 4193792 - d * 8380417 = a2 := ⟨_, rfl⟩
  have hb1 : a2 ≤ 274400000000 := by omega
  have hb2 : -274400000000 ≤ a2 := by omega
  obtain ⟨q3, hq⟩ : ∃ q3, a2 * 33587228 / 281474976710656 = q3 := ⟨_, rfl⟩
  have hq1 : 281474976710656 * q3 ≤ a2 * 33587228 := by omega
  have hq2 : a2 * 33587228 < 281474976710656 * q3 + 281474976710656 := by omega
  have hw2 := wrap32_id (a2 - q3 * 8380417) (by omega) (by omega)
  simp only [hw]
  ksimp [e0, e1, hd, ha2, hq, hw2]

theorem pr64s_spec (x : Int) (h1 : -67000000 ≤ x) (h2 : x ≤ 67000000) :
    (pr64s x - x * 4294967296) % 8380417 = 0 ∧ -16760834 < pr64s x ∧ pr64s x < 16760834 := by
  unfold pr64s; simp only []
  have e0 : x * 4294967296 / 8388608 = x * 512 := by omega
  have e1 : x * 4294967296 - x * 512 * 8380417 = x * 4193792 := by omega
  simp only [e0, e1]
  generalize hd : x * 4193792 / 8388608 = d
  have hd1 : 16384 * d ≤ 8191 * x := by omega
  have hd2 : 8191 * x < 16384 * d + 16384 := by omega
  generalize ha2 : x * 4193792 - d * 8380417 = a2
  have hb1 : a2 ≤ 274400000000 := by omega
  have hb2 : -274400000000 ≤ a2 := by omega
  have hc : (a2 - x * 4294967296) % 8380417 = 0 := by omega
  generalize hq : a2 * 33587228 / 281474976710656 = q3
  have hq1 : 281474976710656 * q3 ≤ a2 * 33587228 := by omega
  have hq2 : a2 * 33587228 < 281474976710656 * q3 + 281474976710656 := by omega
  omega

/-- multiply-shift quotient of `decompose` (gamma2 = 95232) is the rounded quotient; one `omega` per interval -/
theorem r1_44 (rp : Int) (h0 : 0 ≤ rp) (h1 : rp < 8380417) :
    (((rp + 127) / 128) * 11275 + 8388608) / 16777216 = (rp + 95231) / 190464 := by
  have hk : (rp + 95231) / 190464 = 0 ∨ (rp + 95231) / 190464 = 1 ∨ (rp + 95231) / 190464 = 2 ∨ (rp + 95231) / 190464 = 3 ∨ (rp + 95231) / 190464 = 4 ∨ (rp + 95231) / 190464 = 5 ∨ (rp + 95231) / 190464 = 6 ∨ (rp + 95231) / 190464 = 7 ∨ (rp + 95231) / 190464 = 8 ∨ (rp + 95231) / 190464 = 9 ∨ (rp + 95231) / 190464 = 10 ∨ (rp + 95231) / 190464 = 11 ∨ (rp + 95231) / 190464 = 12 ∨ (rp + 95231) / 190464 = 13 ∨ (rp + 95231) / 190464 = 14 ∨ (rp + 95231) / 190464 = 15 ∨ (rp + 95231) / 190464 = 16 ∨ (rp + 95231) / 190464 = 17 ∨ (rp + 95231) / 190464 = 18 ∨ (rp + 95231) / 190464 = 19 ∨ (rp + 95231) / 190464 = 20 ∨ (rp + 95231) / 190464 = 21 ∨ (rp + 95231) / 190464 = 22 ∨ (rp + 95231) / 190464 = 23 ∨ (rp + 95231) / 190464 = 24 ∨ (rp + 95231) / 190464 = 25 ∨ (rp + 95231) / 190464 = 26 ∨ (rp + 95231) / 190464 = 27 ∨ (rp + 95231) / 190464 = 28 ∨ (rp + 95231) / 190464 = 29 ∨ (rp + 95231) / 190464 = 30 ∨ (rp + 95231) / 190464 = 31 ∨ (rp + 95231) / 190464 = 32 ∨ (rp + 95231) / 190464 = 33 ∨ (rp + 95231) / 190464 = 34 ∨ (rp + 95231) / 190464 = 35 ∨ (rp + 95231) / 190464 = 36 ∨ (rp + 95231) / 190464 = 37 ∨ (rp + 95231) / 190464 = 38 ∨ (rp + 95231) / 190464 = 39 ∨ (rp + 95231) / 190464 = 40 ∨ (rp + 95231) / 190464 = 41 ∨ (rp + 95231) / 190464 = 42 ∨ (rp + 95231) / 190464 = 43 ∨ (rp + 95231) / 190464 = 44 := by omega
  rcases hk with h | h | h | h | h | h | h | h | h | h | h | h | h | h | h | h | h | h | h | h | h | h | h | h | h | h | h | h | h | h | h | h | h | h | h | h | h | h | h | h | h | h | h | h | h <;> rw [h] <;> omega

/-- multiply-shift quotient of `decompose` (gamma2 = 261888) is the rounded quotient; one `omega` per interval -/
theorem r1_65 (rp : Int) (h0 : 0 ≤ rp) (h1 : rp < 8380417) :
    (((rp + 127) / 128) * 1025 + 2097152) / 4194304 = (rp + 261887) / 523776 := by
  have hk : (rp + 261887) / 523776 = 0 ∨ (rp + 261887) / 523776 = 1 ∨ (rp + 261887) / 523776 = 2 ∨ (rp + 261887) / 523776 = 3 ∨ (rp + 261887) / 523776 = 4 ∨ (rp + 261887) / 523776 = 5 ∨ (rp + 261887) / 523776 = 6 ∨ (rp + 261887) / 523776 = 7 ∨ (rp + 261887) / 523776 = 8 ∨ (rp + 261887) / 523776 = 9 ∨ (rp + 261887) / 523776 = 10 ∨ (rp + 261887) / 523776 = 11 ∨ (rp + 261887) / 523776 = 12 ∨ (rp + 261887) / 523776 = 13 ∨ (rp + 261887) / 523776 = 14 ∨ (rp + 261887) / 523776 = 15 ∨ (rp + 261887) / 523776 = 16 := by omega
  rcases hk with h | h | h | h | h | h | h | h | h | h | h | h | h | h | h | h | h <;> rw [h] <;> omega

theorem clear44 (k : Int) (h0 : 0 ≤ k) (h1 : k ≤ 44) :
    bxor .i32 k (band .i32 ((43 - k) / 2147483648) k) = if k = 44 then 0 else k := by
  rw [band32_signmask _ _ (by omega) (by omega) (by omega) (by omega)]
  by_cases h : k = 44
  · subst h; decide +kernel
  · rw [if_neg (by omega), if_neg h, bxor32_zero _ (by omega) (by omega)]

theorem decompose_44_eq (m : Mode) (r : Int) (h1 : -2143289344 < r) (h2 : r < 2143289344) :
    decompose m 95232 r = .ok (Spec.decompose 95232 r) := by
  unfold decompose Spec.decompose modpm
  have hq := Int.emod_lt_of_pos r (show (0:Int) < 8380417 by decide)
  have hq0 := Int.emod_nonneg r (show (8380417:Int) ≠ 0 by decide)
  simp only [Q] at *
  have e1 : band .i32 95232 131072 = 0 := by decide +kernel
  generalize hrp : r % 8380417 = rp at *
  simp (disch := omega) only [full_reduce32_eq, Q, e1, hrp, r1_44, arith_i32, pure_eq, ok_bind, error_bind,
    decide_true, if_true, clear44]
  by_cases h44 : (rp + 95231) / 190464 = 44
  · simp only [h44, if_true]
    ksimp
    congr 1
    repeat' split
    all_goals first | omega | (apply Prod.ext <;> dsimp only <;> omega)
  · simp only [h44, if_false]
    ksimp
    congr 1
    repeat' split
    all_goals first | omega | (apply Prod.ext <;> dsimp only <;> omega)

theorem decompose_65_eq (m : Mode) (r : Int) (h1 : -2143289344 < r) (h2 : r < 2143289344) :
    decompose m 261888 r = .ok (Spec.decompose 261888 r) := by
  unfold decompose Spec.decompose modpm
  have hq := Int.emod_lt_of_pos r (show (0:Int) < 8380417 by decide)
  have hq0 := Int.emod_nonneg r (show (8380417:Int) ≠ 0 by decide)
  simp only [Q] at *
  have e1 : band .i32 261888 131072 = 131072 := by decide +kernel
  generalize hrp : r % 8380417 = rp at *
  simp (disch := omega) only [full_reduce32_eq, Q, e1, hrp, r1_65, arith_i32, pure_eq, ok_bind, error_bind,
    band32_15]
  simp only [show (decide ((131072:Int) = 0)) = false by decide, Bool.false_eq_true, if_false]
  by_cases h16 : (rp + 261887) / 523776 = 16
  · simp only [h16, show (16:Int) % 16 = 0 by decide]
    ksimp
    congr 1
    repeat' split
    all_goals first | omega | (apply Prod.ext <;> dsimp only <;> omega)
  · have hk : (rp + 261887) / 523776 % 16 = (rp + 261887) / 523776 := by omega
    simp only [hk]
    ksimp
    congr 1
    repeat' split
    all_goals first | omega | (apply Prod.ext <;> dsimp only <;> omega)

end Fips204.K
