import Fips204.Lemmas.Samplers
/-! `bit_pack` / `simple_bit_pack` (Algorithms 16/17) never fault on in-range polynomials, and fill exactly the
    output slice; `use_hint` range; `w1_encode` never faults on what `use_hint` returns. -/
namespace Fips204.Impl
open Fips204 Fips204.Gen Fips204.K

theorem drainBytes_ok : ∀ (fuel : Nat) (temp : Int) (bi : Nat) (out : List Nat), bi < 8 * (fuel + 1) →
    ∃ t' bi' out', drainBytes fuel temp bi out = (t', bi', out') ∧ bi' ≤ 7 ∧ 8 * out'.length + bi' = 8 * out.length + bi := by
  intro fuel
  induction fuel with
  | zero => intro temp bi out h; exact ⟨temp, bi, out, rfl, by omega, rfl⟩
  | succ fuel ih =>
    intro temp bi out h
    unfold drainBytes
    by_cases hb : bi > 7
    · rw [if_pos hb]
      obtain ⟨t', bi', out', h1, h2, h3⟩ := ih (temp / 256) (bi - 8) ((temp % 256).toNat :: out) (by omega)
      exact ⟨t', bi', out', h1, h2, by rw [h3, List.length_cons]; omega⟩
    · rw [if_neg hb]; exact ⟨temp, bi, out, rfl, by omega, rfl⟩

theorem packStep_ok (m : Mode) (a b : Int) (bl outLen : Nat) (hbl : bl ≤ 20) (temp : Int) (bi : Nat) (out : List Nat)
    (coeff : Int) (hbi : bi ≤ 7) (hroom : 8 * out.length + bi + bl ≤ 8 * outLen) :
    ∃ t' bi' out', packStep m a b bl outLen (temp, bi, out) coeff = .ok (t', bi', out') ∧ bi' ≤ 7 ∧
      8 * out'.length + bi' = 8 * out.length + bi + bl := by
  unfold packStep
  have hs : ∀ v : Int, shl .u32 m "conversion.rs:bit_pack:<<bit_index" v bi = .ok (IT.u32.wrap (v * 2 ^ bi)) := by
    intro v
    unfold shl
    rw [if_pos (by simp only [IT.bits]; omega)]
    simp [pure_eq]
  simp only [hs, ok_bind]
  obtain ⟨t', bi', out', h1, h2, h3⟩ := drainBytes_ok 8 (bor .u32 temp (IT.u32.wrap ((if a > 0 then absI (b - coeff) else absI coeff) * 2 ^ bi))) (bi + bl) out (by omega)
  rw [h1]
  simp only []
  rw [if_neg (by omega), pure_eq]
  exact ⟨t', bi', out', rfl, h2, by omega⟩

theorem packFold_ok (m : Mode) (a b : Int) (bl outLen : Nat) (hbl : bl ≤ 20) :
    ∀ (w : List Int) (temp : Int) (bi : Nat) (out : List Nat), bi ≤ 7 → 8 * out.length + bi + w.length * bl ≤ 8 * outLen →
      ∃ t' bi' out', w.foldlM (packStep m a b bl outLen) (temp, bi, out) = .ok (t', bi', out') ∧
        8 * out'.length + bi' = 8 * out.length + bi + w.length * bl := by
  intro w
  induction w with
  | nil => intro temp bi out _ _; exact ⟨temp, bi, out, by simp [pure_eq], by simp⟩
  | cons c cs ih =>
    intro temp bi out hbi hroom
    rw [List.length_cons, Nat.add_mul, Nat.one_mul] at hroom
    obtain ⟨t1, bi1, out1, h1, h2, h3⟩ := packStep_ok m a b bl outLen hbl temp bi out c hbi (by omega)
    obtain ⟨t2, bi2, out2, h4, h5⟩ := ih t1 bi1 out1 h2 (by omega)
    refine ⟨t2, bi2, out2, by rw [List.foldlM_cons, h1, ok_bind, h4], ?_⟩
    rw [h5, h3, List.length_cons, Nat.add_mul, Nat.one_mul]; omega

/-- **`bit_pack` never faults** on a polynomial inside `[-a, b]`, and returns exactly `outLen = 32 * bitlen` bytes -/
theorem bitPack_ok (m : Mode) (w : Poly) (a b : Int) (bl : Nat) (ha : 0 ≤ a ∧ a < 1048576) (hb : 1 ≤ b ∧ b < 1048576)
    (hbl : bitLen m (a + b) = .ok bl) (hbl2 : bl ≤ 20) (hw : ∀ c ∈ w, -a ≤ c ∧ c ≤ b) (hlen : w.length = 256) :
    ∃ out, bitPack m w a b (32 * bl) = .ok out ∧ out.length = 32 * bl := by
  unfold bitPack
  have d1 := dassert_dec m "conversion.rs:bit_pack:debug_assert(Alg 17: a out of range)" (decide (0 ≤ a) && decide (a < 1048576)) (by simp; omega)
  have d2 := dassert_dec m "conversion.rs:bit_pack:debug_assert(Alg 17: b out of range)" (decide (1 ≤ b) && decide (b < 1048576)) (by simp; omega)
  have d3 := dassertM_ok m "conversion.rs:bit_pack:debug_assert(Alg 17: w out of range)" _ (isInRange_true m w a b (by omega) hw)
  rw [d1, ok_bind, d2, ok_bind, d3, ok_bind, arith_i32 _ _ _ (by omega) (by omega), ok_bind, hbl]
  have hbeq : (w.length * bl == 32 * bl * 8) = true := by
    rw [hlen]; simp only [beq_iff_eq]; omega
  simp only [ok_bind, pure_eq, hbeq, dassertM_true]
  obtain ⟨t', bi', out', h1, h2⟩ := packFold_ok m a b bl (32 * bl) hbl2 w 0 0 [] (by omega) (by rw [hlen]; simp; omega)
  rw [h1, ok_bind]
  refine ⟨_, rfl, ?_⟩
  have : out'.length ≤ 32 * bl := by rw [hlen] at h2; simp at h2; omega
  show (out'.reverse ++ List.replicate (32 * bl - out'.reverse.length) 0).length = 32 * bl
  rw [List.length_append, List.length_replicate, List.length_reverse]
  omega

theorem simpleBitPack_ok (m : Mode) (w : Poly) (b : Int) (bl : Nat) (hb : 1 ≤ b ∧ b < 1048576)
    (hbl : bitLen m b = .ok bl) (hbl2 : bl ≤ 20) (hw : ∀ c ∈ w, 0 ≤ c ∧ c ≤ b) (hlen : w.length = 256) :
    ∃ out, simpleBitPack m w b (32 * bl) = .ok out ∧ out.length = 32 * bl := by
  unfold simpleBitPack
  have d1 := dassert_dec m "conversion.rs:simple_bit_pack:debug_assert(Alg 16: b out of range)" (decide (1 ≤ b) && decide (b < 1048576)) (by simp; omega)
  have d2 := dassertM_ok m "conversion.rs:simple_bit_pack:debug_assert(Alg 16: w out of range)" _
    (isInRange_true m w 0 b (by omega) (fun c hc => by have := hw c hc; omega))
  rw [d1, ok_bind, d2, ok_bind]
  simp only [hbl, ok_bind, pure_eq, beq_self_eq_true, dassertM_true]
  exact bitPack_ok m w 0 b bl (by omega) hb (by rw [Int.zero_add]; exact hbl) hbl2 (fun c hc => by have := hw c hc; omega) hlen

/-! ### UseHint range -/

theorem useHint_range (g h r : Int) (hg : g = 95232 ∨ g = 261888) :
    0 ≤ Spec.useHint g h r ∧ Spec.useHint g h r ≤ (Q - 1) / (2 * g) - 1 := by
  unfold Spec.useHint
  rcases hg with rfl | rfl
  · have hm : ((Q : Int) - 1) / (2 * 95232) = 44 := by decide
    have := spec_decompose_r1_44 r
    rw [hm]
    dsimp only
    split
    · constructor
      · exact Int.emod_nonneg _ (by omega)
      · have := Int.emod_lt_of_pos ((Spec.decompose 95232 r).1 + 1) (show (0:Int) < 44 by omega); omega
    · split
      · constructor
        · exact Int.emod_nonneg _ (by omega)
        · have := Int.emod_lt_of_pos ((Spec.decompose 95232 r).1 - 1) (show (0:Int) < 44 by omega); omega
      · omega
  · have hm : ((Q : Int) - 1) / (2 * 261888) = 16 := by decide
    have := spec_decompose_r1_65 r
    rw [hm]
    dsimp only
    split
    · constructor
      · exact Int.emod_nonneg _ (by omega)
      · have := Int.emod_lt_of_pos ((Spec.decompose 261888 r).1 + 1) (show (0:Int) < 16 by omega); omega
    · split
      · constructor
        · exact Int.emod_nonneg _ (by omega)
        · have := Int.emod_lt_of_pos ((Spec.decompose 261888 r).1 - 1) (show (0:Int) < 16 by omega); omega
      · omega

end Fips204.Impl
