import Fips204.Lemmas.SpecHint
import Fips204.Lemmas.SignOk
/-!
  A hint vector returned by `Spec.hintBitUnpack` (Algorithm 21) has at most `omega` ones: each pass of the `while` loop sets one coefficient
  and advances `Index`, and `Index` never exceeds `omega`.
-/
namespace Fips204.Impl
open Fips204 Fips204.Gen

theorem hintWhile_weight (y : List Nat) (first limit : Nat) : ∀ (fuel index : Nat) (hp : List Int) (index' : Nat) (hp' : List Int),
    Spec.hintWhile y first limit fuel index hp = some (index', hp') →
      index ≤ index' ∧ (index ≤ limit → index' ≤ limit) ∧ ones hp' + index ≤ ones hp + index' := by
  intro fuel
  induction fuel with
  | zero =>
    intro index hp index' hp' h
    simp only [Spec.hintWhile, Option.some.injEq, Prod.mk.injEq] at h
    obtain ⟨rfl, rfl⟩ := h
    exact ⟨Nat.le_refl _, fun h => h, Nat.le_refl _⟩
  | succ fuel ih =>
    intro index hp index' hp' h
    unfold Spec.hintWhile at h
    by_cases hlt : index < limit
    · rw [if_pos hlt] at h
      split at h
      · cases h
      · obtain ⟨a, b, c⟩ := ih (index + 1) _ index' hp' h
        have hs := ones_set_le hp (y.getD index 0)
        exact ⟨by omega, fun _ => b (by omega), by omega⟩
    · rw [if_neg hlt] at h
      simp only [Option.some.injEq, Prod.mk.injEq] at h
      obtain ⟨rfl, rfl⟩ := h
      exact ⟨Nat.le_refl _, fun h => h, Nat.le_refl _⟩

theorem onesAll_reverse_cons (hp : List Int) (acc : List (List Int)) : onesAll (hp :: acc) = ones hp + onesAll acc := onesAll_cons hp acc

theorem onesAll_append_single (acc : List Poly) (hp : Poly) : onesAll (acc ++ [hp]) = onesAll acc + ones hp := by
  induction acc with
  | nil => simp [onesAll_cons, onesAll]
  | cons a as ih => rw [List.cons_append, onesAll_cons, onesAll_cons, ih]; omega

theorem onesAll_reverse (acc : List Poly) : onesAll acc.reverse = onesAll acc := by
  induction acc with
  | nil => rfl
  | cons a as ih => rw [List.reverse_cons, onesAll_append_single, ih, onesAll_cons]; omega

theorem ones_replicate_zero (n : Nat) : ones (List.replicate n (0 : Int)) = 0 := by
  induction n with
  | zero => rfl
  | succ n ih => simp only [List.replicate_succ, ones, List.filter_cons] at ih ⊢; simpa using ih

theorem hintFor_weight (y : List Nat) (omega : Nat) : ∀ (is : List Nat) (index : Nat) (acc : List (List Int)) (index' : Nat) (h : List (List Int)),
    Spec.hintFor y omega is index acc = some (index', h) → index ≤ omega →
      index ≤ index' ∧ index' ≤ omega ∧ onesAll h + index ≤ onesAll acc + index' := by
  intro is
  induction is with
  | nil =>
    intro index acc index' h hh ho
    simp only [Spec.hintFor, Option.some.injEq, Prod.mk.injEq] at hh
    obtain ⟨rfl, rfl⟩ := hh
    exact ⟨Nat.le_refl _, ho, by rw [onesAll_reverse]; exact Nat.le_refl _⟩
  | cons i is ih =>
    intro index acc index' h hh ho
    unfold Spec.hintFor at hh
    split at hh
    · cases hh
    · rename_i hc
      have hc1 : index ≤ y.getD (omega + i) 0 := by omega
      have hc2 : y.getD (omega + i) 0 ≤ omega := by omega
      split at hh
      · cases hh
      · rename_i ix hp hw
        obtain ⟨a, b, c⟩ := hintWhile_weight y index _ 256 index _ ix hp hw
        obtain ⟨a', b', c'⟩ := ih ix (hp :: acc) index' h hh (by have := b hc1; omega)
        rw [onesAll_cons, ones_replicate_zero] at *
        exact ⟨by omega, b', by omega⟩

/-- **a decoded hint vector has weight at most omega** -/
theorem spec_hintBitUnpack_weight (omega k : Nat) (y : List Nat) (h : List (List Int)) (hd : Spec.hintBitUnpack omega k y = some h) :
    onesAll h ≤ omega := by
  unfold Spec.hintBitUnpack at hd
  split at hd
  · cases hd
  · rename_i index h' hf
    split at hd
    · cases hd
    · simp only [Option.some.injEq] at hd
      subst hd
      obtain ⟨_, b, c⟩ := hintFor_weight y omega (List.range k) 0 [] index h' hf (Nat.zero_le _)
      have : onesAll ([] : List Poly) = 0 := rfl
      rw [this] at c
      omega

end Fips204.Impl
