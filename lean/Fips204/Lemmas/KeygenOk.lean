import Fips204.Lemmas.SignOk
/-! Key generation and public-key derivation never panic: `expand_s`, `power2round` on vectors, `pk_encode`,
    `unMontCentered`, and their compositions. -/
namespace Fips204.Impl
open Fips204 Fips204.Gen Fips204.K

/-! ### Power2Round on vectors -/

theorem spec_p2r_range (r : Int) : 0 ≤ (Spec.power2round r).1 ∧ (Spec.power2round r).1 ≤ 1023 ∧
    -4096 < (Spec.power2round r).2 ∧ (Spec.power2round r).2 ≤ 4096 := by
  unfold Spec.power2round modpm
  simp only [Q]
  split <;> omega

theorem p2r_parts (m : Mode) (r : Int) (h0 : 0 ≤ r) (h1 : r < 8380417) :
    power2round_r1 m r = .ok (Spec.power2round r).1 ∧ power2round_r0 m r (Spec.power2round r).1 = .ok (Spec.power2round r).2 := by
  have h := power2round_eq m r h0 h1
  obtain ⟨a, ha, h⟩ := bind_ok_inv h
  obtain ⟨b, hb, h⟩ := bind_ok_inv h
  rw [pure_eq] at h
  have := ok_inj h
  have e1 : a = (Spec.power2round r).1 := by rw [← this]
  have e2 : b = (Spec.power2round r).2 := by rw [← this]
  subst e1
  exact ⟨ha, by rw [hb, e2]⟩

theorem zipWithM_map_pure {α β γ} (g : α → β → M γ) (f : α → β) (h : α → γ) : ∀ l : List α, (∀ x ∈ l, g x (f x) = .ok (h x)) →
    zipWithM g l (l.map f) = .ok (l.map h) := by
  intro l
  induction l with
  | nil => intro _; simp [zipWithM, pure_eq]
  | cons a as ih =>
    intro hl
    simp only [List.map_cons, zipWithM]
    rw [hl a (List.mem_cons_self ..), ok_bind, ih (fun x hx => hl x (List.mem_cons_of_mem _ hx)), ok_bind, pure_eq]

theorem zipWith3M_map_pure {α β γ δ} (g : α → β → γ → M δ) (f1 : α → β) (f2 : α → γ) (h : α → δ) : ∀ l : List α,
    (∀ x ∈ l, g x (f1 x) (f2 x) = .ok (h x)) → zipWith3M g l (l.map f1) (l.map f2) = .ok (l.map h) := by
  intro l
  induction l with
  | nil => intro _; simp [zipWith3M, pure_eq]
  | cons a as ih =>
    intro hl
    simp only [List.map_cons, zipWith3M]
    rw [hl a (List.mem_cons_self ..), ok_bind, ih (fun x hx => hl x (List.mem_cons_of_mem _ hx)), ok_bind, pure_eq]

/-- canonical residues -/
def Can (q : Poly) : Prop := ∀ x ∈ q, 0 ≤ x ∧ x < 8380417

/-- `power2round` on a vector of canonical residues, as a pure function: Algorithm 35 coefficientwise -/
theorem power2round_pure (m : Mode) (r : List Poly) (hr : ∀ q ∈ r, Can q) :
    power2round m r = .ok (r.map (fun p => p.map (fun x => (Spec.power2round x).1)), r.map (fun p => p.map (fun x => (Spec.power2round x).2))) := by
  have hr1 : r.mapM (fun p => p.mapM (power2round_r1 m)) = .ok (r.map (fun p => p.map (fun x => (Spec.power2round x).1))) :=
    mapM_pure _ _ r (fun p hp => mapM_pure _ _ p (fun x hx => (p2r_parts m x (hr p hp x hx).1 (hr p hp x hx).2).1))
  have hr0 : zipWithM (fun p p1 => zipWithM (power2round_r0 m) p p1) r (r.map (fun p => p.map (fun x => (Spec.power2round x).1))) =
      .ok (r.map (fun p => p.map (fun x => (Spec.power2round x).2))) :=
    zipWithM_map_pure _ _ _ r (fun p hp => zipWithM_map_pure _ _ _ p (fun x hx => (p2r_parts m x (hr p hp x hx).1 (hr p hp x hx).2).2))
  have hck : zipWith3M (fun p p1 p0 => do
      let bs ← zipWith3M (power2round_check m) p p1 p0
      pure (bs.all id)) r (r.map (fun p => p.map (fun x => (Spec.power2round x).1))) (r.map (fun p => p.map (fun x => (Spec.power2round x).2))) =
      .ok (r.map (fun _ => true)) :=
    zipWith3M_map_pure _ _ _ _ r (fun p hp => by
      rw [zipWith3M_map_pure (power2round_check m) _ _ (fun _ => true) p
        (fun x hx => power2round_check_eq m x (hr p hp x hx).1 (hr p hp x hx).2), ok_bind, pure_eq]
      congr 1
      rw [List.all_eq_true]; intro b hb; obtain ⟨_, _, rfl⟩ := List.mem_map.mp hb; rfl)
  have hin : (r.all (fun p => p.all (fun e => decide (0 ≤ e) && decide (e < Q)))) = true := by
    rw [List.all_eq_true]; intro p hp
    rw [List.all_eq_true]; intro e he
    have := hr p hp e he
    simp only [Q, Bool.and_eq_true, decide_eq_true_eq]; omega
  have hall : ((r.map (fun _ => true)).all id) = true := by
    rw [List.all_eq_true]; intro b hb; obtain ⟨_, _, rfl⟩ := List.mem_map.mp hb; rfl
  unfold power2round
  rw [dassert_dec m _ _ hin, ok_bind, hr1, ok_bind, hr0, ok_bind]
  have d : dassertM m "high_low.rs:power2round:debug_assert(Alg 35: fails)" (do
      let cs ← zipWith3M (fun p p1 p0 => do
        let bs ← zipWith3M (power2round_check m) p p1 p0
        pure (bs.all id)) r (r.map (fun p => p.map (fun x => (Spec.power2round x).1))) (r.map (fun p => p.map (fun x => (Spec.power2round x).2)))
      pure (cs.all id)) = .ok () := by
    apply dassertM_ok; rw [hck, ok_bind, pure_eq, hall]
  rw [d, ok_bind, pure_eq]

theorem power2round_ok (m : Mode) (n : Nat) (r : List Poly) (hr : ∀ q ∈ r, Can q) (hs : Sh n r) :
    ∃ r1 r0, power2round m r = .ok (r1, r0) ∧ Sh n r1 ∧ Sh n r0 ∧ (∀ q ∈ r1, ∀ x ∈ q, 0 ≤ x ∧ x ≤ 1023) ∧
      (∀ q ∈ r0, ∀ x ∈ q, -4096 < x ∧ x ≤ 4096) := by
  have hr1 : r.mapM (fun p => p.mapM (power2round_r1 m)) = .ok (r.map (fun p => p.map (fun x => (Spec.power2round x).1))) :=
    mapM_pure _ _ r (fun p hp => mapM_pure _ _ p (fun x hx => (p2r_parts m x (hr p hp x hx).1 (hr p hp x hx).2).1))
  have hr0 : zipWithM (fun p p1 => zipWithM (power2round_r0 m) p p1) r (r.map (fun p => p.map (fun x => (Spec.power2round x).1))) =
      .ok (r.map (fun p => p.map (fun x => (Spec.power2round x).2))) :=
    zipWithM_map_pure _ _ _ r (fun p hp => zipWithM_map_pure _ _ _ p (fun x hx => (p2r_parts m x (hr p hp x hx).1 (hr p hp x hx).2).2))
  have hck : zipWith3M (fun p p1 p0 => do
      let bs ← zipWith3M (power2round_check m) p p1 p0
      pure (bs.all id)) r (r.map (fun p => p.map (fun x => (Spec.power2round x).1))) (r.map (fun p => p.map (fun x => (Spec.power2round x).2))) =
      .ok (r.map (fun _ => true)) :=
    zipWith3M_map_pure _ _ _ _ r (fun p hp => by
      rw [zipWith3M_map_pure (power2round_check m) _ _ (fun _ => true) p
        (fun x hx => power2round_check_eq m x (hr p hp x hx).1 (hr p hp x hx).2), ok_bind, pure_eq]
      congr 1
      rw [List.all_eq_true]; intro b hb; obtain ⟨_, _, rfl⟩ := List.mem_map.mp hb; rfl)
  have hin : (r.all (fun p => p.all (fun e => decide (0 ≤ e) && decide (e < Q)))) = true := by
    rw [List.all_eq_true]; intro p hp
    rw [List.all_eq_true]; intro e he
    have := hr p hp e he
    simp only [Q, Bool.and_eq_true, decide_eq_true_eq]; omega
  have hall : ((r.map (fun _ => true)).all id) = true := by
    rw [List.all_eq_true]; intro b hb; obtain ⟨_, _, rfl⟩ := List.mem_map.mp hb; rfl
  refine ⟨r.map (fun p => p.map (fun x => (Spec.power2round x).1)), r.map (fun p => p.map (fun x => (Spec.power2round x).2)), ?_, ⟨by rw [List.length_map]; exact hs.1, fun q hq => by
      obtain ⟨p, hp, rfl⟩ := List.mem_map.mp hq; rw [List.length_map]; exact hs.2 p hp⟩,
    ⟨by rw [List.length_map]; exact hs.1, fun q hq => by
      obtain ⟨p, hp, rfl⟩ := List.mem_map.mp hq; rw [List.length_map]; exact hs.2 p hp⟩, ?_, ?_⟩
  · unfold power2round
    rw [dassert_dec m _ _ hin, ok_bind, hr1, ok_bind, hr0, ok_bind]
    have d : dassertM m "high_low.rs:power2round:debug_assert(Alg 35: fails)" (do
        let cs ← zipWith3M (fun p p1 p0 => do
          let bs ← zipWith3M (power2round_check m) p p1 p0
          pure (bs.all id)) r (r.map (fun p => p.map (fun x => (Spec.power2round x).1))) (r.map (fun p => p.map (fun x => (Spec.power2round x).2)))
        pure (cs.all id)) = .ok () := by
      apply dassertM_ok; rw [hck, ok_bind, pure_eq, hall]
    rw [d, ok_bind, pure_eq]
  · intro q hq x hx
    obtain ⟨p, _, rfl⟩ := List.mem_map.mp hq
    obtain ⟨y, _, rfl⟩ := List.mem_map.mp hx
    have := spec_p2r_range y; omega
  · intro q hq x hx
    obtain ⟨p, _, rfl⟩ := List.mem_map.mp hq
    obtain ⟨y, _, rfl⟩ := List.mem_map.mp hx
    have := spec_p2r_range y; omega

/-! ### RejBoundedPoly / ExpandS -/

theorem spec_half_range (eta b : Int) (he : eta = 2 ∨ eta = 4) (hb : 0 ≤ b ∧ b ≤ 15) :
    ∀ v, Spec.coeffFromHalfByte eta b = some v → -eta ≤ v ∧ v ≤ eta := by
  intro v hv
  unfold Spec.coeffFromHalfByte at hv
  rcases he with rfl | rfl
  · split at hv
    · simp only [Option.some.injEq] at hv; omega
    · split at hv
      · omega
      · cases hv
  · split at hv
    · omega
    · split at hv
      · simp only [Option.some.injEq] at hv; omega
      · cases hv

theorem rejBoundedLoop_np (m : Mode) (eta : Int) (he : eta = 2 ∨ eta = 4) : ∀ (fuel : Nat) (s : List Nat) (acc : List Int),
    (∀ b ∈ s, b < 256) → acc.length ≤ 256 → (∀ x ∈ acc, -eta ≤ x ∧ x ≤ eta) →
    NoPanic (rejBoundedLoop m false eta fuel s acc) (fun r => r.length = 256 ∧ ∀ x ∈ r, -eta ≤ x ∧ x ≤ eta) := by
  intro fuel
  induction fuel with
  | zero => intro s acc _ _ _; exact Or.inr ⟨_, rfl⟩
  | succ fuel ih =>
    intro s acc hs hl ha
    unfold rejBoundedLoop
    by_cases hfull : acc.length ≥ 256
    · rw [if_pos hfull, pure_eq]
      exact NoPanic.ok _ ⟨by rw [List.length_reverse]; omega, fun x hx => ha x (List.mem_reverse.mp hx)⟩
    · rw [if_neg hfull]
      cases s with
      | nil => exact Or.inr ⟨_, rfl⟩
      | cons z rest =>
        have hz := hs z (List.mem_cons_self ..)
        have hrest : ∀ b ∈ rest, b < 256 := fun b hb => hs b (List.mem_cons_of_mem _ hb)
        have e0 : band .u8 (z : Int) 15 = (z : Int) % 16 := band8_15 (z : Int) (by omega) (by omega)
        have h0 := coeffhalf_eq m eta ((z : Int) % 16) he (by omega)
        have h1 := coeffhalf_eq m eta ((z : Int) / 16) he (by omega)
        have r0 := spec_half_range eta ((z : Int) % 16) he (by omega)
        have r1 := spec_half_range eta ((z : Int) / 16) he (by omega)
        simp only [e0, h0, h1, ok_bind]
        refine ih rest _ hrest ?_ ?_
        · cases Spec.coeffFromHalfByte eta ((z : Int) % 16) <;> cases Spec.coeffFromHalfByte eta ((z : Int) / 16) <;>
            (try simp only []) <;> (try split) <;> (try simp only [List.length_cons] at *) <;> omega
        · intro x hx
          cases hv0 : Spec.coeffFromHalfByte eta ((z : Int) % 16) with
          | none =>
            rw [hv0] at hx
            cases hv1 : Spec.coeffFromHalfByte eta ((z : Int) / 16) with
            | none => rw [hv1] at hx; exact ha x hx
            | some v1 =>
              rw [hv1] at hx
              simp only [] at hx
              split at hx
              · rcases List.mem_cons.mp hx with rfl | hx
                · exact r1 _ hv1
                · exact ha x hx
              · exact ha x hx
          | some v0 =>
            rw [hv0] at hx
            cases hv1 : Spec.coeffFromHalfByte eta ((z : Int) / 16) with
            | none =>
              rw [hv1] at hx
              rcases List.mem_cons.mp hx with rfl | hx
              · exact r0 _ hv0
              · exact ha x hx
            | some v1 =>
              rw [hv1] at hx
              simp only [] at hx
              split at hx
              · rcases List.mem_cons.mp hx with rfl | hx
                · exact r1 _ hv1
                · rcases List.mem_cons.mp hx with rfl | hx
                  · exact r0 _ hv0
                  · exact ha x hx
              · rcases List.mem_cons.mp hx with rfl | hx
                · exact r0 _ hv0
                · exact ha x hx

theorem rejBoundedPoly_np (m : Mode) (O : Oracles) (hO : OracleOk O) (eta : Int) (he : eta = 2 ∨ eta = 4) (rho : List Nat) (hr : rho.length = 66) :
    NoPanic (rejBoundedPoly m O false eta rho) (fun r => r.length = 256 ∧ ∀ x ∈ r, -eta ≤ x ∧ x ≤ eta) := by
  unfold rejBoundedPoly
  rw [dassert_dec m _ _ (by simp [hr]), ok_bind]
  exact rejBoundedLoop_np m eta he _ _ [] (hO.hbyte _ _) (by simp) (by simp)

theorem expandS_np (m : Mode) (O : Oracles) (hO : OracleOk O) (p : ParamSet) (he : p.eta = 2 ∨ p.eta = 4) (rho : List Nat) (hr : rho.length = 64) :
    NoPanic (expandS m O false p rho) (fun s => Sh p.l s.1 ∧ Sh p.k s.2 ∧ (∀ q ∈ s.1, ∀ x ∈ q, -p.eta ≤ x ∧ x ≤ p.eta) ∧
      (∀ q ∈ s.2, ∀ x ∈ q, -p.eta ≤ x ∧ x ≤ p.eta)) := by
  unfold expandS
  refine (mapM_np _ (fun q : Poly => q.length = 256 ∧ ∀ x ∈ q, -p.eta ≤ x ∧ x ≤ p.eta) (List.range p.l)
    (fun r _ => rejBoundedPoly_np m O hO p.eta he _ (by simp [hr]))).bind (fun s1 hs1 => ?_)
  refine (mapM_np _ (fun q : Poly => q.length = 256 ∧ ∀ x ∈ q, -p.eta ≤ x ∧ x ≤ p.eta) (List.range p.k)
    (fun r _ => rejBoundedPoly_np m O hO p.eta he _ (by simp [hr]))).bind (fun s2 hs2 => ?_)
  have eta0 : -2147483647 ≤ p.eta ∧ p.eta ≤ 2147483648 := by rcases he with h | h <;> omega
  obtain ⟨bs1, hbs1, _, hbt1⟩ := mapM_ok_len (fun r => isInRange m r p.eta p.eta) (fun r => r ∈ s1) (fun b => b = true)
    (fun r hr' => ⟨true, isInRange_true m r p.eta p.eta eta0 (hs1.2 r hr').2, rfl⟩) s1 (fun a ha => ha)
  have hall1 : bs1.all id = true := by rw [List.all_eq_true]; intro b hb'; exact hbt1 b hb'
  obtain ⟨bs2, hbs2, _, hbt2⟩ := mapM_ok_len (fun r => isInRange m r p.eta p.eta) (fun r => r ∈ s2) (fun b => b = true)
    (fun r hr' => ⟨true, isInRange_true m r p.eta p.eta eta0 (hs2.2 r hr').2, rfl⟩) s2 (fun a ha => ha)
  have hall2 : bs2.all id = true := by rw [List.all_eq_true]; intro b hb'; exact hbt2 b hb'
  simp only [hbs1, hbs2, ok_bind, pure_eq, hall1, hall2, dassertM_true]
  exact NoPanic.ok _ ⟨⟨by rw [hs1.1, List.length_range], fun q hq => (hs1.2 q hq).1⟩,
    ⟨by rw [hs2.1, List.length_range], fun q hq => (hs2.2 q hq).1⟩, fun q hq => (hs1.2 q hq).2, fun q hq => (hs2.2 q hq).2⟩

/-! ### pkEncode, unMontCentered -/

theorem pkEncode_ok (m : Mode) (p : ParamSet) (rho : List Nat) (t1 : List Poly) (hr : rho.length = 32)
    (hcfg : p.pkLen = 32 + 32 * p.k * blqd) (hs : Sh p.k t1) (ht : ∀ q ∈ t1, ∀ x ∈ q, 0 ≤ x ∧ x ≤ 1023) :
    ∃ out, pkEncode m p rho t1 = .ok out := by
  have hq : blqd = 10 := by decide
  have e1023 : (2:Int) ^ blqd - 1 = 1023 := by rw [hq]; decide
  unfold pkEncode
  rw [e1023]
  obtain ⟨bs, hbs, _, hbt⟩ := mapM_ok_len (fun t => isInRange m t 0 1023) (fun r => r ∈ t1) (fun b => b = true)
    (fun r hr' => ⟨true, isInRange_true m r 0 1023 (by omega) (fun c hc => by have := ht r hr' c hc; omega), rfl⟩) t1 (fun a ha => ha)
  have hall : bs.all id = true := by rw [List.all_eq_true]; intro b hb'; exact hbt b hb'
  simp only [hbs, ok_bind, pure_eq, hall, dassertM_true]
  rw [dassert_dec m _ _ (by simp [hcfg]), ok_bind, if_neg (by omega)]
  have hb10 : bitLen m 1023 = .ok 10 := by have := bitLen_1023 m; simpa using this
  obtain ⟨cs, hcs, _, _⟩ := mapM_ok_len (fun t => simpleBitPack m t 1023 (32 * blqd)) (fun r => r ∈ t1) (fun o => o.length = 32 * 10)
    (fun r hr' => by rw [hq]; exact simpleBitPack_ok m r 1023 10 (by omega) hb10 (by omega) (ht r hr') (hs.2 r hr'))
    (t1.take p.k) (fun a ha => List.mem_of_mem_take ha)
  rw [hcs, ok_bind]
  exact ⟨_, rfl⟩

theorem unMontCentered_ok (m : Mode) (n : Nat) (v : List Poly) (hv : ∀ w ∈ v, Bnd 16760833 w) (hs : Sh n v) :
    ∃ r, unMontCentered m v = .ok r ∧ Sh n r ∧ ∀ w ∈ r, ∀ x ∈ w, -4190208 ≤ x ∧ x ≤ 4190208 := by
  obtain ⟨a, ha, hal, har⟩ := mapM_ok_len (fun p : Poly => p.mapM (mont_reduce m)) (fun p => p ∈ v) (fun q => q.length = 256 ∧ Bnd 2143289343 q)
    (fun p hp => by
      obtain ⟨r, h1, h2, h3⟩ := mapM_ok_len (mont_reduce m) (fun x => -16760833 ≤ x ∧ x ≤ 16760833) (fun y => -2143289343 ≤ y ∧ y ≤ 2143289343)
        (fun x hx => by
          have := montv_spec x (by omega) (by omega)
          exact ⟨montv x, mont_reduce_eq m x (by omega) (by omega), by omega, by omega⟩) p (hv p hp)
      exact ⟨r, h1, by rw [h2]; exact hs.2 p hp, h3⟩) v (fun p hp => hp)
  obtain ⟨b, hb, hbr⟩ := invNtt_ok m a (fun w hw => (har w hw).2)
  have shb := invNtt_sh m n a b ⟨by rw [hal]; exact hs.1, fun q hq => (har q hq).1⟩ hb
  have ht : Int.tdiv Q 2 = 4190208 := by decide
  obtain ⟨c, hc, hcl, hcr⟩ := mapM_ok_len (fun p : Poly => p.mapM (fun x => if x > Int.tdiv Q 2 then arith .i32 m "lib.rs:into_bytes:x-Q" (x - Q) else pure x))
    (fun p => p ∈ b) (fun q => q.length = 256 ∧ ∀ x ∈ q, -4190208 ≤ x ∧ x ≤ 4190208)
    (fun p hp => by
      obtain ⟨r, h1, h2, h3⟩ := mapM_ok_len (fun x => if x > Int.tdiv Q 2 then arith .i32 m "lib.rs:into_bytes:x-Q" (x - Q) else pure x)
        (fun x => 0 ≤ x ∧ x < 8380417) (fun y => -4190208 ≤ y ∧ y ≤ 4190208)
        (fun x hx => by
          rw [ht]
          by_cases hg : x > 4190208
          · rw [if_pos hg]; simp only [Q]; exact ⟨x - 8380417, arith_i32 _ _ _ (by omega) (by omega), by omega, by omega⟩
          · rw [if_neg hg, pure_eq]; exact ⟨x, rfl, by omega, by omega⟩) p (hbr p hp)
      exact ⟨r, h1, by rw [h2]; exact shb.2 p hp, h3⟩) b (fun p hp => hp)
  refine ⟨c, ?_, ⟨by rw [hcl]; exact shb.1, fun q hq => (hcr q hq).1⟩, fun q hq => (hcr q hq).2⟩
  unfold unMontCentered
  rw [ha, ok_bind, hb, ok_bind]
  exact hc

/-! ### t = A s1 + s2, rounded: the common tail of key generation and derivation -/

theorem addReduce_ok (m : Mode) (n : Nat) (u v : List Poly) (hu : ∀ q ∈ u, Can q) (hus : Sh n u)
    (hv : ∀ q ∈ v, ∀ x ∈ q, -4190208 ≤ x ∧ x ≤ 4190208) (hvs : Sh n v) :
    ∃ t, (do let tnr ← addVectorNtt m u v; tnr.mapM (fun q : Poly => q.mapM (full_reduce32 m))) = .ok t ∧ Sh n t ∧ ∀ q ∈ t, Can q := by
  obtain ⟨tnr, h1, h2, h3⟩ := zipWithM_ok_len (fun p q => zipWithM (fun a b => arith .i32 m "helpers.rs:add_vector_ntt:+" (a + b)) p q)
    (fun p => p.length = 256 ∧ Can p) (fun q => q.length = 256 ∧ ∀ x ∈ q, -4190208 ≤ x ∧ x ≤ 4190208)
    (fun r => r.length = 256 ∧ ∀ x ∈ r, -4190208 ≤ x ∧ x ≤ 12570624)
    (fun p q hp hq => by
      obtain ⟨r, g1, g2, g3⟩ := zipWithM_ok_len (fun a b => arith .i32 m "helpers.rs:add_vector_ntt:+" (a + b))
        (fun a => 0 ≤ a ∧ a < 8380417) (fun b => -4190208 ≤ b ∧ b ≤ 4190208) (fun r => -4190208 ≤ r ∧ r ≤ 12570624)
        (fun a b ha hb => ⟨a + b, arith_i32 _ _ _ (by omega) (by omega), by omega, by omega⟩) p q hp.2 hq.2
      exact ⟨r, g1, by rw [g2, hp.1, hq.1]; simp, g3⟩) u v (fun p hp => ⟨hus.2 p hp, hu p hp⟩) (fun q hq => ⟨hvs.2 q hq, hv q hq⟩)
  obtain ⟨t, g1, g2, g3⟩ := mapM_ok_len (fun q : Poly => q.mapM (full_reduce32 m)) (fun q => q ∈ tnr) (fun r => r.length = 256 ∧ Can r)
    (fun q hq => by
      obtain ⟨r, k1, k2, k3⟩ := mapM_ok_len (full_reduce32 m) (fun x => -4190208 ≤ x ∧ x ≤ 12570624) (fun y => 0 ≤ y ∧ y < 8380417)
        (fun x hx => ⟨x % Q, full_reduce32_eq m x (by omega) (by omega), by simp only [Q]; omega, by simp only [Q]; omega⟩) q (h3 q hq).2
      exact ⟨r, k1, by rw [k2]; exact (h3 q hq).1, k3⟩) tnr (fun q hq => hq)
  exact ⟨t, by unfold addVectorNtt; rw [h1, ok_bind]; exact g1, ⟨by rw [g2, h2, hus.1, hvs.1]; simp, fun q hq => (g3 q hq).1⟩, fun q hq => (g3 q hq).2⟩

/-- **`private_to_public_key` never panics** on a well-formed private-key struct; the derived key is well formed -/
theorem derive_np (m : Mode) (O : Oracles) (hO : OracleOk O) (p : ParamSet) (hl7 : p.l ≤ 7) (sk : PrivateKey) (hsk : SkOk p sk) :
    NoPanic (privateToPublicKey m O p sk) (fun pk => PkOk p pk) := by
  unfold privateToPublicKey
  refine (expandA_np m O hO false p sk.rho hsk.rho).bind (fun aHat hA => ?_)
  have hArow : ∀ row ∈ aHat, row.length ≤ 7 ∧ ∀ q ∈ row, Res q :=
    fun row hrow => ⟨by rw [(hA.2 row hrow).1]; exact hl7, fun q hq => ((hA.2 row hrow).2 q hq).2⟩
  have hAsh : ∀ row ∈ aHat, ∀ q ∈ row, q.length = 256 := fun row hrow q hq => ((hA.2 row hrow).2 q hq).1
  obtain ⟨s1h, h1, h1l, h1r⟩ := mapM_ok_len (fun q : Poly => q.mapM (mont_reduce m)) (fun q => q ∈ sk.s1) (fun r => r.length = 256 ∧ Bnd 67000000 r)
    (fun q hq => by
      obtain ⟨r, g1, g2, g3⟩ := mapM_ok_len (mont_reduce m) (fun x => -16760833 ≤ x ∧ x ≤ 16760833) (fun y => -67000000 ≤ y ∧ y ≤ 67000000)
        (fun x hx => by
          have := montv_spec x (by omega) (by omega)
          exact ⟨montv x, mont_reduce_eq m x (by omega) (by omega), by omega, by omega⟩) q (hsk.b1 q hq)
      exact ⟨r, g1, by rw [g2]; exact hsk.s1.2 q hq, g3⟩) sk.s1 (fun q hq => hq)
  obtain ⟨s2, h2, s2s, s2r⟩ := unMontCentered_ok m p.k sk.s2 hsk.b2 hsk.s2
  obtain ⟨as1, h3, b3⟩ := matVecMul_ok m aHat s1h 7 hArow (fun w hw => (h1r w hw).2) (by omega)
  have sh3 := matVecMul_sh m aHat s1h as1 p.k p.l hA.1 hAsh ⟨by rw [h1l]; exact hsk.s1.1, fun q hq => (h1r q hq).1⟩ h3
  obtain ⟨w, h4, b4⟩ := invNtt_ok m as1 (fun w hw => (b3 w hw).mono (by decide))
  have sh4 := invNtt_sh m p.k as1 w sh3 h4
  obtain ⟨t, h5, sh5, b5⟩ := addReduce_ok m p.k w s2 b4 sh4 s2r s2s
  obtain ⟨t1, t0, h6, sh6, _, b6, _⟩ := power2round_ok m p.k t b5 sh5
  obtain ⟨t1d2, h7, b7⟩ := precomputeT1_ok m t1 b6
  have sh7 := precomputeT1_sh m p.k t1 t1d2 sh6 h7
  rw [h1, ok_bind, h2, ok_bind, h3, ok_bind, h4, ok_bind]
  obtain ⟨tnr, ht1, ht2⟩ := bind_ok_inv h5
  rw [ht1, ok_bind, ht2, ok_bind, h6, ok_bind]
  simp only []
  rw [h7, ok_bind, pure_eq]
  exact NoPanic.ok _ ⟨hsk.rho, sh7, b7⟩

/-- a vector of `n` polynomials with coefficients in `[lo, hi]` -/
def VecIn (n : Nat) (lo hi : Int) (v : List Poly) : Prop := Sh n v ∧ ∀ q ∈ v, ∀ x ∈ q, lo ≤ x ∧ x ≤ hi

/-- what `key_gen_internal` returns, in terms of the vectors it sampled and rounded -/
structure GenOk (m : Mode) (O : Oracles) (p : ParamSet) (kp : PublicKey × PrivateKey) : Prop where
  pk : PkOk p kp.1
  sk : SkOk p kp.2
  lens : kp.2.key.length = 32 ∧ kp.2.tr.length = 64 ∧ kp.2.rho = kp.1.rho ∧ kp.2.tr = kp.1.tr
  vecs : ∃ s1 s2 t0 t1 pkb, VecIn p.l (-p.eta) p.eta s1 ∧ VecIn p.k (-p.eta) p.eta s2 ∧ VecIn p.k (-4095) 4096 t0 ∧ VecIn p.k 0 1023 t1 ∧
    nttMont m s1 = .ok kp.2.s1 ∧ nttMont m s2 = .ok kp.2.s2 ∧ nttMont m t0 = .ok kp.2.t0 ∧ precomputeT1 m t1 = .ok kp.1.t1d2 ∧
    pkEncode m p kp.1.rho t1 = .ok pkb ∧ kp.1.tr = O.h pkb 64 ∧
    ∃ aHat s1Hat as1 w t, expandA m O false p kp.1.rho = .ok aHat ∧
      (aHat.length = p.k ∧ ∀ row ∈ aHat, row.length = p.l ∧ ∀ q ∈ row, q.length = 256 ∧ Res q) ∧ ntt m s1 = .ok s1Hat ∧
      matVecMul m aHat s1Hat = .ok as1 ∧ invNtt m as1 = .ok w ∧
      (do let tnr ← addVectorNtt m w s2; tnr.mapM (fun q : Poly => q.mapM (full_reduce32 m))) = .ok t ∧ power2round m t = .ok (t1, t0)

/-- **`key_gen_internal` never panics**, for every seed; both keys it returns are well formed -/
theorem keyGenInternal_np (m : Mode) (O : Oracles) (hO : OracleOk O) (p : ParamSet) (he : p.eta = 2 ∨ p.eta = 4) (hl7 : p.l ≤ 7)
    (hcfg : p.pkLen = 32 + 32 * p.k * blqd) (xi : List Nat) :
    NoPanic (keyGenInternal m O false p xi) (GenOk m O p) := by
  unfold keyGenInternal
  simp only []
  have hrho : ((O.h (xi ++ [p.k % 256, p.l % 256]) 128).take 32).length = 32 := by rw [List.length_take, hO.hlen]; omega
  have hrhoP : (((O.h (xi ++ [p.k % 256, p.l % 256]) 128).drop 32).take 64).length = 64 := by
    rw [List.length_take, List.length_drop, hO.hlen]; omega
  refine (expandS_np m O hO p he _ hrhoP).bind (fun ss hss => ?_)
  obtain ⟨s1, s2⟩ := ss
  obtain ⟨sh1, sh2, r1, r2⟩ := hss
  simp only [] at sh1 sh2 r1 r2 ⊢
  refine (expandA_np m O hO false p _ hrho).bind' (fun aHat hAeq hA => ?_)
  have hArow : ∀ row ∈ aHat, row.length ≤ 7 ∧ ∀ q ∈ row, Res q :=
    fun row hrow => ⟨by rw [(hA.2 row hrow).1]; exact hl7, fun q hq => ((hA.2 row hrow).2 q hq).2⟩
  have hAsh : ∀ row ∈ aHat, ∀ q ∈ row, q.length = 256 := fun row hrow q hq => ((hA.2 row hrow).2 q hq).1
  have eta4 : p.eta ≤ 4 := by rcases he with h | h <;> omega
  have eta0 : 0 ≤ p.eta := by rcases he with h | h <;> omega
  have b1 : ∀ w ∈ s1, Bnd 524288 w := fun w hw x hx => by have := r1 w hw x hx; omega
  have b2 : ∀ w ∈ s2, Bnd 524288 w := fun w hw x hx => by have := r2 w hw x hx; omega
  obtain ⟨s1h, h1, bs1h⟩ := ntt_ok m s1 b1
  have shs1h := ntt_sh m p.l s1 s1h sh1 h1
  obtain ⟨as1, h3, b3⟩ := matVecMul_ok m aHat s1h 7 hArow (fun w hw => (bs1h w hw).mono (by omega)) (by omega)
  have sh3 := matVecMul_sh m aHat s1h as1 p.k p.l hA.1 hAsh shs1h h3
  obtain ⟨w, h4, b4⟩ := invNtt_ok m as1 (fun w hw => (b3 w hw).mono (by decide))
  have sh4 := invNtt_sh m p.k as1 w sh3 h4
  obtain ⟨t, h5, sh5, b5⟩ := addReduce_ok m p.k w s2 b4 sh4 (fun q hq x hx => by have := r2 q hq x hx; omega) sh2
  obtain ⟨t1, t0, h6, sh6, sh60, b6, b60⟩ := power2round_ok m p.k t b5 sh5
  obtain ⟨pkb, h7⟩ := pkEncode_ok m p _ t1 hrho hcfg sh6 b6
  obtain ⟨t1d2, h8, b8⟩ := precomputeT1_ok m t1 b6
  have sh8 := precomputeT1_sh m p.k t1 t1d2 sh6 h8
  obtain ⟨a1, ha1, sa1, ba1⟩ := nttMont_ok m p.l s1 b1 sh1
  obtain ⟨a2, ha2, sa2, ba2⟩ := nttMont_ok m p.k s2 b2 sh2
  obtain ⟨a0, ha0, sa0, ba0⟩ := nttMont_ok m p.k t0 (fun w hw x hx => by have := b60 w hw x hx; omega) sh60
  rw [h1, ok_bind, h3, ok_bind, h4, ok_bind]
  obtain ⟨tnr, ht1, ht2⟩ := bind_ok_inv h5
  rw [ht1, ok_bind, ht2, ok_bind, h6, ok_bind]
  simp only []
  rw [h7, ok_bind, h8, ok_bind, ha1, ok_bind, ha2, ok_bind, ha0, ok_bind, pure_eq]
  have hkey : (((O.h (xi ++ [p.k % 256, p.l % 256]) 128).drop 96).take 32).length = 32 := by
    rw [List.length_take, List.length_drop, hO.hlen]; omega
  exact NoPanic.ok _ ⟨⟨hrho, sh8, b8⟩, ⟨hrho, sa1, sa2, sa0, ba1, ba2, ba0⟩, ⟨hkey, hO.hlen _ _, rfl, rfl⟩,
    ⟨s1, s2, t0, t1, pkb, ⟨sh1, r1⟩, ⟨sh2, r2⟩, ⟨sh60, fun q hq x hx => by have := b60 q hq x hx; omega⟩, ⟨sh6, b6⟩, ha1, ha2, ha0, h8, h7, rfl, aHat, s1h, as1, w, t, hAeq, hA, h1, h3, h4, h5, h6⟩⟩

end Fips204.Impl
