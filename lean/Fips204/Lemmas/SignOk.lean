import Fips204.Lemmas.VerifyOk
import Fips204.Lemmas.SigRoundTrip
import Fips204.Props.C10
/-! The signing path never panics (on any private-key struct `expand_private` can return, while the u16 counter
    `kappa` has room): helper lemmas, one attempt of the rejection loop, the loop, the encoder. -/
namespace Fips204.Impl
open Fips204 Fips204.Gen Fips204.K

/-! ### helpers -/

theorem zipWithM_ok_len {α β γ} (f : α → β → M γ) (P : α → Prop) (P' : β → Prop) (R : γ → Prop)
    (hf : ∀ a b, P a → P' b → ∃ c, f a b = .ok c ∧ R c) (l : List α) (l' : List β) (h : ∀ a ∈ l, P a) (h' : ∀ b ∈ l', P' b) :
    ∃ r, zipWithM f l l' = .ok r ∧ r.length = min l.length l'.length ∧ ∀ c ∈ r, R c := by
  obtain ⟨r, h1, h2⟩ := zipWithM_ok f P P' R hf l l' h h'
  exact ⟨r, h1, zipWithM_len f l l' r h1, h2⟩

theorem zipWith3M_ok_len {α β γ δ} (f : α → β → γ → M δ) (P : α → Prop) (P' : β → Prop) (P'' : γ → Prop) (R : δ → Prop)
    (hf : ∀ a b c, P a → P' b → P'' c → ∃ d, f a b c = .ok d ∧ R d) (l : List α) (l' : List β) (l'' : List γ)
    (h : ∀ a ∈ l, P a) (h' : ∀ b ∈ l', P' b) (h'' : ∀ c ∈ l'', P'' c) :
    ∃ r, zipWith3M f l l' l'' = .ok r ∧ r.length = min l.length (min l'.length l''.length) ∧ ∀ d ∈ r, R d := by
  obtain ⟨r, h1, h2⟩ := zipWith3M_ok f P P' P'' R hf l l' l'' h h' h''
  exact ⟨r, h1, zipWith3M_len f l l' l'' r h1, h2⟩

/-- continue after a `mapM` whose steps all succeed (the step function is inferred from the goal) -/
theorem mapM_bind_ok {α β γ} (f : α → M β) (P : α → Prop) (R : β → Prop) (hf : ∀ a, P a → ∃ b, f a = .ok b ∧ R b)
    (l : List α) (hl : ∀ a ∈ l, P a) (g : List β → M γ) (Q : γ → Prop)
    (hg : ∀ l', l'.length = l.length → (∀ b ∈ l', R b) → ∃ c, g l' = .ok c ∧ Q c) : ∃ c, (l.mapM f >>= g) = .ok c ∧ Q c := by
  obtain ⟨l', h1, h2, h3⟩ := mapM_ok_len f P R hf l hl
  obtain ⟨c, hc, hq⟩ := hg l' h2 h3
  exact ⟨c, by rw [h1, ok_bind]; exact hc, hq⟩

/-- entries strictly inside the 32-bit reduction domain -/
def Dom (w : List Int) : Prop := ∀ x ∈ w, -2143289344 < x ∧ x < 2143289344

theorem modpm_range (e : Int) : -4190208 ≤ modpm Q e ∧ modpm Q e ≤ 4190208 := by
  unfold modpm; simp only [Q]; split <;> omega

theorem foldl_max_ge (vs : List Int) : ∀ (v : Int), v ≤ vs.foldl (fun a b => if a < b then b else a) v ∧
    ∀ x ∈ vs, x ≤ vs.foldl (fun a b => if a < b then b else a) v := by
  induction vs with
  | nil => intro v; exact ⟨Int.le_refl _, by simp⟩
  | cons y ys ih =>
    intro v
    rw [List.foldl_cons]
    by_cases hvy : v < y
    · rw [if_pos hvy]
      obtain ⟨h1, h2⟩ := ih y
      refine ⟨by omega, fun x hx => ?_⟩
      rcases List.mem_cons.mp hx with rfl | hx
      · exact h1
      · exact h2 x hx
    · rw [if_neg hvy]
      obtain ⟨h1, h2⟩ := ih v
      refine ⟨h1, fun x hx => ?_⟩
      rcases List.mem_cons.mp hx with rfl | hx
      · omega
      · exact h2 x hx

/-- `infinity_norm` on any vector inside the reduction domain: no fault, the result bounds every centred coefficient -/
theorem infinityNorm_gen (m : Mode) (w : List Poly) (hne : w.flatten.length ≠ 0) (hw : ∀ q ∈ w, Dom q) :
    ∃ n, infinityNorm m w = .ok n ∧ 0 ≤ n ∧ n ≤ 4190208 ∧ ∀ q ∈ w, ∀ e ∈ q, -n ≤ modpm Q e ∧ modpm Q e ≤ n := by
  unfold infinityNorm
  have hmap := mapM_pure (fun e => do
      let c ← center_mod m e
      arith .i32 m "helpers.rs:infinity_norm:abs" (absI c)) (fun e => absI (modpm Q e)) w.flatten
    (fun e he => by
      obtain ⟨q, hq, heq⟩ := List.mem_flatten.mp he
      have hd := hw q hq e heq
      have hr := modpm_range e
      rw [center_mod_eq m e hd.1 hd.2, ok_bind]
      exact arith_i32 _ _ _ (by rw [absI_eq]; split <;> omega) (by rw [absI_eq]; split <;> omega))
  rw [hmap, ok_bind]
  cases hfl : w.flatten with
  | nil => rw [hfl] at hne; simp at hne
  | cons e es =>
    simp only [List.map_cons]
    have hb : ∀ x ∈ absI (modpm Q e) :: es.map (fun e => absI (modpm Q e)), 0 ≤ x ∧ x ≤ 4190208 := by
      intro x hx
      have : ∃ e', x = absI (modpm Q e') := by
        rcases List.mem_cons.mp hx with rfl | hx
        · exact ⟨e, rfl⟩
        · obtain ⟨e', _, rfl⟩ := List.mem_map.mp hx; exact ⟨e', rfl⟩
      obtain ⟨e', rfl⟩ := this
      have hr := modpm_range e'
      rw [absI_eq]; split <;> omega
    have hbound := foldl_max_bound 4190208 (es.map (fun e => absI (modpm Q e))) (absI (modpm Q e))
      (hb _ (List.mem_cons_self ..)) (fun x hx => hb x (List.mem_cons_of_mem _ hx))
    have hge := foldl_max_ge (es.map (fun e => absI (modpm Q e))) (absI (modpm Q e))
    refine ⟨_, rfl, hbound.1, hbound.2, fun q hq e' he' => ?_⟩
    have hmem : e' ∈ e :: es := by rw [← hfl]; exact List.mem_flatten.mpr ⟨q, hq, he'⟩
    have habs : absI (modpm Q e') ≤ (es.map (fun e => absI (modpm Q e))).foldl (fun a b => if a < b then b else a) (absI (modpm Q e)) := by
      rcases List.mem_cons.mp hmem with rfl | h
      · exact hge.1
      · exact hge.2 _ (List.mem_map.mpr ⟨e', h, rfl⟩)
    rw [absI_eq] at habs
    split at habs <;> omega

/-- `c_hat ∘ v` through `mont_reduce`, then `inv_ntt`: no fault, canonical residues, shape preserved -/
theorem mulInv_ok (m : Mode) (site : String) (chat : Poly) (v : List Poly) (n : Nat) (hc : Bnd 34284028 chat) (hcl : chat.length = 256)
    (hv : ∀ s ∈ v, Bnd 16760833 s) (hsh : Sh n v) :
    ∃ r, mulInv m site chat v = .ok r ∧ Sh n r ∧ ∀ w ∈ r, ∀ x ∈ w, 0 ≤ x ∧ x < 8380417 := by
  obtain ⟨prods, hp, hpl, hpr⟩ := mapM_ok_len (fun s => zipWithM (fun c x => do
      let p ← arith .i64 m site (c * x)
      mont_reduce m p) chat s) (fun s => Bnd 16760833 s ∧ s.length = 256) (fun r => Bnd 2143289343 r ∧ r.length = 256)
    (fun s hs => by
      obtain ⟨r, h1, h2, h3⟩ := zipWithM_ok_len (fun c x => do
          let p ← arith .i64 m site (c * x)
          mont_reduce m p) (fun c => -34284028 ≤ c ∧ c ≤ 34284028) (fun x => -16760833 ≤ x ∧ x ≤ 16760833)
        (fun r => -2143289343 ≤ r ∧ r ≤ 2143289343)
        (fun c x hc' hx' => by
          have hp := mul_bound_sym c x 34284028 16760833 hc'.1 hc'.2 hx'.1 hx'.2
          have hm := montv_spec (c * x) (by omega) (by omega)
          refine ⟨montv (c * x), ?_, by omega, by omega⟩
          rw [arith_i64 _ _ _ (by omega) (by omega), ok_bind]
          exact mont_reduce_eq m _ (by omega) (by omega)) chat s hc hs.1
      exact ⟨r, h1, h3, by rw [h2, hcl, hs.2]; simp⟩) v (fun s hs => ⟨hv s hs, hsh.2 s hs⟩)
  obtain ⟨r, hr, hrr⟩ := invNtt_ok m prods (fun w hw => (hpr w hw).1)
  have hshp : Sh n prods := ⟨by rw [hpl]; exact hsh.1, fun q hq => (hpr q hq).2⟩
  exact ⟨r, by unfold mulInv; rw [hp, ok_bind]; exact hr, invNtt_sh m n prods r hshp hr, hrr⟩

theorem sum01_bound : ∀ (q : List Int), (∀ x ∈ q, x = 0 ∨ x = 1) → ∀ s : Int, q.foldl (· + ·) s = s + (ones q : Nat) := by
  intro q
  induction q with
  | nil => intro _ s; simp [ones]
  | cons a as ih =>
    intro h s
    rw [List.foldl_cons, ih (fun x hx => h x (List.mem_cons_of_mem _ hx))]
    unfold ones
    rcases h a (List.mem_cons_self ..) with rfl | rfl
    · simp
    · simp [List.filter_cons]; omega

/-- total number of ones of a hint vector -/
def onesAll (h : List Poly) : Nat := (h.map ones).foldl (· + ·) 0

theorem foldl_add_nat (l : List Nat) (s : Nat) : l.foldl (· + ·) s = s + l.foldl (· + ·) 0 := by
  induction l generalizing s with
  | nil => simp
  | cons a as ih => rw [List.foldl_cons, ih, List.foldl_cons, ih (0 + a)]; omega

theorem onesAll_cons (q : Poly) (h : List Poly) : onesAll (q :: h) = ones q + onesAll h := by
  unfold onesAll; rw [List.map_cons, List.foldl_cons, foldl_add_nat]; omega

theorem ones_le_onesAll (h : List Poly) : ∀ q ∈ h, ones q ≤ onesAll h := by
  induction h with
  | nil => intro q hq; simp at hq
  | cons p ps ih =>
    intro q hq
    rw [onesAll_cons]
    rcases List.mem_cons.mp hq with rfl | hq
    · omega
    · have := ih q hq; omega

theorem hsum_ok (m : Mode) : ∀ (h : List Poly) (s : Int), (∀ q ∈ h, Bin q) → 0 ≤ s → s + (onesAll h : Nat) ≤ 2147483647 →
    (h.map (fun q => q.foldl (· + ·) 0)).foldlM (fun a b => arith .i32 m "ml_dsa.rs:sign_internal:sum" (a + b)) s = .ok (s + (onesAll h : Nat)) := by
  intro h
  induction h with
  | nil => intro s _ _ _; simp [onesAll, pure_eq]
  | cons q qs ih =>
    intro s hb hs hsum
    rw [onesAll_cons] at hsum ⊢
    rw [List.map_cons, List.foldlM_cons, sum01_bound q (hb q (List.mem_cons_self ..)).2 0,
      arith_i32 _ _ _ (by omega) (by omega), ok_bind, ih _ (fun x hx => hb x (List.mem_cons_of_mem _ hx)) (by omega) (by omega)]
    congr 1; omega

/-! ### ExpandMask -/

theorem gamma1_facts (m : Mode) (p : ParamSet) (blz : Nat) (cfg : SigCfg p blz) :
    ∃ bl0, bitLen m (p.gamma1 - 1) = .ok bl0 ∧ bl0 + 1 = blz ∧ bitLen m (p.gamma1 - 1 + p.gamma1) = .ok blz ∧
      p.gamma1 - 1 + p.gamma1 + 1 = 2 ^ blz ∧ 1 ≤ blz ∧ blz ≤ 20 ∧ 1 ≤ p.gamma1 ∧ p.gamma1 ≤ 524288 ∧ (blz = 18 ∨ blz = 20) := by
  obtain ⟨b17, b18, b19, b20⟩ := bitLen_g1 m
  rcases cfg.g1 with ⟨hg, rfl⟩ | ⟨hg, rfl⟩
  · rw [hg]; exact ⟨17, b17, rfl, b18, by decide, by omega, by omega, by omega, by omega, Or.inl rfl⟩
  · rw [hg]; exact ⟨19, b19, rfl, b20, by decide, by omega, by omega, by omega, by omega, Or.inr rfl⟩

/-- `expand_mask` never faults while the 16-bit counter has room; the mask is inside the response encoder's range -/
theorem expandMask_ok (m : Mode) (O : Oracles) (hO : OracleOk O) (p : ParamSet) (blz : Nat) (cfg : SigCfg p blz) (rho : List Nat) (mu : Int)
    (hmu : 0 ≤ mu ∧ mu + p.l ≤ 65536) (hl : p.l ≤ 65535) :
    ∃ ys, expandMask m O p rho mu = .ok ys ∧ Sh p.l ys ∧ ∀ q ∈ ys, ∀ c ∈ q, -(p.gamma1 - 1) ≤ c ∧ c ≤ p.gamma1 := by
  obtain ⟨bl0, h0, hbz, h1, hpow, hz1, hz2, hg1, hg2, hz3⟩ := gamma1_facts m p blz cfg
  unfold expandMask
  rw [arith_i32 _ _ _ (by omega) (by omega), ok_bind, h0, ok_bind]
  simp only []
  have hc : 1 + bl0 = blz := by omega
  rw [hc, dassert_dec m _ _ (by rcases hz3 with h | h <;> simp [h]), ok_bind, if_neg (by omega)]
  refine mapM_bind_ok _ (fun r => r < p.l) (fun y => y.length = 256 ∧ ∀ c ∈ y, -(p.gamma1 - 1) ≤ c ∧ c ≤ p.gamma1)
    (fun r hr => ?_) _ (fun r hr => List.mem_range.mp hr) _ _ (fun ys hyl hyr => ?_)
  · have hn : arith .u16 m "hashing.rs:expand_mask:mu+r" (mu + Int.ofNat r) = .ok (mu + Int.ofNat r) :=
      arith_ok _ _ _ _ (by simp only [IT.lo]; have : (0:Int) ≤ Int.ofNat r := Int.natCast_nonneg _; omega)
        (by simp only [IT.hi]; have : Int.ofNat r < p.l := Int.ofNat_lt.mpr hr; omega)
    rw [hn, ok_bind]
    have hvl := hO.hlen (rho ++ [((mu + Int.ofNat r) % 256).toNat, ((mu + Int.ofNat r) / 256).toNat]) 640
    have hsl := slice_ok "hashing.rs:expand_mask:v[0..32*c]"
      (O.h (rho ++ [((mu + Int.ofNat r) % 256).toNat, ((mu + Int.ofNat r) / 256).toNat]) 640) 0 (32 * blz) (by constructor <;> omega)
    rw [hsl, ok_bind]
    have hvs : (((O.h (rho ++ [((mu + Int.ofNat r) % 256).toNat, ((mu + Int.ofNat r) / 256).toNat]) 640).drop 0).take (32 * blz - 0)).length = 32 * blz := by
      rw [List.length_take, List.length_drop, hvl]; omega
    obtain ⟨w, hw, hwl, hwr⟩ := bitUnpack_total m _ (p.gamma1 - 1) p.gamma1 blz (by omega) (by omega) h1 (by omega) hpow
      (fun x hx => hO.hbyte _ _ x (mem_slice _ _ _ _ hx)) hvs
    rw [hw, ok_bind]
    exact ⟨w, rfl, hwl, hwr⟩
  · obtain ⟨bs, hbs, _, hbt⟩ := mapM_ok_len (fun r => isInRange m r (p.gamma1 - 1) p.gamma1) (fun r => r ∈ ys) (fun b => b = true)
      (fun r hr' => ⟨true, isInRange_true m r (p.gamma1 - 1) p.gamma1 (by omega) (hyr r hr').2, rfl⟩) ys (fun a ha => ha)
    have hall : bs.all id = true := by rw [List.all_eq_true]; intro b hb'; exact hbt b hb'
    simp only [hbs, ok_bind, pure_eq, hall, dassertM_true]
    exact ⟨ys, rfl, ⟨by rw [hyl, List.length_range], fun q hq => (hyr q hq).1⟩, fun q hq => (hyr q hq).2⟩

/-! ### HintBitPack and sigEncode never fault on what the signer hands them -/

theorem nzIdx_len_bin : ∀ (hp : Poly) (s : Nat), (∀ x ∈ hp, x = 0 ∨ x = 1) →
    (nzIdx (List.zip (List.range' s hp.length) hp)).length = ones hp := by
  intro hp
  induction hp with
  | nil => intro s _; simp [nzIdx, ones]
  | cons e es ih =>
    intro s h
    rw [List.length_cons, List.range'_succ, List.zip_cons_cons, nzIdx_cons]
    have hrest := ih (s + 1) (fun x hx => h x (List.mem_cons_of_mem _ hx))
    unfold ones at hrest ⊢
    rcases h e (List.mem_cons_self ..) with rfl | rfl
    · simp [hrest]
    · simp [hrest]

theorem packOuter_fold_ok (outLen om k : Nat) (hol : outLen = om + k) : ∀ (hs : List Poly) (i0 : Nat) (Y : List Nat) (idx : Nat),
    Y.length = om + k → idx + onesAll hs ≤ om → i0 + hs.length ≤ k → (∀ q ∈ hs, Bin q) →
    ∃ Y' idx', (List.zip (List.range' i0 hs.length) hs).foldlM (hintPackOuter false outLen om) (Y, idx) = .ok (Y', idx') ∧
      Y'.length = om + k := by
  intro hs
  induction hs with
  | nil => intro i0 Y idx hY _ _ _; exact ⟨Y, idx, by simp [pure_eq], hY⟩
  | cons hp hs ih =>
    intro i0 Y idx hY hsum hik hb
    rw [onesAll_cons] at hsum
    rw [List.length_cons] at hik
    have hbin := hb hp (List.mem_cons_self ..)
    have hnz : (nzIdx (List.zip (List.range 256) hp)).length = ones hp := by
      have := nzIdx_len_bin hp 0 hbin.2
      rw [hbin.1, ← List.range_eq_range'] at this; exact this
    have hin := packInner_fold outLen (List.zip (List.range 256) hp) Y idx (by rw [hnz, hY]; omega)
    rw [List.length_cons, List.range'_succ, List.zip_cons_cons, List.foldlM_cons]
    have hstep : hintPackOuter false outLen om (Y, idx) (i0, hp) =
        .ok ((wr Y idx (nzIdx (List.zip (List.range 256) hp))).set (om + i0) ((idx + ones hp) % 256), idx + ones hp) := by
      unfold hintPackOuter
      simp only []
      rw [hin, ok_bind]
      simp only []
      unfold setAt
      rw [if_pos (by rw [wr_length, hY]; omega), pure_eq, ok_bind, pure_eq, hnz]
    rw [hstep, ok_bind]
    exact ih (i0 + 1) _ _ (by rw [List.length_set, wr_length]; exact hY) (by omega) (by omega) (fun q hq => hb q (List.mem_cons_of_mem _ hq))

theorem hintBitPack_ok (m : Mode) (omega : Int) (h : List Poly) (k : Nat) (ho : 0 ≤ omega) (hk : h.length = k)
    (hok : 1 ≤ omega.toNat + k ∧ omega.toNat + k < 256) (hb : ∀ q ∈ h, Bin q) (hsum : onesAll h ≤ omega.toNat) :
    ∃ y, hintBitPack m false omega h (omega.toNat + k) = .ok y ∧ y.length = omega.toNat + k := by
  unfold hintBitPack
  rw [if_neg (by omega)]
  simp only [hk]
  obtain ⟨bs, hbs, _, hbt⟩ := mapM_ok_len (fun p => isInRange m p 0 1) (fun r => r ∈ h) (fun b => b = true)
    (fun r hr' => ⟨true, isInRange_true m r 0 1 (by omega) (fun c hc => by
      rcases (hb r hr').2 c hc with h0 | h1 <;> omega), rfl⟩) h (fun a ha => ha)
  have hall : bs.all id = true := by rw [List.all_eq_true]; intro b hb'; exact hbt b hb'
  have d3 : dassertM m "conversion.rs:hint_bit_pack:debug_assert(Alg 20: h not 0/1)" (do
      let bs ← h.mapM (fun p => isInRange m p 0 1)
      pure (bs.all id)) = .ok () := by
    apply dassertM_ok; rw [hbs, ok_bind, pure_eq, hall]
  have d4 : (h.all fun p => decide (countOnes p ≤ omega)) = true := by
    rw [List.all_eq_true]; intro q hq
    have := ones_le_onesAll h q hq
    rw [countOnes_eq]; simp only [decide_eq_true_eq]; omega
  obtain ⟨Y', idx', hf, hl⟩ := packOuter_fold_ok (omega.toNat + k) omega.toNat k rfl h 0 (List.replicate (omega.toNat + k) 0) 0
    (List.length_replicate ..) (by omega) (by omega) hb
  rw [hk, ← List.range_eq_range'] at hf
  rw [dassert_dec m _ _ (show (decide (1 ≤ omega.toNat + k) && decide (omega.toNat + k < 256)) = true by simp; omega), ok_bind,
    dassert_dec m _ _ (show (omega.toNat + k == omega.toNat + k) = true by simp), ok_bind, d3, ok_bind, dassert_dec m _ _ d4, ok_bind,
    hf, ok_bind, pure_eq]
  exact ⟨Y', rfl, hl⟩

/-- `sig_encode` never faults on an in-range response and a 0/1 hint with at most omega ones -/
theorem sigEncode_ok (m : Mode) (p : ParamSet) (blz : Nat) (cfg : SigCfg p blz) (ct : List Nat) (z h : List Poly)
    (hct : ct.length = p.lambdaDiv4) (hz : Sh p.l z) (hzr : ∀ q ∈ z, ∀ c ∈ q, -(p.gamma1 - 1) ≤ c ∧ c ≤ p.gamma1)
    (hh : Sh p.k h) (hb : ∀ q ∈ h, Bin q) (hsum : onesAll h ≤ p.omega.toNat) : ∃ sig, sigEncode m false p ct z h = .ok sig := by
  obtain ⟨bl0, h0, hbz, h1, hpow, hz1, hz2, hg1, hg2, _⟩ := gamma1_facts m p blz cfg
  have hlen' := cfg.len
  have hom := cfg.om
  have hsl : sigLenOk m p = .ok true := by
    unfold sigLenOk
    rw [arith_i32 _ _ _ (by omega) (by omega), ok_bind, h0, ok_bind, pure_eq]
    congr 1
    have e : (absI p.omega).toNat = p.omega.toNat := by rw [absI_eq, if_neg (by omega)]
    rw [e, hlen']
    simp only [beq_iff_eq]
    have : p.l * 32 * (1 + bl0) = p.l * (32 * blz) := by rw [← hbz, Nat.mul_assoc, Nat.add_comm]
    omega
  unfold sigEncode
  rw [arith_i32 _ _ _ (by omega) (by omega), ok_bind]
  obtain ⟨bs1, hbs1, _, hbt1⟩ := mapM_ok_len (fun x => isInRange m x (p.gamma1 - 1) p.gamma1) (fun r => r ∈ z) (fun b => b = true)
    (fun r hr' => ⟨true, isInRange_true m r (p.gamma1 - 1) p.gamma1 (by omega) (hzr r hr'), rfl⟩) z (fun a ha => ha)
  have hall1 : bs1.all id = true := by rw [List.all_eq_true]; intro b hb'; exact hbt1 b hb'
  obtain ⟨bs2, hbs2, _, hbt2⟩ := mapM_ok_len (fun x => isInRange m x 0 1) (fun r => r ∈ h) (fun b => b = true)
    (fun r hr' => ⟨true, isInRange_true m r 0 1 (by omega) (fun c hc => by
      rcases (hb r hr').2 c hc with h0 | h1 <;> omega), rfl⟩) h (fun a ha => ha)
  have hall2 : bs2.all id = true := by rw [List.all_eq_true]; intro b hb'; exact hbt2 b hb'
  simp only [hbs1, hbs2, ok_bind, pure_eq, hall1, hall2, dassertM_true, dassertM_ok m _ _ hsl]
  rw [if_neg (by rw [hct]; exact fun h => h rfl), h0, ok_bind]
  have hstep : 32 * (1 + bl0) = 32 * blz := by rw [← hbz, Nat.add_comm]
  simp only [hstep]
  obtain ⟨zs, hzs, _, _⟩ := mapM_ok_len (fun x => bitPack m x (p.gamma1 - 1) p.gamma1 (32 * blz)) (fun r => r ∈ z) (fun o => o.length = 32 * blz)
    (fun r hr' => bitPack_ok m r (p.gamma1 - 1) p.gamma1 blz (by omega) (by omega) h1 hz2 (hzr r hr') (hz.2 r hr'))
    (z.take p.l) (fun a ha => List.mem_of_mem_take ha)
  rw [hzs, ok_bind, if_neg (by omega)]
  have hrest : p.sigLen - (p.lambdaDiv4 + p.l * (32 * blz)) = p.omega.toNat + p.k := by omega
  obtain ⟨y, hy, _⟩ := hintBitPack_ok m p.omega h p.k hom hh.1 cfg.omk hb hsum
  rw [hrest, hy, ok_bind]
  exact ⟨_, rfl⟩

theorem lowBits_range (g r : Int) (hg : G2 g) : -300000 < Spec.lowBits g r ∧ Spec.lowBits g r < 300000 := by
  unfold Spec.lowBits Spec.decompose modpm
  rcases hg with rfl | rfl
  · simp only [Q]; split <;> split <;> (simp only []; omega)
  · simp only [Q]; split <;> split <;> (simp only []; omega)

/-! ### one attempt of the rejection loop -/

/-- what the signer needs of a private-key struct; every struct `expand_private` returns has it -/
structure SkOk (p : ParamSet) (sk : PrivateKey) : Prop where
  rho : sk.rho.length = 32
  s1 : Sh p.l sk.s1
  s2 : Sh p.k sk.s2
  t0 : Sh p.k sk.t0
  b1 : ∀ w ∈ sk.s1, Bnd 16760833 w
  b2 : ∀ w ∈ sk.s2, Bnd 16760833 w
  b0 : ∀ w ∈ sk.t0, Bnd 16760833 w

theorem ones_le_256 (q : Poly) (h : Bin q) : ones q ≤ 256 := by
  unfold ones; have := List.length_filter_le (fun e => decide (e = 1)) q; rw [h.1] at this; exact this

theorem onesAll_le (h : List Poly) (hb : ∀ q ∈ h, Bin q) : onesAll h ≤ h.length * 256 := by
  induction h with
  | nil => simp [onesAll]
  | cons q qs ih =>
    rw [onesAll_cons, List.length_cons, Nat.add_mul, Nat.one_mul]
    have := ones_le_256 q (hb q (List.mem_cons_self ..))
    have := ih (fun x hx => hb x (List.mem_cons_of_mem _ hx))
    omega

theorem flatten_ne (n : Nat) (v : List Poly) (hn : 1 ≤ n) (hv : Sh n v) : v.flatten.length ≠ 0 := by
  rw [flatten_len 256 v hv.2, hv.1]
  have : 0 < n * 256 := Nat.mul_pos (by omega) (by omega)
  omega

/-- the accepted outcome of one attempt: everything `sig_encode` will assert -/
def AttemptOk (p : ParamSet) (r : Option (List Nat × List Poly × List Poly)) : Prop :=
  ∀ ct z h, r = some (ct, z, h) → ct.length = p.lambdaDiv4 ∧ Sh p.l z ∧
    (∀ q ∈ z, Dom q ∧ ∀ e ∈ q, -(p.gamma1 - 1) ≤ modpm Q e ∧ modpm Q e ≤ p.gamma1) ∧
    Sh p.k h ∧ (∀ q ∈ h, Bin q) ∧ onesAll h ≤ p.omega.toNat

theorem signAttempt_np (m : Mode) (O : Oracles) (hO : OracleOk O) (p : ParamSet) (blz : Nat) (cfg : VerCfg p blz) (hk : 1 ≤ p.k ∧ p.k ≤ 8)
    (sk : PrivateKey) (hsk : SkOk p sk) (aHat : List (List Poly))
    (hA : aHat.length = p.k ∧ ∀ row ∈ aHat, row.length = p.l ∧ ∀ q ∈ row, q.length = 256 ∧ Res q)
    (mu rhoPP : List Nat) (kappa : Int) (hkap : 0 ≤ kappa ∧ kappa + p.l ≤ 65536) :
    NoPanic (signAttempt m O false p sk aHat mu rhoPP kappa) (AttemptOk p) := by
  obtain ⟨_, _, _, _, _, hz1, hz2, hg1, hg2, _⟩ := gamma1_facts m p blz cfg.sig
  have hl7 := cfg.l7
  have hl1 := cfg.sig.l1
  have hbeta := cfg.beta
  have hom := cfg.sig.om
  have hgg : G2 p.gamma2 := by
    rcases cfg.g2 with ⟨h, _⟩ | ⟨h, _⟩
    · exact Or.inl h
    · exact Or.inr h
  have hg2r : 95232 ≤ p.gamma2 ∧ p.gamma2 ≤ 261888 := by rcases hgg with h | h <;> rw [h] <;> omega
  have hArow : ∀ row ∈ aHat, row.length ≤ 7 ∧ ∀ q ∈ row, Res q :=
    fun row hrow => ⟨by rw [(hA.2 row hrow).1]; exact hl7, fun q hq => ((hA.2 row hrow).2 q hq).2⟩
  have hAsh : ∀ row ∈ aHat, ∀ q ∈ row, q.length = 256 := fun row hrow q hq => ((hA.2 row hrow).2 q hq).1
  unfold signAttempt
  -- y
  refine (NoPanic.of_ok (expandMask_ok m O hO p blz cfg.sig rhoPP kappa hkap (by omega))).bind (fun y hy => ?_)
  obtain ⟨ysh, yr⟩ := hy
  have yB : ∀ w ∈ y, Bnd 524288 w := fun w hw x hx => by have := yr w hw x hx; omega
  -- w = invNtt (A ∘ ntt y)
  obtain ⟨yh, hyh, byh⟩ := ntt_ok m y yB
  have shyh := ntt_sh m p.l y yh ysh hyh
  obtain ⟨ay, hay, bay⟩ := matVecMul_ok m aHat yh 7 hArow (fun w hw => (byh w hw).mono (by omega)) (by omega)
  have shay := matVecMul_sh m aHat yh ay p.k p.l hA.1 hAsh shyh hay
  obtain ⟨w, hw, bw⟩ := invNtt_ok m ay (fun w hw => (bay w hw).mono (by decide))
  have shw := invNtt_sh m p.k ay w shay hw
  rw [hyh, ok_bind, hay, ok_bind, hw, ok_bind]
  -- w1 = high_bits w
  refine (NoPanic.of_ok (mapM_ok_len _ (fun q => q ∈ w) (fun q => q.length = 256 ∧ ∀ x ∈ q, 0 ≤ x ∧ x ≤ (Q - 1) / (2 * p.gamma2) - 1)
    (fun q hq => by
      obtain ⟨r, h1, h2, h3⟩ := mapM_ok_len (high_bits m p.gamma2) (fun x => 0 ≤ x ∧ x < 8380417)
        (fun x => 0 ≤ x ∧ x ≤ (Q - 1) / (2 * p.gamma2) - 1)
        (fun x hx => ⟨_, high_bits_eq m p.gamma2 x hgg (by omega) (by omega), by
          unfold Spec.highBits
          rcases hgg with h | h
          · rw [h]; have := spec_decompose_r1_44 x; have e : ((Q:Int) - 1) / (2 * 95232) - 1 = 43 := by decide
            rw [e]; exact this
          · rw [h]; have := spec_decompose_r1_65 x; have e : ((Q:Int) - 1) / (2 * 261888) - 1 = 15 := by decide
            rw [e]; exact this⟩) q (bw q hq)
      exact ⟨r, h1, by rw [h2]; exact shw.2 q hq, h3⟩) w (fun q hq => hq))).bind (fun w1 hw1 => ?_)
  obtain ⟨w1l, w1r⟩ := hw1
  obtain ⟨w1t, hw1t⟩ := w1Encode_ok m p cfg.g2 w1 ⟨by rw [w1l]; exact shw.1, fun q hq => (w1r q hq).1⟩ (fun q hq => (w1r q hq).2)
  rw [hw1t, ok_bind]
  -- challenge
  refine (sampleInBall_np m O hO false p.tau _ cfg.tau).bind (fun c hc => ?_)
  obtain ⟨ch, hch, bch⟩ := nttPoly_ok m c (hc.2.mono (by omega))
  have hchl := nttPoly_len m c ch hc.1 hch
  rw [ntt_single m c ch hch, ok_bind]
  simp only [idx, List.getElem?_cons_zero, pure_eq, ok_bind]
  -- c s1, c s2
  obtain ⟨cs1, hcs1, shcs1, bcs1⟩ := mulInv_ok m "ml_dsa.rs:sign_internal:c_hat*s1" ch sk.s1 p.l bch hchl hsk.b1 hsk.s1
  obtain ⟨cs2, hcs2, shcs2, bcs2⟩ := mulInv_ok m "ml_dsa.rs:sign_internal:c_hat*s2" ch sk.s2 p.k bch hchl hsk.b2 hsk.s2
  rw [hcs1, ok_bind, hcs2, ok_bind]
  -- z
  refine (NoPanic.of_ok (zipWithM_ok_len _ (fun yp => yp.length = 256 ∧ ∀ x ∈ yp, -524288 ≤ x ∧ x ≤ 524288)
    (fun cp => cp.length = 256 ∧ ∀ x ∈ cp, 0 ≤ x ∧ x < 8380417) (fun q => q.length = 256 ∧ Dom q)
    (fun yp cp hyp hcp => by
      obtain ⟨r, h1, h2, h3⟩ := zipWithM_ok_len (fun a b => do
          let s ← arith .i32 m "ml_dsa.rs:sign_internal:y+cs1" (a + b)
          partial_reduce32 m s) (fun a => -524288 ≤ a ∧ a ≤ 524288) (fun b => 0 ≤ b ∧ b < 8380417)
        (fun r => -2143289344 < r ∧ r < 2143289344)
        (fun a b ha hb => by
          have := pr32_spec (a + b) (by omega) (by omega)
          refine ⟨pr32 (a + b), ?_, by omega, by omega⟩
          rw [arith_i32 _ _ _ (by omega) (by omega), ok_bind]
          exact partial_reduce32_eq m _ (by omega) (by omega)) yp cp hyp.2 hcp.2
      exact ⟨r, h1, by rw [h2, hyp.1, hcp.1]; simp, h3⟩) y cs1
    (fun yp hyp => ⟨ysh.2 yp hyp, yB yp hyp⟩) (fun cp hcp => ⟨shcs1.2 cp hcp, bcs1 cp hcp⟩))).bind (fun z hz => ?_)
  obtain ⟨zl, zr⟩ := hz
  have shz : Sh p.l z := ⟨by rw [zl, ysh.1, shcs1.1]; simp, fun q hq => (zr q hq).1⟩
  -- r0
  refine (NoPanic.of_ok (zipWithM_ok_len _ (fun wp => wp.length = 256 ∧ ∀ x ∈ wp, 0 ≤ x ∧ x < 8380417)
    (fun cp => cp.length = 256 ∧ ∀ x ∈ cp, 0 ≤ x ∧ x < 8380417) (fun q => q.length = 256 ∧ Dom q)
    (fun wp cp hwp hcp => by
      obtain ⟨r, h1, h2, h3⟩ := zipWithM_ok_len (fun a b => do
          let s ← arith .i32 m "ml_dsa.rs:sign_internal:w-cs2" (a - b)
          let r ← partial_reduce32 m s
          low_bits m p.gamma2 r) (fun a => 0 ≤ a ∧ a < 8380417) (fun b => 0 ≤ b ∧ b < 8380417)
        (fun r => -2143289344 < r ∧ r < 2143289344)
        (fun a b ha hb => by
          have hp := pr32_spec (a - b) (by omega) (by omega)
          refine ⟨Spec.lowBits p.gamma2 (pr32 (a - b)), ?_, ?_⟩
          · rw [arith_i32 _ _ _ (by omega) (by omega), ok_bind, partial_reduce32_eq m _ (by omega) (by omega), ok_bind]
            exact low_bits_eq m p.gamma2 _ hgg (by omega) (by omega)
          · have := lowBits_range p.gamma2 (pr32 (a - b)) hgg
            omega) wp cp hwp.2 hcp.2
      exact ⟨r, h1, by rw [h2, hwp.1, hcp.1]; simp, h3⟩) w cs2
    (fun wp hwp => ⟨shw.2 wp hwp, bw wp hwp⟩) (fun cp hcp => ⟨shcs2.2 cp hcp, bcs2 cp hcp⟩))).bind (fun r0 hr0 => ?_)
  obtain ⟨r0l, r0r⟩ := hr0
  have shr0 : Sh p.k r0 := ⟨by rw [r0l, shw.1, shcs2.1]; simp, fun q hq => (r0r q hq).1⟩
  -- norms and thresholds
  obtain ⟨zn, hzn, zn0, _, znb⟩ := infinityNorm_gen m z (flatten_ne p.l z hl1 shz) (fun q hq => (zr q hq).2)
  obtain ⟨rn, hrn, _, _, _⟩ := infinityNorm_gen m r0 (flatten_ne p.k r0 hk.1 shr0) (fun q hq => (r0r q hq).2)
  rw [hzn, ok_bind, hrn, ok_bind, arith_i32 _ _ _ (by omega) (by omega), ok_bind, arith_i32 _ _ _ (by omega) (by omega), ok_bind]
  simp only [Bool.not_false, Bool.true_and]
  by_cases hrej : (decide (zn ≥ p.gamma1 - p.beta) || decide (rn ≥ p.gamma2 - p.beta)) = true
  · rw [if_pos hrej]; exact NoPanic.ok _ (fun ct z h hh => by simp at hh)
  · rw [if_neg hrej]
    simp only [Bool.or_eq_true, decide_eq_true_eq, not_or, Int.not_le] at hrej
    -- c t0 and the hint
    obtain ⟨ct0, hct0, shct0, bct0⟩ := mulInv_ok m "ml_dsa.rs:sign_internal:c_hat*t0" ch sk.t0 p.k bch hchl hsk.b0 hsk.t0
    rw [hct0, ok_bind]
    refine (NoPanic.of_ok (zipWith3M_ok_len _ (fun wp => wp.length = 256 ∧ ∀ x ∈ wp, 0 ≤ x ∧ x < 8380417)
      (fun cp => cp.length = 256 ∧ ∀ x ∈ cp, 0 ≤ x ∧ x < 8380417) (fun cp => cp.length = 256 ∧ ∀ x ∈ cp, 0 ≤ x ∧ x < 8380417) Bin
      (fun wp c2p c0p hwp hc2 hc0 => by
        obtain ⟨r, h1, h2, h3⟩ := zipWith3M_ok_len (fun a b c0 => do
            let qc ← arith .i32 m "ml_dsa.rs:sign_internal:Q-ct0" (Q - c0)
            let s1 ← arith .i32 m "ml_dsa.rs:sign_internal:w-cs2" (a - b)
            let s2 ← arith .i32 m "ml_dsa.rs:sign_internal:w-cs2+ct0" (s1 + c0)
            let r ← partial_reduce32 m s2
            let hb ← make_hint m p.gamma2 qc r
            pure (if hb then (1 : Int) else 0)) (fun a => 0 ≤ a ∧ a < 8380417) (fun b => 0 ≤ b ∧ b < 8380417)
          (fun c0 => 0 ≤ c0 ∧ c0 < 8380417) (fun r => r = 0 ∨ r = 1)
          (fun a b c0 ha hb hc => by
            have hp := pr32_spec (a - b + c0) (by omega) (by omega)
            refine ⟨if Spec.makeHint p.gamma2 (Q - c0) (pr32 (a - b + c0)) then 1 else 0, ?_, by split <;> simp⟩
            simp only [Q] at *
            rw [arith_i32 _ _ _ (by omega) (by omega), ok_bind, arith_i32 _ _ _ (by omega) (by omega), ok_bind,
              arith_i32 _ _ _ (by omega) (by omega), ok_bind, partial_reduce32_eq m _ (by omega) (by omega), ok_bind,
              make_hint_eq m p.gamma2 _ _ hgg (by omega) (by omega) (by omega) (by omega), ok_bind, pure_eq]) wp c2p c0p hwp.2 hc2.2 hc0.2
        exact ⟨r, h1, ⟨by rw [h2, hwp.1, hc2.1, hc0.1]; simp, h3⟩⟩) w cs2 ct0
      (fun wp hwp => ⟨shw.2 wp hwp, bw wp hwp⟩) (fun cp hcp => ⟨shcs2.2 cp hcp, bcs2 cp hcp⟩)
      (fun cp hcp => ⟨shct0.2 cp hcp, bct0 cp hcp⟩))).bind (fun h hh => ?_)
    obtain ⟨hl, hbin⟩ := hh
    have shh : Sh p.k h := ⟨by rw [hl, shw.1, shcs2.1, shct0.1]; simp, fun q hq => (hbin q hq).1⟩
    simp only [Bool.false_eq_true, if_false]
    obtain ⟨cn, hcn, _, _, _⟩ := infinityNorm_gen m ct0 (flatten_ne p.k ct0 hk.1 shct0)
      (fun q hq x hx => by have := bct0 q hq x hx; omega)
    have hoa := onesAll_le h hbin
    rw [shh.1] at hoa
    have hoa2 : onesAll h ≤ 2048 := by
      have : p.k * 256 ≤ 8 * 256 := Nat.mul_le_mul_right _ hk.2
      omega
    rw [hcn, ok_bind, hsum_ok m h 0 hbin (by omega) (by omega), ok_bind]
    by_cases hrej2 : (decide (cn ≥ p.gamma2) || decide ((0:Int) + (onesAll h : Nat) > p.omega)) = true
    · rw [if_pos hrej2]; exact NoPanic.ok _ (fun ct z h hh => by simp at hh)
    · rw [if_neg hrej2]
      simp only [Bool.or_eq_true, decide_eq_true_eq, not_or, Int.not_le, Int.not_lt, gt_iff_lt] at hrej2
      refine NoPanic.ok _ (fun ct' z' h' heq => ?_)
      simp only [Option.some.injEq, Prod.mk.injEq] at heq
      obtain ⟨rfl, rfl, rfl⟩ := heq
      refine ⟨hO.hlen _ _, shz, fun q hq => ⟨(zr q hq).2, fun e he => ?_⟩, shh, hbin, by omega⟩
      have := znb q hq e he
      omega

/-! ### the rejection loop and `sign_internal` -/

theorem signLoop_np (m : Mode) (O : Oracles) (hO : OracleOk O) (p : ParamSet) (blz : Nat) (cfg : VerCfg p blz) (hk : 1 ≤ p.k ∧ p.k ≤ 8)
    (sk : PrivateKey) (hsk : SkOk p sk) (aHat : List (List Poly))
    (hA : aHat.length = p.k ∧ ∀ row ∈ aHat, row.length = p.l ∧ ∀ q ∈ row, q.length = 256 ∧ Res q) (mu rhoPP : List Nat) :
    ∀ (fuel : Nat) (kappa : Int) (it : Nat), 0 ≤ kappa → kappa + fuel * p.l ≤ 65535 →
      NoPanic (signLoop m O false p sk aHat mu rhoPP fuel kappa it) (fun r => AttemptOk p (some (r.1, r.2.1, r.2.2.1))) := by
  intro fuel
  induction fuel with
  | zero => intro kappa it _ _; exact Or.inr ⟨_, rfl⟩
  | succ fuel ih =>
    intro kappa it hk0 hroom
    have hl7 := cfg.l7
    have hmul : ((fuel + 1 : Nat) : Int) * p.l = fuel * p.l + p.l := by
      rw [Int.natCast_add, Int.add_mul]; simp
    have hfl : (0:Int) ≤ (fuel : Int) * p.l := Int.mul_nonneg (Int.natCast_nonneg _) (Int.natCast_nonneg _)
    unfold signLoop
    refine (signAttempt_np m O hO p blz cfg hk sk hsk aHat hA mu rhoPP kappa ⟨hk0, by omega⟩).bind (fun r hr => ?_)
    cases r with
    | some t =>
      obtain ⟨c, z, h⟩ := t
      simp only [pure_eq]
      exact NoPanic.ok _ hr
    | none =>
      simp only []
      rw [if_neg (by omega)]
      have hk' : arith .u16 m "ml_dsa.rs:sign_internal:kappa_ctr+=L" (kappa + Int.ofNat p.l) = .ok (kappa + Int.ofNat p.l) :=
        arith_ok _ _ _ _ (by simp only [IT.lo]; have : (0:Int) ≤ Int.ofNat p.l := Int.natCast_nonneg _; omega)
          (by simp only [IT.hi]; show kappa + (p.l : Int) ≤ 65535; omega)
      rw [hk', ok_bind]
      exact ih (kappa + Int.ofNat p.l) (it + 1) (by have : (0:Int) ≤ Int.ofNat p.l := Int.natCast_nonneg _; omega)
        (by show kappa + (p.l : Int) + fuel * p.l ≤ 65535; omega)

/-- **`sign_internal` never panics** on a well-formed private-key struct, for every message, context, pre-hash and
    randomness, as long as the u16 counter `kappa` has room for the attempts (`fuel * l ≤ 65535`) -/
theorem signInternal_np (m : Mode) (O : Oracles) (hO : OracleOk O) (p : ParamSet) (blz : Nat) (cfg : VerCfg p blz) (hk : 1 ≤ p.k ∧ p.k ≤ 8)
    (fuel : Nat) (hfuel : fuel * p.l ≤ 65535) (sk : PrivateKey) (hsk : SkOk p sk) (msg ctx oid phm rnd : List Nat) (nist : Bool) :
    NoPanic (signInternal m O false p fuel sk msg ctx oid phm rnd nist) (fun _ => True) := by
  obtain ⟨_, _, _, _, _, hz1, hz2, hg1, hg2, _⟩ := gamma1_facts m p blz cfg.sig
  unfold signInternal
  refine (expandA_np m O hO false p sk.rho hsk.rho).bind (fun aHat hA => ?_)
  simp only []
  refine (signLoop_np m O hO p blz cfg hk sk hsk aHat hA _ _ fuel 0 0 (by omega) (by
    have : ((fuel * p.l : Nat) : Int) ≤ 65535 := Int.ofNat_le.mpr hfuel
    rw [Int.natCast_mul] at this; omega)).bind (fun r hr => ?_)
  obtain ⟨ct, z, h, it⟩ := r
  obtain ⟨c1, c2, c3, c4, c5, c6⟩ := hr ct z h rfl
  simp only []
  obtain ⟨zm, hzm, hzl, hzr⟩ := mapM_ok_len (fun q : Poly => q.mapM (center_mod m)) (fun q => q ∈ z)
    (fun q => q.length = 256 ∧ ∀ c ∈ q, -(p.gamma1 - 1) ≤ c ∧ c ≤ p.gamma1)
    (fun q hq => by
      have hmp := mapM_pure (center_mod m) (modpm Q) q (fun e he => center_mod_eq m e ((c3 q hq).1 e he).1 ((c3 q hq).1 e he).2)
      refine ⟨_, hmp, by rw [List.length_map]; exact c2.2 q hq, fun c hc => ?_⟩
      obtain ⟨e, he, rfl⟩ := List.mem_map.mp hc
      exact (c3 q hq).2 e he) z (fun q hq => hq)
  rw [hzm, ok_bind]
  obtain ⟨sig, hsig⟩ := sigEncode_ok m p blz cfg.sig ct zm h c1 ⟨by rw [hzl]; exact c2.1, fun q hq => (hzr q hq).1⟩
    (fun q hq => (hzr q hq).2) c4 c5 c6
  rw [hsig, ok_bind, pure_eq]
  exact NoPanic.ok _ trivial

/-! ### every struct `expand_private` returns is well formed -/

theorem drainCoeffs_len (m : Mode) (a b : Int) (bl : Nat) : ∀ (fuel : Nat) (t : Int) (bi : Nat) (out : List Int) (st' : Int × Nat × List Int),
    drainCoeffs m a b bl fuel t bi out = .ok st' → out.length ≤ st'.2.2.length := by
  intro fuel
  induction fuel with
  | zero => intro t bi out st' h; simp only [drainCoeffs, pure_eq] at h; rw [← ok_inj h]; exact Nat.le_refl _
  | succ fuel ih =>
    intro t bi out st' h
    unfold drainCoeffs at h
    by_cases hge : bi ≥ bl
    · rw [if_pos hge] at h
      simp only [] at h
      by_cases ha : a = 0
      · rw [if_pos ha, pure_eq, ok_bind] at h
        have := ih _ _ _ _ h
        simp only [List.length_cons] at this; omega
      · rw [if_neg ha] at h
        obtain ⟨c, _, h⟩ := bind_ok_inv h
        have := ih _ _ _ _ h
        simp only [List.length_cons] at this; omega
    · rw [if_neg hge, pure_eq] at h; rw [← ok_inj h]; exact Nat.le_refl _

theorem unpackStep_len (m : Mode) (a b : Int) (bl : Nat) (st st' : Int × Nat × List Int) (byte : Nat)
    (h : unpackStep m a b bl st byte = .ok st') : st'.2.2.length ≤ 256 := by
  obtain ⟨temp, bi, out⟩ := st
  unfold unpackStep at h
  simp only [] at h
  obtain ⟨sh, _, h⟩ := bind_ok_inv h
  obtain ⟨st1, _, h⟩ := bind_ok_inv h
  obtain ⟨t1, b1, o1⟩ := st1
  simp only [] at h
  by_cases hgt : o1.length > 256
  · rw [if_pos hgt] at h; cases h
  · rw [if_neg hgt, pure_eq] at h; rw [← ok_inj h]; simp only; omega

theorem unpackFold_len (m : Mode) (a b : Int) (bl : Nat) : ∀ (v : List Nat) (st st' : Int × Nat × List Int), st.2.2.length ≤ 256 →
    v.foldlM (unpackStep m a b bl) st = .ok st' → st'.2.2.length ≤ 256 := by
  intro v
  induction v with
  | nil => intro st st' h0 h; rw [List.foldlM_nil, pure_eq] at h; rw [← ok_inj h]; exact h0
  | cons x xs ih =>
    intro st st' _ h
    rw [List.foldlM_cons] at h
    obtain ⟨st1, h1, h⟩ := bind_ok_inv h
    exact ih st1 st' (unpackStep_len m a b bl st st1 x h1) h

/-- whatever `bit_unpack` returns has exactly 256 coefficients -/
theorem bitUnpack_len (m : Mode) (v : List Nat) (a b : Int) (t : Poly) (h : bitUnpack m v a b = .ok (some t)) : t.length = 256 := by
  unfold bitUnpack at h
  obtain ⟨_, _, h⟩ := bind_ok_inv h
  obtain ⟨_, _, h⟩ := bind_ok_inv h
  obtain ⟨ab, _, h⟩ := bind_ok_inv h
  obtain ⟨bl, _, h⟩ := bind_ok_inv h
  obtain ⟨_, _, h⟩ := bind_ok_inv h
  by_cases hb0 : bl = 0
  · rw [if_pos hb0] at h; cases h
  · rw [if_neg hb0] at h
    obtain ⟨st, hst, h⟩ := bind_ok_inv h
    obtain ⟨t1, b1, out⟩ := st
    have hol := unpackFold_len m a b bl v (0, 0, []) (t1, b1, out) (by simp) hst
    simp only [] at h hol
    obtain ⟨ok, _, h⟩ := bind_ok_inv h
    cases ok with
    | false => simp only [Bool.false_eq_true, if_false, pure_eq] at h; have := ok_inj h; simp at this
    | true =>
      simp only [if_true, pure_eq] at h
      have := ok_inj h
      simp only [Option.some.injEq] at this
      rw [← this, List.length_append, List.length_replicate, List.length_reverse]; omega

theorem unpackMany_len (m : Mode) (site : String) (bytes : List Nat) (start step : Nat) (a b : Int) :
    ∀ (is : List Nat) (acc z : List Poly), (∀ q ∈ acc, q.length = 256) →
      unpackMany m site bytes start step a b is acc = .ok (some z) → z.length = acc.length + is.length ∧ ∀ q ∈ z, q.length = 256 := by
  intro is
  induction is with
  | nil =>
    intro acc z hacc h
    simp only [unpackMany, pure_eq] at h
    have := ok_inj h
    simp only [Option.some.injEq] at this
    rw [← this]
    exact ⟨by simp, fun q hq => hacc q (List.mem_reverse.mp hq)⟩
  | cons i is ih =>
    intro acc z hacc h
    unfold unpackMany at h
    obtain ⟨sl, _, h⟩ := bind_ok_inv h
    obtain ⟨r, hr, h⟩ := bind_ok_inv h
    cases r with
    | none => rw [pure_eq] at h; have := ok_inj h; simp at this
    | some t =>
      replace h : unpackMany m site bytes start step a b is (t :: acc) = .ok (some z) := h
      obtain ⟨h1, h2⟩ := ih (t :: acc) z (fun q hq => by
        rcases List.mem_cons.mp hq with rfl | hq
        · exact bitUnpack_len m sl a b q hr
        · exact hacc q hq) h
      exact ⟨by rw [h1]; simp; omega, h2⟩

theorem slice_len {α} (site : String) (l : List α) (a b : Nat) (r : List α) (h : slice site l a b = .ok r) : r.length = b - a := by
  unfold slice at h
  by_cases hc : a ≤ b ∧ b ≤ l.length
  · rw [if_pos hc, pure_eq] at h; rw [← ok_inj h, List.length_take, List.length_drop]; omega
  · rw [if_neg hc] at h; cases h

theorem skDecode_sh (m : Mode) (p : ParamSet) (skb : List Nat) (s : SkParts) (h : skDecode m p skb = .ok (some s)) :
    s.rho.length = 32 ∧ Sh p.l s.s1 ∧ Sh p.k s.s2 ∧ Sh p.k s.t0 := by
  unfold skDecode at h
  simp only [] at h
  obtain ⟨_, _, h⟩ := bind_ok_inv h
  obtain ⟨bl, _, h⟩ := bind_ok_inv h
  obtain ⟨_, _, h⟩ := bind_ok_inv h
  obtain ⟨rho, hrho, h⟩ := bind_ok_inv h
  obtain ⟨key, _, h⟩ := bind_ok_inv h
  obtain ⟨tr, _, h⟩ := bind_ok_inv h
  obtain ⟨r1, hr1, h⟩ := bind_ok_inv h
  cases r1 with
  | none => rw [pure_eq] at h; have := ok_inj h; simp at this
  | some s1 =>
    simp only [] at h
    obtain ⟨r2, hr2, h⟩ := bind_ok_inv h
    cases r2 with
    | none => rw [pure_eq] at h; have := ok_inj h; simp at this
    | some s2 =>
      simp only [] at h
      obtain ⟨r3, hr3, h⟩ := bind_ok_inv h
      cases r3 with
      | none => rw [pure_eq] at h; have := ok_inj h; simp at this
      | some t0 =>
        simp only [] at h
        obtain ⟨_, _, h⟩ := bind_ok_inv h
        rw [pure_eq] at h
        have := ok_inj h
        simp only [Option.some.injEq] at this
        subst this
        have l1 := unpackMany_len m _ skb _ _ _ _ (List.range p.l) [] s1 (by simp) hr1
        have l2 := unpackMany_len m _ skb _ _ _ _ (List.range p.k) [] s2 (by simp) hr2
        have l3 := unpackMany_len m _ skb _ _ _ _ (List.range p.k) [] t0 (by simp) hr3
        simp only [List.length_nil, List.length_range, Nat.zero_add] at l1 l2 l3
        exact ⟨slice_len _ _ _ _ _ hrho, l1, l2, l3⟩

theorem nttMont_ok (m : Mode) (n : Nat) (v : List Poly) (hv : ∀ w ∈ v, Bnd 524288 w) (hs : Sh n v) :
    ∃ r, nttMont m v = .ok r ∧ Sh n r ∧ ∀ w ∈ r, Bnd 16760833 w := by
  obtain ⟨a, ha, ba⟩ := ntt_ok m v hv
  obtain ⟨b, hb, bb⟩ := toMont_ok m a (fun w hw => (ba w hw).mono (by omega))
  exact ⟨b, by unfold nttMont; rw [ha, ok_bind]; exact hb, toMont_sh m n a b (ntt_sh m n v a hs ha) hb, bb⟩

/-- **every private-key struct `expand_private` returns is well formed** (shapes and NTT-domain magnitudes) -/
theorem expandPrivate_skok (m : Mode) (p : ParamSet) (he : 0 ≤ p.eta ∧ p.eta ≤ 4) (skb : List Nat) (sk : PrivateKey)
    (h : expandPrivate m p skb = .ok (some sk)) : SkOk p sk := by
  unfold expandPrivate at h
  obtain ⟨r, hr, h⟩ := bind_ok_inv h
  cases r with
  | none => rw [pure_eq] at h; have := ok_inj h; simp at this
  | some s =>
    simp only [] at h
    obtain ⟨hrho, sh1, sh2, sh0⟩ := skDecode_sh m p skb s hr
    obtain ⟨r1, r2, r0⟩ := Props.C10.skDecode_accepts_only_in_range m p skb s ⟨he.1, by omega⟩ hr
    have ht : top = 4096 := by decide
    obtain ⟨a1, ha1, s1, b1⟩ := nttMont_ok m p.l s.s1 (fun w hw x hx => by have := r1 w hw x hx; omega) sh1
    obtain ⟨a2, ha2, s2, b2⟩ := nttMont_ok m p.k s.s2 (fun w hw x hx => by have := r2 w hw x hx; omega) sh2
    obtain ⟨a0, ha0, s0, b0⟩ := nttMont_ok m p.k s.t0 (fun w hw x hx => by have := r0 w hw x hx; rw [ht] at this; omega) sh0
    rw [ha1, ok_bind, ha2, ok_bind, ha0, ok_bind, pure_eq] at h
    have := ok_inj h
    simp only [Option.some.injEq] at this
    subst this
    exact ⟨hrho, s1, s2, s0, b1, b2, b0⟩

end Fips204.Impl
