import Fips204.Lemmas.KeyRoundTrip
/-! Generated keys: what `key_gen_internal` returns, in terms of the vectors it sampled; their serialisation never
    panics. -/
namespace Fips204.Impl
open Fips204 Fips204.Gen Fips204.K

/-- `sk_encode` never faults on in-range parts, and fills exactly `SK_LEN` bytes -/
theorem skEncode_ok (m : Mode) (p : ParamSet) (he : p.eta = 2 ∨ p.eta = 4) (bl : Nat) (hbl : bitLen m (2 * p.eta) = .ok bl)
    (hcfg : p.skLen = 128 + 32 * ((p.k + p.l) * bl + D.toNat * p.k)) (s : SkParts)
    (hr : s.rho.length = 32) (hk : s.key.length = 32) (ht : s.tr.length = 64)
    (h1 : VecIn p.l (-p.eta) p.eta s.s1) (h2 : VecIn p.k (-p.eta) p.eta s.s2) (h0 : VecIn p.k (-(top - 1)) top s.t0) :
    ∃ out, skEncode m p s = .ok out ∧ out.length = p.skLen := by
  obtain ⟨bl', g1, g2, g3, g4⟩ := bitLen_eta m p.eta he
  rw [hbl] at g1
  simp only [Except.ok.injEq] at g1
  subst g1
  have hD : D.toNat = 13 := by decide
  have eta0 : 0 ≤ p.eta ∧ p.eta < 1048576 := by rcases he with h | h <;> omega
  have eta1 : 1 ≤ p.eta ∧ p.eta < 1048576 := by rcases he with h | h <;> omega
  have htop : top = 4096 := by decide
  unfold skEncode
  simp only []
  have d1 : dassert m "encodings.rs:sk_encode:debug_assert(Alg 24: incorrect eta)" (decide (p.eta = 2) || decide (p.eta = 4)) = .ok () := by
    apply dassert_dec; rcases he with h | h <;> simp [h]
  rw [d1, ok_bind, dassertM_ok m _ _ (mapM_isInRange_true m s.s1 p.eta p.eta (by omega) h1.2), ok_bind,
    dassertM_ok m _ _ (mapM_isInRange_true m s.s2 p.eta p.eta (by omega) h2.2), ok_bind,
    dassertM_ok m _ _ (mapM_isInRange_true m s.t0 (top - 1) top (by rw [htop]; omega) h0.2), ok_bind, hbl, ok_bind,
    dassert_dec m _ _ (by simp [hcfg]), ok_bind, if_neg (by rw [hr, hk, ht]; simp)]
  obtain ⟨p1, hp1, l1, r1⟩ := mapM_ok_len (fun x => bitPack m x p.eta p.eta (32 * bl)) (fun r => r ∈ s.s1) (fun o => o.length = 32 * bl)
    (fun r hr' => bitPack_ok m r p.eta p.eta bl eta0 eta1 g2 g4 (h1.2 r hr') (h1.1.2 r hr')) (s.s1.take p.l) (fun a ha => List.mem_of_mem_take ha)
  obtain ⟨p2, hp2, l2, r2⟩ := mapM_ok_len (fun x => bitPack m x p.eta p.eta (32 * bl)) (fun r => r ∈ s.s2) (fun o => o.length = 32 * bl)
    (fun r hr' => bitPack_ok m r p.eta p.eta bl eta0 eta1 g2 g4 (h2.2 r hr') (h2.1.2 r hr')) (s.s2.take p.k) (fun a ha => List.mem_of_mem_take ha)
  obtain ⟨p3, hp3, l3, r3⟩ := mapM_ok_len (fun x => bitPack m x (top - 1) top (32 * 13)) (fun r => r ∈ s.t0) (fun o => o.length = 32 * 13)
    (fun r hr' => bitPack_ok m r (top - 1) top 13 (by rw [htop]; omega) (by rw [htop]; omega) (bitLen_t0 m) (by omega) (h0.2 r hr') (h0.1.2 r hr'))
    (s.t0.take p.k) (fun a ha => List.mem_of_mem_take ha)
  rw [hp1, ok_bind, hp2, ok_bind, hD, hp3, ok_bind]
  have f1 := flatten_len (32 * bl) p1 r1
  have f2 := flatten_len (32 * bl) p2 r2
  have f3 := flatten_len (32 * 13) p3 r3
  rw [l1, List.length_take, h1.1.1, Nat.min_self] at f1
  rw [l2, List.length_take, h2.1.1, Nat.min_self] at f2
  rw [l3, List.length_take, h0.1.1, Nat.min_self] at f3
  have hexp : (p.k + p.l) * bl = p.l * bl + p.k * bl := by rw [Nat.add_mul]; omega
  have e1 : p.l * (32 * bl) = 32 * (p.l * bl) := by rw [Nat.mul_left_comm]
  have e2 : p.k * (32 * bl) = 32 * (p.k * bl) := by rw [Nat.mul_left_comm]
  have hlen : (s.rho ++ s.key ++ s.tr ++ p1.flatten ++ p2.flatten ++ p3.flatten).length = p.skLen := by
    simp only [List.length_append, hr, hk, ht, f1, f2, f3, hcfg, hD, hexp]; omega
  rw [if_neg (by rw [hlen]; exact fun h => h rfl), pure_eq]
  exact ⟨_, rfl, hlen⟩

/-- **generated keys serialise without a panic**, to `pkEncode(rho, t1)` and `skEncode(rho, K, tr, s1, s2, t0)` of
    the vectors key generation sampled and rounded -/
theorem gen_serialise (m : Mode) (O : Oracles) (p : ParamSet) (he : p.eta = 2 ∨ p.eta = 4) (bl : Nat) (hbl : bitLen m (2 * p.eta) = .ok bl)
    (hcfg : p.skLen = 128 + 32 * ((p.k + p.l) * bl + D.toNat * p.k)) (kp : PublicKey × PrivateKey) (hg : GenOk m O p kp) :
    ∃ pkb skb s1 s2 t0 t1, pkIntoBytes m p kp.1 = .ok pkb ∧ skIntoBytes m p kp.2 = .ok skb ∧ skb.length = p.skLen ∧
      pkEncode m p kp.1.rho t1 = .ok pkb ∧ kp.1.tr = O.h pkb 64 ∧
      skEncode m p { rho := kp.2.rho, key := kp.2.key, tr := kp.2.tr, s1 := s1, s2 := s2, t0 := t0 } = .ok skb ∧
      VecIn p.l (-p.eta) p.eta s1 ∧ VecIn p.k (-p.eta) p.eta s2 ∧ VecIn p.k (-4095) 4096 t0 ∧ VecIn p.k 0 1023 t1 ∧
      nttMont m s1 = .ok kp.2.s1 ∧ nttMont m s2 = .ok kp.2.s2 ∧ nttMont m t0 = .ok kp.2.t0 ∧ precomputeT1 m t1 = .ok kp.1.t1d2 := by
  obtain ⟨s1, s2, t0, t1, pkb, v1, v2, v0, vt, n1, n2, n0, pc, pe, htr, _⟩ := hg.vecs
  have eta4 : 0 ≤ p.eta ∧ p.eta ≤ 4 := by rcases he with h | h <;> omega
  -- public key
  obtain ⟨r, a, b, h1, h2, h3, h4⟩ := precompute_round m t1 (fun q hq => ⟨vt.1.2 q hq, vt.2 q hq⟩)
  rw [pc] at h1
  have hr := ok_inj h1
  subst hr
  have hpk : pkIntoBytes m p kp.1 = .ok pkb := by
    unfold pkIntoBytes
    simp only []
    rw [h2, ok_bind, h3, ok_bind, h4]
    exact pe
  -- private key
  obtain ⟨a1, ha1, u1⟩ := unMont_nttMont m s1 (fun q hq => ⟨v1.1.2 q hq, fun x hx => by have := v1.2 q hq x hx; omega⟩)
  obtain ⟨a2, ha2, u2⟩ := unMont_nttMont m s2 (fun q hq => ⟨v2.1.2 q hq, fun x hx => by have := v2.2 q hq x hx; omega⟩)
  obtain ⟨a0, ha0, u0⟩ := unMont_nttMont m t0 (fun q hq => ⟨v0.1.2 q hq, fun x hx => by have := v0.2 q hq x hx; omega⟩)
  rw [n1] at ha1; rw [n2] at ha2; rw [n0] at ha0
  have e1 := ok_inj ha1; have e2 := ok_inj ha2; have e0 := ok_inj ha0
  subst e1 e2 e0
  have htop : top = 4096 := by decide
  obtain ⟨skb, hsk, hskl⟩ := skEncode_ok m p he bl hbl hcfg { rho := kp.2.rho, key := kp.2.key, tr := kp.2.tr, s1 := s1, s2 := s2, t0 := t0 }
    hg.sk.rho hg.lens.1 hg.lens.2.1 v1 v2 ⟨v0.1, fun q hq x hx => by have := v0.2 q hq x hx; rw [htop]; omega⟩
  refine ⟨pkb, skb, s1, s2, t0, t1, hpk, ?_, hskl, pe, htr, hsk, v1, v2, v0, vt, n1, n2, n0, pc⟩
  unfold skIntoBytes
  rw [u1, ok_bind, u2, ok_bind, u0, ok_bind]
  exact hsk

/-! ### decoding what the encoders wrote -/

theorem drop_len_add {α} (l1 l2 : List α) (n : Nat) : (l1 ++ l2).drop (l1.length + n) = l2.drop n := by
  rw [List.drop_append, List.drop_eq_nil_of_le (by omega)]; simp

theorem slice_flatten {α} (L : Nat) : ∀ (cs : List (List α)), (∀ c ∈ cs, c.length = L) → ∀ i (hi : i < cs.length),
    (cs.flatten.drop (i * L)).take L = cs[i] := by
  intro cs
  induction cs with
  | nil => intro _ i hi; simp at hi
  | cons c cs ih =>
    intro h i hi
    have hc := h c (List.mem_cons_self ..)
    cases i with
    | zero => simp only [Nat.zero_mul, List.drop_zero, List.flatten_cons, List.getElem_cons_zero]; exact List.take_left' hc
    | succ j =>
      have e : (j + 1) * L = c.length + j * L := by rw [hc, Nat.add_mul, Nat.one_mul]; omega
      rw [List.flatten_cons, e, drop_len_add, List.getElem_cons_succ]
      exact ih (fun x hx => h x (List.mem_cons_of_mem _ hx)) j (by simpa using hi)

theorem slice_in_concat {α} (L : Nat) (pre post : List α) (cs : List (List α)) (h : ∀ c ∈ cs, c.length = L) (i : Nat) (hi : i < cs.length) :
    ((pre ++ cs.flatten ++ post).drop (pre.length + i * L)).take L = cs[i] := by
  rw [List.append_assoc, drop_len_add]
  have hfl := flatten_len L cs h
  have hle : i * L + L ≤ cs.flatten.length := by
    rw [hfl]
    have : (i + 1) * L ≤ cs.length * L := Nat.mul_le_mul_right _ (by omega)
    rw [Nat.add_mul, Nat.one_mul] at this; exact this
  rw [List.drop_append_of_le_length (by omega), List.take_append_of_le_length (by rw [List.length_drop]; omega)]
  exact slice_flatten L cs h i hi

theorem mapM_get {α β} (f : α → M β) : ∀ (l : List α) (r : List β), l.mapM f = .ok r →
    ∀ i (h1 : i < l.length) (h2 : i < r.length), f l[i] = .ok r[i] := by
  intro l
  induction l with
  | nil => intro r _ i h1; simp at h1
  | cons a as ih =>
    intro r h i h1 h2
    rw [List.mapM_cons] at h
    obtain ⟨b, hb, h⟩ := bind_ok_inv h
    obtain ⟨bs, hbs, h⟩ := bind_ok_inv h
    rw [pure_eq] at h
    have := ok_inj h
    subst this
    cases i with
    | zero => exact hb
    | succ j => simp only [List.getElem_cons_succ]; exact ih bs hbs j (by simpa using h1) (by simpa using h2)

/-- reading back, one slice after another, the polynomials whose packings the slices are -/
theorem unpackMany_of_packs (m : Mode) (site : String) (bytes : List Nat) (start step : Nat) (a b : Int) :
    ∀ (ts : List Poly) (i0 : Nat) (acc : List Poly), (∀ j (hj : j < ts.length), start + (i0 + j + 1) * step ≤ bytes.length ∧
      bitUnpack m ((bytes.drop (start + (i0 + j) * step)).take step) a b = .ok (some ts[j])) →
      unpackMany m site bytes start step a b (List.range' i0 ts.length) acc = .ok (some (acc.reverse ++ ts)) := by
  intro ts
  induction ts with
  | nil => intro i0 acc _; simp [unpackMany, pure_eq]
  | cons t ts ih =>
    intro i0 acc h
    obtain ⟨hl, hu⟩ := h 0 (by simp)
    simp only [Nat.add_zero, List.getElem_cons_zero] at hl hu
    rw [List.length_cons, List.range'_succ]
    unfold unpackMany
    have e1 : start + (i0 + 1) * step = start + i0 * step + step := by rw [Nat.add_mul, Nat.one_mul]; omega
    rw [slice_ok site bytes (start + i0 * step) (start + (i0 + 1) * step) (by constructor <;> omega), ok_bind,
      show start + (i0 + 1) * step - (start + i0 * step) = step by omega, hu, ok_bind]
    have := ih (i0 + 1) (t :: acc) (fun j hj => by
      have := h (j + 1) (by simp; omega)
      simp only [List.getElem_cons_succ] at this
      rw [show i0 + 1 + j = i0 + (j + 1) by omega]; exact this)
    simp only [] 
    rw [this]
    simp

/-- a section written by `bit_pack` of each polynomial is read back by `unpackMany` as those polynomials -/
theorem section_unpack (m : Mode) (site : String) (bytes pre post : List Nat) (cs : List (List Nat)) (a b : Int) (bl : Nat) (ts : List Poly)
    (hbytes : bytes = pre ++ cs.flatten ++ post) (ha : 0 ≤ a ∧ a < 1048576) (hb : 1 ≤ b ∧ b < 1048576)
    (hbl : bitLen m (a + b) = .ok bl) (hbl2 : 1 ≤ bl ∧ bl ≤ 20) (hab : a + b < 2 ^ bl)
    (hts : ∀ q ∈ ts, q.length = 256 ∧ ∀ c ∈ q, -a ≤ c ∧ c ≤ b) (hpack : ts.mapM (fun x => bitPack m x a b (32 * bl)) = .ok cs) :
    unpackMany m site bytes pre.length (32 * bl) a b (List.range ts.length) [] = .ok (some ts) := by
  have hcl := mapM_len _ _ _ hpack
  have hce : ∀ j (hj : j < ts.length), (cs[j]'(by rw [hcl]; exact hj)).length = 32 * bl ∧
      bitUnpack m (cs[j]'(by rw [hcl]; exact hj)) a b = .ok (some ts[j]) := by
    intro j hj
    obtain ⟨v, hv, hvl, _, hvu⟩ := bitUnpack_bitPack m ts[j] a b bl ha hb hbl hbl2 hab (hts _ (List.getElem_mem _)).2 (hts _ (List.getElem_mem _)).1
    have := mapM_get _ ts cs hpack j hj (by rw [hcl]; exact hj)
    rw [hv] at this
    have e := ok_inj this
    rw [← e]; exact ⟨hvl, hvu⟩
  have hcL : ∀ c ∈ cs, c.length = 32 * bl := by
    intro c hc
    obtain ⟨j, hj, rfl⟩ := List.mem_iff_getElem.mp hc
    exact (hce j (by rw [← hcl]; exact hj)).1
  have hfl := flatten_len (32 * bl) cs hcL
  have := unpackMany_of_packs m site bytes pre.length (32 * bl) a b ts 0 [] (fun j hj => by
    have hs := slice_in_concat (32 * bl) pre post cs hcL j (by rw [hcl]; exact hj)
    rw [← hbytes] at hs
    rw [Nat.zero_add, hs]
    refine ⟨?_, (hce j hj).2⟩
    rw [hbytes, List.length_append, List.length_append, hfl, hcl]
    have : (j + 1) * (32 * bl) ≤ ts.length * (32 * bl) := Nat.mul_le_mul_right _ (by omega)
    omega)
  rw [List.range_eq_range']
  simpa using this

/-- **`sk_decode ∘ sk_encode = id`** on in-range parts -/
theorem skDecode_skEncode (m : Mode) (p : ParamSet) (he : p.eta = 2 ∨ p.eta = 4) (bl : Nat) (hbl : bitLen m (2 * p.eta) = .ok bl)
    (hcfg : p.skLen = 128 + 32 * ((p.k + p.l) * bl + D.toNat * p.k)) (s : SkParts)
    (hr : s.rho.length = 32) (hk : s.key.length = 32) (ht : s.tr.length = 64)
    (h1 : VecIn p.l (-p.eta) p.eta s.s1) (h2 : VecIn p.k (-p.eta) p.eta s.s2) (h0 : VecIn p.k (-(top - 1)) top s.t0)
    (skb : List Nat) (henc : skEncode m p s = .ok skb) : skDecode m p skb = .ok (some s) := by
  obtain ⟨bl', g1, g2, g3, g4⟩ := bitLen_eta m p.eta he
  rw [hbl] at g1
  simp only [Except.ok.injEq] at g1
  subst g1
  have hD : D.toNat = 13 := by decide
  have eta0 : 0 ≤ p.eta ∧ p.eta < 1048576 := by rcases he with h | h <;> omega
  have eta1 : 1 ≤ p.eta ∧ p.eta < 1048576 := by rcases he with h | h <;> omega
  have htop : top = 4096 := by decide
  have hab : p.eta + p.eta < 2 ^ bl := by
    rcases he with h | h
    · have b3 : bitLen m ((2:Int) + 2) = .ok 3 := of_toOption _ _ (by cases m <;> decide +kernel)
      rw [h, b3] at g2
      rw [h, ← ok_inj g2]; decide
    · have b4 : bitLen m ((4:Int) + 4) = .ok 4 := of_toOption _ _ (by cases m <;> decide +kernel)
      rw [h, b4] at g2
      rw [h, ← ok_inj g2]; decide
  -- run the encoder forward to expose its output
  have d1 : dassert m "encodings.rs:sk_encode:debug_assert(Alg 24: incorrect eta)" (decide (p.eta = 2) || decide (p.eta = 4)) = .ok () := by
    apply dassert_dec; rcases he with h | h <;> simp [h]
  unfold skEncode at henc
  simp only [] at henc
  rw [d1, ok_bind, dassertM_ok m _ _ (mapM_isInRange_true m s.s1 p.eta p.eta (by omega) h1.2), ok_bind,
    dassertM_ok m _ _ (mapM_isInRange_true m s.s2 p.eta p.eta (by omega) h2.2), ok_bind,
    dassertM_ok m _ _ (mapM_isInRange_true m s.t0 (top - 1) top (by rw [htop]; omega) h0.2), ok_bind, hbl, ok_bind,
    dassert_dec m _ _ (by simp [hcfg]), ok_bind, if_neg (by rw [hr, hk, ht]; simp),
    List.take_of_length_le (by rw [h1.1.1]; exact Nat.le_refl _), List.take_of_length_le (by rw [h2.1.1]; exact Nat.le_refl _),
    List.take_of_length_le (by rw [h0.1.1]; exact Nat.le_refl _), hD] at henc
  obtain ⟨p1, hp1, henc⟩ := bind_ok_inv henc
  obtain ⟨p2, hp2, henc⟩ := bind_ok_inv henc
  obtain ⟨p3, hp3, henc⟩ := bind_ok_inv henc
  by_cases hlen : (s.rho ++ s.key ++ s.tr ++ p1.flatten ++ p2.flatten ++ p3.flatten).length ≠ p.skLen
  · rw [if_pos hlen] at henc; cases henc
  · rw [if_neg hlen, pure_eq] at henc
    have hskb := (ok_inj henc).symm
    have hlen' : skb.length = p.skLen := by rw [hskb]; exact Decidable.not_not.mp hlen
    -- the three sections
    have u1 := section_unpack m "encodings.rs:sk_decode:s1" skb (s.rho ++ s.key ++ s.tr) (p2.flatten ++ p3.flatten) p1 p.eta p.eta bl s.s1
      (by rw [hskb]; simp only [List.append_assoc]) eta0 eta1 g2 ⟨g3, g4⟩ hab (fun q hq => ⟨h1.1.2 q hq, h1.2 q hq⟩) hp1
    have u2 := section_unpack m "encodings.rs:sk_decode:s2" skb (s.rho ++ s.key ++ s.tr ++ p1.flatten) p3.flatten p2 p.eta p.eta bl s.s2
      (by rw [hskb]) eta0 eta1 g2 ⟨g3, g4⟩ hab (fun q hq => ⟨h2.1.2 q hq, h2.2 q hq⟩) hp2
    have u3 := section_unpack m "encodings.rs:sk_decode:t0" skb (s.rho ++ s.key ++ s.tr ++ p1.flatten ++ p2.flatten) [] p3 (top - 1) top 13 s.t0
      (by rw [hskb]; simp) (by rw [htop]; omega) (by rw [htop]; omega) (bitLen_t0 m) (by omega) (by decide)
      (fun q hq => ⟨h0.1.2 q hq, h0.2 q hq⟩) hp3
    -- lengths of the packed sections
    have c1 : ∀ c ∈ p1, c.length = 32 * bl := fun c hc => by
      obtain ⟨j, hj, rfl⟩ := List.mem_iff_getElem.mp hc
      have hj' : j < s.s1.length := by rw [← mapM_len _ _ _ hp1]; exact hj
      obtain ⟨v, hv, hvl, _⟩ := bitUnpack_bitPack m s.s1[j] p.eta p.eta bl eta0 eta1 g2 ⟨g3, g4⟩ hab (h1.2 _ (List.getElem_mem _)) (h1.1.2 _ (List.getElem_mem _))
      have := mapM_get _ s.s1 p1 hp1 j hj' hj
      rw [hv] at this; rw [← ok_inj this]; exact hvl
    have c2 : ∀ c ∈ p2, c.length = 32 * bl := fun c hc => by
      obtain ⟨j, hj, rfl⟩ := List.mem_iff_getElem.mp hc
      have hj' : j < s.s2.length := by rw [← mapM_len _ _ _ hp2]; exact hj
      obtain ⟨v, hv, hvl, _⟩ := bitUnpack_bitPack m s.s2[j] p.eta p.eta bl eta0 eta1 g2 ⟨g3, g4⟩ hab (h2.2 _ (List.getElem_mem _)) (h2.1.2 _ (List.getElem_mem _))
      have := mapM_get _ s.s2 p2 hp2 j hj' hj
      rw [hv] at this; rw [← ok_inj this]; exact hvl
    have f1 := flatten_len (32 * bl) p1 c1
    have f2 := flatten_len (32 * bl) p2 c2
    rw [mapM_len _ _ _ hp1, h1.1.1] at f1
    rw [mapM_len _ _ _ hp2, h2.1.1] at f2
    have l128 : (s.rho ++ s.key ++ s.tr).length = 128 := by simp [hr, hk, ht]
    have l2 : (s.rho ++ s.key ++ s.tr ++ p1.flatten).length = 128 + p.l * (32 * bl) := by rw [List.length_append, l128, f1]
    have l3 : (s.rho ++ s.key ++ s.tr ++ p1.flatten ++ p2.flatten).length = 128 + p.l * (32 * bl) + p.k * (32 * bl) := by
      rw [List.length_append, l2, f2]
    rw [l128, h1.1.1] at u1
    rw [l2, h2.1.1] at u2
    rw [l3, h0.1.1] at u3
    -- the header slices
    have hs1 : slice "encodings.rs:sk_decode:sk[0..32]" skb 0 32 = .ok s.rho := by
      rw [slice_ok _ skb 0 32 (by rw [hlen', hcfg]; omega), hskb]
      simp only [List.append_assoc, List.drop_zero, Nat.sub_zero]
      rw [List.take_left' hr]
    have hs2 : slice "encodings.rs:sk_decode:sk[32..64]" skb 32 64 = .ok s.key := by
      rw [slice_ok _ skb 32 64 (by rw [hlen', hcfg]; omega), hskb]
      simp only [List.append_assoc]
      have := drop_len_add s.rho (s.key ++ (s.tr ++ (p1.flatten ++ (p2.flatten ++ p3.flatten)))) 0
      rw [hr] at this
      rw [this, List.drop_zero, List.take_left' hk]
    have hs3 : slice "encodings.rs:sk_decode:sk[64..128]" skb 64 128 = .ok s.tr := by
      rw [slice_ok _ skb 64 128 (by rw [hlen', hcfg]; omega), hskb]
      have e : s.rho ++ s.key ++ s.tr ++ p1.flatten ++ p2.flatten ++ p3.flatten = (s.rho ++ s.key) ++ (s.tr ++ (p1.flatten ++ (p2.flatten ++ p3.flatten))) := by
        simp only [List.append_assoc]
      have := drop_len_add (s.rho ++ s.key) (s.tr ++ (p1.flatten ++ (p2.flatten ++ p3.flatten))) 0
      rw [List.length_append, hr, hk] at this
      rw [e, this, List.drop_zero, List.take_left' ht]
    have hexp : (p.k + p.l) * bl = p.l * bl + p.k * bl := by rw [Nat.add_mul]; omega
    unfold skDecode
    simp only []
    have dd1 : dassert m "encodings.rs:sk_decode:debug_assert(Alg 25: incorrect eta)" (decide (p.eta = 2) || decide (p.eta = 4)) = .ok () := by
      apply dassert_dec; rcases he with h | h <;> simp [h]
    rw [dd1, ok_bind, hbl, ok_bind, dassert_dec m _ _ (by simp [hcfg]), ok_bind, hs1, ok_bind, hs2, ok_bind, hs3, ok_bind, u1, ok_bind]
    simp only []
    rw [u2, ok_bind]
    simp only []
    rw [hD, u3, ok_bind]
    simp only []
    rw [dassert_dec m _ _ (by
      rw [hlen', hcfg, hD, hexp]
      simp only [beq_iff_eq]
      have e1 : p.l * (32 * bl) = 32 * (p.l * bl) := by rw [Nat.mul_left_comm]
      have e2 : p.k * (32 * bl) = 32 * (p.k * bl) := by rw [Nat.mul_left_comm]
      omega), ok_bind, pure_eq]

/-! ### public keys: decode what `pk_encode` wrote -/

theorem simpleBitUnpack_simpleBitPack (m : Mode) (w : Poly) (hw : ∀ c ∈ w, 0 ≤ c ∧ c ≤ 1023) (hl : w.length = 256) (v : List Nat)
    (h : simpleBitPack m w 1023 320 = .ok v) : v.length = 320 ∧ simpleBitUnpack m v 1023 = .ok (some w) := by
  have hb10 : bitLen m 1023 = .ok 10 := by have := bitLen_1023 m; simpa using this
  have hb10' : bitLen m (0 + 1023) = .ok 10 := bitLen_1023 m
  obtain ⟨v', hv', hvl, _, hvu⟩ := bitUnpack_bitPack m w 0 1023 10 (by omega) (by omega) hb10' (by omega) (by decide)
    (fun c hc => by have := hw c hc; omega) hl
  unfold simpleBitPack at h
  rw [dassert_dec m _ _ (by decide), ok_bind, dassertM_ok m _ _ (isInRange_true m w 0 1023 (by omega) (fun c hc => by have := hw c hc; omega)), ok_bind] at h
  simp only [hb10, ok_bind, pure_eq] at h
  rw [dassertM_ok m _ _ (by rfl), ok_bind] at h
  rw [show (320 : Nat) = 32 * 10 by rfl, hv'] at h
  have e := ok_inj h
  subst e
  refine ⟨hvl, ?_⟩
  unfold simpleBitUnpack
  rw [dassert_dec m _ _ (by decide), ok_bind]
  simp only [hb10, ok_bind, pure_eq, hvl]
  rw [dassertM_ok m _ _ (by rfl), ok_bind]
  exact hvu

theorem pkGo_of_packs (m : Mode) (pk : List Nat) : ∀ (ts : List Poly) (i0 : Nat) (acc : List Poly),
    (∀ j (hj : j < ts.length), 32 + (i0 + j + 1) * 320 ≤ pk.length ∧
      simpleBitUnpack m ((pk.drop (32 + (i0 + j) * 320)).take 320) 1023 = .ok (some ts[j])) →
    pkDecode.go m pk (List.range' i0 ts.length) acc = .ok (some (acc.reverse ++ ts)) := by
  have hq : blqd = 10 := by decide
  intro ts
  induction ts with
  | nil => intro i0 acc _; simp [pkDecode.go, pure_eq]
  | cons t ts ih =>
    intro i0 acc h
    obtain ⟨hl, hu⟩ := h 0 (by simp)
    simp only [Nat.add_zero, List.getElem_cons_zero] at hl hu
    rw [List.length_cons, List.range'_succ]
    unfold pkDecode.go
    rw [hq]
    have hs' : slice "encodings.rs:pk_decode:pk[..]" pk (32 + 32 * i0 * 10) (32 + 32 * (i0 + 1) * 10) = .ok ((pk.drop (32 + i0 * 320)).take 320) := by
      rw [slice_ok _ pk _ _ (by constructor <;> omega), show 32 + 32 * (i0 + 1) * 10 - (32 + 32 * i0 * 10) = 320 by omega,
        show 32 + 32 * i0 * 10 = 32 + i0 * 320 by omega]
    rw [hs', ok_bind, show ((2:Int) ^ 10 - 1) = 1023 by decide, hu, ok_bind]
    have := ih (i0 + 1) (t :: acc) (fun j hj => by
      have := h (j + 1) (by simp; omega)
      simp only [List.getElem_cons_succ] at this
      rw [show i0 + 1 + j = i0 + (j + 1) by omega]; exact this)
    simp only []
    rw [this]
    simp

/-- **`pk_decode ∘ pk_encode = id`** -/
theorem pkDecode_pkEncode (m : Mode) (p : ParamSet) (hcfg : p.pkLen = 32 + 32 * p.k * blqd) (rho : List Nat) (t1 : List Poly)
    (hr : rho.length = 32) (ht : VecIn p.k 0 1023 t1) (pkb : List Nat) (henc : pkEncode m p rho t1 = .ok pkb) :
    pkb.length = p.pkLen ∧ pkDecode m p pkb = .ok (some { rho := rho, t1 := t1 }) := by
  have hq : blqd = 10 := by decide
  have e1023 : (2:Int) ^ blqd - 1 = 1023 := by rw [hq]; decide
  rw [hq] at hcfg
  unfold pkEncode at henc
  rw [e1023, hq, dassertM_ok m _ _ (mapM_isInRange_true m t1 0 1023 (by omega) (fun q hq' c hc => by have := ht.2 q hq' c hc; omega)), ok_bind,
    dassert_dec m _ _ (by simp [hcfg]), ok_bind, if_neg (by rw [hr]; omega), List.take_of_length_le (by rw [ht.1.1]; exact Nat.le_refl _)] at henc
  obtain ⟨cs, hcs, henc⟩ := bind_ok_inv henc
  simp only [pure_eq] at henc
  have hcl := mapM_len _ _ _ hcs
  have hce : ∀ j (hj : j < t1.length), (cs[j]'(by rw [hcl]; exact hj)).length = 320 ∧
      simpleBitUnpack m (cs[j]'(by rw [hcl]; exact hj)) 1023 = .ok (some t1[j]) := by
    intro j hj
    have := mapM_get _ t1 cs hcs j hj (by rw [hcl]; exact hj)
    exact simpleBitUnpack_simpleBitPack m t1[j] (ht.2 _ (List.getElem_mem _)) (ht.1.2 _ (List.getElem_mem _)) _ this
  have hcL : ∀ c ∈ cs, c.length = 320 := by
    intro c hc
    obtain ⟨j, hj, rfl⟩ := List.mem_iff_getElem.mp hc
    exact (hce j (by rw [← hcl]; exact hj)).1
  have hfl := flatten_len 320 cs hcL
  rw [hcl, ht.1.1] at hfl
  have hpkb : pkb = rho ++ cs.flatten ++ [] := by
    have := (ok_inj henc).symm
    rw [this, hfl, hcfg, show 32 + 32 * p.k * 10 - 32 - p.k * 320 = 0 by omega]
    simp only [List.replicate_zero, List.append_nil]
    exact List.take_of_length_le (by rw [List.length_append, hr, hfl]; omega)
  have hlen : pkb.length = 32 + 32 * p.k * 10 := by rw [hpkb]; simp [hr, hfl]; omega
  refine ⟨by rw [hlen, hcfg], ?_⟩
  have hgo := pkGo_of_packs m pkb t1 0 [] (fun j hj => by
    have hs := slice_in_concat 320 rho [] cs hcL j (by rw [hcl]; exact hj)
    rw [← hpkb, hr] at hs
    rw [Nat.zero_add, hs]
    refine ⟨?_, (hce j hj).2⟩
    rw [hlen]
    have : (j + 1) * 320 ≤ p.k * 320 := Nat.mul_le_mul_right _ (by rw [← ht.1.1]; omega)
    omega)
  rw [ht.1.1, ← List.range_eq_range'] at hgo
  simp only [List.reverse_nil, List.nil_append] at hgo
  unfold pkDecode
  have hs1 : slice "encodings.rs:pk_decode:pk[0..32]" pkb 0 32 = .ok rho := by
    rw [slice_ok _ pkb 0 32 (by omega), hpkb]
    simp only [List.append_nil, List.drop_zero, Nat.sub_zero]
    rw [List.take_left' hr]
  rw [hq, dassert_dec m _ _ (by simp [hlen]), ok_bind, dassert_dec m _ _ (by simp [hcfg]), ok_bind, hs1, ok_bind]
  rw [hgo, ok_bind]
  simp only []
  rw [show ((2:Int) ^ 10 - 1) = 1023 by decide,
    dassertM_ok m _ _ (mapM_isInRange_true m t1 0 1023 (by omega) (fun q hq' c hc => by have := ht.2 q hq' c hc; omega)), ok_bind, pure_eq]

/-- **a generated key pair that is serialised and deserialised is the same pair of structs** -/
theorem gen_roundtrip_struct (m : Mode) (O : Oracles) (p : ParamSet) (he : p.eta = 2 ∨ p.eta = 4) (bl : Nat) (hbl : bitLen m (2 * p.eta) = .ok bl)
    (hcfg : p.skLen = 128 + 32 * ((p.k + p.l) * bl + D.toNat * p.k)) (hpcfg : p.pkLen = 32 + 32 * p.k * blqd)
    (kp : PublicKey × PrivateKey) (hg : GenOk m O p kp) :
    ∃ pkb skb, pkIntoBytes m p kp.1 = .ok pkb ∧ pkb.length = p.pkLen ∧ expandPublic m O p pkb = .ok (some kp.1) ∧
      skIntoBytes m p kp.2 = .ok skb ∧ skb.length = p.skLen ∧ expandPrivate m p skb = .ok (some kp.2) := by
  obtain ⟨pkb, skb, s1, s2, t0, t1, hpk, hsk, hskl, pe, htr, se, v1, v2, v0, vt, n1, n2, n0, pc⟩ := gen_serialise m O p he bl hbl hcfg kp hg
  have htop : top = 4096 := by decide
  obtain ⟨hpl, hpd⟩ := pkDecode_pkEncode m p hpcfg kp.1.rho t1 hg.pk.rho vt pkb pe
  have hsd := skDecode_skEncode m p he bl hbl hcfg { rho := kp.2.rho, key := kp.2.key, tr := kp.2.tr, s1 := s1, s2 := s2, t0 := t0 }
    hg.sk.rho hg.lens.1 hg.lens.2.1 v1 v2 ⟨v0.1, fun q hq x hx => by have := v0.2 q hq x hx; rw [htop]; omega⟩ skb se
  refine ⟨pkb, skb, hpk, hpl, ?_, hsk, hskl, ?_⟩
  · unfold expandPublic
    rw [hpd, ok_bind]
    simp only []
    rw [pc, ok_bind, pure_eq, ← htr]
  · unfold expandPrivate
    rw [hsd, ok_bind]
    simp only []
    rw [n1, ok_bind, n2, ok_bind, n0, ok_bind, pure_eq]

end Fips204.Impl
