import Fips204.Lemmas.Shapes
import Fips204.Lemmas.Pipeline
/-! **`verify_internal` never panics**: composition of the decoder, sampler, NTT-pipeline, hint and encoder lemmas. -/
namespace Fips204.Impl
open Fips204 Fips204.Gen Fips204.K

theorem idx_mem {α} (site : String) (l : List α) (i : Nat) (x : α) (h : idx site l i = .ok x) : x ∈ l := by
  unfold idx at h
  cases hq : l[i]? with
  | none => rw [hq] at h; cases h
  | some y =>
    rw [hq] at h
    have : y = x := ok_inj h
    subst this
    exact List.mem_of_getElem? hq

theorem flatten_len {α} (n : Nat) : ∀ (cs : List (List α)), (∀ x ∈ cs, x.length = n) → cs.flatten.length = cs.length * n := by
  intro cs
  induction cs with
  | nil => intro _; simp
  | cons c cs ih =>
    intro h
    rw [List.flatten_cons, List.length_append, h c (List.mem_cons_self ..), ih (fun x hx => h x (List.mem_cons_of_mem _ hx)),
      List.length_cons, Nat.add_mul, Nat.one_mul]; omega

/-! ### shapes of the verifier's precompute and of `w'_Approx` -/

theorem precomputeT1_sh (m : Mode) (n : Nat) (t1 r : List Poly) (ht : Sh n t1) (h : precomputeT1 m t1 = .ok r) : Sh n r := by
  unfold precomputeT1 nttMont at h
  obtain ⟨a, h1, h⟩ := bind_ok_inv h
  obtain ⟨a0, h0, h1⟩ := bind_ok_inv h1
  obtain ⟨b, h2, h⟩ := bind_ok_inv h
  exact toMont_sh m n b r (mapM2_sh _ n a b (toMont_sh m n a0 a (ntt_sh m n t1 a0 ht h0) h1) h2) h

/-- what the verifier needs of a public-key struct; every struct `expand_public` returns has it -/
structure PkOk (p : ParamSet) (pk : PublicKey) : Prop where
  rho : pk.rho.length = 32
  sh : Sh p.k pk.t1d2
  bnd : ∀ w ∈ pk.t1d2, Bnd 16760833 w

theorem expandPublic_pkok (m : Mode) (O : Oracles) (p : ParamSet) (pkb : List Nat) (hb : ∀ x ∈ pkb, x < 256)
    (hlen : pkb.length = 32 + 32 * p.k * blqd) (hcfg : p.pkLen = 32 + 32 * p.k * blqd) :
    ∃ pk : PublicKey, expandPublic m O p pkb = .ok (some pk) ∧ PkOk p pk := by
  obtain ⟨d, hd, hrho, hk, ht⟩ := pkDecode_total m p pkb hb hlen hcfg
  obtain ⟨r, hr, br⟩ := precomputeT1_ok m d.t1 (fun q hq => (ht q hq).2)
  have sh := precomputeT1_sh m p.k d.t1 r ⟨hk, fun q hq => (ht q hq).1⟩ hr
  exact ⟨⟨d.rho, O.h pkb 64, r⟩, by simp only [expandPublic, hd, ok_bind, hr, pure_eq],
    ⟨by show d.rho.length = 32; rw [hrho, List.length_take]; omega, sh, br⟩⟩

theorem wApproxOf_sh (m : Mode) (aHat : List (List Poly)) (z : List Poly) (c : Poly) (t1d2 r : List Poly) (k l : Nat)
    (hA : aHat.length = k) (hA2 : ∀ row ∈ aHat, ∀ q ∈ row, q.length = 256) (hz : Sh l z) (hc : c.length = 256)
    (ht : Sh k t1d2) (h : wApproxOf m aHat z c t1d2 = .ok r) : Sh k r := by
  unfold wApproxOf at h
  obtain ⟨zHat, h1, h⟩ := bind_ok_inv h
  obtain ⟨az, h2, h⟩ := bind_ok_inv h
  obtain ⟨chats, h3, h⟩ := bind_ok_inv h
  obtain ⟨chat, h4, h⟩ := bind_ok_inv h
  obtain ⟨diff, h5, h⟩ := bind_ok_inv h
  have s1 := ntt_sh m l z zHat hz h1
  have s2 := matVecMul_sh m aHat zHat az k l hA hA2 s1 h2
  have s3 := ntt_sh m 1 [c] chats ⟨rfl, fun q hq => by rw [List.mem_singleton.mp hq]; exact hc⟩ h3
  have hchat : chat.length = 256 := s3.2 chat (idx_mem _ _ _ _ h4)
  have s4 : Sh k diff := ⟨by rw [zipWithM_len _ _ _ _ h5, s2.1, ht.1]; simp,
    zipWithM_all _ (fun q => q.length = 256) _ _ _ h5 (fun ap hap tp htp d hd => by
      rw [zipWith3M_len _ _ _ _ _ hd, s2.2 ap hap, hchat, ht.2 tp htp]; simp)⟩
  exact invNtt_sh m k diff r s4 h

/-! ### infinity norm -/

theorem modpm_small (e : Int) (h : -4190208 ≤ e ∧ e ≤ 4190208) : modpm Q e = e := by
  unfold modpm
  simp only [Q]
  split <;> omega

theorem foldl_max_bound (B : Int) : ∀ (vs : List Int) (v : Int), (0 ≤ v ∧ v ≤ B) → (∀ x ∈ vs, 0 ≤ x ∧ x ≤ B) →
    0 ≤ vs.foldl (fun a b => if a < b then b else a) v ∧ vs.foldl (fun a b => if a < b then b else a) v ≤ B := by
  intro vs
  induction vs with
  | nil => intro v hv _; exact hv
  | cons x xs ih =>
    intro v hv h
    rw [List.foldl_cons]
    have hx := h x (List.mem_cons_self ..)
    exact ih _ (by split <;> omega) (fun y hy => h y (List.mem_cons_of_mem _ hy))

theorem infinityNorm_ok (m : Mode) (w : List Poly) (B : Int) (hB : 0 ≤ B ∧ B ≤ 4190208) (hne : w.flatten.length ≠ 0)
    (hw : ∀ q ∈ w, Bnd B q) : ∃ n, infinityNorm m w = .ok n ∧ 0 ≤ n ∧ n ≤ B := by
  unfold infinityNorm
  obtain ⟨vals, hv, hvl, hvr⟩ := mapM_ok_len (fun e => do
      let c ← center_mod m e
      arith .i32 m "helpers.rs:infinity_norm:abs" (absI c)) (fun e => -B ≤ e ∧ e ≤ B) (fun v => 0 ≤ v ∧ v ≤ B)
    (fun e he => by
      refine ⟨absI e, ?_, ?_⟩
      · rw [center_mod_eq m e (by omega) (by omega), ok_bind, modpm_small e (by omega)]
        have : absI e = if e < 0 then -e else e := absI_eq e
        exact arith_i32 _ _ _ (by rw [this]; split <;> omega) (by rw [this]; split <;> omega)
      · rw [absI_eq]; split <;> omega) w.flatten
    (fun e he => by
      obtain ⟨q, hq, heq⟩ := List.mem_flatten.mp he
      exact hw q hq e heq)
  rw [hv, ok_bind]
  cases vals with
  | nil => rw [List.length_nil] at hvl; omega
  | cons v vs =>
    have := foldl_max_bound B vs v (hvr v (List.mem_cons_self ..)) (fun x hx => hvr x (List.mem_cons_of_mem _ hx))
    exact ⟨_, rfl, this⟩

/-! ### w1Encode -/

theorem bitLen_w1 (m : Mode) : bitLen m 43 = .ok 6 ∧ bitLen m 15 = .ok 4 :=
  ⟨of_toOption _ _ (by cases m <;> decide +kernel), of_toOption _ _ (by cases m <;> decide +kernel)⟩

theorem w1Encode_ok (m : Mode) (p : ParamSet)
    (hg : (p.gamma2 = 95232 ∧ p.w1Bits = 6) ∨ (p.gamma2 = 261888 ∧ p.w1Bits = 4)) (w1 : List Poly) (hsh : Sh p.k w1)
    (hr : ∀ q ∈ w1, ∀ x ∈ q, 0 ≤ x ∧ x ≤ (Q - 1) / (2 * p.gamma2) - 1) : ∃ out, w1Encode m p w1 p.w1Len = .ok out := by
  obtain ⟨b43, b15⟩ := bitLen_w1 m
  have key : ∃ (qm : Int) (bl : Nat), Int.tdiv (Q - 1) (2 * p.gamma2) - 1 = qm ∧ (Q - 1) / (2 * p.gamma2) - 1 = qm ∧ bitLen m qm = .ok bl ∧
      p.w1Bits = bl ∧ 1 ≤ qm ∧ qm < 1048576 ∧ bl ≤ 20 ∧ -1073741824 ≤ p.gamma2 ∧ p.gamma2 ≤ 1073741823 ∧ 2 * p.gamma2 ≠ 0 := by
    rcases hg with ⟨h1, h2⟩ | ⟨h1, h2⟩
    · rw [h1, h2]; exact ⟨43, 6, by decide, by decide, b43, rfl, by omega, by omega, by omega, by omega, by omega, by omega⟩
    · rw [h1, h2]; exact ⟨15, 4, by decide, by decide, b15, rfl, by omega, by omega, by omega, by omega, by omega, by omega⟩
  obtain ⟨qm, bl, e1, e2, hbl, hwb, q1, q2, hbl2, g1, g2, g3⟩ := key
  unfold w1Encode
  rw [arith_i32 _ _ _ (by omega) (by omega), ok_bind, if_neg g3, e1, arith_i32 _ _ _ (by omega) (by omega), ok_bind, hbl, ok_bind]
  have hlen : p.w1Len = 32 * p.k * bl := by unfold ParamSet.w1Len; rw [hwb]
  rw [dassert_dec m _ _ (by rw [hlen]; simp), ok_bind]
  obtain ⟨bs, hbs, _, hbt⟩ := mapM_ok_len (fun r => isInRange m r 0 qm) (fun r => r ∈ w1) (fun b => b = true)
    (fun r hr' => ⟨true, isInRange_true m r 0 qm (by omega) (fun c hc => by have := hr r hr' c hc; omega), rfl⟩) w1 (fun a ha => ha)
  have hall : bs.all id = true := by rw [List.all_eq_true]; intro b hb; exact hbt b hb
  have d2 : dassertM m "encodings.rs:w1_encode:debug_assert(Alg 28: w1 out of range)" (do
      let bs ← w1.mapM (fun r => isInRange m r 0 qm); pure (bs.all id)) = .ok () := by
    apply dassertM_ok; rw [hbs, ok_bind, pure_eq, hall]
  rw [d2, ok_bind]
  obtain ⟨cs, hcs, hcl, hcr⟩ := mapM_ok_len (fun r => simpleBitPack m r qm (32 * bl)) (fun r => r ∈ w1) (fun o => o.length = 32 * bl)
    (fun r hr' => simpleBitPack_ok m r qm bl ⟨q1, q2⟩ hbl hbl2 (fun c hc => by have := hr r hr' c hc; omega) (hsh.2 r hr'))
    (w1.take p.k) (fun a ha => List.mem_of_mem_take ha)
  dsimp only
  rw [hcs, ok_bind]
  have hfl := flatten_len (32 * bl) cs hcr
  rw [hcl, List.length_take, hsh.1, Nat.min_self] at hfl
  have e3 : p.k * (32 * bl) = 32 * p.k * bl := by rw [Nat.mul_left_comm, Nat.mul_assoc]
  rw [if_neg (by rw [hfl, hlen, e3]; omega), pure_eq]
  exact ⟨_, rfl⟩

/-! ### the verifier -/

/-- the facts about a parameter set the verifier relies on (each of the three sets has them, by evaluation) -/
structure VerCfg (p : ParamSet) (blz : Nat) : Prop where
  sig : SigCfg p blz
  tau : 0 ≤ p.tau ∧ p.tau ≤ 64
  l7 : p.l ≤ 7
  g2 : (p.gamma2 = 95232 ∧ p.w1Bits = 6) ∨ (p.gamma2 = 261888 ∧ p.w1Bits = 4)
  beta : 0 ≤ p.beta ∧ p.beta ≤ 1000

theorem verCfg_44 : VerCfg ml_dsa_44 18 := ⟨sigCfg_44, by decide, by decide, by decide, by decide⟩
theorem verCfg_65 : VerCfg ml_dsa_65 20 := ⟨sigCfg_65, by decide, by decide, by decide, by decide⟩
theorem verCfg_87 : VerCfg ml_dsa_87 20 := ⟨sigCfg_87, by decide, by decide, by decide, by decide⟩

/-- **`verify_internal` never panics**: for every oracle, every public-key struct `expand_public` can return, every
    message / context / pre-hash and **every byte string of signature length**, in both build modes, the verifier
    returns a Boolean (or the model runs out of the finite XOF prefix it reads - an outcome the crate does not have) -/
theorem verifyInternal_np (m : Mode) (O : Oracles) (hO : OracleOk O) (ctest : Bool) (p : ParamSet) (blz : Nat) (cfg : VerCfg p blz)
    (pk : PublicKey) (hpk : PkOk p pk) (msg sig ctx oid phm : List Nat) (nist : Bool)
    (hb : ∀ x ∈ sig, x < 256) (hlen : sig.length = p.sigLen) :
    NoPanic (verifyInternal m O ctest p pk msg sig ctx oid phm nist) (fun _ => True) := by
  unfold verifyInternal
  obtain ⟨r, hr, hrp⟩ := sigDecode_ok m p blz cfg.sig sig hb hlen
  rw [hr, ok_bind]
  cases r with
  | none => exact NoPanic.ok _ trivial
  | some t =>
    obtain ⟨ct, z, h⟩ := t
    obtain ⟨c1, c2, c3, c4, c5⟩ := hrp ct z h rfl
    dsimp only
    have hg1 : 1 ≤ p.gamma1 ∧ p.gamma1 ≤ 524288 := by rcases cfg.sig.g1 with ⟨h, _⟩ | ⟨h, _⟩ <;> omega
    have hzB : ∀ q ∈ z, Bnd p.gamma1 q := fun q hq x hx => by have := (c3 q hq).2 x hx; omega
    have hne : z.flatten.length ≠ 0 := by
      rw [flatten_len 256 z (fun q hq => (c3 q hq).1), c2]
      have := cfg.sig.l1
      have : 0 < p.l * 256 := Nat.mul_pos (by omega) (by omega)
      omega
    obtain ⟨n, hn, hn0, hn1⟩ := infinityNorm_ok m z p.gamma1 (by omega) hne hzB
    have d1 : dassertM m "ml_dsa.rs:verify_internal:debug_assert(Alg 8: i_norm out of range)" (do
        let n ← infinityNorm m z
        pure (decide (n ≤ p.gamma1))) = .ok () := by
      apply dassertM_ok; rw [hn, ok_bind, pure_eq]; simp [hn1]
    rw [d1, ok_bind]
    refine (sampleInBall_np m O hO false p.tau ct cfg.tau).bind (fun c hc => ?_)
    refine (expandA_np m O hO ctest p pk.rho hpk.rho).bind (fun aHat hA => ?_)
    obtain ⟨wA, hwA, bwA⟩ := wApproxOf_ok m aHat z c pk.t1d2
      (fun row hrow => ⟨by rw [(hA.2 row hrow).1]; exact cfg.l7, fun q hq => ((hA.2 row hrow).2 q hq).2⟩)
      (fun w hw => (hzB w hw).mono hg1.2) hc.2 hpk.bnd
    have shA := wApproxOf_sh m aHat z c pk.t1d2 wA p.k p.l hA.1 (fun row hrow q hq => ((hA.2 row hrow).2 q hq).1)
      ⟨c2, fun q hq => (c3 q hq).1⟩ hc.1 hpk.sh hwA
    rw [hwA, ok_bind]
    have hgg : G2 p.gamma2 := by
      rcases cfg.g2 with ⟨h, _⟩ | ⟨h, _⟩
      · exact Or.inl h
      · exact Or.inr h
    obtain ⟨w1, hw1, bw1⟩ := zipWithM_ok (fun hp wp => zipWithM (fun hh r => use_hint m p.gamma2 hh r) hp wp)
      Bin (fun wp => wp.length = 256 ∧ ∀ x ∈ wp, 0 ≤ x ∧ x < 8380417)
      (fun q => q.length = 256 ∧ ∀ x ∈ q, 0 ≤ x ∧ x ≤ (Q - 1) / (2 * p.gamma2) - 1)
      (fun hp wp hhp hwp => by
        obtain ⟨q, hq, bq⟩ := zipWithM_ok (fun hh r => use_hint m p.gamma2 hh r) (fun hh => hh = 0 ∨ hh = 1)
          (fun r => 0 ≤ r ∧ r < 8380417) (fun x => 0 ≤ x ∧ x ≤ (Q - 1) / (2 * p.gamma2) - 1)
          (fun hh r h1 h2 => ⟨_, use_hint_eq m p.gamma2 hh r hgg h1 (by omega) (by omega), useHint_range p.gamma2 hh r hgg⟩)
          hp wp hhp.2 hwp.2
        exact ⟨q, hq, by rw [zipWithM_len _ _ _ _ hq, hhp.1, hwp.1]; simp, bq⟩)
      h wA c5 (fun wp hwp => ⟨shA.2 wp hwp, bwA wp hwp⟩)
    have lw1 : w1.length = p.k := by rw [zipWithM_len _ _ _ _ hw1, c4, shA.1]; simp
    rw [hw1, ok_bind]
    obtain ⟨w1t, hw1t⟩ := w1Encode_ok m p cfg.g2 w1 ⟨lw1, fun q hq => (bw1 q hq).1⟩ (fun q hq => (bw1 q hq).2)
    have hbeta := cfg.beta
    rw [hw1t, ok_bind, hn, ok_bind, arith_i32 _ _ _ (by omega) (by omega), ok_bind, pure_eq]
    exact NoPanic.ok _ trivial

end Fips204.Impl
