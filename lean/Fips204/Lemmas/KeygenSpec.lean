import Fips204.Lemmas.VerifySpec
/-! Key generation equals Algorithm 6 written with exact arithmetic modulo q (`keygenSpec`), for every seed. -/
namespace Fips204.Impl
open Fips204 Fips204.Gen Fips204.K

/-- one row of `t = NTT^-1(A_hat ∘ NTT(s1)) + s2 mod q`, exact arithmetic -/
def tRowS (row : List Poly) (s1 : List Poly) (s2r : Poly) : Poly :=
  List.zipWith (fun a b => (a + b) % Q) (canon ((invS 8 1 (rowS row s1 zeroPoly)).map (fun x => FS * x))) s2r

/-- Algorithm 6 (ML-DSA.KeyGen_internal) with exact arithmetic; samplers and encoders are the model's transcriptions -/
def keygenSpec (m : Mode) (O : Oracles) (p : ParamSet) (xi : List Nat) : M (List Nat × List Nat) := do
  let hh := O.h (xi ++ [p.k % 256, p.l % 256]) 128
  let rho := hh.take 32
  let rhoPrime := (hh.drop 32).take 64
  let capK := (hh.drop 96).take 32
  let (s1, s2) ← expandS m O false p rhoPrime
  let aHat ← expandA m O false p rho
  let t := List.zipWith (fun row s2r => tRowS row s1 s2r) aHat s2
  let t1 := t.map (fun q => q.map (fun x => (Spec.power2round x).1))
  let t0 := t.map (fun q => q.map (fun x => (Spec.power2round x).2))
  let pkb ← pkEncode m p rho t1
  let tr := O.h pkb 64
  let skb ← skEncode m p { rho := rho, key := capK, tr := tr, s1 := s1, s2 := s2, t0 := t0 }
  pure (pkb, skb)

/-- one row of the commitment `NTT^-1(A_hat ∘ NTT(y))` lands exactly on the formula -/
theorem commitRow_spec (m : Mode) (row y yHat : List Poly) (hyh : y.mapM (nttPoly m) = .ok yHat) (hrow : ∀ p ∈ row, Res p)
    (hrl : y.length = row.length) (hl7 : row.length ≤ 7) (hy : ∀ w ∈ y, Bnd 524288 w) (bum : ∀ w ∈ toMontP yHat, Bnd 16760833 w) :
    invNttPoly m (rowP (row.zip (toMontP yHat)) zeroPoly) = .ok (canon ((invS 8 1 (rowS row y zeroPoly)).map (fun x => FS * x))) := by
  have hrel := build_rowRelN m y yHat row hyh hrow hy hrl
  have haz := rowP_semN row (toMontP yHat) y zeroPoly zeroPoly hrel (CongL.refl _)
  have hb : Bnd 2143289343 (rowP (row.zip (toMontP yHat)) zeroPoly) := (rowP_bound m row _ hrow bum hl7).mono (by omega)
  obtain ⟨w, hw, cw, sw⟩ := invNttPoly_sem m _ _ haz hb
  rw [hw]
  have : w = canon ((invS 8 1 (rowS row y zeroPoly)).map (fun x => FS * x)) :=
    can_eq_of_cong w _ (sw.trans (canon_cong _).symm) cw (canon_can _)
  rw [this]

theorem commitRows_spec (m : Mode) (y yHat : List Poly) (hyh : y.mapM (nttPoly m) = .ok yHat) (hy : ∀ w ∈ y, Bnd 524288 w)
    (bum : ∀ w ∈ toMontP yHat, Bnd 16760833 w) :
    ∀ (aHat : List (List Poly)), (∀ row ∈ aHat, y.length = row.length ∧ row.length ≤ 7 ∧ ∀ p ∈ row, Res p) →
      (aHat.map (fun row => rowP (row.zip (toMontP yHat)) zeroPoly)).mapM (invNttPoly m) =
        .ok (aHat.map (fun row => canon ((invS 8 1 (rowS row y zeroPoly)).map (fun x => FS * x)))) := by
  intro aHat
  induction aHat with
  | nil => intro _; simp [pure_eq]
  | cons row rows ih =>
    intro hA
    obtain ⟨h1, h2, h3⟩ := hA row (List.mem_cons_self ..)
    rw [List.map_cons, List.mapM_cons, commitRow_spec m row y yHat hyh h3 h1 h2 hy bum, ok_bind,
      ih (fun r hr => hA r (List.mem_cons_of_mem _ hr)), ok_bind, pure_eq]
    rfl

theorem mem_zipWith' {α β γ} (f : α → β → γ) : ∀ (l : List α) (l' : List β) (x : γ), x ∈ List.zipWith f l l' → ∃ a ∈ l, ∃ b ∈ l', x = f a b := by
  intro l
  induction l with
  | nil => intro l' x h; simp at h
  | cons a as ih =>
    intro l' x h
    cases l' with
    | nil => simp at h
    | cons b bs =>
      rw [List.zipWith_cons_cons] at h
      rcases List.mem_cons.mp h with rfl | h
      · exact ⟨a, List.mem_cons_self .., b, List.mem_cons_self .., rfl⟩
      · obtain ⟨a', ha', b', hb', e⟩ := ih bs x h
        exact ⟨a', List.mem_cons_of_mem _ ha', b', List.mem_cons_of_mem _ hb', e⟩

theorem addReduce_pure (m : Mode) (u v : List Poly) (hu : ∀ q ∈ u, Can q) (hv : ∀ q ∈ v, ∀ x ∈ q, -4190208 ≤ x ∧ x ≤ 4190208) :
    (do let tnr ← addVectorNtt m u v; tnr.mapM (fun q : Poly => q.mapM (full_reduce32 m))) =
      .ok (List.zipWith (fun p q => List.zipWith (fun a b => (a + b) % Q) p q) u v) := by
  unfold addVectorNtt
  have h1 : zipWithM (fun p q => zipWithM (fun a b => arith .i32 m "helpers.rs:add_vector_ntt:+" (a + b)) p q) u v =
      .ok (List.zipWith (fun p q => List.zipWith (fun a b => a + b) p q) u v) :=
    zipWithM_pure _ _ Can (fun q => ∀ x ∈ q, -4190208 ≤ x ∧ x ≤ 4190208)
      (fun p q hp hq => zipWithM_pure _ _ (fun a => 0 ≤ a ∧ a < 8380417) (fun b => -4190208 ≤ b ∧ b ≤ 4190208)
        (fun a b ha hb => arith_i32 _ _ _ (by omega) (by omega)) p q hp hq) u v hu hv
  rw [h1, ok_bind]
  have h2 : (List.zipWith (fun p q => List.zipWith (fun a b => a + b) p q) u v).mapM (fun q : Poly => q.mapM (full_reduce32 m)) =
      .ok ((List.zipWith (fun p q => List.zipWith (fun a b => a + b) p q) u v).map (fun q => q.map (fun x => x % Q))) :=
    mapM_pure _ _ _ (fun q hq => mapM_pure _ _ q (fun x hx => by
      obtain ⟨p', hp', q', hq', rfl⟩ := mem_zipWith' _ u v q hq
      obtain ⟨a, ha, b, hb, rfl⟩ := mem_zipWith' _ p' q' x hx
      have h1 := hu p' hp' a ha
      have h2 := hv q' hq' b hb
      exact full_reduce32_eq m _ (by omega) (by omega)))
  rw [h2]
  congr 1
  apply List.ext_getElem (by simp)
  intro i h1' h2'
  simp only [List.getElem_map, List.getElem_zipWith]
  apply List.ext_getElem (by simp)
  intro j g1 g2
  simp only [List.getElem_map, List.getElem_zipWith]

/-- **key generation is Algorithm 6**: serialising the pair `key_gen_internal` returns gives, for every seed, exactly the
    bytes `keygenSpec` computes (`pkEncode(rho, t1)`, `skEncode(rho, K, tr, s1, s2, t0)` with
    `t = NTT^-1(A_hat ∘ NTT(s1)) + s2 mod q` in exact arithmetic and `(t1, t0) = Power2Round(t)`) -/
theorem keygen_bytes_eq_spec (m : Mode) (O : Oracles) (hO : OracleOk O) (p : ParamSet) (he : p.eta = 2 ∨ p.eta = 4) (hl7 : p.l ≤ 7)
    (hpcfg : p.pkLen = 32 + 32 * p.k * blqd) (bl : Nat) (hbl : bitLen m (2 * p.eta) = .ok bl)
    (hcfg : p.skLen = 128 + 32 * ((p.k + p.l) * bl + D.toNat * p.k)) (xi : List Nat) :
    (keyGenInternal m O false p xi >>= fun kp => pkIntoBytes m p kp.1 >>= fun pkb => skIntoBytes m p kp.2 >>= fun skb => pure (pkb, skb)) =
      keygenSpec m O p xi := by
  unfold keyGenInternal keygenSpec
  simp only [bind_assoc]
  have hrho : ((O.h (xi ++ [p.k % 256, p.l % 256]) 128).take 32).length = 32 := by rw [List.length_take, hO.hlen]; omega
  have hrhoP : (((O.h (xi ++ [p.k % 256, p.l % 256]) 128).drop 32).take 64).length = 64 := by
    rw [List.length_take, List.length_drop, hO.hlen]; omega
  have hkey : (((O.h (xi ++ [p.k % 256, p.l % 256]) 128).drop 96).take 32).length = 32 := by
    rw [List.length_take, List.length_drop, hO.hlen]; omega
  refine bind_congr_on (expandS_np m O hO p he _ hrhoP) (fun ss hss => ?_)
  obtain ⟨s1, s2⟩ := ss
  obtain ⟨sh1, sh2, r1, r2⟩ := hss
  simp only [] at sh1 sh2 r1 r2 ⊢
  refine bind_congr_on (expandA_np m O hO false p _ hrho) (fun aHat hA => ?_)
  have eta4 : 0 ≤ p.eta ∧ p.eta ≤ 4 := by rcases he with h | h <;> omega
  have hAA : ∀ row ∈ aHat, s1.length = row.length ∧ row.length ≤ 7 ∧ ∀ q ∈ row, Res q :=
    fun row hrow => ⟨by rw [sh1.1, (hA.2 row hrow).1], by rw [(hA.2 row hrow).1]; exact hl7, fun q hq => ((hA.2 row hrow).2 q hq).2⟩
  have b1 : ∀ w ∈ s1, Bnd 524288 w := fun w hw x hx => by have := r1 w hw x hx; omega
  have b2 : ∀ w ∈ s2, Bnd 524288 w := fun w hw x hx => by have := r2 w hw x hx; omega
  obtain ⟨s1h, h1, bs1h⟩ := ntt_ok m s1 b1
  have bsy : ∀ w ∈ s1h, Bnd 67000000 w := fun w hw => (bs1h w hw).mono (by omega)
  have bum : ∀ w ∈ toMontP s1h, Bnd 16760833 w := by
    intro w hw x hx
    unfold toMontP at hw
    obtain ⟨q, hq, rfl⟩ := List.mem_map.mp hw
    obtain ⟨y, hy, rfl⟩ := List.mem_map.mp hx
    have hb := bsy q hq y hy
    have := pr64s_spec y hb.1 hb.2
    omega
  have hmv := matVecMul_pure m aHat s1h 7 (fun row hrow => ⟨(hAA row hrow).2.1, (hAA row hrow).2.2⟩) bsy (by omega)
  have hinv : invNtt m (matP aHat s1h) = .ok (aHat.map (fun row => canon ((invS 8 1 (rowS row s1 zeroPoly)).map (fun x => FS * x)))) := by
    unfold invNtt matP
    exact commitRows_spec m s1 s1h (by unfold ntt at h1; exact h1) b1 bum aHat hAA
  have hcan : ∀ q ∈ aHat.map (fun row => canon ((invS 8 1 (rowS row s1 zeroPoly)).map (fun x => FS * x))), Can q := by
    intro q hq
    obtain ⟨row, _, rfl⟩ := List.mem_map.mp hq
    exact canon_can _
  have hadd := addReduce_pure m _ s2 hcan (fun q hq x hx => by have := r2 q hq x hx; omega)
  obtain ⟨tnr, ht1, ht2⟩ := bind_ok_inv hadd
  have ht : List.zipWith (fun p q => List.zipWith (fun a b => (a + b) % Q) p q)
      (aHat.map (fun row => canon ((invS 8 1 (rowS row s1 zeroPoly)).map (fun x => FS * x)))) s2 =
      List.zipWith (fun row s2r => tRowS row s1 s2r) aHat s2 := by
    rw [List.zipWith_map_left]; rfl
  rw [ht] at ht2
  -- shapes
  have shw : Sh p.k (aHat.map (fun row => canon ((invS 8 1 (rowS row s1 zeroPoly)).map (fun x => FS * x)))) := by
    have s1sh := ntt_sh m p.l s1 s1h sh1 h1
    have smv := matVecMul_sh m aHat s1h (matP aHat s1h) p.k p.l hA.1 (fun row hrow q hq => ((hA.2 row hrow).2 q hq).1) s1sh hmv
    exact invNtt_sh m p.k _ _ smv hinv
  have hshT : Sh p.k (List.zipWith (fun row s2r => tRowS row s1 s2r) aHat s2) := by
    rw [← ht]
    refine ⟨by rw [List.length_zipWith, shw.1, sh2.1]; exact Nat.min_self _, fun q hq => ?_⟩
    obtain ⟨a, ha, b, hb, rfl⟩ := mem_zipWith' _ _ _ q hq
    rw [List.length_zipWith, shw.2 a ha, sh2.2 b hb]; rfl
  have hcanT : ∀ q ∈ List.zipWith (fun row s2r => tRowS row s1 s2r) aHat s2, Can q := by
    intro q hq
    obtain ⟨a, _, b, _, hqe⟩ := mem_zipWith' (fun row s2r => tRowS row s1 s2r) aHat s2 q hq
    intro x hx
    rw [hqe] at hx
    have hx' : x ∈ List.zipWith (fun a b => (a + b) % Q) (canon ((invS 8 1 (rowS a s1 zeroPoly)).map (fun x => FS * x))) b := hx
    obtain ⟨a', _, b', _, hxe⟩ := mem_zipWith' (fun a b => (a + b) % Q) _ _ x hx'
    rw [hxe]
    simp only [Q]; omega
  have hp2 := power2round_pure m _ hcanT
  obtain ⟨_, _, _, sht1, sht0, bt1, bt0⟩ := power2round_ok m p.k _ hcanT hshT
  rename_i r1' r0' hp2'
  rw [hp2] at hp2'
  have er := ok_inj hp2'
  simp only [Prod.mk.injEq] at er
  obtain ⟨e1, e0⟩ := er
  subst e1 e0
  -- the encoders and the stored forms
  obtain ⟨pkb, hpk⟩ := pkEncode_ok m p _ _ hrho hpcfg sht1 bt1
  obtain ⟨t1d2, hpre, _⟩ := precomputeT1_ok m _ bt1
  obtain ⟨a1, ha1, u1⟩ := unMont_nttMont m s1 (fun q hq => ⟨sh1.2 q hq, b1 q hq⟩)
  obtain ⟨a2, ha2, u2⟩ := unMont_nttMont m s2 (fun q hq => ⟨sh2.2 q hq, b2 q hq⟩)
  obtain ⟨a0, ha0, u0⟩ := unMont_nttMont m _ (fun q hq => ⟨sht0.2 q hq, fun x hx => by have := bt0 q hq x hx; omega⟩)
  obtain ⟨r, a, b, g1, g2, g3, g4⟩ := precompute_round m _ (fun q hq => ⟨sht1.2 q hq, bt1 q hq⟩)
  rw [hpre] at g1
  have eg := ok_inj g1
  subst eg
  have htop : top = 4096 := by decide
  obtain ⟨skb, hsk, _⟩ := skEncode_ok m p he bl hbl hcfg
    { rho := (O.h (xi ++ [p.k % 256, p.l % 256]) 128).take 32, key := ((O.h (xi ++ [p.k % 256, p.l % 256]) 128).drop 96).take 32,
      tr := O.h pkb 64, s1 := s1, s2 := s2, t0 := (List.zipWith (fun row s2r => tRowS row s1 s2r) aHat s2).map (fun q => q.map (fun x => (Spec.power2round x).2)) }
    hrho hkey (hO.hlen _ _) ⟨sh1, r1⟩ ⟨sh2, r2⟩ ⟨sht0, fun q hq x hx => by have := bt0 q hq x hx; rw [htop]; omega⟩
  -- run both sides
  rw [h1, ok_bind, hmv, ok_bind, hinv, ok_bind, ht1, ok_bind, ht2, ok_bind, hp2, ok_bind]
  simp only []
  rw [hpk, ok_bind, ok_bind, hpre, ok_bind, ha1, ok_bind, ha2, ok_bind, ha0, ok_bind, pure_eq, ok_bind, hsk, ok_bind]
  unfold pkIntoBytes skIntoBytes
  simp only []
  rw [g2, ok_bind, g3, ok_bind, g4, hpk, ok_bind, u1, ok_bind, u2, ok_bind, u0, ok_bind, hsk, ok_bind]

end Fips204.Impl
