import Fips204.Lemmas.GenKeys
/-! `mat_vec_mul` as a pure function of its inputs (inside its overflow envelope), and its compatibility with congruence
    modulo q in the vector argument. -/
namespace Fips204.Impl
open Fips204 Fips204.Gen Fips204.K

/-- pure three-way zip -/
def zw3 (g : Int → Int → Int → Int) (l l' l'' : List Int) : List Int :=
  List.zipWith (fun e (au : Int × Int) => g e au.1 au.2) l (List.zip l' l'')

theorem zipWith3M_pure (f : Int → Int → Int → M Int) (g : Int → Int → Int → Int) (P P' P'' : Int → Prop)
    (hf : ∀ a b c, P a → P' b → P'' c → f a b c = .ok (g a b c)) :
    ∀ (l l' l'' : List Int), (∀ a ∈ l, P a) → (∀ b ∈ l', P' b) → (∀ c ∈ l'', P'' c) → zipWith3M f l l' l'' = .ok (zw3 g l l' l'') := by
  intro l
  induction l with
  | nil => intro l' l'' _ _ _; simp [zipWith3M, zw3, pure_eq]
  | cons a as ih =>
    intro l' l'' h h' h''
    cases l' with
    | nil => simp [zipWith3M, zw3, pure_eq]
    | cons b bs =>
      cases l'' with
      | nil => simp [zipWith3M, zw3, pure_eq]
      | cons c cs =>
        simp only [zipWith3M]
        rw [hf a b c (h a (List.mem_cons_self ..)) (h' b (List.mem_cons_self ..)) (h'' c (List.mem_cons_self ..)), ok_bind,
          ih bs cs (fun x hx => h x (List.mem_cons_of_mem _ hx)) (fun x hx => h' x (List.mem_cons_of_mem _ hx)) (fun x hx => h'' x (List.mem_cons_of_mem _ hx)),
          ok_bind, pure_eq]
        simp [zw3]

/-- the value `mat_vec_mul_acc` returns -/
def accP (e a u : Int) : Int := e + montv (a * u)

theorem acc_eq (m : Mode) (C e a u : Int) (he : -C ≤ e ∧ e ≤ C) (ha : 0 ≤ a ∧ a ≤ 8380416) (hu : -16760833 ≤ u ∧ u ≤ 16760833)
    (hC : 0 ≤ C) (hfit : C + 8380416 ≤ 2147483647) : mat_vec_mul_acc m e a u = .ok (accP e a u) := by
  have hp := mul_bound a u 8380416 16760833 ha.1 ha.2 hu.1 hu.2
  have hm := montv_spec (a * u) (by omega) (by omega)
  unfold mat_vec_mul_acc accP
  simp only [arith_i64 _ _ _ (show (-9223372036854775808:Int) ≤ a * u by omega) (show a * u ≤ 9223372036854775807 by omega), ok_bind,
    mont_reduce_eq m _ (show (-17996808479301632:Int) ≤ a * u by omega) (show a * u ≤ 17996808470921215 by omega),
    arith_i32 _ _ _ (show (-2147483648:Int) ≤ e + montv (a * u) by omega) (show e + montv (a * u) ≤ 2147483647 by omega), pure_eq]

theorem accP_bound (C e a u : Int) (he : -C ≤ e ∧ e ≤ C) (ha : 0 ≤ a ∧ a ≤ 8380416) (hu : -16760833 ≤ u ∧ u ≤ 16760833) :
    -(C + 8380416) ≤ accP e a u ∧ accP e a u ≤ C + 8380416 := by
  have hp := mul_bound a u 8380416 16760833 ha.1 ha.2 hu.1 hu.2
  have hm := montv_spec (a * u) (by omega) (by omega)
  unfold accP; omega

theorem zw3_mem (g : Int → Int → Int → Int) (l l' l'' : List Int) (x : Int) (hx : x ∈ zw3 g l l' l'') :
    ∃ e ∈ l, ∃ a ∈ l', ∃ u ∈ l'', x = g e a u := by
  unfold zw3 at hx
  obtain ⟨i, hi, rfl⟩ := List.mem_iff_getElem.mp hx
  rw [List.length_zipWith, List.length_zip] at hi
  rw [List.getElem_zipWith, List.getElem_zip]
  exact ⟨_, List.getElem_mem _, _, List.getElem_mem _, _, List.getElem_mem _, rfl⟩

/-- pure accumulation of one matrix row -/
def rowP (l : List (Poly × Poly)) (acc : List Int) : List Int := l.foldl (fun acc au => zw3 accP acc au.1 au.2) acc

theorem rowAcc_pure (m : Mode) : ∀ (l : List (Poly × Poly)) (acc : List Int) (C : Int), Bnd C acc → 0 ≤ C →
    C + l.length * 8380416 ≤ 2147483647 → (∀ au ∈ l, Res au.1 ∧ Bnd 16760833 au.2) →
    l.foldlM (fun acc au => zipWith3M (mat_vec_mul_acc m) acc au.1 au.2) acc = .ok (rowP l acc) := by
  intro l
  induction l with
  | nil => intro acc C _ _ _ _; simp [rowP, pure_eq]
  | cons au l ih =>
    intro acc C hacc hC hfit hl
    have hlen : ((au :: l).length : Int) = (l.length : Int) + 1 := by simp
    rw [hlen] at hfit
    obtain ⟨h1, h2⟩ := hl au (List.mem_cons_self ..)
    have hlnn : (0:Int) ≤ (l.length : Int) := Int.natCast_nonneg _
    have hstep := zipWith3M_pure (mat_vec_mul_acc m) accP (fun e => -C ≤ e ∧ e ≤ C) (fun a => 0 ≤ a ∧ a ≤ 8380416)
      (fun u => -16760833 ≤ u ∧ u ≤ 16760833) (fun e a u he ha hu => acc_eq m C e a u he ha hu hC (by omega)) acc au.1 au.2 hacc h1 h2
    have hb : Bnd (C + 8380416) (zw3 accP acc au.1 au.2) := by
      intro x hx
      obtain ⟨e, he, a, ha, u, hu, rfl⟩ := zw3_mem accP acc au.1 au.2 x hx
      exact accP_bound C e a u (hacc e he) (h1 a ha) (h2 u hu)
    rw [List.foldlM_cons, hstep, ok_bind, ih _ (C + 8380416) hb (by omega) (by omega) (fun x hx => hl x (List.mem_cons_of_mem _ hx))]
    simp [rowP]

/-- `to_mont` as a pure function -/
def toMontP (u : List Poly) : List Poly := u.map (fun p => p.map pr64s)

theorem toMont_pure (m : Mode) (u : List Poly) (hu : ∀ w ∈ u, Bnd 67000000 w) : toMont m u = .ok (toMontP u) := by
  unfold toMont toMontP
  exact mapM_pure _ _ u (fun p hp => mapM_pure _ _ p (fun x hx => to_mont_coeff_eq m x (hu p hp x hx).1 (hu p hp x hx).2))

/-- `mat_vec_mul` as a pure function -/
def matP (a : List (List Poly)) (u : List Poly) : List Poly := a.map (fun row => rowP (row.zip (toMontP u)) zeroPoly)

theorem matVecMul_pure (m : Mode) (a : List (List Poly)) (u : List Poly) (n : Nat)
    (ha : ∀ row ∈ a, row.length ≤ n ∧ ∀ p ∈ row, Res p) (hu : ∀ w ∈ u, Bnd 67000000 w) (hn : n ≤ 200) :
    matVecMul m a u = .ok (matP a u) := by
  unfold matVecMul matP
  rw [toMont_pure m u hu, ok_bind]
  refine mapM_pure _ _ a (fun row hrow => ?_)
  obtain ⟨hlen, hres⟩ := ha row hrow
  have hz : Bnd 0 zeroPoly := by
    intro x hx; unfold zeroPoly at hx; have := List.eq_of_mem_replicate hx; omega
  have hzl : (row.zip (toMontP u)).length ≤ n := by
    have := List.length_zip (l₁ := row) (l₂ := toMontP u); omega
  have hzl' : ((row.zip (toMontP u)).length : Int) ≤ (n : Int) := Int.ofNat_le.mpr hzl
  have hn' : (n : Int) ≤ 200 := Int.ofNat_le.mpr hn
  have hnn : (0:Int) ≤ ((row.zip (toMontP u)).length : Int) := Int.natCast_nonneg _
  have bum : ∀ w ∈ toMontP u, Bnd 16760833 w := by
    intro w hw x hx
    unfold toMontP at hw
    obtain ⟨p, hp, rfl⟩ := List.mem_map.mp hw
    obtain ⟨y, hy, rfl⟩ := List.mem_map.mp hx
    have := pr64s_spec y (hu p hp y hy).1 (hu p hp y hy).2
    omega
  exact rowAcc_pure m (row.zip (toMontP u)) zeroPoly 0 hz (by omega) (by omega)
    (fun au hau => ⟨hres au.1 (List.of_mem_zip hau).1, bum au.2 (List.of_mem_zip hau).2⟩)

/-! ### congruence in the vector argument -/

/-- elementwise congruence of two vectors of polynomials -/
def CongV (u v : List Poly) : Prop := u.length = v.length ∧ ∀ i (h1 : i < u.length) (h2 : i < v.length), CongL u[i] v[i]

theorem CongV.uncons {a b : Poly} {as bs : List Poly} (h : CongV (a :: as) (b :: bs)) : CongL a b ∧ CongV as bs :=
  ⟨h.2 0 (by simp) (by simp), by have := h.1; simp at this; exact this, fun i h1 h2 => by
    have := h.2 (i + 1) (by simp; omega) (by simp; omega)
    simpa using this⟩

theorem CongV.nil_left {v : List Poly} (h : CongV [] v) : v = [] := by
  have := h.1; simp at this; exact List.eq_nil_of_length_eq_zero this.symm

theorem zw3_cong (a : List Int) (ha : ∀ x ∈ a, 0 ≤ x ∧ x ≤ 8380416) (acc acc' u u' : List Int) (hacc : CongL acc acc') (hu : CongL u u')
    (bu : Bnd 16760833 u) (bu' : Bnd 16760833 u') : CongL (zw3 accP acc a u) (zw3 accP acc' a u') := by
  unfold zw3
  refine ⟨by simp only [List.length_zipWith, List.length_zip, hacc.1, hu.1], fun i h1 h2 => ?_⟩
  rw [List.length_zipWith, List.length_zip] at h1 h2
  rw [List.getElem_zipWith, List.getElem_zipWith, List.getElem_zip, List.getElem_zip]
  simp only []
  have hai := ha a[i] (List.getElem_mem _)
  have hui := bu (u[i]'(by omega)) (List.getElem_mem _)
  have hui' := bu' (u'[i]'(by omega)) (List.getElem_mem _)
  have hp := mul_bound a[i] (u[i]'(by omega)) 8380416 16760833 hai.1 hai.2 hui.1 hui.2
  have hp' := mul_bound a[i] (u'[i]'(by omega)) 8380416 16760833 hai.1 hai.2 hui'.1 hui'.2
  unfold accP
  refine (hacc.2 i (by omega) (by omega)).add ?_
  have c1 := montv_cg (a[i] * (u[i]'(by omega))) (by omega) (by omega)
  have c2 := montv_cg (a[i] * (u'[i]'(by omega))) (by omega) (by omega)
  exact c1.trans ((((hu.2 i (by omega) (by omega)).mul_left a[i]).mul_right RINV).trans c2.symm)

theorem rowP_cong : ∀ (row um um' : List Poly) (acc acc' : List Int), (∀ p ∈ row, Res p) → CongV um um' →
    (∀ w ∈ um, Bnd 16760833 w) → (∀ w ∈ um', Bnd 16760833 w) → CongL acc acc' →
    CongL (rowP (row.zip um) acc) (rowP (row.zip um') acc') := by
  intro row
  induction row with
  | nil => intro um um' acc acc' _ _ _ _ h; simpa [rowP] using h
  | cons r rs ih =>
    intro um um' acc acc' hr hc b b' h
    cases um with
    | nil => rw [hc.nil_left]; simpa [rowP] using h
    | cons w ws =>
      cases um' with
      | nil => have := hc.1; simp at this
      | cons w' ws' =>
        obtain ⟨c0, ct⟩ := hc.uncons
        simp only [List.zip_cons_cons, rowP, List.foldl_cons]
        exact ih ws ws' _ _ (fun p hp => hr p (List.mem_cons_of_mem _ hp)) ct (fun x hx => b x (List.mem_cons_of_mem _ hx))
          (fun x hx => b' x (List.mem_cons_of_mem _ hx))
          (zw3_cong r (hr r (List.mem_cons_self ..)) acc acc' w w' h c0 (b w (List.mem_cons_self ..)) (b' w' (List.mem_cons_self ..)))

theorem toMontP_cong (u u' : List Poly) (h : CongV u u') (b : ∀ w ∈ u, Bnd 67000000 w) (b' : ∀ w ∈ u', Bnd 67000000 w) :
    CongV (toMontP u) (toMontP u') ∧ (∀ w ∈ toMontP u, Bnd 16760833 w) ∧ (∀ w ∈ toMontP u', Bnd 16760833 w) := by
  have bnd : ∀ (v : List Poly), (∀ w ∈ v, Bnd 67000000 w) → ∀ w ∈ toMontP v, Bnd 16760833 w := by
    intro v hv w hw x hx
    unfold toMontP at hw
    obtain ⟨p, hp, rfl⟩ := List.mem_map.mp hw
    obtain ⟨y, hy, rfl⟩ := List.mem_map.mp hx
    have := pr64s_spec y (hv p hp y hy).1 (hv p hp y hy).2
    omega
  refine ⟨⟨by simp [toMontP, h.1], fun i h1 h2 => ?_⟩, bnd u b, bnd u' b'⟩
  unfold toMontP at h1 h2 ⊢
  rw [List.length_map] at h1 h2
  rw [List.getElem_map, List.getElem_map]
  have hc := h.2 i h1 h2
  refine ⟨by simp [hc.1], fun j g1 g2 => ?_⟩
  rw [List.length_map] at g1 g2
  rw [List.getElem_map, List.getElem_map]
  have x1 := b u[i] (List.getElem_mem _) _ (List.getElem_mem g1)
  have x2 := b' u'[i] (List.getElem_mem _) _ (List.getElem_mem g2)
  have s1 := (pr64s_spec _ x1.1 x1.2).1
  have s2 := (pr64s_spec _ x2.1 x2.2).1
  have c1 : cg (pr64s (u[i][j])) (u[i][j] * 4294967296) := s1
  have c2 : cg (pr64s (u'[i][j])) (u'[i][j] * 4294967296) := s2
  exact c1.trans (((hc.2 j g1 g2).mul_right _).trans c2.symm)

/-- `mat_vec_mul` sends congruent vectors to congruent vectors -/
theorem matP_cong (a : List (List Poly)) (ha : ∀ row ∈ a, ∀ p ∈ row, Res p) (u u' : List Poly) (h : CongV u u')
    (b : ∀ w ∈ u, Bnd 67000000 w) (b' : ∀ w ∈ u', Bnd 67000000 w) : CongV (matP a u) (matP a u') := by
  obtain ⟨hc, hb, hb'⟩ := toMontP_cong u u' h b b'
  unfold matP
  refine ⟨by simp, fun i h1 h2 => ?_⟩
  rw [List.length_map] at h1
  rw [List.getElem_map, List.getElem_map]
  exact rowP_cong a[i] _ _ _ _ (ha a[i] (List.getElem_mem _)) hc hb hb' (CongL.refl _)

/-- two canonical lists that are congruent are equal -/
theorem can_eq_of_cong (u v : List Int) (h : CongL u v) (hu : ∀ x ∈ u, 0 ≤ x ∧ x < 8380417) (hv : ∀ x ∈ v, 0 ≤ x ∧ x < 8380417) : u = v := by
  apply List.ext_getElem h.1
  intro i h1 h2
  have := h.2 i h1 h2
  have a := hu u[i] (List.getElem_mem _)
  have b := hv v[i] (List.getElem_mem _)
  unfold cg at this
  omega

/-- the inverse transform of congruent vectors is the same vector -/
theorem invNtt_eq_of_cong (m : Mode) (v v' r r' : List Poly) (h : CongV v v') (b : ∀ w ∈ v, Bnd 2143289343 w) (b' : ∀ w ∈ v', Bnd 2143289343 w)
    (hr : invNtt m v = .ok r) (hr' : invNtt m v' = .ok r') : r = r' := by
  have l := mapM_len _ _ _ hr
  have l' := mapM_len _ _ _ hr'
  apply List.ext_getElem (by rw [l, l', h.1])
  intro i h1 h2
  have g := mapM_get _ v r hr i (by rw [← l]; exact h1) h1
  have g' := mapM_get _ v' r' hr' i (by rw [← l']; exact h2) h2
  have hc := h.2 i (by rw [← l]; exact h1) (by rw [← l']; exact h2)
  obtain ⟨w, e1, c1, s1⟩ := invNttPoly_sem m _ _ hc (b _ (List.getElem_mem _))
  obtain ⟨w', e1', c1', s1'⟩ := invNttPoly_sem m _ _ (CongL.refl (v'[i]'(by rw [← l']; exact h2))) (b' _ (List.getElem_mem _))
  rw [g] at e1; rw [g'] at e1'
  rw [ok_inj e1, ok_inj e1']
  exact can_eq_of_cong w w' (s1.trans s1'.symm) c1 c1'

end Fips204.Impl
